/-
C11 under the invariant, part 10 (API): `open_file_in_dir` — every mode, every outcome — under ANY fault schedule
(`openFile_fault_dirs`): the directories are sound on the medium it leaves.
-/
import Sdmmc.Lemmas.FaultInvApi2
import Sdmmc.Lemmas.FaultInvTrunc
import Sdmmc.Lemmas.VolSfn

namespace Sdmmc.Lemmas.FaultInv
open Sdmmc.Model Sdmmc.Model.Fat Sdmmc.Spec.Volume Sdmmc.Lemmas.VolBase Sdmmc.Lemmas.VolTree
open Sdmmc.Spec hiding NoFault Coherent
open Sdmmc.Lemmas.VolDisk Sdmmc.Lemmas.VolMed Sdmmc.Lemmas.VolApi Sdmmc.Lemmas.VolEng
open Sdmmc.Lemmas.FBasic (NoFault Coherent)
open Sdmmc.Lemmas.CrashBase Sdmmc.Lemmas.Retry Sdmmc.Lemmas.FaultPre Sdmmc.Lemmas.MHoare

/-- A continuation that touches neither the device nor the directory table. -/
theorem bind_nodev {α β : Type} (m : M α) (f : α → M β)
    (hf : ∀ a s, (f a s).2.dev = s.dev ∧ (f a s).2.dirs = s.dirs) (s : Mgr) :
    ((m >>= f) s).2.dev = (m s).2.dev ∧ ((m >>= f) s).2.dirs = (m s).2.dirs := by
  rw [bind_def]
  rcases m s with ⟨r, s'⟩
  cases r with
  | ok a => exact hf a s'
  | err e => exact ⟨rfl, rfl⟩
  | panic msg => exact ⟨rfl, rfl⟩
  | diverged => exact ⟨rfl, rfl⟩

theorem clock_withFaults (L : List Nat) (s : Mgr) : (withFaults L s).clock = s.clock := rfl

/-- **`open_file_in_dir` under any fault schedule.** -/
theorem openFile_fault_dirs {s0 : Mgr} {gh : Ghost} (hI : VolInv s0 gh) (L : List Nat) (d : Nat) (name : List Nat) (mode : Mode)
    (hname : ∀ sfn, Sfn.createFromStr name = .ok sfn → sfn.head? ≠ some 0xE5) :
    DirsP gh.vol gh.dirs (openFileInDir d name mode (withFaults L s0)).2.dev.disk ∧
    (openFileInDir d name mode (withFaults L s0)).2.dirs = s0.dirs := by
  obtain ⟨hn, hc, hM⟩ := volInv_fs hI
  have h0 : DirsP gh.vol gh.dirs s0.dev.disk := dirsP_of_med hM
  rw [Modes.openFileInDir_eq]
  unfold Modes.openFileInDirAlt
  rw [get_bind]
  by_cases hroom : (withFaults L s0).files.length ≥ (withFaults L s0).maxFiles
  · rw [if_pos hroom]; exact ⟨h0, rfl⟩
  rw [if_neg hroom]
  cases hidx : s0.dirs.findIdx? (·.rawDirectory = d) with
  | none => rw [bind_err (getDirById_bad (s := withFaults L s0) hidx)]; exact ⟨h0, rfl⟩
  | some i =>
    obtain ⟨di, hdi, _⟩ := findIdx?_some_get hidx
    have hdim : di ∈ s0.dirs := List.mem_of_getElem? hdi
    rw [bind_ok (getDirById_ok (s := withFaults L s0) hidx), bind_ok (getDir_ok (s := withFaults L s0) hdi)]
    cases hv : s0.vols.findIdx? (·.rawVolume = di.rawVolume) with
    | none => rw [bind_err (getVolumeById_bad (s := withFaults L s0) hv)]; exact ⟨h0, rfl⟩
    | some volIdx =>
      obtain ⟨hz, vi, hvs, hvol, hraw⟩ := vol_of_handle hI hv
      subst hz
      rw [bind_ok (getVolumeById_ok (s := withFaults L s0) hv)]
      cases hs : Sfn.createFromStr name with
      | error e => rw [bind_err (Modes.toSfn_err hs _)]; exact ⟨h0, rfl⟩
      | ok sfn =>
        rw [bind_ok (Modes.toSfn_ok hs _), attempt_bind]
        have hdv := hI.openDirs di hdim
        obtain ⟨r, fs', hlk, hdisk, hvol', h1, hcase⟩ := lookup_found hI hvs hvol hdv sfn (hname sfn hs)
        rcases lookup_faulted hI hvs hvol di.cluster sfn L with hq | ⟨he, hu⟩
        swap
        · -- the lookup failed on the device
          rw [he, Modes.tail_err _ _ _ _ _ .DeviceError (by decide)]
          exact ⟨by rw [hu.disk]; exact h0, hu.dirs⟩
        -- the lookup is the fault-free lookup
        rw [hlk] at hq
        rw [hq]
        set s1 := afterVol s0 vi fs' with hs1
        have hvs1 : s1.vols = [{ vi with vol := fs'.vol }] := rfl
        have hraw1 : ({ vi with vol := fs'.vol } : VolInfo).rawVolume = di.rawVolume := hraw
        have h01 : DirsP gh.vol gh.dirs s1.dev.disk := by rw [hdisk]; exact h0
        obtain ⟨hn1, hc1, hM1⟩ := volInv_fs h1
        have hv1 : s1.vols.findIdx? (·.rawVolume = di.rawVolume) = some 0 := by rw [hvs1]; simp [hraw]
        rcases hcase with ⟨hr, hfresh⟩ | ⟨e, o, hr, hF⟩
        · -- the name is free
          subst hr
          by_cases hm : mode = .ReadWriteCreate ∨ mode = .ReadWriteCreateOrTruncate ∨ mode = .ReadWriteCreateOrAppend
          · rw [Modes.tail_create_eq di 0 sfn _ mode hm]
            unfold Modes.createRun
            rw [bind_ok (getVolumeById_ok (s := withFaults L s1) hv1)]
            obtain ⟨hlen11, hnz⟩ := VolSfn.sfn_facts hs
            have hfresh1 : sfn ∉ (entries (dirSlots (fsOf s1 gh).vol (fsOf s1 gh).dev.disk gh.G (dirIdOf di.cluster))).map sName := by
              show sfn ∉ (entries (dirSlots gh.vol s1.dev.disk gh.G (dirIdOf di.cluster))).map sName
              rw [hdisk]; exact hfresh
            have hcr := newEntry_crash_dirs hM1 hn1 hc1 hdv sfn hlen11 0 0 s1.clock
              (create_final_dirs hM1 hn1 hc1 hdv sfn hlen11 hnz (VolSfn.sfn_first_ne_e5 (hname sfn hs)) hfresh1 s1.clock)
            obtain ⟨hP, _, hdr, _⟩ := withVol_faulted (writeNewDirectoryEntry_pre di.cluster sfn 0 0 s1.clock)
              (Fault.writeNewDirectoryEntry_inv di.cluster sfn 0 0 s1.clock) hn1 hvs1 hvol' L
            obtain ⟨hd1, hd2⟩ := bind_nodev (withVol 0 (Fat.writeNewDirectoryEntry di.cluster sfn 0 Gen.CLUSTER_EMPTY (withFaults L s1).clock))
              (fun entry => generate >>= fun id => M.modify (fun s => { s with files := s.files ++ [Modes.createdFile di id entry] }) >>= fun _ => pure id)
              (fun _ _ => ⟨rfl, rfl⟩) (withFaults L s1)
            rw [hd1, hd2]
            exact ⟨hP _ hcr, hdr⟩
          · have hm' : mode = .ReadOnly ∨ mode = .ReadWriteAppend ∨ mode = .ReadWriteTruncate := by
              cases mode <;> simp at hm ⊢
            rw [Modes.tail_notFound di 0 sfn _ mode hm']
            exact ⟨h01, rfl⟩
        · -- the name exists
          subst hr
          obtain ⟨hen, hea, hes, heb, heo, hnd⟩ := hF.fields
          have hopenf : fileIsOpen (withFaults L s1) di.rawVolume e = fileIsOpen s1 di.rawVolume e := rfl
          by_cases hopen : fileIsOpen s1 di.rawVolume e = true
          · rw [Modes.tail_open di 0 sfn _ mode e (by rw [hopenf]; exact hopen)]
            exact ⟨h01, rfl⟩
          have hopen' : fileIsOpen s1 di.rawVolume e = false := by simpa using hopen
          by_cases hcreate : mode = .ReadWriteCreate
          · subst hcreate
            rw [Modes.tail_exists di 0 sfn _ e (by rw [hopenf]; exact hopen')]
            exact ⟨h01, rfl⟩
          by_cases hro : Attr.isReadOnly e.attributes = true ∧ mode ≠ .ReadOnly
          · rw [Modes.tail_readOnlyAttr di 0 sfn _ mode e (by rw [hopenf]; exact hopen') hcreate hro.2 hro.1]
            exact ⟨h01, rfl⟩
          have hro' : Attr.isReadOnly e.attributes = false ∨ mode = .ReadOnly := by
            by_cases h : mode = .ReadOnly
            · exact .inr h
            · left
              by_cases h2 : Attr.isReadOnly e.attributes = true
              · exact absurd ⟨h2, h⟩ hro
              · simpa using h2
          by_cases hisd : Attr.isDirectory e.attributes = true
          · rw [Modes.tail_dirAsFile di 0 sfn _ mode e (by rw [hopenf]; exact hopen') hcreate hro' hisd]
            exact ⟨h01, rfl⟩
          have hdir' : Attr.isDirectory e.attributes = false := by simpa using hisd
          -- the truncating modes
          have htrunc : ∀ (hm : mode = .ReadWriteTruncate ∨ mode = .ReadWriteCreateOrTruncate)
              (hron : Attr.isReadOnly e.attributes = false),
              DirsP gh.vol gh.dirs (Modes.openFileTail di 0 sfn mode (.ok e) (withFaults L s1)).2.dev.disk ∧
              (Modes.openFileTail di 0 sfn mode (.ok e) (withFaults L s1)).2.dirs = s0.dirs := by
            intro hm hron
            rw [Modes.tail_truncate_eq di 0 sfn _ mode hm e (by rw [hopenf]; exact hopen') hron hdir']
            unfold Modes.truncRun
            set s1' : Mgr := { s1 with nextId := (s1.nextId + 1) % 4294967296 } with hs1'
            have hst : ({ withFaults L s1 with nextId := ((withFaults L s1).nextId + 1) % 4294967296 } : Mgr) = withFaults L s1' := rfl
            rw [hst]
            set te := (Modes.truncatedFile di (withFaults L s1).nextId e (withFaults L s1).clock).entry with hte
            obtain ⟨hobj, hod, hfree⟩ := hF.object h1 hvs1 hdv hraw1 hdir' hopen'
            obtain ⟨_, hcl⟩ := hnd hdir'
            obtain ⟨hid, _⟩ := validDir_id hM1 hdv
            obtain ⟨fs1, fs2, hr1, hr2, hnf1, hsg1, hcr1, hcr2⟩ :=
              truncOpen_crash hM1 hn1 hc1 hid hobj hod hfree te heb heo hen hea hcl rfl
            have hr1' : Fat.truncateClusterChain e.cluster (fsOf s1' gh) = (.ok (), fs1) := hr1
            -- the continuations do not touch the device
            obtain ⟨hd1, hd2⟩ := bind_nodev
              (do withVol 0 (Fat.truncateClusterChain e.cluster); withVol 0 (Fat.writeEntryToDisk te);
                  pure (Modes.truncatedFile di (withFaults L s1).nextId e (withFaults L s1).clock) : M FileInfo)
              (fun file => M.modify (fun s => { s with files := s.files ++ [file] }) >>= fun _ => pure (withFaults L s1).nextId)
              (fun _ _ => ⟨rfl, rfl⟩) (withFaults L s1')
            rw [hd1, hd2]
            -- the truncation
            obtain ⟨hP1, _, hdr1, hcase1⟩ := withVol_faulted (truncateClusterChain_pre e.cluster) (Fault.truncateClusterChain_inv e.cluster)
              (show NoFault (fsOf s1' gh) from hn1) (show s1'.vols = [{ vi with vol := fs'.vol }] from rfl) hvol' L
            have hPt := hP1 _ (by rw [hr1']; exact hcr1)
            rcases hcase1 with hq1 | he1
            swap
            · rcases hrunT : withVol 0 (Fat.truncateClusterChain e.cluster) (withFaults L s1') with ⟨rT, sT⟩
              rw [hrunT] at he1 hPt hdr1
              simp only at he1
              subst he1
              rw [bind_err hrunT]
              exact ⟨hPt, hdr1⟩
            have hw1 := withVol_one (Fat.truncateClusterChain e.cluster) (s := s1') (gh := gh) (show s1'.vols = [{ vi with vol := fs'.vol }] from rfl) hvol'
            rw [hr1'] at hw1
            rw [hw1] at hq1
            rw [bind_ok hq1]
            set s2 := afterVol s1' { vi with vol := fs'.vol } fs1 with hs2
            obtain ⟨hd3, hd4⟩ := bind_nodev (withVol 0 (Fat.writeEntryToDisk te))
              (fun _ => (pure (Modes.truncatedFile di (withFaults L s1).nextId e (withFaults L s1).clock) : M FileInfo))
              (fun _ _ => ⟨rfl, rfl⟩) (withFaults L s2)
            rw [hd3, hd4]
            obtain ⟨hP2, _, hdr2, _⟩ := withVol_faulted (gh := { gh with vol := fs1.vol }) (writeEntryToDisk_pre te) (Fault.writeEntryToDisk_inv te)
              (show NoFault (fsOf s2 { gh with vol := fs1.vol }) from hnf1)
              (show s2.vols = [{ ({ vi with vol := fs'.vol } : VolInfo) with vol := fs1.vol }] from rfl) rfl L
            refine ⟨hP2 _ ?_, hdr2⟩
            have hfs : fsOf s2 { gh with vol := fs1.vol } = fs1 := rfl
            rw [hfs, hr2]
            exact hcr2
          cases mode with
          | ReadOnly =>
            rw [Modes.tail_readOnly di 0 sfn _ e (by rw [hopenf]; exact hopen') hdir']
            exact ⟨h01, rfl⟩
          | ReadWriteCreate => exact absurd rfl hcreate
          | ReadWriteAppend =>
            have hron : Attr.isReadOnly e.attributes = false := hro'.elim id (fun h => by cases h)
            rw [Modes.tail_append di 0 sfn _ .ReadWriteAppend e (.inl rfl) (by rw [hopenf]; exact hopen') hron hdir']
            exact ⟨h01, rfl⟩
          | ReadWriteCreateOrAppend =>
            have hron : Attr.isReadOnly e.attributes = false := hro'.elim id (fun h => by cases h)
            rw [Modes.tail_append di 0 sfn _ .ReadWriteCreateOrAppend e (.inr rfl) (by rw [hopenf]; exact hopen') hron hdir']
            exact ⟨h01, rfl⟩
          | ReadWriteTruncate =>
            have hron : Attr.isReadOnly e.attributes = false := hro'.elim id (fun h => by cases h)
            exact htrunc (.inl rfl) hron
          | ReadWriteCreateOrTruncate =>
            have hron : Attr.isReadOnly e.attributes = false := hro'.elim id (fun h => by cases h)
            exact htrunc (.inr rfl) hron

end Sdmmc.Lemmas.FaultInv
