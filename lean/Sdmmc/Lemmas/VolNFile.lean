/-
Several open volumes: the simulation (`RunSim`) of the calls on a FILE handle whose volume is record `i` — `flush_file`,
`close_file`, the seeks and the observers.  (Worked examples of the calculus of `VolNSim` / `VolNRun`.)
-/
import Sdmmc.Lemmas.VolNRun

namespace Sdmmc.Lemmas.VolN
open Sdmmc.Model Sdmmc.Model.Fat Sdmmc.Spec.Volume
open Sdmmc.Spec hiding NoFault Coherent run step
open Sdmmc.Lemmas.MHoare

/-- What `fileTarget s file = some i` says in terms of the key skeleton: the first record with handle `file` sits at some
position `k` and names the volume handle `hv` of record `i`. -/
theorem fileTarget_spec {s : Mgr} {hv i file : Nat} (hvol : s.vols.findIdx? (·.rawVolume = hv) = some i)
    (ht : fileTarget s file = some i) :
    ∃ k, (s.files.map fkeyN).findIdx? (fun e => decide (e.1 = file)) = some k ∧ (s.files.map fkeyN)[k]? = some (file, hv) := by
  unfold fileTarget at ht
  cases hk : s.files.findIdx? (·.rawFile = file) with
  | none => rw [hk] at ht; cases ht
  | some k =>
    rw [hk] at ht
    simp only at ht
    obtain ⟨f, hf, hp⟩ := findIdx?_some_get hk
    rw [hf] at ht
    simp only at ht
    obtain ⟨vi, hvi, hp1⟩ := findIdx?_some_get hvol
    obtain ⟨vi', hvi', hp2⟩ := findIdx?_some_get ht
    rw [hvi] at hvi'
    cases hvi'
    have h1 : vi.rawVolume = hv := by simpa using hp1
    have h2 : vi.rawVolume = f.rawVolume := by simpa using hp2
    have h3 : f.rawFile = file := by simpa using hp
    refine ⟨k, ?_, ?_⟩
    · rw [← findIdx?_map_key fkeyN (fun e => decide (e.1 = file))]; exact hk
    · rw [List.getElem?_map, hf]
      show some (f.rawFile, f.rawVolume) = _
      rw [h3, ← h2, h1]

/-- The same for a directory handle. -/
theorem dirTarget_spec {s : Mgr} {hv i dir : Nat} (hvol : s.vols.findIdx? (·.rawVolume = hv) = some i)
    (ht : dirTarget s dir = some i) :
    ∃ k, (s.dirs.map dkey).findIdx? (fun e => decide (e.1 = dir)) = some k ∧ (s.dirs.map dkey)[k]? = some (dir, hv) := by
  unfold dirTarget at ht
  cases hk : s.dirs.findIdx? (·.rawDirectory = dir) with
  | none => rw [hk] at ht; cases ht
  | some k =>
    rw [hk] at ht
    simp only at ht
    obtain ⟨f, hf, hp⟩ := findIdx?_some_get hk
    rw [hf] at ht
    simp only at ht
    obtain ⟨vi, hvi, hp1⟩ := findIdx?_some_get hvol
    obtain ⟨vi', hvi', hp2⟩ := findIdx?_some_get ht
    rw [hvi] at hvi'
    cases hvi'
    have h1 : vi.rawVolume = hv := by simpa using hp1
    have h2 : vi.rawVolume = f.rawVolume := by simpa using hp2
    have h3 : f.rawDirectory = dir := by simpa using hp
    refine ⟨k, ?_, ?_⟩
    · rw [← findIdx?_map_key dkey (fun e => decide (e.1 = dir))]; exact hk
    · rw [List.getElem?_map, hf]
      show some (f.rawDirectory, f.rawVolume) = _
      rw [h3, ← h2, h1]

/-- The record `getFile k` answers, under the skeleton. -/
theorem getFile_skel {hv i : Nat} {σd σf : List (Nat × Nat)} {s : Mgr} (hs : Skel hv i σd σf s) {k r : Nat}
    (hown : σf[k]? = some (r, hv)) {f : FileInfo} (hget : (getFile k s).1 = .ok f) :
    s.files[k]? = some f ∧ f.rawFile = r ∧ f.rawVolume = hv := by
  obtain ⟨f0, hf0, hr0, hv0⟩ := skel_file hs hown
  rw [getFile_ok hf0] at hget
  cases hget
  exact ⟨hf0, hr0, hv0⟩

theorem getDir_skel {hv i : Nat} {σd σf : List (Nat × Nat)} {s : Mgr} (hs : Skel hv i σd σf s) {k r : Nat}
    (hown : σd[k]? = some (r, hv)) {d : DirInfo} (hget : (getDir k s).1 = .ok d) :
    s.dirs[k]? = some d ∧ d.rawDirectory = r ∧ d.rawVolume = hv := by
  obtain ⟨f0, hf0, hr0, hv0⟩ := skel_dir hs hown
  rw [getDir_ok hf0] at hget
  cases hget
  exact ⟨hf0, hr0, hv0⟩

section
variable {hv i : Nat} {σd σf : List (Nat × Nat)}

/-! ### `flush_file` -/

theorem flush_simAt {s : Mgr} {file k : Nat} (hs : Skel hv i σd σf s)
    (hk : σf.findIdx? (fun e => decide (e.1 = file)) = some k) (hown : σf[k]? = some (file, hv)) :
    SimAt hv i σd σf Eq (flushFile file) (flushFile file) s := by
  unfold flushFile
  refine SimAt.bind (sim_getFileById hs hk hown) fun a b hab _ hs => ?_
  obtain ⟨rfl, rfl⟩ := hab
  refine SimAt.bind (sim_getFile hs hown) fun f f' hff hget hs' => ?_
  subst hff
  obtain ⟨_, _, hfv⟩ := getFile_skel hs hown hget
  refine SimAt.ite (fun _ => ?_) (fun _ => sim_pure hs' ())
  rw [hfv]
  refine SimAt.bind (sim_getVolumeById hs') fun a b hab _ hs => ?_
  obtain ⟨rfl, rfl⟩ := hab
  refine SimAt.bind (sim_withVol hs _) fun _ _ _ _ hs => ?_
  exact SimAt.ite (fun _ => sim_panic hs _) (fun _ => sim_withVol hs _)

theorem flush_runSim {s : Mgr} {file : Nat} (hvol : s.vols.findIdx? (·.rawVolume = hv) = some i)
    (ht : fileTarget s file = some i) : RunSim hv i (flushFile file) s := by
  obtain ⟨k, hk, hown⟩ := fileTarget_spec hvol ht
  exact RunSim.of_simAt (flush_simAt ⟨hvol, rfl, rfl⟩ hk hown)

/-! ### `close_file` -/

theorem closeFile_runSim {s : Mgr} {file : Nat} (hvol : s.vols.findIdx? (·.rawVolume = hv) = some i)
    (ht : fileTarget s file = some i) : RunSim hv i (closeFile file) s := by
  obtain ⟨k, hk, hown⟩ := fileTarget_spec hvol ht
  have hs : Skel hv i (s.dirs.map dkey) (s.files.map fkeyN) s := ⟨hvol, rfl, rfl⟩
  apply RunSim2.toRunSim
  unfold closeFile
  refine SimAt.bind_run (flush_simAt hs hk hown).attempt fun r r' hrr _ hs1 => ?_
  refine SimAt.bind_run (sim_getFileById hs1 hk hown) fun a b hab _ hs2 => ?_
  obtain ⟨rfl, rfl⟩ := hab
  obtain ⟨f, hf, _, hfv⟩ := skel_file hs2 hown
  refine RunSim2.bind_const (run_swapRemoveFile hf hfv (pk_files hs2 a).symm) fun _ _ _ => ?_
  exact ⟨r, r', fun _ => rfl, fun _ => rfl, hrr⟩

end

end Sdmmc.Lemmas.VolN
