/-
C11 — THE CACHE AFTER ANY CALL, FAILED OR NOT: from a coherent cache (a tagged buffer holds what the medium holds at
that block) every function of the FAT engine and every call of the API leaves a coherent cache again — under ANY
fault schedule, whatever the outcome (`Ok`, error, panic).  This rests on the repaired `BlockCache::write_back`: a
failed device write clears the tag, exactly as a failed device read always did.

`CohT P m Q` is the Hoare triple behind it: from a state with `P`, `m` ends in `Q` when it answers `Ok` and in a
COHERENT state otherwise.  Between a `cacheModify` and the `writeBack` that follows it the cache is tagged but not
coherent (`Tagged`); every engine function closes that window before it returns.
-/
import Sdmmc.Lemmas.FaultApi
import Sdmmc.Lemmas.FaultPre

namespace Sdmmc.Lemmas.FaultCoh
open Sdmmc.Model Sdmmc.Model.Fat Sdmmc.Lemmas.Fault Sdmmc.Lemmas.FaultPre

/-- From `P`: `Q` after `Ok`, a coherent cache after any other outcome. -/
def CohT {α} (P : FS → Prop) (m : F α) (Q : FS → Prop) : Prop :=
  ∀ s, P s → (∀ a, (m s).1 = .ok a → Q (m s).2) ∧ ((∀ a, (m s).1 ≠ .ok a) → Coh (m s).2)

/-- The cache holds a block (possibly modified and not yet written back). -/
def Tagged (s : FS) : Prop := s.cache.tag ≠ none
/-- Coherent and holding a block. -/
def CohTag (s : FS) : Prop := Coh s ∧ Tagged s

/-- A step that always answers `Ok`. -/
theorem CohT.of_ok {α} {P Q : FS → Prop} {m : F α} (h : ∀ s, P s → ∃ a, (m s).1 = .ok a ∧ Q (m s).2) : CohT P m Q := by
  intro s hs
  obtain ⟨a, ha, hq⟩ := h s hs
  exact ⟨fun _ _ => hq, fun hn => absurd ha (hn a)⟩

/-- A step that never answers `Ok` and leaves the state alone. -/
theorem CohT.of_stop {α} {P Q : FS → Prop} {m : F α} (h : ∀ s, P s → (∀ a, (m s).1 ≠ .ok a) ∧ Coh (m s).2) : CohT P m Q := by
  intro s hs
  obtain ⟨h1, h2⟩ := h s hs
  exact ⟨fun a ha => absurd ha (h1 a), fun _ => h2⟩

theorem CohT.bind {α β} {P Q R : FS → Prop} {m : F α} {f : α → F β} (hm : CohT P m Q) (hf : ∀ a, CohT Q (f a) R) :
    CohT P (m >>= f) R := by
  intro s hs
  obtain ⟨h1, h2⟩ := hm s hs
  rcases hr : m s with ⟨r, s'⟩
  rw [hr] at h1 h2
  cases r with
  | ok a => rw [F.bind_ok hr]; exact hf a s' (h1 a rfl)
  | err e =>
    rw [F.bind_err hr]
    exact ⟨fun a ha => (by cases ha), fun _ => h2 fun a ha => by cases ha⟩
  | panic msg =>
    rw [F.bind_panic hr]
    exact ⟨fun a ha => (by cases ha), fun _ => h2 fun a ha => by cases ha⟩
  | diverged =>
    rw [F.bind_diverged hr]
    exact ⟨fun a ha => (by cases ha), fun _ => h2 fun a ha => by cases ha⟩

theorem CohT.weaken {α} {P P' Q Q' : FS → Prop} {m : F α} (h : CohT P m Q) (hp : ∀ s, P' s → P s) (hq : ∀ s, Q s → Q' s) :
    CohT P' m Q' := fun s hs => ⟨fun a ha => hq _ ((h s (hp s hs)).1 a ha), (h s (hp s hs)).2⟩

/-- From `CohTag` instead of `Coh`. -/
theorem CohT.of_cohTag {α} {Q : FS → Prop} {m : F α} (h : CohT Coh m Q) : CohT CohTag m Q := h.weaken (fun _ h => h.1) (fun _ h => h)

/-- All outcomes of a `Coh`-to-`Coh` computation end coherent. -/
theorem CohT.all {α} {P : FS → Prop} {m : F α} (h : CohT P m Coh) (s : FS) (hs : P s) : Coh (m s).2 := by
  obtain ⟨h1, h2⟩ := h s hs
  rcases hr : m s with ⟨r, s'⟩
  rw [hr] at h1 h2
  cases r with
  | ok a => exact h1 a rfl
  | err e => exact h2 fun a ha => by cases ha
  | panic msg => exact h2 fun a ha => by cases ha
  | diverged => exact h2 fun a ha => by cases ha

theorem CohT.attempt {α} {P : FS → Prop} {m : F α} (h : CohT P m Coh) : CohT P (F.attempt m) Coh :=
  .of_ok fun s hs => ⟨(m s).1, rfl, h.all s hs⟩

/-! Steps that do not touch device or cache: any assertion survives an `Ok`; a failure needs a coherent start. -/

theorem CohT.pure {α} {P : FS → Prop} (a : α) : CohT P (pure a : F α) P := .of_ok fun _ hs => ⟨a, rfl, hs⟩
theorem CohT.getVol_coh : CohT Coh F.getVol Coh := .of_ok fun s hs => ⟨s.vol, rfl, hs⟩
theorem CohT.getVol_cohTag : CohT CohTag F.getVol CohTag := .of_ok fun s hs => ⟨s.vol, rfl, hs⟩
theorem CohT.getVol_tagged : CohT Tagged F.getVol Tagged := .of_ok fun s hs => ⟨s.vol, rfl, hs⟩
theorem CohT.modifyVol_coh (f : FatVolume → FatVolume) : CohT Coh (F.modifyVol f) Coh := .of_ok fun _ hs => ⟨(), rfl, hs⟩
theorem CohT.modifyVol_cohTag (f : FatVolume → FatVolume) : CohT CohTag (F.modifyVol f) CohTag := .of_ok fun _ hs => ⟨(), rfl, hs⟩
theorem CohT.setVol_coh (v : FatVolume) : CohT Coh (F.setVol v) Coh := .of_ok fun _ hs => ⟨(), rfl, hs⟩
theorem CohT.cacheBlk_coh : CohT Coh cacheBlk Coh := .of_ok fun s hs => ⟨s.cache.blk, rfl, hs⟩
theorem CohT.cacheBlk_cohTag : CohT CohTag cacheBlk CohTag := .of_ok fun s hs => ⟨s.cache.blk, rfl, hs⟩
theorem CohT.fail_coh {α} (e : Err) {Q : FS → Prop} : CohT Coh (F.fail e : F α) Q :=
  .of_stop fun _ hs => ⟨fun a ha => (by cases ha), hs⟩
theorem CohT.fail_cohTag {α} (e : Err) {Q : FS → Prop} : CohT CohTag (F.fail e : F α) Q :=
  .of_stop fun _ hs => ⟨fun a ha => (by cases ha), hs.1⟩
theorem CohT.panic_coh {α} (msg : String) {Q : FS → Prop} : CohT Coh (F.panic msg : F α) Q :=
  .of_stop fun _ hs => ⟨fun a ha => (by cases ha), hs⟩
theorem CohT.panic_cohTag {α} (msg : String) {Q : FS → Prop} : CohT CohTag (F.panic msg : F α) Q :=
  .of_stop fun _ hs => ⟨fun a ha => (by cases ha), hs.1⟩
theorem CohT.diverge_coh {α} {Q : FS → Prop} : CohT Coh (F.diverge : F α) Q :=
  .of_stop fun _ hs => ⟨fun a ha => (by cases ha), hs⟩
theorem CohT.lift_coh {α} (r : Res α) : CohT Coh (F.lift r) Coh := fun _ hs => ⟨fun _ _ => hs, fun _ => hs⟩
theorem CohT.lift_cohTag {α} (r : Res α) : CohT CohTag (F.lift r) CohTag := fun _ hs => ⟨fun _ _ => hs, fun _ => hs.1⟩

/-! The cache. -/

theorem CohT.cacheRead (idx : Nat) : CohT Coh (cacheRead idx) CohTag := by
  intro s hs
  have hc := CohRel.cacheRead idx s hs
  refine ⟨fun a ha => ⟨hc, ?_⟩, fun _ => hc⟩
  have := cacheRead_ok_tag idx s (by rw [ha])
  show (Model.cacheRead idx s).2.cache.tag ≠ none
  rw [this]; exact fun e => by cases e

theorem CohT.blankMut (idx : Nat) {P : FS → Prop} : CohT P (blankMut idx) Tagged :=
  .of_ok fun _ _ => ⟨(), rfl, by show (some idx : Option Nat) ≠ none; exact fun e => by cases e⟩

theorem CohT.cacheModify_tagged (f : Block → Block) : CohT Tagged (cacheModify f) Tagged := .of_ok fun _ hs => ⟨(), rfl, hs⟩
theorem CohT.cacheModify_cohTag (f : Block → Block) : CohT CohTag (cacheModify f) Tagged := .of_ok fun _ hs => ⟨(), rfl, hs.2⟩

theorem coh_untag (s : FS) : Coh (untag s) := fun i hi => by cases hi

theorem CohT.writeBack_tagged : CohT Tagged writeBack Coh := by
  intro s hs
  cases ht : s.cache.tag with
  | none => exact absurd ht hs
  | some i =>
    rcases devWrite_pre i s with ⟨_, h⟩ | ⟨_, h⟩
    · rw [writeBack_okW ht h]
      refine ⟨fun _ _ => ?_, fun hn => absurd rfl (hn ())⟩
      intro j hj
      have : i = j := Option.some.inj (ht.symm.trans hj)
      subst this
      show s.cache.blk = (s.dev.disk.set i s.cache.blk).get i
      rw [FBasic.Disk.get_set_self]
    · rw [writeBack_errW ht h]; exact ⟨fun a ha => (by cases ha), fun _ => coh_untag _⟩

theorem CohT.writeBackWithDuplicate_tagged (dup : Nat) : CohT Tagged (writeBackWithDuplicate dup) Coh := by
  intro s hs
  cases ht : s.cache.tag with
  | none => exact absurd ht hs
  | some i =>
    rcases devWrite_pre i s with ⟨_, h⟩ | ⟨_, h⟩
    · generalize hs1 : ({ s with dev := { s.dev with calls := s.dev.calls + 1, disk := s.dev.disk.set i s.cache.blk, wlog := (i, s.cache.blk) :: s.dev.wlog } } : FS) = s1 at h
      rcases devWrite_pre dup s1 with ⟨_, h'⟩ | ⟨_, h'⟩
      · rw [writeBackDup_okW dup ht h h']
        refine ⟨fun _ _ => ?_, fun hn => absurd rfl (hn ())⟩
        intro j hj
        have hj' : s.cache.tag = some j := by rw [← hs1] at hj; exact hj
        have : i = j := Option.some.inj (ht.symm.trans hj')
        subst this
        rw [← hs1]
        show s.cache.blk = ((s.dev.disk.set i s.cache.blk).set dup s.cache.blk).get i
        rw [FBasic.Disk.get_set, FBasic.Disk.get_set_self]; split <;> rfl
      · rw [writeBackDup_ok_errW dup ht h h']; exact ⟨fun a ha => (by cases ha), fun _ => coh_untag _⟩
    · rw [writeBackDup_errW dup ht h]; exact ⟨fun a ha => (by cases ha), fun _ => coh_untag _⟩

theorem CohT.writeBack_cohTag : CohT CohTag writeBack Coh := CohT.writeBack_tagged.weaken (fun _ h => h.2) (fun _ h => h)
theorem CohT.writeBackWithDuplicate_cohTag (dup : Nat) : CohT CohTag (writeBackWithDuplicate dup) Coh :=
  (CohT.writeBackWithDuplicate_tagged dup).weaken (fun _ h => h.2) (fun _ h => h)

/-! ### Automation -/

macro "coh_step" : tactic => `(tactic| first
  | with_reducible first
    | apply_hyp
    | exact CohT.pure _
    | exact CohT.getVol_coh
    | exact CohT.getVol_cohTag
    | exact CohT.getVol_tagged
    | exact CohT.modifyVol_coh _
    | exact CohT.modifyVol_cohTag _
    | exact CohT.setVol_coh _
    | exact CohT.cacheBlk_coh
    | exact CohT.cacheBlk_cohTag
    | exact CohT.fail_coh _
    | exact CohT.fail_cohTag _
    | exact CohT.panic_coh _
    | exact CohT.panic_cohTag _
    | exact CohT.diverge_coh
    | exact CohT.lift_coh _
    | exact CohT.lift_cohTag _
    | exact CohT.cacheRead _
    | exact CohT.blankMut _
    | exact CohT.cacheModify_tagged _
    | exact CohT.cacheModify_cohTag _
    | exact CohT.writeBack_tagged
    | exact CohT.writeBackWithDuplicate_tagged _
    | exact CohT.writeBack_cohTag
    | exact CohT.writeBackWithDuplicate_cohTag _
    | apply CohT.attempt
    | apply CohT.bind
  | intro_pi
  | dsimp only
  | split
  | (with_reducible apply CohT.of_cohTag))

macro "coh_auto" : tactic => `(tactic| repeat coh_step)

end Sdmmc.Lemmas.FaultCoh
