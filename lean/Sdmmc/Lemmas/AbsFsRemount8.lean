/-
C02 over arbitrary histories: the ghost of a slot through a history of the manager (`history_ghost`) — the
composition of the refinement (`fs_history_refines_clk`), the well-formedness of quiescent abstract states
(`ainv_of_abs`) and the ghost invariant (`ginv_run`).
-/
import Sdmmc.Lemmas.AbsFsRemount6
import Sdmmc.Lemmas.AbsFsRemount7

namespace Sdmmc.Lemmas.AbsFs
open Sdmmc.Model Sdmmc.Model.Fat Sdmmc.Spec.Volume Sdmmc.Lemmas.VolBase Sdmmc.Lemmas.VolTree
open Sdmmc.Spec hiding NoFault Coherent
open Sdmmc.Spec.AbsFs (AInv Ev CEv runClk absRunClk NoOpenVolume SlotG GInv ghostRun ghost0)

/-- **The ghost of a slot through a history of the manager.**  From a state with the invariant, an abstract
counterpart and no open file, run any history (calls and clock movements, no `open_volume`).  Then the final
state has the invariant and an abstract counterpart `a` that is well formed and reached from the start by the
abstract history with the SAME answers; and for every slot `(x, j)` of a directory that existed at the start,
the ghost the history computes for it (`ghostRun`, from `ghost0`) is true of `a`. -/
theorem history_ghost (es : List CEv) {s : Mgr} {gh : Ghost} {a0 : AState} (hI : VolInv s gh) (hA : Abs s gh a0)
    (hs : s.files = []) (hn : NoOpenVolume es) :
    ∃ gh' a, VolInv (runClk s es).1 gh' ∧ SameGeom gh.vol gh'.vol ∧ Abs (runClk s es).1 gh' a ∧
      absRunClk a0 (runClk s es).2 a ∧ AInv a0 ∧ AInv a ∧
      ∀ x j, x ∈ a0.ids → ∃ g', ghostRun x j a0 (ghost0 a0 x j) (runClk s es).2 a g' ∧ GInv a x j g' ∧ x ∈ a.ids := by
  have hA0 := ainv_of_abs hI hA hs
  obtain ⟨gh', a, h1, h2, h3, h4⟩ := fs_history_refines_clk es hI hA hn
  refine ⟨gh', a, h1, h2, h3, h4, hA0, AbsFsTimes.ainv_run hA0 h4, ?_⟩
  intro x j hx
  obtain ⟨g', hg'⟩ := AbsFsTimes.ghostRun_exists x j (ghost0 a0 x j) h4
  obtain ⟨hG, _, hx'⟩ := AbsFsTimes.ginv_run hA0 hx (AbsFsTimes.ginv_ghost0 a0 x j) hg'
  exact ⟨g', hg', hG, hx'⟩

end Sdmmc.Lemmas.AbsFs
