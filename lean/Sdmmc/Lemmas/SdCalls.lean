/-
Lemmas for C13, part 11: the public calls — SPI errors on an initialised card, `get_card_type`
(which has no error channel).
-/
import Sdmmc.Lemmas.SdSpi
import Sdmmc.Lemmas.SdKeeps

namespace Sdmmc.Lemmas.Sd
open Sdmmc.Model Sdmmc.Model.Sd Sdmmc.Gen

variable {σ : Type} (B : BusOps σ)

/-- Same body as `Sdmmc.Props.C13.isMultiRead`. -/
def isMultiRead : Call → Bool
  | .read n _ => n != 1
  | _ => false

/-- Same body as `Sdmmc.Props.C13.isMultiWrite`. -/
def isMultiWrite : Call → Bool
  | .write blocks _ => blocks.length != 1
  | _ => false

/-- On an initialised card every call except a multi-block read or write (which catch the error
of their block loop in order to send CMD12 / the stop token) and `get_card_type` reports any SPI
error as `Transport`. -/
theorem call_spi_transport_partial (c : Call) (s : St (σ × Transcript)) (hi : s.cardType.isSome)
    (hc : c ≠ .cardType) (hm : isMultiRead c = false) (hw : isMultiWrite c = false)
    (h : fails s < fails (call (recBus B) c s).2) : (call (recBus B) c s).1 = .err .Transport := by
  have hci := checkInit_of_some (recBus B) s hi
  cases c with
  | read n idx =>
    have hn : n = 1 := by simpa [isMultiRead] using hm
    subst hn
    have hs : SpiStrict (do let bs ← Sd.read (recBus B) 1 idx; pure (Answer.blocks bs)) :=
      SpiStrict.bind (read1_spi B idx) fun _ => SpiStrict.pure _
    have : call (recBus B) (.read 1 idx) s = (do let bs ← Sd.read (recBus B) 1 idx; pure (Answer.blocks bs)) s := by
      simp only [call]; rw [bind_ok hci]
    rw [this] at h ⊢
    exact (hs s).2 h
  | write blocks idx =>
    obtain ⟨b, rfl⟩ : ∃ b, blocks = [b] := by
      have hl : blocks.length = 1 := by simpa [isMultiWrite] using hw
      match blocks, hl with
      | [b], _ => exact ⟨b, rfl⟩
    have hs : SpiStrict (do write (recBus B) [b] idx; pure Answer.unit) :=
      SpiStrict.bind (write1_spi B _ _) fun _ => SpiStrict.pure _
    have : call (recBus B) (.write [b] idx) s = (do write (recBus B) [b] idx; pure Answer.unit) s := by
      simp only [call]; rw [bind_ok hci]
    rw [this] at h ⊢
    exact (hs s).2 h
  | numBlocks =>
    have hs : SpiStrict (do let n ← numBlocks (recBus B); pure (Answer.num n)) :=
      SpiStrict.bind (numBlocks_spi B) fun _ => SpiStrict.pure _
    have : call (recBus B) .numBlocks s = (do let n ← numBlocks (recBus B); pure (Answer.num n)) s := by
      simp only [call]; rw [bind_ok hci]
    rw [this] at h ⊢
    exact (hs s).2 h
  | numBytes =>
    have hs : SpiStrict (do let n ← numBytes (recBus B); pure (Answer.num n)) :=
      SpiStrict.bind (numBytes_spi B) fun _ => SpiStrict.pure _
    have : call (recBus B) .numBytes s = (do let n ← numBytes (recBus B); pure (Answer.num n)) s := by
      simp only [call]; rw [bind_ok hci]
    rw [this] at h ⊢
    exact (hs s).2 h
  | cardType => exact absurd rfl hc
  | markUninit => simp [call, fails] at h

/-- `get_card_type` has no error channel: it always answers, with the card type when
`check_init` succeeded and with "none" when it failed (for whatever reason, SPI errors included). -/
theorem call_cardType_total (s : St σ) :
    ((checkInit B s).1 = .ok () →
      (call B .cardType s).1 = .ok (.ctype (checkInit B s).2.cardType) ∧ (checkInit B s).2.cardType.isSome) ∧
    (∀ e, (checkInit B s).1 = .err e → (call B .cardType s).1 = .ok (.ctype none)) ∧
    ∃ o, (call B .cardType s).1 = .ok (.ctype o) := by
  have hnp := checkInit_nopanic B s
  have hct := checkInit_cardType B s
  unfold call
  simp only [bind_apply, attempt_apply]
  rcases hci : checkInit B s with ⟨r, s1⟩
  rw [hci] at hnp hct
  cases r with
  | ok u => simpa using hct.1
  | err e => simp
  | panic p => exact absurd rfl (hnp p)

end Sdmmc.Lemmas.Sd
