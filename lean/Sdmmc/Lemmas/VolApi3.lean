/-
Volume invariant (C03), layer 3 (API): helper lemmas for calls that change nothing on the medium —
only device bookkeeping / cache / directory table / handle counter (`volInv_ro`), or one open-file
record without touching its cluster and size (`volInv_file_set`).
-/
import Sdmmc.Lemmas.VolApi2

namespace Sdmmc.Lemmas.VolApi
open Sdmmc.Model Sdmmc.Model.Fat Sdmmc.Spec.Volume Sdmmc.Lemmas.VolBase Sdmmc.Lemmas.VolTree
open Sdmmc.Spec hiding NoFault Coherent
open Sdmmc.Lemmas.VolDisk Sdmmc.Lemmas.VolMed Sdmmc.Lemmas.VolEng
open Sdmmc.Lemmas.FBasic (NoFault Coherent)
open Sdmmc.Lemmas.MHoare

/-- The medium, the volume table and the open files are the same; device bookkeeping, cache, directory
table, handle counter, clock may differ. -/
theorem volInv_ro {s s' : Mgr} {gh : Ghost} (hI : VolInv s gh) (hd : s'.dev.disk = s.dev.disk) (hf : s'.dev.faults = [])
    (hc : ∀ i, s'.cache.tag = some i → s'.cache.blk = s'.dev.disk.get i) (hv : s'.vols = s.vols) (hfiles : s'.files = s.files)
    (hl : s'.locked = s.locked) (hm : s'.maxVols = s.maxVols) (hdirs : ∀ di, di ∈ s'.dirs → ValidDir gh.dirs di.cluster) :
    VolInv s' gh :=
  ⟨hf, hc, hl.trans hI.unlocked, hm.trans hI.maxVols, by rw [hv]; exact hI.vols, by rw [hd, hfiles]; exact hI.med,
    by rw [hfiles, hv]; exact hI.fileVols, hdirs⟩

/-- One open-file record changes, its slot, name, attributes, cluster and size staying the same (seek,
read): the new record must be consistent with the same chain. -/
theorem volInv_file_set {s : Mgr} {gh : Ghost} (hI : VolInv s gh) {i : Nat} {f f' : FileInfo} (hi : s.files[i]? = some f)
    (hkey : fkey f' = fkey f) (hname : f'.entry.name = f.entry.name) (hattr : f'.entry.attributes = f.entry.attributes)
    (hcl : f'.entry.cluster = f.entry.cluster) (hsz : f'.entry.size = f.entry.size)
    (hdirty : f'.dirty = false → f.dirty = false) (hvol : f'.rawVolume = f.rawVolume)
    (hok : FileOK gh.vol s.dev.disk f' (chainOf gh.G f.entry.cluster))
    (hcur : chainOf gh.G f.entry.cluster = [] → f'.curCluster < 2) :
    VolInv { s with files := s.files.set i f' } gh := by
  have hfm : f ∈ s.files := List.mem_of_getElem? hi
  have hM := medX_of_med hI.med
  have hattrs : AttrsOK f' := by
    have := hI.med.tree.fileAttrs f hfm
    unfold AttrsOK
    rw [hattr, hsz]; exact this
  have hsz0 := hI.med.tree.fileSlots
  have htree := tree_file_set (G' := gh.G) hI.med.tree (med_heads hM) (objPos_nodup hM) hi hkey hname hattrs
    (fun hd => ⟨hdirty hd, hcl, hsz⟩) (fun _ _ _ => Nat.le_refl _) (fun a => by rw [hcl]) (by
      -- the size clause of the slot the file sits at
      obtain ⟨h, hh, A, o, B, hO, hpo, hod, _, _, hp⟩ := file_object hI.med.tree hfm
      have := hI.med.tree.sizes h hh o (by rw [hO]; simp) hod
      rw [effCluster_of_pend hp, effSize_of_pend hp] at this
      rw [hcl, hsz]; exact this)
  refine ⟨hI.noFault, hI.coherent, hI.unlocked, hI.maxVols, hI.vols,
    ⟨hI.med.blocksOK, hI.med.geom, hI.med.hint, hI.med.owns, htree, ?_⟩, ?_, hI.openDirs⟩
  · intro g hg
    rcases List.mem_or_eq_of_mem_set hg with hg | rfl
    · exact hI.med.fileOK g hg
    · rw [hcl]; exact ⟨hok, hcur⟩
  · intro g hg
    rcases List.mem_or_eq_of_mem_set hg with hg | rfl
    · exact hI.fileVols g hg
    · rw [hvol]; exact hI.fileVols f hfm

end Sdmmc.Lemmas.VolApi
