/-
C11 over histories, part 3 — NO PANIC, NO HANG: under the invariant every covered call answers `Ok` or an error
(`covered_call_clean`, fault-free); hence so does every call under any fault schedule that either hits no fault or
reports one (`clean_under_faults`).
From the refinement theorem of C01 (`Lemmas.AbsFs.fs_step_refines`: the answer is one the abstract file system
allows, and the abstract relations pin every answer to `Ok …` or `Err …`) — except `iterate_dir_lfn`, `flush_file`,
`close_file`, `open_volume`, whose abstract relations are loose there and which are treated directly.
-/
import Sdmmc.Lemmas.FaultHistStep
import Sdmmc.Lemmas.AbsFsStep
import Sdmmc.Lemmas.AbsFsTotal
import Sdmmc.Lemmas.C17

namespace Sdmmc.Lemmas.FaultHist
open Sdmmc.Model Sdmmc.Model.Fat Sdmmc.Spec.Volume
open Sdmmc.Spec hiding NoFault Coherent
open Sdmmc.Spec.AbsFs
open Sdmmc.Lemmas.VolApi Sdmmc.Lemmas.MHoare Sdmmc.Lemmas.FaultInv Sdmmc.Lemmas.AbsFs

theorem clean_ok {α} (a : α) : Clean (Res.ok a) := .inl ⟨a, rfl⟩
theorem clean_err {α} (e : Err) : Clean (Res.err e : Res α) := .inr ⟨e, rfl⟩

theorem clean_bind {α β} {r : Res α} (h : Clean r) (f : α → Res β) (hf : ∀ a, Clean (f a)) : Clean (r.bind f) := by
  rcases h with ⟨a, rfl⟩ | ⟨e, rfl⟩
  · exact hf a
  · exact clean_err e

/-- Closes a goal `Clean r` from a hypothesis `h` that is a nest of `if`/`match`/`∧`/`∨`/`∃` whose leaves pin `r`. -/
macro "clean_leaf" : tactic => `(tactic| first
  | exact clean_ok _
  | exact clean_err _
  | (subst_vars; first | exact clean_ok _ | exact clean_err _))

theorem listsAs_clean {a : AState} {d : Nat} {r : Res (List DirEntry)} (h : ListsAs a d r) : Clean r := by
  unfold ListsAs at h
  split at h
  · rw [h]; exact clean_err _
  · obtain ⟨es, he, _⟩ := h; rw [he]; exact clean_ok _

theorem clean_or2 {A B : Prop} {α} {r x y : Res α} (h : (A ∧ r = x) ∨ (B ∧ r = y)) (hx : Clean x) (hy : Clean y) : Clean r := by
  rcases h with ⟨_, h2⟩ | ⟨_, h2⟩ <;> rw [h2] <;> assumption

theorem clean_or_ex {A : Prop} {β : Type} {P Q : β → Prop} {α} {r x y : Res α} (h : (A ∧ r = x) ∨ ∃ c, P c ∧ r = y ∧ Q c)
    (hx : Clean x) (hy : Clean y) : Clean r := by
  rcases h with ⟨_, h2⟩ | ⟨c, _, h2, _⟩ <;> rw [h2] <;> assumption

theorem closeVolumeS_clean {a a' : AState} {v : Nat} {r : Res Payload} (h : closeVolumeS a v a' r) : Clean r := by
  unfold closeVolumeS at h
  repeat' split at h
  all_goals (obtain ⟨_, h2⟩ := h; rw [h2]; first | exact clean_ok _ | exact clean_err _)

theorem openRootF_clean (a : AState) (v : Nat) : Clean (openRootF a v).2 := by
  unfold openRootF; split <;> first | exact clean_ok _ | exact clean_err _

theorem closeDirF_clean (a : AState) (d : Nat) : Clean (closeDirF a d).2 := by
  unfold closeDirF; split <;> first | exact clean_ok _ | exact clean_err _

theorem openDirS_clean {a a' : AState} {d : Nat} {name : List Nat} {r : Res Payload} (h : openDirS a d name a' r) : Clean r := by
  unfold openDirS at h
  repeat' split at h
  all_goals (obtain ⟨_, h2⟩ := h; rw [h2]; first | exact clean_ok _ | exact clean_err _)

theorem findS_clean {a a' : AState} {d : Nat} {name : List Nat} {r : Res Payload} (h : findS a d name a' r) : Clean r := by
  unfold findS at h
  obtain ⟨_, h⟩ := h
  repeat' split at h
  · rw [h]; exact clean_err _
  · rw [h]; exact clean_err _
  · obtain ⟨e, m, h2, _⟩ := h; rw [h2]; exact clean_ok _

theorem listS_clean {a a' : AState} {d : Nat} {r : Res Payload} (h : listS a d a' r) : Clean r := by
  obtain ⟨_, r0, h0, hr⟩ := h
  rw [hr]
  exact clean_bind (listsAs_clean h0) _ fun _ => clean_ok _

theorem openFileS_clean {a a' : AState} {d : Nat} {name : List Nat} {mode : Mode} {r : Res Payload}
    (h : openFileS a d name mode a' r) : Clean r := by
  unfold openFileS at h
  repeat' split at h
  all_goals first
    | exact clean_or2 h (clean_err _) (clean_ok _)
    | exact absurd h id
    | (obtain ⟨_, h2⟩ := h; rw [h2]; first | exact clean_ok _ | exact clean_err _)
    | (obtain ⟨h2, _⟩ := h; rw [h2]; exact clean_ok _)

theorem readS_clean {a a' : AState} {hd n : Nat} {r : Res Payload} (h : readS a hd n a' r) : Clean r := by
  unfold readS at h
  repeat' split at h
  · obtain ⟨_, h2⟩ := h; rw [h2]; exact clean_err _
  · obtain ⟨_, h2⟩ := h; rw [h2]; exact clean_err _
  · obtain ⟨m, b, _, h2, _⟩ := h; rw [h2]; exact clean_ok _

theorem writeS_clean {a a' : AState} {hd : Nat} {data : Bytes} {r : Res Payload} (h : writeS a hd data a' r) : Clean r := by
  unfold writeS at h
  repeat' split at h
  · obtain ⟨_, h2⟩ := h; rw [h2]; exact clean_err _
  · obtain ⟨_, h2⟩ := h; rw [h2]; exact clean_err _
  · obtain ⟨_, h2⟩ := h; rw [h2]; exact clean_err _
  · obtain ⟨m, b, k, _, _, h2, _⟩ := h
    rcases h2 with ⟨h2, _⟩ | ⟨h2, _⟩ | ⟨h2, _⟩ <;> rw [h2] <;> first | exact clean_ok _ | exact clean_err _

theorem seekStartS_clean {a a' : AState} {hd n : Nat} {r : Res Payload} (h : seekStartS a hd n a' r) : Clean r := by
  unfold seekStartS at h
  repeat' split at h
  all_goals (obtain ⟨_, h2⟩ := h; rw [h2]; first | exact clean_ok _ | exact clean_err _)

theorem seekEndS_clean {a a' : AState} {hd n : Nat} {r : Res Payload} (h : seekEndS a hd n a' r) : Clean r := by
  unfold seekEndS at h
  repeat' split at h
  all_goals (obtain ⟨_, h2⟩ := h; rw [h2]; first | exact clean_ok _ | exact clean_err _)

theorem seekCurS_clean {a a' : AState} {hd : Nat} {n : Int} {r : Res Payload} (h : seekCurS a hd n a' r) : Clean r := by
  unfold seekCurS at h
  repeat' split at h
  all_goals (obtain ⟨_, h2⟩ := h; rw [h2]; first | exact clean_ok _ | exact clean_err _)

theorem deleteS_clean {a a' : AState} {d : Nat} {name : List Nat} {r : Res Payload} (h : deleteS a d name a' r) : Clean r := by
  unfold deleteS at h
  repeat' split at h
  all_goals first
    | (obtain ⟨_, h2⟩ := h; rw [h2]; first | exact clean_ok _ | exact clean_err _)
    | exact absurd h id

theorem mkdirS_clean {a a' : AState} {d : Nat} {name : List Nat} {r : Res Payload} (h : mkdirS a d name a' r) : Clean r := by
  unfold mkdirS at h
  repeat' split at h
  all_goals first
    | exact clean_or_ex h (clean_err _) (clean_ok _)
    | (obtain ⟨_, h2⟩ := h; rw [h2]; first | exact clean_ok _ | exact clean_err _)

theorem lengthS_clean {a a' : AState} {hd : Nat} {r : Res Payload} (h : lengthS a hd a' r) : Clean r := by
  obtain ⟨_, h⟩ := h
  split at h <;> rw [h] <;> first | exact clean_ok _ | exact clean_err _
theorem offsetS_clean {a a' : AState} {hd : Nat} {r : Res Payload} (h : offsetS a hd a' r) : Clean r := by
  obtain ⟨_, h⟩ := h
  split at h <;> rw [h] <;> first | exact clean_ok _ | exact clean_err _
theorem eofS_clean {a a' : AState} {hd : Nat} {r : Res Payload} (h : eofS a hd a' r) : Clean r := by
  obtain ⟨_, h⟩ := h
  split at h <;> rw [h] <;> first | exact clean_ok _ | exact clean_err _

theorem labelS_clean {a a' : AState} {v : Nat} {r : Res Payload} (h : labelS a v a' r) : Clean r := by
  unfold labelS at h
  split at h
  · obtain ⟨_, h2⟩ := h; rw [h2]; exact clean_err _
  · rcases h with ⟨_, l, h2⟩ | h
    · rw [h2]; exact clean_ok _
    · have hcl := openRootF_clean a v
      split at h
      · obtain ⟨_, r0, h0, hr⟩ := h
        rw [hr]
        exact clean_bind (listsAs_clean h0) _ fun _ => clean_ok _
      · obtain ⟨_, h2⟩ := h; rw [h2]; exact hcl

/-! ### Every covered call, fault-free -/

theorem clean_map {α β} {m : M α} (g : α → β) {s : Mgr} (h : Clean (m s).1) :
    Clean ((m >>= fun a => (pure (g a) : M β)) s).1 := by
  rw [bind_def]
  rcases hr : m s with ⟨r, s'⟩
  rw [hr] at h
  rcases h with ⟨a, rfl⟩ | ⟨e, rfl⟩
  · exact clean_ok _
  · exact clean_err _

theorem clean_of_finv {α} {r : Res α} (h : FaultInv.Clean r) : Clean r := h

theorem find_call_clean {s : Mgr} {gh : Ghost} (hI : VolInv s gh) (d : Nat) (name : List Nat) :
    Clean (Model.findDirectoryEntry d name s).1 := by
  cases hidx : s.dirs.findIdx? (·.rawDirectory = d) with
  | none => unfold Model.findDirectoryEntry; rw [bind_err (getDirById_bad hidx)]; exact clean_err _
  | some di =>
    obtain ⟨dir, hdi, _⟩ := findIdx?_some_get hidx
    cases hv : s.vols.findIdx? (·.rawVolume = dir.rawVolume) with
    | none =>
      unfold Model.findDirectoryEntry
      rw [bind_ok (getDirById_ok hidx), bind_ok (getDir_ok hdi), bind_err (getVolumeById_bad hv)]; exact clean_err _
    | some vidx =>
      cases hs : Sfn.createFromStr name with
      | error e =>
        unfold Model.findDirectoryEntry
        rw [bind_ok (getDirById_ok hidx), bind_ok (getDir_ok hdi), bind_ok (getVolumeById_ok hv),
          bind_err (Modes.toSfn_err hs _)]; exact clean_err _
      | ok sfn =>
        obtain ⟨vi, dcs, _, hr⟩ := dirReady_of_inv hI hidx hdi hv
        rw [Retry.find_clean s d di vidx dir vi name sfn dcs hI.noFault hr.1 hr.2.1 hs hr.2.2]
        cases Reopen.dirLookup vi.vol s.dev.disk dir.cluster dcs sfn with
        | none => exact clean_err _
        | some e => exact clean_ok _

theorem listLfn_call_clean {s : Mgr} {gh : Ghost} (hI : VolInv s gh) (d n : Nat) : Clean (iterateDirLfn d n s).1 := by
  cases hidx : s.dirs.findIdx? (·.rawDirectory = d) with
  | none => unfold iterateDirLfn; rw [bind_err (getDirById_bad hidx)]; exact clean_err _
  | some di =>
    obtain ⟨dir, hdi, _⟩ := findIdx?_some_get hidx
    cases hv : s.vols.findIdx? (·.rawVolume = dir.rawVolume) with
    | none =>
      unfold iterateDirLfn
      rw [bind_ok (getDirById_ok hidx), bind_ok (getDir_ok hdi), bind_err (getVolumeById_bad hv)]; exact clean_err _
    | some vidx =>
      obtain ⟨vi, dcs, _, hr⟩ := dirReady_of_inv hI hidx hdi hv
      rw [Retry.iterateDirLfn_clean s d di vidx n dir vi dcs hI.noFault hr.1 hr.2.1 hr.2.2]
      unfold Retry.lfnListing
      obtain ⟨out, ho⟩ := C17.lfnFold_total ((Listing.live (Reopen.dirSlotsOf vi.vol s.dev.disk dir.cluster dcs)).map
        fun x => (Listing.decode vi.vol.fatType x, x.2.2)) .Waiting (Lfn.new (zeros n)) (C17.new_inv _).1
      rw [ho]; exact clean_ok _

/-- **Under the invariant every covered call answers `Ok` or an error** — all 24 operations. -/
theorem covered_call_clean {s : Mgr} {gh : Ghost} (hI : VolInv s gh) (op : Op) (hc : FCovered s op) :
    Clean (step s op).2.result := by
  have hI' := volInv_resetLogs hI
  have direct : (∀ d name, op ≠ .find d name) → (∀ d n, op ≠ .listLfn d n) → (∀ f, op ≠ .flush f) → (∀ f, op ≠ .closeFile f) →
      (∀ i, op ≠ .openVolume i) → Clean (step s op).2.result := by
    intro h1 h2 h3 h4 h5
    obtain ⟨a, hA⟩ := abs_total hI
    have hfc : FsCovered gh.vol s op := by
      cases op <;> first | exact hc | exact trivial | exact absurd rfl (h1 _ _) | exact absurd rfl (h5 _)
    obtain ⟨gh', a', _, _, _, hstep⟩ := fs_step_refines gh.vol hI hA (SameGeom.refl _) op hfc
    have hl : a.locked = false := by rw [hA.locked]; exact hI.unlocked
    unfold absStep at hstep
    rw [if_neg (by rw [hl]; exact Bool.false_ne_true)] at hstep
    cases op with
    | openVolume i => exact absurd rfl (h5 i)
    | closeVolume v => exact closeVolumeS_clean hstep
    | openRoot v => have := openRootF_clean a v; rw [← hstep] at this; exact this
    | closeDir d => have := closeDirF_clean a d; rw [← hstep] at this; exact this
    | openDir d name => exact openDirS_clean hstep
    | find d name => exact findS_clean hstep
    | list d => exact listS_clean hstep
    | listLfn d n => exact absurd rfl (h2 d n)
    | openFile d name mode => exact openFileS_clean hstep
    | read f n => exact readS_clean hstep
    | write f data => exact writeS_clean hstep
    | seekStart f n => exact seekStartS_clean hstep
    | seekEnd f n => exact seekEndS_clean hstep
    | seekCur f n => exact seekCurS_clean hstep
    | flush f => exact absurd rfl (h3 f)
    | closeFile f => exact absurd rfl (h4 f)
    | delete d name => exact deleteS_clean hstep
    | mkdir d name => exact mkdirS_clean hstep
    | length f => exact lengthS_clean hstep
    | offset f => exact offsetS_clean hstep
    | eof f => exact eofS_clean hstep
    | hasOpen => have := congrArg Prod.snd hstep; simp only at this; rw [this]; exact clean_ok _
    | label v => exact labelS_clean hstep
  rw [MHoare.step_unlocked s op hI.unlocked]
  cases op with
  | find d name =>
    show Clean ((Model.findDirectoryEntry d name >>= fun e => (pure (Payload.entry e) : M Payload)) (resetLogs s)).1
    exact clean_map _ (find_call_clean hI' d name)
  | listLfn d n =>
    show Clean ((iterateDirLfn d n >>= fun e => (pure (Payload.lfnEntries e) : M Payload)) (resetLogs s)).1
    exact clean_map _ (listLfn_call_clean hI' d n)
  | flush f =>
    show Clean ((flushFile f >>= fun _ => (pure Payload.unit : M Payload)) (resetLogs s)).1
    exact clean_map _ (clean_of_finv (flushFile_clean f _ (fileSane_of_volInv hI')))
  | closeFile f =>
    show Clean ((closeFile f >>= fun _ => (pure Payload.unit : M Payload)) (resetLogs s)).1
    exact clean_map _ (clean_of_finv (closeFile_clean f _ (fileSane_of_volInv hI')))
  | openVolume i =>
    show Clean ((openRawVolume i >>= fun h => (pure (Payload.handle h) : M Payload)) (resetLogs s)).1
    rw [bind_err (openVolume_refused (s := resetLogs s) hc hI.maxVols i)]; exact clean_err _
  | _ =>
    rw [← MHoare.step_unlocked s _ hI.unlocked]
    exact direct (fun _ _ h => by cases h) (fun _ _ h => by cases h) (fun _ h => by cases h) (fun _ h => by cases h)
      (fun _ h => by cases h)

end Sdmmc.Lemmas.FaultHist
