/-
Volume invariant (C03), layer 1b: where an object / the first free slot of a directory sits in the
directory's slot list (`object_split`, `free_split`) and the `SlotEdit` a slot write produces
(`slotEdit_write`, `slotEdit_mark`).
-/
import Sdmmc.Lemmas.VolMed3
import Sdmmc.Lemmas.VolWalk

namespace Sdmmc.Lemmas.VolMed
open Sdmmc.Model Sdmmc.Model.Fat Sdmmc.Spec Sdmmc.Spec.Volume Sdmmc.Lemmas.VolBase Sdmmc.Lemmas.VolTree
open Sdmmc.Lemmas.VolDisk

/-- In a list without repeated positions, an element before the end marker has only non-zero predecessors. -/
theorem pre_nonzero_of_beforeEnd {ss pre post : List Slot} {o : Slot} (hnd : (ss.map spos).Nodup)
    (hs : ss = pre ++ o :: post) (ho : o ∈ beforeEnd ss) : ∀ s, s ∈ pre → first s ≠ 0 := by
  subst hs
  induction pre with
  | nil => intro s hs; cases hs
  | cons a pre ih =>
    intro s hs
    rw [List.cons_append, List.map_cons, List.nodup_cons] at hnd
    by_cases ha : first a = 0
    · rw [List.cons_append, beforeEnd_cons_z _ _ ha] at ho; cases ho
    · rw [List.cons_append, beforeEnd_cons_nz _ _ ha] at ho
      rcases List.mem_cons.1 hs with rfl | hs
      · exact ha
      · rcases List.mem_cons.1 ho with rfl | ho
        · exfalso
          apply hnd.1
          rw [List.map_append, List.map_cons]
          exact List.mem_append_right _ List.mem_cons_self
        · exact ih hnd.2 ho s hs

section
variable {v : FatVolume} {d : Disk} {files : List FileInfo} {gh : Ghost} {X : List (List Nat)}

/-- An object of directory `h` splits the slot list of `h`: its predecessors are non-zero and, in a
sub-directory, include the two dot slots. -/
theorem object_split (hM : MedX v d files gh X) {h : Nat} (hh : h ∈ dirIds gh.dirs) {o : Slot}
    (ho : o ∈ objects h (dirSlots v d gh.G h)) :
    ∃ pre post, dirSlots v d gh.G h = pre ++ o :: post ∧ (∀ s, s ∈ pre → first s ≠ 0) ∧ (h ≠ 0 → 2 ≤ pre.length) ∧
      first o ≠ 0 ∧ keep o = true := by
  have hoe : o ∈ entries (dirSlots v d gh.G h) := by
    unfold objects at ho
    split at ho
    · exact ho
    · exact List.mem_of_mem_drop ho
  obtain ⟨hmem, hnz, h5, hfr⟩ := mem_entries hoe
  obtain ⟨pre, post, hsp⟩ := List.append_of_mem hmem
  have hnd := dirSlots_pos_nodup hM hh d
  have hob : o ∈ beforeEnd (dirSlots v d gh.G h) := by
    rw [entries_eq, List.mem_filter] at hoe; exact hoe.1
  refine ⟨pre, post, hsp, pre_nonzero_of_beforeEnd hnd hsp hob, ?_, hnz, ?_⟩
  · intro h0
    rcases mem_dirIds.1 hh with e | ⟨p, hp⟩
    · exact absurd e h0
    · obtain ⟨s0, s1, rest, hss, hd0, hd1⟩ := hM.tree.dots h p hp
      -- `o` lies in `rest`, so it is neither `s0` nor `s1`
      have hk0 := isDot_keep hd0 thisDir_first
      have hk1 := isDot_keep hd1 parentDir_first
      have hor : o ∈ rest := by
        unfold objects at ho
        rw [if_neg h0, hss] at ho
        have e1 : entries (s0 :: s1 :: rest) = s0 :: s1 :: entries rest := by
          have := entries_split [] (s1 :: rest) s0 (fun _ h => by cases h)
          rw [List.nil_append] at this
          rw [this, if_neg hk0.1, if_pos hk0.2]
          have := entries_split [] rest s1 (fun _ h => by cases h)
          rw [List.nil_append] at this
          rw [this, if_neg hk1.1, if_pos hk1.2]
          rfl
        rw [e1] at ho
        exact (mem_entries (by simpa using ho)).1
      rw [hss] at hsp hnd
      match pre, hsp with
      | [], hsp =>
        exfalso
        rw [List.nil_append, List.cons.injEq] at hsp
        rw [List.map_cons, List.nodup_cons] at hnd
        apply hnd.1
        rw [hsp.1]
        exact List.mem_map.2 ⟨o, List.mem_cons_of_mem _ hor, rfl⟩
      | [a], hsp =>
        exfalso
        simp only [List.cons_append, List.nil_append, List.cons.injEq] at hsp
        rw [List.map_cons, List.nodup_cons, List.map_cons, List.nodup_cons] at hnd
        apply hnd.2.1
        rw [hsp.2.1]
        exact List.mem_map.2 ⟨o, hor, rfl⟩
      | a :: b :: pre', _ => simp
  · unfold keep
    rw [hfr]
    simp [h5]

/-- The first free slot of directory `h`: its predecessors are live, in particular non-zero, and in a
sub-directory include the two dot slots. -/
theorem free_split (hM : MedX v d files gh X) {h : Nat} (hh : h ∈ dirIds gh.dirs) {slot : Slot}
    (hf : (dirSlots v d gh.G h).find? VolWalk.isFreeSlot = some slot) :
    ∃ pre post, dirSlots v d gh.G h = pre ++ slot :: post ∧ (∀ s, s ∈ pre → first s ≠ 0) ∧ (h ≠ 0 → 2 ≤ pre.length) ∧
      freeSlot slot := by
  obtain ⟨hfree, pre, post, hsp, hpre⟩ := List.find?_eq_some_iff_append.1 hf
  have hfs : freeSlot slot := by
    unfold VolWalk.isFreeSlot at hfree
    simpa [freeSlot] using hfree
  refine ⟨pre, post, hsp, ?_, ?_, hfs⟩
  · intro s hs h0
    have := hpre s hs
    unfold VolWalk.isFreeSlot at this
    simp [h0] at this
  · intro h0
    rcases mem_dirIds.1 hh with e | ⟨p, hp⟩
    · exact absurd e h0
    · obtain ⟨s0, s1, rest, hss, hd0, hd1⟩ := hM.tree.dots h p hp
      have hk0 := isDot_keep hd0 thisDir_first
      have hk1 := isDot_keep hd1 parentDir_first
      have hnf : ∀ s, first s ≠ 0 → keep s = true → ¬ freeSlot s := fun s h1 h2 hfr => not_keep_of_free hfr ⟨h1, h2⟩
      rw [hss] at hsp
      match pre, hsp with
      | [], hsp =>
        rw [List.nil_append, List.cons.injEq] at hsp
        exact absurd (hsp.1 ▸ hfs) (hnf s0 hk0.1 hk0.2)
      | [a], hsp =>
        simp only [List.cons_append, List.nil_append, List.cons.injEq] at hsp
        exact absurd (hsp.2.1 ▸ hfs) (hnf s1 hk1.1 hk1.2)
      | a :: b :: pre', _ => simp

/-- The `SlotEdit` of rewriting slot `old` of directory `h` with `bytes`. -/
theorem slotEdit_write (hM : MedX v d files gh X) {h : Nat} (hh : h ∈ dirIds gh.dirs) {pre post : List Slot} {old : Slot}
    (hsp : dirSlots v d gh.G h = pre ++ old :: post) (hpre : ∀ s, s ∈ pre → first s ≠ 0) (hlen : h ≠ 0 → 2 ≤ pre.length)
    (bytes : Bytes) (hbytes : bytes.length = 32) (hnz : first (old.1, old.2.1, bytes) ≠ 0) :
    SlotEdit gh.dirs (dirSlots v d gh.G) (dirSlots v (d.set old.1 (splice (d.get old.1) old.2.1 bytes)) gh.G) h pre post
      old (old.1, old.2.1, bytes) := by
  obtain ⟨_, _, h3, h4⟩ := slot_write hM hh hsp bytes hbytes
  exact ⟨hh, h4, hsp, h3, hpre, hlen, hnz⟩

/-- The `SlotEdit` of setting the first byte of slot `old` of directory `h` to `x ≠ 0`. -/
theorem slotEdit_mark (hM : MedX v d files gh X) {h : Nat} (hh : h ∈ dirIds gh.dirs) {pre post : List Slot} {old : Slot}
    (hsp : dirSlots v d gh.G h = pre ++ old :: post) (hpre : ∀ s, s ∈ pre → first s ≠ 0) (hlen : h ≠ 0 → 2 ≤ pre.length)
    (x : UInt8) (hx : x.toNat ≠ 0) :
    SlotEdit gh.dirs (dirSlots v d gh.G) (dirSlots v (d.set old.1 ((d.get old.1).set old.2.1 x)) gh.G) h pre post
      old (old.1, old.2.1, old.2.2.set 0 x) := by
  obtain ⟨_, _, h3, h4⟩ := slot_mark hM hh hsp x
  refine ⟨hh, h4, hsp, h3, hpre, hlen, ?_⟩
  have hmem : old ∈ dirSlots v d gh.G h := by rw [hsp]; simp
  rw [first_set old x (by rw [mem_dirSlots_length hM.blocksOK hmem]; decide)]
  exact hx

end

end Sdmmc.Lemmas.VolMed
