/-
`open_file_in_dir` on an existing plain file establishes the file invariant `FileOK` of
`Sdmmc.Spec.Chain` (what `read_refines` of C01 needs): the directory lookup is the one of C06
(`find_dir_spec`), the decision is the one of C07 (`open_file_readOnly`, `open_file_append`), and
the new table record starts with its cluster cursor on the first cluster of the entry's chain.
-/
import Sdmmc.Lemmas.ReopenBase
import Sdmmc.Lemmas.Modes
import Sdmmc.Lemmas.ReadRefines
import Sdmmc.Lemmas.DirMgr

namespace Sdmmc.Lemmas.Reopen
open Sdmmc.Model Sdmmc.Model.Fat Sdmmc.Spec
open Sdmmc.Lemmas.Listing
open Sdmmc.Lemmas.ReadRefines (MgrOK fsOf)
open Sdmmc.Lemmas.Modes (DirCtx lookup openedFile)

/-- The directory lookup at the manager level, on a fault-free coherent state with the directory on
the medium: its outcome is `dirLookup` read off the medium, and the standing hypothesis `MgrOK`
holds afterwards. -/
theorem lookup_on_dir (s : Mgr) (vi : Nat) (dir : DirInfo) (sfn : Bytes) (v : VolInfo) (dcs : List Nat)
    (hs : MgrOK s) (hvi : s.vols[vi]? = some v) (hdir : DirOn v.vol s.dev.disk dir.cluster dcs) :
    (lookup vi dir sfn s).1 = (dirLookup v.vol s.dev.disk dir.cluster dcs sfn).elim (.err .NotFound) .ok ∧
    MgrOK (lookup vi dir sfn s).2 := by
  obtain ⟨hnf, hcoh, hblk, hunl⟩ := hs
  obtain ⟨fs', h, hd, _, _, hn', hc'⟩ := find_dir_spec (fsOf s v) dir.cluster dcs sfn hnf hcoh hdir
  unfold lookup
  rw [DirMgr.withVol_eq vi _ s v hvi]
  have h' : Fat.findDirectoryEntry dir.cluster sfn { dev := s.dev, cache := s.cache, vol := v.vol } =
      ((dirLookup v.vol s.dev.disk dir.cluster dcs sfn).elim (.err .NotFound) .ok, fs') := h
  rw [h']
  refine ⟨rfl, hn', hc', ?_, hunl⟩
  intro i
  show (fs'.dev.disk.get i).length = 512
  rw [hd]; exact hblk i

/-- A record made by `open_file_in_dir` on entry `e` (cluster cursor on the entry's first cluster,
any offset inside the file) is consistent with a medium on which `e`'s cluster and size are. -/
theorem openedFile_fileOK (v : FatVolume) (disk : Disk) (dir : DirInfo) (id : Nat) (e : DirEntry) (mode : Mode)
    (off : Nat) (cs : List Nat)
    (hch : (e.cluster < 2 ∧ cs = [] ∧ e.size = 0) ∨ Chain v disk e.cluster cs)
    (hfit : e.size ≤ cs.length * clusterBytesLen v) (hoff : off ≤ e.size) :
    FileOK v disk (openedFile dir id e mode off) cs := by
  refine ⟨hch, hfit, hoff, ?_⟩
  rcases hch with ⟨_, h, _⟩ | h
  · exact .inl h
  · exact .inr ⟨0, ChainL.chain_length_pos h, (Nat.zero_mul _).symm, ChainL.chain_get_zero h⟩

/-- What `open_file_in_dir` leaves of a state `s` when it opens a file: device bookkeeping and
cache moved (reads only), one handle drawn, one record appended. -/
def Opened (s s' : Mgr) (f : FileInfo) : Prop :=
  s' = { s with dev := s'.dev, cache := s'.cache, nextId := (s.nextId + 1) % 4294967296, files := s.files ++ [f] } ∧
  s'.dev.disk = s.dev.disk ∧ s'.dev.wlog = s.dev.wlog

theorem opened_of_lookup (s : Mgr) (vi : Nat) (dir : DirInfo) (sfn : Bytes) (f : FileInfo) :
    Opened s { (lookup vi dir sfn s).2 with nextId := (s.nextId + 1) % 4294967296, files := s.files ++ [f] } f := by
  have hst := Modes.lookup_state vi dir sfn s
  generalize (lookup vi dir sfn s).2 = L at hst
  refine ⟨?_, ?_, ?_⟩
  · rw [hst]
  · rw [hst]
  · rw [hst]

theorem mgrOK_opened (s : Mgr) (vi : Nat) (dir : DirInfo) (sfn : Bytes) (f : FileInfo)
    (h : MgrOK (lookup vi dir sfn s).2) :
    MgrOK { (lookup vi dir sfn s).2 with nextId := (s.nextId + 1) % 4294967296, files := s.files ++ [f] } := h

/-- **Opening establishes the file invariant** (`ReadOnly`).  `s`: no faults, coherent cache,
512-byte blocks, not locked; `d` an open directory handle (record `dir`) on the open volume `v`
(slot `vi`); the directory is on the medium (`DirOn`: the FAT16 fixed root, or the chain `dcs`);
the lookup of the name on the medium yields `e`, which is not a directory and not open; the file
table has room.  Then the call returns the next handle; the new state is `s` with device
bookkeeping and cache moved (no write, same medium), the handle counter advanced and the record
`openedFile dir s.nextId e .ReadOnly 0` appended; `MgrOK` still holds; and whenever `e`'s cluster
and size are consistent with the medium, the new record satisfies `FileOK`. -/
theorem open_readOnly_fileOK (s : Mgr) (d : Nat) (name : List Nat) (dir : DirInfo) (vi : Nat) (sfn : Bytes)
    (v : VolInfo) (dcs : List Nat) (e : DirEntry)
    (hs : MgrOK s) (hc : DirCtx s d name dir vi sfn) (hvi : s.vols[vi]? = some v)
    (hroom : s.files.length < s.maxFiles)
    (hdir : DirOn v.vol s.dev.disk dir.cluster dcs)
    (hlook : dirLookup v.vol s.dev.disk dir.cluster dcs sfn = some e)
    (hno : fileIsOpen s dir.rawVolume e = false) (hnd : Attr.isDirectory e.attributes = false) :
    ∃ s', openFileInDir d name .ReadOnly s = (.ok s.nextId, s') ∧
      Opened s s' (openedFile dir s.nextId e .ReadOnly 0) ∧ MgrOK s' ∧
      ∀ cs, ((e.cluster < 2 ∧ cs = [] ∧ e.size = 0) ∨ Chain v.vol s.dev.disk e.cluster cs) →
        e.size ≤ cs.length * clusterBytesLen v.vol →
        FileOK v.vol s'.dev.disk (openedFile dir s.nextId e .ReadOnly 0) cs := by
  obtain ⟨hr, hok⟩ := lookup_on_dir s vi dir sfn v dcs hs hvi hdir
  rw [hlook] at hr
  have hopen := Modes.open_file_readOnly hc hroom e hr hno hnd
  have hop := opened_of_lookup s vi dir sfn (openedFile dir s.nextId e .ReadOnly 0)
  refine ⟨_, hopen, hop, mgrOK_opened s vi dir sfn _ hok, fun cs hch hfit => ?_⟩
  rw [hop.2.1]
  exact openedFile_fileOK v.vol s.dev.disk dir s.nextId e .ReadOnly 0 cs hch hfit (Nat.zero_le _)

/-- The same for `ReadWriteAppend` (and `ReadWriteCreateOrAppend` on an existing name): the entry
must not carry the read-only attribute; the new record starts at the end of the file with its
cluster cursor on the FIRST cluster of the chain (cursor position 0) — `FileOK.cursor` asks for a
cursor on the chain at a cluster-aligned position, not for the cluster holding the offset, so it
holds. -/
theorem open_append_fileOK (s : Mgr) (d : Nat) (name : List Nat) (dir : DirInfo) (vi : Nat) (sfn : Bytes)
    (v : VolInfo) (dcs : List Nat) (e : DirEntry) (mode : Mode)
    (hm : mode = .ReadWriteAppend ∨ mode = .ReadWriteCreateOrAppend)
    (hs : MgrOK s) (hc : DirCtx s d name dir vi sfn) (hvi : s.vols[vi]? = some v)
    (hroom : s.files.length < s.maxFiles)
    (hdir : DirOn v.vol s.dev.disk dir.cluster dcs)
    (hlook : dirLookup v.vol s.dev.disk dir.cluster dcs sfn = some e)
    (hno : fileIsOpen s dir.rawVolume e = false) (hro : Attr.isReadOnly e.attributes = false)
    (hnd : Attr.isDirectory e.attributes = false) :
    ∃ s', openFileInDir d name mode s = (.ok s.nextId, s') ∧
      Opened s s' (openedFile dir s.nextId e .ReadWriteAppend e.size) ∧ MgrOK s' ∧
      ∀ cs, ((e.cluster < 2 ∧ cs = [] ∧ e.size = 0) ∨ Chain v.vol s.dev.disk e.cluster cs) →
        e.size ≤ cs.length * clusterBytesLen v.vol →
        FileOK v.vol s'.dev.disk (openedFile dir s.nextId e .ReadWriteAppend e.size) cs := by
  obtain ⟨hr, hok⟩ := lookup_on_dir s vi dir sfn v dcs hs hvi hdir
  rw [hlook] at hr
  have hopen := Modes.open_file_append mode hm hc hroom e hr hno hro hnd
  have hop := opened_of_lookup s vi dir sfn (openedFile dir s.nextId e .ReadWriteAppend e.size)
  refine ⟨_, hopen, hop, mgrOK_opened s vi dir sfn _ hok, fun cs hch hfit => ?_⟩
  rw [hop.2.1]
  exact openedFile_fileOK v.vol s.dev.disk dir s.nextId e .ReadWriteAppend e.size cs hch hfit (Nat.le_refl _)

/-! ### The new handle is found -/

/-- A handle that no open file carries is found, after the record carrying it has been appended,
at the last index. -/
theorem findIdx?_append_fresh (l : List FileInfo) (f : FileInfo) (h : Nat)
    (hfresh : ∀ g ∈ l, g.rawFile ≠ h) (hf : f.rawFile = h) :
    (l ++ [f]).findIdx? (fun x => decide (x.rawFile = h)) = some l.length := by
  induction l with
  | nil =>
    rw [List.nil_append, List.findIdx?_cons]
    simp [hf]
  | cons g l ih =>
    rw [List.cons_append, List.findIdx?_cons]
    have hg : decide (g.rawFile = h) = false := by
      simpa using hfresh g List.mem_cons_self
    rw [hg]
    simp only [Bool.false_eq_true, if_false]
    rw [ih (fun x hx => hfresh x (List.mem_cons_of_mem _ hx))]
    rfl

end Sdmmc.Lemmas.Reopen
