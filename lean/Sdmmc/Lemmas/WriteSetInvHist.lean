/-
C04 over histories, part 3: `step` under the invariant for all 24 operations (`step_callOK`), licensed
histories (`RunLicensed`), "never leaves the volume" (`runLicensed_region`), and the frame: a byte no licence
of the history covers is unchanged (`runLicensed_frame`), hence the slot, the chain and the chain bytes of an
object the history spares (`spared_object_unchanged`).
-/
import Sdmmc.Lemmas.WriteSetInvDir

namespace Sdmmc.Lemmas.WriteSetInv
open Sdmmc.Model Sdmmc.Model.Fat Sdmmc.Spec.Volume Sdmmc.Lemmas.VolBase
open Sdmmc.Spec hiding NoFault Coherent
open Sdmmc.Lemmas.VolApi
open Sdmmc.Lemmas.MHoare
open Sdmmc.Lemmas.WriteSet (LicD)

/-! ### One call through `step` -/

/-- Names whose short form starts with 0xE5 are excluded in the calls that look a name up in order to open,
create or delete (the only hypothesis `Props.C03Inv.Covered` puts on these calls). -/
def NameCovered : Op → Prop
  | .openFile _ name _ => ∀ sfn, Sfn.createFromStr name = .ok sfn → sfn.head? ≠ some 0xE5
  | .delete _ name => ∀ sfn, Sfn.createFromStr name = .ok sfn → sfn.head? ≠ some 0xE5
  | .mkdir _ name => ∀ sfn, Sfn.createFromStr name = .ok sfn → sfn.head? ≠ some 0xE5
  | _ => True

/-- What `step` delivers: a licence of the call (`LicenceFor`), every reported write licensed by it, the
medium afterwards is the medium before with exactly these writes applied, and the FAT copies agree. -/
structure StepLicensed (gh : Ghost) (s : Mgr) (op : Op) (L : Licence) : Prop where
  lic : LicenceFor gh s.files s.dirs s.dev.disk op L
  all : AllLicensed gh.vol s.dev.disk L (step s op).2.writes
  disk : ∀ i, (step s op).1.dev.disk.get i = (s.dev.disk.applyWrites (step s op).2.writes).get i
  mirror : Mirror gh.vol (step s op).1.dev.disk

theorem stepLicensed_of_call {gh : Ghost} {s : Mgr} {op : Op} (hl : s.locked = false)
    (h : CallOK gh (resetLogs s) op (runOp op (resetLogs s)).2) : ∃ L, StepLicensed gh s op L := by
  obtain ⟨L, hlf, hlic, hm⟩ := h
  obtain ⟨hw, hs1, _⟩ := WriteSet.step_writes s op hl
  obtain ⟨h1, _, h3⟩ := WriteSet.LicD.toWrites hlic
  refine ⟨L, hlf, ?_, ?_, ?_⟩
  · rw [hw]; exact h1
  · intro i; rw [hw, hs1]; exact h3 i
  · rw [hs1]; exact hm

/-- **Every call — all 24 constructors of `Op`, every outcome — is licensed** under the invariant. -/
theorem step_callOK {s : Mgr} {gh : Ghost} (hI : VolInv s gh) (hm : Mirror gh.vol s.dev.disk) (op : Op) (hc : NameCovered op) :
    ∃ L, StepLicensed gh s op L := by
  have hI0 := VolApi.volInv_resetLogs hI
  have hm0 : Mirror gh.vol (resetLogs s).dev.disk := hm
  have ro : Fault.readOnlyOp op = true → ∃ L, StepLicensed gh s op L := by
    intro h
    obtain ⟨hd, hw⟩ := Fault.step_readonly_nowrite s op h
    refine ⟨Licence.none, .nothing op, by rw [hw]; trivial, fun i => by rw [hw, hd]; rfl, by rw [hd]; exact hm⟩
  cases op with
  | closeVolume v =>
    refine stepLicensed_of_call hI.unlocked ?_
    rw [WriteSet.runOp_closeVolume]; exact closeVolume_callOK hI0 hm0 v
  | openFile d name mode =>
    refine stepLicensed_of_call hI.unlocked ?_
    rw [WriteSet.runOp_openFile]; exact openFile_callOK hI0 hm0 d name mode hc
  | write f data =>
    refine stepLicensed_of_call hI.unlocked ?_
    rw [WriteSet.runOp_write]; exact write_callOK hI0 hm0 f data
  | flush f =>
    refine stepLicensed_of_call hI.unlocked ?_
    rw [WriteSet.runOp_flush]; exact (flush_callOK hI0 hm0 f).1
  | closeFile f =>
    refine stepLicensed_of_call hI.unlocked ?_
    rw [WriteSet.runOp_closeFile]; exact closeFile_callOK hI0 hm0 f
  | delete d name =>
    refine stepLicensed_of_call hI.unlocked ?_
    rw [WriteSet.runOp_delete]; exact delete_callOK hI0 hm0 d name hc
  | mkdir d name =>
    refine stepLicensed_of_call hI.unlocked ?_
    rw [WriteSet.runOp_mkdir]; exact mkdir_callOK hI0 hm0 d name hc
  | openVolume _ => exact ro rfl
  | openRoot _ => exact ro rfl
  | openDir _ _ => exact ro rfl
  | closeDir _ => exact ro rfl
  | read _ _ => exact ro rfl
  | seekStart _ _ => exact ro rfl
  | seekCur _ _ => exact ro rfl
  | seekEnd _ _ => exact ro rfl
  | find _ _ => exact ro rfl
  | list _ => exact ro rfl
  | listLfn _ _ => exact ro rfl
  | length _ => exact ro rfl
  | offset _ => exact ro rfl
  | eof _ => exact ro rfl
  | hasOpen => exact ro rfl
  | label _ => exact ro rfl

/-! ### Licensed histories -/

theorem licenceFor_sameGeom {gh gh' : Ghost} (hG : gh'.G = gh.G) (hv : gh'.vol = gh.vol) {files : List FileInfo}
    {dirs : List DirInfo} {d : Disk} {op : Op} {L : Licence} (h : LicenceFor gh files dirs d op L) :
    LicenceFor gh' files dirs d op L := by
  cases gh; cases gh'
  simp only at hG hv
  subst hG; subst hv
  cases h <;> constructor <;> assumption

/-- Every call of the history `ops` from `s` is licensed: `Ls` lists the licences, one per call, each described
(`LicenceFor`) from a ghost of the state the call is issued in; the geometry is that of `v0` throughout. -/
inductive RunLicensed (v0 : FatVolume) : Mgr → List Op → List Licence → Prop
  | nil (s : Mgr) : RunLicensed v0 s [] []
  | cons (s : Mgr) (op : Op) (ops : List Op) (L : Licence) (Ls : List Licence) (gh : Ghost) (hI : VolInv s gh)
      (hg : SameGeom v0 gh.vol) (hl : LicenceFor gh s.files s.dirs s.dev.disk op L)
      (ha : AllLicensed v0 s.dev.disk L (step s op).2.writes)
      (hd : ∀ i, (step s op).1.dev.disk.get i = (s.dev.disk.applyWrites (step s op).2.writes).get i)
      (rest : RunLicensed v0 (step s op).1 ops Ls) : RunLicensed v0 s (op :: ops) (L :: Ls)

theorem RunLicensed.of_step {v0 : FatVolume} {s : Mgr} {gh : Ghost} {op : Op} {ops : List Op} {L : Licence} {Ls : List Licence}
    (hI : VolInv s gh) (hg : SameGeom v0 gh.vol) (h : StepLicensed gh s op L) (rest : RunLicensed v0 (step s op).1 ops Ls) :
    RunLicensed v0 s (op :: ops) (L :: Ls) :=
  .cons s op ops L Ls gh hI hg h.lic ((WriteSet.allLicensed_sameGeom hg L _ _).1 h.all) h.disk rest

theorem runLicensed_length {v0 : FatVolume} : ∀ {s : Mgr} {ops : List Op} {Ls : List Licence}, RunLicensed v0 s ops Ls →
    Ls.length = ops.length
  | _, _, _, .nil _ => rfl
  | _, _, _, .cons _ _ _ _ _ _ _ _ _ _ _ rest => by
    simp only [List.length_cons]; rw [runLicensed_length rest]

/-- The outputs of a history, call by call. -/
theorem run_cons (s : Mgr) (op : Op) (ops : List Op) :
    run s (op :: ops) = ((run (step s op).1 ops).1, (step s op).2 :: (run (step s op).1 ops).2) := rfl

/-- **Every write of every call of a licensed history stays in the volume and in a region of its purpose.** -/
theorem runLicensed_region {v0 : FatVolume} (hg : WFGeom v0) : ∀ {s : Mgr} {ops : List Op} {Ls : List Licence},
    RunLicensed v0 s ops Ls → ∀ o, o ∈ (run s ops).2 → ∀ w, w ∈ o.writes →
      (regionOf v0 w.1 = .fat ∨ regionOf v0 w.1 = .root ∨ regionOf v0 w.1 = .data ∨ regionOf v0 w.1 = .info) ∧
      InPartition v0 w.1 ∧ v0.lbaStart < w.1 ∧ w.1 ≠ 0
  | _, _, _, .nil _, o, ho, _, _ => nomatch ho
  | _, _, _, .cons s op ops L Ls gh hI hgm hl ha hd rest, o, ho, w, hw => by
    rw [run_cons] at ho
    rcases List.mem_cons.1 ho with rfl | ho
    · exact WriteSet.allLicensed_in_region v0 hg L _ _ ha w hw
    · exact runLicensed_region hg rest o ho w hw

/-! ### The frame -/

/-- Byte `i` of block `b` is one the licence `L` allows to change. -/
def Covers (v : FatVolume) (L : Licence) (b i : Nat) : Prop :=
  InLicensedEntry v L b i ∨
  (∃ c, c ∈ L.dataClusters ∧ InRange v c ∧ clusterToBlock v c ≤ b ∧ b < clusterToBlock v c + v.blocksPerCluster) ∨
  InLicensedSlot L b i ∨
  (L.info = true ∧ v.fatType = .fat32 ∧ b = v.infoLocation ∧ 488 ≤ i ∧ i < 496) ∨
  InLicensedRange v L b i

theorem licensed_frame {v : FatVolume} {d : Disk} {L : Licence} {w : Nat × Block} (h : Licensed v d L w) {i : Nat}
    (hn : ¬ Covers v L w.1 i) : w.2.getD i 0 = (d.get w.1).getD i 0 := by
  rcases h with ⟨_, _, h3, _⟩ | ⟨_, c, hc, hr, h1, h2⟩ | ⟨_, _, _, h3⟩ | ⟨h1, h2, h3, _, h5⟩ | ⟨_, _, h3⟩
  · exact h3 i fun hx => hn (.inl hx)
  · exact absurd (.inr (.inl ⟨c, hc, hr, h1, h2⟩)) hn
  · exact h3 i fun hx => hn (.inr (.inr (.inl hx)))
  · refine h5 i ?_
    refine Classical.byContradiction fun hcon => hn (.inr (.inr (.inr (.inl ⟨h1, h2, h3, by omega, by omega⟩))))
  · exact h3 i fun hx => hn (.inr (.inr (.inr (.inr hx))))

theorem allLicensed_frame {v : FatVolume} {L : Licence} {b i : Nat} (hn : ¬ Covers v L b i) :
    ∀ (ws : List (Nat × Block)) (d : Disk), AllLicensed v d L ws →
      ((d.applyWrites ws).get b).getD i 0 = (d.get b).getD i 0
  | [], _, _ => rfl
  | w :: ws, d, h => by
    rw [FBasic.Disk.applyWrites_cons, allLicensed_frame hn ws _ h.2]
    by_cases hb : w.1 = b
    · subst hb
      rw [FBasic.Disk.get_set_self]
      exact licensed_frame h.1 hn
    · rw [FBasic.Disk.get_set_ne _ _ _ _ hb]

/-- **A byte that no licence of the history covers is the same after the history.** -/
theorem runLicensed_frame {v0 : FatVolume} {b i : Nat} : ∀ {s : Mgr} {ops : List Op} {Ls : List Licence},
    RunLicensed v0 s ops Ls → (∀ L, L ∈ Ls → ¬ Covers v0 L b i) →
      ((run s ops).1.dev.disk.get b).getD i 0 = (s.dev.disk.get b).getD i 0
  | _, _, _, .nil _, _ => rfl
  | _, _, _, .cons s op ops L Ls gh hI hgm hl ha hd rest, hn => by
    rw [run_cons]
    show ((run (step s op).1 ops).1.dev.disk.get b).getD i 0 = _
    rw [runLicensed_frame rest (fun L' hL' => hn L' (List.mem_cons_of_mem _ hL')), hd b]
    exact allLicensed_frame (hn L List.mem_cons_self) _ _ ha

/-! ### Objects the history spares -/

/-- The licence `L` covers no byte of the slot `(sb, so)`, of the FAT entries (first copy) of the clusters
`cs`, or of the blocks of the clusters `cs`. -/
def Spares (v : FatVolume) (L : Licence) (sb so : Nat) (cs : List Nat) : Prop :=
  (∀ i, so ≤ i → i < so + 32 → ¬ Covers v L sb i) ∧
  (∀ c, c ∈ cs → ∀ i, fatEntOffset v c ≤ i → i < fatEntOffset v c + entryWidth v.fatType → ¬ Covers v L (fatBlock v c) i) ∧
  (∀ c, c ∈ cs → ∀ j, j < v.blocksPerCluster → ∀ i, ¬ Covers v L (clusterToBlock v c + j) i)

/-- Two media whose blocks have 512 bytes and agree byte by byte in block `b` hold the same block there. -/
theorem block_ext {d d' : Disk} (hb : BlocksOK d) (hb' : BlocksOK d') (b : Nat)
    (h : ∀ i, (d'.get b).getD i 0 = (d.get b).getD i 0) : d'.get b = d.get b := by
  apply List.ext_getElem?
  intro i
  by_cases hi : i < 512
  · have := h i
    rw [List.getD_eq_getElem?_getD, List.getD_eq_getElem?_getD, List.getElem?_eq_getElem (by rw [hb' b]; exact hi),
      List.getElem?_eq_getElem (by rw [hb b]; exact hi)] at this
    rw [List.getElem?_eq_getElem (by rw [hb' b]; exact hi), List.getElem?_eq_getElem (by rw [hb b]; exact hi)]
    exact congrArg some this
  · rw [List.getElem?_eq_none (by rw [hb' b]; omega), List.getElem?_eq_none (by rw [hb b]; omega)]

/-- **An object every licence of the history spares is unchanged**: the 32 bytes of its slot, its cluster
chain, and the bytes of its chain are the same before and after the history. -/
theorem spared_object_unchanged {v0 : FatVolume} {s : Mgr} {ops : List Op} {Ls : List Licence} (hR : RunLicensed v0 s ops Ls)
    (hb : BlocksOK s.dev.disk) (hb' : BlocksOK (run s ops).1.dev.disk) (sb so c : Nat) (cs : List Nat)
    (hch : Chain v0 s.dev.disk c cs) (hsp : ∀ L, L ∈ Ls → Spares v0 L sb so cs) :
    slice ((run s ops).1.dev.disk.get sb) so 32 = slice (s.dev.disk.get sb) so 32 ∧
    Chain v0 (run s ops).1.dev.disk c cs ∧
    chainBytes v0 (run s ops).1.dev.disk cs = chainBytes v0 s.dev.disk cs := by
  refine ⟨?_, ?_, ?_⟩
  · refine DirSlots.slice_congr _ _ so 32 (by rw [hb' sb, hb sb]) fun i h1 h2 => ?_
    exact runLicensed_frame hR fun L hL => (hsp L hL).1 i h1 h2
  · refine ForestBase.chain_transfer hch rfl fun x hx => ?_
    refine ForestBase.nextOf_congr rfl ?_
    unfold fatRaw
    refine DirFrames.rawFatEntry_congr _ _ _ _ fun i h1 h2 => ?_
    exact runLicensed_frame hR fun L hL => (hsp L hL).2.1 x hx i h1 h2
  · refine WriteRefines.chainBytes_congr v0 _ _ cs fun x hx j hj => ?_
    refine block_ext hb hb' _ fun i => ?_
    exact runLicensed_frame hR fun L hL => (hsp L hL).2.2 x hx j hj i

/-! ### Sparing an object, in terms of the lists of the licence -/

/-- The licence `L` does not name the object with slot `(sb, so)` and chain `cs`: none of its FAT clusters,
data clusters or file chains meets `cs` or holds the slot's block, and its slots are other slots.  (The side
conditions — licensed FAT clusters are clusters of the volume, licensed slots are aligned slots of directory
blocks, the clusters of licensed file chains are data clusters — hold of every licence `LicenceFor` describes.) -/
structure Avoids (v : FatVolume) (L : Licence) (sb so : Nat) (cs : List Nat) : Prop where
  fatRange : ∀ c, c ∈ L.fatClusters → c < endCluster v
  fat : ∀ c, c ∈ cs → c ∉ L.fatClusters
  data : ∀ c, c ∈ L.dataClusters → c ∉ cs ∧ ¬ InCluster v c sb
  slots : ∀ p, p ∈ L.slots → p.2 % 32 = 0 ∧ (regionOf v p.1 = .root ∨ regionOf v p.1 = .data) ∧ p ≠ (sb, so) ∧
    ∀ c, c ∈ cs → ¬ InCluster v c p.1
  files : ∀ r, r ∈ L.files → ∀ c, c ∈ r.1 → InRange v c ∧ c ∉ cs ∧ ¬ InCluster v c sb

theorem inCluster_region {v : FatVolume} (hg : WFGeom v) {c b : Nat} (hr : InRange v c) (h : InCluster v c b) :
    regionOf v b = .data :=
  WriteSet.data_block_region v hg c b hr h.1 h.2

theorem inCluster_unique {v : FatVolume} (hg : WFGeom v) {c c' b : Nat} (hr : InRange v c) (hr' : InRange v c')
    (h : InCluster v c b) (h' : InCluster v c' b) : c = c' := by
  have := FatLens.cluster_blocks_disjoint_of_lt v hg c c' (b - clusterToBlock v c) (b - clusterToBlock v c') hr.1 hr'.1 hr.2 hr'.2
    (by have := h.1; have := h.2; omega) (by have := h'.1; have := h'.2; omega) (by have := h.1; have := h'.1; omega)
  exact this.1

/-- The block holding a licensed file position is a block of a cluster of the file's chain. -/
theorem holdsFileByte_inCluster {v : FatVolume} (hg : WFGeom v) {cs : List Nat} {p b i : Nat} (h : HoldsFileByte v cs p b i) :
    ∃ c, c ∈ cs ∧ InCluster v c b := by
  obtain ⟨c, hc, hb, _⟩ := h
  obtain ⟨_, _, a3⟩ := ChainL.offset_arith v.blocksPerCluster p hg.bpc_pos
  have a3' : p % clusterBytesLen v / 512 < v.blocksPerCluster := a3
  exact ⟨c, List.mem_of_getElem? hc, by rw [hb]; exact ⟨Nat.le_add_right _ _, by omega⟩⟩

/-- **"Not named by the licence" implies "spared by the licence"**, for an object whose slot is an aligned
slot of a directory block and whose clusters are data clusters of the volume. -/
theorem spares_of_avoids {v : FatVolume} (hg : WFGeom v) {L : Licence} {sb so : Nat} {cs : List Nat}
    (hcs : ∀ c, c ∈ cs → InRange v c) (hsreg : regionOf v sb = .root ∨ regionOf v sb = .data) (hso : so % 32 = 0)
    (ha : Avoids v L sb so cs) : Spares v L sb so cs := by
  have hinfo : ∀ b, v.fatType = .fat32 → b = v.infoLocation → regionOf v b = .info := fun b h32 hb => by
    rw [hb]; exact FatLens.info_block_in_info_region v hg h32 (Reopen.fatStart_le_numBlocks v hg)
  have hentry : ∀ b i, InLicensedEntry v L b i → regionOf v b = .fat := by
    rintro b i ⟨c, hc, hh, _, _⟩
    obtain ⟨r1, r2⟩ := FatLens.fat_blocks_in_fat_region v hg c (ha.fatRange c hc)
    rcases hh with hh | hh
    · rw [hh]; exact r1
    · exact r2 _ hh
  refine ⟨?_, ?_, ?_⟩
  · -- the slot
    intro i h1 h2 hcov
    rcases hcov with he | ⟨c, hc, hr, hin⟩ | ⟨off, hoff, g1, g2⟩ | ⟨_, h32, hb, _, _⟩ | ⟨cs', lo, hi, p, hm, _, _, hh⟩
    · have := hentry _ _ he
      rcases hsreg with h | h <;> rw [h] at this <;> cases this
    · exact (ha.data c hc).2 hin
    · obtain ⟨hal, _, hne, _⟩ := ha.slots _ hoff
      have hal' : off % 32 = 0 := hal
      exact hne (by rw [show off = so by omega])
    · have := hinfo sb h32 hb
      rcases hsreg with h | h <;> rw [h] at this <;> cases this
    · obtain ⟨c, hc, hin⟩ := holdsFileByte_inCluster hg hh
      exact (ha.files _ hm c hc).2.2 hin
  · -- the FAT entries
    intro c hc i h1 h2 hcov
    have hcr := hcs c hc
    have hfr : regionOf v (fatBlock v c) = .fat := (FatLens.fat_blocks_in_fat_region v hg c hcr.2).1
    rcases hcov with ⟨c', hc', hh, g1, g2⟩ | ⟨c', hc', hr, hin⟩ | ⟨off, hoff, _, _⟩ | ⟨_, h32, hb, _, _⟩ | ⟨cs', lo, hi, p, hm, _, _, hh⟩
    · have hne : c ≠ c' := fun e => ha.fat c hc (e ▸ hc')
      rcases hh with hh | hh
      · rcases FatLens.fatEntOffset_disjoint v c c' hne hh with h | h <;> omega
      · exact FatOps.fatBlock_ne_fatBlock2 v hg c c' _ hcr.2 hh rfl
    · have := inCluster_region hg hr hin
      rw [hfr] at this; cases this
    · obtain ⟨_, hreg, _, _⟩ := ha.slots _ hoff
      rcases hreg with h | h <;> rw [hfr] at h <;> cases h
    · have := hinfo _ h32 hb
      rw [hfr] at this; cases this
    · obtain ⟨c', hc', hin⟩ := holdsFileByte_inCluster hg hh
      have := inCluster_region hg (ha.files _ hm c' hc').1 hin
      rw [hfr] at this; cases this
  · -- the data blocks
    intro c hc j hj i hcov
    have hcr := hcs c hc
    have hin0 : InCluster v c (clusterToBlock v c + j) := ⟨Nat.le_add_right _ _, by omega⟩
    have hdr := inCluster_region hg hcr hin0
    rcases hcov with he | ⟨c', hc', hr, hin⟩ | ⟨off, hoff, _, _⟩ | ⟨_, h32, hb, _, _⟩ | ⟨cs', lo, hi, p, hm, _, _, hh⟩
    · have := hentry _ _ he
      rw [hdr] at this; cases this
    · have := inCluster_unique hg hcr hr hin0 hin
      exact (ha.data c' hc').1 (this ▸ hc)
    · obtain ⟨_, _, _, hnc⟩ := ha.slots _ hoff
      exact hnc c hc hin0
    · have := hinfo _ h32 hb
      rw [hdr] at this; cases this
    · obtain ⟨c', hc', hin⟩ := holdsFileByte_inCluster hg hh
      have := inCluster_unique hg hcr (ha.files _ hm c' hc').1 hin0 hin
      exact (ha.files _ hm c' hc').2.1 (this ▸ hc)

end Sdmmc.Lemmas.WriteSetInv
