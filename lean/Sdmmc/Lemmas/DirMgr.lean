/-
Manager-level lemmas (monad `M`) used by `Props/C02.lean` and `Props/C03.lean`:

* the monad `M` applied to a state (`mbind_apply`, `mbind_eq_ok`), `withVol` facts;
* `findDirectoryEntry_readOnly`: the name lookup writes nothing;
* `makeDirInDir_guard`, `openFile_create_guard`: the entry-creating code is reached only when the
  lookup answered `NotFound`;
* `flushFile_clean`, `flushFile_dirty`: `flush_file` is the F-level `flushF` on the file's volume;
* `KeepsFiles`: no step of `write` changes an open file's identity (handle, volume, mode, name,
  creation time, slot position) or the clock; `write_stamps`: after every `write` that got past its
  checks — whatever its outcome — the file is dirty, its modification time is the clock value and its
  archive bit is set.
-/
import Sdmmc.Lemmas.DirEntryIO

namespace Sdmmc.Lemmas.DirMgr
open Sdmmc.Model Sdmmc.Model.Fat Sdmmc.Lemmas.FBasic Sdmmc.Lemmas.FatOps Sdmmc.Lemmas.DirOps
open Sdmmc.Lemmas.DirEntryIO

/-! ### The monad `M` applied to a state -/

section MonadM
variable {α β : Type}

theorem mbind_apply (m : M α) (f : α → M β) (s : Mgr) : (m >>= f) s =
    match m s with
    | (.ok a, s') => f a s'
    | (.err e, s') => (.err e, s')
    | (.panic msg, s') => (.panic msg, s')
    | (.diverged, s') => (.diverged, s') := rfl

theorem mbind_apply' (m : M α) (f : α → M β) (s : Mgr) : (m >>= f) s =
    match (m s).1 with
    | .ok a => f a (m s).2
    | .err e => (.err e, (m s).2)
    | .panic msg => (.panic msg, (m s).2)
    | .diverged => (.diverged, (m s).2) := by
  rw [mbind_apply]
  rcases hm : m s with ⟨r, s'⟩
  cases r <;> rfl

theorem mbind_ok {m : M α} {f : α → M β} {s s' : Mgr} {a : α} (h : m s = (.ok a, s')) :
    (m >>= f) s = f a s' := by
  rw [mbind_apply, h]

theorem mbind_eq_ok {m : M α} {f : α → M β} {s s'' : Mgr} {b : β} :
    (m >>= f) s = (.ok b, s'') ↔ ∃ a s', m s = (.ok a, s') ∧ f a s' = (.ok b, s'') := by
  rw [mbind_apply]
  rcases hm : m s with ⟨r, s'⟩
  cases r with
  | ok a =>
    constructor
    · intro h; exact ⟨a, s', rfl, h⟩
    · rintro ⟨a', s1, h1, h2⟩
      cases h1; exact h2
  | err e =>
    constructor
    · intro h; cases h
    · rintro ⟨_, _, h1, _⟩; cases h1
  | panic msg =>
    constructor
    · intro h; cases h
    · rintro ⟨_, _, h1, _⟩; cases h1
  | diverged =>
    constructor
    · intro h; cases h
    · rintro ⟨_, _, h1, _⟩; cases h1

end MonadM

/-! ### `withVol` -/

theorem withVol_eq {α : Type} (volIdx : Nat) (f : F α) (s : Mgr) (vi : VolInfo) (h : s.vols[volIdx]? = some vi) :
    withVol volIdx f s =
      ((f { dev := s.dev, cache := s.cache, vol := vi.vol }).1,
       { s with dev := (f { dev := s.dev, cache := s.cache, vol := vi.vol }).2.dev,
                cache := (f { dev := s.dev, cache := s.cache, vol := vi.vol }).2.cache,
                vols := s.vols.set volIdx { vi with vol := (f { dev := s.dev, cache := s.cache, vol := vi.vol }).2.vol } }) := by
  unfold withVol
  rw [h]

theorem withVol_none {α : Type} (volIdx : Nat) (f : F α) (s : Mgr) (h : s.vols[volIdx]? = none) :
    withVol volIdx f s = (.panic "volume index out of range", s) := by
  unfold withVol
  rw [h]

theorem withVol_files {α : Type} (volIdx : Nat) (f : F α) (s : Mgr) : (withVol volIdx f s).2.files = s.files := by
  cases h : s.vols[volIdx]? with
  | none => rw [withVol_none volIdx f s h]
  | some vi => rw [withVol_eq volIdx f s vi h]

theorem withVol_clock {α : Type} (volIdx : Nat) (f : F α) (s : Mgr) : (withVol volIdx f s).2.clock = s.clock := by
  cases h : s.vols[volIdx]? with
  | none => rw [withVol_none volIdx f s h]
  | some vi => rw [withVol_eq volIdx f s vi h]

/-- A read-only F computation run on a volume leaves the medium and the write log alone. -/
theorem withVol_readOnly {α : Type} (volIdx : Nat) (f : F α) (hf : ReadOnly f) (s : Mgr) :
    (withVol volIdx f s).2.dev.disk = s.dev.disk ∧ (withVol volIdx f s).2.dev.wlog = s.dev.wlog := by
  cases h : s.vols[volIdx]? with
  | none => rw [withVol_none volIdx f s h]; exact ⟨rfl, rfl⟩
  | some vi =>
    rw [withVol_eq volIdx f s vi h]
    exact ⟨(hf _).disk, (hf _).wlog⟩

/-- Two consecutive runs on the same volume are one run of the sequence. -/
theorem withVol_seq {α β : Type} (volIdx : Nat) (f : F α) (g : F β) (s : Mgr) :
    (withVol volIdx f >>= fun _ => withVol volIdx g) s = withVol volIdx (f >>= fun _ => g) s := by
  cases h : s.vols[volIdx]? with
  | none =>
    rw [mbind_apply, withVol_none volIdx f s h, withVol_none volIdx _ s h]
  | some vi =>
    rw [mbind_apply, withVol_eq volIdx f s vi h, withVol_eq volIdx _ s vi h, bind_apply']
    have hlt : volIdx < s.vols.length := by
      rcases Nat.lt_or_ge volIdx s.vols.length with hl | hl
      · exact hl
      · rw [List.getElem?_eq_none hl] at h; cases h
    cases hr : (f { dev := s.dev, cache := s.cache, vol := vi.vol }).1 with
    | ok a =>
      simp only
      rw [withVol_eq volIdx g _ { vi with vol := (f { dev := s.dev, cache := s.cache, vol := vi.vol }).2.vol }
        (by simp only [List.getElem?_set_self hlt])]
      simp only [List.set_set]
    | err e => rfl
    | panic m => rfl
    | diverged => rfl

/-! ### The name lookup is read-only -/

theorem findBlocks_readOnly (name : Bytes) : ∀ (n b : Nat), ReadOnly (findBlocks name n b)
  | 0, _ => ReadOnly.pure _
  | n + 1, b => by
    unfold findBlocks
    refine ReadOnly.bind ReadOnly.getVol fun v => ?_
    refine ReadOnly.bind (ReadOnly.cacheRead _) fun _ => ?_
    refine ReadOnly.bind ReadOnly.cacheBlk fun blk => ?_
    cases findInSlots v.fatType b name (slotsOf blk) with
    | some e => exact ReadOnly.pure _
    | none => exact findBlocks_readOnly name n (b + 1)

theorem findWalk_readOnly (name : Bytes) : ∀ (fuel : Nat) (w : DirWalk), ReadOnly (findWalk name fuel w)
  | 0, _ => ReadOnly.diverge
  | fuel + 1, w => by
    unfold findWalk
    refine ReadOnly.bind ReadOnly.getVol fun v => ?_
    refine ReadOnly.bind (findBlocks_readOnly name _ _) fun o => ?_
    cases o with
    | some e => exact ReadOnly.pure _
    | none =>
      refine ReadOnly.ite _ (ReadOnly.fail _) ?_
      refine ReadOnly.bind (ReadOnly.attempt (nextCluster_readOnly _)) fun r => ?_
      cases r with
      | ok n => exact findWalk_readOnly name fuel _
      | err e =>
        cases e
        case EndOfFile => exact ReadOnly.fail _
        all_goals exact ReadOnly.lift _
      | panic m => exact ReadOnly.lift _
      | diverged => exact ReadOnly.lift _

theorem findDirectoryEntry_readOnly (dirCluster : Nat) (name : Bytes) :
    ReadOnly (Fat.findDirectoryEntry dirCluster name) := by
  unfold Fat.findDirectoryEntry
  exact ReadOnly.bind ReadOnly.getVol fun v => findWalk_readOnly name _ _

/-! ### Name-uniqueness guards -/

/-- `make_dir_in_dir`: what happens after the lookup, case by case.  Only the answer `NotFound`
leads to `makeDir`; a found entry gives `DirAlreadyExists` / `FileAlreadyExists`; any other outcome
of the lookup is returned as is.  The lookup itself writes nothing. -/
theorem makeDirInDir_guard (directory parentIdx volIdx : Nat) (name : List Nat) (sfn : Bytes) (parent : DirInfo)
    (s s' : Mgr) (r : Res DirEntry) (hroom : s.dirs.length < s.maxDirs)
    (h1 : getDirById directory s = (.ok parentIdx, s)) (h2 : getDir parentIdx s = (.ok parent, s))
    (h3 : getVolumeById parent.rawVolume s = (.ok volIdx, s)) (h4 : Sfn.createFromStr name = .ok sfn)
    (h6 : withVol volIdx (Fat.findDirectoryEntry parent.cluster sfn) s = (r, s')) :
    s'.dev.disk = s.dev.disk ∧ s'.dev.wlog = s.dev.wlog ∧
    makeDirInDir directory name s =
      match r with
      | .ok e => (.err (if Attr.isDirectory e.attributes then .DirAlreadyExists else .FileAlreadyExists), s')
      | .err .NotFound => withVol volIdx (Fat.makeDir parent.cluster sfn Gen.ATTR_DIRECTORY s.clock) s'
      | .err e => (.err e, s')
      | .panic m => (.panic m, s')
      | .diverged => (.diverged, s') := by
  have hro := withVol_readOnly volIdx _ (findDirectoryEntry_readOnly parent.cluster sfn) s
  rw [h6] at hro
  refine ⟨hro.1, hro.2, ?_⟩
  have hroom' : ¬ s.dirs.length ≥ s.maxDirs := by omega
  unfold makeDirInDir
  simp only [bind, M.bind', M.get, hroom', if_false, h1, h2, h3, toSfn, h4, pure, M.pure', M.attempt, h6]
  cases r with
  | ok e =>
    by_cases hd : Attr.isDirectory e.attributes = true
    · simp [hd, M.fail]
    · simp [hd, M.fail]
  | err e => cases e <;> rfl
  | panic m => rfl
  | diverged => rfl

/-- `open_file_in_dir` with mode `ReadWriteCreate`: when the lookup finds an entry of that name the
call fails (`FileAlreadyOpen` if that entry is open, `FileAlreadyExists` otherwise), the state is the
one after the lookup, and nothing was written. -/
theorem openFile_create_guard (directory dirIdx volIdx : Nat) (name : List Nat) (sfn : Bytes) (d : DirInfo)
    (s s' : Mgr) (e : DirEntry) (hroom : s.files.length < s.maxFiles)
    (h1 : getDirById directory s = (.ok dirIdx, s)) (h2 : getDir dirIdx s = (.ok d, s))
    (h3 : getVolumeById d.rawVolume s = (.ok volIdx, s)) (h4 : Sfn.createFromStr name = .ok sfn)
    (h6 : withVol volIdx (Fat.findDirectoryEntry d.cluster sfn) s = (.ok e, s')) :
    s'.dev.disk = s.dev.disk ∧ s'.dev.wlog = s.dev.wlog ∧ s'.files = s.files ∧
    openFileInDir directory name .ReadWriteCreate s =
      (.err (if fileIsOpen s' d.rawVolume e then .FileAlreadyOpen else .FileAlreadyExists), s') := by
  have hro := withVol_readOnly volIdx _ (findDirectoryEntry_readOnly d.cluster sfn) s
  have hfi := withVol_files volIdx (Fat.findDirectoryEntry d.cluster sfn) s
  rw [h6] at hro hfi
  refine ⟨hro.1, hro.2, hfi, ?_⟩
  have hroom' : ¬ s.files.length ≥ s.maxFiles := by omega
  unfold openFileInDir
  simp only [bind, M.bind', M.get, hroom', if_false, h1, h2, h3, toSfn, h4, pure, M.pure', M.attempt, h6]
  by_cases ho : fileIsOpen s' d.rawVolume e = true
  · simp only [ho, if_true]
    rfl
  · have ho' : fileIsOpen s' d.rawVolume e = false := by simpa using ho
    simp only [ho', Bool.false_eq_true, if_false]
    rfl

/-- `open_file_in_dir` with mode `ReadWriteCreate` when the lookup answers `NotFound`: the call is
the creation of a fresh entry (size 0, no cluster, times = clock) followed by the table update. -/
theorem openFile_create_notFound (directory dirIdx volIdx : Nat) (name : List Nat) (sfn : Bytes) (d : DirInfo)
    (s s' : Mgr) (hroom : s.files.length < s.maxFiles)
    (h1 : getDirById directory s = (.ok dirIdx, s)) (h2 : getDir dirIdx s = (.ok d, s))
    (h3 : getVolumeById d.rawVolume s = (.ok volIdx, s)) (h4 : Sfn.createFromStr name = .ok sfn)
    (h6 : withVol volIdx (Fat.findDirectoryEntry d.cluster sfn) s = (.err .NotFound, s'))
    (h3' : getVolumeById d.rawVolume s' = (.ok volIdx, s')) :
    openFileInDir directory name .ReadWriteCreate s =
      match withVol volIdx (Fat.writeNewDirectoryEntry d.cluster sfn 0 Gen.CLUSTER_EMPTY s'.clock) s' with
      | (.ok entry, s2) =>
        (.ok s2.nextId, { s2 with
          nextId := (s2.nextId + 1) % 4294967296
          files := s2.files ++ [{ rawFile := s2.nextId, rawVolume := d.rawVolume, curClusterOff := 0,
                                  curCluster := entry.cluster, currentOffset := 0, mode := .ReadWriteCreate,
                                  entry := entry, dirty := false }] })
      | (.err e, s2) => (.err e, s2)
      | (.panic m, s2) => (.panic m, s2)
      | (.diverged, s2) => (.diverged, s2) := by
  have hroom' : ¬ s.files.length ≥ s.maxFiles := by omega
  unfold openFileInDir
  simp only [bind, M.bind', M.get, hroom', if_false, h1, h2, h3, toSfn, h4, pure, M.pure', M.attempt, h6,
    true_or, if_true, solveModeVariant, h3']
  rcases withVol volIdx (Fat.writeNewDirectoryEntry d.cluster sfn 0 Gen.CLUSTER_EMPTY s'.clock) s' with ⟨r2, s2⟩
  cases r2 <;> rfl

/-! ### `flush_file` -/

theorem flushFile_clean (file fileIdx : Nat) (f : FileInfo) (s : Mgr)
    (h1 : getFileById file s = (.ok fileIdx, s)) (h2 : getFile fileIdx s = (.ok f, s)) (hd : f.dirty = false) :
    flushFile file s = (.ok (), s) := by
  unfold flushFile
  simp only [bind, M.bind', h1, h2, hd, Bool.false_eq_true, if_false, pure, M.pure']

/-- A dirty file: `flush_file` runs `flushF entry` — `updateInfoSector`, then `writeEntryToDisk` —
on the file's volume (the `assert!` between the two does not fire when the entry has a cluster or
is empty). -/
theorem flushFile_dirty (file fileIdx volIdx : Nat) (f : FileInfo) (s : Mgr)
    (h1 : getFileById file s = (.ok fileIdx, s)) (h2 : getFile fileIdx s = (.ok f, s)) (hd : f.dirty = true)
    (h3 : getVolumeById f.rawVolume s = (.ok volIdx, s))
    (hassert : ¬ (f.entry.size ≠ 0 ∧ f.entry.cluster = 0)) :
    flushFile file s = withVol volIdx (flushF f.entry) s := by
  have e : flushFile file s = (withVol volIdx Fat.updateInfoSector >>= fun _ => withVol volIdx (Fat.writeEntryToDisk f.entry)) s := by
    unfold flushFile
    simp only [bind, M.bind', h1, h2, hd, if_true, h3, hassert, if_false]
  rw [e, withVol_seq]
  rfl

/-! ### `write`: what it keeps and what it stamps -/

/-- What no step of `write` changes in an open file (and: once dirty, it stays dirty). -/
def SameIdentity (f f' : FileInfo) : Prop :=
  f'.rawFile = f.rawFile ∧ f'.rawVolume = f.rawVolume ∧ f'.mode = f.mode ∧ f'.entry.name = f.entry.name ∧
  f'.entry.ctime = f.entry.ctime ∧ f'.entry.entryBlock = f.entry.entryBlock ∧
  f'.entry.entryOffset = f.entry.entryOffset ∧ (f.dirty = true → f'.dirty = true)

/-- What no step of `write` *after the modification was recorded* changes: the identity, and also
the modification time and the attributes. -/
def SameStamp (f f' : FileInfo) : Prop :=
  SameIdentity f f' ∧ f'.entry.mtime = f.entry.mtime ∧ f'.entry.attributes = f.entry.attributes

theorem SameIdentity.refl (f : FileInfo) : SameIdentity f f := ⟨rfl, rfl, rfl, rfl, rfl, rfl, rfl, id⟩
theorem SameIdentity.trans {f f' f'' : FileInfo} (h1 : SameIdentity f f') (h2 : SameIdentity f' f'') :
    SameIdentity f f'' := by
  obtain ⟨a1, a2, a3, a4, a5, a6, a7, a8⟩ := h1
  obtain ⟨b1, b2, b3, b4, b5, b6, b7, b8⟩ := h2
  exact ⟨b1.trans a1, b2.trans a2, b3.trans a3, b4.trans a4, b5.trans a5, b6.trans a6, b7.trans a7, fun h => b8 (a8 h)⟩

theorem SameStamp.refl (f : FileInfo) : SameStamp f f := ⟨SameIdentity.refl f, rfl, rfl⟩
theorem SameStamp.trans {f f' f'' : FileInfo} (h1 : SameStamp f f') (h2 : SameStamp f' f'') : SameStamp f f'' :=
  ⟨h1.1.trans h2.1, h2.2.1.trans h1.2.1, h2.2.2.trans h1.2.2⟩

/-- A relation between the records of one open file before and after, usable as an invariant. -/
structure Pre (R : FileInfo → FileInfo → Prop) : Prop where
  refl : ∀ f, R f f
  trans : ∀ {a b c}, R a b → R b c → R a c

theorem pre_identity : Pre SameIdentity := ⟨SameIdentity.refl, SameIdentity.trans⟩
theorem pre_stamp : Pre SameStamp := ⟨SameStamp.refl, SameStamp.trans⟩

/-- The open-file table keeps its length and every file is `R`-related to what it was. -/
def FilesKeepR (R : FileInfo → FileInfo → Prop) (l l' : List FileInfo) : Prop :=
  l'.length = l.length ∧ ∀ (i : Nat) (f : FileInfo), l[i]? = some f → ∃ f', l'[i]? = some f' ∧ R f f'

/-- The open-file table keeps its length and every file keeps its identity. -/
def FilesKeep (l l' : List FileInfo) : Prop :=
  l'.length = l.length ∧ ∀ (i : Nat) (f : FileInfo), l[i]? = some f → ∃ f', l'[i]? = some f' ∧ SameIdentity f f'

theorem FilesKeepR.refl {R} (hR : Pre R) (l : List FileInfo) : FilesKeepR R l l := ⟨rfl, fun _ f h => ⟨f, h, hR.refl f⟩⟩
theorem FilesKeepR.trans {R} (hR : Pre R) {l l' l'' : List FileInfo} (h1 : FilesKeepR R l l') (h2 : FilesKeepR R l' l'') :
    FilesKeepR R l l'' := by
  refine ⟨h2.1.trans h1.1, fun i f hf => ?_⟩
  obtain ⟨f', hf', hs⟩ := h1.2 i f hf
  obtain ⟨f'', hf'', hs'⟩ := h2.2 i f' hf'
  exact ⟨f'', hf'', hR.trans hs hs'⟩

/-- Whatever the state and the outcome, `m` keeps every open file `R`-related and the clock still. -/
def KeepsR {α : Type} (R : FileInfo → FileInfo → Prop) (m : M α) : Prop :=
  ∀ s, FilesKeepR R s.files (m s).2.files ∧ (m s).2.clock = s.clock

/-- Whatever the state and the outcome, `m` keeps every open file's identity and the clock. -/
def KeepsFiles {α : Type} (m : M α) : Prop := ∀ s, FilesKeep s.files (m s).2.files ∧ (m s).2.clock = s.clock

theorem keepsFiles_iff {α : Type} (m : M α) : KeepsFiles m ↔ KeepsR SameIdentity m := Iff.rfl

theorem KeepsR.mono {α : Type} {R R' : FileInfo → FileInfo → Prop} (h : ∀ a b, R a b → R' a b) {m : M α}
    (hm : KeepsR R m) : KeepsR R' m := by
  intro s
  obtain ⟨⟨h1, h2⟩, h3⟩ := hm s
  refine ⟨⟨h1, fun i f hf => ?_⟩, h3⟩
  obtain ⟨f', hf', hr⟩ := h2 i f hf
  exact ⟨f', hf', h _ _ hr⟩

section Keeps
variable {α β : Type} {R : FileInfo → FileInfo → Prop}

theorem keeps_of_same (hR : Pre R) {m : M α} (h : ∀ s, (m s).2.files = s.files ∧ (m s).2.clock = s.clock) :
    KeepsR R m := by
  intro s
  rw [(h s).1]
  exact ⟨FilesKeepR.refl hR _, (h s).2⟩

theorem keeps_pure (hR : Pre R) (a : α) : KeepsR R (pure a : M α) := keeps_of_same hR fun _ => ⟨rfl, rfl⟩
theorem keeps_lift (hR : Pre R) (r : Res α) : KeepsR R (M.lift r) := keeps_of_same hR fun _ => ⟨rfl, rfl⟩
theorem keeps_fail (hR : Pre R) (e : Err) : KeepsR R (M.fail e : M α) := keeps_of_same hR fun _ => ⟨rfl, rfl⟩
theorem keeps_get (hR : Pre R) : KeepsR R M.get := keeps_of_same hR fun _ => ⟨rfl, rfl⟩
theorem keeps_withVol (hR : Pre R) (volIdx : Nat) (f : F α) : KeepsR R (withVol volIdx f) :=
  keeps_of_same hR fun s => ⟨withVol_files volIdx f s, withVol_clock volIdx f s⟩
theorem keeps_getFile (hR : Pre R) (i : Nat) : KeepsR R (getFile i) := keeps_of_same hR fun s => by
  unfold getFile; split <;> exact ⟨rfl, rfl⟩
theorem keeps_getFileById (hR : Pre R) (raw : Nat) : KeepsR R (getFileById raw) := keeps_of_same hR fun s => by
  unfold getFileById; split <;> exact ⟨rfl, rfl⟩
theorem keeps_getVolumeById (hR : Pre R) (raw : Nat) : KeepsR R (getVolumeById raw) := keeps_of_same hR fun s => by
  unfold getVolumeById; split <;> exact ⟨rfl, rfl⟩

theorem keeps_bind (hR : Pre R) {m : M α} {f : α → M β} (hm : KeepsR R m) (hf : ∀ a, KeepsR R (f a)) :
    KeepsR R (m >>= f) := by
  intro s
  rw [mbind_apply']
  have h1 := hm s
  cases (m s).1 with
  | ok a =>
    have h2 := hf a (m s).2
    exact ⟨FilesKeepR.trans hR h1.1 h2.1, h2.2.trans h1.2⟩
  | err e => exact h1
  | panic msg => exact h1
  | diverged => exact h1

theorem keeps_attempt {m : M α} (hm : KeepsR R m) : KeepsR R (M.attempt m) := fun s => hm s

theorem keeps_ite (c : Prop) [Decidable c] {m1 m2 : M α} (h1 : KeepsR R m1) (h2 : KeepsR R m2) :
    KeepsR R (if c then m1 else m2) := by
  split
  · exact h1
  · exact h2

theorem keeps_modifyFile (hR : Pre R) (i : Nat) (g : FileInfo → FileInfo) (hg : ∀ f, R f (g f)) :
    KeepsR R (modifyFile i g) := by
  intro s
  refine ⟨⟨?_, fun j f hf => ?_⟩, rfl⟩
  · show (s.files.modify i g).length = _
    rw [List.length_modify]
  · show ∃ f', (s.files.modify i g)[j]? = some f' ∧ _
    rw [List.getElem?_modify, hf]
    by_cases hij : i = j
    · exact ⟨g f, by simp [hij], hg f⟩
    · exact ⟨f, by simp [hij], hR.refl f⟩

end Keeps

/-- The loop of `write` touches length, cursor and cluster cursor only. -/
theorem keeps_writeLoop (fileIdx volIdx : Nat) : ∀ (fuel : Nat) (buffer : Bytes),
    KeepsR SameStamp (writeLoop fileIdx volIdx fuel buffer)
  | 0, _ => keeps_pure pre_stamp _
  | fuel + 1, buffer => by
    have hR := pre_stamp
    unfold writeLoop
    refine keeps_ite _ (keeps_pure hR _) ?_
    refine keeps_bind hR (keeps_getFile hR _) fun f => ?_
    refine keeps_bind hR (keeps_attempt (keeps_withVol hR _ _)) fun r => ?_
    refine keeps_bind hR ?_ fun x => ?_
    · -- locating (and possibly extending) the file
      cases r with
      | ok p =>
        rcases p with ⟨cc, r1⟩
        cases r1 with
        | ok x => exact keeps_pure hR _
        | err e =>
          cases e
          case EndOfFile =>
            refine keeps_bind hR (keeps_attempt (keeps_withVol hR _ _)) fun ra => ?_
            cases ra with
            | ok c =>
              refine keeps_bind hR (keeps_attempt (keeps_withVol hR _ _)) fun r2 => ?_
              cases r2 with
              | ok p2 =>
                rcases p2 with ⟨cc2, r3⟩
                cases r3 with
                | ok x => exact keeps_pure hR _
                | err e => exact keeps_fail hR _
                | panic m => exact keeps_lift hR _
                | diverged => exact keeps_lift hR _
              | err e => exact keeps_lift hR _
              | panic m => exact keeps_lift hR _
              | diverged => exact keeps_lift hR _
            | err e => exact keeps_fail hR _
            | panic m => exact keeps_lift hR _
            | diverged => exact keeps_lift hR _
          all_goals exact keeps_lift hR _
        | panic m => exact keeps_lift hR _
        | diverged => exact keeps_lift hR _
      | err e => exact keeps_lift hR _
      | panic m => exact keeps_lift hR _
      | diverged => exact keeps_lift hR _
    · rcases x with ⟨cc, blockIdx, blockOffset, blockAvail⟩
      refine keeps_bind hR (keeps_withVol hR _ _) fun _ => ?_
      refine keeps_bind hR (keeps_modifyFile hR _ _ fun f => ?_) fun _ => keeps_writeLoop fileIdx volIdx fuel _
      simp only
      split
      · exact ⟨⟨rfl, rfl, rfl, rfl, rfl, rfl, rfl, id⟩, rfl, rfl⟩
      · exact ⟨⟨rfl, rfl, rfl, rfl, rfl, rfl, rfl, id⟩, rfl, rfl⟩

/-! ### `write`, cut after the modification was recorded -/

/-- The first update of `write`: dirty flag, archive bit, modification time. -/
def stamp (clock : Timestamp) (f : FileInfo) : FileInfo :=
  { f with dirty := true, entry := { f.entry with attributes := Attr.setArchive f.entry.attributes, mtime := clock } }

/-- The end of `write`: position the cluster cursor, then run the loop. -/
def writeEnd (fileIdx : Nat) (f : FileInfo) (buffer : Bytes) : M Unit := do
  let volIdx ← getVolumeById f.rawVolume
  modifyFile fileIdx fun f =>
    if f.curCluster < f.entry.cluster then { f with curClusterOff := 0, curCluster := f.entry.cluster } else f
  let f ← getFile fileIdx
  let bytesUntilMax := Gen.MAX_FILE_SIZE - f.currentOffset
  let bytesToWrite := min buffer.length bytesUntilMax
  writeLoop fileIdx volIdx (bytesToWrite + 1) (buffer.take bytesToWrite)
  if bytesToWrite < buffer.length then M.fail .DiskFull else pure ()

/-- `write` after the handle checks and after the modification was recorded. -/
def writeTail (fileIdx : Nat) (f : FileInfo) (buffer : Bytes) (volIdx : Nat) : M Unit :=
  if f.entry.cluster < Gen.RESERVED_ENTRIES then do
    let c ← withVol volIdx (Fat.allocCluster none false)
    modifyFile fileIdx fun f => { f with entry := { f.entry with cluster := c } }
    writeEnd fileIdx f buffer
  else writeEnd fileIdx f buffer

theorem write_eq (file fileIdx volIdx : Nat) (f : FileInfo) (buffer : Bytes) (s : Mgr)
    (h1 : getFileById file s = (.ok fileIdx, s)) (h2 : getFile fileIdx s = (.ok f, s))
    (h3 : getVolumeById f.rawVolume s = (.ok volIdx, s)) (hmode : f.mode ≠ .ReadOnly) :
    write file buffer s =
      writeTail fileIdx f buffer volIdx { s with files := s.files.modify fileIdx (stamp s.clock) } := by
  unfold write writeTail writeEnd
  simp only [bind, M.bind', h1, h2, h3, hmode, if_false, M.get, modifyFile, M.modify]
  rfl

theorem keeps_writeEnd (fileIdx : Nat) (f : FileInfo) (buffer : Bytes) : KeepsR SameStamp (writeEnd fileIdx f buffer) := by
  have hR := pre_stamp
  unfold writeEnd
  refine keeps_bind hR (keeps_getVolumeById hR _) fun v => ?_
  refine keeps_bind hR (keeps_modifyFile hR _ _ fun f => ?_) fun _ => ?_
  · split
    · exact ⟨⟨rfl, rfl, rfl, rfl, rfl, rfl, rfl, id⟩, rfl, rfl⟩
    · exact SameStamp.refl f
  · exact keeps_bind hR (keeps_getFile hR _) fun f' =>
      keeps_bind hR (keeps_writeLoop _ _ _ _) fun _ => keeps_ite _ (keeps_fail hR _) (keeps_pure hR _)

theorem keeps_writeTail (fileIdx : Nat) (f : FileInfo) (buffer : Bytes) (volIdx : Nat) :
    KeepsR SameStamp (writeTail fileIdx f buffer volIdx) := by
  have hR := pre_stamp
  unfold writeTail
  refine keeps_ite _ ?_ (keeps_writeEnd _ _ _)
  refine keeps_bind hR (keeps_withVol hR _ _) fun c => ?_
  exact keeps_bind hR (keeps_modifyFile hR _ _ fun f => ⟨⟨rfl, rfl, rfl, rfl, rfl, rfl, rfl, id⟩, rfl, rfl⟩)
    fun _ => keeps_writeEnd _ _ _

theorem setArchive_bit (a : Nat) : Attr.setArchive a / 32 % 2 = 1 := by
  unfold Attr.setArchive
  show (if a / 32 % 2 = 1 then a else a + 32) / 32 % 2 = 1
  split
  · assumption
  · omega

theorem stamp_identity (clock : Timestamp) (f : FileInfo) : SameIdentity f (stamp clock f) :=
  ⟨rfl, rfl, rfl, rfl, rfl, rfl, rfl, fun _ => rfl⟩

/-- `write` (any outcome): every open file keeps its handle, volume, mode, name, creation time and
slot position; the clock does not move. -/
theorem write_keeps (file : Nat) (buffer : Bytes) : KeepsFiles (write file buffer) := by
  have hR := pre_identity
  show KeepsR SameIdentity (write file buffer)
  unfold write
  refine keeps_bind hR (keeps_getFileById hR _) fun fileIdx => ?_
  refine keeps_bind hR (keeps_getFile hR _) fun f => ?_
  refine keeps_bind hR (keeps_getVolumeById hR _) fun volIdx => ?_
  refine keeps_ite _ (keeps_fail hR _) ?_
  refine keeps_bind hR (keeps_get hR) fun s0 => ?_
  refine keeps_bind hR (keeps_modifyFile hR fileIdx (stamp s0.clock) (stamp_identity _)) fun _ => ?_
  exact KeepsR.mono (fun _ _ h => h.1) (keeps_writeTail fileIdx f buffer volIdx)

/-- Every `write` that gets past its checks (valid handle, volume open, mode not `ReadOnly`),
WHATEVER ITS OUTCOME: afterwards the clock has not moved, the file is dirty, its modification time is
the clock value, its archive bit is set, and its identity (name, creation time, slot position, …) is
what it was. -/
theorem write_stamps (file fileIdx volIdx : Nat) (f : FileInfo) (buffer : Bytes) (s : Mgr)
    (h1 : getFileById file s = (.ok fileIdx, s)) (h2 : getFile fileIdx s = (.ok f, s))
    (h3 : getVolumeById f.rawVolume s = (.ok volIdx, s)) (hmode : f.mode ≠ .ReadOnly) :
    (write file buffer s).2.clock = s.clock ∧
    ∃ f', (write file buffer s).2.files[fileIdx]? = some f' ∧ f'.dirty = true ∧ f'.entry.mtime = s.clock ∧
      f'.entry.attributes = Attr.setArchive f.entry.attributes ∧ f'.entry.attributes / 32 % 2 = 1 ∧
      SameIdentity f f' := by
  have hf : s.files[fileIdx]? = some f := by
    unfold getFile at h2
    cases hx : s.files[fileIdx]? with
    | none => rw [hx] at h2; cases h2
    | some x =>
      rw [hx] at h2
      have : x = f := Res.ok.inj (congrArg Prod.fst h2)
      rw [this]
  rw [write_eq file fileIdx volIdx f buffer s h1 h2 h3 hmode]
  generalize hs1 : ({ s with files := s.files.modify fileIdx (stamp s.clock) } : Mgr) = s1
  have hf1 : s1.files[fileIdx]? = some (stamp s.clock f) := by
    rw [← hs1]
    show (s.files.modify fileIdx _)[fileIdx]? = _
    rw [List.getElem?_modify, hf]
    simp
  have hc1 : s1.clock = s.clock := by rw [← hs1]
  obtain ⟨hk, hclk⟩ := keeps_writeTail fileIdx f buffer volIdx s1
  obtain ⟨f2, hf2, hid, hmt, hat⟩ := hk.2 fileIdx _ hf1
  have hdirty : f2.dirty = true := hid.2.2.2.2.2.2.2 rfl
  have hatt : f2.entry.attributes = Attr.setArchive f.entry.attributes := hat
  refine ⟨hclk.trans hc1, f2, hf2, hdirty, hmt, hatt, by rw [hatt]; exact setArchive_bit _, ?_⟩
  exact (stamp_identity s.clock f).trans hid

/-- A `write` refused because the file was opened `ReadOnly` changes nothing. -/
theorem write_readOnly_refused (file fileIdx volIdx : Nat) (f : FileInfo) (buffer : Bytes) (s : Mgr)
    (h1 : getFileById file s = (.ok fileIdx, s)) (h2 : getFile fileIdx s = (.ok f, s))
    (h3 : getVolumeById f.rawVolume s = (.ok volIdx, s)) (hmode : f.mode = .ReadOnly) :
    write file buffer s = (.err .ReadOnly, s) := by
  unfold write
  simp only [bind, M.bind', h1, h2, h3, hmode, if_true, M.fail]

end Sdmmc.Lemmas.DirMgr
