/-
A free count marked unknown (`none`) stays unknown through every engine step.  Used by
`Props/C16Hist.lean`.
-/
import Sdmmc.Lemmas.ForestFinal

namespace Sdmmc.Lemmas.ForestUnknown
open Sdmmc.Model Sdmmc.Model.Fat Sdmmc.Spec
open Sdmmc.Lemmas.FBasic hiding NoFault Coherent
open Sdmmc.Lemmas.FatOps hiding BlocksOK Mirror HintOK
open Sdmmc.Lemmas.ForestAlloc Sdmmc.Lemmas.ForestOwns

theorem count_unknown_step (st : FS × List (List Nat)) (op : FatOp) (h : Exact st)
    (hu : st.1.vol.freeClustersCount = none) : (Spec.step st op).1.vol.freeClustersCount = none := by
  obtain ⟨s, G⟩ := st
  have hr' : Ready s := h.1
  have ho' : Owns s.vol s.dev.disk G := h.2
  have hu' : s.vol.freeClustersCount = none := hu
  have alloc_case : ∀ (prev : Option Nat) (zero : Bool) (r : Res Nat) (s' : FS), allocCluster prev zero s = (r, s') →
      s'.vol.freeClustersCount = none := by
    intro prev zero r s' ha
    rcases alloc_total s prev zero hr'.noFault hr'.coherent with ⟨c, s'', ha'⟩ | ⟨s'', ha', _, hv, _, _⟩
    · rw [ha'] at ha
      cases ha
      rw [FatOps.alloc_count s s' prev zero c ha', hu']; rfl
    · rw [ha'] at ha
      cases ha
      rw [hv]; exact hu'
  cases op with
  | newChain zero =>
    cases ha : allocCluster none zero s with
    | mk r s' =>
      have := alloc_case none zero r s' ha
      cases r <;> simpa only [Spec.step, ha] using this
  | extend i zero =>
    cases hG : G[i]? with
    | none => simpa only [Spec.step, hG] using hu'
    | some cs =>
      cases hl : cs.getLast? with
      | none => simpa only [Spec.step, hG, hl] using hu'
      | some p =>
        cases ha : allocCluster (some p) zero s with
        | mk r s' =>
          have := alloc_case (some p) zero r s' ha
          cases r <;> simpa only [Spec.step, hG, hl, ha] using this
  | truncate i k =>
    cases hG : G[i]? with
    | none => simpa only [Spec.step, hG] using hu'
    | some cs =>
      cases hk : cs[k]? with
      | none => simpa only [Spec.step, hG, hk] using hu'
      | some x =>
        obtain ⟨hcsplit, _⟩ := split_at hk
        have hmem : cs ∈ G := List.mem_of_getElem? hG
        have hch := ho'.1 cs hmem
        rw [hcsplit] at hch
        obtain ⟨s', ht, _, _, _, _, _, _, _, hcnt, _⟩ :=
          ForestFinal.truncate_frees_exactly_tail s _ x (cs.take k) (cs.drop (k + 1)) hr'.noFault hr'.coherent
            hr'.blocksOK hr'.geom hch
        have : s'.vol.freeClustersCount = none := by rw [hcnt, hu']; rfl
        simpa only [Spec.step, hG, hk, ht] using this
  | free i =>
    cases hG : G[i]? with
    | none => simpa only [Spec.step, hG] using hu'
    | some cs =>
      cases hh : cs.head? with
      | none => simpa only [Spec.step, hG, hh] using hu'
      | some r =>
        have hcs : cs = r :: cs.tail := by
          cases cs with
          | nil => cases hh
          | cons a t => cases hh; rfl
        have hmem : cs ∈ G := List.mem_of_getElem? hG
        have hch := ho'.1 cs hmem
        have hd : cs.headD 0 = r := by rw [hcs]; rfl
        rw [hd] at hch
        obtain ⟨s', hf, _, _, _, _, _, hcnt, _⟩ :=
          ForestFinal.free_chain_frees_exactly_chain s r cs hr'.noFault hr'.coherent hr'.blocksOK hr'.geom hch
        have : s'.vol.freeClustersCount = none := by rw [hcnt, hu']; rfl
        simpa only [Spec.step, hG, hh, hf] using this

end Sdmmc.Lemmas.ForestUnknown
