/-
The invariant with lost chains is kept by every covered fault-free call (all constructors of `Op`): no call touches,
hands out or walks a lost chain; the lost chains `X` are the same afterwards.
-/
import Sdmmc.Lemmas.VolXApiOpen
import Sdmmc.Lemmas.VolXApiMkdir
import Sdmmc.Lemmas.VolXApiMount
import Sdmmc.Lemmas.VolXApiWrite
import Sdmmc.Lemmas.FaultInvMain

namespace Sdmmc.Lemmas.VolX
open Sdmmc.Model Sdmmc.Model.Fat Sdmmc.Spec.Volume
open Sdmmc.Spec hiding NoFault Coherent
open Sdmmc.Lemmas.FaultInv (FCovered)

/-- **Every covered call keeps the invariant with lost chains.** -/
theorem covered_step_invX {X : List (List Nat)} {s : Mgr} {gh : Ghost} (hI : VolInvX X s gh) (op : Op) (hc : FCovered s op) :
    ∃ gh', VolInvX X (step s op).1 gh' ∧ SameGeom gh.vol gh'.vol := by
  cases op with
  | openVolume idx => exact step_openVolume_api_open hI hc idx
  | closeVolume v => exact step_closeVolume_api hI v
  | openRoot v => exact step_openRoot_api hI v
  | openDir d name => exact step_openDir_api hI d name hc
  | closeDir d => exact step_closeDir_api hI d
  | openFile d name mode => exact step_openFile_api hI d name mode hc
  | read f n => exact step_read_api hI f n
  | write f data => exact write_step_api hI f data
  | seekStart f n => exact step_seekStart_api hI f n
  | seekCur f n => exact step_seekCur_api hI f n
  | seekEnd f n => exact step_seekEnd_api hI f n
  | flush f => exact step_flush_api hI f
  | closeFile f => exact step_closeFile_api hI f
  | delete d name => exact step_delete_api hI d name hc
  | mkdir d name => exact step_mkdir_api hI d name hc
  | find d name => exact step_find_api hI d name
  | list d => exact step_list_api hI d
  | listLfn d n => exact step_listLfn_api hI d n
  | length f => exact step_length_api hI f
  | offset f => exact step_offset_api hI f
  | eof f => exact step_eof_api hI f
  | hasOpen => exact step_hasOpen_api hI
  | label v => exact step_label_api hI v

end Sdmmc.Lemmas.VolX
