/-
C11 (device faults) with several open volumes, part 4 — THE RETRY of a read-only call that failed on a transient fault.

The simulation lemma `Lemmas.VolN.step_sim` relates the state a call leaves to the state the call on the projection leaves
only UP TO THE ORDER of the directory / file tables (`ProjRel`).  For the read-only calls the retry theorem covers
(`Props.C11Inv.retryOp`) more is true, and that is what the retry needs:

* `Exact hv i m s` — `m` answers the same on `s` and on its projection to volume record `i`, and WHEN IT DOES NOT ANSWER
  `Ok` the state the projection reaches IS the projection of the state `s` reaches, and the key skeleton of the directory and
  file tables (handle, volume handle, in table order) is the one before;
* `Exact.of_simAt` — every exactly simulated call (`SimAt`: `find_directory_entry`, `iterate_dir`, `iterate_dir_lfn`,
  `read`, the seeks, the observers); `openDir_exact` — `open_dir`, which appends a record only when it succeeds;
* `step_exact` — the same through `step`, for every `retryOp` call addressed to volume record `i`;
* `target_congr` — the volume record a call is addressed to depends on the key skeleton and the volume handles only;
* `retry_multi` — **a read-only call on volume `i` of which a device call failed, issued again on the N-volume manager
  from the state the failed call left, with the fault gone, answers what it answers without any fault from the state it
  was first issued in** (the one-volume theorem `Props.C11Inv.retry_after_fault_correct` on the projection, and the
  simulation lemma three times: for the faulted call, for the retry, for the fault-free call).
-/
import Sdmmc.Lemmas.VolNFault2

namespace Sdmmc.Lemmas.VolNFault
open Sdmmc.Model Sdmmc.Model.Fat Sdmmc.Spec.Volume
open Sdmmc.Spec hiding run step NoFault Coherent
open Sdmmc.Lemmas.VolN (LabelFresh ProjRel StepSim projH Skel SimAt dkey fkeyN vkey RunSim)
open Sdmmc.Lemmas.MHoare
open Sdmmc.Props

/-! ### Exact simulation of a call that does not answer `Ok` -/

structure Exact {α : Type} (hv i : Nat) (m : M α) (s : Mgr) : Prop where
  res : (m (projH hv i s)).1 = (m s).1
  state : (∀ a, (m s).1 ≠ .ok a) → (m (projH hv i s)).2 = projH hv i (m s).2
  dirs : (∀ a, (m s).1 ≠ .ok a) → (m s).2.dirs.map dkey = s.dirs.map dkey
  files : (∀ a, (m s).1 ≠ .ok a) → (m s).2.files.map fkeyN = s.files.map fkeyN

section
variable {hv i : Nat}

theorem Exact.of_simAt {α : Type} {m : M α} {s : Mgr}
    (h : SimAt hv i (s.dirs.map dkey) (s.files.map fkeyN) Eq m m s) : Exact hv i m s :=
  ⟨h.2.2.1.eq, fun _ => h.2.1, fun _ => h.1.dirs, fun _ => h.1.files⟩

/-- Mapping the answer into a payload. -/
theorem Exact.map {α β : Type} {m : M α} {s : Mgr} (h : Exact hv i m s) (g : α → β) :
    Exact hv i (m >>= fun a => (pure (g a) : M β)) s := by
  have hnok : (∀ b, ((m >>= fun a => (pure (g a) : M β)) s).1 ≠ .ok b) → ∀ a, (m s).1 ≠ .ok a := by
    intro hb a ha
    have : m s = (.ok a, (m s).2) := Prod.ext ha rfl
    exact hb (g a) (by rw [bind_ok this]; rfl)
  refine ⟨?_, fun hb => ?_, fun hb => ?_, fun hb => ?_⟩
  · have h1 := h.res
    rw [bind_def, bind_def]
    revert h1
    generalize m (projH hv i s) = p
    generalize m s = q
    intro h1
    obtain ⟨r, t⟩ := p
    obtain ⟨r', t'⟩ := q
    have h2 : r = r' := h1
    subst h2
    cases r <;> rfl
  · rw [Lemmas.VolApi.map_state, Lemmas.VolApi.map_state]; exact h.state (hnok hb)
  · rw [Lemmas.VolApi.map_state]; exact h.dirs (hnok hb)
  · rw [Lemmas.VolApi.map_state]; exact h.files (hnok hb)

/-- `t'` IS the projection of `s'` when its tables are the projected tables in table order. -/
theorem projRel_exact {s' t' : Mgr} (h : ProjRel hv i s' t') (hd : t'.dirs = volDirs s' hv) (hf : t'.files = volFiles s' hv) :
    t' = projH hv i s' := by
  obtain ⟨dev, cache, nextId, vols, dirs, files, mv, md, mf, clock, locked⟩ := t'
  obtain ⟨h1, h2, h3, h4, h5, h6, _, _, h9, h10, h11⟩ := h
  simp only at h1 h2 h3 h4 h5 h6 h9 h10 h11 hd hf
  subst h1 h2 h3 h4 h5 h6 h9 h10 h11 hd hf
  rfl

/-- `open_dir` that does not answer `Ok` leaves the directory and file tables alone — from any state, whatever failed. -/
theorem openDir_fail_tables (d : Nat) (name : List Nat) (s : Mgr) (h : ∀ a, (openDir d name s).1 ≠ .ok a) :
    (openDir d name s).2.dirs = s.dirs ∧ (openDir d name s).2.files = s.files := by
  unfold openDir at h ⊢
  rw [get_bind] at h ⊢
  by_cases hc : s.dirs.length ≥ s.maxDirs
  · rw [if_pos hc]; exact ⟨rfl, rfl⟩
  rw [if_neg hc] at h ⊢
  cases hk : s.dirs.findIdx? (·.rawDirectory = d) with
  | none => rw [bind_err (getDirById_bad hk)]; exact ⟨rfl, rfl⟩
  | some k =>
    obtain ⟨di, hdi, _⟩ := findIdx?_some_get hk
    rw [bind_ok (getDirById_ok hk), bind_ok (getDir_ok hdi)] at h ⊢
    cases hvf : s.vols.findIdx? (·.rawVolume = di.rawVolume) with
    | none => rw [bind_err (getVolumeById_bad hvf)]; exact ⟨rfl, rfl⟩
    | some vidx =>
      obtain ⟨vi, hvi, _⟩ := findIdx?_some_get hvf
      rw [bind_ok (getVolumeById_ok hvf)] at h ⊢
      cases hs : Sfn.createFromStr name with
      | error e => rw [bind_err (Modes.toSfn_err hs _)]; exact ⟨rfl, rfl⟩
      | ok sfn =>
        rw [bind_ok (Modes.toSfn_ok hs _), bind_ok (getVolInfo_ok hvi)] at h ⊢
        by_cases hd : sfn = Sfn.thisDir
        · rw [if_pos hd] at h
          exact absurd rfl (h s.nextId)
        rw [if_neg hd] at h ⊢
        have hw := DirMgr.withVol_eq vidx (Fat.findDirectoryEntry di.cluster sfn) s vi hvi
        rcases hr : Fat.findDirectoryEntry di.cluster sfn { dev := s.dev, cache := s.cache, vol := vi.vol } with ⟨r, fs'⟩
        rw [hr] at hw
        simp only at hw
        cases r with
        | ok e =>
          rw [bind_ok hw] at h ⊢
          by_cases he : (!Attr.isDirectory e.attributes) = true
          · rw [if_pos he]; exact ⟨rfl, rfl⟩
          · rw [if_neg he] at h
            exact absurd rfl (h s.nextId)
        | err e => rw [bind_err hw]; exact ⟨rfl, rfl⟩
        | panic msg => rw [bind_panic hw]; exact ⟨rfl, rfl⟩
        | diverged => rw [bind_diverged hw]; exact ⟨rfl, rfl⟩

theorem openDir_exact {s : Mgr} {d : Nat} (hvol : s.vols.findIdx? (·.rawVolume = hv) = some i) (ht : dirTarget s d = some i)
    (name : List Nat) : Exact hv i (openDir d name) s := by
  have hR := Lemmas.VolN.openDir_runSim hvol ht name
  have hnok : (∀ a, (openDir d name s).1 ≠ .ok a) → ∀ a, (openDir d name (projH hv i s)).1 ≠ .ok a := by
    intro h a; rw [hR.res]; exact h a
  refine ⟨hR.res, fun h => ?_, fun h => by rw [(openDir_fail_tables d name s h).1],
    fun h => by rw [(openDir_fail_tables d name s h).2]⟩
  obtain ⟨t1, t2⟩ := openDir_fail_tables d name s h
  obtain ⟨p1, p2⟩ := openDir_fail_tables d name (projH hv i s) (hnok h)
  refine projRel_exact hR.rel ?_ ?_
  · rw [p1]; show volDirs s hv = _; unfold volDirs; rw [t1]
  · rw [p2]; show volFiles s hv = _; unfold volFiles; rw [t2]

end

/-! ### The target of a call reads the key skeleton only -/

theorem findIdx?_vols_congr {s s' : Mgr} (hv : s'.vols.map (·.rawVolume) = s.vols.map (·.rawVolume)) (r : Nat) :
    s'.vols.findIdx? (·.rawVolume = r) = s.vols.findIdx? (·.rawVolume = r) := by
  have e := Lemmas.VolN.findIdx?_map_key (fun v : VolInfo => v.rawVolume) (fun x => decide (x = r))
  rw [e s'.vols, e s.vols, hv]

theorem dirTarget_congr {s s' : Mgr} (hv : s'.vols.map (·.rawVolume) = s.vols.map (·.rawVolume))
    (hd : s'.dirs.map dkey = s.dirs.map dkey) (d : Nat) : dirTarget s' d = dirTarget s d := by
  unfold dirTarget
  have e := Lemmas.VolN.findIdx?_map_key dkey (fun x => decide (x.1 = d))
  have e1 : s'.dirs.findIdx? (·.rawDirectory = d) = s.dirs.findIdx? (·.rawDirectory = d) := by
    have a := e s'.dirs
    have b := e s.dirs
    rw [hd] at a
    exact a.trans b.symm
  rw [e1]
  cases s.dirs.findIdx? (·.rawDirectory = d) with
  | none => rfl
  | some k =>
    simp only
    have hk : (s'.dirs.map dkey)[k]? = (s.dirs.map dkey)[k]? := by rw [hd]
    rw [List.getElem?_map, List.getElem?_map] at hk
    cases h1 : s'.dirs[k]? with
    | none =>
      rw [h1] at hk
      cases h2 : s.dirs[k]? with
      | none => rfl
      | some y => rw [h2] at hk; cases hk
    | some x =>
      rw [h1] at hk
      cases h2 : s.dirs[k]? with
      | none => rw [h2] at hk; cases hk
      | some y =>
        rw [h2] at hk
        have : dkey x = dkey y := by simpa using hk
        have hxy : x.rawVolume = y.rawVolume := congrArg Prod.snd this
        simp only
        rw [hxy]
        exact findIdx?_vols_congr hv _

theorem fileTarget_congr {s s' : Mgr} (hv : s'.vols.map (·.rawVolume) = s.vols.map (·.rawVolume))
    (hf : s'.files.map fkeyN = s.files.map fkeyN) (f : Nat) : fileTarget s' f = fileTarget s f := by
  unfold fileTarget
  have e := Lemmas.VolN.findIdx?_map_key fkeyN (fun x => decide (x.1 = f))
  have e1 : s'.files.findIdx? (·.rawFile = f) = s.files.findIdx? (·.rawFile = f) := by
    have a := e s'.files
    have b := e s.files
    rw [hf] at a
    exact a.trans b.symm
  rw [e1]
  cases s.files.findIdx? (·.rawFile = f) with
  | none => rfl
  | some k =>
    simp only
    have hk : (s'.files.map fkeyN)[k]? = (s.files.map fkeyN)[k]? := by rw [hf]
    rw [List.getElem?_map, List.getElem?_map] at hk
    cases h1 : s'.files[k]? with
    | none =>
      rw [h1] at hk
      cases h2 : s.files[k]? with
      | none => rfl
      | some y => rw [h2] at hk; cases hk
    | some x =>
      rw [h1] at hk
      cases h2 : s.files[k]? with
      | none => rw [h2] at hk; cases hk
      | some y =>
        rw [h2] at hk
        have : fkeyN x = fkeyN y := by simpa using hk
        have hxy : x.rawVolume = y.rawVolume := congrArg Prod.snd this
        simp only
        rw [hxy]
        exact findIdx?_vols_congr hv _

/-- The volume record a call is addressed to depends only on the volume handles and the key skeleton of the tables. -/
theorem target_congr {s s' : Mgr} (hv : s'.vols.map (·.rawVolume) = s.vols.map (·.rawVolume))
    (hd : s'.dirs.map dkey = s.dirs.map dkey) (hf : s'.files.map fkeyN = s.files.map fkeyN) (op : Op) :
    target s' op = target s op := by
  cases op <;> first
    | rfl
    | exact dirTarget_congr hv hd _
    | exact fileTarget_congr hv hf _
    | exact findIdx?_vols_congr hv _

/-! ### Through `step` -/

/-- **Every `retryOp` call addressed to volume record `i`**, run from `s` and from its projection. -/
theorem runOp_exact {s : Mgr} {hv i : Nat} (hvol : s.vols.findIdx? (·.rawVolume = hv) = some i) (op : Op)
    (ht : target s op = some i) (hop : C11Inv.retryOp op = true) : Exact hv i (runOp op) s := by
  have hs : Skel hv i (s.dirs.map dkey) (s.files.map fkeyN) s := ⟨hvol, rfl, rfl⟩
  cases op with
  | openVolume _ => cases ht
  | closeVolume _ => cases ht
  | openRoot _ => cases ht
  | closeDir _ => cases ht
  | hasOpen => cases ht
  | openFile d name mode => cases hop
  | delete d name => cases hop
  | mkdir d name => cases hop
  | write f b => cases hop
  | flush f => cases hop
  | closeFile f => cases hop
  | label v => cases hop
  | openDir d name => exact (openDir_exact hvol ht name).map _
  | find d name =>
    obtain ⟨k, hk, hown⟩ := Lemmas.VolN.dirTarget_spec hvol ht
    exact (Exact.of_simAt (Lemmas.VolN.find_simAt hs hk hown name)).map _
  | list d =>
    obtain ⟨k, hk, hown⟩ := Lemmas.VolN.dirTarget_spec hvol ht
    exact (Exact.of_simAt (Lemmas.VolN.list_simAt hs hk hown)).map _
  | listLfn d n =>
    obtain ⟨k, hk, hown⟩ := Lemmas.VolN.dirTarget_spec hvol ht
    exact (Exact.of_simAt (Lemmas.VolN.listLfn_simAt hs hk hown n)).map _
  | read f n =>
    obtain ⟨k, hk, hown⟩ := Lemmas.VolN.fileTarget_spec hvol ht
    exact (Exact.of_simAt (Lemmas.VolN.read_simAt n hs hk hown)).map _
  | seekStart f n =>
    obtain ⟨k, hk, hown⟩ := Lemmas.VolN.fileTarget_spec hvol ht
    exact (Exact.of_simAt (m := fileSeekFromStart f n)
      (Lemmas.VolN.seek_simAt (fun x => x.seekFromStart n) (fun _ _ h => Lemmas.VolN.seekFromStart_key h) hs hk hown)).map _
  | seekCur f n =>
    obtain ⟨k, hk, hown⟩ := Lemmas.VolN.fileTarget_spec hvol ht
    exact (Exact.of_simAt (m := fileSeekFromCurrent f n)
      (Lemmas.VolN.seek_simAt (fun x => x.seekFromCurrent n) (fun _ _ h => Lemmas.VolN.seekFromCurrent_key h) hs hk hown)).map _
  | seekEnd f n =>
    obtain ⟨k, hk, hown⟩ := Lemmas.VolN.fileTarget_spec hvol ht
    exact (Exact.of_simAt (m := fileSeekFromEnd f n)
      (Lemmas.VolN.seek_simAt (fun x => x.seekFromEnd n) (fun _ _ h => Lemmas.VolN.seekFromEnd_key h) hs hk hown)).map _
  | length f =>
    obtain ⟨k, hk, hown⟩ := Lemmas.VolN.fileTarget_spec hvol ht
    exact (Exact.of_simAt (m := fileLength f) (Lemmas.VolN.observe_simAt (fun x => x.length) hs hk hown)).map _
  | offset f =>
    obtain ⟨k, hk, hown⟩ := Lemmas.VolN.fileTarget_spec hvol ht
    exact (Exact.of_simAt (m := fileOffset f) (Lemmas.VolN.observe_simAt (fun x => x.currentOffset) hs hk hown)).map _
  | eof f =>
    obtain ⟨k, hk, hown⟩ := Lemmas.VolN.fileTarget_spec hvol ht
    exact (Exact.of_simAt (m := fileEof f) (Lemmas.VolN.observe_simAt (fun x => x.eof) hs hk hown)).map _

/-- **`step_exact`.**  A `retryOp` call addressed to volume record `i` that does not answer `Ok`: the state the projection
reaches IS the projection of the state `s` reaches, and the call is addressed to record `i` in that state too. -/
theorem step_exact {s : Mgr} {hv i : Nat} (hl : s.locked = false) (hvol : s.vols.findIdx? (·.rawVolume = hv) = some i)
    (op : Op) (ht : target s op = some i) (hop : C11Inv.retryOp op = true) (hnok : ∀ p, (Model.step s op).2.result ≠ .ok p) :
    (Model.step (projH hv i s) op).1 = projH hv i (Model.step s op).1 ∧
    (Model.step s op).1.dirs.map dkey = s.dirs.map dkey ∧ (Model.step s op).1.files.map fkeyN = s.files.map fkeyN := by
  have h := runOp_exact (s := resetLogs s) (hv := hv) (i := i) hvol op (by exact ht) hop
  have e1 := step_unlocked s op hl
  have e2 := step_unlocked (projH hv i s) op (by exact hl)
  have ep : resetLogs (projH hv i s) = projH hv i (resetLogs s) := rfl
  rw [ep] at e2
  have hnok' : ∀ p, (runOp op (resetLogs s)).1 ≠ .ok p := by
    intro p hp
    apply hnok p
    rw [e1]; exact hp
  rw [e1, e2]
  exact ⟨h.state hnok', h.dirs hnok', h.files hnok'⟩

/-! ### The retry -/

theorem covered_of_target {s t : Mgr} {op : Op} {i : Nat} (ht : target s op = some i) : C11Inv.Covered t op := by
  cases op <;> first | cases ht | exact C03All.name_ok_all _ | exact trivial

/-- **`retry_multi`.**  `VolInvNF s ghs`; the read-only call `op` (`retryOp`) is addressed to volume record `i`; a device
call of it fails under the pending schedule (so it answered an error: `Props.C11.fault_reported`).  Then `op` issued again
from the state the failed call left, with the fault gone, answers exactly what `op` answers from `s` without any fault —
and it is still addressed to volume record `i`. -/
theorem retry_multi {s : Mgr} {ghs : List Ghost} (hI : VolInvNF s ghs) (op : Op) {i : Nat} {vi : VolInfo}
    (ht : target s op = some i) (hvi : s.vols[i]? = some vi) (hop : C11Inv.retryOp op = true)
    (hfail : (Model.step s op).1.dev.failed ≠ s.dev.failed) :
    (Model.step (clearFaults (Model.step s op).1) op).2.result = (Model.step (clearFaults s) op).2.result ∧
    target (Model.step s op).1 op = some i := by
  obtain ⟨gh, hgh⟩ := ghost_of_vol hI hvi
  have hlf : ∀ t : Mgr, LabelFresh t op := fun t => by cases op <;> first | exact trivial | cases hop
  have hvol : s.vols.findIdx? (·.rawVolume = vi.rawVolume) = some i := Lemmas.VolN.findIdx?_of_nodup (s := s) hI.handles hvi
  have hsim := step_sim_F hI op ht hvi (hlf s)
  -- the failed call answered an error
  obtain ⟨e, he⟩ := C11.fault_reported s op hfail
  have hnok : ∀ p, (Model.step s op).2.result ≠ .ok p := fun p hp => by rw [he] at hp; cases hp
  obtain ⟨hst, hdk, hfk⟩ := step_exact (s := s) hI.unlocked hvol op ht hop hnok
  -- the tables afterwards carry the same keys: the call is addressed to record `i` again
  have hvk : (Model.step s op).1.vols.map (·.rawVolume) = s.vols.map (·.rawVolume) := by
    rw [← Lemmas.VolN.map_fst_vkey, ← Lemmas.VolN.map_fst_vkey, hsim.volKeys]
  have ht1 : target (Model.step s op).1 op = some i := by rw [target_congr hvk hdk hfk op]; exact ht
  have hvol1 : (Model.step s op).1.vols.findIdx? (·.rawVolume = vi.rawVolume) = some i := by
    rw [findIdx?_vols_congr hvk]; exact hvol
  have hl1 : (Model.step s op).1.locked = false := by
    have := hsim.rel.locked
    rw [hst] at this
    have h2 : (Model.step (projH vi.rawVolume i s) op).1.locked = false := by
      obtain ⟨gh', _, hF⟩ := Lemmas.MainC11.survives_F (volInvF_projH hI hvi hgh) op (covered_of_target ht)
      exact ((C11Inv.faultInv_def _ _).1 hF).1
    rw [hst] at h2
    exact h2
  -- the one-volume retry theorem on the projection
  have hP := volInvF_projH hI hvi hgh
  have hpv : (projH vi.rawVolume i s).vols ≠ [] := by
    show (s.vols[i]?).toList ≠ []
    rw [hvi]; exact List.cons_ne_nil _ _
  have hfailP : (Model.step (projH vi.rawVolume i s) op).1.dev.failed ≠ (projH vi.rawVolume i s).dev.failed := by
    rw [hsim.rel.dev]; exact hfail
  have hretry := Lemmas.MainC11.retry_F hP hpv op hop hfailP
  -- the simulation lemma for the retry and for the fault-free call
  have hsim1 := Lemmas.VolN.step_sim (s := clearFaults (Model.step s op).1) (hv := vi.rawVolume) (i := i) hl1 hvol1 op ht1
    (hlf _)
  have hsim0 := Lemmas.VolN.step_sim (s := clearFaults s) (hv := vi.rawVolume) (i := i) hI.unlocked hvol op ht (hlf _)
  refine ⟨?_, ht1⟩
  rw [← hsim1.out, ← hsim0.out, projH_clearFaults, projH_clearFaults, ← hst]
  exact hretry

end Sdmmc.Lemmas.VolNFault
