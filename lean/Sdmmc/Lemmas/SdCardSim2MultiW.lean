/-
Lemmas for C12, part 24 (end-to-end, continued): the multiple-block write — ACMD23, CMD25, the
blocks each behind a 0xFC token, the stop token — and what a sequence of block writes does to
the card's memory.
-/
import Sdmmc.Lemmas.SdCardSim2Multi
import Sdmmc.Lemmas.SdFraming

namespace Sdmmc.Lemmas.SdCardSim2
open Sdmmc.Model Sdmmc.Spec.Card Sdmmc.Model.Sd Sdmmc.Lemmas.Sd Sdmmc.Gen Sdmmc.Lemmas.SdCardSim

/-- The card's memory after storing `blocks` at consecutive block numbers from `m` on. -/
def writeMem (mem : Mem) : Nat → List Bytes → Mem
  | _, [] => mem
  | m, b :: rest => writeMem (mem.insert m b) (m + 1) rest

theorem getD_insert (mem : Mem) (k j : Nat) (v d : List UInt8) :
    (mem.insert k v).getD j d = if k = j then v else mem.getD j d := by
  rw [Std.TreeMap.getD_insert]; simp

/-- Reading back: inside the written range the written block, outside it the old contents. -/
theorem getD_writeMem : ∀ (blocks : List Bytes) (mem : Mem) (m j : Nat) (d : List UInt8),
    (writeMem mem m blocks).getD j d =
      if m ≤ j ∧ j < m + blocks.length then blocks.getD (j - m) d else mem.getD j d := by
  intro blocks
  induction blocks with
  | nil => intro mem m j d; simp only [writeMem, List.length_nil, Nat.add_zero]; rw [if_neg (by omega)]
  | cons b rest ih =>
    intro mem m j d
    rw [writeMem, ih, getD_insert]
    by_cases h1 : m = j
    · subst h1
      rw [if_neg (by omega), if_pos rfl, if_pos ⟨Nat.le_refl _, by simp⟩, Nat.sub_self, List.getD_cons_zero]
    · by_cases h2 : m + 1 ≤ j ∧ j < m + 1 + rest.length
      · have : m ≤ j ∧ j < m + (b :: rest).length := by simp only [List.length_cons]; omega
        rw [if_pos h2, if_pos this]
        have : j - m = (j - (m + 1)) + 1 := by omega
        rw [this, List.getD_cons_succ]
      · have : ¬ (m ≤ j ∧ j < m + (b :: rest).length) := by simp only [List.length_cons]; omega
        rw [if_neg h2, if_neg this, if_neg h1]

/-! ### The blocks of a multiple-block write -/

theorem writeBlocks_card : ∀ (blocks : List Bytes) (m : Nat) (s : St Card),
    s.bus.cmdBuf = [] → s.bus.phase = .recvToken true m → s.bus.out = [] →
    s.bus.busyLeft ≤ DEFAULT_WRITE_RETRIES → s.bus.streaming = none → s.bus.busy ≤ DEFAULT_WRITE_RETRIES →
    (∀ b ∈ blocks, b.length = 512) → m + blocks.length ≤ s.bus.capacity →
    (s.bus.crcOn = true → s.useCrc = true) →
    ∃ s' bl, writeBlocks cardBus blocks s = (.ok (), s') ∧ bl ≤ DEFAULT_WRITE_RETRIES ∧
      StAt s { s.bus with mem := writeMem s.bus.mem m blocks, phase := .recvToken true (m + blocks.length),
                          out := [], busyLeft := bl } s' := by
  intro blocks
  induction blocks with
  | nil =>
    intro m s hcb hp ho hbl _ _ _ _ _
    refine ⟨s, s.bus.busyLeft, rfl, hbl, ?_, rfl, rfl, rfl⟩
    rcases s with ⟨c, ct, uc, ar, ev, dl⟩
    rcases c with ⟨kind, mem, csd, cap, ncr, nac, busy, initPolls, idle, spiMode, crcOn, appCmd, cmd8Seen,
      initLeft, initialised, out, busyLeft, cmdBuf, phase, streaming, preErase, violations, commands⟩
    simp only at hp ho
    subst hp ho
    rfl
  | cons b rest ih =>
    intro m s hcb hp ho hbl hst hbusy hlen hcap hcrc
    simp only [List.length_cons] at hcap
    obtain ⟨s1, h1, a1⟩ := waitNotBusy_card2 DEFAULT_WRITE_RETRIES s ⟨hcb, by rw [hp]; rfl⟩ ho hbl
    obtain ⟨s2, h2, a2⟩ := writeData_card s1 true m WRITE_MULTIPLE_TOKEN b rfl (by rw [a1.1]; exact hcb)
      (by rw [a1.1]; exact hp) (by rw [a1.1]; exact ho) (by rw [a1.1]; rfl) (by rw [a1.1]; exact hst)
      (hlen b (List.mem_cons_self ..)) (by rw [a1.1]; show m < s.bus.capacity; omega)
      (by rw [a1.1, a1.2.2.1]; exact hcrc)
    have hb2 : s2.bus = { s.bus with phase := .recvToken true (m + 1), mem := s.bus.mem.insert m b, out := [],
                                     busyLeft := s.bus.busy } := by
      rw [a2.1, a1.1]; rfl
    obtain ⟨s3, bl, h3, hbl3, a3⟩ := ih (m + 1) s2 (by rw [hb2]; exact hcb) (by rw [hb2]) (by rw [hb2])
      (by rw [hb2]; exact hbusy) (by rw [hb2]; exact hst) (by rw [hb2]; exact hbusy)
      (fun b' hb' => hlen b' (List.mem_cons_of_mem _ hb')) (by rw [hb2]; show m + 1 + rest.length ≤ s.bus.capacity; omega)
      (by rw [hb2, (a1.trans a2).2.2.1]; exact hcrc)
    refine ⟨s3, bl, ?_, hbl3, ?_⟩
    · rw [writeBlocks, bind_ok h1, bind_ok h2]; exact h3
    · have h := (a1.trans a2).trans a3
      refine ⟨?_, h.2.1, h.2.2.1, h.2.2.2⟩
      rw [a3.1, hb2, show m + (b :: rest).length = m + 1 + rest.length by simp only [List.length_cons]; omega]
      rfl

/-! ### The multiple-block write -/

theorem step_stop (c : Card) (hb : c.cmdBuf = []) (n : Nat) (hp : c.phase = .recvToken true n)
    (ho : c.out = []) (hz : c.busyLeft = 0) :
    step c 0xFD = ({ c with phase := .ready, busyLeft := c.busy, out := List.replicate c.stopGap 0xFF }, 0xFF) := by
  rcases c with ⟨kind, mem, csd, cap, ncr, nac, busy, initPolls, idle, spiMode, crcOn, appCmd, cmd8Seen,
    initLeft, initialised, out, busyLeft, cmdBuf, phase, streaming, preErase, violations, commands⟩
  simp only at hb hp ho hz
  subst hb hp ho hz
  simp [step]

/-- `write` with any number of blocks other than one takes the multiple-block path: ACMD23, a busy
wait, CMD25, then the block loop and — whatever the loop did — the stop sequence (`writeRest`). -/
theorem write_eq_multi {σ : Type} (B : BusOps σ) (blocks : List Bytes) (idx : Nat) (h : blocks.length ≠ 1) :
    Sd.write B blocks idx = (do
      let s ← S.get
      let start ← S.lift (startIdx s.cardType idx)
      let _ ← cardAcmd B ACMD23 (blocks.length % 4294967296)
      waitNotBusy B DEFAULT_WRITE_RETRIES
      let _ ← cardCommand B CMD25 start
      writeRest B blocks) := by
  match blocks, h with
  | [], _ => rfl
  | [_], h => exact absurd rfl h
  | _ :: _ :: _, _ => rfl

/-- The stop sequence against a card inside a multiple-block write that is busy within the write
budget, for a card that takes no or one byte (`stopGap ≤ 1`) to signal busy after the stop token:
the busy wait, the stop token, the byte that is clocked and discarded (it swallows the gap byte,
or the first busy byte), the wait for the end of programming.  The card leaves the write and is
not busy any more. -/
theorem stopWrite_card (s : St Card) (n : Nat) (hcb : s.bus.cmdBuf = []) (hp : s.bus.phase = .recvToken true n)
    (ho : s.bus.out = []) (hst : s.bus.streaming = none) (hbl : s.bus.busyLeft ≤ DEFAULT_WRITE_RETRIES)
    (hbusy : s.bus.busy ≤ DEFAULT_WRITE_RETRIES) (hgap : s.bus.stopGap ≤ 1) :
    ∃ s', stopWrite cardBus s = (.ok (), s') ∧
      StAt s { s.bus with phase := .ready, busyLeft := 0, out := [] } s' := by
  obtain ⟨s6, h6, a6⟩ := waitNotBusy_card2 DEFAULT_WRITE_RETRIES s ⟨hcb, by rw [hp]; rfl⟩ ho hbl
  have hs7 := step_stop s6.bus (by rw [a6.1]; exact hcb) n (by rw [a6.1]; exact hp) (by rw [a6.1]; exact ho)
    (by rw [a6.1]; rfl)
  obtain ⟨s7, h7, a7⟩ := writeByte_card (UInt8.ofNat STOP_TRAN_TOKEN) s6 _ _ hs7
  have hb7 : s7.bus = { s.bus with phase := .ready, busyLeft := s.bus.busy,
                                   out := List.replicate s.bus.stopGap 0xFF } := by
    rw [a7.1, a6.1]; rfl
  have hL7 : Listening s7.bus := by rw [hb7]; exact ⟨hcb, rfl⟩
  -- the discarded byte
  have hrb : ∃ s7' g bl, readByte cardBus s7 = (.ok g, s7') ∧ bl ≤ DEFAULT_WRITE_RETRIES ∧
      StAt s7 { s.bus with phase := .ready, busyLeft := bl, out := [] } s7' := by
    have hg : s.bus.stopGap = 0 ∨ s.bus.stopGap = 1 := by omega
    rcases hg with hg | hg
    · have ho7 : s7.bus.out = [] := by rw [hb7, hg]; rfl
      cases hk : s.bus.busy with
      | zero =>
        refine ⟨_, _, 0, readByte_idle s7 hL7 ho7 (by rw [hb7]; exact hk), Nat.zero_le _, ?_, rfl, rfl, rfl⟩
        show s7.bus = _
        rw [hb7, hg, hk]; rfl
      | succ k =>
        refine ⟨_, _, k, readByte_busy s7 hL7 ho7 k (by rw [hb7]; exact hk), by omega, ?_, rfl, rfl, rfl⟩
        show setBusy s7.bus k = _
        rw [hb7, hg]; rfl
    · refine ⟨_, _, s.bus.busy, readByte_pop s7 hL7 0xFF [] (by rw [hb7, hg]; rfl), hbusy, ?_, rfl, rfl, rfl⟩
      show popTo s7.bus [] = _
      rw [hb7]
      show drain _ = _
      refine (drain_none _ ?_).trans ?_
      · exact hst
      · rfl
  obtain ⟨s7', g, bl, hr7, hbl7, a7'⟩ := hrb
  obtain ⟨s8, h8, a8⟩ := waitNotBusy_card2 DEFAULT_WRITE_RETRIES s7' (by rw [a7'.1]; exact ⟨hcb, rfl⟩) (by rw [a7'.1])
    (by rw [a7'.1]; exact hbl7)
  refine ⟨s8, ?_, ?_⟩
  · unfold stopWrite
    rw [bind_ok h6, bind_ok h7, bind_ok hr7]; exact h8
  · have h := ((a6.trans a7).trans a7').trans a8
    refine ⟨?_, h.2.1, h.2.2.1, h.2.2.2⟩
    rw [a8.1, a7'.1]; rfl

/-- The two outcomes of `writeRest` that matter here. -/
theorem writeRest_ok {σ : Type} (B : BusOps σ) (blocks : List Bytes) (s s1 s2 : St σ)
    (h1 : writeBlocks B blocks s = (.ok (), s1)) (h2 : stopWrite B s1 = (.ok (), s2)) :
    writeRest B blocks s = (.ok (), s2) := by
  have hat1 : S.attempt (writeBlocks B blocks) s = (.ok (.ok ()), s1) := by rw [attempt_apply, h1]
  have hat2 : S.attempt (stopWrite B) s1 = (.ok (.ok ()), s2) := by rw [attempt_apply, h2]
  unfold writeRest
  rw [bind_ok hat1]
  simp only
  rw [bind_ok hat2]
  rfl

theorem writeRest_err {σ : Type} (B : BusOps σ) (blocks : List Bytes) (s s1 s2 : St σ) (e : SdErr)
    (h1 : writeBlocks B blocks s = (.err e, s1)) (h2 : stopWrite B s1 = (.ok (), s2)) :
    writeRest B blocks s = (.err e, s2) := by
  have hat1 : S.attempt (writeBlocks B blocks) s = (.ok (.err e), s1) := by rw [attempt_apply, h1]
  have hat2 : S.attempt (stopWrite B) s1 = (.ok (.ok ()), s2) := by rw [attempt_apply, h2]
  unfold writeRest
  rw [bind_ok hat1]
  simp only
  rw [bind_ok hat2]
  rfl

/-- Everything of a multiple-block write up to and including CMD25. -/
theorem write_multi_start_card (s : St Card) (hS : Settled s.bus)
    (hbl : s.bus.busyLeft ≤ DEFAULT_COMMAND_RETRIES) (hncr : s.bus.ncr ≤ DEFAULT_COMMAND_RETRIES)
    (len idx start : Nat) (h32 : start < 4294967296)
    (hblk : blockOfArg s.bus start = some idx) (hidx : idx < s.bus.capacity) :
    ∃ s2 s3 s4, cardAcmd cardBus ACMD23 (len % 4294967296) s = (.ok (0x00 : UInt8).toNat, s2) ∧
      waitNotBusy cardBus DEFAULT_WRITE_RETRIES s2 = (.ok (), s3) ∧
      cardCommand cardBus CMD25 start s3 = (.ok (0x00 : UInt8).toNat, s4) ∧
      StAt s { s.bus with busyLeft := 0, commands := s.bus.commands + 3, appCmd := false, out := [],
                          preErase := len % 4294967296, phase := .recvToken true idx } s4 := by
  obtain ⟨hi, hid, hcb, hp, hst, ho⟩ := hS
  have hL0 : Listening s.bus := ⟨hcb, by rw [hp]; rfl⟩
  -- CMD55
  obtain ⟨s1, h1, a1⟩ := cardCommand_card2 CMD55 0 (by decide) (by decide) (by decide) (by decide) s hcb hp hst ho hbl
    _ (exec55 (setBusy s.bus 0) hst hid 0) hL0 s.bus.ncr 0x00 [] rfl hncr (by decide)
  have hb1 : s1.bus = { s.bus with busyLeft := 0, commands := s.bus.commands + 1, appCmd := true, out := [] } := by
    rw [a1.1]; show drain _ = _; refine (drain_none _ ?_).trans ?_
    · exact hst
    · rfl
  -- ACMD23
  obtain ⟨s2, h2, a2⟩ := cardCommand_card2 ACMD23 (len % 4294967296) (by decide) (by decide) (by decide)
    (Nat.mod_lt _ (by decide)) s1 (by rw [hb1]; exact hcb) (by rw [hb1]; exact hp) (by rw [hb1]; exact hst)
    (by rw [hb1]) (by rw [hb1]; exact Nat.zero_le _)
    _ (exec23 (setBusy s1.bus 0) (by rw [hb1]; exact hi) (by rw [hb1]; exact hst) (by rw [hb1]; exact hid)
      (by rw [hb1]; rfl) _)
    (by rw [hb1]; exact hL0) s.bus.ncr 0x00 [] (by rw [hb1]; rfl) hncr (by decide)
  have hb2 : s2.bus = { s.bus with busyLeft := 0, commands := s.bus.commands + 2, appCmd := false, out := [],
                                   preErase := len % 4294967296 } := by
    rw [a2.1, hb1]; show drain _ = _; refine (drain_none _ ?_).trans ?_
    · exact hst
    · rfl
  have hacmd : cardAcmd cardBus ACMD23 (len % 4294967296) s = (.ok (0x00 : UInt8).toNat, s2) := by
    unfold cardAcmd; rw [bind_ok h1]; exact h2
  -- wait_not_busy
  obtain ⟨s3, h3, a3⟩ := waitNotBusy_card2 DEFAULT_WRITE_RETRIES s2 (by rw [hb2]; exact hL0) (by rw [hb2])
    (by rw [hb2]; exact Nat.zero_le _)
  have hb3 : s3.bus = s2.bus := by rw [a3.1, hb2]; rfl
  -- CMD25
  obtain ⟨s4, h4, a4⟩ := cardCommand_card2 CMD25 start (by decide) (by decide) (by decide) h32 s3
    (by rw [hb3, hb2]; exact hcb) (by rw [hb3, hb2]; exact hp) (by rw [hb3, hb2]; exact hst)
    (by rw [hb3, hb2]) (by rw [hb3, hb2]; exact Nat.zero_le _)
    _ (exec25 (setBusy s3.bus 0) (by rw [hb3, hb2]; exact hi) (by rw [hb3, hb2]; exact hst) start idx
      (by rw [hb3, hb2]; exact hblk) (by rw [hb3, hb2]; exact hidx))
    (by rw [hb3, hb2]; exact ⟨hcb, rfl⟩) s.bus.ncr 0x00 [] (by rw [hb3, hb2]; rfl) hncr (by decide)
  have hb4 : s4.bus = { s.bus with busyLeft := 0, commands := s.bus.commands + 3, appCmd := false, out := [],
                                   preErase := len % 4294967296, phase := .recvToken true idx } := by
    rw [a4.1, hb3, hb2]; show drain _ = _; refine (drain_none _ ?_).trans ?_
    · exact hst
    · rfl
  have h := ((a1.trans a2).trans a3).trans a4
  exact ⟨s2, s3, s4, hacmd, h3, h4, hb4, h.2.1, h.2.2.1, h.2.2.2⟩

/-- `write(blocks, idx)` for any number of blocks other than one, any card kind: ACMD23, CMD25,
the blocks, the stop token, and the final busy wait (budget `DEFAULT_WRITE_RETRIES`) for the card
to finish programming: the card is left not busy — for a card that takes no or one byte to signal
busy after the stop token (`stopGap ≤ 1`). -/
theorem write_multi_card (s : St Card) (hS : Settled s.bus)
    (hbl : s.bus.busyLeft ≤ DEFAULT_COMMAND_RETRIES) (hncr : s.bus.ncr ≤ DEFAULT_COMMAND_RETRIES)
    (hbusy : s.bus.busy ≤ DEFAULT_WRITE_RETRIES) (hgap : s.bus.stopGap ≤ 1)
    (hcrc : s.bus.crcOn = true → s.useCrc = true)
    (blocks : List Bytes) (idx start : Nat) (hn1 : blocks.length ≠ 1)
    (hstart : startIdx s.cardType idx = .ok start) (h32 : start < 4294967296)
    (hblk : blockOfArg s.bus start = some idx) (hidx : idx < s.bus.capacity)
    (hcap : idx + blocks.length ≤ s.bus.capacity) (hlen : ∀ b ∈ blocks, b.length = 512) :
    ∃ s', Sd.write cardBus blocks idx s = (.ok (), s') ∧
      StAt s { s.bus with mem := writeMem s.bus.mem idx blocks, commands := s.bus.commands + 3, appCmd := false,
                          preErase := blocks.length % 4294967296, busyLeft := 0, out := [],
                          phase := .ready } s' := by
  obtain ⟨s2, s3, s4, hacmd, h3, h4, a4⟩ := write_multi_start_card s hS hbl hncr blocks.length idx start h32 hblk hidx
  obtain ⟨hi, hid, hcb, hp, hst, ho⟩ := hS
  have hb4 := a4.1
  -- the blocks
  obtain ⟨s5, bl, h5, hbl5, a5⟩ := writeBlocks_card blocks idx s4 (by rw [hb4]; exact hcb) (by rw [hb4]) (by rw [hb4])
    (by rw [hb4]; exact Nat.zero_le _) (by rw [hb4]; exact hst) (by rw [hb4]; exact hbusy) hlen
    (by rw [hb4]; exact hcap) (by rw [hb4, a4.2.2.1]; exact hcrc)
  have hb5 : s5.bus = { s.bus with busyLeft := bl, commands := s.bus.commands + 3, appCmd := false, out := [],
                                   preErase := blocks.length % 4294967296,
                                   phase := .recvToken true (idx + blocks.length),
                                   mem := writeMem s.bus.mem idx blocks } := by
    rw [a5.1, hb4]
  -- the stop sequence
  obtain ⟨s8, h8, a8⟩ := stopWrite_card s5 (idx + blocks.length) (by rw [hb5]; exact hcb) (by rw [hb5]) (by rw [hb5])
    (by rw [hb5]; exact hst) (by rw [hb5]; exact hbl5) (by rw [hb5]; exact hbusy) (by rw [hb5]; exact hgap)
  refine ⟨s8, ?_, ?_⟩
  · rw [write_eq_multi cardBus blocks idx hn1]
    rw [bind_ok (get_apply s), hstart, bind_ok (show S.lift (SRes.ok start) s = (.ok start, s) from rfl)]
    rw [bind_ok hacmd, bind_ok h3, bind_ok h4]
    exact writeRest_ok cardBus blocks s4 s5 s8 h5 h8
  · have h := (a4.trans a5).trans a8
    refine ⟨?_, h.2.1, h.2.2.1, h.2.2.2⟩
    rw [a8.1, hb5]

end Sdmmc.Lemmas.SdCardSim2
