/-
Lemmas for C12, part 24 (end-to-end, continued): the multiple-block write — ACMD23, CMD25, the
blocks each behind a 0xFC token, the stop token — and what a sequence of block writes does to
the card's memory.
-/
import Sdmmc.Lemmas.SdCardSim2Multi

namespace Sdmmc.Lemmas.SdCardSim2
open Sdmmc.Model Sdmmc.Spec.Card Sdmmc.Model.Sd Sdmmc.Lemmas.Sd Sdmmc.Gen Sdmmc.Lemmas.SdCardSim

/-- The card's memory after storing `blocks` at consecutive block numbers from `m` on. -/
def writeMem (mem : Mem) : Nat → List Bytes → Mem
  | _, [] => mem
  | m, b :: rest => writeMem (mem.insert m b) (m + 1) rest

theorem getD_insert (mem : Mem) (k j : Nat) (v d : List UInt8) :
    (mem.insert k v).getD j d = if k = j then v else mem.getD j d := by
  rw [Std.TreeMap.getD_insert]; simp

/-- Reading back: inside the written range the written block, outside it the old contents. -/
theorem getD_writeMem : ∀ (blocks : List Bytes) (mem : Mem) (m j : Nat) (d : List UInt8),
    (writeMem mem m blocks).getD j d =
      if m ≤ j ∧ j < m + blocks.length then blocks.getD (j - m) d else mem.getD j d := by
  intro blocks
  induction blocks with
  | nil => intro mem m j d; simp only [writeMem, List.length_nil, Nat.add_zero]; rw [if_neg (by omega)]
  | cons b rest ih =>
    intro mem m j d
    rw [writeMem, ih, getD_insert]
    by_cases h1 : m = j
    · subst h1
      rw [if_neg (by omega), if_pos rfl, if_pos ⟨Nat.le_refl _, by simp⟩, Nat.sub_self, List.getD_cons_zero]
    · by_cases h2 : m + 1 ≤ j ∧ j < m + 1 + rest.length
      · have : m ≤ j ∧ j < m + (b :: rest).length := by simp only [List.length_cons]; omega
        rw [if_pos h2, if_pos this]
        have : j - m = (j - (m + 1)) + 1 := by omega
        rw [this, List.getD_cons_succ]
      · have : ¬ (m ≤ j ∧ j < m + (b :: rest).length) := by simp only [List.length_cons]; omega
        rw [if_neg h2, if_neg this, if_neg h1]

/-! ### The blocks of a multiple-block write -/

theorem writeBlocks_card : ∀ (blocks : List Bytes) (m : Nat) (s : St Card),
    s.bus.cmdBuf = [] → s.bus.phase = .recvToken true m → s.bus.out = [] →
    s.bus.busyLeft ≤ DEFAULT_WRITE_RETRIES → s.bus.streaming = none → s.bus.busy ≤ DEFAULT_WRITE_RETRIES →
    (∀ b ∈ blocks, b.length = 512) → m + blocks.length ≤ s.bus.capacity →
    (s.bus.crcOn = true → s.useCrc = true) →
    ∃ s' bl, writeBlocks cardBus blocks s = (.ok (), s') ∧ bl ≤ DEFAULT_WRITE_RETRIES ∧
      StAt s { s.bus with mem := writeMem s.bus.mem m blocks, phase := .recvToken true (m + blocks.length),
                          out := [], busyLeft := bl } s' := by
  intro blocks
  induction blocks with
  | nil =>
    intro m s hcb hp ho hbl _ _ _ _ _
    refine ⟨s, s.bus.busyLeft, rfl, hbl, ?_, rfl, rfl, rfl⟩
    rcases s with ⟨c, ct, uc, ar, ev, dl⟩
    rcases c with ⟨kind, mem, csd, cap, ncr, nac, busy, initPolls, idle, spiMode, crcOn, appCmd, cmd8Seen,
      initLeft, initialised, out, busyLeft, cmdBuf, phase, streaming, preErase, violations, commands⟩
    simp only at hp ho
    subst hp ho
    rfl
  | cons b rest ih =>
    intro m s hcb hp ho hbl hst hbusy hlen hcap hcrc
    simp only [List.length_cons] at hcap
    obtain ⟨s1, h1, a1⟩ := waitNotBusy_card2 DEFAULT_WRITE_RETRIES s ⟨hcb, by rw [hp]; rfl⟩ ho hbl
    obtain ⟨s2, h2, a2⟩ := writeData_card s1 true m WRITE_MULTIPLE_TOKEN b rfl (by rw [a1.1]; exact hcb)
      (by rw [a1.1]; exact hp) (by rw [a1.1]; exact ho) (by rw [a1.1]; rfl) (by rw [a1.1]; exact hst)
      (hlen b (List.mem_cons_self ..)) (by rw [a1.1]; show m < s.bus.capacity; omega)
      (by rw [a1.1, a1.2.2.1]; exact hcrc)
    have hb2 : s2.bus = { s.bus with phase := .recvToken true (m + 1), mem := s.bus.mem.insert m b, out := [],
                                     busyLeft := s.bus.busy } := by
      rw [a2.1, a1.1]; rfl
    obtain ⟨s3, bl, h3, hbl3, a3⟩ := ih (m + 1) s2 (by rw [hb2]; exact hcb) (by rw [hb2]) (by rw [hb2])
      (by rw [hb2]; exact hbusy) (by rw [hb2]; exact hst) (by rw [hb2]; exact hbusy)
      (fun b' hb' => hlen b' (List.mem_cons_of_mem _ hb')) (by rw [hb2]; show m + 1 + rest.length ≤ s.bus.capacity; omega)
      (by rw [hb2, (a1.trans a2).2.2.1]; exact hcrc)
    refine ⟨s3, bl, ?_, hbl3, ?_⟩
    · rw [writeBlocks, bind_ok h1, bind_ok h2]; exact h3
    · have h := (a1.trans a2).trans a3
      refine ⟨?_, h.2.1, h.2.2.1, h.2.2.2⟩
      rw [a3.1, hb2, show m + (b :: rest).length = m + 1 + rest.length by simp only [List.length_cons]; omega]
      rfl

/-! ### The multiple-block write -/

theorem step_stop (c : Card) (hb : c.cmdBuf = []) (n : Nat) (hp : c.phase = .recvToken true n)
    (ho : c.out = []) (hz : c.busyLeft = 0) :
    step c 0xFD = ({ c with phase := .ready, busyLeft := c.busy, out := [] }, 0xFF) := by
  rcases c with ⟨kind, mem, csd, cap, ncr, nac, busy, initPolls, idle, spiMode, crcOn, appCmd, cmd8Seen,
    initLeft, initialised, out, busyLeft, cmdBuf, phase, streaming, preErase, violations, commands⟩
  simp only at hb hp ho hz
  subst hb hp ho hz
  simp [step]

/-- `write` with any number of blocks other than one takes the multiple-block path. -/
theorem write_eq_multi {σ : Type} (B : BusOps σ) (blocks : List Bytes) (idx : Nat) (h : blocks.length ≠ 1) :
    Sd.write B blocks idx = (do
      let s ← S.get
      let start ← S.lift (startIdx s.cardType idx)
      let _ ← cardAcmd B ACMD23 (blocks.length % 4294967296)
      waitNotBusy B DEFAULT_WRITE_RETRIES
      let _ ← cardCommand B CMD25 start
      writeBlocks B blocks
      waitNotBusy B DEFAULT_WRITE_RETRIES
      writeByte B (UInt8.ofNat STOP_TRAN_TOKEN)
      waitNotBusy B DEFAULT_WRITE_RETRIES) := by
  match blocks, h with
  | [], _ => rfl
  | [_], h => exact absurd rfl h
  | _ :: _ :: _, _ => rfl

/-- `write(blocks, idx)` for any number of blocks other than one, any card kind: ACMD23, CMD25,
the blocks, the stop token, and the final busy wait (budget `DEFAULT_WRITE_RETRIES`) for the card
to finish programming: the card is left not busy. -/
theorem write_multi_card (s : St Card) (hS : Settled s.bus)
    (hbl : s.bus.busyLeft ≤ DEFAULT_COMMAND_RETRIES) (hncr : s.bus.ncr ≤ DEFAULT_COMMAND_RETRIES)
    (hbusy : s.bus.busy ≤ DEFAULT_WRITE_RETRIES) (hcrc : s.bus.crcOn = true → s.useCrc = true)
    (blocks : List Bytes) (idx start : Nat) (hn1 : blocks.length ≠ 1)
    (hstart : startIdx s.cardType idx = .ok start) (h32 : start < 4294967296)
    (hblk : blockOfArg s.bus start = some idx) (hidx : idx < s.bus.capacity)
    (hcap : idx + blocks.length ≤ s.bus.capacity) (hlen : ∀ b ∈ blocks, b.length = 512) :
    ∃ s', Sd.write cardBus blocks idx s = (.ok (), s') ∧
      StAt s { s.bus with mem := writeMem s.bus.mem idx blocks, commands := s.bus.commands + 3, appCmd := false,
                          preErase := blocks.length % 4294967296, busyLeft := 0, out := [],
                          phase := .ready } s' := by
  obtain ⟨hi, hid, hcb, hp, hst, ho⟩ := hS
  have hL0 : Listening s.bus := ⟨hcb, by rw [hp]; rfl⟩
  -- CMD55
  obtain ⟨s1, h1, a1⟩ := cardCommand_card2 CMD55 0 (by decide) (by decide) (by decide) (by decide) s hcb hp hst ho hbl
    _ (exec55 (setBusy s.bus 0) hst hid 0) hL0 s.bus.ncr 0x00 [] rfl hncr (by decide)
  have hb1 : s1.bus = { s.bus with busyLeft := 0, commands := s.bus.commands + 1, appCmd := true, out := [] } := by
    rw [a1.1]; show drain _ = _; refine (drain_none _ ?_).trans ?_
    · exact hst
    · rfl
  -- ACMD23
  obtain ⟨s2, h2, a2⟩ := cardCommand_card2 ACMD23 (blocks.length % 4294967296) (by decide) (by decide) (by decide)
    (Nat.mod_lt _ (by decide)) s1 (by rw [hb1]; exact hcb) (by rw [hb1]; exact hp) (by rw [hb1]; exact hst)
    (by rw [hb1]) (by rw [hb1]; exact Nat.zero_le _)
    _ (exec23 (setBusy s1.bus 0) (by rw [hb1]; exact hi) (by rw [hb1]; exact hst) (by rw [hb1]; exact hid)
      (by rw [hb1]; rfl) _)
    (by rw [hb1]; exact hL0) s.bus.ncr 0x00 [] (by rw [hb1]; rfl) hncr (by decide)
  have hb2 : s2.bus = { s.bus with busyLeft := 0, commands := s.bus.commands + 2, appCmd := false, out := [],
                                   preErase := blocks.length % 4294967296 } := by
    rw [a2.1, hb1]; show drain _ = _; refine (drain_none _ ?_).trans ?_
    · exact hst
    · rfl
  have hacmd : cardAcmd cardBus ACMD23 (blocks.length % 4294967296) s = (.ok (0x00 : UInt8).toNat, s2) := by
    unfold cardAcmd; rw [bind_ok h1]; exact h2
  -- wait_not_busy
  obtain ⟨s3, h3, a3⟩ := waitNotBusy_card2 DEFAULT_WRITE_RETRIES s2 (by rw [hb2]; exact hL0) (by rw [hb2])
    (by rw [hb2]; exact Nat.zero_le _)
  have hb3 : s3.bus = s2.bus := by rw [a3.1, hb2]; rfl
  -- CMD25
  obtain ⟨s4, h4, a4⟩ := cardCommand_card2 CMD25 start (by decide) (by decide) (by decide) h32 s3
    (by rw [hb3, hb2]; exact hcb) (by rw [hb3, hb2]; exact hp) (by rw [hb3, hb2]; exact hst)
    (by rw [hb3, hb2]) (by rw [hb3, hb2]; exact Nat.zero_le _)
    _ (exec25 (setBusy s3.bus 0) (by rw [hb3, hb2]; exact hi) (by rw [hb3, hb2]; exact hst) start idx
      (by rw [hb3, hb2]; exact hblk) (by rw [hb3, hb2]; exact hidx))
    (by rw [hb3, hb2]; exact ⟨hcb, rfl⟩) s.bus.ncr 0x00 [] (by rw [hb3, hb2]; rfl) hncr (by decide)
  have hb4 : s4.bus = { s.bus with busyLeft := 0, commands := s.bus.commands + 3, appCmd := false, out := [],
                                   preErase := blocks.length % 4294967296, phase := .recvToken true idx } := by
    rw [a4.1, hb3, hb2]; show drain _ = _; refine (drain_none _ ?_).trans ?_
    · exact hst
    · rfl
  have hu4 : s4.useCrc = s.useCrc := (((a1.trans a2).trans a3).trans a4).2.2.1
  -- the blocks
  obtain ⟨s5, bl, h5, hbl5, a5⟩ := writeBlocks_card blocks idx s4 (by rw [hb4]; exact hcb) (by rw [hb4]) (by rw [hb4])
    (by rw [hb4]; exact Nat.zero_le _) (by rw [hb4]; exact hst) (by rw [hb4]; exact hbusy) hlen
    (by rw [hb4]; exact hcap) (by rw [hb4, hu4]; exact hcrc)
  have hb5 : s5.bus = { s.bus with busyLeft := bl, commands := s.bus.commands + 3, appCmd := false, out := [],
                                   preErase := blocks.length % 4294967296,
                                   phase := .recvToken true (idx + blocks.length),
                                   mem := writeMem s.bus.mem idx blocks } := by
    rw [a5.1, hb4]
  -- wait_not_busy
  obtain ⟨s6, h6, a6⟩ := waitNotBusy_card2 DEFAULT_WRITE_RETRIES s5 (by rw [hb5]; exact ⟨hcb, rfl⟩) (by rw [hb5])
    (by rw [hb5]; exact hbl5)
  have hb6 : s6.bus = { s.bus with busyLeft := 0, commands := s.bus.commands + 3, appCmd := false, out := [],
                                   preErase := blocks.length % 4294967296,
                                   phase := .recvToken true (idx + blocks.length),
                                   mem := writeMem s.bus.mem idx blocks } := by
    rw [a6.1, hb5]; rfl
  -- the stop token
  have hs7 := step_stop s6.bus (by rw [hb6]; exact hcb) (idx + blocks.length) (by rw [hb6]) (by rw [hb6]) (by rw [hb6])
  obtain ⟨s7, h7, a7⟩ := writeByte_card (UInt8.ofNat STOP_TRAN_TOKEN) s6 _ _ hs7
  have hb7 : s7.bus = { s.bus with busyLeft := s.bus.busy, commands := s.bus.commands + 3, appCmd := false, out := [],
                                   preErase := blocks.length % 4294967296, phase := .ready,
                                   mem := writeMem s.bus.mem idx blocks } := by
    rw [a7.1, hb6]
  -- the final busy wait
  obtain ⟨s8, h8, a8⟩ := waitNotBusy_card2 DEFAULT_WRITE_RETRIES s7 (by rw [hb7]; exact ⟨hcb, rfl⟩) (by rw [hb7])
    (by rw [hb7]; exact hbusy)
  refine ⟨s8, ?_, ?_⟩
  · rw [write_eq_multi cardBus blocks idx hn1]
    rw [bind_ok (get_apply s), hstart, bind_ok (show S.lift (SRes.ok start) s = (.ok start, s) from rfl)]
    rw [bind_ok hacmd, bind_ok h3, bind_ok h4, bind_ok h5, bind_ok h6, bind_ok h7]
    exact h8
  · have h := ((((((a1.trans a2).trans a3).trans a4).trans a5).trans a6).trans a7).trans a8
    refine ⟨?_, h.2.1, h.2.2.1, h.2.2.2⟩
    rw [a8.1, hb7]; rfl

end Sdmmc.Lemmas.SdCardSim2
