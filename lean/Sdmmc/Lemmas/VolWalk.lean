/-
Volume invariant (C03), layer 1: what the three directory walks of the FAT engine (create, delete,
lookup) do, stated over the slot lists of `Sdmmc.Spec.Volume`.

* (A) `writeNewBlocks_slots`: over one run of blocks the first free slot of the run is taken;
* (B) `writeNew_fixedRoot`, (C) `writeNew_chain_found` / `writeNew_chain_full`: the same for the FAT16
  fixed root and for a chained directory (the chain is extended by one cluster when it is full);
* (D) `deleteBlocks_slots`, `delete_fixedRoot`, `delete_chain`: delete marks exactly the slot the
  lookup of `Sdmmc.Lemmas.Listing` returns;
* (E) `lookupChain_entries`, `lookupBlocks_entries`: with a clean tail that lookup is the first entry
  with the name.
-/
import Sdmmc.Lemmas.VolBase
import Sdmmc.Lemmas.DirSlots
import Sdmmc.Lemmas.Chain

namespace Sdmmc.Lemmas.VolWalk
open Sdmmc.Model Sdmmc.Model.Fat Sdmmc.Spec.Volume
open Sdmmc.Spec hiding NoFault Coherent
open Sdmmc.Lemmas.FBasic

/-- a slot a new entry may be written to: end marker or deleted -/
def isFreeSlot (s : Slot) : Bool := decide (first s = 0 ∨ first s = 0xE5)
/-- what lookup / delete compare a slot with -/
def nameHit (name : Bytes) (s : Slot) : Bool := !isFrag s && decide (sName s = name)

theorem isFreeSlot_eq : isFreeSlot = Listing.isFree := rfl
theorem nameHit_eq (name : Bytes) : nameHit name = Listing.nameHit name := rfl

/-! ### A `Chain` is a `DirChain` -/

theorem fatNext_eq_nextOf (v : FatVolume) (d : Disk) (hg : WFGeom v) (c : Nat) (hr : InRange v c) :
    Listing.fatNext v d c = nextOf v d c := by
  have hle := ChainL.inRange_le v hg c hr
  unfold Listing.fatNext
  rw [if_neg (Nat.not_lt.mpr hle)]
  rfl

/-- A `Chain` is a `DirChain` (the hypothesis of the C06 walk theorems). -/
theorem dirChain_of_chain {v : FatVolume} {d : Disk} {c : Nat} {cs : List Nat} (hg : WFGeom v)
    (h : Chain v d c cs) : Listing.DirChain v d cs := by
  refine ⟨fun i hi => ?_, ?_⟩
  · have h1 : cs[i]? = some (cs.getD i 0) := by
      rw [List.getD_eq_getElem?_getD, List.getElem?_eq_getElem (by omega)]; rfl
    have h2 : cs[i + 1]? = some (cs.getD (i + 1) 0) := by
      rw [List.getD_eq_getElem?_getD, List.getElem?_eq_getElem hi]; rfl
    rw [fatNext_eq_nextOf v d hg _ (ChainL.chain_inRange_get h i _ h1)]
    exact ChainL.chain_next h i _ _ h1 h2
  · have hpos := ChainL.chain_length_pos h
    have h1 : cs[cs.length - 1]? = some (cs.getLast?.getD 0) := by
      rw [List.getLast?_eq_getElem?, List.getElem?_eq_getElem (by omega)]; rfl
    rw [fatNext_eq_nextOf v d hg _ (ChainL.chain_inRange_get h _ _ h1)]
    exact ChainL.chain_next_last h _ _ h1 (by omega)

/-! ### Slots of a run of blocks -/

theorem runSlots_succ (d : Disk) (b n : Nat) :
    runSlots d b (n + 1) = blockSlots b (d.get b) ++ runSlots d (b + 1) n :=
  Listing.dirSlots_succ d b n

theorem chainSlots_cons (v : FatVolume) (d : Disk) (c : Nat) (cs : List Nat) :
    chainSlots v d (c :: cs) = runSlots d (clusterToBlock v c) v.blocksPerCluster ++ chainSlots v d cs := by
  unfold chainSlots
  rw [List.flatMap_cons]

theorem chainSlots_nil (v : FatVolume) (d : Disk) : chainSlots v d [] = [] := rfl

theorem mem_blockSlots {b : Nat} {blk : Block} {s : Slot} (h : s ∈ blockSlots b blk) :
    s.1 = b ∧ ∃ i, i < 16 ∧ s.2.1 = 32 * i := by
  simp only [blockSlots, List.mem_map, List.mem_range] at h
  obtain ⟨i, hi, rfl⟩ := h
  exact ⟨rfl, i, hi, rfl⟩

theorem mem_runSlots {d : Disk} {b n : Nat} {s : Slot} (h : s ∈ runSlots d b n) : b ≤ s.1 ∧ s.1 < b + n := by
  simp only [runSlots, List.mem_flatMap, List.mem_range] at h
  obtain ⟨j, hj, hs⟩ := h
  have := (mem_blockSlots hs).1
  omega

theorem firstFreeSlot_blockSlots (b : Nat) (blk : Block) :
    firstFreeSlot (slotsOf blk) = ((blockSlots b blk).find? isFreeSlot).map (·.2.1) :=
  Listing.first_free_slot_find b blk

/-- The first free slot of a run, block by block. -/
theorem find?_isFreeSlot_runSlots (d : Disk) (b n : Nat) :
    (runSlots d b (n + 1)).find? isFreeSlot =
      ((blockSlots b (d.get b)).find? isFreeSlot).or ((runSlots d (b + 1) n).find? isFreeSlot) := by
  rw [runSlots_succ, List.find?_append]

/-! ### (A) create, one run of blocks -/

theorem writeNewBlocks_slots_none (name : Bytes) (att fc : Nat) (now : Timestamp) :
    ∀ (n b : Nat) (s : FS), NoFault s → Coherent s →
      (runSlots s.dev.disk b n).find? isFreeSlot = none →
      ∃ s', writeNewBlocks name att fc now n b s = (.ok none, s') ∧ s'.dev.disk = s.dev.disk ∧ s'.vol = s.vol ∧
        NoFault s' ∧ Coherent s' ∧ s'.dev.wlog = s.dev.wlog
  | 0, b, s, hn, hc, _ => ⟨s, rfl, rfl, rfl, hn, hc, rfl⟩
  | n + 1, b, s, hn, hc, hf => by
    rw [find?_isFreeSlot_runSlots] at hf
    rw [Option.or_eq_none_iff] at hf
    obtain ⟨hf1, hf2⟩ := hf
    rw [DirSlots.writeNewBlocks_succ name att fc now n b s hn hc, firstFreeSlot_blockSlots b, hf1]
    exact writeNewBlocks_slots_none name att fc now n (b + 1) (afterRead b s) (afterRead_noFault _ s hn)
      (afterRead_coherent _ s) hf2

theorem writeNewBlocks_slots_some (name : Bytes) (att fc : Nat) (now : Timestamp) :
    ∀ (n b : Nat) (s : FS), NoFault s → Coherent s → ∀ slot : Slot,
      (runSlots s.dev.disk b n).find? isFreeSlot = some slot →
      ∃ s', writeNewBlocks name att fc now n b s =
          (.ok (some (DirEntry.new name att fc now slot.1 slot.2.1)), s') ∧
        s'.dev.disk = s.dev.disk.set slot.1 (splice (s.dev.disk.get slot.1) slot.2.1
          (DirEntry.serialize s.vol.fatType (DirEntry.new name att fc now slot.1 slot.2.1))) ∧
        s'.vol = s.vol ∧ NoFault s' ∧ Coherent s' ∧ (∃ i, i < 16 ∧ slot.2.1 = 32 * i) ∧ b ≤ slot.1 ∧ slot.1 < b + n ∧
        s'.dev.wlog = (slot.1, splice (s.dev.disk.get slot.1) slot.2.1
          (DirEntry.serialize s.vol.fatType (DirEntry.new name att fc now slot.1 slot.2.1))) :: s.dev.wlog
  | 0, b, s, _, _, slot, hf => by cases hf
  | n + 1, b, s, hn, hc, slot, hf => by
    rw [find?_isFreeSlot_runSlots] at hf
    rw [DirSlots.writeNewBlocks_succ name att fc now n b s hn hc, firstFreeSlot_blockSlots b]
    cases hb : (blockSlots b (s.dev.disk.get b)).find? isFreeSlot with
    | none =>
      rw [hb, Option.none_or] at hf
      obtain ⟨s', h, hd, hv, hn', hc', hi, hlo, hhi, hw⟩ :=
        writeNewBlocks_slots_some name att fc now n (b + 1) (afterRead b s) (afterRead_noFault _ s hn)
          (afterRead_coherent _ s) slot hf
      exact ⟨s', h, hd, hv, hn', hc', hi, by omega, by omega, hw⟩
    | some slot0 =>
      rw [hb, Option.some_or] at hf
      have hs : slot0 = slot := Option.some.inj hf
      subst hs
      obtain ⟨hb1, hi⟩ := mem_blockSlots (List.mem_of_find?_eq_some hb)
      simp only [Option.map_some]
      have hn1 : NoFault (DirSlots.afterNew b slot0.2.1 (DirEntry.new name att fc now b slot0.2.1) s) := hn
      rw [bind_apply, writeBack_eq _ b hn1 rfl, hb1]
      refine ⟨_, rfl, rfl, rfl, hn, ?_, hi, Nat.le_refl _, by omega, rfl⟩
      intro i hi'
      have : b = i := Option.some.inj hi'
      subst this
      exact (Disk.get_set_self _ _ _).symm

/-- (A) create, one run of blocks (a cluster / the FAT16 root): the first free slot of the run is taken. -/
theorem writeNewBlocks_slots (name : Bytes) (att fc : Nat) (now : Timestamp) (n b : Nat) (s : FS)
    (hn : NoFault s) (hc : Coherent s) :
    match (runSlots s.dev.disk b n).find? isFreeSlot with
    | some slot => ∃ s', writeNewBlocks name att fc now n b s =
          (.ok (some (DirEntry.new name att fc now slot.1 slot.2.1)), s') ∧
        s'.dev.disk = s.dev.disk.set slot.1 (splice (s.dev.disk.get slot.1) slot.2.1
          (DirEntry.serialize s.vol.fatType (DirEntry.new name att fc now slot.1 slot.2.1))) ∧
        s'.vol = s.vol ∧ NoFault s' ∧ Coherent s' ∧ (∃ i, i < 16 ∧ slot.2.1 = 32 * i) ∧ b ≤ slot.1 ∧ slot.1 < b + n
    | none => ∃ s', writeNewBlocks name att fc now n b s = (.ok none, s') ∧ s'.dev.disk = s.dev.disk ∧
        s'.vol = s.vol ∧ NoFault s' ∧ Coherent s' := by
  split
  · rename_i slot hf
    obtain ⟨s', h, hd, hv, hn', hc', hi, hlo, hhi, _⟩ := writeNewBlocks_slots_some name att fc now n b s hn hc slot hf
    exact ⟨s', h, hd, hv, hn', hc', hi, hlo, hhi⟩
  · rename_i hf
    obtain ⟨s', h, hd, hv, hn', hc', _⟩ := writeNewBlocks_slots_none name att fc now n b s hn hc hf
    exact ⟨s', h, hd, hv, hn', hc'⟩

/-! ### One step of the create walk -/

/-- The entry-written conjuncts shared by the create theorems. -/
def Wrote (name : Bytes) (att fc : Nat) (now : Timestamp) (slot : Slot) (s s' : FS) : Prop :=
  s'.dev.disk = s.dev.disk.set slot.1 (splice (s.dev.disk.get slot.1) slot.2.1
      (DirEntry.serialize s.vol.fatType (DirEntry.new name att fc now slot.1 slot.2.1))) ∧
    s'.vol = s.vol ∧ NoFault s' ∧ Coherent s' ∧ (∃ i, i < 16 ∧ slot.2.1 = 32 * i) ∧
    s'.dev.wlog = (slot.1, splice (s.dev.disk.get slot.1) slot.2.1
      (DirEntry.serialize s.vol.fatType (DirEntry.new name att fc now slot.1 slot.2.1))) :: s.dev.wlog

/-- The run of blocks the walk stands on has a free slot: the entry goes there. -/
theorem writeNewWalk_here (name : Bytes) (att fc : Nat) (now : Timestamp) (fuel : Nat) (w : DirWalk) (s : FS)
    (hn : NoFault s) (hc : Coherent s) (slot : Slot)
    (hf : (runSlots s.dev.disk w.firstBlock w.dirSize).find? isFreeSlot = some slot) :
    ∃ s', writeNewWalk name att fc now (fuel + 1) w s = (.ok (DirEntry.new name att fc now slot.1 slot.2.1), s') ∧
      Wrote name att fc now slot s s' := by
  obtain ⟨s', h, hd, hv, hn', hc', hi, _, _, hw⟩ :=
    writeNewBlocks_slots_some name att fc now w.dirSize w.firstBlock s hn hc slot hf
  refine ⟨s', ?_, hd, hv, hn', hc', hi, hw⟩
  rw [writeNewWalk]
  simp only [bind_apply, h, pure_apply]

/-- The fixed root is full. -/
theorem writeNewWalk_fixed_full (name : Bytes) (att fc : Nat) (now : Timestamp) (fuel : Nat) (w : DirWalk) (s : FS)
    (hn : NoFault s) (hc : Coherent s) (hwf : w.fixedRoot = true)
    (hf : (runSlots s.dev.disk w.firstBlock w.dirSize).find? isFreeSlot = none) :
    ∃ s', writeNewWalk name att fc now (fuel + 1) w s = (.err .NotEnoughSpace, s') ∧
      s'.dev.disk = s.dev.disk ∧ s'.vol = s.vol ∧ NoFault s' ∧ Coherent s' ∧ s'.dev.wlog = s.dev.wlog := by
  obtain ⟨s', h, hd, hv, hn', hc', hw⟩ :=
    writeNewBlocks_slots_none name att fc now w.dirSize w.firstBlock s hn hc hf
  refine ⟨s', ?_, hd, hv, hn', hc', hw⟩
  rw [writeNewWalk]
  simp only [bind_apply, h, hwf, if_true, fail_apply]

/-- The cluster the walk stands on is full: the walk follows the FAT. -/
theorem writeNewWalk_next (name : Bytes) (att fc : Nat) (now : Timestamp) (fuel : Nat) (w : DirWalk) (s : FS)
    (hn : NoFault s) (hc : Coherent s) (hwf : w.fixedRoot = false)
    (hf : (runSlots s.dev.disk w.firstBlock w.dirSize).find? isFreeSlot = none) :
    ∃ s2, s2.dev.disk = s.dev.disk ∧ s2.vol = s.vol ∧ NoFault s2 ∧ Coherent s2 ∧ s2.dev.wlog = s.dev.wlog ∧
      (∀ n, Listing.fatNext s.vol s.dev.disk w.cluster = .ok n →
        writeNewWalk name att fc now (fuel + 1) w s =
          writeNewWalk name att fc now fuel { w with cluster := n, firstBlock := clusterToBlock s.vol n } s2) ∧
      (Listing.fatNext s.vol s.dev.disk w.cluster = .err .EndOfFile →
        writeNewWalk name att fc now (fuel + 1) w s =
          match allocCluster (some w.cluster) true s2 with
          | (.ok c, s3) =>
            writeNewWalk name att fc now fuel { w with cluster := c, firstBlock := clusterToBlock s3.vol c } s3
          | (.err e, s3) => (.err e, s3)
          | (.panic m, s3) => (.panic m, s3)
          | (.diverged, s3) => (.diverged, s3)) := by
  obtain ⟨s1, h1, hd1, hv1, hn1, hc1, hw1⟩ :=
    writeNewBlocks_slots_none name att fc now w.dirSize w.firstBlock s hn hc hf
  obtain ⟨s2, h2, hd2, hw2, hv2, hn2, hc2⟩ := Listing.nextCluster_spec w.cluster s1 hn1 hc1
  rw [hd1, hv1] at h2
  refine ⟨s2, hd2.trans hd1, hv2.trans hv1, hn2, hc2, hw2.trans hw1, fun n hnext => ?_, fun hnext => ?_⟩
  · rw [hnext] at h2
    rw [writeNewWalk]
    simp only [bind_apply, h1, hwf, Bool.false_eq_true, if_false, attempt_apply, h2, getVol_apply,
      hv2, hv1]
  · rw [hnext] at h2
    rw [writeNewWalk]
    simp only [bind_apply, h1, hwf, Bool.false_eq_true, if_false, attempt_apply, h2, getVol_apply]
    rcases allocCluster (some w.cluster) true s2 with ⟨r, s3⟩
    cases r <;> rfl

/-! ### (B) create, FAT16 fixed root -/

theorem dirWalkStart_fixedRoot (v : FatVolume) (h16 : v.fatType = .fat16) :
    dirWalkStart v Gen.CLUSTER_ROOT_DIR =
      { cluster := Gen.CLUSTER_ROOT_DIR, firstBlock := v.lbaStart + v.firstRootDirBlock,
        dirSize := blockCountFromBytes (v.rootEntriesCount * 32), fixedRoot := true } := by
  unfold dirWalkStart
  rw [h16]
  simp only [if_true, Gen.DIRENT_LEN]

/-- (B) create, FAT16 fixed root: the first free slot of the root region is taken; a full root is
`NotEnoughSpace`. -/
theorem writeNew_fixedRoot (s : FS) (name : Bytes) (att fc : Nat) (now : Timestamp) (hn : NoFault s) (hc : Coherent s)
    (h16 : s.vol.fatType = .fat16) :
    match (fixedRootSlots s.vol s.dev.disk).find? isFreeSlot with
    | some slot => ∃ s', writeNewDirectoryEntry Gen.CLUSTER_ROOT_DIR name att fc now s =
          (.ok (DirEntry.new name att fc now slot.1 slot.2.1), s') ∧
        s'.dev.disk = s.dev.disk.set slot.1 (splice (s.dev.disk.get slot.1) slot.2.1
          (DirEntry.serialize s.vol.fatType (DirEntry.new name att fc now slot.1 slot.2.1))) ∧
        s'.vol = s.vol ∧ NoFault s' ∧ Coherent s' ∧ (∃ i, i < 16 ∧ slot.2.1 = 32 * i)
    | none => ∃ s', writeNewDirectoryEntry Gen.CLUSTER_ROOT_DIR name att fc now s = (.err .NotEnoughSpace, s') ∧
        s'.dev.disk = s.dev.disk ∧ s'.vol = s.vol ∧ NoFault s' ∧ Coherent s' := by
  have hw := dirWalkStart_fixedRoot s.vol h16
  unfold fixedRootSlots
  split
  · rename_i slot hf
    obtain ⟨s', h, hd, hv, hn', hc', hi, _⟩ := writeNewWalk_here name att fc now (chainFuel s.vol)
      (dirWalkStart s.vol Gen.CLUSTER_ROOT_DIR) s hn hc slot (by rw [hw]; exact hf)
    refine ⟨s', ?_, hd, hv, hn', hc', hi⟩
    unfold writeNewDirectoryEntry
    simp only [bind_apply, getVol_apply]
    exact h
  · rename_i hf
    obtain ⟨s', h, hd, hv, hn', hc', _⟩ := writeNewWalk_fixed_full name att fc now (chainFuel s.vol)
      (dirWalkStart s.vol Gen.CLUSTER_ROOT_DIR) s hn hc (by rw [hw]) (by rw [hw]; exact hf)
    refine ⟨s', ?_, hd, hv, hn', hc'⟩
    unfold writeNewDirectoryEntry
    simp only [bind_apply, getVol_apply]
    exact h

/-! ### (C) create, chained directory -/

theorem walk_eta (w : DirWalk) (a b : Nat) (n : Nat) (hws : w.dirSize = n) (hwf : w.fixedRoot = false) :
    ({ w with cluster := a, firstBlock := b } : DirWalk) = ⟨a, b, n, false⟩ := by
  cases w
  simp only at hws hwf
  subst hws; subst hwf; rfl

theorem writeNewWalk_chain_found (v : FatVolume) (name : Bytes) (att fc : Nat) (now : Timestamp) :
    ∀ (cs : List Nat) (c fuel : Nat) (w : DirWalk) (s : FS),
    NoFault s → Coherent s → s.vol = v → Listing.DirChain v s.dev.disk (c :: cs) → cs.length < fuel →
    w.cluster = c → w.firstBlock = clusterToBlock v c → w.dirSize = v.blocksPerCluster → w.fixedRoot = false →
    ∀ slot : Slot, (chainSlots v s.dev.disk (c :: cs)).find? isFreeSlot = some slot →
    ∃ s', writeNewWalk name att fc now fuel w s = (.ok (DirEntry.new name att fc now slot.1 slot.2.1), s') ∧
      Wrote name att fc now slot s s' := by
  intro cs
  induction cs with
  | nil =>
    intro c fuel w s hn hc hv hch hfuel hwc hwb hws hwf slot hf
    obtain ⟨fuel, rfl⟩ : ∃ k, fuel = k + 1 := ⟨fuel - 1, by omega⟩
    rw [chainSlots_cons, chainSlots_nil, List.append_nil, ← hwb, ← hws] at hf
    exact writeNewWalk_here name att fc now fuel w s hn hc slot hf
  | cons c' cs ih =>
    intro c fuel w s hn hc hv hch hfuel hwc hwb hws hwf slot hf
    obtain ⟨fuel, rfl⟩ : ∃ k, fuel = k + 1 := ⟨fuel - 1, by omega⟩
    rw [chainSlots_cons, List.find?_append, ← hwb, ← hws] at hf
    cases hrun : (runSlots s.dev.disk w.firstBlock w.dirSize).find? isFreeSlot with
    | some slot0 =>
      rw [hrun, Option.some_or] at hf
      cases hf
      exact writeNewWalk_here name att fc now fuel w s hn hc slot hrun
    | none =>
      rw [hrun, Option.none_or] at hf
      obtain ⟨hnext, hch'⟩ := Listing.dirChain_tail v s.dev.disk c c' cs hch
      obtain ⟨s2, hd2, hv2, hn2, hc2, hw2, hstep, _⟩ := writeNewWalk_next name att fc now fuel w s hn hc hwf hrun
      rw [hstep c' (by rw [hv, hwc]; exact hnext)]
      obtain ⟨s', h, hd, hv', hn', hc', hi, hw'⟩ := ih c' fuel
        { w with cluster := c', firstBlock := clusterToBlock s.vol c' } s2 hn2 hc2 (hv2.trans hv)
        (by rw [hd2]; exact hch') (by simp only [List.length_cons] at hfuel; omega) rfl (by rw [hv]) hws hwf slot
        (by rw [hd2]; exact hf)
      rw [hd2, hv2] at hd
      rw [hd2, hv2, hw2] at hw'
      exact ⟨s', h, hd, hv'.trans hv2, hn', hc', hi, hw'⟩

/-- (C) create, chained directory (every FAT32 directory, every FAT16 sub-directory): the first free slot
of the chain is taken.  `dirCluster` is the handle's cluster, `startCluster s.vol dirCluster :: cs` its chain. -/
theorem writeNew_chain_found (s : FS) (dirCluster : Nat) (cs : List Nat) (name : Bytes) (att fc : Nat)
    (now : Timestamp) (hn : NoFault s) (hc : Coherent s)
    (hkind : ¬ (s.vol.fatType = .fat16 ∧ dirCluster = 0xFFFFFFFC))
    (hch : Listing.DirChain s.vol s.dev.disk (Listing.startCluster s.vol dirCluster :: cs))
    (hlen : cs.length ≤ s.vol.clusterCount + 2) (slot : Slot)
    (hf : (chainSlots s.vol s.dev.disk (Listing.startCluster s.vol dirCluster :: cs)).find? isFreeSlot = some slot) :
    ∃ s', writeNewDirectoryEntry dirCluster name att fc now s =
        (.ok (DirEntry.new name att fc now slot.1 slot.2.1), s') ∧
      s'.dev.disk = s.dev.disk.set slot.1 (splice (s.dev.disk.get slot.1) slot.2.1
        (DirEntry.serialize s.vol.fatType (DirEntry.new name att fc now slot.1 slot.2.1))) ∧
      s'.vol = s.vol ∧ NoFault s' ∧ Coherent s' ∧ (∃ i, i < 16 ∧ slot.2.1 = 32 * i) := by
  obtain ⟨h1, h2, h3, h4⟩ := Listing.dirWalkStart_chain s.vol dirCluster hkind
  obtain ⟨s', h, hd, hv, hn', hc', hi, _⟩ := writeNewWalk_chain_found s.vol name att fc now cs
    (Listing.startCluster s.vol dirCluster) (chainFuel s.vol + 1) (dirWalkStart s.vol dirCluster) s hn hc rfl hch
    (by unfold chainFuel; omega) h1 h2 h3 h4 slot hf
  refine ⟨s', ?_, hd, hv, hn', hc', hi⟩
  unfold writeNewDirectoryEntry
  simp only [bind_apply, getVol_apply]
  exact h

/-! ### (D) delete marks exactly the slot lookup returns -/

/-- The deleted-mark-written conjuncts shared by the delete theorems. -/
def Marked (e : DirEntry) (s s' : FS) : Prop :=
  s'.dev.disk = s.dev.disk.set e.entryBlock ((s.dev.disk.get e.entryBlock).set e.entryOffset (UInt8.ofNat 0xE5)) ∧
    s'.vol = s.vol ∧ NoFault s' ∧ Coherent s' ∧
    s'.dev.wlog = (e.entryBlock, (s.dev.disk.get e.entryBlock).set e.entryOffset (UInt8.ofNat 0xE5)) :: s.dev.wlog

/-- Nothing-happened conjuncts. -/
def Same (s s' : FS) : Prop :=
  s'.dev.disk = s.dev.disk ∧ s'.vol = s.vol ∧ NoFault s' ∧ Coherent s' ∧ s'.dev.wlog = s.dev.wlog

theorem hit_block {b : Nat} {blk : Block} {name : Bytes} {slot : Slot}
    (h : (Listing.beforeEnd (Listing.blockSlots b blk)).find? (Listing.nameHit name) = some slot) : slot.1 = b :=
  (mem_blockSlots (VolBase.mem_beforeEnd (ss := blockSlots b blk) (List.mem_of_find?_eq_some h)).1).1

theorem deleteBlocks_slots_none (name : Bytes) :
    ∀ (n b : Nat) (s : FS), NoFault s → Coherent s →
      Listing.lookupBlocks s.vol.fatType s.dev.disk name b n = none →
      ∃ s', deleteBlocks name n b s = (.ok false, s') ∧ Same s s'
  | 0, b, s, hn, hc, _ => ⟨s, rfl, rfl, rfl, hn, hc, rfl⟩
  | n + 1, b, s, hn, hc, h => by
    rw [Listing.lookupBlocks_succ, Option.or_eq_none_iff, Option.map_eq_none_iff] at h
    obtain ⟨h1, h2⟩ := h
    rw [DirOps.deleteBlocks_succ name n b s hn hc, Listing.delete_slot_spec b, h1]
    exact deleteBlocks_slots_none name n (b + 1) (afterRead b s) (afterRead_noFault _ s hn)
      (afterRead_coherent _ s) h2

theorem deleteBlocks_slots_some (name : Bytes) :
    ∀ (n b : Nat) (s : FS), NoFault s → Coherent s → ∀ e : DirEntry,
      Listing.lookupBlocks s.vol.fatType s.dev.disk name b n = some e →
      ∃ s', deleteBlocks name n b s = (.ok true, s') ∧ Marked e s s'
  | 0, b, s, _, _, e, h => by cases h
  | n + 1, b, s, hn, hc, e, h => by
    rw [Listing.lookupBlocks_succ] at h
    rw [DirOps.deleteBlocks_succ name n b s hn hc, Listing.delete_slot_spec b]
    cases hb : (Listing.beforeEnd (Listing.blockSlots b (s.dev.disk.get b))).find? (Listing.nameHit name) with
    | none =>
      rw [hb, Option.map_none, Option.none_or] at h
      exact deleteBlocks_slots_some name n (b + 1) (afterRead b s) (afterRead_noFault _ s hn)
        (afterRead_coherent _ s) e h
    | some slot =>
      rw [hb, Option.map_some, Option.some_or] at h
      have he : Listing.decode s.vol.fatType slot = e := Option.some.inj h
      have hb1 : slot.1 = b := hit_block hb
      have heb : e.entryBlock = b := by rw [← he]; exact hb1
      have heo : e.entryOffset = slot.2.1 := by rw [← he]; rfl
      simp only [Option.map_some]
      have hn1 : NoFault (DirOps.afterMark b slot.2.1 s) := hn
      rw [bind_apply, writeBack_eq _ b hn1 rfl]
      unfold Marked
      rw [heb, heo]
      refine ⟨_, rfl, rfl, rfl, hn, ?_, rfl⟩
      intro i hi'
      have : b = i := Option.some.inj hi'
      subst this
      exact (Disk.get_set_self _ _ _).symm

/-- (D) delete over one run of blocks marks exactly the slot `lookupBlocks` returns. -/
theorem deleteBlocks_slots (name : Bytes) (n b : Nat) (s : FS) (hn : NoFault s) (hc : Coherent s) :
    match Listing.lookupBlocks s.vol.fatType s.dev.disk name b n with
    | some e => ∃ s', deleteBlocks name n b s = (.ok true, s') ∧
        s'.dev.disk = s.dev.disk.set e.entryBlock ((s.dev.disk.get e.entryBlock).set e.entryOffset (UInt8.ofNat 0xE5)) ∧
        s'.vol = s.vol ∧ NoFault s' ∧ Coherent s'
    | none => ∃ s', deleteBlocks name n b s = (.ok false, s') ∧ s'.dev.disk = s.dev.disk ∧ s'.vol = s.vol ∧
        NoFault s' ∧ Coherent s' := by
  split
  · rename_i e h
    obtain ⟨s', h1, hd, hv, hn', hc', _⟩ := deleteBlocks_slots_some name n b s hn hc e h
    exact ⟨s', h1, hd, hv, hn', hc'⟩
  · rename_i h
    obtain ⟨s', h1, hd, hv, hn', hc', _⟩ := deleteBlocks_slots_none name n b s hn hc h
    exact ⟨s', h1, hd, hv, hn', hc'⟩

/-! #### One step of the delete walk -/

theorem deleteWalk_here (name : Bytes) (fuel : Nat) (w : DirWalk) (s : FS) (hn : NoFault s) (hc : Coherent s)
    (e : DirEntry) (h : Listing.lookupBlocks s.vol.fatType s.dev.disk name w.firstBlock w.dirSize = some e) :
    ∃ s', deleteWalk name (fuel + 1) w s = (.ok (), s') ∧ Marked e s s' := by
  obtain ⟨s', h1, hm⟩ := deleteBlocks_slots_some name w.dirSize w.firstBlock s hn hc e h
  refine ⟨s', ?_, hm⟩
  rw [deleteWalk]
  simp only [bind_apply, getVol_apply, h1, if_true, pure_apply]

theorem deleteWalk_fixed_none (name : Bytes) (fuel : Nat) (w : DirWalk) (s : FS) (hn : NoFault s) (hc : Coherent s)
    (hwf : w.fixedRoot = true)
    (h : Listing.lookupBlocks s.vol.fatType s.dev.disk name w.firstBlock w.dirSize = none) :
    ∃ s', deleteWalk name (fuel + 1) w s = (.err .NotFound, s') ∧ Same s s' := by
  obtain ⟨s', h1, hm⟩ := deleteBlocks_slots_none name w.dirSize w.firstBlock s hn hc h
  refine ⟨s', ?_, hm⟩
  rw [deleteWalk]
  simp only [bind_apply, getVol_apply, h1, Bool.false_eq_true, if_false, hwf, if_true, fail_apply]

theorem deleteWalk_next (name : Bytes) (fuel : Nat) (w : DirWalk) (s : FS) (hn : NoFault s) (hc : Coherent s)
    (hwf : w.fixedRoot = false)
    (h : Listing.lookupBlocks s.vol.fatType s.dev.disk name w.firstBlock w.dirSize = none) :
    ∃ s2, Same s s2 ∧
      (∀ n, Listing.fatNext s.vol s.dev.disk w.cluster = .ok n →
        deleteWalk name (fuel + 1) w s =
          deleteWalk name fuel { w with cluster := n, firstBlock := clusterToBlock s.vol n } s2) ∧
      (Listing.fatNext s.vol s.dev.disk w.cluster = .err .EndOfFile →
        deleteWalk name (fuel + 1) w s = (.err .NotFound, s2)) := by
  obtain ⟨s1, h1, hd1, hv1, hn1, hc1, hw1⟩ := deleteBlocks_slots_none name w.dirSize w.firstBlock s hn hc h
  obtain ⟨s2, h2, hd2, hw2, hv2, hn2, hc2⟩ := Listing.nextCluster_spec w.cluster s1 hn1 hc1
  rw [hd1, hv1] at h2
  refine ⟨s2, ⟨hd2.trans hd1, hv2.trans hv1, hn2, hc2, hw2.trans hw1⟩, fun n hnext => ?_, fun hnext => ?_⟩
  · rw [hnext] at h2
    rw [deleteWalk]
    simp only [bind_apply, getVol_apply, h1, Bool.false_eq_true, if_false, hwf, attempt_apply, h2]
  · rw [hnext] at h2
    rw [deleteWalk]
    simp only [bind_apply, getVol_apply, h1, Bool.false_eq_true, if_false, hwf, attempt_apply, h2, fail_apply]

theorem lookupChain_cons (v : FatVolume) (d : Disk) (name : Bytes) (c : Nat) (cs : List Nat) :
    Listing.lookupChain v d name (c :: cs) =
      (Listing.lookupBlocks v.fatType d name (clusterToBlock v c) v.blocksPerCluster).or
        (Listing.lookupChain v d name cs) := by
  unfold Listing.lookupChain
  rw [List.findSome?_cons]
  cases Listing.lookupBlocks v.fatType d name (clusterToBlock v c) v.blocksPerCluster <;> rfl

theorem deleteWalk_chain_some (v : FatVolume) (name : Bytes) :
    ∀ (cs : List Nat) (c fuel : Nat) (w : DirWalk) (s : FS),
    NoFault s → Coherent s → s.vol = v → Listing.DirChain v s.dev.disk (c :: cs) → cs.length < fuel →
    w.cluster = c → w.firstBlock = clusterToBlock v c → w.dirSize = v.blocksPerCluster → w.fixedRoot = false →
    ∀ e : DirEntry, Listing.lookupChain v s.dev.disk name (c :: cs) = some e →
    ∃ s', deleteWalk name fuel w s = (.ok (), s') ∧ Marked e s s' := by
  intro cs
  induction cs with
  | nil =>
    intro c fuel w s hn hc hv hch hfuel hwc hwb hws hwf e h
    obtain ⟨fuel, rfl⟩ : ∃ k, fuel = k + 1 := ⟨fuel - 1, by omega⟩
    rw [lookupChain_cons, show Listing.lookupChain v s.dev.disk name [] = none from rfl, Option.or_none,
      ← hwb, ← hws, ← hv] at h
    exact deleteWalk_here name fuel w s hn hc e h
  | cons c' cs ih =>
    intro c fuel w s hn hc hv hch hfuel hwc hwb hws hwf e h
    obtain ⟨fuel, rfl⟩ : ∃ k, fuel = k + 1 := ⟨fuel - 1, by omega⟩
    rw [lookupChain_cons, ← hwb, ← hws] at h
    cases hrun : Listing.lookupBlocks s.vol.fatType s.dev.disk name w.firstBlock w.dirSize with
    | some e0 =>
      rw [← hv, hrun, Option.some_or] at h
      cases h
      exact deleteWalk_here name fuel w s hn hc e hrun
    | none =>
      rw [← hv, hrun, Option.none_or, hv] at h
      obtain ⟨hnext, hch'⟩ := Listing.dirChain_tail v s.dev.disk c c' cs hch
      obtain ⟨s2, ⟨hd2, hv2, hn2, hc2, hw2⟩, hstep, _⟩ := deleteWalk_next name fuel w s hn hc hwf hrun
      rw [hstep c' (by rw [hv, hwc]; exact hnext)]
      obtain ⟨s', h', hd, hv', hn', hc', hw'⟩ := ih c' fuel
        { w with cluster := c', firstBlock := clusterToBlock s.vol c' } s2 hn2 hc2 (hv2.trans hv)
        (by rw [hd2]; exact hch') (by simp only [List.length_cons] at hfuel; omega) rfl (by rw [hv]) hws hwf e
        (by rw [hd2]; exact h)
      rw [hd2] at hd
      rw [hd2, hw2] at hw'
      exact ⟨s', h', hd, hv'.trans hv2, hn', hc', hw'⟩

theorem deleteWalk_chain_none (v : FatVolume) (name : Bytes) :
    ∀ (cs : List Nat) (c fuel : Nat) (w : DirWalk) (s : FS),
    NoFault s → Coherent s → s.vol = v → Listing.DirChain v s.dev.disk (c :: cs) → cs.length < fuel →
    w.cluster = c → w.firstBlock = clusterToBlock v c → w.dirSize = v.blocksPerCluster → w.fixedRoot = false →
    Listing.lookupChain v s.dev.disk name (c :: cs) = none →
    ∃ s', deleteWalk name fuel w s = (.err .NotFound, s') ∧ Same s s' := by
  intro cs
  induction cs with
  | nil =>
    intro c fuel w s hn hc hv hch hfuel hwc hwb hws hwf h
    obtain ⟨fuel, rfl⟩ : ∃ k, fuel = k + 1 := ⟨fuel - 1, by omega⟩
    rw [lookupChain_cons, Option.or_eq_none_iff, ← hwb, ← hws, ← hv] at h
    have hlast : Listing.fatNext v s.dev.disk c = .err .EndOfFile := by simpa using hch.2
    obtain ⟨s2, hs2, _, hstep⟩ := deleteWalk_next name fuel w s hn hc hwf h.1
    exact ⟨s2, hstep (by rw [hv, hwc]; exact hlast), hs2⟩
  | cons c' cs ih =>
    intro c fuel w s hn hc hv hch hfuel hwc hwb hws hwf h
    obtain ⟨fuel, rfl⟩ : ∃ k, fuel = k + 1 := ⟨fuel - 1, by omega⟩
    rw [lookupChain_cons, Option.or_eq_none_iff, ← hwb, ← hws] at h
    obtain ⟨hrun, h⟩ := h
    rw [← hv] at hrun
    obtain ⟨hnext, hch'⟩ := Listing.dirChain_tail v s.dev.disk c c' cs hch
    obtain ⟨s2, ⟨hd2, hv2, hn2, hc2, hw2⟩, hstep, _⟩ := deleteWalk_next name fuel w s hn hc hwf hrun
    rw [hstep c' (by rw [hv, hwc]; exact hnext)]
    obtain ⟨s', h', hd, hv', hn', hc', hw'⟩ := ih c' fuel
      { w with cluster := c', firstBlock := clusterToBlock s.vol c' } s2 hn2 hc2 (hv2.trans hv)
      (by rw [hd2]; exact hch') (by simp only [List.length_cons] at hfuel; omega) rfl (by rw [hv]) hws hwf
      (by rw [hd2]; exact h)
    exact ⟨s', h', hd.trans hd2, hv'.trans hv2, hn', hc', hw'.trans hw2⟩

/-- (D) delete in the FAT16 fixed root marks exactly the slot lookup returns. -/
theorem delete_fixedRoot (name : Bytes) (s : FS) (hn : NoFault s) (hc : Coherent s) (h16 : s.vol.fatType = .fat16) :
    match Listing.lookupBlocks .fat16 s.dev.disk name (s.vol.lbaStart + s.vol.firstRootDirBlock)
        (blockCountFromBytes (s.vol.rootEntriesCount * 32)) with
    | some e => ∃ s', deleteDirectoryEntry 0xFFFFFFFC name s = (.ok (), s') ∧
        s'.dev.disk = s.dev.disk.set e.entryBlock ((s.dev.disk.get e.entryBlock).set e.entryOffset (UInt8.ofNat 0xE5)) ∧
        s'.vol = s.vol ∧ NoFault s' ∧ Coherent s'
    | none => ∃ s', deleteDirectoryEntry 0xFFFFFFFC name s = (.err .NotFound, s') ∧ s'.dev.disk = s.dev.disk ∧
        s'.vol = s.vol ∧ NoFault s' ∧ Coherent s' := by
  have hw := dirWalkStart_fixedRoot s.vol h16
  split
  · rename_i e h
    obtain ⟨s', h1, hd, hv, hn', hc', _⟩ := deleteWalk_here name (s.vol.clusterCount + 2)
      (dirWalkStart s.vol Gen.CLUSTER_ROOT_DIR) s hn hc e (by rw [hw, h16]; exact h)
    refine ⟨s', ?_, hd, hv, hn', hc'⟩
    show deleteDirectoryEntry Gen.CLUSTER_ROOT_DIR name s = _
    unfold deleteDirectoryEntry
    simp only [bind_apply, getVol_apply]
    exact h1
  · rename_i h
    obtain ⟨s', h1, hd, hv, hn', hc', _⟩ := deleteWalk_fixed_none name (s.vol.clusterCount + 2)
      (dirWalkStart s.vol Gen.CLUSTER_ROOT_DIR) s hn hc (by rw [hw]) (by rw [hw, h16]; exact h)
    refine ⟨s', ?_, hd, hv, hn', hc'⟩
    show deleteDirectoryEntry Gen.CLUSTER_ROOT_DIR name s = _
    unfold deleteDirectoryEntry
    simp only [bind_apply, getVol_apply]
    exact h1

/-- (D) delete in a chained directory marks exactly the slot lookup returns. -/
theorem delete_chain (s : FS) (dirCluster : Nat) (cs : List Nat) (name : Bytes) (hn : NoFault s) (hc : Coherent s)
    (hkind : ¬ (s.vol.fatType = .fat16 ∧ dirCluster = 0xFFFFFFFC))
    (hch : Listing.DirChain s.vol s.dev.disk (Listing.startCluster s.vol dirCluster :: cs))
    (hlen : cs.length ≤ s.vol.clusterCount + 2) :
    match Listing.lookupChain s.vol s.dev.disk name (Listing.startCluster s.vol dirCluster :: cs) with
    | some e => ∃ s', deleteDirectoryEntry dirCluster name s = (.ok (), s') ∧
        s'.dev.disk = s.dev.disk.set e.entryBlock ((s.dev.disk.get e.entryBlock).set e.entryOffset (UInt8.ofNat 0xE5)) ∧
        s'.vol = s.vol ∧ NoFault s' ∧ Coherent s'
    | none => ∃ s', deleteDirectoryEntry dirCluster name s = (.err .NotFound, s') ∧ s'.dev.disk = s.dev.disk ∧
        s'.vol = s.vol ∧ NoFault s' ∧ Coherent s' := by
  obtain ⟨h1, h2, h3, h4⟩ := Listing.dirWalkStart_chain s.vol dirCluster hkind
  split
  · rename_i e h
    obtain ⟨s', h', hd, hv, hn', hc', _⟩ := deleteWalk_chain_some s.vol name cs (Listing.startCluster s.vol dirCluster)
      (chainFuel s.vol) (dirWalkStart s.vol dirCluster) s hn hc rfl hch (by unfold chainFuel; omega) h1 h2 h3 h4 e h
    refine ⟨s', ?_, hd, hv, hn', hc'⟩
    unfold deleteDirectoryEntry
    simp only [bind_apply, getVol_apply]
    exact h'
  · rename_i h
    obtain ⟨s', h', hd, hv, hn', hc', _⟩ := deleteWalk_chain_none s.vol name cs (Listing.startCluster s.vol dirCluster)
      (chainFuel s.vol) (dirWalkStart s.vol dirCluster) s hn hc rfl hch (by unfold chainFuel; omega) h1 h2 h3 h4 h
    refine ⟨s', ?_, hd, hv, hn', hc'⟩
    unfold deleteDirectoryEntry
    simp only [bind_apply, getVol_apply]
    exact h'

/-! ### (E) lookup in the vocabulary of `Sdmmc.Spec.Volume` -/

/-- (E) lookup in a chained directory with a clean tail, for a name not starting with `0xE5`: the first
entry with that name. -/
theorem lookupChain_entries (v : FatVolume) (d : Disk) (name : Bytes) (cs : List Nat)
    (hname : name.head? ≠ some 0xE5) (hclean : CleanTail (chainSlots v d cs)) :
    Listing.lookupChain v d name cs =
      ((entries (chainSlots v d cs)).find? fun s => decide (sName s = name)).map (Listing.decode v.fatType) := by
  rw [Listing.lookupChain_eq_find v d name cs hclean, Listing.find_beforeEnd_eq_find_listed name hname]
  rfl

theorem lookupBlocks_entries (ft : FatType) (d : Disk) (name : Bytes) (b n : Nat)
    (hname : name.head? ≠ some 0xE5) (hclean : CleanTail (runSlots d b n)) :
    Listing.lookupBlocks ft d name b n =
      ((entries (runSlots d b n)).find? fun s => decide (sName s = name)).map (Listing.decode ft) := by
  rw [Listing.lookupBlocks_eq_find ft d name n b hclean, Listing.find_beforeEnd_eq_find_listed name hname]
  rfl

/-! ### (C) create, chained directory that is full: the chain grows by one cluster -/

theorem same_trans {s s1 s2 : FS} (h1 : Same s s1) (h2 : Same s1 s2) : Same s s2 :=
  ⟨h2.1.trans h1.1, h2.2.1.trans h1.2.1, h2.2.2.1, h2.2.2.2.1, h2.2.2.2.2.trans h1.2.2.2.2⟩

theorem writeNewWalk_chain_full (v : FatVolume) (name : Bytes) (att fc : Nat) (now : Timestamp) :
    ∀ (cs : List Nat) (c fuel : Nat) (w : DirWalk) (s : FS),
    NoFault s → Coherent s → s.vol = v → Listing.DirChain v s.dev.disk (c :: cs) → cs.length < fuel →
    w.cluster = c → w.firstBlock = clusterToBlock v c → w.dirSize = v.blocksPerCluster → w.fixedRoot = false →
    (chainSlots v s.dev.disk (c :: cs)).find? isFreeSlot = none →
    ∃ s1, Same s s1 ∧
      writeNewWalk name att fc now fuel w s =
        match allocCluster (some ((c :: cs).getLast (List.cons_ne_nil _ _))) true s1 with
        | (.ok c', s2) =>
          writeNewWalk name att fc now (fuel - cs.length - 1) ⟨c', clusterToBlock s2.vol c', v.blocksPerCluster, false⟩ s2
        | (.err e, s2) => (.err e, s2)
        | (.panic m, s2) => (.panic m, s2)
        | (.diverged, s2) => (.diverged, s2) := by
  intro cs
  induction cs with
  | nil =>
    intro c fuel w s hn hc hv hch hfuel hwc hwb hws hwf hf
    obtain ⟨fuel, rfl⟩ : ∃ k, fuel = k + 1 := ⟨fuel - 1, by omega⟩
    rw [chainSlots_cons, chainSlots_nil, List.append_nil, ← hwb, ← hws] at hf
    have hlast : Listing.fatNext v s.dev.disk c = .err .EndOfFile := by simpa using hch.2
    obtain ⟨s2, hd2, hv2, hn2, hc2, hw2, _, hstep⟩ := writeNewWalk_next name att fc now fuel w s hn hc hwf hf
    refine ⟨s2, ⟨hd2, hv2, hn2, hc2, hw2⟩, ?_⟩
    rw [hstep (by rw [hv, hwc]; exact hlast), hwc]
    simp only [List.getLast_singleton, List.length_nil, Nat.sub_zero, Nat.add_sub_cancel]
    rcases allocCluster (some c) true s2 with ⟨r, s3⟩
    cases r with
    | ok c' => simp only; rw [walk_eta w _ _ _ hws hwf]
    | err e => rfl
    | panic m => rfl
    | diverged => rfl
  | cons c' cs ih =>
    intro c fuel w s hn hc hv hch hfuel hwc hwb hws hwf hf
    obtain ⟨fuel, rfl⟩ : ∃ k, fuel = k + 1 := ⟨fuel - 1, by omega⟩
    rw [chainSlots_cons, List.find?_append, Option.or_eq_none_iff, ← hwb, ← hws] at hf
    obtain ⟨hrun, hf⟩ := hf
    obtain ⟨hnext, hch'⟩ := Listing.dirChain_tail v s.dev.disk c c' cs hch
    obtain ⟨s2, hd2, hv2, hn2, hc2, hw2, hstep, _⟩ := writeNewWalk_next name att fc now fuel w s hn hc hwf hrun
    rw [hstep c' (by rw [hv, hwc]; exact hnext)]
    obtain ⟨s1, hs1, h⟩ := ih c' fuel
      { w with cluster := c', firstBlock := clusterToBlock s.vol c' } s2 hn2 hc2 (hv2.trans hv)
      (by rw [hd2]; exact hch') (by simp only [List.length_cons] at hfuel; omega) rfl (by rw [hv]) hws hwf
      (by rw [hd2]; exact hf)
    refine ⟨s1, same_trans ⟨hd2, hv2, hn2, hc2, hw2⟩ hs1, ?_⟩
    rw [h, List.getLast_cons_cons, List.length_cons, Nat.add_sub_add_right]

/-- (C), full directory, as an equation: the walk reaches the last cluster of the chain, asks the allocator
for a zeroed cluster linked behind it, and goes on in that cluster (with the fuel that is left, at least 1). -/
theorem writeNew_chain_full_eq (s : FS) (dirCluster : Nat) (cs : List Nat) (name : Bytes) (att fc : Nat)
    (now : Timestamp) (hn : NoFault s) (hc : Coherent s)
    (hkind : ¬ (s.vol.fatType = .fat16 ∧ dirCluster = 0xFFFFFFFC))
    (hch : Listing.DirChain s.vol s.dev.disk (Listing.startCluster s.vol dirCluster :: cs))
    (hlen : cs.length ≤ s.vol.clusterCount + 2)
    (hf : (chainSlots s.vol s.dev.disk (Listing.startCluster s.vol dirCluster :: cs)).find? isFreeSlot = none) :
    ∃ s1, s1.dev.disk = s.dev.disk ∧ s1.vol = s.vol ∧ NoFault s1 ∧ Coherent s1 ∧ s1.dev.wlog = s.dev.wlog ∧
      writeNewDirectoryEntry dirCluster name att fc now s =
        match allocCluster (some ((Listing.startCluster s.vol dirCluster :: cs).getLast (by simp))) true s1 with
        | (.ok c, s2) =>
          writeNewWalk name att fc now (chainFuel s.vol - cs.length)
            ⟨c, clusterToBlock s2.vol c, s.vol.blocksPerCluster, false⟩ s2
        | (.err e, s2) => (.err e, s2)
        | (.panic m, s2) => (.panic m, s2)
        | (.diverged, s2) => (.diverged, s2) := by
  obtain ⟨h1, h2, h3, h4⟩ := Listing.dirWalkStart_chain s.vol dirCluster hkind
  obtain ⟨s1, ⟨hd, hv, hn1, hc1, hw⟩, h⟩ := writeNewWalk_chain_full s.vol name att fc now cs
    (Listing.startCluster s.vol dirCluster) (chainFuel s.vol + 1) (dirWalkStart s.vol dirCluster) s hn hc rfl hch
    (by unfold chainFuel; omega) h1 h2 h3 h4 hf
  refine ⟨s1, hd, hv, hn1, hc1, hw, ?_⟩
  unfold writeNewDirectoryEntry
  simp only [bind_apply, getVol_apply]
  rw [h, show chainFuel s.vol + 1 - cs.length - 1 = chainFuel s.vol - cs.length by omega]

/-- A successful allocation changes the volume record only in its two hints. -/
theorem alloc_vol (s s' : FS) (prev : Option Nat) (zero : Bool) (c : Nat)
    (h : allocCluster prev zero s = (.ok c, s')) : ∃ nf, s'.vol = FatOps.setHint nf s.vol := by
  obtain ⟨s1, sZ, s3, s4, s5, nf, h1, h2, h3, h4, h5, hs'⟩ := FatOps.alloc_inv s s' prev zero c h
  have e1 : s1.vol = s.vol := by have := (FatOps.allocPick_readOnly s.vol s).vol; rw [h1] at this; exact this
  have e2 : sZ.vol = s1.vol := by have := FatOps.zeroStep_vol s.vol zero c s1; rw [h2] at this; exact this
  have e3 : s3.vol = sZ.vol := by have := FatOps.updateFat_vol c Gen.CLUSTER_END_OF_FILE sZ; rw [h3] at this; exact this
  have e4 : s4.vol = s3.vol := by have := FatOps.linkStep_vol prev c s3; rw [h4] at this; exact this
  have e5 : s5.vol = s4.vol := by have := (FatOps.allocHint_readOnly s.vol c s4).vol; rw [h5] at this; exact this
  refine ⟨nf, ?_⟩
  rw [hs']
  show FatOps.setHint nf s5.vol = _
  rw [e5, e4, e3, e2, e1]

/-- (C), full directory: the walk reaches the last cluster, extends the chain by a zeroed cluster and writes
the entry into the first free slot of that cluster; an error (panic, divergence) of the allocator is passed on.
`s1` differs from `s` at most by reads. -/
theorem writeNew_chain_full (s : FS) (dirCluster : Nat) (cs : List Nat) (name : Bytes) (att fc : Nat)
    (now : Timestamp) (hn : NoFault s) (hc : Coherent s)
    (hkind : ¬ (s.vol.fatType = .fat16 ∧ dirCluster = 0xFFFFFFFC))
    (hch : Listing.DirChain s.vol s.dev.disk (Listing.startCluster s.vol dirCluster :: cs))
    (hlen : cs.length ≤ s.vol.clusterCount + 2)
    (hf : (chainSlots s.vol s.dev.disk (Listing.startCluster s.vol dirCluster :: cs)).find? isFreeSlot = none) :
    ∃ s1, s1.dev.disk = s.dev.disk ∧ s1.vol = s.vol ∧ NoFault s1 ∧ Coherent s1 ∧ s1.dev.wlog = s.dev.wlog ∧
      ∀ r s', writeNewDirectoryEntry dirCluster name att fc now s = (r, s') →
        (∃ e s2, allocCluster (some ((Listing.startCluster s.vol dirCluster :: cs).getLast (by simp))) true s1 =
            (.err e, s2) ∧ r = .err e ∧ s' = s2) ∨
        (∃ m s2, allocCluster (some ((Listing.startCluster s.vol dirCluster :: cs).getLast (by simp))) true s1 =
            (.panic m, s2) ∧ r = .panic m ∧ s' = s2) ∨
        (∃ s2, allocCluster (some ((Listing.startCluster s.vol dirCluster :: cs).getLast (by simp))) true s1 =
            (.diverged, s2) ∧ r = .diverged ∧ s' = s2) ∨
        (∃ c s2, allocCluster (some ((Listing.startCluster s.vol dirCluster :: cs).getLast (by simp))) true s1 =
            (.ok c, s2) ∧ s2.vol.blocksPerCluster = s.vol.blocksPerCluster ∧
          ∀ slot : Slot,
            (runSlots s2.dev.disk (clusterToBlock s2.vol c) s2.vol.blocksPerCluster).find? isFreeSlot = some slot →
            NoFault s2 → Coherent s2 →
            r = .ok (DirEntry.new name att fc now slot.1 slot.2.1) ∧
            s'.dev.disk = s2.dev.disk.set slot.1 (splice (s2.dev.disk.get slot.1) slot.2.1
              (DirEntry.serialize s2.vol.fatType (DirEntry.new name att fc now slot.1 slot.2.1))) ∧
            s'.vol = s2.vol ∧ NoFault s' ∧ Coherent s' ∧ (∃ i, i < 16 ∧ slot.2.1 = 32 * i) ∧
            clusterToBlock s2.vol c ≤ slot.1 ∧ slot.1 < clusterToBlock s2.vol c + s2.vol.blocksPerCluster) := by
  obtain ⟨s1, hd, hv, hn1, hc1, hw, heq⟩ :=
    writeNew_chain_full_eq s dirCluster cs name att fc now hn hc hkind hch hlen hf
  refine ⟨s1, hd, hv, hn1, hc1, hw, fun r s' hrun => ?_⟩
  rw [heq] at hrun
  rcases halloc : allocCluster (some ((Listing.startCluster s.vol dirCluster :: cs).getLast (by simp))) true s1
    with ⟨ra, s2⟩
  rw [halloc] at hrun
  cases ra with
  | err e =>
    have h1 := congrArg Prod.fst hrun
    have h2 := congrArg Prod.snd hrun
    exact .inl ⟨e, s2, rfl, h1.symm, h2.symm⟩
  | panic m =>
    have h1 := congrArg Prod.fst hrun
    have h2 := congrArg Prod.snd hrun
    exact .inr (.inl ⟨m, s2, rfl, h1.symm, h2.symm⟩)
  | diverged =>
    have h1 := congrArg Prod.fst hrun
    have h2 := congrArg Prod.snd hrun
    exact .inr (.inr (.inl ⟨s2, rfl, h1.symm, h2.symm⟩))
  | ok c =>
    obtain ⟨nf, hvol⟩ := alloc_vol s1 s2 _ true c halloc
    have hbpc : s2.vol.blocksPerCluster = s.vol.blocksPerCluster := by rw [hvol, hv]; rfl
    refine .inr (.inr (.inr ⟨c, s2, rfl, hbpc, fun slot hslot hn2 hc2 => ?_⟩))
    simp only at hrun
    obtain ⟨k, hk⟩ : ∃ k, chainFuel s.vol - cs.length = k + 1 :=
      ⟨chainFuel s.vol - cs.length - 1, by unfold chainFuel; omega⟩
    rw [hk] at hrun
    obtain ⟨s'', h, hd', hv', hn', hc', hi, _⟩ := writeNewWalk_here name att fc now k
      ⟨c, clusterToBlock s2.vol c, s.vol.blocksPerCluster, false⟩ s2 hn2 hc2 slot (by rw [← hbpc]; exact hslot)
    rw [h] at hrun
    have h1 := congrArg Prod.fst hrun
    have h2 : s'' = s' := congrArg Prod.snd hrun
    subst h2
    have hmem := List.mem_of_find?_eq_some hslot
    exact ⟨h1.symm, hd', hv', hn', hc', hi, mem_runSlots hmem⟩

/-! ### A run of blocks that starts with an end marker (a freshly zeroed cluster) -/

theorem blockSlots_head (b : Nat) (blk : Block) :
    ∃ rest, blockSlots b blk = (b, 0, (blk.drop 0).take 32) :: rest := by
  unfold blockSlots
  rw [List.range_succ_eq_map, List.map_cons]
  exact ⟨_, rfl⟩

/-- If the first byte of the first block of a run is `0x00`, the first free slot of the run is its first slot. -/
theorem find?_isFreeSlot_first (d : Disk) (b n : Nat) (hn : 0 < n) (h0 : byteAt (d.get b) 0 = 0) :
    (runSlots d b n).find? isFreeSlot = some (b, 0, ((d.get b).drop 0).take 32) := by
  obtain ⟨n, rfl⟩ : ∃ k, n = k + 1 := ⟨n - 1, by omega⟩
  obtain ⟨rest, hrest⟩ := blockSlots_head b (d.get b)
  rw [runSlots_succ, hrest, List.cons_append, List.find?_cons_of_pos]
  unfold isFreeSlot first
  have : byteAt (((d.get b).drop 0).take 32) 0 = byteAt (d.get b) 0 := by
    unfold byteAt
    rw [List.drop_zero, List.getD_eq_getElem?_getD, List.getD_eq_getElem?_getD, List.getElem?_take, if_pos (by omega)]
  show decide (byteAt (((d.get b).drop 0).take 32) 0 = 0 ∨ byteAt (((d.get b).drop 0).take 32) 0 = 0xE5) = true
  rw [this, h0]
  rfl

end Sdmmc.Lemmas.VolWalk
