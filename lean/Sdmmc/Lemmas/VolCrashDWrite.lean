/-
Clause 5 of C10 at API level: `VolCrashXWrite.lean` restated for `CIXP P` — `write` allocates clusters for the FILE only: the directories, their chains and their blocks at every crash point are those of the start (`cixp_of_record`).
-/
import Sdmmc.Lemmas.VolCrashDApi
import Sdmmc.Lemmas.VolCrashXWrite

namespace Sdmmc.Lemmas.VolCrashD
open Sdmmc.Lemmas.VolCrash Sdmmc.Lemmas.VolCrashX
open Sdmmc.Model Sdmmc.Model.Fat Sdmmc.Spec.Volume
open Sdmmc.Spec hiding NoFault Coherent run step
open Sdmmc.Lemmas.FBasic
open Sdmmc.Lemmas.VolBase Sdmmc.Lemmas.VolTree Sdmmc.Lemmas.VolMed Sdmmc.Lemmas.VolDisk Sdmmc.Lemmas.VolEng
open Sdmmc.Lemmas.VolApi Sdmmc.Lemmas.CrashBase Sdmmc.Lemmas.CrashMgr Sdmmc.Lemmas.MHoare

/-! ### `write` on a writable file -/

theorem write_core_callCXP {s : Mgr} {gh : Ghost} (hI : VolInv s gh) (hR : RawOKX gh.vol.fatType s.dev.disk s.files) (hU : ∀ c, isUsed gh.vol s.dev.disk c → P c)
    {file i : Nat} {f : FileInfo} (hidx : s.files.findIdx? (·.rawFile = file) = some i) (hf : s.files[i]? = some f)
    (hmode : f.mode ≠ .ReadOnly) (data : Bytes) : CallCXP P gh.vol s (Model.write file data s).2 := by
  have hfm : f ∈ s.files := List.mem_of_getElem? hf
  obtain ⟨vi, hv, hvol, hrv, _⟩ := vol_of_file hI hfm
  have hvfind : s.vols.findIdx? (·.rawVolume = f.rawVolume) = some 0 := by rw [hv]; simp [hrv]
  have hvi : s.vols[0]? = some vi := by rw [hv]; rfl
  have hM := medX_of_med hI.med
  obtain ⟨hok, hcur⟩ := hI.med.fileOK f hfm
  obtain ⟨A, B, hGeq, hhd, hcl0, hdirAB⟩ := write_split hI hfm
  generalize chainOf gh.G f.entry.cluster = cs at hok hcur hGeq hhd hcl0
  have hmok : WriteRefines.MOK s := by
    show _ ∧ _ ∧ _ ∧ _
    exact ⟨hI.noFault, hI.coherent, hI.med.blocksOK, hI.unlocked⟩
  have hg : WFGeom vi.vol := by rw [hvol]; exact hI.med.geom
  have hhint : HintOK vi.vol := by rw [hvol]; exact hI.med.hint
  have hokv : FileOK vi.vol s.dev.disk f cs := by rw [hvol]; exact hok
  have hownv : Owns vi.vol s.dev.disk (withChain A cs B) := by rw [hvol, ← hGeq]; exact hI.med.owns
  -- the end state
  obtain ⟨k, r, s', f', v', cs', hrun, _, _, heq, _, hsg, _, hok', _, hpre, hown', _, _, _, htouch, hwf, _, _⟩ :=
    WriteRefines.write_refines_x s file i 0 data f vi cs A B hmok hidx hf hvfind hvi hmode hg hhint hokv hcur hownv
  -- the crash points
  obtain ⟨k2, r2, s2, v2, cs2, hrun2, _, hpre2, hsg2, hown2, htouch2, hcr⟩ :=
    CrashWriteCall.write_crash s file i 0 data f vi cs A B hmok hidx hf hvfind hvi hmode hg hhint hokv hcur hownv
  have es : s2 = s' := by rw [hrun] at hrun2; exact (congrArg Prod.snd hrun2).symm
  subst es
  -- the exact record at the crash points
  have hfat : MCrash (PW A B cs vi.vol) s (Model.write file data s).2 :=
    write_pw s file i 0 data f vi cs A B hmok hidx hf hvfind hvi hmode hg hhint hokv hcur hownv
  rw [hrun] at hfat
  rw [hvol] at hsg htouch hsg2 htouch2 hcr hfat
  rw [hrun]
  refine ⟨?_, ?_⟩
  · -- every crash point
    obtain ⟨ws, hw, hd, hp⟩ := MCrash.and hcr hfat
    refine ⟨ws, hw, hd, fun j => ?_⟩
    obtain ⟨_, csk, Y, hp1, hO⟩ := hp j
    refine cixp_of_record hM hR (dirInit_of_used hM hU) (R := withChain A csk B ++ Y) hO (fun x hx => ?_) (fun h hh hfx => ?_)
      (dirBlocks_frame hM hsg2 hown2 hdirAB fun b h1 h2 => CrashWriteSpec.untouched_of_touch htouch2 hw j b h1 h2)
    · have := rawRefs_heads hM hR.raw hx
      rw [hGeq] at this
      exact heads_append_left (heads_withChain_prefix hp1 this)
    · exact List.mem_append_left _ (WriteRefines.mem_withChain_of_mem csk (hdirAB h hh hfx))
  · -- the open files afterwards
    show RawOKX gh.vol.fatType s2.dev.disk s2.files
    have hfiles' : s2.files = s.files.set i f' := congrArg Mgr.files heq
    have hRd : RawOKX gh.vol.fatType s2.dev.disk s.files :=
      rawOKX_dirBlocks hM hR (dirBlocks_frame hM hsg hown' hdirAB htouch.disk)
    rw [hfiles']
    unfold WriteRefines.WriteFile at hwf
    have e1 : f'.entry.entryBlock = f.entry.entryBlock := by rw [hwf]
    have e2 : f'.entry.entryOffset = f.entry.entryOffset := by rw [hwf]
    refine ⟨?_, rawE_set hRd.empty hf e1 e2⟩
    intro g hg
    rcases List.mem_or_eq_of_mem_set hg with hg | hg
    · exact hRd.raw g hg
    · have := hRd.raw f hfm
      rw [hg, e1, e2]
      by_cases hne : cs = []
      · rw [hcl0 hne] at this
        exact .inl (this.elim id id)
      · rw [cluster_keep hok' hpre hne (hhd hne)]
        exact this

/-! ### The API function -/

/-- **`write`**: every prefix of the device writes of the call leaves a crash-consistent medium, and the on-disk
slots of the open files afterwards name no cluster or the one their records name — whatever the call answers. -/
theorem write_callCXP {s : Mgr} {gh : Ghost} (hI : VolInv s gh) (hR : RawOKX gh.vol.fatType s.dev.disk s.files) (hU : ∀ c, isUsed gh.vol s.dev.disk c → P c)
    (file : Nat) (data : Bytes) : CallCXP P gh.vol s (Model.write file data s).2 := by
  cases hidx : s.files.findIdx? (·.rawFile = file) with
  | none =>
    have : Model.write file data s = (.err .BadHandle, s) := by
      unfold Model.write
      rw [bind_err (getFileById_bad hidx)]
    rw [this]; exact callCXP_refl (cixp_start hI hR hU) hR
  | some i =>
    obtain ⟨f, hf, _⟩ := findIdx?_some_get hidx
    by_cases hmode : f.mode = .ReadOnly
    · obtain ⟨vi, hv, _, hrv, _⟩ := vol_of_file hI (List.mem_of_getElem? hf)
      have hvfind : s.vols.findIdx? (·.rawVolume = f.rawVolume) = some 0 := by rw [hv]; simp [hrv]
      rw [WriteRefines.write_readOnly s file i 0 data f hidx hf hvfind hmode]
      exact callCXP_refl (cixp_start hI hR hU) hR
    · exact write_core_callCXP hI hR hU hidx hf hmode data

end Sdmmc.Lemmas.VolCrashD
