/-
Volume invariant (C03), layer 1a: the open-file table changes — one record altered (`tree_file_set`),
a file opened on an existing entry (`tree_open`), a file closed (`tree_close`).
-/
import Sdmmc.Lemmas.VolTreeOps

namespace Sdmmc.Lemmas.VolTree
open Sdmmc.Model Sdmmc.Model.Fat Sdmmc.Spec Sdmmc.Spec.Volume Sdmmc.Lemmas.VolBase

/-! ### `pendOf` under table edits -/

theorem pendOf_cons (a : FileInfo) (l : List FileInfo) (s : Slot) :
    pendOf (a :: l) s = if fkey a = spos s then some a else pendOf l s := by
  unfold pendOf
  rw [List.find?_cons]
  by_cases h : fkey a = spos s
  · obtain ⟨h1, h2⟩ := Prod.mk.inj h
    simp only [h1, h2, and_self, decide_true, if_pos h]
  · have : decide (a.entry.entryBlock = s.1 ∧ a.entry.entryOffset = s.2.1) = false := by
      simp only [decide_eq_false_iff_not, not_and]
      intro h1 h2; exact h (Prod.ext h1 h2)
    rw [this, if_neg h]

theorem pendOf_set_other {l : List FileInfo} {i : Nat} {f f' : FileInfo} (hi : l[i]? = some f) (hk : fkey f' = fkey f)
    {s : Slot} (hs : spos s ≠ fkey f) : pendOf (l.set i f') s = pendOf l s := by
  induction l generalizing i with
  | nil => rfl
  | cons a l ih =>
    cases i with
    | zero =>
      simp only [List.getElem?_cons_zero, Option.some.injEq] at hi
      subst hi
      rw [List.set_cons_zero, pendOf_cons, pendOf_cons, if_neg (fun e => hs (by rw [← e, hk])), if_neg (fun e => hs e.symm)]
    | succ i =>
      simp only [List.getElem?_cons_succ] at hi
      rw [List.set_cons_succ, pendOf_cons, pendOf_cons, ih hi]

theorem pendOf_append_other (l : List FileInfo) (f : FileInfo) {s : Slot} (hs : spos s ≠ fkey f) :
    pendOf (l ++ [f]) s = pendOf l s := by
  induction l with
  | nil => rw [List.nil_append, pendOf_cons, if_neg (fun e => hs e.symm)]
  | cons a l ih => rw [List.cons_append, pendOf_cons, pendOf_cons, ih]

theorem pendOf_append_new (l : List FileInfo) (f : FileInfo) {s : Slot} (hn : pendOf l s = none) (hs : fkey f = spos s) :
    pendOf (l ++ [f]) s = some f := by
  induction l with
  | nil => rw [List.nil_append, pendOf_cons, if_pos hs]
  | cons a l ih =>
    rw [pendOf_cons] at hn
    by_cases ha : fkey a = spos s
    · rw [if_pos ha] at hn; cases hn
    · rw [if_neg ha] at hn
      rw [List.cons_append, pendOf_cons, if_neg ha, ih hn]

theorem pendOf_eraseIdx_other {l : List FileInfo} {i : Nat} {f : FileInfo} (hi : l[i]? = some f)
    {s : Slot} (hs : spos s ≠ fkey f) : pendOf (l.eraseIdx i) s = pendOf l s := by
  induction l generalizing i with
  | nil => rfl
  | cons a l ih =>
    cases i with
    | zero =>
      simp only [List.getElem?_cons_zero, Option.some.injEq] at hi
      subst hi
      rw [List.eraseIdx_cons_zero, pendOf_cons, if_neg (fun e => hs e.symm)]
    | succ i =>
      simp only [List.getElem?_cons_succ] at hi
      rw [List.eraseIdx_cons_succ, pendOf_cons, pendOf_cons, ih hi]

theorem map_fkey_set {l : List FileInfo} {i : Nat} {f f' : FileInfo} (hi : l[i]? = some f) (hk : fkey f' = fkey f) :
    (l.set i f').map fkey = l.map fkey := by
  rw [List.map_set, hk]
  apply List.ext_getElem?
  intro j
  rw [List.getElem?_set]
  split
  · next hij =>
    subst hij
    obtain ⟨hlt, he⟩ := List.getElem?_eq_some_iff.1 hi
    simp [hlt, he]
  · rfl

section
variable {ft : FatType} {cb : Nat} {root : List Nat} {G G' : List (List Nat)} {dirs : List (Nat × Nat)}
  {slots : Nat → List Slot} {files : List FileInfo}

/-- The file entry an open file sits at, with the directory split around it. -/
theorem file_object (hT : TreeOK ft cb root G dirs slots files) {f : FileInfo} (hf : f ∈ files) :
    ∃ h, h ∈ dirIds dirs ∧ ∃ A o B, objects h (slots h) = A ++ [o] ++ B ∧ spos o = fkey f ∧ isDirE o = false ∧
      sName o = f.entry.name ∧ (f.dirty = false → sCluster ft o = f.entry.cluster ∧ sSize o = f.entry.size) ∧
      pendOf files o = some f := by
  obtain ⟨h, hh, o, ho, h1, h2, h3, h4, h5⟩ := hT.fileSlots f hf
  obtain ⟨A, B, hAB⟩ := List.append_of_mem ho
  refine ⟨h, hh, A, o, B, by rw [hAB]; simp, Prod.ext h1 h2, h3, h4, h5, ?_⟩
  exact (pendOf_some_iff hT.filesDistinct o f).2 ⟨hf, (Prod.ext h1 h2).symm⟩

theorem fileRefs_single_file {ft : FatType} {files : List FileInfo} {o : Slot} {f : FileInfo} (hod : isDirE o = false)
    (hp : pendOf files o = some f) :
    fileRefs ft files [o] = if f.entry.cluster ≠ 0 then [f.entry.cluster] else [] := by
  rw [fileRefs_single, effCluster_of_pend hp]
  by_cases hc : f.entry.cluster = 0 <;> simp [hod, hc]

/-- **One record changes**: same slot, same name; a record that claims to be unmodified keeps cluster and
size; the chains change along (`hAR`: first clusters; `hlen`: the other chains do not shrink; `hsize`). -/
theorem tree_file_set (hT : TreeOK ft cb root G dirs slots files) (hG : HeadsOK G) (hpos : (objPos dirs slots).Nodup)
    {i : Nat} {f f' : FileInfo} (hi : files[i]? = some f)
    (hkey : fkey f' = fkey f) (hname : f'.entry.name = f.entry.name) (hattr : AttrsOK f')
    (hclean : f'.dirty = false → f.dirty = false ∧ f'.entry.cluster = f.entry.cluster ∧ f'.entry.size = f.entry.size)
    (hlen : ∀ c, c ∈ heads G → c ≠ f.entry.cluster → (chainOf G c).length ≤ (chainOf G' c).length)
    (hAR : ∀ a, (if f'.entry.cluster ≠ 0 then [f'.entry.cluster] else []).count a + (heads G).count a =
      (if f.entry.cluster ≠ 0 then [f.entry.cluster] else []).count a + (heads G').count a)
    (hsize : (f'.entry.cluster = 0 ∧ f'.entry.size = 0) ∨
      (f'.entry.cluster ≠ 0 ∧ f'.entry.size ≤ (chainOf G' f'.entry.cluster).length * cb)) :
    TreeOK ft cb root G' dirs slots (files.set i f') := by
  have hf : f ∈ files := List.mem_of_getElem? hi
  obtain ⟨h, hh, A, o, B, hO, hpo, hod, hnm, hcl, hp⟩ := file_object hT hf
  have hkeys' : ((files.set i f').map fkey).Nodup := by rw [map_fkey_set hi hkey]; exact hT.filesDistinct
  have hf' : f' ∈ files.set i f' := by
    obtain ⟨hlt, _⟩ := List.getElem?_eq_some_iff.1 hi
    exact List.mem_set hlt f'
  have hp' : pendOf (files.set i f') o = some f' :=
    (pendOf_some_iff hkeys' o f').2 ⟨hf', hkey.trans hpo.symm⟩
  apply tree_files_edit hT hG hpos hh hO hod
  · intro s hs
    exact pendOf_set_other hi hkey (by rw [← hpo]; exact hs)
  · exact hkeys'
  · intro g hg
    rcases List.mem_or_eq_of_mem_set hg with hg | rfl
    · exact hT.fileAttrs g hg
    · exact hattr
  · intro g hg
    rcases List.mem_or_eq_of_mem_set hg with hg | rfl
    · exact hT.fileSlots g hg
    · obtain ⟨hk1, hk2⟩ := Prod.mk.inj (hpo.trans hkey.symm)
      refine ⟨h, hh, o, by rw [hO]; simp, hk1, hk2, hod, hnm.trans hname.symm, ?_⟩
      intro hd
      obtain ⟨h1, h2, h3⟩ := hclean hd
      rw [h2, h3]; exact hcl h1
  · intro c hc hne
    rw [effCluster_of_pend hp] at hne
    exact hlen c hc hne
  · rw [fileRefs_single_file hod hp, fileRefs_single_file hod hp']
    exact hAR
  · unfold SizeOK
    rw [effCluster_of_pend hp', effSize_of_pend hp']
    exact hsize

/-- **A file is opened** on an existing file entry that no open file sits at; the new record carries the
entry's cluster and size. -/
theorem tree_open (hT : TreeOK ft cb root G dirs slots files) (hG : HeadsOK G) (hpos : (objPos dirs slots).Nodup)
    {h : Nat} (hh : h ∈ dirIds dirs) {o : Slot} (ho : o ∈ objects h (slots h)) (hod : isDirE o = false)
    (hfree : pendOf files o = none) {f : FileInfo} (hkey : fkey f = spos o) (hname : f.entry.name = sName o)
    (hattr : AttrsOK f) (hcl : f.entry.cluster = sCluster ft o) (hsz : f.entry.size = sSize o) :
    TreeOK ft cb root G dirs slots (files ++ [f]) := by
  obtain ⟨A, B, hAB⟩ := List.append_of_mem ho
  have hO : objects h (slots h) = A ++ [o] ++ B := by rw [hAB]; simp
  have hp' : pendOf (files ++ [f]) o = some f := pendOf_append_new files f hfree hkey
  have hec : effCluster ft (files ++ [f]) o = effCluster ft files o := by
    rw [effCluster_of_pend hp', effCluster_of_none hfree, hcl]
  have hes : effSize (files ++ [f]) o = effSize files o := by
    rw [effSize_of_pend hp', effSize_of_none hfree, hsz]
  apply tree_files_edit hT hG hpos hh hO hod
  · intro s hs
    exact pendOf_append_other files f (by rw [hkey]; exact hs)
  · rw [List.map_append, List.nodup_append]
    refine ⟨hT.filesDistinct, List.nodup_singleton _, ?_⟩
    intro a ha b hb e
    rw [List.map_singleton, List.mem_singleton] at hb
    obtain ⟨g, hg, hge⟩ := List.mem_map.1 ha
    exact (pendOf_none_iff files o).1 hfree g hg (by rw [hge, e, hb, hkey])
  · intro g hg
    rcases List.mem_append.1 hg with hg | hg
    · exact hT.fileAttrs g hg
    · rw [List.mem_singleton.1 hg]; exact hattr
  · intro g hg
    rcases List.mem_append.1 hg with hg | hg
    · exact hT.fileSlots g hg
    · rw [List.mem_singleton.1 hg]
      obtain ⟨hk1, hk2⟩ := Prod.mk.inj hkey
      exact ⟨h, hh, o, ho, hk1.symm, hk2.symm, hod, hname.symm, fun _ => ⟨hcl.symm, hsz.symm⟩⟩
  · intro c _ _; exact Nat.le_refl _
  · intro a
    rw [fileRefs_single, fileRefs_single, hec]
  · have := hT.sizes h hh o ho hod
    unfold SizeOK
    rw [hec, hes]
    exact this

/-- **A file is closed** whose entry on the medium carries the record's cluster and size. -/
theorem tree_close (hT : TreeOK ft cb root G dirs slots files) (hG : HeadsOK G) (hpos : (objPos dirs slots).Nodup)
    {i : Nat} {f : FileInfo} (hi : files[i]? = some f)
    (hsync : ∀ h, h ∈ dirIds dirs → ∀ o, o ∈ objects h (slots h) → spos o = fkey f →
      sCluster ft o = f.entry.cluster ∧ sSize o = f.entry.size) :
    TreeOK ft cb root G dirs slots (files.eraseIdx i) := by
  have hf : f ∈ files := List.mem_of_getElem? hi
  obtain ⟨h, hh, A, o, B, hO, hpo, hod, hnm, hcl, hp⟩ := file_object hT hf
  have ho : o ∈ objects h (slots h) := by rw [hO]; simp
  obtain ⟨hsc, hss⟩ := hsync h hh o ho hpo
  have hkeys' : ((files.eraseIdx i).map fkey).Nodup :=
    List.Nodup.sublist ((List.eraseIdx_sublist files i).map fkey) hT.filesDistinct
  have hnone : pendOf (files.eraseIdx i) o = none := by
    rw [pendOf_none_iff]
    intro g hg hge
    obtain ⟨j, hji, hj⟩ := List.mem_eraseIdx_iff_getElem?.1 hg
    -- two different indices with the same key
    have hkj : (files.map fkey)[j]? = some (fkey g) := by rw [List.getElem?_map, hj]; rfl
    have hki : (files.map fkey)[i]? = some (fkey f) := by rw [List.getElem?_map, hi]; rfl
    have hlj := (List.getElem?_eq_some_iff.1 hkj).1
    have hli := (List.getElem?_eq_some_iff.1 hki).1
    have := (List.Nodup.getElem_inj_iff hT.filesDistinct (hi := hlj) (hj := hli)).1
      (by rw [(List.getElem?_eq_some_iff.1 hkj).2, (List.getElem?_eq_some_iff.1 hki).2, hge, hpo])
    exact hji this
  have hec : effCluster ft (files.eraseIdx i) o = effCluster ft files o := by
    rw [effCluster_of_pend hp, effCluster_of_none hnone, hsc]
  have hes : effSize (files.eraseIdx i) o = effSize files o := by
    rw [effSize_of_pend hp, effSize_of_none hnone, hss]
  apply tree_files_edit hT hG hpos hh hO hod
  · intro s hs
    exact pendOf_eraseIdx_other hi (by rw [← hpo]; exact hs)
  · exact hkeys'
  · intro g hg
    exact hT.fileAttrs g ((List.eraseIdx_sublist files i).subset hg)
  · intro g hg
    exact hT.fileSlots g ((List.eraseIdx_sublist files i).subset hg)
  · intro c _ _; exact Nat.le_refl _
  · intro a
    rw [fileRefs_single, fileRefs_single, hec]
  · have := hT.sizes h hh o ho hod
    unfold SizeOK
    rw [hec, hes]
    exact this

end

end Sdmmc.Lemmas.VolTree
