/-
Bridging lemmas for `Props/C08Main.lean`:

* `step_cfg` / `run_cfg` — the configuration of a manager (the three limits and the borrow flag) is a constant of every
  call and every history: no call changes `maxVols`, `maxDirs`, `maxFiles` or `locked`.  Proved structurally over the
  24 calls, the FAT layer behind `withVol` never unfolded (the relation looks at the tables' frame only).
* `run_take_add` — a history split at a prefix.
* `closed_stays_closed` — a handle that was open at some point of a history and is not open at a later point is not open
  at any point after that (until the 32-bit handle counter wraps).
-/
import Sdmmc.Lemmas.FaultApi
import Sdmmc.Lemmas.Tables

namespace Sdmmc.Lemmas.MainC08
open Sdmmc.Model Sdmmc.Lemmas.Fault
open Sdmmc.Lemmas.MHoare (resetLogs Resp Frame)

/-! ### The configuration is constant -/

/-- `s'` has the configuration of `s`: same limits, same borrow flag. -/
def Cfg (s s' : Mgr) : Prop :=
  s'.locked = s.locked ∧ s'.maxVols = s.maxVols ∧ s'.maxDirs = s.maxDirs ∧ s'.maxFiles = s.maxFiles

instance : RelOK Cfg :=
  ⟨fun _ => ⟨rfl, rfl, rfl, rfl⟩,
   fun h1 h2 => ⟨h2.1.trans h1.1, h2.2.1.trans h1.2.1, h2.2.2.1.trans h1.2.2.1, h2.2.2.2.trans h1.2.2.2⟩⟩

instance : WithVolOK Cfg where
  withVol := fun i f s => by
    rcases withVol_cases i f s with ⟨_, he⟩ | ⟨vi, _, he⟩ <;> rw [he] <;> exact ⟨rfl, rfl, rfl, rfl⟩

theorem cfg_modify {g : Mgr → Mgr} (h : ∀ s, Cfg s (g s)) : M.Inv Cfg (M.modify g) := fun s => h s
theorem cfg_generate : M.Inv Cfg generate := fun _ => ⟨rfl, rfl, rfl, rfl⟩
theorem cfg_rdBlock (idx : Nat) : M.Inv Cfg (rdBlock idx) := fun _ => ⟨rfl, rfl, rfl, rfl⟩
theorem cfg_of_resp {α} {m : M α} (h : Resp m) : M.Inv Cfg m := fun s =>
  ⟨(h s).locked, (h s).maxVols, (h s).maxDirs, (h s).maxFiles⟩

macro "cfg_step" : tactic => `(tactic| first
  | with_reducible first
    | apply_hyp
    | exact M.Inv.pure _
    | exact M.Inv.lift _
    | exact M.Inv.fail _
    | exact M.Inv.panic _
    | exact M.Inv.get
    | exact M.Inv.getVolumeById _
    | exact M.Inv.getDirById _
    | exact M.Inv.getFileById _
    | exact M.Inv.getDir _
    | exact M.Inv.getFile _
    | exact M.Inv.getVolInfo _
    | exact M.Inv.toSfn _
    | exact cfg_generate
    | refine cfg_modify ?_
    | exact cfg_rdBlock _
    | exact M.Inv.withVol_tables _ _
    | apply M.Inv.attempt
    | apply M.Inv.bind
  | exact fun _ => ⟨rfl, rfl, rfl, rfl⟩
  | intro_pi
  | exact rfl
  | dsimp only
  | split
  | exact cfg_rdBlock _
  | apply M.Inv.bind)

macro "cfg_auto" : tactic => `(tactic| repeat cfg_step)

theorem openRawVolume_cfg (i : Nat) : M.Inv Cfg (openRawVolume i) := by unfold openRawVolume; cfg_auto
theorem openRootDir_cfg (v : Nat) : M.Inv Cfg (openRootDir v) := by unfold openRootDir; cfg_auto
theorem openDir_cfg (d : Nat) (name : List Nat) : M.Inv Cfg (openDir d name) := by unfold openDir; cfg_auto
theorem closeDir_cfg (d : Nat) : M.Inv Cfg (closeDir d) := by unfold closeDir; cfg_auto
theorem closeVolume_cfg (v : Nat) : M.Inv Cfg (closeVolume v) := by unfold closeVolume; cfg_auto
theorem openFileInDir_cfg (d : Nat) (name : List Nat) (mode : Mode) : M.Inv Cfg (openFileInDir d name mode) := by
  unfold openFileInDir; cfg_auto
theorem closeFile_cfg (f : Nat) : M.Inv Cfg (closeFile f) := by
  have := cfg_of_resp (Tables.resp_flushFile f)
  unfold closeFile; cfg_auto
theorem getRootVolumeLabel_cfg (v : Nat) : M.Inv Cfg (getRootVolumeLabel v) := by
  have := @openRootDir_cfg
  have := @closeDir_cfg
  have := fun d => cfg_of_resp (Tables.resp_iterateDir d)
  unfold getRootVolumeLabel; cfg_auto

theorem cfg_map {α β} {m : M α} (g : α → β) (h : M.Inv Cfg m) : M.Inv Cfg (m >>= fun a => (Pure.pure (g a) : M β)) :=
  M.Inv.bind h fun _ => M.Inv.pure _

/-- **Every call keeps the configuration.** -/
theorem runOp_cfg (op : Op) : M.Inv Cfg (runOp op) := by
  cases op
  case openVolume i => exact cfg_map _ (openRawVolume_cfg i)
  case closeVolume v => exact cfg_map _ (closeVolume_cfg v)
  case openRoot v => exact cfg_map _ (openRootDir_cfg v)
  case openDir d n => exact cfg_map _ (openDir_cfg d n)
  case closeDir d => exact cfg_map _ (closeDir_cfg d)
  case openFile d n m => exact cfg_map _ (openFileInDir_cfg d n m)
  case read f n => exact cfg_map _ (cfg_of_resp (Tables.resp_read f n))
  case write f b => exact cfg_map _ (cfg_of_resp (Tables.resp_write f b))
  case seekStart f n => exact cfg_map _ (cfg_of_resp (Tables.resp_seekStart f n))
  case seekCur f n => exact cfg_map _ (cfg_of_resp (Tables.resp_seekCur f n))
  case seekEnd f n => exact cfg_map _ (cfg_of_resp (Tables.resp_seekEnd f n))
  case flush f => exact cfg_map _ (cfg_of_resp (Tables.resp_flushFile f))
  case closeFile f => exact cfg_map _ (closeFile_cfg f)
  case delete d n => exact cfg_map _ (cfg_of_resp (Tables.resp_deleteFileInDir d n))
  case mkdir d n => exact cfg_map _ (cfg_of_resp (Tables.resp_makeDirInDir d n))
  case find d n => exact cfg_map _ (cfg_of_resp (Tables.resp_findDirectoryEntry d n))
  case list d => exact cfg_map _ (cfg_of_resp (Tables.resp_iterateDir d))
  case listLfn d n => exact cfg_map _ (cfg_of_resp (Tables.resp_iterateDirLfn d n))
  case length f => exact cfg_map _ (cfg_of_resp (Tables.resp_fileLength f))
  case offset f => exact cfg_map _ (cfg_of_resp (Tables.resp_fileOffset f))
  case eof f => exact cfg_map _ (cfg_of_resp (Tables.resp_fileEof f))
  case hasOpen => exact M.Inv.of_eq fun _ => rfl
  case label v => exact cfg_map _ (getRootVolumeLabel_cfg v)

/-- One call: the limits and the borrow flag are those of the state before. -/
theorem step_cfg (s : Mgr) (op : Op) : Cfg s (step s op).1 := by
  cases hl : s.locked with
  | true =>
    have e : (step s op).1 = s := by
      unfold step; rw [if_pos hl]; split <;> rfl
    rw [e]; exact ⟨rfl, rfl, rfl, rfl⟩
  | false =>
    rw [MHoare.step_unlocked s op hl]
    exact RelOK.trans (R := Cfg) (show Cfg s (resetLogs s) from ⟨rfl, rfl, rfl, rfl⟩) (runOp_cfg op (resetLogs s))

/-- A history: the same. -/
theorem run_cfg (ops : List Op) : ∀ s : Mgr, Cfg s (run s ops).1 := by
  induction ops with
  | nil => intro s; exact ⟨rfl, rfl, rfl, rfl⟩
  | cons op ops ih =>
    intro s
    rw [Tables.run_cons]
    exact RelOK.trans (R := Cfg) (step_cfg s op) (ih _)

/-! ### Histories split at a prefix -/

theorem run_append (s : Mgr) (a b : List Op) : (run s (a ++ b)).1 = (run (run s a).1 b).1 := by
  induction a generalizing s with
  | nil => rfl
  | cons op a ih => rw [List.cons_append, Tables.run_cons, Tables.run_cons, ih]

/-- The state after `k + j` calls is the state after `k` calls, continued by the next `j` calls. -/
theorem run_take_add (s : Mgr) (ops : List Op) (k j : Nat) :
    (run s (ops.take (k + j))).1 = (run (run s (ops.take k)).1 ((ops.drop k).take j)).1 := by
  rw [← run_append, List.take_add]

/-! ### Closed handles stay closed -/

open Sdmmc.Lemmas.Tables (HInv handles) in
/-- A handle that was open after `i` calls and is not open after `k ≥ i` calls is not open after `k + j` calls, for
every `j` — as long as the 32-bit handle counter does not wrap during the history. -/
theorem closed_stays_closed (s : Mgr) (ops : List Op) (hi : HInv s) (hn : s.nextId + ops.length < 4294967296)
    (i k j h : Nat) (hik : i ≤ k) (ho : h ∈ handles (run s (ops.take i)).1) (hc : h ∉ handles (run s (ops.take k)).1) :
    h ∉ handles (run s (ops.take (k + j))).1 := by
  have hlen : ∀ n, (ops.take n).length ≤ ops.length := fun n => by rw [List.length_take]; exact Nat.min_le_right _ _
  -- the state after `i` calls: `h` is below the counter
  have spi := Tables.run_spec (ops.take i) s hi (by have := hlen i; omega)
  have hlt : h < (run s (ops.take i)).1.nextId := spi.1.2.1 h ho
  -- from `i` to `k` the counter does not go back
  obtain ⟨d, rfl⟩ : ∃ d, k = i + d := ⟨k - i, by omega⟩
  have hbi : (run s (ops.take i)).1.nextId ≤ s.nextId + (ops.take i).length := spi.2.2.1
  have hdl : (ops.take i).length + ((ops.drop i).take d).length ≤ ops.length := by
    simp only [List.length_take, List.length_drop]; omega
  have spk := Tables.run_spec ((ops.drop i).take d) (run s (ops.take i)).1 spi.1 (by omega)
  rw [← run_take_add] at spk
  have hlt' : h < (run s (ops.take (i + d))).1.nextId := Nat.lt_of_lt_of_le hlt spk.2.1
  have hbk : (run s (ops.take (i + d))).1.nextId ≤ s.nextId + (ops.take i).length + ((ops.drop i).take d).length := by
    have := spk.2.2.1; omega
  have hjl : (ops.take i).length + ((ops.drop i).take d).length + ((ops.drop (i + d)).take j).length ≤ ops.length := by
    simp only [List.length_take, List.length_drop]; omega
  rw [run_take_add]
  exact Tables.stale_never_reissued _ _ h spk.1 (by omega) hlt' hc

end Sdmmc.Lemmas.MainC08
