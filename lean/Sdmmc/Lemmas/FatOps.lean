/-
F-level lemmas about the FAT engine (`Sdmmc.Model.Fat`): what `updateFat`, `findNextFree`,
`zeroBlocks`, `allocCluster`, `updateInfoSector`, `writeEntryToDisk` return and write on a
fault-free, coherent state; general read-only facts about `nextCluster` and
`findNextFreeCluster`.  Used by `Props/C16.lean`, `C05.lean`, `C04.lean`, `C10.lean`.
-/
import Sdmmc.Lemmas.FBasic
import Sdmmc.Lemmas.FatLens

namespace Sdmmc.Lemmas.FatOps
open Sdmmc.Model Sdmmc.Model.Fat Sdmmc.Spec Sdmmc.Lemmas.FBasic

/-! ### The vocabulary of the property files (same bodies, so the types agree by unfolding) -/

def BlocksOK (d : Disk) : Prop := ∀ i, (d.get i).length = 512

def Mirror (v : FatVolume) (d : Disk) : Prop :=
  ∀ c, c < endCluster v → ∀ b2, fatBlock2 v c = some b2 → d.get b2 = d.get (fatBlock v c)

def HintOK (v : FatVolume) : Prop := ∀ n, v.nextFreeCluster = some n → 2 ≤ n

def entryOnDisk (v : FatVolume) (d : Disk) (c : Nat) : Nat :=
  let raw := rawFatEntry v.fatType (d.get (fatBlock v c)) (fatEntOffset v c)
  match v.fatType with | .fat16 => raw | .fat32 => raw % 268435456

def writesOf (before after : FS) : List Nat :=
  ((after.dev.wlog.take (after.dev.wlog.length - before.dev.wlog.length)).map (·.1)).reverse

def fatWrites (v : FatVolume) (c : Nat) : List Nat :=
  fatBlock v c :: (match fatBlock2 v c with | some b => [b] | none => [])

/-! ### Read-only computations

`ReadOnly m`: whatever the state (faults allowed), `m` leaves the medium, the write log, the
volume record and the fault schedule alone and keeps the cache coherent. -/

structure RO (s s' : FS) : Prop where
  disk : s'.dev.disk = s.dev.disk
  wlog : s'.dev.wlog = s.dev.wlog
  vol : s'.vol = s.vol
  faults : s'.dev.faults = s.dev.faults
  coherent : Coherent s → Coherent s'

theorem RO.refl (s : FS) : RO s s := ⟨rfl, rfl, rfl, rfl, id⟩
theorem RO.trans {s s' s'' : FS} (h1 : RO s s') (h2 : RO s' s'') : RO s s'' :=
  ⟨h2.disk.trans h1.disk, h2.wlog.trans h1.wlog, h2.vol.trans h1.vol, h2.faults.trans h1.faults,
   fun h => h2.coherent (h1.coherent h)⟩
theorem RO.noFault {s s' : FS} (h : RO s s') (hn : NoFault s) : NoFault s' := by
  unfold NoFault at *; rw [h.faults]; exact hn

def ReadOnly {α : Type} (m : F α) : Prop := ∀ s, RO s (m s).2

section ReadOnly
variable {α β : Type}

theorem ReadOnly.pure (a : α) : ReadOnly (pure a : F α) := fun s => RO.refl s
theorem ReadOnly.lift (r : Res α) : ReadOnly (F.lift r) := fun s => RO.refl s
theorem ReadOnly.fail (e : Err) : ReadOnly (F.fail e : F α) := fun s => RO.refl s
theorem ReadOnly.panic (msg : String) : ReadOnly (F.panic msg : F α) := fun s => RO.refl s
theorem ReadOnly.diverge : ReadOnly (F.diverge : F α) := fun s => RO.refl s
theorem ReadOnly.getVol : ReadOnly F.getVol := fun s => RO.refl s
theorem ReadOnly.cacheBlk : ReadOnly cacheBlk := fun s => RO.refl s
theorem ReadOnly.cacheRead (idx : Nat) : ReadOnly (cacheRead idx) := fun s =>
  ⟨cacheRead_disk idx s, cacheRead_wlog idx s, cacheRead_vol idx s, cacheRead_faults idx s,
   cacheRead_coherent idx s⟩

theorem ReadOnly.bind {m : F α} {f : α → F β} (hm : ReadOnly m) (hf : ∀ a, ReadOnly (f a)) :
    ReadOnly (m >>= f) := by
  intro s
  rw [bind_apply']
  have h1 := hm s
  cases (m s).1 with
  | ok a => exact h1.trans (hf a _)
  | err e => exact h1
  | panic msg => exact h1
  | diverged => exact h1

theorem ReadOnly.attempt {m : F α} (hm : ReadOnly m) : ReadOnly (F.attempt m) := fun s => hm s

theorem ReadOnly.ite (c : Prop) [Decidable c] {m1 m2 : F α} (h1 : ReadOnly m1) (h2 : ReadOnly m2) :
    ReadOnly (if c then m1 else m2) := by
  split
  · exact h1
  · exact h2

end ReadOnly

theorem nextCluster_readOnly (c : Nat) : ReadOnly (nextCluster c) := by
  unfold nextCluster
  refine ReadOnly.ite _ (ReadOnly.panic _) ?_
  refine ReadOnly.bind ReadOnly.getVol fun v => ?_
  refine ReadOnly.bind (ReadOnly.cacheRead _) fun _ => ?_
  refine ReadOnly.bind ReadOnly.cacheBlk fun blk => ?_
  exact ReadOnly.lift _

theorem findNextFreeCluster_readOnly (fuel cur endC : Nat) : ReadOnly (findNextFreeCluster fuel cur endC) := by
  induction fuel generalizing cur with
  | zero => unfold findNextFreeCluster; exact ReadOnly.fail _
  | succ fuel ih =>
    unfold findNextFreeCluster
    refine ReadOnly.ite _ (ReadOnly.fail _) ?_
    refine ReadOnly.bind ReadOnly.getVol fun v => ?_
    refine ReadOnly.bind (ReadOnly.cacheRead _) fun _ => ?_
    refine ReadOnly.bind ReadOnly.cacheBlk fun blk => ?_
    exact ReadOnly.ite _ (ReadOnly.pure _) (ih _)

theorem findNextFree_readOnly (start endC : Nat) : ReadOnly (findNextFree start endC) :=
  findNextFreeCluster_readOnly _ _ _

/-! Projection forms, for export. -/

theorem nextCluster_disk (c : Nat) (s : FS) : (nextCluster c s).2.dev.disk = s.dev.disk := (nextCluster_readOnly c s).disk
theorem nextCluster_wlog (c : Nat) (s : FS) : (nextCluster c s).2.dev.wlog = s.dev.wlog := (nextCluster_readOnly c s).wlog
theorem nextCluster_vol (c : Nat) (s : FS) : (nextCluster c s).2.vol = s.vol := (nextCluster_readOnly c s).vol
theorem nextCluster_faults (c : Nat) (s : FS) : (nextCluster c s).2.dev.faults = s.dev.faults :=
  (nextCluster_readOnly c s).faults
theorem nextCluster_coherent (c : Nat) (s : FS) (hc : Coherent s) : Coherent (nextCluster c s).2 :=
  (nextCluster_readOnly c s).coherent hc
theorem nextCluster_noFault (c : Nat) (s : FS) (hn : NoFault s) : NoFault (nextCluster c s).2 :=
  (nextCluster_readOnly c s).noFault hn

theorem findNextFreeCluster_disk (fuel cur endC : Nat) (s : FS) :
    (findNextFreeCluster fuel cur endC s).2.dev.disk = s.dev.disk := (findNextFreeCluster_readOnly fuel cur endC s).disk
theorem findNextFreeCluster_wlog (fuel cur endC : Nat) (s : FS) :
    (findNextFreeCluster fuel cur endC s).2.dev.wlog = s.dev.wlog := (findNextFreeCluster_readOnly fuel cur endC s).wlog
theorem findNextFreeCluster_vol (fuel cur endC : Nat) (s : FS) :
    (findNextFreeCluster fuel cur endC s).2.vol = s.vol := (findNextFreeCluster_readOnly fuel cur endC s).vol
theorem findNextFreeCluster_faults (fuel cur endC : Nat) (s : FS) :
    (findNextFreeCluster fuel cur endC s).2.dev.faults = s.dev.faults := (findNextFreeCluster_readOnly fuel cur endC s).faults
theorem findNextFreeCluster_coherent (fuel cur endC : Nat) (s : FS) (hc : Coherent s) :
    Coherent (findNextFreeCluster fuel cur endC s).2 := (findNextFreeCluster_readOnly fuel cur endC s).coherent hc
theorem findNextFreeCluster_noFault (fuel cur endC : Nat) (s : FS) (hn : NoFault s) :
    NoFault (findNextFreeCluster fuel cur endC s).2 := (findNextFreeCluster_readOnly fuel cur endC s).noFault hn

/-- On a fault-free coherent state `nextCluster` decodes the entry stored on the medium. -/
theorem nextCluster_eq (c : Nat) (s : FS) (hn : NoFault s) (hc : Coherent s) (hle : c ≤ U32_MAX / 4) :
    nextCluster c s =
      (decodeNext s.vol.fatType (rawFatEntry s.vol.fatType (s.dev.disk.get (fatBlock s.vol c)) (fatEntOffset s.vol c)),
       afterRead (fatBlock s.vol c) s) := by
  unfold nextCluster
  simp only [ite_apply, if_neg (Nat.not_lt.mpr hle), bind_apply, getVol_apply, cacheRead_eq' _ _ hn hc,
    cacheBlk_apply, lift_apply, afterRead_blk]

/-! ### `updateFat` -/

/-- The payload `update_fat` writes. -/
def fatPayload (s : FS) (c val : Nat) : Block :=
  patchFatBlock s.vol.fatType (s.dev.disk.get (fatBlock s.vol c)) (fatEntOffset s.vol c) val

/-- The exact state after `update_fat` (fault-free, coherent). -/
theorem updateFat_eq (s : FS) (c val : Nat) (hn : NoFault s) (hc : Coherent s) :
    ∃ s', updateFat c val s = (.ok (), s') ∧ Coherent s' ∧ NoFault s' ∧ s'.vol = s.vol ∧
      (match fatBlock2 s.vol c with
        | none => s'.dev.wlog = (fatBlock s.vol c, fatPayload s c val) :: s.dev.wlog ∧
                  s'.dev.disk = s.dev.disk.set (fatBlock s.vol c) (fatPayload s c val)
        | some b2 => s'.dev.wlog = (b2, fatPayload s c val) :: (fatBlock s.vol c, fatPayload s c val) :: s.dev.wlog ∧
                     s'.dev.disk = (s.dev.disk.set (fatBlock s.vol c) (fatPayload s c val)).set b2 (fatPayload s c val)) := by
  unfold updateFat
  simp only [bind_apply, getVol_apply, cacheRead_eq' _ _ hn hc, cacheModify_apply]
  -- the state handed to the write-back
  generalize hs1 : ({ afterRead (fatBlock s.vol c) s with
      cache := { (afterRead (fatBlock s.vol c) s).cache with
        blk := patchFatBlock s.vol.fatType (afterRead (fatBlock s.vol c) s).cache.blk (fatEntOffset s.vol c) val } } : FS) = s1
  have htag : s1.cache.tag = some (fatBlock s.vol c) := by subst hs1; rfl
  have hblk : s1.cache.blk = fatPayload s c val := by subst hs1; rfl
  have hn1 : NoFault s1 := by subst hs1; exact hn
  have hd1 : s1.dev.disk = s.dev.disk := by subst hs1; rfl
  have hw1 : s1.dev.wlog = s.dev.wlog := by subst hs1; rfl
  have hv1 : s1.vol = s.vol := by subst hs1; rfl
  cases h2 : fatBlock2 s.vol c with
  | none =>
    refine ⟨(writeBack s1).2, (run_eq_iff writeBack s1 _ _).mpr ⟨writeBack_fst s1 _ hn1 htag, rfl⟩, writeBack_coherent s1 _ hn1 htag, writeBack_noFault s1 _ hn1 htag, ?_, ?_, ?_⟩
    · rw [writeBack_vol, hv1]
    · rw [writeBack_wlog s1 _ hn1 htag, hblk, hw1]
    · rw [writeBack_disk s1 _ hn1 htag, hblk, hd1]
  | some b2 =>
    refine ⟨(writeBackWithDuplicate b2 s1).2,
      (run_eq_iff (writeBackWithDuplicate b2) s1 _ _).mpr ⟨writeBackWithDuplicate_fst s1 _ hn1 htag b2, rfl⟩,
      writeBackWithDuplicate_coherent s1 _ hn1 htag b2, writeBackWithDuplicate_noFault s1 _ hn1 htag b2,
      ?_, ?_, ?_⟩
    · rw [writeBackWithDuplicate_vol, hv1]
    · rw [writeBackWithDuplicate_wlog s1 _ hn1 htag, hblk, hw1]
    · rw [writeBackWithDuplicate_disk s1 _ hn1 htag, hblk, hd1]

theorem updateFat_writes (s : FS) (c val : Nat) (hn : NoFault s) (hc : Coherent s) :
    let s' := (updateFat c val s).2
    let p := patchFatBlock s.vol.fatType (s.dev.disk.get (fatBlock s.vol c)) (fatEntOffset s.vol c) val
    (updateFat c val s).1 = .ok () ∧ Coherent s' ∧ NoFault s' ∧ s'.vol = s.vol ∧
    (match fatBlock2 s.vol c with
      | none => s'.dev.wlog = (fatBlock s.vol c, p) :: s.dev.wlog ∧ s'.dev.disk = s.dev.disk.set (fatBlock s.vol c) p
      | some b2 => s'.dev.wlog = (b2, p) :: (fatBlock s.vol c, p) :: s.dev.wlog ∧
                   s'.dev.disk = (s.dev.disk.set (fatBlock s.vol c) p).set b2 p) := by
  obtain ⟨s', h, h1, h2, h3, h4⟩ := updateFat_eq s c val hn hc
  intro s'' p
  have hs : s'' = s' := by show (updateFat c val s).2 = s'; rw [h]
  rw [hs]
  exact ⟨by rw [h], h1, h2, h3, h4⟩

/-- `updateFat` never touches the volume record (faults or not). -/
theorem updateFat_vol (c val : Nat) (s : FS) : (updateFat c val s).2.vol = s.vol := by
  unfold updateFat
  simp only [bind_apply', getVol_apply, cacheModify_apply]
  cases h1 : (cacheRead (fatBlock s.vol c) s).1 <;> simp only [cacheRead_vol]
  cases fatBlock2 s.vol c <;> simp only [writeBack_vol, writeBackWithDuplicate_vol]


/-! ### The free-cluster search -/

/-- Pure counterpart of `findNextFreeCluster` over the medium. -/
def scan (v : FatVolume) (d : Disk) : (fuel cur endC : Nat) → Option Nat
  | 0, _, _ => none
  | fuel + 1, cur, endC =>
    if cur ≥ endC then none
    else if entryOnDisk v d cur = 0 then some cur
    else scan v d fuel (cur + 1) endC

def scanRes : Option Nat → Res Nat
  | some c => .ok c
  | none => .err .NotEnoughSpace

theorem findNextFreeCluster_succ (fuel cur endC : Nat) (s : FS) (hn : NoFault s) (hc : Coherent s) :
    findNextFreeCluster (fuel + 1) cur endC s =
      if cur ≥ endC then (.err .NotEnoughSpace, s)
      else if entryOnDisk s.vol s.dev.disk cur = 0 then (.ok cur, afterRead (fatBlock s.vol cur) s)
      else findNextFreeCluster fuel (cur + 1) endC (afterRead (fatBlock s.vol cur) s) := by
  rw [findNextFreeCluster]
  simp only [bind_apply, ite_apply, getVol_apply, cacheRead_eq' _ _ hn hc, cacheBlk_apply, pure_apply, fail_apply,
    afterRead_blk]
  rfl

theorem findNextFreeCluster_fst (fuel cur endC : Nat) (s : FS) (hn : NoFault s) (hc : Coherent s) :
    (findNextFreeCluster fuel cur endC s).1 = scanRes (scan s.vol s.dev.disk fuel cur endC) := by
  induction fuel generalizing cur s with
  | zero => rfl
  | succ fuel ih =>
    rw [findNextFreeCluster_succ fuel cur endC s hn hc, scan]
    by_cases h1 : cur ≥ endC
    · rw [if_pos h1, if_pos h1]; rfl
    · rw [if_neg h1, if_neg h1]
      by_cases h2 : entryOnDisk s.vol s.dev.disk cur = 0
      · rw [if_pos h2, if_pos h2]; rfl
      · rw [if_neg h2, if_neg h2]
        exact ih (cur + 1) _ (afterRead_noFault _ s hn) (afterRead_coherent _ s)

theorem scan_some (v : FatVolume) (d : Disk) (fuel cur endC c : Nat) (h : scan v d fuel cur endC = some c) :
    cur ≤ c ∧ c < endC ∧ entryOnDisk v d c = 0 ∧ ∀ c', cur ≤ c' → c' < c → entryOnDisk v d c' ≠ 0 := by
  induction fuel generalizing cur with
  | zero => cases h
  | succ fuel ih =>
    rw [scan] at h
    by_cases h1 : cur ≥ endC
    · rw [if_pos h1] at h; cases h
    · rw [if_neg h1] at h
      by_cases h2 : entryOnDisk v d cur = 0
      · rw [if_pos h2] at h
        cases h
        exact ⟨Nat.le_refl _, by omega, h2, fun c' h3 h4 => by omega⟩
      · rw [if_neg h2] at h
        obtain ⟨a, b, e, f⟩ := ih (cur + 1) h
        refine ⟨by omega, b, e, fun c' h3 h4 => ?_⟩
        by_cases h5 : c' = cur
        · rw [h5]; exact h2
        · exact f c' (by omega) h4

theorem scan_none (v : FatVolume) (d : Disk) (fuel cur endC : Nat) (h : scan v d fuel cur endC = none)
    (hf : endC ≤ cur + fuel) : ∀ c, cur ≤ c → c < endC → entryOnDisk v d c ≠ 0 := by
  induction fuel generalizing cur with
  | zero => intro c h1 h2; omega
  | succ fuel ih =>
    rw [scan] at h
    by_cases h1 : cur ≥ endC
    · intro c h3 h4; omega
    · rw [if_neg h1] at h
      by_cases h2 : entryOnDisk v d cur = 0
      · rw [if_pos h2] at h; cases h
      · rw [if_neg h2] at h
        intro c h3 h4
        by_cases h5 : c = cur
        · rw [h5]; exact h2
        · exact ih (cur + 1) h (by omega) c (by omega) h4

/-- With enough fuel the scan finds a free entry when there is one. -/
theorem scan_isSome (v : FatVolume) (d : Disk) (fuel cur endC c : Nat) (hf : endC ≤ cur + fuel)
    (h1 : cur ≤ c) (h2 : c < endC) (h0 : entryOnDisk v d c = 0) : ∃ c', scan v d fuel cur endC = some c' := by
  cases hs : scan v d fuel cur endC with
  | some c' => exact ⟨c', rfl⟩
  | none => exact absurd h0 (scan_none v d fuel cur endC hs hf c h1 h2)

/-- The scan `findNextFree start endC` performs. -/
def scanFrom (v : FatVolume) (d : Disk) (start endC : Nat) : Option Nat := scan v d (endC - start + 1) start endC

/-- `findNextFree` on a fault-free coherent state: result given by the pure scan, nothing written. -/
theorem findNextFree_eq (start endC : Nat) (s : FS) (hn : NoFault s) (hc : Coherent s) :
    ∃ s', findNextFree start endC s = (scanRes (scanFrom s.vol s.dev.disk start endC), s') ∧
      RO s s' ∧ NoFault s' ∧ Coherent s' := by
  have hro := findNextFree_readOnly start endC s
  refine ⟨(findNextFree start endC s).2, ?_, hro, hro.noFault hn, hro.coherent hc⟩
  exact (run_eq_iff _ _ _ _).mpr ⟨findNextFreeCluster_fst _ _ _ s hn hc, rfl⟩

theorem scanFrom_some (v : FatVolume) (d : Disk) (start endC c : Nat) (h : scanFrom v d start endC = some c) :
    start ≤ c ∧ c < endC ∧ entryOnDisk v d c = 0 ∧ ∀ c', start ≤ c' → c' < c → entryOnDisk v d c' ≠ 0 :=
  scan_some v d _ start endC c h

theorem scanFrom_none (v : FatVolume) (d : Disk) (start endC : Nat) (h : scanFrom v d start endC = none) :
    ∀ c, start ≤ c → c < endC → entryOnDisk v d c ≠ 0 :=
  scan_none v d _ start endC h (by omega)

theorem scanFrom_isSome (v : FatVolume) (d : Disk) (start endC c : Nat)
    (h1 : start ≤ c) (h2 : c < endC) (h0 : entryOnDisk v d c = 0) : ∃ c', scanFrom v d start endC = some c' :=
  scan_isSome v d _ start endC c (by omega) h1 h2 h0

theorem findNextFree_sound (s s' : FS) (start endC c : Nat) (hn : NoFault s) (hc : Coherent s)
    (h : findNextFree start endC s = (.ok c, s')) :
    start ≤ c ∧ c < endC ∧ entryOnDisk s.vol s.dev.disk c = 0 ∧
    (∀ c', start ≤ c' → c' < c → entryOnDisk s.vol s.dev.disk c' ≠ 0) ∧
    s'.dev.disk = s.dev.disk ∧ s'.dev.wlog = s.dev.wlog ∧ s'.vol = s.vol ∧ Coherent s' ∧ NoFault s' := by
  obtain ⟨s1, h1, hro, hn1, hc1⟩ := findNextFree_eq start endC s hn hc
  rw [h] at h1
  have hs : s' = s1 := congrArg Prod.snd h1
  have hr : Res.ok c = scanRes (scanFrom s.vol s.dev.disk start endC) := congrArg Prod.fst h1
  subst hs
  cases hsc : scanFrom s.vol s.dev.disk start endC with
  | none => rw [hsc] at hr; cases hr
  | some c' =>
    rw [hsc] at hr
    cases hr
    obtain ⟨a, b, e, f⟩ := scanFrom_some _ _ _ _ _ hsc
    exact ⟨a, b, e, f, hro.disk, hro.wlog, hro.vol, hc1, hn1⟩

theorem findNextFree_complete (s : FS) (start endC : Nat) (hn : NoFault s) (hc : Coherent s) :
    (∃ c s', findNextFree start endC s = (.ok c, s')) ∨
    ((findNextFree start endC s).1 = .err .NotEnoughSpace ∧
      (∀ c, start ≤ c → c < endC → entryOnDisk s.vol s.dev.disk c ≠ 0) ∧
      (findNextFree start endC s).2.dev.disk = s.dev.disk ∧ (findNextFree start endC s).2.dev.wlog = s.dev.wlog) := by
  obtain ⟨s1, h1, hro, hn1, hc1⟩ := findNextFree_eq start endC s hn hc
  cases hsc : scanFrom s.vol s.dev.disk start endC with
  | some c => rw [hsc] at h1; exact .inl ⟨c, s1, h1⟩
  | none =>
    rw [hsc] at h1
    refine .inr ⟨by rw [h1]; rfl, scanFrom_none _ _ _ _ hsc, ?_, ?_⟩
    · rw [h1]; exact hro.disk
    · rw [h1]; exact hro.wlog

/-! ### `zeroBlocks` -/

theorem zeroBlocks_zero (first : Nat) (s : FS) : zeroBlocks 0 first s = (.ok (), s) := rfl

/-- The state after blanking and writing one block. -/
def afterZero (first : Nat) (s : FS) : FS :=
  (writeBack { s with cache := { tag := some first, blk := zeroBlock } }).2

theorem afterZero_facts (first : Nat) (s : FS) (hn : NoFault s) :
    NoFault (afterZero first s) ∧ Coherent (afterZero first s) ∧ (afterZero first s).vol = s.vol ∧
    (afterZero first s).dev.wlog = (first, zeroBlock) :: s.dev.wlog ∧
    (afterZero first s).dev.disk = s.dev.disk.set first zeroBlock := by
  have hn1 : NoFault ({ s with cache := { tag := some first, blk := zeroBlock } } : FS) := hn
  exact ⟨writeBack_noFault _ first hn1 rfl, writeBack_coherent _ first hn1 rfl, writeBack_vol _,
    writeBack_wlog _ first hn1 rfl, writeBack_disk _ first hn1 rfl⟩

theorem zeroBlocks_succ (n first : Nat) (s : FS) (hn : NoFault s) :
    zeroBlocks (n + 1) first s = zeroBlocks n (first + 1) (afterZero first s) := by
  rw [zeroBlocks]
  have hn1 : NoFault ({ s with cache := { tag := some first, blk := zeroBlock } } : FS) := hn
  simp only [bind_apply, blankMut_apply]
  rw [(run_eq_iff writeBack _ _ _).mpr ⟨writeBack_fst _ first hn1 rfl, rfl⟩]
  rfl

theorem range_succ_map_rev {β : Type} (n : Nat) (f : Nat → β) (w : List β) :
    ((List.range (n + 1)).map f).reverse ++ w = ((List.range n).map (fun i => f (i + 1))).reverse ++ f 0 :: w := by
  rw [List.range_succ_eq_map, List.map_cons, List.reverse_cons, List.map_map, List.append_assoc]
  rfl

theorem zeroBlocks_writes (s : FS) (n first : Nat) (hn : NoFault s) (hc : Coherent s) :
    (zeroBlocks n first s).1 = .ok () ∧
    (zeroBlocks n first s).2.dev.wlog = ((List.range n).map fun i => (first + i, zeroBlock)).reverse ++ s.dev.wlog ∧
    NoFault (zeroBlocks n first s).2 ∧ Coherent (zeroBlocks n first s).2 ∧ (zeroBlocks n first s).2.vol = s.vol := by
  induction n generalizing first s with
  | zero => exact ⟨rfl, rfl, hn, hc, rfl⟩
  | succ n ih =>
    obtain ⟨hn1, hc1, hv1, hw1, _⟩ := afterZero_facts first s hn
    rw [zeroBlocks_succ n first s hn]
    obtain ⟨a, b, c, d, e⟩ := ih (afterZero first s) (first + 1) hn1 hc1
    refine ⟨a, ?_, c, d, e.trans hv1⟩
    rw [b, hw1, range_succ_map_rev n (fun i => (first + i, zeroBlock))]
    congr 2
    apply List.map_congr_left
    intro i _
    show (first + 1 + i, zeroBlock) = (first + (i + 1), zeroBlock)
    rw [Nat.add_assoc, Nat.add_comm 1 i]

theorem zeroBlock_length : zeroBlock.length = 512 := by
  show (List.replicate 512 (0 : UInt8)).length = 512
  exact List.length_replicate

theorem blocksOK_set (d : Disk) (i : Nat) (b : Block) (hb : BlocksOK d) (hl : b.length = 512) : BlocksOK (d.set i b) := by
  intro j
  rw [Disk.get_set]
  split
  · exact hl
  · exact hb j

theorem zeroBlocks_blocksOK (s : FS) (n first : Nat) (hn : NoFault s) (hb : BlocksOK s.dev.disk) :
    BlocksOK (zeroBlocks n first s).2.dev.disk := by
  induction n generalizing first s with
  | zero => exact hb
  | succ n ih =>
    obtain ⟨hn1, _, _, _, hd1⟩ := afterZero_facts first s hn
    rw [zeroBlocks_succ n first s hn]
    exact ih _ _ hn1 (by rw [hd1]; exact blocksOK_set _ _ _ hb zeroBlock_length)

/-- `zeroBlocks` never touches the volume record. -/
theorem zeroBlocks_vol (n first : Nat) (s : FS) : (zeroBlocks n first s).2.vol = s.vol := by
  induction n generalizing first s with
  | zero => rfl
  | succ n ih =>
    rw [zeroBlocks]
    simp only [bind_apply', blankMut_apply]
    cases (writeBack { s with cache := { tag := some first, blk := zeroBlock } }).1 <;>
      simp only [writeBack_vol, ih]


/-! ### `allocCluster`, cut into its steps -/

open Sdmmc.Gen in
/-- Where the first search starts. -/
def allocStart (v : FatVolume) : Nat :=
  match v.nextFreeCluster with
  | some c => if c < endCluster v then c else RESERVED_ENTRIES
  | none => RESERVED_ENTRIES

open Sdmmc.Gen in
/-- Step 1: choose the cluster. -/
def allocPick (v : FatVolume) : F Nat := do
  let r ← F.attempt (findNextFree (allocStart v) (endCluster v))
  (match r with
    | .ok c => pure c
    | .err .NotEnoughSpace =>
      if allocStart v > RESERVED_ENTRIES then findNextFree RESERVED_ENTRIES (endCluster v) else F.fail .NotEnoughSpace
    | other => F.lift other : F Nat)

/-- Step 2: blank the new cluster when asked to. -/
def zeroStep (v : FatVolume) (zero : Bool) (c : Nat) : F Unit :=
  if zero then zeroBlocks v.blocksPerCluster (clusterToBlock v c) else pure ()

/-- Step 4: link the predecessor. -/
def linkStep (prev : Option Nat) (c : Nat) : F Unit :=
  match prev with
  | some p => updateFat p c
  | none => pure ()

open Sdmmc.Gen in
/-- Step 5: compute the next-free hint. -/
def allocHint (v : FatVolume) (newCluster : Nat) : F (Option Nat) := do
  let r2 ← F.attempt (findNextFree newCluster (endCluster v))
  (match r2 with
    | .ok c => pure (some c)
    | .err .NotEnoughSpace =>
      if newCluster > RESERVED_ENTRIES then do
        let r3 ← F.attempt (findNextFree RESERVED_ENTRIES (endCluster v))
        match r3 with
        | .ok c => pure (some c)
        | .err .NotEnoughSpace => pure none
        | other => F.lift (other.bind fun _ => .ok none)
      else pure none
    | other => F.lift (other.bind fun _ => .ok none) : F (Option Nat))

/-- Step 6: the volume record after the allocation. -/
def setHint (nextFree : Option Nat) (v : FatVolume) : FatVolume :=
  { v with nextFreeCluster := nextFree, freeClustersCount := v.freeClustersCount.map (· - 1) }

/-- Steps 2–6. -/
def allocTail (v : FatVolume) (prev : Option Nat) (zero : Bool) (c : Nat) : F Nat :=
  zeroStep v zero c >>= fun _ => updateFat c Gen.CLUSTER_END_OF_FILE >>= fun _ => linkStep prev c >>= fun _ =>
    allocHint v c >>= fun nf => F.modifyVol (setHint nf) >>= fun _ => pure c

/-- `allocCluster` is the sequence of its six steps. -/
theorem allocCluster_seq (prev : Option Nat) (zero : Bool) (s : FS) :
    allocCluster prev zero s = (allocPick s.vol >>= allocTail s.vol prev zero) s := by
  have ht : ∀ c s1, allocTail s.vol prev zero c s1 =
      (do
        if zero then zeroBlocks s.vol.blocksPerCluster (clusterToBlock s.vol c)
        updateFat c Gen.CLUSTER_END_OF_FILE
        match prev with
        | some p => updateFat p c
        | none => pure ()
        let r2 ← F.attempt (findNextFree c (endCluster s.vol))
        let nextFree ← (match r2 with
          | .ok c => pure (some c)
          | .err .NotEnoughSpace =>
            if c > Gen.RESERVED_ENTRIES then do
              let r3 ← F.attempt (findNextFree Gen.RESERVED_ENTRIES (endCluster s.vol))
              match r3 with
              | .ok c => pure (some c)
              | .err .NotEnoughSpace => pure none
              | other => F.lift (other.bind fun _ => .ok none)
            else pure none
          | other => F.lift (other.bind fun _ => .ok none) : F (Option Nat))
        F.modifyVol fun v => { v with nextFreeCluster := nextFree,
                                      freeClustersCount := v.freeClustersCount.map (· - 1) }
        pure c : F Nat) s1 := by
    intro c s1
    unfold allocTail zeroStep linkStep allocHint
    cases zero <;> cases prev <;> rfl
  unfold allocCluster
  simp only [bind_apply, getVol_apply, attempt_apply]
  unfold allocPick allocStart
  simp only [bind_apply, attempt_apply, ht]
  rfl

/-- Inversion of a successful allocation into its steps (no hypothesis on the state). -/
theorem alloc_inv (s s' : FS) (prev : Option Nat) (zero : Bool) (c : Nat)
    (h : allocCluster prev zero s = (.ok c, s')) :
    ∃ s1 sZ s3 s4 s5 nf,
      allocPick s.vol s = (.ok c, s1) ∧ zeroStep s.vol zero c s1 = (.ok (), sZ) ∧
      updateFat c Gen.CLUSTER_END_OF_FILE sZ = (.ok (), s3) ∧ linkStep prev c s3 = (.ok (), s4) ∧
      allocHint s.vol c s4 = (.ok nf, s5) ∧ s' = { s5 with vol := setHint nf s5.vol } := by
  rw [allocCluster_seq, bind_eq_ok] at h
  obtain ⟨c', s1, h1, h⟩ := h
  unfold allocTail at h
  rw [bind_eq_ok] at h; obtain ⟨_, sZ, h2, h⟩ := h
  rw [bind_eq_ok] at h; obtain ⟨_, s3, h3, h⟩ := h
  rw [bind_eq_ok] at h; obtain ⟨_, s4, h4, h⟩ := h
  rw [bind_eq_ok] at h; obtain ⟨nf, s5, h5, h⟩ := h
  rw [bind_eq_ok] at h; obtain ⟨_, s6, h6, h⟩ := h
  rw [modifyVol_apply] at h6
  rw [pure_apply] at h
  have hc : c' = c := by
    have := congrArg Prod.fst h
    exact Res.ok.inj this
  have hs6 : s6 = s' := congrArg Prod.snd h
  have hs5 : { s5 with vol := setHint nf s5.vol } = s6 := congrArg Prod.snd h6
  subst hc
  exact ⟨s1, sZ, s3, s4, s5, nf, h1, h2, h3, h4, h5, (hs5.trans hs6).symm⟩

/-- Composition: the steps in sequence give the allocation. -/
theorem alloc_of_steps (s s1 sZ s3 s4 s5 : FS) (prev : Option Nat) (zero : Bool) (c : Nat) (nf : Option Nat)
    (h1 : allocPick s.vol s = (.ok c, s1)) (h2 : zeroStep s.vol zero c s1 = (.ok (), sZ))
    (h3 : updateFat c Gen.CLUSTER_END_OF_FILE sZ = (.ok (), s3)) (h4 : linkStep prev c s3 = (.ok (), s4))
    (h5 : allocHint s.vol c s4 = (.ok nf, s5)) :
    allocCluster prev zero s = (.ok c, { s5 with vol := setHint nf s5.vol }) := by
  rw [allocCluster_seq, bind_ok h1]
  unfold allocTail
  rw [bind_ok h2, bind_ok h3, bind_ok h4, bind_ok h5]
  rfl


/-! #### The steps are read-only where they should be (no hypothesis on the state) -/

theorem allocPick_readOnly (v : FatVolume) : ReadOnly (allocPick v) := by
  unfold allocPick
  refine ReadOnly.bind (ReadOnly.attempt (findNextFree_readOnly _ _)) fun r => ?_
  cases r with
  | ok c => exact ReadOnly.pure c
  | err e =>
    cases e
    case NotEnoughSpace => exact ReadOnly.ite _ (findNextFree_readOnly _ _) (ReadOnly.fail _)
    all_goals exact ReadOnly.lift _
  | panic m => exact ReadOnly.lift _
  | diverged => exact ReadOnly.lift _

theorem allocHint_readOnly (v : FatVolume) (a : Nat) : ReadOnly (allocHint v a) := by
  unfold allocHint
  refine ReadOnly.bind (ReadOnly.attempt (findNextFree_readOnly _ _)) fun r => ?_
  cases r with
  | ok c => exact ReadOnly.pure _
  | err e =>
    cases e
    case NotEnoughSpace =>
      refine ReadOnly.ite _ ?_ (ReadOnly.pure _)
      refine ReadOnly.bind (ReadOnly.attempt (findNextFree_readOnly _ _)) fun r => ?_
      cases r with
      | ok c => exact ReadOnly.pure _
      | err e =>
        cases e
        case NotEnoughSpace => exact ReadOnly.pure _
        all_goals exact ReadOnly.lift _
      | panic m => exact ReadOnly.lift _
      | diverged => exact ReadOnly.lift _
    all_goals exact ReadOnly.lift _
  | panic m => exact ReadOnly.lift _
  | diverged => exact ReadOnly.lift _

theorem zeroStep_vol (v : FatVolume) (zero : Bool) (c : Nat) (s : FS) : (zeroStep v zero c s).2.vol = s.vol := by
  unfold zeroStep
  cases zero
  · rfl
  · exact zeroBlocks_vol _ _ _

theorem linkStep_vol (prev : Option Nat) (c : Nat) (s : FS) : (linkStep prev c s).2.vol = s.vol := by
  unfold linkStep
  cases prev
  · rfl
  · exact updateFat_vol _ _ _

theorem alloc_count (s s' : FS) (prev : Option Nat) (zero : Bool) (c : Nat)
    (h : allocCluster prev zero s = (.ok c, s')) :
    s'.vol.freeClustersCount = s.vol.freeClustersCount.map (· - 1) := by
  obtain ⟨s1, sZ, s3, s4, s5, nf, h1, h2, h3, h4, h5, hs'⟩ := alloc_inv s s' prev zero c h
  have e1 : s1.vol = s.vol := by have := (allocPick_readOnly s.vol s).vol; rw [h1] at this; exact this
  have e2 : sZ.vol = s1.vol := by have := zeroStep_vol s.vol zero c s1; rw [h2] at this; exact this
  have e3 : s3.vol = sZ.vol := by have := updateFat_vol c Gen.CLUSTER_END_OF_FILE sZ; rw [h3] at this; exact this
  have e4 : s4.vol = s3.vol := by have := linkStep_vol prev c s3; rw [h4] at this; exact this
  have e5 : s5.vol = s4.vol := by have := (allocHint_readOnly s.vol c s4).vol; rw [h5] at this; exact this
  rw [hs']
  show (setHint nf s5.vol).freeClustersCount = _
  rw [e5, e4, e3, e2, e1]
  rfl

/-! #### What each step does on a fault-free coherent state -/

/-- The cluster the allocation picks, as a pure function of the volume record and the medium. -/
def pick (v : FatVolume) (d : Disk) : Option Nat :=
  match scanFrom v d (allocStart v) (endCluster v) with
  | some c => some c
  | none => if allocStart v > Gen.RESERVED_ENTRIES then scanFrom v d Gen.RESERVED_ENTRIES (endCluster v) else none

theorem allocPick_eq (s : FS) (hn : NoFault s) (hc : Coherent s) :
    ∃ s1, allocPick s.vol s = (scanRes (pick s.vol s.dev.disk), s1) ∧ RO s s1 ∧ NoFault s1 ∧ Coherent s1 := by
  obtain ⟨s1, h1, ro1, hn1, hc1⟩ := findNextFree_eq (allocStart s.vol) (endCluster s.vol) s hn hc
  unfold allocPick pick
  simp only [bind_apply, attempt_apply, h1]
  cases hsc : scanFrom s.vol s.dev.disk (allocStart s.vol) (endCluster s.vol) with
  | some c => exact ⟨s1, rfl, ro1, hn1, hc1⟩
  | none =>
    by_cases hgt : allocStart s.vol > Gen.RESERVED_ENTRIES
    · obtain ⟨s2, h2, ro2, hn2, hc2⟩ := findNextFree_eq Gen.RESERVED_ENTRIES (endCluster s.vol) s1 hn1 hc1
      rw [ro1.vol, ro1.disk] at h2
      refine ⟨s2, ?_, ro1.trans ro2, hn2, hc2⟩
      simp only [scanRes, if_pos hgt]
      exact h2
    · refine ⟨s1, ?_, ro1, hn1, hc1⟩
      simp only [scanRes, if_neg hgt]
      rfl

theorem allocStart_ge (v : FatVolume) (hh : HintOK v) : 2 ≤ allocStart v := by
  unfold allocStart
  cases hn : v.nextFreeCluster with
  | none => exact Nat.le_refl _
  | some n =>
    have := hh n hn
    show 2 ≤ if n < endCluster v then n else Gen.RESERVED_ENTRIES
    split
    · exact this
    · exact Nat.le_refl _

theorem pick_some (v : FatVolume) (d : Disk) (c : Nat) (hh : HintOK v) (h : pick v d = some c) :
    2 ≤ c ∧ c < endCluster v ∧ entryOnDisk v d c = 0 := by
  have hs := allocStart_ge v hh
  unfold pick at h
  cases hsc : scanFrom v d (allocStart v) (endCluster v) with
  | some c' =>
    rw [hsc] at h
    cases h
    obtain ⟨a, b, e, _⟩ := scanFrom_some _ _ _ _ _ hsc
    exact ⟨by omega, b, e⟩
  | none =>
    rw [hsc] at h
    simp only at h
    by_cases hgt : allocStart v > Gen.RESERVED_ENTRIES
    · rw [if_pos hgt] at h
      obtain ⟨a, b, e, _⟩ := scanFrom_some _ _ _ _ _ h
      exact ⟨a, b, e⟩
    · rw [if_neg hgt] at h; cases h

theorem pick_none (v : FatVolume) (d : Disk) (hh : HintOK v) (h : pick v d = none) :
    ∀ c, 2 ≤ c → c < endCluster v → entryOnDisk v d c ≠ 0 := by
  have hs := allocStart_ge v hh
  unfold pick at h
  cases hsc : scanFrom v d (allocStart v) (endCluster v) with
  | some c' => rw [hsc] at h; cases h
  | none =>
    rw [hsc] at h
    simp only at h
    have h1 := scanFrom_none _ _ _ _ hsc
    by_cases hgt : allocStart v > Gen.RESERVED_ENTRIES
    · rw [if_pos hgt] at h
      exact scanFrom_none _ _ _ _ h
    · intro c h2 h3
      have : allocStart v = 2 := by
        have : ¬ allocStart v > 2 := hgt
        omega
      exact h1 c (by omega) h3

theorem zeroStep_eq (v : FatVolume) (zero : Bool) (c : Nat) (s : FS) (hn : NoFault s) (hc : Coherent s) :
    ∃ sZ, zeroStep v zero c s = (.ok (), sZ) ∧ NoFault sZ ∧ Coherent sZ ∧ sZ.vol = s.vol ∧
      sZ.dev.wlog = (if zero then ((List.range v.blocksPerCluster).map fun i => (clusterToBlock v c + i, zeroBlock)).reverse
                     else []) ++ s.dev.wlog ∧
      (BlocksOK s.dev.disk → BlocksOK sZ.dev.disk) := by
  unfold zeroStep
  cases zero with
  | false => exact ⟨s, rfl, hn, hc, rfl, rfl, id⟩
  | true =>
    obtain ⟨a, b, c', d, e⟩ := zeroBlocks_writes s v.blocksPerCluster (clusterToBlock v c) hn hc
    refine ⟨_, (run_eq_iff _ _ _ _).mpr ⟨a, rfl⟩, c', d, e, b, zeroBlocks_blocksOK s _ _ hn⟩

theorem linkStep_eq (prev : Option Nat) (c : Nat) (s : FS) (hn : NoFault s) (hc : Coherent s) :
    ∃ s4, linkStep prev c s = (.ok (), s4) ∧ NoFault s4 ∧ Coherent s4 ∧ s4.vol = s.vol := by
  unfold linkStep
  cases prev with
  | none => exact ⟨s, rfl, hn, hc, rfl⟩
  | some p =>
    obtain ⟨s', h, h1, h2, h3, _⟩ := updateFat_eq s p c hn hc
    exact ⟨s', h, h2, h1, h3⟩

/-- The hint computed at the end: unknown, or an entry found by one of the two searches. -/
theorem allocHint_eq (v : FatVolume) (a : Nat) (s : FS) (hn : NoFault s) (hc : Coherent s) :
    ∃ nf s5, allocHint v a s = (.ok nf, s5) ∧ RO s s5 ∧ NoFault s5 ∧ Coherent s5 ∧
      (nf = none ∨ ∃ n, nf = some n ∧ (a ≤ n ∨ 2 ≤ n) ∧ n < endCluster v) := by
  obtain ⟨s1, h1, ro1, hn1, hc1⟩ := findNextFree_eq a (endCluster v) s hn hc
  unfold allocHint
  simp only [bind_apply, attempt_apply, h1]
  cases hsc : scanFrom s.vol s.dev.disk a (endCluster v) with
  | some n =>
    obtain ⟨e1, e2, _, _⟩ := scanFrom_some _ _ _ _ _ hsc
    exact ⟨some n, s1, rfl, ro1, hn1, hc1, .inr ⟨n, rfl, .inl e1, e2⟩⟩
  | none =>
    by_cases hgt : a > Gen.RESERVED_ENTRIES
    · obtain ⟨s2, h2, ro2, hn2, hc2⟩ := findNextFree_eq Gen.RESERVED_ENTRIES (endCluster v) s1 hn1 hc1
      simp only [scanRes, if_pos hgt, bind_apply, attempt_apply, h2]
      cases hsc2 : scanFrom s1.vol s1.dev.disk Gen.RESERVED_ENTRIES (endCluster v) with
      | some n =>
        obtain ⟨e1, e2, _, _⟩ := scanFrom_some _ _ _ _ _ hsc2
        exact ⟨some n, s2, rfl, ro1.trans ro2, hn2, hc2, .inr ⟨n, rfl, .inr e1, e2⟩⟩
      | none => exact ⟨none, s2, rfl, ro1.trans ro2, hn2, hc2, .inl rfl⟩
    · simp only [scanRes, if_neg hgt]
      exact ⟨none, s1, rfl, ro1, hn1, hc1, .inl rfl⟩


/-! ### FAT updates in list form, geometry of the two copies, the mirror invariant -/

/-- The write-log entries of one FAT update, newest first. -/
def fatWriteLog (v : FatVolume) (c : Nat) (p : Block) : List (Nat × Block) :=
  match fatBlock2 v c with
  | none => [(fatBlock v c, p)]
  | some b2 => [(b2, p), (fatBlock v c, p)]

/-- The medium after one FAT update. -/
def fatDisk (v : FatVolume) (d : Disk) (c : Nat) (p : Block) : Disk :=
  match fatBlock2 v c with
  | none => d.set (fatBlock v c) p
  | some b2 => (d.set (fatBlock v c) p).set b2 p

theorem fatWriteLog_idx (v : FatVolume) (c : Nat) (p : Block) :
    ((fatWriteLog v c p).map (·.1)).reverse = fatWrites v c := by
  unfold fatWriteLog fatWrites
  cases fatBlock2 v c <;> rfl

theorem fatDisk_get (v : FatVolume) (d : Disk) (c : Nat) (p : Block) (i : Nat) :
    (fatDisk v d c p).get i = if i ∈ fatWrites v c then p else d.get i := by
  unfold fatDisk fatWrites
  cases fatBlock2 v c with
  | none =>
    simp only [Disk.get_set, List.mem_singleton]
    by_cases h : fatBlock v c = i
    · rw [if_pos h, if_pos h.symm]
    · rw [if_neg h, if_neg (fun h' => h h'.symm)]
  | some b2 =>
    simp only [Disk.get_set, List.mem_cons, List.not_mem_nil, or_false]
    by_cases h2 : b2 = i
    · rw [if_pos h2, if_pos (.inr h2.symm)]
    · rw [if_neg h2]
      by_cases h : fatBlock v c = i
      · rw [if_pos h, if_pos (.inl h.symm)]
      · rw [if_neg h, if_neg]
        rintro (h' | h')
        · exact h h'.symm
        · exact h2 h'.symm

theorem fatBlock_mem_fatWrites (v : FatVolume) (c : Nat) : fatBlock v c ∈ fatWrites v c := List.mem_cons_self

/-- `updateFat_eq` in list form. -/
theorem updateFat_eq' (s : FS) (c val : Nat) (hn : NoFault s) (hc : Coherent s) :
    ∃ s', updateFat c val s = (.ok (), s') ∧ Coherent s' ∧ NoFault s' ∧ s'.vol = s.vol ∧
      s'.dev.wlog = fatWriteLog s.vol c (fatPayload s c val) ++ s.dev.wlog ∧
      s'.dev.disk = fatDisk s.vol s.dev.disk c (fatPayload s c val) := by
  obtain ⟨s', h, h1, h2, h3, h4⟩ := updateFat_eq s c val hn hc
  refine ⟨s', h, h1, h2, h3, ?_⟩
  unfold fatWriteLog fatDisk
  cases hb : fatBlock2 s.vol c with
  | none => rw [hb] at h4; exact h4
  | some b2 => rw [hb] at h4; exact h4

theorem fatPayload_length (s : FS) (c val : Nat) (hb : BlocksOK s.dev.disk) : (fatPayload s c val).length = 512 :=
  FatLens.patch_length _ _ _ _ (hb _) (FatLens.fatEntOffset_le s.vol c)

theorem fatDisk_blocksOK (v : FatVolume) (d : Disk) (c : Nat) (p : Block) (hb : BlocksOK d) (hl : p.length = 512) :
    BlocksOK (fatDisk v d c p) := by
  intro i
  rw [fatDisk_get]
  split
  · exact hl
  · exact hb i

/-- The block index of an entry inside a FAT copy. -/
def fatIdx (v : FatVolume) (c : Nat) : Nat := c * entryWidth v.fatType / 512

theorem fatBlock_eq_idx (v : FatVolume) (c : Nat) : fatBlock v c = v.lbaStart + (v.fatStart + fatIdx v c) := rfl

theorem fatBlock2_eq_some (v : FatVolume) (c b2 : Nat) (h : fatBlock2 v c = some b2) :
    ∃ s2, v.secondFatStart = some s2 ∧ b2 = v.lbaStart + (s2 + fatIdx v c) := by
  unfold fatBlock2 at h
  cases hs : v.secondFatStart with
  | none => rw [hs] at h; cases h
  | some s2 =>
    rw [hs] at h
    exact ⟨s2, rfl, (Option.some.inj h).symm⟩

theorem fatBlock2_of_second (v : FatVolume) (c s2 : Nat) (h : v.secondFatStart = some s2) :
    fatBlock2 v c = some (v.lbaStart + (s2 + fatIdx v c)) := by
  unfold fatBlock2; rw [h]; rfl

/-- Copy 2 lies behind the used part of copy 1. -/
theorem fatBlock_ne_fatBlock2 (v : FatVolume) (hg : WFGeom v) (c p b2 : Nat) (hc : c < endCluster v)
    (h : fatBlock2 v p = some b2) : fatBlock v c ≠ b2 := by
  obtain ⟨s2, hs, rfl⟩ := fatBlock2_eq_some v p b2 h
  have h1 := hg.second_after_first s2 hs
  have h2 : fatIdx v c < fatBlocksUsed v := FatLens.fatIdx_lt_used v c hc
  rw [fatBlock_eq_idx]
  omega

theorem updateFat_mirror (s : FS) (c val : Nat) (hn : NoFault s) (hc : Coherent s) (hg : WFGeom s.vol)
    (hcl : c < endCluster s.vol) (hm : Mirror s.vol s.dev.disk) :
    Mirror s.vol (updateFat c val s).2.dev.disk := by
  obtain ⟨s', h, _, _, _, _, hd⟩ := updateFat_eq' s c val hn hc
  rw [h]
  show Mirror s.vol s'.dev.disk
  rw [hd]
  intro c' hc' b2' hb2'
  rw [fatDisk_get, fatDisk_get]
  obtain ⟨s2, hs, rfl⟩ := fatBlock2_eq_some s.vol c' b2' hb2'
  have hb2c := fatBlock2_of_second s.vol c s2 hs
  have hw : fatWrites s.vol c = [fatBlock s.vol c, s.vol.lbaStart + (s2 + fatIdx s.vol c)] := by
    unfold fatWrites; rw [hb2c]
  have g1 := fatBlock_ne_fatBlock2 s.vol hg c c' _ hcl hb2'
  have g2 := fatBlock_ne_fatBlock2 s.vol hg c' c _ hc' hb2c
  rw [hw]
  simp only [List.mem_cons, List.not_mem_nil, or_false]
  by_cases hk : fatIdx s.vol c' = fatIdx s.vol c
  · rw [if_pos (.inr (by rw [hk])), if_pos (.inl (by rw [fatBlock_eq_idx, fatBlock_eq_idx, hk]))]
  · rw [if_neg, if_neg]
    · exact hm c' hc' _ hb2'
    · rw [fatBlock_eq_idx, fatBlock_eq_idx]
      rintro (h' | h')
      · exact hk (by omega)
      · exact g2 (by rw [fatBlock_eq_idx]; exact h')
    · rintro (h' | h')
      · exact g1 h'.symm
      · exact hk (by omega)


/-! ### The allocation, end to end -/

/-- The blocks blanked by the zeroing step, as write-log entries (newest first). -/
def zeroLog (v : FatVolume) (zero : Bool) (c : Nat) : List (Nat × Block) :=
  if zero then ((List.range v.blocksPerCluster).map fun i => (clusterToBlock v c + i, zeroBlock)).reverse else []

/-- Everything a successful allocation did, step by step. -/
structure AllocChain (s sZ s3 s4 s' : FS) (prev : Option Nat) (zero : Bool) (c : Nat) : Prop where
  run : allocCluster prev zero s = (.ok c, s')
  picked : pick s.vol s.dev.disk = some c
  hnZ : NoFault sZ
  hcZ : Coherent sZ
  volZ : sZ.vol = s.vol
  wlogZ : sZ.dev.wlog = zeroLog s.vol zero c ++ s.dev.wlog
  okZ : BlocksOK s.dev.disk → BlocksOK sZ.dev.disk
  hn3 : NoFault s3
  hc3 : Coherent s3
  vol3 : s3.vol = s.vol
  wlog3 : s3.dev.wlog = fatWriteLog s.vol c (fatPayload sZ c Gen.CLUSTER_END_OF_FILE) ++ sZ.dev.wlog
  disk3 : s3.dev.disk = fatDisk s.vol sZ.dev.disk c (fatPayload sZ c Gen.CLUSTER_END_OF_FILE)
  hn4 : NoFault s4
  hc4 : Coherent s4
  vol4 : s4.vol = s.vol
  link : match prev with
    | none => s4 = s3
    | some p => s4.dev.wlog = fatWriteLog s.vol p (fatPayload s3 p c) ++ s3.dev.wlog ∧
                s4.dev.disk = fatDisk s.vol s3.dev.disk p (fatPayload s3 p c)
  disk' : s'.dev.disk = s4.dev.disk
  wlog' : s'.dev.wlog = s4.dev.wlog
  hn' : NoFault s'
  hc' : Coherent s'
  vol' : ∃ nf, s'.vol = setHint nf s.vol ∧ (nf = none ∨ ∃ n, nf = some n ∧ (c ≤ n ∨ 2 ≤ n) ∧ n < endCluster s.vol)

/-- Forward: when the pick succeeds, the whole allocation succeeds, step by step. -/
theorem alloc_forward (s : FS) (prev : Option Nat) (zero : Bool) (c : Nat) (hn : NoFault s) (hc : Coherent s)
    (hp : pick s.vol s.dev.disk = some c) : ∃ sZ s3 s4 s', AllocChain s sZ s3 s4 s' prev zero c := by
  obtain ⟨s1, h1, ro1, hn1, hc1⟩ := allocPick_eq s hn hc
  rw [hp] at h1
  obtain ⟨sZ, h2, hnZ, hcZ, volZ, wlogZ, okZ⟩ := zeroStep_eq s.vol zero c s1 hn1 hc1
  obtain ⟨s3, h3, hc3, hn3, vol3, wlog3, disk3⟩ := updateFat_eq' sZ c Gen.CLUSTER_END_OF_FILE hnZ hcZ
  have hl : ∃ s4, linkStep prev c s3 = (.ok (), s4) ∧ NoFault s4 ∧ Coherent s4 ∧ s4.vol = s3.vol ∧
      (match prev with
        | none => s4 = s3
        | some p => s4.dev.wlog = fatWriteLog s3.vol p (fatPayload s3 p c) ++ s3.dev.wlog ∧
                    s4.dev.disk = fatDisk s3.vol s3.dev.disk p (fatPayload s3 p c)) := by
    unfold linkStep
    cases prev with
    | none => exact ⟨s3, rfl, hn3, hc3, rfl, rfl⟩
    | some p =>
      obtain ⟨s4, h, a, b, e, f, g⟩ := updateFat_eq' s3 p c hn3 hc3
      exact ⟨s4, h, b, a, e, f, g⟩
  obtain ⟨s4, h4, hn4, hc4, vol4, link⟩ := hl
  obtain ⟨nf, s5, h5, ro5, hn5, hc5, hint⟩ := allocHint_eq s.vol c s4 hn4 hc4
  have e3 : s3.vol = s.vol := vol3.trans (volZ.trans ro1.vol)
  have e4 : s4.vol = s.vol := vol4.trans e3
  refine ⟨sZ, s3, s4, { s5 with vol := setHint nf s5.vol },
    { run := alloc_of_steps s s1 sZ s3 s4 s5 prev zero c nf h1 h2 h3 h4 h5
      picked := hp
      hnZ := hnZ, hcZ := hcZ, volZ := volZ.trans ro1.vol
      wlogZ := by rw [wlogZ, ro1.wlog]; rfl
      okZ := fun hb => okZ (by rw [ro1.disk]; exact hb)
      hn3 := hn3, hc3 := hc3, vol3 := e3
      wlog3 := by rw [wlog3, volZ, ro1.vol]
      disk3 := by rw [disk3, volZ, ro1.vol]
      hn4 := hn4, hc4 := hc4, vol4 := e4
      link := by
        cases prev with
        | none => exact link
        | some p => rw [e3] at link; exact link
      disk' := ro5.disk, wlog' := ro5.wlog, hn' := hn5
      hc' := hc5
      vol' := ⟨nf, by show setHint nf s5.vol = _; rw [ro5.vol, e4], hint⟩ }⟩

/-- The outcome of an allocation is decided by the pure pick. -/
theorem alloc_none (s : FS) (prev : Option Nat) (zero : Bool) (hn : NoFault s) (hc : Coherent s)
    (hp : pick s.vol s.dev.disk = none) :
    (allocCluster prev zero s).1 = .err .NotEnoughSpace ∧ (allocCluster prev zero s).2.dev.wlog = s.dev.wlog := by
  obtain ⟨s1, h1, ro1, _, _⟩ := allocPick_eq s hn hc
  rw [hp] at h1
  rw [allocCluster_seq, bind_err h1]
  exact ⟨rfl, ro1.wlog⟩

/-- Inversion: a successful allocation went through the chain. -/
theorem alloc_chain (s s' : FS) (prev : Option Nat) (zero : Bool) (c : Nat) (hn : NoFault s) (hc : Coherent s)
    (h : allocCluster prev zero s = (.ok c, s')) : ∃ sZ s3 s4, AllocChain s sZ s3 s4 s' prev zero c := by
  cases hp : pick s.vol s.dev.disk with
  | none =>
    have := (alloc_none s prev zero hn hc hp).1
    rw [h] at this
    cases this
  | some c' =>
    obtain ⟨sZ, s3, s4, s'', ch⟩ := alloc_forward s prev zero c' hn hc hp
    have := ch.run
    rw [h] at this
    have e1 : c = c' := Res.ok.inj (congrArg Prod.fst this)
    have e2 : s' = s'' := congrArg Prod.snd this
    subst e1; subst e2
    exact ⟨sZ, s3, s4, ch⟩

theorem alloc_hint_in_range (s s' : FS) (prev : Option Nat) (zero : Bool) (c : Nat)
    (hn : NoFault s) (hc : Coherent s) (hh : ∀ n, s.vol.nextFreeCluster = some n → 2 ≤ n)
    (h : allocCluster prev zero s = (.ok c, s')) :
    s'.vol.nextFreeCluster = none ∨ ∃ n, s'.vol.nextFreeCluster = some n ∧ 2 ≤ n ∧ n < endCluster s.vol := by
  obtain ⟨sZ, s3, s4, ch⟩ := alloc_chain s s' prev zero c hn hc h
  obtain ⟨hc2, _, _⟩ := pick_some s.vol s.dev.disk c hh ch.picked
  obtain ⟨nf, hv, hint⟩ := ch.vol'
  rw [hv]
  show nf = none ∨ ∃ n, nf = some n ∧ _
  rcases hint with h0 | ⟨n, h1, h2, h3⟩
  · exact .inl h0
  · exact .inr ⟨n, h1, by omega, h3⟩

theorem alloc_in_range_and_free (s s' : FS) (prev : Option Nat) (zero : Bool) (c : Nat)
    (hn : NoFault s) (hc : Coherent s) (hh : HintOK s.vol) (h : allocCluster prev zero s = (.ok c, s')) :
    2 ≤ c ∧ c < endCluster s.vol ∧ entryOnDisk s.vol s.dev.disk c = 0 := by
  obtain ⟨sZ, s3, s4, ch⟩ := alloc_chain s s' prev zero c hn hc h
  exact pick_some s.vol s.dev.disk c hh ch.picked

theorem alloc_succeeds_if_free (s : FS) (prev : Option Nat) (zero : Bool) (hn : NoFault s) (hc : Coherent s) (hh : HintOK s.vol)
    (hfree : ∃ c, 2 ≤ c ∧ c < endCluster s.vol ∧ entryOnDisk s.vol s.dev.disk c = 0) :
    ∃ c s', allocCluster prev zero s = (.ok c, s') := by
  cases hp : pick s.vol s.dev.disk with
  | none =>
    obtain ⟨c, h1, h2, h3⟩ := hfree
    exact absurd h3 (pick_none s.vol s.dev.disk hh hp c h1 h2)
  | some c =>
    obtain ⟨sZ, s3, s4, s', ch⟩ := alloc_forward s prev zero c hn hc hp
    exact ⟨c, s', ch.run⟩

theorem alloc_fails_if_full (s : FS) (prev : Option Nat) (zero : Bool) (hn : NoFault s) (hc : Coherent s) (hh : HintOK s.vol)
    (hfull : ∀ c, 2 ≤ c → c < endCluster s.vol → entryOnDisk s.vol s.dev.disk c ≠ 0) :
    (allocCluster prev zero s).1 = .err .NotEnoughSpace ∧ (allocCluster prev zero s).2.dev.wlog = s.dev.wlog := by
  cases hp : pick s.vol s.dev.disk with
  | none => exact alloc_none s prev zero hn hc hp
  | some c =>
    obtain ⟨h1, h2, h3⟩ := pick_some s.vol s.dev.disk c hh hp
    exact absurd h3 (hfull c h1 h2)

/-! #### Order of the writes -/

theorem writesOf_append (s s' : FS) (new : List (Nat × Block)) (h : s'.dev.wlog = new ++ s.dev.wlog) :
    writesOf s s' = (new.map (·.1)).reverse := by
  unfold writesOf
  rw [h, List.length_append, Nat.add_sub_cancel, List.take_left' rfl]

theorem zeroLog_idx (v : FatVolume) (zero : Bool) (c : Nat) :
    ((zeroLog v zero c).map (·.1)).reverse =
      if zero then (List.range v.blocksPerCluster).map (fun j => clusterToBlock v c + j) else [] := by
  unfold zeroLog
  cases zero
  · rfl
  · simp only [if_true, List.map_reverse, List.reverse_reverse, List.map_map]
    rfl

theorem alloc_order (s s' : FS) (prev : Option Nat) (zero : Bool) (c : Nat) (hn : NoFault s) (hc : Coherent s)
    (h : allocCluster prev zero s = (.ok c, s')) :
    writesOf s s' =
      (if zero then (List.range s.vol.blocksPerCluster).map (fun j => clusterToBlock s.vol c + j) else []) ++
      fatWrites s.vol c ++ (match prev with | some p => fatWrites s.vol p | none => []) := by
  obtain ⟨sZ, s3, s4, ch⟩ := alloc_chain s s' prev zero c hn hc h
  cases prev with
  | none =>
    have e : s4 = s3 := ch.link
    rw [writesOf_append s s' (fatWriteLog s.vol c (fatPayload sZ c Gen.CLUSTER_END_OF_FILE) ++ zeroLog s.vol zero c)
      (by rw [ch.wlog', e, ch.wlog3, ch.wlogZ, List.append_assoc])]
    rw [List.map_append, List.reverse_append, fatWriteLog_idx, zeroLog_idx, List.append_nil]
  | some p =>
    have e := ch.link
    simp only at e
    rw [writesOf_append s s' (fatWriteLog s.vol p (fatPayload s3 p c) ++
        (fatWriteLog s.vol c (fatPayload sZ c Gen.CLUSTER_END_OF_FILE) ++ zeroLog s.vol zero c))
      (by rw [ch.wlog', e.1, ch.wlog3, ch.wlogZ, List.append_assoc, List.append_assoc])]
    rw [List.map_append, List.reverse_append, List.map_append, List.reverse_append, fatWriteLog_idx, fatWriteLog_idx,
      zeroLog_idx]


/-! #### The FAT after an allocation -/

theorem lt_bound (v : FatVolume) (hg : WFGeom v) (c : Nat) (hc : c < endCluster v) :
    c < (match v.fatType with | .fat16 => 0xFFF7 | .fat32 => 0x0FFFFFF7) := by
  have := hg.count_bound
  cases hft : v.fatType <;> rw [hft] at this <;> simp only at this ⊢ <;> omega

/-- Statement of `Props/C10.alloc_final_fat` with the hypothesis it needs: the predecessor is not
the cluster being allocated (otherwise the link overwrites the end-of-chain mark). -/
theorem alloc_final_fat (s s' : FS) (prev : Option Nat) (zero : Bool) (c : Nat) (hn : NoFault s) (hc : Coherent s)
    (hb : ∀ i, (s.dev.disk.get i).length = 512) (hg : WFGeom s.vol) (hh : ∀ n, s.vol.nextFreeCluster = some n → 2 ≤ n)
    (hpc : prev ≠ some c)
    (h : allocCluster prev zero s = (.ok c, s')) :
    decodeNext s.vol.fatType (rawFatEntry s.vol.fatType (s'.dev.disk.get (fatBlock s.vol c)) (fatEntOffset s.vol c)) = .err .EndOfFile ∧
    (∀ p, prev = some p → p ≠ c → p < endCluster s.vol →
      decodeNext s.vol.fatType (rawFatEntry s.vol.fatType (s'.dev.disk.get (fatBlock s.vol p)) (fatEntOffset s.vol p)) = .ok c) := by
  obtain ⟨sZ, s3, s4, ch⟩ := alloc_chain s s' prev zero c hn hc h
  obtain ⟨hc2, hcE, _⟩ := pick_some s.vol s.dev.disk c hh ch.picked
  have hbZ : BlocksOK sZ.dev.disk := ch.okZ hb
  -- the payload of the first FAT update
  have hp1 : fatPayload sZ c Gen.CLUSTER_END_OF_FILE =
      patchFatBlock s.vol.fatType (sZ.dev.disk.get (fatBlock s.vol c)) (fatEntOffset s.vol c) Gen.CLUSTER_END_OF_FILE := by
    unfold fatPayload; rw [ch.volZ]
  have hl1 : (fatPayload sZ c Gen.CLUSTER_END_OF_FILE).length = 512 := fatPayload_length sZ c _ hbZ
  have hb3 : BlocksOK s3.dev.disk := by rw [ch.disk3]; exact fatDisk_blocksOK _ _ _ _ hbZ hl1
  have key1 : decodeNext s.vol.fatType (rawFatEntry s.vol.fatType (fatPayload sZ c Gen.CLUSTER_END_OF_FILE)
      (fatEntOffset s.vol c)) = .err .EndOfFile := by
    rw [hp1]
    exact (FatLens.decode_after_patch s.vol.fatType _ _ (hbZ _) (FatLens.fatEntOffset_le s.vol c)).1
  have get3 : s3.dev.disk.get (fatBlock s.vol c) = fatPayload sZ c Gen.CLUSTER_END_OF_FILE := by
    rw [ch.disk3, fatDisk_get, if_pos (fatBlock_mem_fatWrites _ _)]
  cases prev with
  | none =>
    have e : s4 = s3 := ch.link
    refine ⟨?_, fun p hp => by cases hp⟩
    rw [ch.disk', e, get3]
    exact key1
  | some p =>
    have hne : p ≠ c := fun e => hpc (by rw [e])
    have e := ch.link
    simp only at e
    have hq : fatPayload s3 p c =
        patchFatBlock s.vol.fatType (s3.dev.disk.get (fatBlock s.vol p)) (fatEntOffset s.vol p) c := by
      unfold fatPayload; rw [ch.vol3]
    constructor
    · rw [ch.disk', e.2, fatDisk_get]
      by_cases hmem : fatBlock s.vol c ∈ fatWrites s.vol p
      · rw [if_pos hmem]
        have hbe : fatBlock s.vol c = fatBlock s.vol p := by
          unfold fatWrites at hmem
          rcases List.mem_cons.mp hmem with h1 | h1
          · exact h1
          · cases hb2 : fatBlock2 s.vol p with
            | none => rw [hb2] at h1; cases h1
            | some b2 =>
              rw [hb2] at h1
              exact absurd (List.mem_singleton.mp h1) (fatBlock_ne_fatBlock2 s.vol hg c p b2 hcE hb2)
        rw [hq, ← hbe, get3,
          FatLens.patch_get_other s.vol.fatType _ (fatEntOffset s.vol p) (fatEntOffset s.vol c) c hl1
            (FatLens.fatEntOffset_le s.vol p) (FatLens.fatEntOffset_disjoint s.vol p c hne hbe.symm)]
        exact key1
      · rw [if_neg hmem, get3]
        exact key1
    · intro p' hp' _ _
      cases hp'
      rw [ch.disk', e.2, fatDisk_get, if_pos (fatBlock_mem_fatWrites _ _), hq]
      exact FatLens.decode_after_patch_link s.vol.fatType _ _ c hc2 (lt_bound s.vol hg c hcE) (hb3 _)
        (FatLens.fatEntOffset_le s.vol p)

/-! ### `writeEntryToDisk` -/

theorem serialize_length (ft : FatType) (e : DirEntry) (hname : e.name.length = 11) :
    (DirEntry.serialize ft e).length = 32 := by
  unfold DirEntry.serialize
  cases ft <;>
    simp [hname, zeros, leU16, leU32, Timestamp.serializeToFat, List.length_take]

theorem writeEntryToDisk_writes (s : FS) (e : DirEntry) (hn : NoFault s) (hc : Coherent s)
    (hl : (s.dev.disk.get e.entryBlock).length = 512) (ho : e.entryOffset + 32 ≤ 512) (hname : e.name.length = 11) :
    let s' := (writeEntryToDisk e s).2
    (writeEntryToDisk e s).1 = .ok () ∧ Coherent s' ∧ NoFault s' ∧ s'.vol = s.vol ∧
    ∃ p, s'.dev.wlog = (e.entryBlock, p) :: s.dev.wlog ∧ s'.dev.disk = s.dev.disk.set e.entryBlock p ∧ p.length = 512 ∧
      (∀ i, i < e.entryOffset ∨ e.entryOffset + 32 ≤ i → p.getD i 0 = (s.dev.disk.get e.entryBlock).getD i 0) ∧
      slice p e.entryOffset 32 = e.serialize s.vol.fatType := by
  have hser := serialize_length s.vol.fatType e hname
  have hfit : e.entryOffset + (DirEntry.serialize s.vol.fatType e).length ≤ (s.dev.disk.get e.entryBlock).length := by
    rw [hser, hl]; exact ho
  unfold writeEntryToDisk
  simp only [bind_apply, getVol_apply, cacheRead_eq' _ _ hn hc, cacheModify_apply, afterRead_cache]
  generalize hs1 : ({
      dev := (afterRead e.entryBlock s).dev,
      cache := {
        tag := some e.entryBlock,
        blk := splice (s.dev.disk.get e.entryBlock) e.entryOffset (DirEntry.serialize s.vol.fatType e) },
      vol := (afterRead e.entryBlock s).vol } : FS) = s1
  have htag : s1.cache.tag = some e.entryBlock := by subst hs1; rfl
  have hblk : s1.cache.blk = splice (s.dev.disk.get e.entryBlock) e.entryOffset (DirEntry.serialize s.vol.fatType e) := by
    subst hs1; rfl
  have hn1 : NoFault s1 := by subst hs1; exact hn
  have hd1 : s1.dev.disk = s.dev.disk := by subst hs1; rfl
  have hw1 : s1.dev.wlog = s.dev.wlog := by subst hs1; rfl
  have hv1 : s1.vol = s.vol := by subst hs1; rfl
  refine ⟨writeBack_fst s1 _ hn1 htag, writeBack_coherent s1 _ hn1 htag, writeBack_noFault s1 _ hn1 htag,
    (writeBack_vol s1).trans hv1, s1.cache.blk, ?_, ?_, ?_, ?_, ?_⟩
  · rw [writeBack_wlog s1 _ hn1 htag, hw1]
  · rw [writeBack_disk s1 _ hn1 htag, hd1]
  · rw [hblk, FatLens.splice_length _ _ _ hfit, hl]
  · intro i hi
    rw [hblk]
    exact FatLens.splice_getD_outside _ _ _ i hfit (by rw [hser]; exact hi)
  · rw [hblk]
    have := FatLens.slice_splice (s.dev.disk.get e.entryBlock) (DirEntry.serialize s.vol.fatType e) e.entryOffset hfit
    rw [hser] at this
    exact this

/-! ### `updateInfoSector` -/

/-- What `update_info_sector` does to the info block. -/
def infoPatch (v : FatVolume) (b : Block) : Block :=
  let b1 := match v.freeClustersCount with
    | some c => splice b Gen.INFO_WRITE_FREE_LO (leU32 c)
    | none => b
  match v.nextFreeCluster with
  | some c => splice b1 Gen.INFO_WRITE_NEXT_LO (leU32 c)
  | none => b1

theorem updateInfoSector_run32 (s : FS) (hn : NoFault s) (hc : Coherent s) (hft : s.vol.fatType = .fat32)
    (hne : ¬ (s.vol.freeClustersCount = none ∧ s.vol.nextFreeCluster = none)) :
    (updateInfoSector s).1 = .ok () ∧
    (updateInfoSector s).2.dev.wlog =
      (s.vol.infoLocation, infoPatch s.vol (s.dev.disk.get s.vol.infoLocation)) :: s.dev.wlog := by
  unfold updateInfoSector infoPatch
  simp only [bind_apply, getVol_apply, hft]
  cases hf : s.vol.freeClustersCount <;> cases hnf : s.vol.nextFreeCluster
  · exact absurd ⟨hf, hnf⟩ hne
  all_goals
    simp only [ite_apply, Option.isNone_none, Option.isNone_some, Bool.false_eq_true, and_false, false_and, if_false,
      bind_apply, cacheRead_eq' _ _ hn hc, cacheModify_apply, pure_apply, afterRead_cache]
    exact ⟨writeBack_fst _ s.vol.infoLocation hn rfl, writeBack_wlog _ s.vol.infoLocation hn rfl⟩

theorem updateInfoSector_idle (s : FS)
    (h : s.vol.fatType = .fat16 ∨ (s.vol.freeClustersCount = none ∧ s.vol.nextFreeCluster = none)) :
    updateInfoSector s = (.ok (), s) := by
  unfold updateInfoSector
  simp only [bind_apply, getVol_apply]
  cases hft : s.vol.fatType with
  | fat16 => rfl
  | fat32 =>
    rcases h with h | ⟨h1, h2⟩
    · rw [hft] at h; cases h
    · simp only [ite_apply, h1, h2, Option.isNone_none, and_self, if_true, pure_apply]

theorem infoPatch_facts (v : FatVolume) (b : Block) (hl : b.length = 512) :
    (infoPatch v b).length = 512 ∧
    (∀ i, i < 488 ∨ 496 ≤ i → (infoPatch v b).getD i 0 = b.getD i 0) ∧
    (∀ n, v.freeClustersCount = some n → n < 4294967296 → readU32 (infoPatch v b) 488 = n) ∧
    (∀ n, v.nextFreeCluster = some n → n < 4294967296 → readU32 (infoPatch v b) 492 = n) := by
  cases hf : v.freeClustersCount with
  | none =>
    cases hnf : v.nextFreeCluster with
    | none =>
      have e : infoPatch v b = b := by unfold infoPatch; rw [hf, hnf]
      rw [e]
      exact ⟨hl, fun _ _ => rfl, (fun n h => by cases h), (fun n h => by cases h)⟩
    | some m =>
      have e : infoPatch v b = splice b 492 (leU32 m) := by unfold infoPatch; rw [hf, hnf]; rfl
      rw [e]
      have hfit : 492 + (leU32 m).length ≤ b.length := by rw [hl]; exact (by decide : 492 + 4 ≤ 512)
      refine ⟨by rw [FatLens.splice_length _ _ _ hfit, hl], fun i hi => ?_, (fun n h => by cases h), fun n h hlt => ?_⟩
      · exact FatLens.splice_getD_outside _ _ _ i hfit (by rw [FatLens.leU32_length]; omega)
      · have hmn : m = n := Option.some.inj h
        subst hmn
        exact FatLens.readU32_splice_leU32 b 492 m (by omega) hlt
  | some k =>
    have hfit : 488 + (leU32 k).length ≤ b.length := by rw [hl]; exact (by decide : 488 + 4 ≤ 512)
    have hl1 : (splice b 488 (leU32 k)).length = 512 := by rw [FatLens.splice_length _ _ _ hfit, hl]
    cases hnf : v.nextFreeCluster with
    | none =>
      have e : infoPatch v b = splice b 488 (leU32 k) := by unfold infoPatch; rw [hf, hnf]; rfl
      rw [e]
      refine ⟨hl1, fun i hi => ?_, fun n h hlt => ?_, (fun n h => by cases h)⟩
      · exact FatLens.splice_getD_outside _ _ _ i hfit (by rw [FatLens.leU32_length]; omega)
      · have hkn : k = n := Option.some.inj h
        subst hkn
        exact FatLens.readU32_splice_leU32 b 488 k (by omega) hlt
    | some m =>
      have e : infoPatch v b = splice (splice b 488 (leU32 k)) 492 (leU32 m) := by
        unfold infoPatch; rw [hf, hnf]; rfl
      rw [e]
      generalize hb1 : splice b 488 (leU32 k) = b1 at hl1 ⊢
      have hfit2 : 492 + (leU32 m).length ≤ b1.length := by
        rw [hl1]; exact (by decide : 492 + 4 ≤ 512)
      refine ⟨by rw [FatLens.splice_length _ _ _ hfit2, hl1], fun i hi => ?_, fun n h hlt => ?_, fun n h hlt => ?_⟩
      · rw [FatLens.splice_getD_outside _ _ _ i hfit2 (by rw [FatLens.leU32_length]; omega), ← hb1]
        exact FatLens.splice_getD_outside _ _ _ i hfit (by rw [FatLens.leU32_length]; omega)
      · have hkn : k = n := Option.some.inj h
        subst hkn
        rw [FatLens.readU32_splice_other _ _ 492 488 hfit2 (by rw [FatLens.leU32_length]; omega), ← hb1]
        exact FatLens.readU32_splice_leU32 b 488 k (by omega) hlt
      · have hmn : m = n := Option.some.inj h
        subst hmn
        exact FatLens.readU32_splice_leU32 b1 492 m (by omega) hlt

theorem updateInfoSector_writes (s : FS) (hn : NoFault s) (hc : Coherent s) (hb : BlocksOK s.dev.disk) :
    let s' := (updateInfoSector s).2
    (updateInfoSector s).1 = .ok () ∧
    (s.vol.fatType = .fat16 ∨ (s.vol.freeClustersCount = none ∧ s.vol.nextFreeCluster = none) → s'.dev.wlog = s.dev.wlog) ∧
    (s.vol.fatType = .fat32 → ¬ (s.vol.freeClustersCount = none ∧ s.vol.nextFreeCluster = none) →
      ∃ p, s'.dev.wlog = (s.vol.infoLocation, p) :: s.dev.wlog ∧ p.length = 512 ∧
        (∀ i, i < 488 ∨ 496 ≤ i → p.getD i 0 = (s.dev.disk.get s.vol.infoLocation).getD i 0) ∧
        (∀ n, s.vol.freeClustersCount = some n → n < 4294967296 → readU32 p 488 = n) ∧
        (∀ n, s.vol.nextFreeCluster = some n → n < 4294967296 → readU32 p 492 = n)) := by
  intro s'
  have third : s.vol.fatType = .fat32 → ¬ (s.vol.freeClustersCount = none ∧ s.vol.nextFreeCluster = none) →
      ∃ p, s'.dev.wlog = (s.vol.infoLocation, p) :: s.dev.wlog ∧ p.length = 512 ∧
        (∀ i, i < 488 ∨ 496 ≤ i → p.getD i 0 = (s.dev.disk.get s.vol.infoLocation).getD i 0) ∧
        (∀ n, s.vol.freeClustersCount = some n → n < 4294967296 → readU32 p 488 = n) ∧
        (∀ n, s.vol.nextFreeCluster = some n → n < 4294967296 → readU32 p 492 = n) := by
    intro hft hne
    obtain ⟨a, b, c, d⟩ := infoPatch_facts s.vol (s.dev.disk.get s.vol.infoLocation) (hb _)
    exact ⟨_, (updateInfoSector_run32 s hn hc hft hne).2, a, b, c, d⟩
  have second : s.vol.fatType = .fat16 ∨ (s.vol.freeClustersCount = none ∧ s.vol.nextFreeCluster = none) →
      s'.dev.wlog = s.dev.wlog := by
    intro h
    show (updateInfoSector s).2.dev.wlog = _
    rw [updateInfoSector_idle s h]
  refine ⟨?_, second, third⟩
  by_cases h : s.vol.fatType = .fat16 ∨ (s.vol.freeClustersCount = none ∧ s.vol.nextFreeCluster = none)
  · rw [updateInfoSector_idle s h]
  · have hft : s.vol.fatType = .fat32 := by
      cases hf : s.vol.fatType with
      | fat16 => exact absurd (.inl hf) h
      | fat32 => rfl
    exact (updateInfoSector_run32 s hn hc hft (fun h' => h (.inr h'))).1


/-! ### The free count is written, never read -/

/-- Two states that differ at most in the in-memory free count. -/
def Sim (s2 s : FS) : Prop :=
  s2.dev = s.dev ∧ s2.cache = s.cache ∧ ∃ n, s2.vol = { s.vol with freeClustersCount := n }

def setFcc (n : Option Nat) (s : FS) : FS := { s with vol := { s.vol with freeClustersCount := n } }

theorem Sim.eq {s2 s : FS} (h : Sim s2 s) : ∃ n, s2 = setFcc n s := by
  obtain ⟨h1, h2, n, h3⟩ := h
  refine ⟨n, ?_⟩
  rcases s2 with ⟨d, c, v⟩
  simp only at h1 h2 h3
  subst h1; subst h2; subst h3
  rfl

theorem Sim.setFcc (n : Option Nat) (s : FS) : Sim (setFcc n s) s := ⟨rfl, rfl, n, rfl⟩

/-- `m` neither reads nor writes the free count (it may read the rest of the record). -/
def FccIndep {α : Type} (m : F α) : Prop := ∀ s2 s, Sim s2 s → (m s2).1 = (m s).1 ∧ Sim (m s2).2 (m s).2

/-- `m` does not look at the volume record at all. -/
def Obliv {α : Type} (m : F α) : Prop := ∀ s n, m (setFcc n s) = ((m s).1, setFcc n (m s).2)

section FccIndep
variable {α β : Type}

theorem Obliv.indep {m : F α} (h : Obliv m) : FccIndep m := by
  intro s2 s hs
  obtain ⟨n, rfl⟩ := hs.eq
  rw [h s n]
  exact ⟨rfl, Sim.setFcc n _⟩

theorem FccIndep.pure (a : α) : FccIndep (pure a : F α) := fun _ _ h => ⟨rfl, h⟩
theorem FccIndep.lift (r : Res α) : FccIndep (F.lift r) := fun _ _ h => ⟨rfl, h⟩
theorem FccIndep.fail (e : Err) : FccIndep (F.fail e : F α) := fun _ _ h => ⟨rfl, h⟩

theorem FccIndep.bind {m : F α} {f : α → F β} (hm : FccIndep m) (hf : ∀ a, FccIndep (f a)) :
    FccIndep (m >>= f) := by
  intro s2 s hs
  obtain ⟨h1, h2⟩ := hm s2 s hs
  rw [bind_apply', bind_apply', h1]
  cases (m s).1 with
  | ok a => exact hf a _ _ h2
  | err e => exact ⟨rfl, h2⟩
  | panic msg => exact ⟨rfl, h2⟩
  | diverged => exact ⟨rfl, h2⟩

theorem FccIndep.attempt {m : F α} (hm : FccIndep m) : FccIndep (F.attempt m) := by
  intro s2 s hs
  obtain ⟨h1, h2⟩ := hm s2 s hs
  rw [attempt_apply, attempt_apply, h1]
  exact ⟨rfl, h2⟩

theorem FccIndep.ite (c : Prop) [Decidable c] {m1 m2 : F α} (h1 : FccIndep m1) (h2 : FccIndep m2) :
    FccIndep (if c then m1 else m2) := by
  split
  · exact h1
  · exact h2

/-- Reading the record is fine as long as the continuation ignores the free count. -/
theorem FccIndep.getVol_bind (f : FatVolume → F α)
    (h1 : ∀ v n, f { v with freeClustersCount := n } = f v) (h2 : ∀ v, FccIndep (f v)) :
    FccIndep (F.getVol >>= f) := by
  intro s2 s hs
  obtain ⟨n, hv⟩ := hs.2.2
  show (f s2.vol s2).1 = (f s.vol s).1 ∧ Sim (f s2.vol s2).2 (f s.vol s).2
  rw [hv, h1]
  exact h2 _ s2 s hs

theorem FccIndep.modifyVol_setHint (nf : Option Nat) : FccIndep (F.modifyVol (setHint nf)) := by
  intro s2 s hs
  obtain ⟨h1, h2, n, h3⟩ := hs
  refine ⟨rfl, h1, h2, n.map (· - 1), ?_⟩
  show setHint nf s2.vol = _
  rw [h3]
  rfl

end FccIndep

theorem devRead_obliv (idx : Nat) : Obliv (devRead idx) := by
  intro s n
  unfold devRead setFcc
  dsimp only
  split <;> rfl

theorem devWrite_obliv (idx : Nat) : Obliv (devWrite idx) := by
  intro s n
  unfold devWrite setFcc
  dsimp only
  split <;> rfl

theorem cacheRead_obliv (idx : Nat) : Obliv (cacheRead idx) := by
  intro s n
  unfold cacheRead
  by_cases ht : s.cache.tag = some idx
  · rw [if_pos ht, if_pos (show (setFcc n s).cache.tag = some idx from ht)]
  · rw [if_neg ht, if_neg (show ¬ (setFcc n s).cache.tag = some idx from ht)]
    have h := devRead_obliv idx { s with cache := { s.cache with tag := none } } n
    show (match devRead idx (setFcc n { s with cache := { s.cache with tag := none } }) with
      | (.ok (), s') => (Res.ok (), { s' with cache := { s'.cache with tag := some idx } })
      | (r, s') => (r, s')) = _
    rw [h]
    rcases devRead idx { s with cache := { s.cache with tag := none } } with ⟨r, s'⟩
    cases r <;> rfl

theorem cacheBlk_obliv : Obliv cacheBlk := fun _ _ => rfl
theorem cacheModify_obliv (f : Block → Block) : Obliv (cacheModify f) := fun _ _ => rfl
theorem blankMut_obliv (idx : Nat) : Obliv (blankMut idx) := fun _ _ => rfl

theorem writeBack_obliv : Obliv writeBack := by
  intro s n
  unfold writeBack
  cases ht : s.cache.tag with
  | none =>
    have : (setFcc n s).cache.tag = none := ht
    rw [this]
  | some idx =>
    have : (setFcc n s).cache.tag = some idx := ht
    rw [this]
    dsimp only
    rw [devWrite_obliv idx s n]
    rcases devWrite idx s with ⟨r, s'⟩
    cases r <;> rfl

theorem writeBackWithDuplicate_obliv (dup : Nat) : Obliv (writeBackWithDuplicate dup) := by
  intro s n
  unfold writeBackWithDuplicate
  cases ht : s.cache.tag with
  | none =>
    have : (setFcc n s).cache.tag = none := ht
    rw [this]
  | some idx =>
    have : (setFcc n s).cache.tag = some idx := ht
    rw [this]
    simp only
    rw [devWrite_obliv idx s n]
    rcases devWrite idx s with ⟨r, s'⟩
    cases r with
    | ok u =>
      dsimp only
      rw [devWrite_obliv dup s' n]
      rcases devWrite dup s' with ⟨r2, s2⟩
      cases r2 <;> rfl
    | err e => rfl
    | panic m => rfl
    | diverged => rfl

theorem updateFat_indep (c val : Nat) : FccIndep (updateFat c val) := by
  unfold updateFat
  refine FccIndep.getVol_bind _ (fun v n => rfl) fun v => ?_
  refine FccIndep.bind (cacheRead_obliv _).indep fun _ => ?_
  refine FccIndep.bind (cacheModify_obliv _).indep fun _ => ?_
  cases fatBlock2 v c with
  | none => exact writeBack_obliv.indep
  | some b2 => exact (writeBackWithDuplicate_obliv b2).indep

theorem findNextFreeCluster_indep (fuel cur endC : Nat) : FccIndep (findNextFreeCluster fuel cur endC) := by
  induction fuel generalizing cur with
  | zero => unfold findNextFreeCluster; exact FccIndep.fail _
  | succ fuel ih =>
    unfold findNextFreeCluster
    refine FccIndep.ite _ (FccIndep.fail _) ?_
    refine FccIndep.getVol_bind _ (fun v n => rfl) fun v => ?_
    refine FccIndep.bind (cacheRead_obliv _).indep fun _ => ?_
    refine FccIndep.bind cacheBlk_obliv.indep fun blk => ?_
    exact FccIndep.ite _ (FccIndep.pure _) (ih _)

theorem findNextFree_indep (start endC : Nat) : FccIndep (findNextFree start endC) :=
  findNextFreeCluster_indep _ _ _

theorem zeroBlocks_indep (n first : Nat) : FccIndep (zeroBlocks n first) := by
  induction n generalizing first with
  | zero => unfold zeroBlocks; exact FccIndep.pure _
  | succ n ih =>
    unfold zeroBlocks
    refine FccIndep.bind (blankMut_obliv _).indep fun _ => ?_
    exact FccIndep.bind writeBack_obliv.indep fun _ => ih _

theorem allocPick_indep (v : FatVolume) : FccIndep (allocPick v) := by
  unfold allocPick
  refine FccIndep.bind (FccIndep.attempt (findNextFree_indep _ _)) fun r => ?_
  cases r with
  | ok c => exact FccIndep.pure c
  | err e =>
    cases e
    case NotEnoughSpace => exact FccIndep.ite _ (findNextFree_indep _ _) (FccIndep.fail _)
    all_goals exact FccIndep.lift _
  | panic m => exact FccIndep.lift _
  | diverged => exact FccIndep.lift _

theorem allocHint_indep (v : FatVolume) (a : Nat) : FccIndep (allocHint v a) := by
  unfold allocHint
  refine FccIndep.bind (FccIndep.attempt (findNextFree_indep _ _)) fun r => ?_
  cases r with
  | ok c => exact FccIndep.pure _
  | err e =>
    cases e
    case NotEnoughSpace =>
      refine FccIndep.ite _ ?_ (FccIndep.pure _)
      refine FccIndep.bind (FccIndep.attempt (findNextFree_indep _ _)) fun r => ?_
      cases r with
      | ok c => exact FccIndep.pure _
      | err e =>
        cases e
        case NotEnoughSpace => exact FccIndep.pure _
        all_goals exact FccIndep.lift _
      | panic m => exact FccIndep.lift _
      | diverged => exact FccIndep.lift _
    all_goals exact FccIndep.lift _
  | panic m => exact FccIndep.lift _
  | diverged => exact FccIndep.lift _

theorem allocTail_indep (v : FatVolume) (prev : Option Nat) (zero : Bool) (c : Nat) :
    FccIndep (allocTail v prev zero c) := by
  unfold allocTail
  refine FccIndep.bind ?_ fun _ => FccIndep.bind (updateFat_indep _ _) fun _ => FccIndep.bind ?_ fun _ =>
    FccIndep.bind (allocHint_indep _ _) fun nf => FccIndep.bind (FccIndep.modifyVol_setHint nf) fun _ => FccIndep.pure _
  · unfold zeroStep
    cases zero
    · exact FccIndep.pure _
    · exact zeroBlocks_indep _ _
  · unfold linkStep
    cases prev
    · exact FccIndep.pure _
    · exact updateFat_indep _ _

theorem allocCluster_indep (prev : Option Nat) (zero : Bool) : FccIndep (allocCluster prev zero) := by
  have e : allocCluster prev zero = (F.getVol >>= fun v => allocPick v >>= allocTail v prev zero) := by
    funext s
    exact allocCluster_seq prev zero s
  rw [e]
  exact FccIndep.getVol_bind _ (fun v n => rfl) fun v =>
    FccIndep.bind (allocPick_indep v) fun c => allocTail_indep v prev zero c

theorem alloc_count_noninterference (s : FS) (prev : Option Nat) (zero : Bool) (n : Option Nat) :
    let s2 : FS := { s with vol := { s.vol with freeClustersCount := n } }
    (allocCluster prev zero s2).1 = (allocCluster prev zero s).1 ∧
    (allocCluster prev zero s2).2.dev = (allocCluster prev zero s).2.dev ∧
    (allocCluster prev zero s2).2.cache = (allocCluster prev zero s).2.cache := by
  intro s2
  obtain ⟨h1, h2, h3, _⟩ := allocCluster_indep prev zero s2 s (Sim.setFcc n s)
  exact ⟨h1, h2, h3⟩

end Sdmmc.Lemmas.FatOps
