/-
Refinement of the API to the abstract file system, part 8b: `write`.
-/
import Sdmmc.Lemmas.AbsFsWriteCore
import Sdmmc.Lemmas.AbsFsFlush

namespace Sdmmc.Lemmas.AbsFs
open Sdmmc.Model Sdmmc.Model.Fat Sdmmc.Spec.Volume Sdmmc.Lemmas.VolBase Sdmmc.Lemmas.VolTree
open Sdmmc.Spec hiding NoFault Coherent
open Sdmmc.Spec.AbsFs (Meta view storedMeta fatRound OpenFile OpenDir absStep)
open Sdmmc.Lemmas.VolDisk Sdmmc.Lemmas.VolMed Sdmmc.Lemmas.VolApi Sdmmc.Lemmas.VolEng
open Sdmmc.Lemmas.FBasic (NoFault Coherent)
open Sdmmc.Lemmas.MHoare

theorem putL_self {α : Type} (l : List α) (i : Nat) (x : α) (h : l[i]? = some x) : putL l i x = l := by
  unfold putL
  have hlt : i < l.length := (List.getElem?_eq_some_iff.1 h).1
  rw [if_pos hlt]
  exact ReadRefines.list_set_self _ _ _ h

theorem fileContent_nil (v : FatVolume) (d : Disk) (n : Nat) : fileContent v d [] n = [] := by
  unfold fileContent chainBytes
  simp

theorem byteFile_write_length (bf : ByteFile) (data : Bytes) (h : bf.pos ≤ bf.bytes.length) :
    (bf.write data).bytes.length = max bf.bytes.length (bf.pos + data.length) := by
  unfold ByteFile.write
  simp only [List.length_append, List.length_take, List.length_drop]
  omega

/-- The index of a slot in the view of its directory is determined by its position. -/
theorem view_index_unique {v : FatVolume} {d : Disk} {files : List FileInfo} {gh : Ghost} {X : List (List Nat)}
    (hM : MedX v d files gh X) {h : Nat} (hh : h ∈ dirIds gh.dirs) {i j : Nat} {o : Slot}
    (hi : (beforeEnd (dirSlots v d gh.G h))[i]? = some o) (hj : (beforeEnd (dirSlots v d gh.G h))[j]? = some o) : i = j := by
  have hnd : ((beforeEnd (dirSlots v d gh.G h)).map spos).Nodup :=
    (dirSlots_pos_nodup hM hh d).sublist ((List.takeWhile_sublist _).map spos)
  have hnd' : (beforeEnd (dirSlots v d gh.G h)).Nodup := List.Nodup.of_map _ hnd
  obtain ⟨hil, hie⟩ := List.getElem?_eq_some_iff.1 hi
  obtain ⟨hjl, hje⟩ := List.getElem?_eq_some_iff.1 hj
  exact (List.Nodup.getElem_inj_iff hnd').1 (hie.trans hje.symm)

theorem writeS_readOnly {a : AState} {h i : Nat} {data : Bytes} {af : OpenFile} (hfo : Spec.AbsFs.fileOf a h = some (i, af))
    (hv : Spec.AbsFs.volOpen a af.volume = true) (hm : af.mode = .ReadOnly) :
    Spec.AbsFs.writeS a h data a (.err .ReadOnly) := by
  unfold Spec.AbsFs.writeS
  rw [hfo]
  simp [hv, hm]

theorem writeS_ok {a : AState} {h i : Nat} {data : Bytes} {af : OpenFile} (hfo : Spec.AbsFs.fileOf a h = some (i, af))
    (hv : Spec.AbsFs.volOpen a af.volume = true) (hm : af.mode ≠ .ReadOnly) {m : Meta} {bytes : Bytes} {k : Nat} {r : Res Payload}
    (hslot : (a.slots af.dir)[af.idx]? = some (.file m bytes)) (hk : k ≤ data.length)
    (hres : (r = .ok .unit ∧ k = data.length) ∨ (r = .err .DiskFull ∧ k < data.length) ∨ (r = .err .NotEnoughSpace ∧ k = 0)) :
    Spec.AbsFs.writeS a h data
      (Spec.AbsFs.setSlot { a with files := a.files.set i { af with pos := af.pos + k, dirty := true, pm := { af.pm with attr := Attr.setArchive af.pm.attr, mtime := a.clock, size := ((⟨bytes, af.pos⟩ : ByteFile).write (data.take k)).bytes.length } } }
        af.dir af.idx (.file m ((⟨bytes, af.pos⟩ : ByteFile).write (data.take k)).bytes)) r := by
  unfold Spec.AbsFs.writeS
  rw [hfo]
  simp only [hv, Bool.not_true, Bool.false_eq_true, if_false, if_neg hm]
  exact ⟨m, bytes, k, hslot, hk, hres, rfl⟩

theorem refines_write (h : Nat) (data : Bytes) {s : Mgr} {gh : Ghost} {a : AState} (hI : VolInv s gh) (hA : Abs s gh a) :
    Refines (.write h data) s gh a := by
  have hl : a.locked = false := hA.locked.trans hI.unlocked
  unfold Refines
  rw [show runOp (.write h data) s = (Model.write h data >>= fun _ => pure Payload.unit) s from rfl, run_seq]
  have hgoal : ∀ (a' : AState) (r : Res Payload), absStep a (.write h data) (a', r) ↔ Spec.AbsFs.writeS a h data a' r := by
    intro a' r
    unfold absStep
    rw [if_neg (by rw [hl]; exact Bool.false_ne_true)]
  cases hidx : s.files.findIdx? (·.rawFile = h) with
  | none =>
    have : Model.write h data s = (.err .BadHandle, s) := by
      unfold Model.write; rw [bind_err (getFileById_bad hidx)]
    rw [this]
    refine ⟨gh, a, hI, SameGeom.refl _, hA, (hgoal a _).2 ?_⟩
    unfold Spec.AbsFs.writeS
    rw [fileOf_none hA hidx]
    exact ⟨rfl, rfl⟩
  | some i =>
    obtain ⟨f, af, hf, haf, hrel, hfo⟩ := fileOf_some hA hidx
    have hfm : f ∈ s.files := List.mem_of_getElem? hf
    obtain ⟨vi, hv, hvol, hrv, _⟩ := vol_of_file hI hfm
    have hvfind : s.vols.findIdx? (·.rawVolume = f.rawVolume) = some 0 := by rw [hv]; simp [hrv]
    have hvopen : Spec.AbsFs.volOpen a af.volume = true := by
      rw [volOpen_abs hA, hrel.volume, hv]; simp [hrv]
    by_cases hmode : f.mode = .ReadOnly
    · rw [WriteRefines.write_readOnly s h i 0 data f hidx hf hvfind hmode]
      exact ⟨gh, a, hI, SameGeom.refl _, hA, (hgoal a _).2 (writeS_readOnly hfo hvopen (by rw [hrel.mode]; exact hmode))⟩
    · obtain ⟨k, r, s', f', v', cs', A, B, hGeq, hrun, hk, hres, heq, hvols', hwf, hI', hsg, habs, hch', hrest, hdir, hblocks,
        htouch, hown', hcs'r, hvid⟩ := write_core_x hI hidx hf hmode data
      rw [hrun]
      set gh' : Ghost := { vol := v'.vol, G := withChain A cs' B, dirs := gh.dirs } with hgh'
      have hM := medX_of_med hI.med
      have hG := med_heads hM
      have hT := hI.med.tree
      have hG' : HeadsOK (withChain A cs' B) := heads_of_owns hown'
      obtain ⟨hok, _⟩ := hI.med.fileOK f hfm
      have hft : v'.vol.fatType = gh.vol.fatType := hsg.fatType
      -- the record
      have hwf' := hwf
      unfold WriteRefines.WriteFile at hwf'
      have e_key : fkey f' = fkey f := by rw [hwf']
      have hfiles' : s'.files = s.files.set i f' := congrArg Mgr.files heq
      have hnd := hT.filesDistinct
      have hilt : i < s.files.length := (List.getElem?_eq_some_iff.1 hf).1
      -- the slot of the file
      obtain ⟨o, ho, hpo, hobj, hkeep, hod, hpend, hslot⟩ := handle_slot hI hA hfm hrel
      have hh := hrel.dirMem
      -- the directories are as they were
      have hslots : ∀ x, x ∈ dirIds gh.dirs → dirSlots v'.vol s'.dev.disk (withChain A cs' B) x = dirSlots gh.vol s.dev.disk gh.G x := by
        intro x hx
        rw [dirSlots_sameGeom hsg]
        have h1 : dirSlots gh.vol s'.dev.disk (withChain A cs' B) x = dirSlots gh.vol s'.dev.disk gh.G x := by
          by_cases hfx : isFixedRoot gh.vol x
          · rw [dirSlots_fixed hfx, dirSlots_fixed hfx]
          · rw [dirSlots_chain hfx, dirSlots_chain hfx, hdir x hx hfx]
        rw [h1]
        exact dirSlots_congr (hblocks x hx)
      have hviews : ∀ x, x ∈ dirIds gh.dirs → DirView s' gh' x = DirView s gh x := by
        intro x hx
        unfold DirView
        exact congrArg beforeEnd (hslots x hx)
      -- the bytes of the other files
      obtain ⟨OA, OB, hOAB⟩ := List.append_of_mem hobj
      have hO : objects af.dir (dirSlots gh.vol s.dev.disk gh.G af.dir) = OA ++ [o] ++ OB := by rw [hOAB]; simp
      have hother_bytes : ∀ x, x ∈ dirIds gh.dirs → ∀ o', o' ∈ objects x (dirSlots gh.vol s.dev.disk gh.G x) → isDirE o' = false →
          spos o' ≠ fkey f → contOf s' gh' o' = contOf s gh o' := by
        intro x hx o' ho' hod' hsp
        unfold contOf contentOf
        have hp : pendOf s'.files o' = pendOf s.files o' := by rw [hfiles']; exact pendOf_set_other hf e_key hsp
        have e1 : effCluster gh'.vol.fatType s'.files o' = effCluster gh.vol.fatType s.files o' := by
          unfold effCluster; rw [hp]; show _ = _; rw [show gh'.vol.fatType = gh.vol.fatType from hft]
        have e2 : effSize s'.files o' = effSize s.files o' := by unfold effSize; rw [hp]
        rw [e1, e2]
        show fileContent v'.vol s'.dev.disk (chainOf (withChain A cs' B) _) _ = _
        rw [WriteRefines.sameGeom_fileContent hsg]
        by_cases hnil : chainOf gh.G (effCluster gh.vol.fatType s.files o') = []
        · have hc0 : effCluster gh.vol.fatType s.files o' = 0 := by
            by_contra hne
            exact (chainOf_ne_nil_iff hG).2 (fileRef_mem_heads hT hx ho' hod' hne) hnil
          rw [hnil, hc0, chainOf_lt_two (h := 0) hG' (by decide), fileContent_nil, fileContent_nil]
        · have hhead := (chainOf_ne_nil_iff hG).1 hnil
          obtain ⟨hmemG, hhd⟩ := chainOf_spec hG hhead
          have hc0 : effCluster gh.vol.fatType s.files o' ≠ 0 := by
            intro e; apply hnil; rw [e]; exact chainOf_lt_two hG (by decide)
          have hne : effCluster gh.vol.fatType s.files o' ≠ f.entry.cluster := by
            have := eff_ne_of_split hT hG hh hO hod x hx o' ho' ?_ hod' hc0
            · rw [effCluster_of_pend hpend] at this; exact this
            · intro exh
              subst exh
              have hm : o' ∈ OA ++ [o] ++ OB := by rw [← hO]; exact ho'
              simp only [List.mem_append, List.mem_singleton] at hm ⊢
              rcases hm with (h1 | h1) | h1
              · exact .inl h1
              · exact absurd (h1 ▸ hpo) hsp
              · exact .inr h1
          obtain ⟨hmAB, hce⟩ := hrest _ _ hmemG hhd hne
          rw [hce]
          unfold fileContent
          rw [(WriteRefines.touch_other_chain hI.med.geom htouch hcs'r (fun y hy => med_inRange hM hmemG hy)
            (WriteRefines.withChain_disjoint hown' hmAB)).2]
      -- the bytes of the written file
      have hpend' : pendOf s'.files o = some f' := by
        rw [hfiles']
        refine (pendOf_some_iff (by rw [VolTree.map_fkey_set hf e_key]; exact hnd) o f').2 ⟨?_, by rw [e_key]; exact hpo.symm⟩
        exact List.mem_iff_getElem?.2 ⟨i, List.getElem?_set_self hilt⟩
      have hnewbytes : contOf s' gh' o =
          ((absFile gh.vol s.dev.disk f (chainOf gh.G f.entry.cluster)).write (data.take k)).bytes := by
        unfold contOf
        rw [contentOf_open hpend']
        show fileContent v'.vol s'.dev.disk (chainOf (withChain A cs' B) f'.entry.cluster) f'.entry.size = _
        rw [hch', ← habs]
        rfl
      -- the abstract state
      set bf : ByteFile := ⟨fileContent gh.vol s.dev.disk (chainOf gh.G f.entry.cluster) f.entry.size, af.pos⟩ with hbf
      have hbfabs : bf = absFile gh.vol s.dev.disk f (chainOf gh.G f.entry.cluster) := by
        rw [hbf, hrel.pos]; rfl
      set af' : OpenFile := { af with pos := af.pos + k, dirty := true, pm := { af.pm with attr := Attr.setArchive af.pm.attr, mtime := a.clock, size := (bf.write (data.take k)).bytes.length } } with haf'
      have hklen : (data.take k).length = k := by rw [List.length_take]; omega
      have hblen : bf.bytes.length = f.entry.size :=
        ChainL.fileContent_length gh.vol s.dev.disk _ _ hI.med.blocksOK hok.size_fits
      have hcont : ∀ x, x ∈ dirIds gh.dirs → ∀ j o', (DirView s gh x)[j]? = some o' → (x = af.dir → j ≠ af.idx) →
          absSlot gh'.vol.fatType (contOf s' gh') o' = absSlot gh.vol.fatType (contOf s gh) o' := by
        intro x hx j o' ho' hne
        rw [show gh'.vol.fatType = gh.vol.fatType from hft]
        apply absSlot_cont_congr
        intro hk' hd'
        have hobj' := view_object hM hx (List.mem_of_getElem? ho') hk' hd'
        refine hother_bytes x hx o' hobj' hd' fun hsp => ?_
        obtain ⟨hxe, hoe⟩ := slot_unique hM hx hh (mem_of_beforeEnd_getElem? ho') (mem_of_beforeEnd_getElem? ho) (hsp.trans hpo.symm)
        subst hxe
        subst hoe
        exact hne rfl (view_index_unique hM hx ho' ho)
      have hview : DirView s' gh' af.dir = putL (DirView s gh af.dir) af.idx o := by
        rw [hviews _ hh]
        exact (putL_self _ _ _ ho).symm
      have hnewabs : absSlot gh'.vol.fatType (contOf s' gh') o =
          .file (metaOf gh.vol.fatType o) ((bf.write (data.take k)).bytes) := by
        rw [show gh'.vol.fatType = gh.vol.fatType from hft, absSlot_file hkeep hod, hnewbytes, hbfabs]
      have hslotsE := slots_edit (s' := s') (gh' := gh') hA rfl hh hview (fun x hx _ => hviews x hx) hcont
      rw [hnewabs] at hslotsE
      have hA' : Abs s' gh' (Spec.AbsFs.setSlot { a with files := a.files.set i af' } af.dir af.idx
          (.file (metaOf gh.vol.fatType o) ((bf.write (data.take k)).bytes))) := by
        refine ⟨by rw [heq]; exact hA.nextId, by rw [heq]; exact hA.maxDirs, by rw [heq]; exact hA.maxFiles,
          by rw [heq]; exact hA.clock, by rw [heq]; exact hA.locked, ?_, by rw [heq]; exact hA.dirs, ?_, hA.ids, hslotsE⟩
        · show a.vols = s'.vols.map _
          rw [hvols', hA.vols, hv, hvid vi hv]
          rfl
        · show List.Forall₂ (FileRel s' gh') (a.files.set i af') s'.files
          rw [hfiles']
          refine forall₂_set (forall₂_mono hA.files fun af1 f1 _ hr1 => ?_) i ?_
          · exact ⟨hr1.handle, hr1.volume, hr1.mode, hr1.pos, hr1.pm, hr1.dirty, hr1.dirMem, by
              show ∃ o, (DirView s' gh' af1.dir)[af1.idx]? = some o ∧ _
              rw [hviews _ hr1.dirMem]; exact hr1.slot⟩
          · refine ⟨by rw [hwf']; exact hrel.handle, by rw [hwf']; exact hrel.volume, by rw [hwf']; exact hrel.mode,
              ?_, ?_, by rw [hwf'], hrel.dirMem, ?_⟩
            · show af.pos + k = f'.currentOffset
              rw [hwf', hrel.pos]
            · show ({ af.pm with attr := Attr.setArchive af.pm.attr, mtime := a.clock, size := (bf.write (data.take k)).bytes.length } : Meta) = view f'.entry
              rw [hwf', hrel.pm, hA.clock, byteFile_write_length bf _ (by rw [hblen, hbf]; show af.pos ≤ _; rw [hrel.pos]; exact hok.pos_le),
                hblen, hklen]
              show _ = view _
              unfold view
              simp only [hbf, hrel.pos]
            · show ∃ o, (DirView s' gh' af.dir)[af.idx]? = some o ∧ spos o = fkey f'
              rw [hviews _ hh, e_key]
              exact ⟨o, ho, hpo⟩
      refine ⟨gh', _, hI', hsg, hA', (hgoal _ _).2 ?_⟩
      refine writeS_ok hfo hvopen (by rw [hrel.mode]; exact hmode) hslot hk ?_
      rcases hres with ⟨h1, h2⟩ | ⟨h1, h2⟩ | ⟨h1, h2⟩
      · exact .inl ⟨by rw [h1]; rfl, h2⟩
      · exact .inr (.inl ⟨by rw [h1]; rfl, h2⟩)
      · exact .inr (.inr ⟨by rw [h1]; rfl, h2⟩)

end Sdmmc.Lemmas.AbsFs
