/-
C11 (device faults) with several open volumes, part 6 — `make_dir_in_dir` UNDER ANY FAULT SCHEDULE STAYS IN ITS PARTITION
and leaves 512-byte blocks.

`make_dir_in_dir` is the one call whose faulted run is NOT a truncated fault-free run (`Lemmas/FaultMPre.lean`): when the
entry of the new directory cannot be written, the clean-up `free_cluster_chain(new cluster)` runs under the rest of the
schedule and writes what the fault-free run never writes.  `Lemmas/FaultInvMkdir.lean` proves that the directories are
sound on the medium this leaves; here — with the same decomposition (allocation, blocks of the new cluster, entry in
the parent: truncated fault-free runs; then the clean-up) — that NO BLOCK OUTSIDE THE PARTITION OF THE VOLUME CHANGES:

* `OutP v d d'` — `d'` holds every block outside the partition of `v` as `d` does;
* `writeNew_crash_out` — every crash point of a fault-free `write_new_directory_entry` (its writes are licensed:
  `WriteSet.createEntry_lic`; this needs identical FAT copies);
* `cleanup_after_hit_out` — the clean-up after a failed `write_new_directory_entry` (it frees the one-cluster chain of
  the new directory: only FAT entries change, `FaultInv.free_any_coh`);
* `makeDir_fault_out` — `make_dir` (engine) under any schedule; `makeDir_len` — … keeps 512-byte blocks;
* `mkdir_fault_out` — `make_dir_in_dir` (API) under any schedule, from the invariant with identical FAT copies:
  no block outside the partition changes, and the medium consists of 512-byte blocks;
  `step_mkdir_out` — through `step`, from a state with a pending schedule (`VolInvF`).
-/
import Sdmmc.Lemmas.FaultInvStep
import Sdmmc.Lemmas.WriteSetCreate
import Sdmmc.Lemmas.WriteSetInvDir
import Sdmmc.Lemmas.VolNInv
import Sdmmc.Spec.VolumeNFault

namespace Sdmmc.Lemmas.FaultInv
open Sdmmc.Model Sdmmc.Model.Fat Sdmmc.Spec.Volume Sdmmc.Lemmas.VolBase Sdmmc.Lemmas.VolTree
open Sdmmc.Spec hiding NoFault Coherent
open Sdmmc.Lemmas.VolDisk Sdmmc.Lemmas.VolMed Sdmmc.Lemmas.VolApi Sdmmc.Lemmas.VolEng
open Sdmmc.Lemmas.FBasic (NoFault Coherent)
open Sdmmc.Lemmas.CrashBase Sdmmc.Lemmas.Retry Sdmmc.Lemmas.FaultPre Sdmmc.Lemmas.MHoare

/-! ### Media that agree outside a partition -/

/-- `d'` holds every block outside the partition of `v` as `d` does. -/
def OutP (v : FatVolume) (d d' : Disk) : Prop := ∀ b, ¬ InPartition v b → d'.get b = d.get b

theorem OutP.refl (v : FatVolume) (d : Disk) : OutP v d d := fun _ _ => rfl

theorem OutP.trans {v : FatVolume} {d d1 d2 : Disk} (h1 : OutP v d d1) (h2 : OutP v d1 d2) : OutP v d d2 :=
  fun b hb => (h2 b hb).trans (h1 b hb)

theorem OutP.sameGeom {v v' : FatVolume} {d d' : Disk} (hs : SameGeom v v') (h : OutP v' d d') : OutP v d d' :=
  fun b hb => h b (fun hb' => hb ((Lemmas.VolN.inPartition_sameGeom hs b).1 hb'))

theorem not_fat_of_out {v : FatVolume} {b : Nat} (hb : ¬ InPartition v b) : regionOf v b ≠ .fat :=
  fun e => hb (Lemmas.VolN.inPartition_of_region (.inl e))

theorem outP_of_within {v : FatVolume} {d d' : Disk} {t : List Nat} {dirty : Nat → Prop} (h : Within v d d' t dirty)
    (hd : ∀ i, dirty i → InPartition v i) : OutP v d d' :=
  fun b hb => h.nonFat b (not_fat_of_out hb) (fun hdb => hb (hd b hdb))

theorem outP_of_view {v : FatVolume} {d d' : Disk} (h : View v d d') : OutP v d d' :=
  fun b hb => h.nonFat b (not_fat_of_out hb)

theorem inPartition_of_inCluster {v : FatVolume} (hg : WFGeom v) {c b : Nat} (hc : InRange v c) (h : InCluster v c b) :
    InPartition v b :=
  Lemmas.VolN.inPartition_of_region (.inr (.inl (WriteSet.data_block_region v hg c b hc h.1 h.2)))

/-- A run all of whose device writes go into the partition: every crash point agrees with the start outside it. -/
theorem crashAll_outP {v : FatVolume} {s s' : FS} {ws : List (Nat × Block)} (ht : Trace s s' ws)
    (hin : ∀ w, w ∈ ws → InPartition v w.1) : CrashAll (OutP v s.dev.disk) s s' :=
  ⟨ws, ht, fun k b hb => applyWrites_get_other _ _ _ fun w hw (e : w.1 = b) =>
    hb (by rw [← e]; exact hin w (List.mem_of_mem_take hw))⟩

theorem reverse_append_cancel {α : Type} {a b l : List α} (h : a.reverse ++ l = b.reverse ++ l) : a = b :=
  List.reverse_injective (List.append_cancel_right h)

/-- **Every crash point of a fault-free `write_new_directory_entry`** agrees with the start outside the partition. -/
theorem writeNew_crash_out {fs : FS} (hs : WriteSet.Sound fs) (dc : Nat) (name : Bytes) (hname : name.length = 11) (att fc : Nat)
    (now : Timestamp) (dcs : List Nat)
    (hdir : ¬ Reopen.IsFixedRoot fs.vol dc → Chain fs.vol fs.dev.disk (Listing.startCluster fs.vol dc) dcs) :
    CrashAll (OutP fs.vol fs.dev.disk) fs (writeNewDirectoryEntry dc name att fc now fs).2 := by
  obtain ⟨ws0, ht0⟩ := (writeNewDirectoryEntry_pre dc name att fc now fs).1
  obtain ⟨r, s', hrun, _, _, hout⟩ := WriteSet.createEntry_lic dc name att fc now hname fs hs dcs hdir
  rw [hrun] at ht0 ⊢
  have key : ∀ L : Licence, WriteSet.LicD fs.vol L fs.dev s'.dev → CrashAll (OutP fs.vol fs.dev.disk) fs s' := by
    intro L hL
    obtain ⟨ws, dt, hall⟩ := hL
    have e : ws0 = ws := reverse_append_cancel (ht0.wlog.symm.trans dt.wlog)
    subst e
    exact crashAll_outP ht0 fun w hw => (WriteSet.allLicensed_in_region fs.vol hs.geom L _ _ hall w hw).2.1
  cases hout with
  | slot en hb ho hal hfree lic => exact key { slots := [(en.entryBlock, en.entryOffset)] } (lic _ List.mem_cons_self)
  | grown en last c hk hl hr hfree hb ho lic =>
    exact key { fatClusters := [last, c], dataClusters := [c] }
      (lic _ List.mem_cons_self (List.mem_cons_of_mem _ List.mem_cons_self) List.mem_cons_self)
  | full hw hd => exact CrashAll.same hw hd (OutP.refl _ _)

/-! ### Block lengths -/

theorem truncateLoop_len (fuel next : Nat) : Len (truncateLoop fuel next) := by
  have := nextCluster_len
  have := updateFat_len
  induction fuel generalizing next with
  | zero => unfold truncateLoop; len_auto
  | succ n ih => unfold truncateLoop; len_auto

theorem truncateClusterChain_len (c : Nat) : Len (truncateClusterChain c) := by
  have := nextCluster_len
  have := updateFat_len
  have := truncateLoop_len
  unfold truncateClusterChain; len_auto

theorem freeClusterChain_len (c : Nat) : Len (freeClusterChain c) := by
  have := truncateClusterChain_len
  have := updateFat_len
  unfold freeClusterChain; len_auto

theorem mdTail_len (parent : Nat) (sfn : Bytes) (hlen : sfn.length = 11) (att : Nat) (now : Timestamp) (c : Nat) :
    Len (mdTail parent sfn att now c) := by
  have := writeNewDirectoryEntry_len parent sfn hlen att c now
  have := freeClusterChain_len
  unfold mdTail; len_auto

/-- **`make_dir` keeps 512-byte blocks**, whatever fails. -/
theorem makeDir_len (parent : Nat) (sfn : Bytes) (hlen : sfn.length = 11) (att : Nat) (now : Timestamp) :
    Len (makeDir parent sfn att now) := by
  rw [makeDir_eq]
  exact Len.bind (allocCluster_len _ _) fun c => Len.bind Len.getVol fun v => Len.bind (mdMid_len v c parent att now) fun _ =>
    mdTail_len parent sfn hlen att now c

/-! ### The clean-up -/

/-- **The clean-up after a failed `write_new_directory_entry`** changes no block outside the partition. -/
theorem cleanup_after_hit_out {fs4 : FS} (hn4 : NoFault fs4) (hc4 : Coherent fs4) (hb4 : BlocksOK fs4.dev.disk)
    (hg4 : WFGeom fs4.vol)
    (dc : Nat) (sfn : Bytes) (hlen : sfn.length = 11) (att : Nat) (now : Timestamp) (c : Nat) (L : List Nat)
    {dirs : List (Nat × Nat)}
    (hcrX : CrashAll (RobX fs4.vol dirs [[c]] [c]) fs4 (writeNewDirectoryEntry dc sfn att c now fs4).2)
    (hcrO : CrashAll (OutP fs4.vol fs4.dev.disk) fs4 (writeNewDirectoryEntry dc sfn att c now fs4).2)
    (hq : (writeNewDirectoryEntry dc sfn att c now (setFaults L fs4)).2.dev.failed ≠ fs4.dev.failed) :
    OutP fs4.vol fs4.dev.disk
      (freeClusterChain c (writeNewDirectoryEntry dc sfn att c now (setFaults L fs4)).2).2.dev.disk := by
  have hWp := writeNewDirectoryEntry_pre dc sfn att c now
  obtain ⟨_, ⟨ws, ws', hta, htb, hca⟩⟩ := (hWp (setFaults L fs4)).2.2.2 hq
  rw [clr_setFaults L fs4 hn4] at htb
  generalize ht : (writeNewDirectoryEntry dc sfn att c now (setFaults L fs4)).2 = t at hta hca ⊢
  have hlen4 : LenInv (setFaults L fs4) := ⟨hb4, fun i hi => by
    have : fs4.cache.blk = fs4.dev.disk.get i := hc4 i hi
    show fs4.cache.blk.length = 512
    rw [this]; exact hb4 i⟩
  have hlt : LenInv t := by rw [← ht]; exact writeNewDirectoryEntry_len dc sfn hlen att c now _ hlen4
  have hsg : SameGeom fs4.vol t.vol := by rw [← ht]; exact writeNewDirectoryEntry_geo dc sfn att c now (setFaults L fs4)
  have hgt : WFGeom t.vol := SameGeom.wfGeom hsg hg4
  obtain ⟨wsX, htX, hpX⟩ := hcrX
  have hwsX : wsX = ws ++ ws' := trace_unique htX htb
  subst hwsX
  have hdt : t.dev.disk = fs4.dev.disk.applyWrites ws := hta.disk
  have hRk : RobX t.vol dirs [[c]] [c] t.dev.disk := by
    have := hpX ws.length
    rw [List.take_left' rfl, ← hdt] at this
    exact this.sameGeom hsg
  have hchk : Chain t.vol t.dev.disk c [c] := hRk.2 [c] (List.mem_singleton.2 rfl)
  obtain ⟨wsO, htO, hpO⟩ := hcrO
  have hwsO : wsO = ws ++ ws' := trace_unique htO htb
  subst hwsO
  have hOt : OutP fs4.vol fs4.dev.disk t.dev.disk := by
    have := hpO ws.length
    rw [List.take_left' rfl, ← hdt] at this
    exact this
  have hw := free_any_coh t c hlt.1 hgt hchk fun h => by rw [hca] at h; cases h
  exact hOt.trans ((outP_of_within hw fun _ h => h.elim).sameGeom hsg)

section
variable {files : List FileInfo}

/-- **`make_dir(parent, name, DIRECTORY)` under ANY fault schedule**, for a name the parent does not hold, on a volume
with identical FAT copies: no block outside the partition changes. -/
theorem makeDir_fault_out {gh : Ghost} {fs : FS} (hM : MedX fs.vol fs.dev.disk files gh []) (hn : NoFault fs) (hc : Coherent fs)
    (hmir : Mirror fs.vol fs.dev.disk)
    {dc : Nat} (hv : ValidDir gh.dirs dc) (sfn : Bytes) (hlen : sfn.length = 11) (h0 : byteAt sfn 0 ≠ 0)
    (hE5 : byteAt sfn 0 ≠ 0xE5)
    (hfresh : sfn ∉ (entries (dirSlots fs.vol fs.dev.disk gh.G (dirIdOf dc))).map sName) (now : Timestamp) (L : List Nat) :
    OutP fs.vol fs.dev.disk (makeDir dc sfn Gen.ATTR_DIRECTORY now (setFaults L fs)).2.dev.disk := by
  show OutP fs.vol fs.dev.disk (makeDir dc sfn 16 now (setFaults L fs)).2.dev.disk
  rw [makeDir_eq]
  have h00 : OutP fs.vol fs.dev.disk fs.dev.disk := OutP.refl _ _
  have hAp := allocCluster_pre none false
  have hnoz : ∀ (v : FatVolume) (c i : Nat), CrashAlloc.zeroing v false c i → InPartition v i := fun _ _ _ h => by cases h.1
  -- 1. the allocation
  have hcrA : CrashAll (OutP fs.vol fs.dev.disk) fs (allocCluster none false fs).2 := by
    rcases ForestAlloc.alloc_total fs none false hn hc with ⟨c, fs1, ha⟩ | ⟨s', ha, _⟩
    · rw [ha]
      obtain ⟨hcr, hWfin⟩ := CrashAlloc.alloc_crash fs fs1 none false c hn hc hM.blocksOK hM.geom hM.hint
        (fun p hp => by cases hp) ha
      refine hcr.mono fun d hd => ?_
      rcases hd.1 with hA | ⟨hB, _, _⟩ | ⟨hC, _⟩
      · exact outP_of_within hA (hnoz _ _)
      · exact outP_of_within hB (hnoz _ _)
      · exact (outP_of_within hWfin (hnoz _ _)).trans (outP_of_view hC)
    · rw [ha]
      obtain ⟨hw, hd⟩ := alloc_err_same fs none false hn hc _ s' ha
      exact CrashAll.same hw hd h00
  by_cases hqa : (allocCluster none false (setFaults L fs)).2.dev.failed = fs.dev.failed
  swap
  · obtain ⟨herr, _⟩ := (hAp (setFaults L fs)).2.2.2 hqa
    rw [Fault.F.bind_err (Prod.ext herr rfl)]
    apply hAp.transfer (setFaults L fs)
    rw [clr_setFaults L fs hn]; exact hcrA
  obtain ⟨hr1, hs1⟩ := Pre.quiet hAp (Fault.allocCluster_inv none false) L fs hn hqa
  rcases ForestAlloc.alloc_total fs none false hn hc with ⟨c, fs1, ha⟩ | ⟨s', ha, hd', _⟩
  swap
  · rw [ha] at hr1 hs1
    have hall : allocCluster none false (setFaults L fs) = (.err .NotEnoughSpace, setFaults L s') := Prod.ext hr1 hs1
    rw [Fault.F.bind_err hall]
    show OutP fs.vol fs.dev.disk s'.dev.disk
    rw [hd']; exact h00
  rw [ha] at hr1 hs1 hcrA
  have h01 : OutP fs.vol fs.dev.disk fs1.dev.disk := hcrA.final
  have hall : allocCluster none false (setFaults L fs) = (.ok c, setFaults L fs1) := Prod.ext hr1 hs1
  rw [Fault.F.bind_ok hall, Fault.F.bind_ok (show F.getVol (setFaults L fs1) = (.ok fs1.vol, setFaults L fs1) from rfl)]
  -- the facts of the fault-free run so far (as in `makeDir_med`)
  have hr : Ready fs := ⟨hn, hc, hM.blocksOK, hM.geom, hM.hint⟩
  have ho : Owns fs.vol fs.dev.disk gh.G := by have := hM.owns; rwa [List.append_nil] at this
  have hG := med_heads hM
  obtain ⟨hrd1, ho1, hsg, _, _⟩ := ForestStep.owns_newChain fs fs1 gh.G false c hr ho ha
  obtain ⟨hcR, _, _, hcG', _⟩ := ForestFinal.alloc_never_returns_used fs fs1 none false c hn hc hM.hint ha
  have hcG : c ∉ gh.G.flatten := hcG' _ ho
  have hpp : ∀ p, (none : Option Nat) = some p → p < endCluster fs.vol := fun p hp => by cases hp
  obtain ⟨hk1, hk2⟩ := alloc_keeps_blocks hn hc hM.blocksOK hM.geom hM.hint hpp ha
  have hblocks1 := dir_blocks_keep hM hcG hk1 hk2
  have hmemOf : ∀ (f : FileInfo) (Y : List (List Nat)),
      chainOf gh.G f.entry.cluster = [] ∨ chainOf gh.G f.entry.cluster ∈ gh.G ++ Y := by
    intro f Y
    by_cases hnil : chainOf gh.G f.entry.cluster = []
    · exact .inl hnil
    · exact .inr (List.mem_append_left _ (chainOf_spec hG ((chainOf_ne_nil_iff hG).1 hnil)).1)
  have hM1 : MedX fs1.vol fs1.dev.disk files { vol := fs1.vol, G := gh.G, dirs := gh.dirs } [[c]] :=
    medX_fat_update hM hsg hrd1.hint hrd1.blocksOK (G' := gh.G) (X' := [[c]]) ho1 (fun _ _ _ => rfl) hblocks1 rfl hM.tree
      (fun f hf => ⟨fileOK_of_owns hsg (hM.fileOK f hf).1 ho1 (hmemOf f _), (hM.fileOK f hf).2⟩)
  have hcR1 : InRange fs1.vol c := (hsg.inRange c).2 hcR
  have hsg1 : SameGeom fs1.vol fs.vol := sameGeom_symm hsg
  have hpos : 0 < fs1.vol.blocksPerCluster := hrd1.geom.bpc_pos
  have hsl1 : ∀ h, h ∈ dirIds gh.dirs → dirSlots fs1.vol fs1.dev.disk gh.G h = dirSlots fs.vol fs.dev.disk gh.G h := by
    intro h hh
    rw [dirSlots_sameGeom hsg]
    exact dirSlots_congr (hblocks1 h hh)
  -- identical FAT copies after the allocation
  obtain ⟨hS1, _, _, _⟩ := WriteSet.alloc_lic fs fs1 none false c ⟨hr, hmir⟩ (fun p hp => by cases hp) ha { fatClusters := [c] }
    List.mem_cons_self (fun p hp => by cases hp) (fun hz => by cases hz)
  -- 2. the blocks of the new cluster
  obtain ⟨fs4, hmid, hn4, hc4, hv4, hd4, hcr4⟩ := mdMid_clean fs1 c dc 16 now hrd1.noFault
  have hMp := mdMid_pre fs1.vol c dc 16 now
  have hcrM : CrashAll (OutP fs.vol fs.dev.disk) fs1 (mdMid fs1.vol c dc 16 now fs1).2 := by
    rw [hmid]
    refine hcr4.mono fun d hd => h01.trans (OutP.sameGeom hsg fun b hb => hd b fun hin => hb ?_)
    exact inPartition_of_inCluster hrd1.geom hcR1 ⟨hin.1, by have := hin.2; omega⟩
  by_cases hqm : (mdMid fs1.vol c dc 16 now (setFaults L fs1)).2.dev.failed = fs1.dev.failed
  swap
  · obtain ⟨herr, _⟩ := (hMp (setFaults L fs1)).2.2.2 hqm
    rw [Fault.F.bind_err (Prod.ext herr rfl)]
    apply hMp.transfer (setFaults L fs1)
    rw [clr_setFaults L fs1 hrd1.noFault]; exact hcrM
  obtain ⟨hr2, hs2⟩ := Pre.quiet hMp (mdMid_faults fs1.vol c dc 16 now) L fs1 hrd1.noFault hqm
  rw [hmid] at hr2 hs2 hcrM
  have h04 : OutP fs.vol fs.dev.disk fs4.dev.disk := hcrM.final
  have hmall : mdMid fs1.vol c dc 16 now (setFaults L fs1) = (.ok (), setFaults L fs4) := Prod.ext hr2 hs2
  rw [Fault.F.bind_ok hmall]
  have hb4 : BlocksOK fs4.dev.disk := by
    intro i
    rw [hd4 i]
    split
    · exact FatOps.zeroBlock_length
    · split
      · exact (DirMake.dirBlock_facts _ _ _ _ _ _).1
      · exact hrd1.blocksOK i
  have hsame4 : ∀ i, (∀ j, j < fs1.vol.blocksPerCluster → i ≠ clusterToBlock fs1.vol c + j) →
      fs4.dev.disk.get i = fs1.dev.disk.get i := by
    intro i hi
    rw [hd4 i, if_neg, if_neg]
    · intro e
      exact hi 0 hpos (by omega)
    · rintro ⟨h1, h2⟩
      exact hi (i - clusterToBlock fs1.vol c) (by omega) (by omega)
  obtain ⟨hM4', hsl4⟩ := medX_cluster_write hM1 hcR1 hcG hb4 hsame4
  have hM4 : MedX fs4.vol fs4.dev.disk files { vol := fs1.vol, G := gh.G, dirs := gh.dirs } [[c]] := by
    rw [hv4]; exact hM4'
  have hB0 : fs4.dev.disk.get (clusterToBlock fs1.vol c) =
      DirMake.dirBlock fs1.vol.fatType c dc 16 now (clusterToBlock fs1.vol c) := by
    rw [hd4, if_neg (by omega), if_pos rfl]
  have hBz : ∀ i, i < fs1.vol.blocksPerCluster - 1 → fs4.dev.disk.get (clusterToBlock fs1.vol c + 1 + i) = zeroBlock := by
    intro i hi
    rw [hd4, if_pos ⟨by omega, by omega⟩]
  have hsg4 : SameGeom fs4.vol fs.vol := by rw [hv4]; exact hsg1
  have hv' : ValidDir ({ vol := fs1.vol, G := gh.G, dirs := gh.dirs } : Ghost).dirs dc := hv
  obtain ⟨hh, _⟩ := validDir_id hM hv
  obtain ⟨r, fs5, hrun, hn5, hc5, hcase⟩ := writeNew_stage hM4 hn4 hc4 hv' sfn 16 c now
  have hfinX : ∀ e fs', writeNewDirectoryEntry dc sfn 16 c now fs4 = (.ok e, fs') →
      RobX fs4.vol gh.dirs [[c]] [c] fs'.dev.disk := by
    intro e fs' hrun'
    rw [hrun] at hrun'
    obtain ⟨hre, hfs⟩ := Prod.mk.inj hrun'
    subst hfs
    rcases hcase with ⟨hre', _, _⟩ | ⟨v1, d1, G1, pre, post, old, hS, _, hd'⟩
    · rw [hre'] at hre; cases hre
    · have hsgS := hS.sameGeom
      have hctb : clusterToBlock v1 c = clusterToBlock fs1.vol c := by
        rw [WriteRefines.sameGeom_clusterToBlock hsgS, hv4]
      have hbpc : v1.blocksPerCluster = fs1.vol.blocksPerCluster := by rw [WriteRefines.sameGeom_bpc hsgS, hv4]
      have hft : v1.fatType = fs1.vol.fatType := by rw [hsgS.fatType, hv4]
      have hextra : ∀ j, j < fs1.vol.blocksPerCluster →
          d1.get (clusterToBlock fs1.vol c + j) = fs4.dev.disk.get (clusterToBlock fs1.vol c + j) := by
        intro j hj
        have := hS.extra_blocks c j hcR1.1 (by rw [hv4]; exact hcR1.2)
          ⟨[c], List.mem_append_right _ (List.mem_singleton.2 rfl), List.mem_singleton.2 rfl⟩ (by rw [hv4]; exact hj)
        rw [hv4] at this
        exact this
      have hfresh1 : sfn ∉ (entries (dirSlots v1 d1 G1 (dirIdOf dc))).map sName := by
        rw [hS.entries_eq _ hh, hv4, hsl4 _ hh, hsl1 _ hh]
        exact hfresh
      have hfin := mkdir_finish hS.med hv hS.split hS.pre_nz hS.pre_len hS.free sfn hlen h0 hE5 hfresh1 now
        (by
          rw [hctb, hft]
          have := hextra 0 hpos
          rw [Nat.add_zero] at this
          rw [this, hB0])
        (by
          intro i hi
          rw [hbpc] at hi
          rw [hctb]
          have := hextra (1 + i) (by omega)
          rw [← Nat.add_assoc] at this
          rw [this, hBz i hi])
      rw [← hd'] at hfin
      -- the final medium, for the directories that existed
      have hvf : fs5.vol = v1 := hS.vol'
      have hsgf : SameGeom v1 fs4.vol := sameGeom_symm hsgS
      have hGall : HeadsOK (G1 ++ [[c]]) := med_heads hfin
      have hcnot : c ∉ dirIds gh.dirs := by
        intro hm
        rcases mem_dirIds.1 hm with e0 | ⟨p, hp⟩
        · have := hcR1.1; omega
        · have hh' : c ∈ heads gh.G := dir_mem_heads hM.tree hp
          obtain ⟨cs, hcs, he⟩ := List.mem_map.1 hh'
          have hne := hG.ne cs hcs
          cases cs with
          | nil => exact hne rfl
          | cons a l =>
            have : a = c := he
            exact hcG (List.mem_flatten_of_mem hcs (this ▸ List.mem_cons_self))
      have hd0 := dirsInv_of_med hfin
      have hold : ∀ h, h ∈ dirIds gh.dirs → h ∈ dirIds (gh.dirs ++ [(c, dirIdOf dc)]) := by
        intro h hh'
        rcases mem_dirIds.1 hh' with e0 | ⟨p, hp⟩
        · exact mem_dirIds.2 (.inl e0)
        · exact mem_dirIds.2 (.inr ⟨p, List.mem_append_left _ hp⟩)
      -- the directories that existed, in the final record
      have hdold : DirsInv v1 fs5.dev.disk { vol := v1, G := G1 ++ [[c]], dirs := gh.dirs } :=
        ⟨hd0.geom, fun h hh' hf => hd0.mem h (hold h hh') hf, fun h hh' hf => hd0.chain h (hold h hh') hf,
          fun h hh' => hd0.cleanTail h (hold h hh'), fun h hh' => hd0.names h (hold h hh'),
          fun h p hp => hd0.dots h p (List.mem_append_left _ hp)⟩
      have hHall : HeadsOK (G1 ++ [[c]]) := med_headsAll hS.med
      have hcheads : c ∉ heads G1 := by
        have := hHall.nodup
        unfold heads at this
        rw [List.map_append, List.nodup_append] at this
        intro hm
        exact this.2.2 c hm c (List.mem_singleton.2 rfl) rfl
      have hxc : ∀ h, h ∈ dirIds gh.dirs → ¬ isFixedRoot v1 h → ∀ x, x ∈ chainOf (G1 ++ [[c]]) (dirHead v1 h) → x ≠ c := by
        intro h hh' hf x hx e
        have hdm := dirHead_mem hS.med (show h ∈ dirIds ({ vol := v1, G := G1, dirs := gh.dirs } : Ghost).dirs from hh') hf
        have hne : dirHead v1 h ≠ ([c] : List Nat).headD 0 := by
          intro e'
          apply hcheads
          have e'' : dirHead v1 h = c := e'
          rw [← e'']; exact hdm
        rw [chainOf_append_other hHall hne] at hx
        have := dirChain_not_extra hS.med (show h ∈ dirIds ({ vol := v1, G := G1, dirs := gh.dirs } : Ghost).dirs from hh') hf hx
        apply this
        rw [e]; simp
      have hX : RobX v1 gh.dirs [[c]] [c] fs5.dev.disk := by
        refine ⟨fun d' hw => ⟨G1 ++ [[c]], ?_⟩, fun cs hcs => ?_⟩
        · refine hdold.congr (fun h hh' hf x hx => ?_) (fun h hh' s hs => ?_)
          · exact hw.other x (med_inRange hfin (dirChain_spec hfin (hold h hh') hf).1 hx).2
              (by simpa using hxc h hh' hf x hx)
          · exact hw.nonFat _ (dirSlot_place hfin (hold h hh') hs).1 id
        · rw [List.mem_singleton.1 hcs]
          have := med_chain hfin (show [c] ∈ ({ vol := v1, G := G1 ++ [[c]], dirs := gh.dirs ++ [(c, dirIdOf dc)] } : Ghost).G from
            List.mem_append_right _ (List.mem_singleton.2 rfl))
          exact this
      exact hX.sameGeom hsgf
  have hcrX := newEntry_crash_rob hM4 hn4 hc4 hv' sfn hlen 16 c now [c] (by intro x hx; simpa using hx) hfinX
  have hWp := writeNewDirectoryEntry_pre dc sfn 16 c now
  have hconv : ∀ d, DirsP fs4.vol gh.dirs d → DirsP fs.vol gh.dirs d := fun d h => h.sameGeom hsg4
  have hg4 : WFGeom fs4.vol := by rw [hv4]; exact hrd1.geom
  -- every crash point of the entry's creation agrees with `fs4` outside the partition
  have hS4 : WriteSet.Sound fs4 := by
    refine ⟨⟨hn4, hc4, hb4, hg4, by rw [hv4]; exact hrd1.hint⟩, ?_⟩
    rw [hv4]
    refine mirror_of_fat_same hrd1.geom (fun i hi => hsame4 i fun j hj e => ?_) hS1.mirror
    have := FatLens.cluster_blocks_in_data_region fs1.vol hrd1.geom c j hcR1.1 hcR1.2 hj
    rw [← e, hi] at this
    cases this
  have hdir4 : ¬ Reopen.IsFixedRoot fs4.vol dc →
      Chain fs4.vol fs4.dev.disk (Listing.startCluster fs4.vol dc) (dirChain fs4.vol gh.G (dirIdOf dc)) := by
    intro hk
    obtain ⟨hh', hcase'⟩ := dir_walk_facts hM4 hv'
    rcases hcase' with ⟨hdc, h16, _⟩ | ⟨_, hnf, cs, hco, hst, _, _, _⟩
    · exact absurd ⟨h16, hdc⟩ hk
    · obtain ⟨hmem, _⟩ := dirChain_spec hM4 hh' hnf
      have hch := med_chain hM4 hmem
      unfold dirChain
      rw [if_neg hnf]
      rw [hco] at hch ⊢
      exact hch
  have hcrO := writeNew_crash_out hS4 dc sfn hlen 16 c now _ hdir4
  have hconvO : ∀ d, OutP fs4.vol fs4.dev.disk d → OutP fs.vol fs.dev.disk d := fun d h => h04.trans (OutP.sameGeom hsg4.symm h)
  show OutP fs.vol fs.dev.disk (mdTail dc sfn 16 now c (setFaults L fs4)).2.dev.disk
  by_cases hq3 : (writeNewDirectoryEntry dc sfn 16 c now (setFaults L fs4)).2.dev.failed = fs4.dev.failed
  · -- no device call of the entry's creation failed
    obtain ⟨hr3, hs3⟩ := Pre.quiet hWp (Fault.writeNewDirectoryEntry_inv dc sfn 16 c now) L fs4 hn4 hq3
    rw [hrun] at hr3 hs3
    have hw5 : writeNewDirectoryEntry dc sfn 16 c now (setFaults L fs4) = (r, setFaults L fs5) := Prod.ext hr3 hs3
    have hfin5 : RobX fs4.vol gh.dirs [[c]] [c] fs5.dev.disk := by
      have := hcrX.final
      rw [hrun] at this
      exact this
    have hO5 : OutP fs4.vol fs4.dev.disk fs5.dev.disk := by
      have := hcrO.final
      rw [hrun] at this
      exact this
    rcases hcase with ⟨hre, hd5, hv5⟩ | ⟨v1, d1, G1, pre, post, old, hS, hre, _⟩
    · -- the parent is full: the new cluster is given back, under the rest of the schedule
      subst hre
      rw [mdTail_err dc sfn 16 now c _ _ _ hw5]
      have hch5 : Chain fs5.vol fs5.dev.disk c [c] := by
        rw [hv5]; exact hfin5.2 [c] (List.mem_singleton.2 rfl)
      have hw := free_any_coh (setFaults L fs5) c (by show BlocksOK fs5.dev.disk; rw [hd5]; exact hb4)
        (by show WFGeom fs5.vol; rw [hv5]; exact hg4) hch5 (fun h => hc5 _ h)
      have hw' : Within fs4.vol fs5.dev.disk (freeClusterChain c (setFaults L fs5)).2.dev.disk [c] clean := by
        have : (setFaults L fs5).vol = fs4.vol := hv5
        rw [← this]; exact hw
      exact hconvO _ (hO5.trans (outP_of_within hw' fun _ h => h.elim))
    · subst hre
      rw [mdTail_ok dc sfn 16 now c _ _ _ hw5]
      exact hconvO _ hO5
  · -- a device call of the entry's creation failed: the clean-up runs from whatever state that left
    obtain ⟨herr, _⟩ := (hWp (setFaults L fs4)).2.2.2 hq3
    have hw5 : writeNewDirectoryEntry dc sfn 16 c now (setFaults L fs4) =
        (.err .DeviceError, (writeNewDirectoryEntry dc sfn 16 c now (setFaults L fs4)).2) := Prod.ext herr rfl
    rw [mdTail_err dc sfn 16 now c _ _ _ hw5]
    exact hconvO _ (cleanup_after_hit_out hn4 hc4 hb4 hg4 dc sfn hlen 16 now c L hcrX hcrO hq3)

end

/-! ### The API call -/

/-- **`make_dir_in_dir` under any fault schedule**: no block outside the partition of the volume changes, and the medium
still consists of 512-byte blocks.  (From the invariant, with identical FAT copies.) -/
theorem mkdir_fault_out {s0 : Mgr} {gh : Ghost} (hI : VolInv s0 gh) (hm : Mirror gh.vol s0.dev.disk) (L : List Nat) (d : Nat)
    (name : List Nat) (hname : ∀ sfn, Sfn.createFromStr name = .ok sfn → sfn.head? ≠ some 0xE5) :
    OutP gh.vol s0.dev.disk (makeDirInDir d name (withFaults L s0)).2.dev.disk ∧
    BlocksOK (makeDirInDir d name (withFaults L s0)).2.dev.disk := by
  obtain ⟨hn, hc, hM⟩ := volInv_fs hI
  have h0 : OutP gh.vol s0.dev.disk s0.dev.disk := OutP.refl _ _
  have hb0 : BlocksOK s0.dev.disk := hI.med.blocksOK
  unfold makeDirInDir
  rw [get_bind]
  by_cases hfull : (withFaults L s0).dirs.length ≥ (withFaults L s0).maxDirs
  · rw [if_pos hfull]; exact ⟨h0, hb0⟩
  rw [if_neg hfull]
  cases hidx : s0.dirs.findIdx? (·.rawDirectory = d) with
  | none => rw [bind_err (getDirById_bad (s := withFaults L s0) hidx)]; exact ⟨h0, hb0⟩
  | some i =>
    obtain ⟨di, hdi, _⟩ := findIdx?_some_get hidx
    have hdim : di ∈ s0.dirs := List.mem_of_getElem? hdi
    rw [bind_ok (getDirById_ok (s := withFaults L s0) hidx), bind_ok (getDir_ok (s := withFaults L s0) hdi)]
    cases hv : s0.vols.findIdx? (·.rawVolume = di.rawVolume) with
    | none => rw [bind_err (getVolumeById_bad (s := withFaults L s0) hv)]; exact ⟨h0, hb0⟩
    | some volIdx =>
      obtain ⟨hz, vi, hvs, hvol, hraw⟩ := vol_of_handle hI hv
      subst hz
      rw [bind_ok (getVolumeById_ok (s := withFaults L s0) hv)]
      cases hs : Sfn.createFromStr name with
      | error e => rw [bind_err (Modes.toSfn_err hs _)]; exact ⟨h0, hb0⟩
      | ok sfn =>
        rw [bind_ok (Modes.toSfn_ok hs _), attempt_bind]
        have hdv := hI.openDirs di hdim
        obtain ⟨r, fs', hlk, hdisk, hvol', h1, hcase⟩ := lookup_found hI hvs hvol hdv sfn (hname sfn hs)
        rcases lookup_faulted hI hvs hvol di.cluster sfn L with hq | ⟨he, hu⟩
        swap
        · rw [he]
          show OutP gh.vol s0.dev.disk (withVol 0 (Fat.findDirectoryEntry di.cluster sfn) (withFaults L s0)).2.dev.disk ∧
            BlocksOK (withVol 0 (Fat.findDirectoryEntry di.cluster sfn) (withFaults L s0)).2.dev.disk
          rw [hu.disk]; exact ⟨h0, hb0⟩
        rw [hlk] at hq
        rw [hq]
        set s1 := afterVol s0 vi fs' with hs1
        have hvs1 : s1.vols = [{ vi with vol := fs'.vol }] := rfl
        have h01 : OutP gh.vol s0.dev.disk s1.dev.disk := by rw [hdisk]; exact h0
        have hb1 : BlocksOK s1.dev.disk := by rw [hdisk]; exact hb0
        rcases hcase with ⟨hr, hfresh⟩ | ⟨e, o, hr, _⟩
        swap
        · subst hr
          dsimp only
          split <;> exact ⟨h01, hb1⟩
        subst hr
        dsimp only
        -- the directory is made
        obtain ⟨hn1, hc1, hM1⟩ := volInv_fs h1
        have hfresh1 : sfn ∉ (entries (dirSlots (fsOf s1 gh).vol (fsOf s1 gh).dev.disk gh.G (dirIdOf di.cluster))).map sName := by
          show sfn ∉ (entries (dirSlots gh.vol s1.dev.disk gh.G (dirIdOf di.cluster))).map sName
          rw [hdisk]; exact hfresh
        have hmir1 : Mirror (fsOf s1 gh).vol (fsOf s1 gh).dev.disk := by
          show Mirror gh.vol s1.dev.disk
          rw [hdisk]; exact hm
        have hw := withVol_one (Fat.makeDir di.cluster sfn Gen.ATTR_DIRECTORY (withFaults L s0).clock) (s := withFaults L s1)
          (gh := gh) hvs1 hvol'
        rw [hw]
        show OutP gh.vol s0.dev.disk
            (Fat.makeDir di.cluster sfn Gen.ATTR_DIRECTORY (withFaults L s0).clock (fsOf (withFaults L s1) gh)).2.dev.disk ∧
          BlocksOK (Fat.makeDir di.cluster sfn Gen.ATTR_DIRECTORY (withFaults L s0).clock (fsOf (withFaults L s1) gh)).2.dev.disk
        rw [fsOf_withFaults]
        refine ⟨?_, ?_⟩
        · have hO := makeDir_fault_out hM1 hn1 hc1 hmir1 hdv sfn (sfn_length hs) (sfn_first_nz hs) (first_ne_E5 (hname sfn hs))
            hfresh1 (withFaults L s0).clock L
          have hO' : OutP gh.vol s1.dev.disk
              (Fat.makeDir di.cluster sfn Gen.ATTR_DIRECTORY (withFaults L s0).clock (setFaults L (fsOf s1 gh))).2.dev.disk := hO
          exact h01.trans hO'
        · have hlen1 : LenInv (setFaults L (fsOf s1 gh)) := ⟨hb1, fun i hi => by
            have : s1.cache.blk = s1.dev.disk.get i := h1.coherent i hi
            show s1.cache.blk.length = 512
            rw [this]; exact hb1 i⟩
          exact (makeDir_len di.cluster sfn (sfn_length hs) Gen.ATTR_DIRECTORY (withFaults L s0).clock _ hlen1).1

/-- … through `step`, from a state with a pending schedule. -/
theorem step_mkdir_out {p : Mgr} {gh : Ghost} (hP : VolInvF p gh) (hm : Mirror gh.vol p.dev.disk) (d : Nat) (name : List Nat)
    (hname : ∀ sfn, Sfn.createFromStr name = .ok sfn → sfn.head? ≠ some 0xE5) :
    (∀ b, ¬ InPartition gh.vol b → (Model.step p (.mkdir d name)).1.dev.disk.get b = p.dev.disk.get b) ∧
    BlocksOK (Model.step p (.mkdir d name)).1.dev.disk := by
  have hP' : VolInv (clearFaults p) gh := hP
  have e : (Model.step p (.mkdir d name)).1 =
      (makeDirInDir d name (withFaults p.dev.faults (resetLogs (clearFaults p)))).2 := by
    rw [step_unlocked p _ hP'.unlocked]
    exact Lemmas.VolApi.seq_state (makeDirInDir d name) Payload.unit _
  rw [e]
  exact mkdir_fault_out (Lemmas.VolApi.volInv_resetLogs hP') hm p.dev.faults d name hname

end Sdmmc.Lemmas.FaultInv
