/-
Lemmas about the specification layer `Sdmmc.Spec.Chain`: cluster chains (`Chain`), how the engine's
`nextCluster` / `walkClusters` move along a chain, and the bytes of a chain (`clusterBytes`,
`chainBytes`) in terms of the blocks of the medium.  Used by `Sdmmc.Lemmas.ReadRefines` and
`Sdmmc.Props.C01Read`.

Elements of a chain are addressed as `cs[k]? = some x` throughout (no dependent indices).
-/
import Sdmmc.Spec.Chain
import Sdmmc.Lemmas.FatOps
import Sdmmc.Lemmas.Files

namespace Sdmmc.Lemmas.ChainL
open Sdmmc.Model Sdmmc.Model.Fat Sdmmc.Spec Sdmmc.Lemmas.FBasic Sdmmc.Lemmas.FatOps

/-! ### Shape of a chain -/

theorem chain_ne_nil {v : FatVolume} {d : Disk} {c : Nat} {cs : List Nat} (h : Chain v d c cs) : cs ≠ [] := by
  cases h <;> exact List.cons_ne_nil _ _

theorem chain_head? {v : FatVolume} {d : Disk} {c : Nat} {cs : List Nat} (h : Chain v d c cs) : cs.head? = some c := by
  cases h <;> rfl

theorem chain_get_zero {v : FatVolume} {d : Disk} {c : Nat} {cs : List Nat} (h : Chain v d c cs) : cs[0]? = some c := by
  cases h <;> rfl

theorem chain_length_pos {v : FatVolume} {d : Disk} {c : Nat} {cs : List Nat} (h : Chain v d c cs) : 0 < cs.length := by
  cases h <;> exact Nat.succ_pos _

theorem chain_inRange {v : FatVolume} {d : Disk} {c : Nat} {cs : List Nat} (h : Chain v d c cs) :
    ∀ x, x ∈ cs → InRange v x := by
  induction h with
  | last c hr _ =>
    intro x hx
    rw [List.mem_singleton] at hx
    subst hx; exact hr
  | link c n rest hr _ _ _ ih =>
    intro x hx
    rcases List.mem_cons.1 hx with hx | hx
    · subst hx; exact hr
    · exact ih x hx

theorem chain_nodup {v : FatVolume} {d : Disk} {c : Nat} {cs : List Nat} (h : Chain v d c cs) : cs.Nodup := by
  induction h with
  | last c _ _ => exact List.nodup_cons.2 ⟨List.not_mem_nil, List.nodup_nil⟩
  | link c n rest _ _ hnot _ ih => exact List.nodup_cons.2 ⟨hnot, ih⟩

theorem chain_inRange_get {v : FatVolume} {d : Disk} {c : Nat} {cs : List Nat} (h : Chain v d c cs)
    (k x : Nat) (hk : cs[k]? = some x) : InRange v x :=
  chain_inRange h x (List.mem_of_getElem? hk)

/-- The FAT entry of the `k`-th cluster of a chain points at the `k+1`-st. -/
theorem chain_next {v : FatVolume} {d : Disk} {c : Nat} {cs : List Nat} (h : Chain v d c cs) :
    ∀ (k x y : Nat), cs[k]? = some x → cs[k + 1]? = some y → nextOf v d x = .ok y := by
  induction h with
  | last c _ _ =>
    intro k x y _ hy
    simp at hy
  | link c n rest _ hn _ hrest ih =>
    intro k x y hx hy
    cases k with
    | zero =>
      have h0 := chain_get_zero hrest
      simp only [List.getElem?_cons_zero, Option.some.injEq] at hx
      simp only [Nat.zero_add, List.getElem?_cons_succ] at hy
      rw [h0] at hy
      cases hy; subst hx; exact hn
    | succ k =>
      simp only [List.getElem?_cons_succ] at hx hy
      exact ih k x y hx hy

/-- The FAT entry of the last cluster of a chain is an end-of-chain mark. -/
theorem chain_next_last {v : FatVolume} {d : Disk} {c : Nat} {cs : List Nat} (h : Chain v d c cs) :
    ∀ (k x : Nat), cs[k]? = some x → k + 1 = cs.length → nextOf v d x = .err .EndOfFile := by
  induction h with
  | last c _ he =>
    intro k x hx hk
    simp only [List.length_singleton] at hk
    have : k = 0 := by omega
    subst this
    simp only [List.getElem?_cons_zero, Option.some.injEq] at hx
    subst hx; exact he
  | link c n rest _ _ _ hrest ih =>
    intro k x hx hk
    cases k with
    | zero =>
      have := chain_length_pos hrest
      simp only [List.length_cons] at hk
      omega
    | succ k =>
      simp only [List.getElem?_cons_succ] at hx
      simp only [List.length_cons] at hk
      exact ih k x hx (by omega)

/-- A FAT has at most one chain from a given cluster. -/
theorem chain_unique {v : FatVolume} {d : Disk} {c : Nat} {cs : List Nat} (h : Chain v d c cs) :
    ∀ cs', Chain v d c cs' → cs = cs' := by
  induction h with
  | last c _ he =>
    intro cs' h'
    cases h' with
    | last _ _ _ => rfl
    | link _ n rest _ hn _ _ => rw [he] at hn; cases hn
  | link c n rest _ hn _ _ ih =>
    intro cs' h'
    cases h' with
    | last _ _ he => rw [he] at hn; cases hn
    | link _ n' rest' _ hn' _ hrest' =>
      rw [hn] at hn'
      cases hn'
      rw [ih rest' hrest']

/-- A chain depends only on the FAT blocks holding the entries of its clusters. -/
theorem chain_congr {v : FatVolume} {d d' : Disk} {c : Nat} {cs : List Nat} (h : Chain v d c cs)
    (hd : ∀ x, x ∈ cs → d'.get (fatBlock v x) = d.get (fatBlock v x)) : Chain v d' c cs := by
  induction h with
  | last c hr he =>
    refine Chain.last c hr ?_
    unfold nextOf fatRaw at he ⊢
    rw [hd c (List.mem_singleton.2 rfl)]; exact he
  | link c n rest hr hn hnot _ ih =>
    refine Chain.link c n rest hr ?_ hnot (ih fun x hx => hd x (List.mem_cons_of_mem _ hx))
    unfold nextOf fatRaw at hn ⊢
    rw [hd c List.mem_cons_self]; exact hn

/-! ### The engine on a chain -/

theorem bpc_eq (v : FatVolume) : bytesPerCluster v = clusterBytesLen v := rfl

/-- Data clusters of a well-formed volume pass the guard of `next_cluster`. -/
theorem inRange_le (v : FatVolume) (hg : WFGeom v) (c : Nat) (hc : InRange v c) : c ≤ U32_MAX / 4 := by
  have := lt_bound v hg c hc.2
  show c ≤ 4294967295 / 4
  cases hft : v.fatType <;> rw [hft] at this <;> simp only at this <;> omega

/-- On a fault-free state with a coherent cache, `next_cluster` of a data cluster returns what the
specification reads off the FAT; only the cache and the read bookkeeping move. -/
theorem nextCluster_spec (c : Nat) (s : FS) (hn : NoFault s) (hc : Coherent s) (hg : WFGeom s.vol)
    (hr : InRange s.vol c) :
    nextCluster c s = (nextOf s.vol s.dev.disk c, afterRead (fatBlock s.vol c) s) :=
  nextCluster_eq c s hn hc (inRange_le s.vol hg c hr)

theorem ro_afterRead (idx : Nat) (s : FS) : RO s (afterRead idx s) :=
  ⟨rfl, rfl, rfl, rfl, fun _ => afterRead_coherent idx s⟩

/-- Following `n` links from the `k`-th cluster of a chain reaches the `k+n`-th, `n` cluster sizes
further on; nothing but the cache and the read bookkeeping changes. -/
theorem walk_chain {c : Nat} {cs : List Nat} (bpc : Nat) :
    ∀ (n k o x y : Nat) (s : FS), NoFault s → Coherent s → WFGeom s.vol → Chain s.vol s.dev.disk c cs →
      cs[k]? = some x → cs[k + n]? = some y →
      ∃ s', walkClusters bpc n (o, x) s = (.ok ((o + n * bpc, y), .ok ()), s') ∧ RO s s' := by
  intro n
  induction n with
  | zero =>
    intro k o x y s _ _ _ _ hx hy
    rw [Nat.add_zero, hx] at hy
    cases hy
    exact ⟨s, by rw [Files.walk_zero, Nat.zero_mul, Nat.add_zero], RO.refl s⟩
  | succ n ih =>
    intro k o x y s hn hc hg hch hx hy
    have hlt : k + 1 < cs.length := by
      have := (List.getElem?_eq_some_iff.1 hy).1
      omega
    obtain ⟨z, hz⟩ : ∃ z, cs[k + 1]? = some z := ⟨cs[k + 1], List.getElem?_eq_getElem hlt⟩
    have hnext := nextCluster_spec x s hn hc hg (chain_inRange_get hch k x hx)
    rw [chain_next hch k x z hx hz] at hnext
    have hro := ro_afterRead (fatBlock s.vol x) s
    obtain ⟨s', hw, hro'⟩ := ih (k + 1) (o + bpc) z y (afterRead (fatBlock s.vol x) s)
      (hro.noFault hn) (hro.coherent hc) hg hch hz (by rw [← hy]; congr 1; omega)
    refine ⟨s', ?_, hro.trans hro'⟩
    rw [Files.walk_succ]
    simp only [hnext, hw, Prod.mk.injEq, Res.ok.injEq, and_true]
    rw [Nat.succ_mul]; omega

/-- Asking for more links than the chain has: the walk stops on the last cluster and reports
`EndOfFile`. -/
theorem walk_chain_end {c : Nat} {cs : List Nat} (bpc : Nat) :
    ∀ (n k o x last : Nat) (s : FS), NoFault s → Coherent s → WFGeom s.vol → Chain s.vol s.dev.disk c cs →
      cs[k]? = some x → cs.length ≤ k + n → cs[cs.length - 1]? = some last →
      ∃ s', walkClusters bpc n (o, x) s = (.ok ((o + (cs.length - 1 - k) * bpc, last), .err .EndOfFile), s') ∧
        RO s s' := by
  intro n
  induction n with
  | zero =>
    intro k o x last s _ _ _ _ hx hle _
    have := (List.getElem?_eq_some_iff.1 hx).1
    omega
  | succ n ih =>
    intro k o x last s hn hc hg hch hx hle hlast
    have hk := (List.getElem?_eq_some_iff.1 hx).1
    have hnext := nextCluster_spec x s hn hc hg (chain_inRange_get hch k x hx)
    have hro := ro_afterRead (fatBlock s.vol x) s
    by_cases hend : k + 1 = cs.length
    · rw [chain_next_last hch k x hx hend] at hnext
      have hkl : cs.length - 1 = k := by omega
      rw [hkl, hx] at hlast
      cases hlast
      refine ⟨_, ?_, hro⟩
      rw [Files.walk_succ]
      simp only [hnext, hkl, Nat.sub_self, Nat.zero_mul, Nat.add_zero]
    · have hlt : k + 1 < cs.length := by omega
      obtain ⟨z, hz⟩ : ∃ z, cs[k + 1]? = some z := ⟨cs[k + 1], List.getElem?_eq_getElem hlt⟩
      rw [chain_next hch k x z hx hz] at hnext
      obtain ⟨s', hw, hro'⟩ := ih (k + 1) (o + bpc) z last (afterRead (fatBlock s.vol x) s)
        (hro.noFault hn) (hro.coherent hc) hg hch hz (by omega) hlast
      refine ⟨s', ?_, hro.trans hro'⟩
      rw [Files.walk_succ]
      simp only [hnext, hw, Prod.mk.injEq, Res.ok.injEq, and_true]
      have : cs.length - 1 - k = (cs.length - 1 - (k + 1)) + 1 := by omega
      rw [this, Nat.succ_mul]; omega

/-! ### Lists of equally long pieces -/

theorem flatten_length_uniform {α : Type} (m : Nat) : ∀ (L : List (List α)), (∀ y, y ∈ L → y.length = m) →
    L.flatten.length = L.length * m
  | [], _ => by simp
  | y :: L, h => by
    rw [List.flatten_cons, List.length_append, flatten_length_uniform m L fun z hz => h z (List.mem_cons_of_mem _ hz),
      h y List.mem_cons_self, List.length_cons, Nat.succ_mul]
    omega

/-- A window that stays inside piece `i` of a concatenation of pieces of length `m`. -/
theorem flatten_drop_take {α : Type} (m : Nat) : ∀ (L : List (List α)) (i j n : Nat) (x : List α),
    (∀ y, y ∈ L → y.length = m) → L[i]? = some x → j + n ≤ m →
    (L.flatten.drop (i * m + j)).take n = (x.drop j).take n
  | [], i, j, n, x, _, hx, _ => by simp at hx
  | y :: L, 0, j, n, x, h, hx, hjn => by
    simp only [List.getElem?_cons_zero, Option.some.injEq] at hx
    subst hx
    have hy := h y List.mem_cons_self
    rw [Nat.zero_mul, Nat.zero_add, List.flatten_cons, List.drop_append_of_le_length (by omega),
      List.take_append_of_le_length (by rw [List.length_drop]; omega)]
  | y :: L, i + 1, j, n, x, h, hx, hjn => by
    simp only [List.getElem?_cons_succ] at hx
    have hy := h y List.mem_cons_self
    have : (i + 1) * m + j = y.length + (i * m + j) := by rw [Nat.succ_mul, hy]; omega
    rw [this, List.flatten_cons, List.drop_length_add_append]
    exact flatten_drop_take m L i j n x (fun z hz => h z (List.mem_cons_of_mem _ hz)) hx hjn

theorem take_drop_take {α : Type} (l : List α) (size off t : Nat) (h : off + t ≤ size) :
    ((l.take size).drop off).take t = (l.drop off).take t := by
  rw [List.drop_take, List.take_take, Nat.min_eq_left (by omega)]

theorem take_split {α : Type} (l : List α) (t n : Nat) (h : t ≤ n) :
    l.take t ++ (l.drop t).take (n - t) = l.take n := by
  have : n = t + (n - t) := by omega
  conv => rhs; rw [this, List.take_add]

/-! ### The bytes of a cluster and of a chain -/

theorem blocks_mem (v : FatVolume) (d : Disk) (c : Nat) (hb : BlocksOK d) :
    ∀ y, y ∈ (List.range v.blocksPerCluster).map (fun j => d.get (clusterToBlock v c + j)) → y.length = 512 := by
  intro y hy
  obtain ⟨j, _, rfl⟩ := List.mem_map.1 hy
  exact hb _

theorem clusterBytes_length (v : FatVolume) (d : Disk) (c : Nat) (hb : BlocksOK d) :
    (clusterBytes v d c).length = clusterBytesLen v := by
  unfold clusterBytes clusterBytesLen
  rw [flatten_length_uniform 512 _ (blocks_mem v d c hb), List.length_map, List.length_range]

theorem clusters_mem (v : FatVolume) (d : Disk) (cs : List Nat) (hb : BlocksOK d) :
    ∀ y, y ∈ cs.map (clusterBytes v d) → y.length = clusterBytesLen v := by
  intro y hy
  obtain ⟨c, _, rfl⟩ := List.mem_map.1 hy
  exact clusterBytes_length v d c hb

theorem chainBytes_length (v : FatVolume) (d : Disk) (cs : List Nat) (hb : BlocksOK d) :
    (chainBytes v d cs).length = cs.length * clusterBytesLen v := by
  unfold chainBytes
  rw [flatten_length_uniform _ _ (clusters_mem v d cs hb), List.length_map]

theorem fileContent_length (v : FatVolume) (d : Disk) (cs : List Nat) (size : Nat) (hb : BlocksOK d)
    (h : size ≤ cs.length * clusterBytesLen v) : (fileContent v d cs size).length = size := by
  unfold fileContent
  rw [List.length_take, chainBytes_length v d cs hb]; omega

/-- Where offset `o` of a chain lives: cluster `o / cb` of the chain, block `(o % cb) / 512` of that
cluster, byte `o % 512` of that block. -/
theorem offset_arith (bpc o : Nat) (h : 0 < bpc) :
    o = o / (bpc * 512) * (bpc * 512) + o % (bpc * 512) ∧
    o % (bpc * 512) = o % (bpc * 512) / 512 * 512 + o % 512 ∧
    o % (bpc * 512) / 512 < bpc := by
  have h1 := Nat.div_add_mod o (bpc * 512)
  have h2 := Nat.div_add_mod (o % (bpc * 512)) 512
  have h3 : o % (bpc * 512) % 512 = o % 512 := Nat.mod_mod_of_dvd o (Nat.dvd_mul_left 512 bpc)
  have h4 : o % (bpc * 512) < bpc * 512 := Nat.mod_lt _ (by omega)
  have h5 : o % (bpc * 512) / 512 < bpc := Nat.div_lt_of_lt_mul (by omega)
  refine ⟨?_, ?_, h5⟩
  · rw [Nat.mul_comm (o / (bpc * 512))]; exact h1.symm
  · rw [Nat.mul_comm (o % (bpc * 512) / 512), ← h3]; exact h2.symm

/-- A window of a chain's bytes that does not cross a block boundary is the same window of the
block it lies in. -/
theorem chain_slice (v : FatVolume) (d : Disk) (cs : List Nat) (o n c : Nat) (hb : BlocksOK d)
    (hpos : 0 < v.blocksPerCluster) (hc : cs[o / clusterBytesLen v]? = some c) (hn : n ≤ 512 - o % 512) :
    slice (d.get (clusterToBlock v c + o % clusterBytesLen v / 512)) (o % 512) n =
      ((chainBytes v d cs).drop o).take n := by
  obtain ⟨h1, h2, h3⟩ := offset_arith v.blocksPerCluster o hpos
  have hmod : o % 512 < 512 := Nat.mod_lt _ (by omega)
  unfold clusterBytesLen at hc ⊢
  -- inside the cluster
  have hA : ((chainBytes v d cs).drop o).take n =
      ((clusterBytes v d c).drop (o % (v.blocksPerCluster * 512))).take n := by
    conv => lhs; rw [h1]
    unfold chainBytes
    refine flatten_drop_take (v.blocksPerCluster * 512) _ _ _ _ _ (clusters_mem v d cs hb) ?_ (by omega)
    rw [List.getElem?_map, hc]; rfl
  -- inside the block
  have hB : ((clusterBytes v d c).drop (o % (v.blocksPerCluster * 512))).take n =
      ((d.get (clusterToBlock v c + o % (v.blocksPerCluster * 512) / 512)).drop (o % 512)).take n := by
    conv => lhs; rw [h2]
    unfold clusterBytes
    refine flatten_drop_take 512 _ _ _ _ _ (blocks_mem v d c hb) ?_ (by omega)
    rw [List.getElem?_map, List.getElem?_range h3]; rfl
  rw [hA, hB]; rfl

/-- Byte `o` of a chain is byte `o % 512` of block `(o % cb) / 512` of cluster `o / cb` of the chain. -/
theorem chain_byte (v : FatVolume) (d : Disk) (cs : List Nat) (o c : Nat) (hb : BlocksOK d)
    (hpos : 0 < v.blocksPerCluster) (hc : cs[o / clusterBytesLen v]? = some c) :
    (chainBytes v d cs)[o]? = (d.get (clusterToBlock v c + o % clusterBytesLen v / 512))[o % 512]? := by
  have hmod : o % 512 < 512 := Nat.mod_lt _ (by omega)
  have h := chain_slice v d cs o 1 c hb hpos hc (by omega)
  have h0 := congrArg (fun l => l[0]?) h
  simp only [slice, List.getElem?_take, List.getElem?_drop, Nat.add_zero, Nat.zero_lt_one, if_true] at h0
  exact h0.symm

/-! ### The same statements with the frame spelled out (as restated in `Props/C01Read.lean`) -/

/-- Medium, write log and volume record are the same; no fault scheduled; cache coherent. -/
def Kept (s s' : FS) : Prop :=
  s'.dev.disk = s.dev.disk ∧ s'.dev.wlog = s.dev.wlog ∧ s'.vol = s.vol ∧ NoFault s' ∧ Coherent s'

theorem ro_kept {s s' : FS} (h : RO s s') (hn : NoFault s) (hc : Coherent s) : Kept s s' :=
  ⟨h.disk, h.wlog, h.vol, h.noFault hn, h.coherent hc⟩

theorem nextCluster_kept (c : Nat) (s : FS) (hn : NoFault s) (hc : Coherent s) (hg : WFGeom s.vol)
    (hr : InRange s.vol c) :
    (nextCluster c s).1 = nextOf s.vol s.dev.disk c ∧ Kept s (nextCluster c s).2 := by
  rw [nextCluster_spec c s hn hc hg hr]
  exact ⟨rfl, ro_kept (ro_afterRead _ s) hn hc⟩

theorem walk_chain_kept {c : Nat} {cs : List Nat} (bpc n k o x y : Nat) (s : FS) (hn : NoFault s) (hc : Coherent s)
    (hg : WFGeom s.vol) (hch : Chain s.vol s.dev.disk c cs) (hx : cs[k]? = some x) (hy : cs[k + n]? = some y) :
    ∃ s', walkClusters bpc n (o, x) s = (.ok ((o + n * bpc, y), .ok ()), s') ∧ Kept s s' := by
  obtain ⟨s', h, hro⟩ := walk_chain bpc n k o x y s hn hc hg hch hx hy
  exact ⟨s', h, ro_kept hro hn hc⟩

theorem walk_chain_end_kept {c : Nat} {cs : List Nat} (bpc n k o x last : Nat) (s : FS) (hn : NoFault s)
    (hc : Coherent s) (hg : WFGeom s.vol) (hch : Chain s.vol s.dev.disk c cs) (hx : cs[k]? = some x)
    (hle : cs.length ≤ k + n) (hlast : cs[cs.length - 1]? = some last) :
    ∃ s', walkClusters bpc n (o, x) s = (.ok ((o + (cs.length - 1 - k) * bpc, last), .err .EndOfFile), s') ∧
      Kept s s' := by
  obtain ⟨s', h, hro⟩ := walk_chain_end bpc n k o x last s hn hc hg hch hx hle hlast
  exact ⟨s', h, ro_kept hro hn hc⟩

end Sdmmc.Lemmas.ChainL
