/-
C04 over whole calls, the primitives: each function of the FAT engine that issues device writes
directly — `update_fat`, the zeroing of a cluster, `write_entry_to_disk`, `update_info_sector`, the
block write of `write` — runs, on a sound state (`Sound`), to a sound state by writes that are within
the licence naming what it touches (`LicD`).
-/
import Sdmmc.Lemmas.WriteSetBase
import Sdmmc.Lemmas.CrashFat
import Sdmmc.Lemmas.DirEntryIO
import Sdmmc.Lemmas.DirFrames

namespace Sdmmc.Lemmas.WriteSet
open Sdmmc.Model Sdmmc.Model.Fat Sdmmc.Spec
open Sdmmc.Lemmas.FBasic hiding NoFault Coherent
open Sdmmc.Lemmas.FatOps hiding BlocksOK Mirror HintOK

/-! ### FAT entries -/

theorem fatEntOffset_aligned (v : FatVolume) (c c' : Nat) (h : fatEntOffset v c' ≠ fatEntOffset v c) :
    fatEntOffset v c' + entryWidth v.fatType ≤ fatEntOffset v c ∨ fatEntOffset v c + entryWidth v.fatType ≤ fatEntOffset v c' := by
  unfold fatEntOffset at h ⊢
  simp only [Gen.BLOCK_LEN_U32] at h ⊢
  rcases FatLens.entryWidth_cases v.fatType with hw | hw <;> rw [hw] at h ⊢ <;> omega

/-- Patching the entry of a licensed cluster `c` into the image `blk` of the FAT block `b` gives a
write of kind (a). -/
theorem fatWrite_patch (v : FatVolume) (d : Disk) (L : Licence) (b c val : Nat) (blk : Block)
    (hcl : c < endCluster v) (hh : HoldsEntry v b c) (hL : c ∈ L.fatClusters) (hblk : d.get b = blk) (hl : blk.length = 512) :
    FatWrite v d L (b, patchFatBlock v.fatType blk (fatEntOffset v c) val) := by
  have hle := FatLens.fatEntOffset_le v c
  refine ⟨⟨c, hcl, hh⟩, FatLens.patch_length _ _ _ _ hl hle, fun i hi => ?_, fun h32 c' _ hh' => ?_⟩
  · show (patchFatBlock v.fatType blk (fatEntOffset v c) val).getD i 0 = (d.get b).getD i 0
    rw [hblk]
    apply FatLens.patch_frame _ _ _ _ _ hl hle
    by_cases h1 : i < fatEntOffset v c
    · exact .inl h1
    · by_cases h2 : fatEntOffset v c + entryWidth v.fatType ≤ i
      · exact .inr h2
      · exact absurd ⟨c, hL, hh, by omega, by omega⟩ hi
  · show entryIn v (patchFatBlock v.fatType blk (fatEntOffset v c) val) c' / 268435456 = entryIn v (d.get b) c' / 268435456
    rw [hblk]
    unfold entryIn
    by_cases he : fatEntOffset v c' = fatEntOffset v c
    · rw [he, h32]
      rw [h32] at hle
      rw [FatLens.patch_get_fat32 blk _ val hl hle]
      show _ = readU32 blk (fatEntOffset v c) / 268435456
      omega
    · rw [FatLens.patch_get_other v.fatType blk _ _ val hl hle (by
        rcases fatEntOffset_aligned v c c' he with h | h
        · exact .inr h
        · exact .inl h)]

/-- `update_fat(c, val)` for a licensed cluster of the volume. -/
theorem updateFat_lic (s : FS) (c val : Nat) (hs : Sound s) (hcl : c < endCluster s.vol) (L : Licence)
    (hL : c ∈ L.fatClusters) :
    ∃ s', updateFat c val s = (.ok (), s') ∧ Sound s' ∧ s'.vol = s.vol ∧ LicD s.vol L s.dev s'.dev ∧
      s'.dev.disk = fatDisk s.vol s.dev.disk c (fatPayload s c val) := by
  obtain ⟨s', h, hc', hn', hv, hb', hw, hd, _, _, hmir, _⟩ :=
    DirFat.updateFat_frame s c val hs.noFault hs.coherent hs.geom hcl hs.blocksOK
  refine ⟨s', h, ⟨⟨hn', hc', hb', by rw [hv]; exact hs.geom, by rw [hv]; exact hs.hint⟩, by rw [hv]; exact (hmir hs.mirror).1⟩,
    hv, ?_, hd⟩
  have hl : (s.dev.disk.get (fatBlock s.vol c)).length = 512 := hs.blocksOK _
  have h1 : FatWrite s.vol s.dev.disk L (fatBlock s.vol c, fatPayload s c val) :=
    fatWrite_patch s.vol s.dev.disk L _ c val _ hcl (.inl rfl) hL rfl hl
  refine ⟨(fatWriteLog s.vol c (fatPayload s c val)).reverse,
    DTrace.of_log _ hw (by rw [hd, CrashFat.fatDisk_eq_applyWrites]; exact Eqv.refl _), ?_⟩
  unfold fatWriteLog
  cases h2 : fatBlock2 s.vol c with
  | none => exact ⟨.inl h1, trivial⟩
  | some b2 =>
    refine ⟨.inl h1, .inl ?_, trivial⟩
    have hne : fatBlock s.vol c ≠ b2 := fatBlock_ne_fatBlock2 s.vol hs.geom c c b2 hcl h2
    exact fatWrite_patch s.vol _ L b2 c val _ hcl (.inr h2) hL
      (by rw [Disk.get_set_ne _ _ _ _ hne]; exact hs.mirror c hcl b2 h2) hl

/-! ### Data blocks -/

/-- A list of writes of kind (b) is licensed on every medium. -/
theorem allLicensed_of_data (v : FatVolume) (L : Licence) : ∀ (ws : List (Nat × Block)) (d : Disk),
    (∀ w, w ∈ ws → DataWrite v L w) → AllLicensed v d L ws
  | [], _, _ => trivial
  | w :: ws, _, h => ⟨.inr (.inl (h w List.mem_cons_self)),
      allLicensed_of_data v L ws _ fun w' hw' => h w' (List.mem_cons_of_mem _ hw')⟩

/-- A block outside the FAT region was written: the FAT copies are as identical as before. -/
theorem mirror_set (v : FatVolume) (hg : WFGeom v) (d : Disk) (b : Nat) (p : Block) (hb : regionOf v b ≠ .fat)
    (hm : Mirror v d) : Mirror v (d.set b p) :=
  CrashBase.mirror_of_fat_same hg (fun i hi => Disk.get_set_ne _ _ _ _ (fun e => hb (by rw [e]; exact hi))) hm

theorem data_block_region (v : FatVolume) (hg : WFGeom v) (c b : Nat) (hr : InRange v c)
    (h1 : clusterToBlock v c ≤ b) (h2 : b < clusterToBlock v c + v.blocksPerCluster) : regionOf v b = .data := by
  have := FatLens.cluster_blocks_in_data_region v hg c (b - clusterToBlock v c) hr.1 hr.2 (by omega)
  rw [show clusterToBlock v c + (b - clusterToBlock v c) = b by omega] at this
  exact this

/-- Blanking `n` blocks from `first` on, all inside a licensed data cluster. -/
theorem zeroBlocks_lic (v : FatVolume) (L : Licence) (c : Nat) (hL : c ∈ L.dataClusters) (hr : InRange v c) :
    ∀ (n first : Nat) (s : FS), Sound s → s.vol = v → clusterToBlock v c ≤ first →
      first + n ≤ clusterToBlock v c + v.blocksPerCluster →
      ∃ s', zeroBlocks n first s = (.ok (), s') ∧ Sound s' ∧ s'.vol = s.vol ∧ LicD v L s.dev s'.dev
  | 0, first, s, hs, _, _, _ => ⟨s, rfl, hs, rfl, LicD.refl _ _ _⟩
  | n + 1, first, s, hs, hv, h1, h2 => by
    obtain ⟨hn1, hc1, hv1, hw1, hd1⟩ := afterZero_facts first s hs.noFault
    have hreg : regionOf v first = .data := data_block_region v (hv ▸ hs.geom) c first hr h1 (by omega)
    have hs1 : Sound (afterZero first s) := by
      refine ⟨⟨hn1, hc1, ?_, by rw [hv1]; exact hs.geom, by rw [hv1]; exact hs.hint⟩, ?_⟩
      · rw [hd1]; exact blocksOK_set _ _ _ hs.blocksOK zeroBlock_length
      · rw [hv1, hd1]
        exact mirror_set s.vol hs.geom _ _ _ (by rw [hv, hreg]; intro e; cases e) hs.mirror
    obtain ⟨s', hrun, hs', hv', hl'⟩ := zeroBlocks_lic v L c hL hr n (first + 1) (afterZero first s) hs1 (hv1.trans hv)
      (by omega) (by omega)
    refine ⟨s', by rw [zeroBlocks_succ n first s hs.noFault]; exact hrun, hs', hv'.trans hv1, ?_⟩
    refine LicD.trans (LicD.one (first, zeroBlock) hw1 hd1 (.inr (.inl ⟨zeroBlock_length, c, hL, hr, h1, by omega⟩))) hl'

/-- The block write of `write` into a block of a licensed data cluster. -/
theorem writeBlockPart_lic (s : FS) (L : Licence) (c blockIdx off : Nat) (data : Bytes) (whole : Bool) (hs : Sound s)
    (hL : c ∈ L.dataClusters) (hr : InRange s.vol c) (h1 : clusterToBlock s.vol c ≤ blockIdx)
    (h2 : blockIdx < clusterToBlock s.vol c + s.vol.blocksPerCluster) (hfit : off + data.length ≤ 512) :
    ∃ s', writeBlockPart blockIdx off data whole s = (.ok (), s') ∧ Sound s' ∧ s'.vol = s.vol ∧
      LicD s.vol L s.dev s'.dev ∧
      s'.dev.disk = s.dev.disk.set blockIdx (splice (if whole then zeroBlock else s.dev.disk.get blockIdx) off data) := by
  obtain ⟨s', h, hw, hd, hv, hn', hc'⟩ := Files.write_block_part_frame blockIdx off data whole s hs.noFault hs.coherent
  have hlen : (splice (if whole then zeroBlock else s.dev.disk.get blockIdx) off data).length = 512 := by
    have hb : (if whole then zeroBlock else s.dev.disk.get blockIdx).length = 512 := by
      split
      · exact zeroBlock_length
      · exact hs.blocksOK _
    rw [FatLens.splice_length _ _ _ (by rw [hb]; exact hfit), hb]
  have hreg : regionOf s.vol blockIdx = .data := data_block_region s.vol hs.geom c blockIdx hr h1 h2
  refine ⟨s', h, ⟨⟨hn', hc', ?_, by rw [hv]; exact hs.geom, by rw [hv]; exact hs.hint⟩, ?_⟩, hv, ?_, hd⟩
  · rw [hd]; exact blocksOK_set _ _ _ hs.blocksOK hlen
  · rw [hv, hd]; exact mirror_set s.vol hs.geom _ _ _ (by rw [hreg]; intro e; cases e) hs.mirror
  · exact LicD.one (blockIdx, _) hw hd (.inr (.inl ⟨hlen, c, hL, hr, h1, h2⟩))

/-! ### Directory slots -/

/-- `write_entry_to_disk(e)` when the slot of `e` is licensed and lies in a directory block. -/
theorem writeEntry_lic (s : FS) (e : DirEntry) (L : Licence) (hs : Sound s)
    (hL : (e.entryBlock, e.entryOffset) ∈ L.slots)
    (hreg : regionOf s.vol e.entryBlock = .root ∨ regionOf s.vol e.entryBlock = .data)
    (ho : e.entryOffset + 32 ≤ 512) (hname : e.name.length = 11) :
    ∃ s', writeEntryToDisk e s = (.ok (), s') ∧ Sound s' ∧ s'.vol = s.vol ∧ LicD s.vol L s.dev s'.dev ∧
      slice (s'.dev.disk.get e.entryBlock) e.entryOffset 32 = e.serialize s.vol.fatType ∧
      (∀ b, b ≠ e.entryBlock → s'.dev.disk.get b = s.dev.disk.get b) := by
  obtain ⟨s', h, hn', hc', hv, hb', ⟨p, hw, hd⟩, hob, hout, hin⟩ :=
    DirEntryIO.writeEntry_frame s e hs.noFault hs.coherent hs.blocksOK ho hname
  have hp : p = s'.dev.disk.get e.entryBlock := by rw [hd, Disk.get_set_self]
  refine ⟨s', h, ⟨⟨hn', hc', hb', by rw [hv]; exact hs.geom, by rw [hv]; exact hs.hint⟩, ?_⟩, hv, ?_, hin, hob⟩
  · rw [hv, hd]
    exact mirror_set s.vol hs.geom _ _ _ (by rcases hreg with h | h <;> rw [h] <;> intro e <;> cases e) hs.mirror
  · refine LicD.one (e.entryBlock, p) hw hd (.inr (.inr (.inl ⟨hreg, by rw [hp]; exact hb' _, ⟨_, hL⟩, fun i hi => ?_⟩)))
    show p.getD i 0 = _
    rw [hp]
    apply hout
    by_cases h1 : i < e.entryOffset
    · exact .inl h1
    · by_cases h2 : e.entryOffset + 32 ≤ i
      · exact .inr h2
      · exact absurd ⟨e.entryOffset, hL, by omega, by omega⟩ hi

/-! ### The info sector -/

/-- `update_info_sector`: nothing on FAT16 or with nothing to record; otherwise one write of the info
sector, bytes 488..495 only — licensed when the licence says so. -/
theorem updateInfoSector_lic (s : FS) (L : Licence) (hs : Sound s) (hL : s.vol.fatType = .fat32 → L.info = true) :
    ∃ s', updateInfoSector s = (.ok (), s') ∧ Sound s' ∧ s'.vol = s.vol ∧ LicD s.vol L s.dev s'.dev ∧
      (s.vol.fatType = .fat16 → s' = s) ∧
      (∀ b, (s.vol.fatType = .fat16 ∨ b ≠ s.vol.infoLocation) → s'.dev.disk.get b = s.dev.disk.get b) := by
  by_cases h : s.vol.fatType = .fat16 ∨ (s.vol.freeClustersCount = none ∧ s.vol.nextFreeCluster = none)
  · exact ⟨s, updateInfoSector_idle s h, hs, rfl, LicD.refl _ _ _, fun _ => rfl, fun _ _ => rfl⟩
  · have hft : s.vol.fatType = .fat32 := by
      cases hf : s.vol.fatType with
      | fat16 => exact absurd (.inl hf) h
      | fat32 => rfl
    obtain ⟨s1, h1, hn1, hc1, hv1, hd1, hw1⟩ :=
      DirEntryIO.updateInfoSector_state32 s hs.noFault hs.coherent hft (fun h' => h (.inr h'))
    obtain ⟨a, b, _, _⟩ := infoPatch_facts s.vol (s.dev.disk.get s.vol.infoLocation) (hs.blocksOK _)
    have hreg : regionOf s.vol s.vol.infoLocation = .info :=
      FatLens.info_block_in_info_region s.vol hs.geom hft (Reopen.fatStart_le_numBlocks s.vol hs.geom)
    refine ⟨s1, h1, ⟨⟨hn1, hc1, ?_, by rw [hv1]; exact hs.geom, by rw [hv1]; exact hs.hint⟩, ?_⟩, hv1, ?_,
      (fun h16 => by rw [hft] at h16; cases h16), fun b' hb' => ?_⟩
    · rw [hd1]; exact blocksOK_set _ _ _ hs.blocksOK a
    · rw [hv1, hd1]; exact mirror_set s.vol hs.geom _ _ _ (by rw [hreg]; intro e; cases e) hs.mirror
    · exact LicD.one (s.vol.infoLocation, _) hw1 hd1 (.inr (.inr (.inr (.inl ⟨hL hft, hft, rfl, a, b⟩))))
    · rcases hb' with h16 | hne
      · rw [hft] at h16; cases h16
      · rw [hd1, Disk.get_set_ne _ _ _ _ (fun e => hne e.symm)]

end Sdmmc.Lemmas.WriteSet
