/-
Lemmas for C14, part 14: the layout of a command frame.
-/
import Sdmmc.Lemmas.SdCmd
import Sdmmc.Lemmas.Crc

namespace Sdmmc.Lemmas.Sd
open Sdmmc.Model Sdmmc.Model.Sd Sdmmc.Gen Sdmmc.Spec

/-- Big-endian value of bytes 1..4 of a frame.  Same body as `Sdmmc.Props.C14.frameArg`. -/
def frameArg (f : Bytes) : Nat :=
  (f.getD 1 0).toNat * 16777216 + (f.getD 2 0).toNat * 65536 + (f.getD 3 0).toNat * 256 + (f.getD 4 0).toNat

/-- A byte as a bit vector.  Same body as `Sdmmc.Props.C14.toBV`. -/
def toBV8 (b : UInt8) : BitVec 8 := BitVec.ofNat 8 b.toNat

theorem end_bit : ∀ x : BitVec 8, ((x <<< 1) ||| 1#8).toNat % 2 = 1 := by decide

theorem frame_layout (c arg : Nat) (hc : c < 64) (ha : arg < 4294967296) :
    (frame c arg).length = 6 ∧
    (frame c arg).getD 0 0 = UInt8.ofNat (0x40 + c) ∧
    frameArg (frame c arg) = arg ∧
    toBV8 ((frame c arg).getD 5 0) = crc7 (((frame c arg).take 5).map toBV8) ∧
    toBV8 ((frame c arg).getD 5 0) = specCrc7 (((frame c arg).take 5).map toBV8) ∧
    ((frame c arg).getD 5 0).toNat % 2 = 1 := by
  have h5 : toBV8 ((frame c arg).getD 5 0) = crc7 (((frame c arg).take 5).map toBV8) := by
    simp only [frame, toBV8]
    simp
    simp [toBV8]
    rfl
  refine ⟨by simp [frame], ?_, ?_, h5, ?_, ?_⟩
  · simp [frame, or64 c hc]
  · simp [frame, frameArg]
    omega
  · rw [h5]; exact Lemmas.Crc.crc7_eq_spec _
  · have := congrArg BitVec.toNat h5
    simp only [toBV8, BitVec.toNat_ofNat] at this
    have hlt := UInt8.toNat_lt ((frame c arg).getD 5 0)
    rw [Nat.mod_eq_of_lt (by simpa using hlt)] at this
    rw [this]
    exact end_bit _

end Sdmmc.Lemmas.Sd
