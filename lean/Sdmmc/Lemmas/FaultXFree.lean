/-
C11 over histories, arbitrary fault placement — THE STAGES OF `free_cluster_chain` ON A CHAIN NOTHING REFERS TO.

`CrashFat.free_crash` describes every crash point of `free_cluster_chain(c)` (chain `c :: tail`) relative to the medium
before (`FreeCrash`): as before; `c` terminated and a prefix of `tail` freed; everything freed.  Here: at each of
these stages the medium still carries the invariant, the chain being replaced by what is left of it —
`[c]` and the rest of `tail`, two chains nothing refers to (`medX_free_stage`), or nothing (`medX_free_all`).
Hence `free_mx`: every crash point of `free_cluster_chain` on a lost chain satisfies `MedX` for some list of lost chains.
-/
import Sdmmc.Lemmas.VolXBase
import Sdmmc.Lemmas.VolMed3
import Sdmmc.Lemmas.CrashFat
import Sdmmc.Lemmas.ForestStep

namespace Sdmmc.Lemmas.FaultX
open Sdmmc.Model Sdmmc.Model.Fat Sdmmc.Spec.Volume Sdmmc.Lemmas.VolBase Sdmmc.Lemmas.VolTree
open Sdmmc.Spec hiding NoFault Coherent
open Sdmmc.Lemmas.VolDisk Sdmmc.Lemmas.VolMed Sdmmc.Lemmas.VolX
open Sdmmc.Lemmas.FBasic (NoFault Coherent)
open Sdmmc.Lemmas.CrashBase Sdmmc.Lemmas.CrashFat Sdmmc.Lemmas.ForestBase Sdmmc.Lemmas.ForestOwns Sdmmc.Lemmas.ForestStep

/-- What is left of `tail` after its first `j` clusters were freed, as a list of chains. -/
def restChains (tail : List Nat) (j : Nat) : List (List Nat) := if tail.drop j = [] then [] else [tail.drop j]

theorem restChains_flatten (tail : List Nat) (j : Nat) : (restChains tail j).flatten = tail.drop j := by
  unfold restChains
  split
  · next h => rw [h]; rfl
  · simp

theorem mem_restChains {tail : List Nat} {j : Nat} {cs : List Nat} (h : cs ∈ restChains tail j) :
    cs = tail.drop j ∧ tail.drop j ≠ [] := by
  unfold restChains at h
  split at h
  · cases h
  · next hne => exact ⟨List.mem_singleton.1 h, hne⟩

/-- **A stage of the freeing**: `c` terminated, the first `j` clusters of `tail` freed. -/
theorem owns_free_stage {v : FatVolume} {d1 d : Disk} {A B : List (List Nat)} {c : Nat} {tail : List Nat} (j : Nat)
    (ho : Owns v d1 (A ++ [c :: tail] ++ B)) (hst : Stage v d1 d [c] (tail.take j)) :
    Owns v d (A ++ ([c] :: restChains tail j) ++ B) := by
  have hch : Chain v d1 c (c :: tail) := by
    have := ho.1 (c :: tail) (List.mem_append_left _ (List.mem_append_right _ (List.mem_singleton.2 rfl)))
    simpa using this
  have hnodup := ho.2.1
  rw [flatten3, nodup3, flatten_one] at hnodup
  obtain ⟨_, ncs, _, dAM, _, dMB⟩ := hnodup
  have hcn : c ∉ tail := (List.nodup_cons.1 ncs).1
  have htn : tail.Nodup := (List.nodup_cons.1 ncs).2
  have hsplit : tail.take j ++ tail.drop j = tail := List.take_append_drop j tail
  have hdisjTD : ∀ x, x ∈ tail.take j → x ∉ tail.drop j := by
    intro x hx hx'
    have := htn
    rw [← hsplit, List.nodup_append] at this
    exact this.2.2 x hx x hx' rfl
  have hrange : ∀ x, x ∈ c :: tail → InRange v x := fun x hx => ChainL.chain_inRange hch x hx
  -- entries outside the touched clusters
  have hraw : ∀ x, x < endCluster v → x ≠ c → x ∉ tail.take j → fatRaw v d x = fatRaw v d1 x := by
    intro x hx hxc hxt
    apply hst.within.other x hx
    intro hm
    rcases List.mem_append.1 hm with hm | hm
    · exact hxc (List.mem_singleton.1 hm)
    · exact hxt hm
  have hnotTouched : ∀ x, x ∉ c :: tail → x ≠ c ∧ x ∉ tail.take j := fun x hx =>
    ⟨fun e => hx (e ▸ List.mem_cons_self), fun hm => hx (List.mem_cons_of_mem _ (List.mem_of_mem_take hm))⟩
  have heofc : nextOf v d c = .err .EndOfFile := hst.eof c (List.mem_singleton.2 rfl)
  apply owns_splice (v' := v) (d' := d) (mid' := [c] :: restChains tail j) ho rfl
  · intro x hx
    have hxG : x ∈ (A ++ [c :: tail] ++ B).flatten := (mem_flatten3 _ _ _ x).2 (hx.elim .inl (fun h => .inr (.inr h)))
    have hu := owns_mem_used ho hxG
    have hxn : x ∉ c :: tail := by
      intro hm
      rcases hx with hA | hB
      · exact dAM x hA hm
      · exact dMB x hm hB
    obtain ⟨h1, h2⟩ := hnotTouched x hxn
    exact nextOf_congr rfl (hraw x hu.1.2 h1 h2)
  · intro cs hcs
    rcases List.mem_cons.1 hcs with rfl | hcs
    · exact Chain.last c (hrange c List.mem_cons_self) heofc
    · obtain ⟨rfl, hne⟩ := mem_restChains hcs
      -- the rest of the tail is the chain of its first cluster, on the medium before, and its entries are untouched
      obtain ⟨y, rest, hyr⟩ : ∃ y rest, tail.drop j = y :: rest := by
        cases h : tail.drop j with
        | nil => exact absurd h hne
        | cons y rest => exact ⟨y, rest, rfl⟩
      have hsuf : Chain v d1 y (y :: rest) := by
        have : c :: tail = (c :: tail.take j) ++ y :: rest := by
          rw [List.cons_append, ← hyr, hsplit]
        rw [this] at hch
        exact chain_suffix _ hch
      rw [hyr]
      refine chain_transfer hsuf rfl fun x hx => ?_
      have hxt : x ∈ tail := by
        have : x ∈ tail.drop j := by rw [hyr]; exact hx
        exact List.mem_of_mem_drop this
      refine nextOf_congr rfl (hraw x (hrange x (List.mem_cons_of_mem _ hxt)).2 (fun e => hcn (e ▸ hxt)) ?_)
      intro hm
      exact hdisjTD x hm (by rw [hyr]; exact hx)
  · show (([c] :: restChains tail j).flatten).Nodup
    rw [List.flatten_cons, restChains_flatten]
    refine List.nodup_append.2 ⟨List.nodup_singleton c, (List.drop_sublist j tail).nodup htn, fun a ha b hb e => ?_⟩
    rw [List.mem_singleton] at ha
    subst ha; subst e
    exact hcn (List.mem_of_mem_drop hb)
  · intro x hx
    rw [List.flatten_cons, restChains_flatten] at hx
    have hxm : x ∈ c :: tail := by
      rcases List.mem_append.1 hx with hx | hx
      · rw [List.mem_singleton.1 hx]; exact List.mem_cons_self
      · exact List.mem_cons_of_mem _ (List.mem_of_mem_drop hx)
    exact ⟨fun hA => dAM x hA hxm, fun hB => dMB x hxm hB⟩
  · intro x
    rw [List.flatten_cons, restChains_flatten, flatten_one]
    by_cases hxc : x = c
    · subst hxc
      exact ⟨fun _ => .inl (List.mem_append_left _ (List.mem_singleton.2 rfl)),
        fun _ => ⟨hrange x List.mem_cons_self, not_free_of_eof heofc⟩⟩
    by_cases hxt : x ∈ tail.take j
    · have hfree := hst.free x hxt
      constructor
      · intro hu; exact absurd hfree hu.2.1
      · rintro (hm | ⟨_, hm⟩)
        · rcases List.mem_append.1 hm with hm | hm
          · exact absurd (List.mem_singleton.1 hm) hxc
          · exact absurd hm (hdisjTD x hxt)
        · exact absurd (List.mem_cons_of_mem _ (List.mem_of_mem_take hxt)) hm
    · by_cases hxE : x < endCluster v
      · rw [isUsed_congr_raw (hraw x hxE hxc hxt)]
        constructor
        · intro hu
          by_cases hm : x ∈ c :: tail
          · left
            rcases List.mem_cons.1 hm with e | hm
            · exact absurd e hxc
            · refine List.mem_append_right _ ?_
              have : x ∈ tail.take j ++ tail.drop j := by rw [hsplit]; exact hm
              rcases List.mem_append.1 this with h | h
              · exact absurd h hxt
              · exact h
          · exact .inr ⟨hu, hm⟩
        · rintro (hm | hm)
          · rcases List.mem_append.1 hm with hm | hm
            · exact absurd (List.mem_singleton.1 hm) hxc
            · have hxm : x ∈ c :: tail := List.mem_cons_of_mem _ (List.mem_of_mem_drop hm)
              exact owns_mem_used ho ((mem_flatten3 _ _ _ x).2 (.inr (.inl (by rw [flatten_one]; exact hxm))))
          · exact hm.1
      · constructor
        · intro hu; exact absurd hu.1.2 hxE
        · rintro (hm | hm)
          · rcases List.mem_append.1 hm with hm | hm
            · exact absurd (List.mem_singleton.1 hm) hxc
            · exact absurd (hrange x (List.mem_cons_of_mem _ (List.mem_of_mem_drop hm))).2 hxE
          · exact absurd hm.1.1.2 hxE

/-- **The last stage**: every cluster of the chain freed. -/
theorem owns_free_all {v : FatVolume} {d1 d : Disk} {A B : List (List Nat)} {c : Nat} {tail : List Nat}
    (ho : Owns v d1 (A ++ [c :: tail] ++ B)) (hst : Stage v d1 d [] (c :: tail)) :
    Owns v d (A ++ [] ++ B) := by
  have hnodup := ho.2.1
  rw [flatten3, nodup3, flatten_one] at hnodup
  obtain ⟨_, _, _, dAM, _, dMB⟩ := hnodup
  have hraw : ∀ x, x < endCluster v → x ∉ c :: tail → fatRaw v d x = fatRaw v d1 x := by
    intro x hx hxt
    exact hst.within.other x hx (by simpa using hxt)
  apply owns_splice (v' := v) (d' := d) (mid' := []) ho rfl
  · intro x hx
    have hxG : x ∈ (A ++ [c :: tail] ++ B).flatten := (mem_flatten3 _ _ _ x).2 (hx.elim .inl (fun h => .inr (.inr h)))
    have hu := owns_mem_used ho hxG
    have hxn : x ∉ c :: tail := by
      intro hm
      rcases hx with hA | hB
      · exact dAM x hA hm
      · exact dMB x hm hB
    exact nextOf_congr rfl (hraw x hu.1.2 hxn)
  · intro cs hcs; cases hcs
  · exact List.nodup_nil
  · intro x hx; cases hx
  · intro x
    rw [flatten_one]
    by_cases hm : x ∈ c :: tail
    · have hfree := hst.free x hm
      constructor
      · intro hu; exact absurd hfree hu.2.1
      · rintro (h | ⟨_, h⟩)
        · cases h
        · exact absurd hm h
    · by_cases hxE : x < endCluster v
      · rw [isUsed_congr_raw (hraw x hxE hm)]
        exact ⟨fun hu => .inr ⟨hu, hm⟩, fun h => h.elim (fun h => by cases h) (·.1)⟩
      · constructor
        · intro hu; exact absurd hu.1.2 hxE
        · rintro (h | h)
          · cases h
          · exact absurd h.1.1.2 hxE

/-! ### The invariant at the stages -/

section
variable {v : FatVolume} {d1 d : Disk} {files : List FileInfo} {gh : Ghost} {X : List (List Nat)} {c : Nat} {tail : List Nat}

/-- The directory blocks are as before at every stage (only FAT entries of the lost chain change). -/
theorem stage_blocks (hM : MedX v d1 files gh ((c :: tail) :: X)) {eofs freed : List Nat} (hst : Stage v d1 d eofs freed) :
    ∀ h, h ∈ dirIds gh.dirs → ∀ s, s ∈ dirSlots v d1 gh.G h → d.get s.1 = d1.get s.1 := by
  intro h hh s hs
  apply hst.within.nonFat _ _ id
  rcases dirSlot_not_fat hM hh hs with h1 | h1 <;> rw [h1] <;> intro e <;> cases e

theorem stage_files (hM : MedX v d1 files gh ((c :: tail) :: X)) {X' : List (List Nat)}
    (hown : Owns v d (gh.G ++ X')) :
    ∀ f, f ∈ files → FileOK v d f (chainOf gh.G f.entry.cluster) ∧ (chainOf gh.G f.entry.cluster = [] → f.curCluster < 2) := by
  intro f hf
  obtain ⟨hok, hcur⟩ := hM.fileOK f hf
  have hG := med_heads hM
  refine ⟨fileOK_of_owns (SameGeom.refl v) hok hown ?_, hcur⟩
  by_cases hnil : chainOf gh.G f.entry.cluster = []
  · exact .inl hnil
  · exact .inr (List.mem_append_left _ (chainOf_spec hG ((chainOf_ne_nil_iff hG).1 hnil)).1)

/-- A medium that looks like the one before. -/
theorem medX_view_stage (hM : MedX v d1 files gh ((c :: tail) :: X)) (hb : BlocksOK d) (hv : View v d1 d) :
    MedX v d files gh ((c :: tail) :: X) := by
  have hst := Stage.of_view hv
  refine med_congr hM (SameGeom.refl v) hM.hint hb hv.fat fun h hh => ?_
  exact dirSlots_congr (stage_blocks hM hst h hh)

/-- `c` terminated, `j` clusters of the tail freed: the lost chain is replaced by `[c]` and the rest of the tail. -/
theorem medX_free_stage (hM : MedX v d1 files gh ((c :: tail) :: X)) (hb : BlocksOK d) (j : Nat)
    (hst : Stage v d1 d [c] (tail.take j)) :
    MedX v d files gh ([c] :: restChains tail j ++ X) := by
  have ho : Owns v d1 (gh.G ++ [c :: tail] ++ X) := by rw [List.append_assoc]; exact hM.owns
  have hown : Owns v d (gh.G ++ ([c] :: restChains tail j ++ X)) := by
    have := owns_free_stage j ho hst
    rwa [List.append_assoc] at this
  have := medX_fat_update (G' := gh.G) (X' := [c] :: restChains tail j ++ X) hM (SameGeom.refl v) hM.hint hb hown
    (fun _ _ _ => rfl) (stage_blocks hM hst) rfl hM.tree (stage_files hM hown)
  exact ⟨this.blocksOK, this.geom, this.hint, this.owns, this.tree, this.fileOK⟩

/-- Everything freed: the lost chain is gone. -/
theorem medX_free_all (hM : MedX v d1 files gh ((c :: tail) :: X)) (hb : BlocksOK d)
    (hst : Stage v d1 d [] (c :: tail)) : MedX v d files gh X := by
  have ho : Owns v d1 (gh.G ++ [c :: tail] ++ X) := by rw [List.append_assoc]; exact hM.owns
  have hown : Owns v d (gh.G ++ X) := by
    have := owns_free_all ho hst
    rwa [List.append_nil] at this
  have := medX_fat_update (G' := gh.G) (X' := X) hM (SameGeom.refl v) hM.hint hb hown
    (fun _ _ _ => rfl) (stage_blocks hM hst) rfl hM.tree (stage_files hM hown)
  exact ⟨this.blocksOK, this.geom, this.hint, this.owns, this.tree, this.fileOK⟩

end

end Sdmmc.Lemmas.FaultX
