/-
Several open volumes, refinement: a call ADDRESSED TO A VOLUME.  From the facts about the state `s'` the call leaves
(`Lifted`: the simulation by the projection, the frame) and the one-volume refinement of the projected call
(`Abs t' gh' a'`: `Props.C01Fs`), the multi-volume abstract state `A'` — the one-volume successor `a'` put back next
to the untouched records and trees of the other volumes — has `a'` as its view (up to table order), keeps everything
else (`Kept`), and is an abstract counterpart of `s'` (`absN_target`).
-/
import Sdmmc.Lemmas.VolNAbs

namespace Sdmmc.Lemmas.VolN
open Sdmmc.Model Sdmmc.Model.Fat Sdmmc.Spec.Volume
open Sdmmc.Spec hiding NoFault Coherent run step
open Sdmmc.Spec.AbsFs (AbsFsN OpenFile OpenDir viewOf otherDirsA otherFilesA TPerm SameUpToOrder Kept onVolume absStep)
open Sdmmc.Lemmas.AbsFs (Abs FileRel absDir absSlots forall₂_length forall₂_mono forall₂_append)

/-- The one-volume successor `a'` put back into the multi-volume state `B`. -/
def putBack (B : AbsFsN) (hv : Nat) (a' : Spec.AbsFs.AbsFs) : AbsFsN :=
  { nextId := a'.nextId, maxVols := B.maxVols, maxDirs := B.maxDirs, maxFiles := B.maxFiles, clock := a'.clock,
    locked := a'.locked, vols := B.vols
    dirs := a'.dirs ++ otherDirsA B hv
    files := a'.files ++ otherFilesA B hv
    ids := fun hw => if hw = hv then a'.ids else B.ids hw
    slots := fun hw => if hw = hv then a'.slots else B.slots hw }

theorem filter_append_all {α : Type} (p : α → Bool) (l m : List α) (hl : ∀ x, x ∈ l → p x = true) :
    (l ++ m).filter p = l ++ m.filter p := by
  rw [List.filter_append, List.filter_eq_self.2 hl]

theorem filter_append_none {α : Type} (p : α → Bool) (l m : List α) (hl : ∀ x, x ∈ l → p x = false) :
    (l ++ m).filter p = m.filter p := by
  rw [List.filter_append, List.filter_eq_nil_iff.2 (fun x hx => by rw [hl x hx]; simp), List.nil_append]

theorem filter_filter_self {α : Type} (p : α → Bool) (l : List α) : (l.filter p).filter p = l.filter p :=
  List.filter_eq_self.2 fun _ hx => (List.mem_filter.1 hx).2

theorem filter_not_of_filter {α : Type} (p : α → Bool) (l : List α) : (l.filter fun x => !p x).filter p = [] :=
  List.filter_eq_nil_iff.2 fun x hx => by
    have := (List.mem_filter.1 hx).2
    simpa using this

section
variable {s s' t' : Mgr} {ghs : List Ghost} {B : AbsFsN} {i : Nat} {vi : VolInfo} {gh gh' : Ghost}

/-- **A call addressed to volume record `i`.** -/
theorem absN_target (hI : VolInvN s ghs) (hB : AbsNx s ghs B) (hvi : s.vols[i]? = some vi) (hgh : ghs[i]? = some gh)
    (hL : Lifted s s' t' i vi gh gh') (hI' : VolInvN s' (ghs.set i gh'))
    (hlim : s'.maxVols = s.maxVols ∧ s'.maxDirs = s.maxDirs ∧ s'.maxFiles = s.maxFiles)
    {a' : Spec.AbsFs.AbsFs} (hA' : Abs t' gh' a') :
    SameUpToOrder a' (viewOf (putBack B vi.rawVolume a') vi.rawVolume) ∧ Kept B (putBack B vi.rawVolume a') vi.rawVolume ∧
      AbsN s' (ghs.set i gh') (putBack B vi.rawVolume a') := by
  -- notation
  have hilt : i < s.vols.length := (List.getElem?_eq_some_iff.1 hvi).1
  have hiltg : i < ghs.length := by rw [hI.len]; exact hilt
  have hlen : s'.vols.length = s.vols.length := by simpa using congrArg List.length hL.volKeys
  obtain ⟨vi', hvi'⟩ : ∃ vi', s'.vols[i]? = some vi' := ⟨_, List.getElem?_eq_getElem (by rw [hlen]; exact hilt)⟩
  have hkey : vkey vi' = vkey vi := by
    have h1 : (s'.vols.map vkey)[i]? = some (vkey vi') := by rw [List.getElem?_map, hvi']; rfl
    have h2 : (s.vols.map vkey)[i]? = some (vkey vi) := by rw [List.getElem?_map, hvi]; rfl
    rw [hL.volKeys, h2] at h1
    exact (Option.some.inj h1).symm
  have hraw' : vi'.rawVolume = vi.rawVolume := congrArg Prod.fst hkey
  have hother : ∀ j, j ≠ i → s'.vols[j]? = s.vols[j]? := fun j hj => getElem?_of_eraseIdx_eq hL.restVols hlen hj
  have htv : t'.vols = [vi'] := by rw [hL.rel.vols, hvi']; rfl
  have hdisk : t'.dev.disk = s'.dev.disk := by rw [hL.rel.dev]
  have hgi : (ghs.set i gh')[i]? = some gh' := List.getElem?_set_self hiltg
  -- the records of the view afterwards all name the volume
  have hownD : ∀ x, x ∈ a'.dirs → decide (x.volume = vi.rawVolume) = true := by
    intro x hx
    rw [hA'.dirs] at hx
    obtain ⟨d, hd, rfl⟩ := List.mem_map.1 hx
    exact (List.mem_filter.1 (hL.rel.dirs.subset hd)).2
  have hownF : ∀ x, x ∈ a'.files → decide (x.volume = vi.rawVolume) = true := by
    intro x hx
    obtain ⟨k, hk⟩ := List.getElem?_of_mem hx
    rcases AbsFs.forall₂_getElem? hA'.files k with ⟨h1, _⟩ | ⟨x', y, h1, h2, hr⟩
    · rw [h1] at hk; cases hk
    · rw [h1] at hk; cases hk
      have := (List.mem_filter.1 (hL.rel.files.subset (List.mem_of_getElem? h2))).2
      rw [hr.volume]
      simpa using this
  -- counting the other records
  have hdirsO : (otherDirsA B vi.rawVolume).length = (otherDirs s vi.rawVolume).length := by
    unfold otherDirsA otherDirs
    rw [hB.dirs, List.filter_map, List.length_map]
    rfl
  have hfilesO : (otherFilesA B vi.rawVolume).length = (otherFiles s vi.rawVolume).length := by
    unfold otherFilesA otherFiles
    exact forall₂_length (forall₂_filter hB.files _ _ fun x y hr => by rw [fileRelN_volume hr])
  have hoD : otherDirsA (putBack B vi.rawVolume a') vi.rawVolume = otherDirsA B vi.rawVolume := by
    show (a'.dirs ++ otherDirsA B vi.rawVolume).filter _ = _
    rw [filter_append_none _ _ _ fun x hx => by simp [hownD x hx]]
    exact filter_filter_self _ _
  have hoF : otherFilesA (putBack B vi.rawVolume a') vi.rawVolume = otherFilesA B vi.rawVolume := by
    show (a'.files ++ otherFilesA B vi.rawVolume).filter _ = _
    rw [filter_append_none _ _ _ fun x hx => by simp [hownF x hx]]
    exact filter_filter_self _ _
  refine ⟨?_, ?_, ?_⟩
  · -- the view of the new state is the one-volume successor
    refine
      { nextId := rfl, clock := rfl, locked := rfl, ids := by show a'.ids = if _ then _ else _; rw [if_pos rfl]
        maxDirs := ?_, maxFiles := ?_, vols := ?_, dirs := ?_, files := ?_, slots := ?_ }
    · show a'.maxDirs = B.maxDirs - (otherDirsA (putBack B vi.rawVolume a') vi.rawVolume).length
      rw [hoD, hA'.maxDirs, hL.rel.maxDirs, hL.restDirs.length_eq, hlim.2.1, hB.maxDirs, hdirsO]
    · show a'.maxFiles = B.maxFiles - (otherFilesA (putBack B vi.rawVolume a') vi.rawVolume).length
      rw [hoF, hA'.maxFiles, hL.rel.maxFiles, hL.restFiles.length_eq, hlim.2.2, hB.maxFiles, hfilesO]
    · show a'.vols = B.vols.filter _
      rw [hA'.vols, htv, hB.vols, filter_handle hI.handles hvi]
      show [vkey vi'] = [vkey vi]
      rw [hkey]
    · show a'.dirs.Perm ((a'.dirs ++ otherDirsA B vi.rawVolume).filter _)
      rw [filter_append_all _ _ _ hownD]
      have : (otherDirsA B vi.rawVolume).filter (fun d => decide (d.volume = vi.rawVolume)) = [] := filter_not_of_filter _ _
      rw [this, List.append_nil]
    · show a'.files.Perm ((a'.files ++ otherFilesA B vi.rawVolume).filter _)
      rw [filter_append_all _ _ _ hownF]
      have : (otherFilesA B vi.rawVolume).filter (fun d => decide (d.volume = vi.rawVolume)) = [] := filter_not_of_filter _ _
      rw [this, List.append_nil]
    · intro h _
      show a'.slots h = (if vi.rawVolume = vi.rawVolume then a'.slots else B.slots vi.rawVolume) h
      rw [if_pos rfl]
  · -- nothing else changed
    exact
      { maxVols := rfl, maxDirs := rfl, maxFiles := rfl, vols := rfl, dirs := by rw [hoD], files := by rw [hoF]
        ids := fun hw hne => by show (if hw = vi.rawVolume then _ else _) = _; rw [if_neg hne]
        slots := fun hw hne => by show (if hw = vi.rawVolume then _ else _) = _; rw [if_neg hne] }
  · -- the new state is an abstract counterpart of `s'`
    -- the file table in the order of `s'`
    have hMt := hL.inv.med
    have hownRel : List.Forall₂ (FileRelN s' (ghs.set i gh')) a'.files t'.files := by
      refine forall₂_mono hA'.files fun af f hf hr => ?_
      have hfv : f.rawVolume = vi.rawVolume := by simpa using (List.mem_filter.1 (hL.rel.files.subset hf)).2
      refine ⟨i, vi', gh', hvi', hgi, hfv.trans hraw'.symm, fileRel_dev hr fun x _ => by rw [hdisk]⟩
    have hothRel : List.Forall₂ (FileRelN s' (ghs.set i gh')) (otherFilesA B vi.rawVolume) (otherFiles s vi.rawVolume) := by
      have h1 := forall₂_filter hB.files (fun f => !decide (f.volume = vi.rawVolume)) (fun f => !decide (f.rawVolume = vi.rawVolume))
        fun x y hr => by rw [fileRelN_volume hr]
      refine forall₂_mono h1 fun af f hf hr => ?_
      obtain ⟨j, vj, gj, hvj, hgj, hraw, hrel⟩ := hr
      have hne : f.rawVolume ≠ vi.rawVolume := by simpa using (List.mem_filter.1 hf).2
      have hji : j ≠ i := fun e => hne (by subst e; rw [hvi] at hvj; cases hvj; exact hraw)
      refine ⟨j, vj, gj, (hother j hji).trans hvj, by rw [List.getElem?_set_ne (Ne.symm hji)]; exact hgj, hraw, ?_⟩
      have hMj := hI.med j vj gj hvj hgj
      refine fileRel_dev hrel fun x hx => dirSlots_partition hMj (fun b hb => ?_) hx
      apply hL.frame
      rw [← hI.vols i vi gh hvi hgh]
      rw [← hI.vols j vj gj hvj hgj] at hb
      exact fun hbi => hI.parts i j vi vj hvi hvj (Ne.symm hji) b hbi hb
    have hperm : (t'.files ++ otherFiles s vi.rawVolume).Perm s'.files :=
      ((hL.rel.files.append hL.restFiles.symm).trans (filter_partition_perm _ s'.files))
    obtain ⟨fl, hflp, hflr⟩ := forall₂_perm_right hperm (forall₂_append hownRel hothRel)
    refine ⟨{ putBack B vi.rawVolume a' with dirs := s'.dirs.map absDir, files := fl }, ?_, ?_⟩
    · refine ⟨rfl, rfl, rfl, rfl, rfl, rfl, rfl, ?_, hflp, rfl, rfl⟩
      show (a'.dirs ++ otherDirsA B vi.rawVolume).Perm (s'.dirs.map absDir)
      have e1 : a'.dirs = t'.dirs.map absDir := hA'.dirs
      have e2 : otherDirsA B vi.rawVolume = (otherDirs s vi.rawVolume).map absDir := by
        unfold otherDirsA otherDirs
        rw [hB.dirs, List.filter_map]
        rfl
      rw [e1, e2, ← List.map_append]
      exact (((hL.rel.dirs.append hL.restDirs.symm).trans (filter_partition_perm _ s'.dirs))).map _
    · refine
        { nextId := by show a'.nextId = _; rw [hA'.nextId, hL.rel.nextId]
          maxVols := by show B.maxVols = _; rw [hB.maxVols, hlim.1]
          maxDirs := by show B.maxDirs = _; rw [hB.maxDirs, hlim.2.1]
          maxFiles := by show B.maxFiles = _; rw [hB.maxFiles, hlim.2.2]
          clock := by show a'.clock = _; rw [hA'.clock, hL.rel.clock]
          locked := by show a'.locked = _; rw [hA'.locked, hL.rel.locked]
          vols := by show B.vols = _; rw [hB.vols]; exact hL.volKeys.symm
          dirs := rfl, files := hflr, trees := ?_ }
      intro j vj gj hvj hgj
      by_cases hji : j = i
      · subst hji
        rw [hvi'] at hvj; cases hvj
        rw [hgi] at hgj; cases hgj
        rw [hraw']
        refine ⟨by show (if _ then a'.ids else _) = _; rw [if_pos rfl]; exact hA'.ids, fun h hh => ?_⟩
        show (if vi.rawVolume = vi.rawVolume then a'.slots else _) h = _
        rw [if_pos rfl, hA'.slots h hh]
        exact (absSlots_congr (t := t') (t' := projH vi.rawVolume j s') hMt (fun b _ => by show s'.dev.disk.get b = _; rw [hdisk])
          hL.rel.files hh).symm
      · rw [hother j hji] at hvj
        rw [List.getElem?_set_ne (Ne.symm hji)] at hgj
        have hne : vj.rawVolume ≠ vi.rawVolume := fun e => hji (index_of_handle hI.handles hvj hvi e)
        obtain ⟨h1, h2⟩ := hB.trees j vj gj hvj hgj
        refine ⟨by show (if _ then _ else B.ids _) = _; rw [if_neg hne]; exact h1, fun h hh => ?_⟩
        show (if vj.rawVolume = vi.rawVolume then _ else B.slots vj.rawVolume) h = _
        rw [if_neg hne, h2 h hh]
        have hMj := hI.med j vj gj hvj hgj
        refine (absSlots_congr (t := projH vj.rawVolume j s) (t' := projH vj.rawVolume j s') hMj (fun b hb => ?_) ?_ hh).symm
        · show s'.dev.disk.get b = s.dev.disk.get b
          apply hL.frame
          rw [← hI.vols i vi gh hvi hgh]
          rw [← hI.vols j vj gj hvj hgj] at hb
          exact fun hbi => hI.parts i j vi vj hvi hvj (Ne.symm hji) b hbi hb
        · show (volFiles s vj.rawVolume).Perm (volFiles s' vj.rawVolume)
          rw [volFiles_of_other hne, volFiles_of_other hne]
          exact (hL.restFiles.filter _).symm

end

/-- The ghosts of one state with an open volume describe the same volume record. -/
theorem ghost_vol_unique {t : Mgr} {gh gh' : Ghost} (h1 : VolInv t gh) (h2 : VolInv t gh') (hne : t.vols ≠ []) :
    gh.vol = gh'.vol := by
  rcases h1.vols with e | ⟨v1, e1, g1⟩
  · exact absurd e hne
  · rcases h2.vols with e | ⟨v2, e2, g2⟩
    · exact absurd e hne
    · rw [e1] at e2
      cases e2
      rw [← g1, ← g2]

/-- Any ghost of the state the projection reaches has the geometry the volume had. -/
theorem Lifted.geom_of_inv {s s' t' : Mgr} {i : Nat} {vi : VolInfo} {gh gh'' gh' : Ghost} (hvi : s.vols[i]? = some vi)
    (hL : Lifted s s' t' i vi gh gh'') (hV : VolInv t' gh') : SameGeom gh.vol gh'.vol := by
  have hlen : s'.vols.length = s.vols.length := by simpa using congrArg List.length hL.volKeys
  have hilt : i < s'.vols.length := by rw [hlen]; exact (List.getElem?_eq_some_iff.1 hvi).1
  have hne : t'.vols ≠ [] := by
    rw [hL.rel.vols, List.getElem?_eq_getElem hilt]
    exact fun e => by cases e
  rw [ghost_vol_unique hV hL.inv hne]
  exact hL.geom

end Sdmmc.Lemmas.VolN
