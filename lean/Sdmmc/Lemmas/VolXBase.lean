/-
The volume invariant WITH LOST CHAINS: `VolInvX X s gh` is `VolInv s gh` (`Spec/Volume.lean`) with `Owns` taken of
`gh.G ++ X` — the chains of the ghost AND the chains `X` that nothing refers to (`MedX … X` of `Lemmas/VolMed.lean`).
`VolInvX [] = VolInv`.  The files `Lemmas/VolX*.lean` restate the API layer of C03 (`Lemmas/VolApi*.lean`) from it:
no fault-free call touches, hands out or walks a lost chain.
-/
import Sdmmc.Lemmas.VolMed
import Sdmmc.Lemmas.VolFacts

namespace Sdmmc.Lemmas.VolX
open Sdmmc.Model Sdmmc.Model.Fat Sdmmc.Spec Sdmmc.Spec.Volume Sdmmc.Lemmas.VolMed Sdmmc.Lemmas.VolTree

/-- `VolInv` with lost chains `X`. -/
structure VolInvX (X : List (List Nat)) (s : Mgr) (gh : Ghost) : Prop where
  noFault : s.dev.faults = []
  coherent : ∀ i, s.cache.tag = some i → s.cache.blk = s.dev.disk.get i
  unlocked : s.locked = false
  maxVols : s.maxVols = 1
  vols : s.vols = [] ∨ ∃ vi, s.vols = [vi] ∧ vi.vol = gh.vol
  med : MedX gh.vol s.dev.disk s.files gh X
  fileVols : ∀ f, f ∈ s.files → ∃ vi, s.vols = [vi] ∧ f.rawVolume = vi.rawVolume
  openDirs : ∀ di, di ∈ s.dirs → ValidDir gh.dirs di.cluster

theorem volInvX_nil {s : Mgr} {gh : Ghost} : VolInvX [] s gh ↔ VolInv s gh :=
  ⟨fun h => ⟨h.noFault, h.coherent, h.unlocked, h.maxVols, h.vols, med_of_medX h.med, h.fileVols, h.openDirs⟩,
   fun h => ⟨h.noFault, h.coherent, h.unlocked, h.maxVols, h.vols, medX_of_med h.med, h.fileVols, h.openDirs⟩⟩

/-- Shims: in the restated files `medX_of_med` / `med_of_medX` are the identity. -/
theorem medX_of_med {v : FatVolume} {d : Disk} {files : List FileInfo} {gh : Ghost} {X : List (List Nat)}
    (h : MedX v d files gh X) : MedX v d files gh X := h
theorem med_of_medX {v : FatVolume} {d : Disk} {files : List FileInfo} {gh : Ghost} {X : List (List Nat)}
    (h : MedX v d files gh X) : MedX v d files gh X := h

theorem headsOK_sub {G G' : List (List Nat)} (h : HeadsOK G) (hs : G'.Sublist G) : HeadsOK G' :=
  ⟨fun cs hcs => h.ne cs (hs.subset hcs), fun cs hcs => h.ge cs (hs.subset hcs), (hs.map _).nodup h.nodup⟩

end Sdmmc.Lemmas.VolX
