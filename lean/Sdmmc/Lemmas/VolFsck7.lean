/-
Bridge `VolInv` → `Spec.Fs.fsck`, layer F5 (part 3): one step of the fold over the objects of a directory
(`objStep_ok`) — a skipped dot name, a sub-directory (the recursive call, by hypothesis) or a file (its chain is
found, claimed without a clash, and long enough for the size) — adds no problem and claims only clusters of the
object's region `RegF`.
-/
import Sdmmc.Lemmas.VolFsck6

namespace Sdmmc.Lemmas.VolFsck
open Sdmmc.Model Sdmmc.Model.Fat Sdmmc.Spec Sdmmc.Spec.Volume
open Sdmmc.Lemmas.VolTree Sdmmc.Lemmas.VolMed Sdmmc.Lemmas.VolBase
open Sdmmc.Spec.Fs (Acc DirRef Pending Geom)

theorem subpath_ne (path n : String) (h : 1 ≤ path.length) : path ++ n ++ "/" ≠ "/" ∧ 1 ≤ (path ++ n ++ "/").length := by
  have h1 : "/".length = 1 := rfl
  have h2 : (path ++ n ++ "/").length = path.length + n.length + 1 := by
    rw [String.length_append, String.length_append, h1]
  constructor
  · intro e
    have := congrArg String.length e
    rw [h2, h1] at this
    omega
  · omega

/-- Named `.` or `..` (the checker skips such objects). -/
def dotsB (o : Slot) : Bool := decide (sName o = Sfn.thisDir) || decide (sName o = Sfn.parentDir)

theorem isDots_cv (x : Fs.Slot) : Fs.isDots x = dotsB (cv x) := rfl

/-- The clusters an entry of a directory stands for: nothing if it is named `.`/`..`, else the chains of its tokens. -/
def RegV (s : Mgr) (gh : Ghost) (o : Slot) (y : Nat) : Prop := dotsB o = false ∧ ∃ t, Tok s gh o t ∧ y ∈ chainOf gh.G t

theorem entries_dots {ft : FatType} {h p : Nat} {s0 s1 : Slot} {rest : List Slot} (h0 : IsDot ft Sfn.thisDir h s0)
    (h1 : IsDot ft Sfn.parentDir p s1) : entries (s0 :: s1 :: rest) = s0 :: s1 :: entries rest := by
  obtain ⟨a0, k0⟩ := VolTree.isDot_keep h0 VolTree.thisDir_first
  obtain ⟨a1, k1⟩ := VolTree.isDot_keep h1 VolTree.parentDir_first
  rw [entries_eq, entries_eq, beforeEnd_cons_nz _ _ a0, beforeEnd_cons_nz _ _ a1, List.filter_cons, List.filter_cons]
  simp only [k0, k1, if_true]

section
variable {s : Mgr} {gh : Ghost} {g : Geom} {fat : Array Nat}

/-- The entries of a directory: its objects, after the two dot entries in a sub-directory. -/
theorem entries_shape (hI : VolInv s gh) {h : Nat} (hh : h ∈ dirIds gh.dirs) :
    (h = 0 ∧ entries (dirSlots gh.vol s.dev.disk gh.G h) = objects h (dirSlots gh.vol s.dev.disk gh.G h)) ∨
    (h ≠ 0 ∧ ∃ s0 s1, dotsB s0 = true ∧ dotsB s1 = true ∧
      entries (dirSlots gh.vol s.dev.disk gh.G h) = s0 :: s1 :: objects h (dirSlots gh.vol s.dev.disk gh.G h)) := by
  by_cases h0 : h = 0
  · left
    refine ⟨h0, ?_⟩
    unfold objects; rw [if_pos h0]
  · right
    refine ⟨h0, ?_⟩
    rcases mem_dirIds.1 hh with e | ⟨p, hp⟩
    · exact absurd e h0
    · obtain ⟨s0, s1, rest, hsl, hd0, hd1⟩ := hI.med.tree.dots h p hp
      refine ⟨s0, s1, ?_, ?_, ?_⟩
      · unfold dotsB; rw [hd0.1]; simp
      · unfold dotsB; rw [hd1.1]; simp
      · unfold objects
        rw [if_neg h0, hsl, entries_dots hd0 hd1]
        rfl

/-- An entry the checker does not skip is an object of the directory. -/
theorem entry_is_object (hI : VolInv s gh) {h : Nat} (hh : h ∈ dirIds gh.dirs) {o : Slot}
    (ho : o ∈ entries (dirSlots gh.vol s.dev.disk gh.G h)) (hd : dotsB o = false) :
    o ∈ objects h (dirSlots gh.vol s.dev.disk gh.G h) := by
  rcases entries_shape hI hh with ⟨_, e⟩ | ⟨_, s0, s1, d0, d1, e⟩
  · rw [← e]; exact ho
  · rw [e] at ho
    rcases List.mem_cons.1 ho with rfl | ho
    · rw [d0] at hd; cases hd
    · rcases List.mem_cons.1 ho with rfl | ho
      · rw [d1] at hd; cases hd
      · exact ho

/-- No open file sits at a sub-directory entry. -/
theorem pendOf_dir_none (hI : VolInv s gh) {h : Nat} (hh : h ∈ dirIds gh.dirs) {o : Slot}
    (ho : o ∈ objects h (dirSlots gh.vol s.dev.disk gh.G h)) (hd : isDirE o = true) : pendOf s.files o = none := by
  have hM := medX_of_med hI.med
  rw [pendOf_none_iff]
  intro f hf hk
  obtain ⟨x, hx, A, o', B, hO, hpo, hd', _⟩ := file_object hM.tree hf
  have ho' : o' ∈ objects x (dirSlots gh.vol s.dev.disk gh.G x) := by rw [hO]; simp
  have hsame : spos o' = spos o := hpo.trans hk
  have hxh : x = h := by
    by_contra hne
    exact dirSlots_pos_disjoint hM hx hh hne _ _ (mem_of_mem_objects ho') (mem_of_mem_objects ho) hsame
  subst hxh
  have := List.inj_on_of_nodup_map (dirSlots_pos_nodup hM hx s.dev.disk) (mem_of_mem_objects ho') (mem_of_mem_objects ho) hsame
  subst this
  rw [hd] at hd'
  cases hd'

theorem parentArg_eq {v : FatVolume} {h : Nat} {path : String} (hpath : path = "/" ↔ h = 0) :
    parentArg (refOf v h) path = h := by
  unfold refOf parentArg
  by_cases hf : isFixedRoot v h
  · rw [if_pos hf]; exact hf.1.symm
  · rw [if_neg hf]
    simp only
    by_cases hp : path = "/"
    · rw [if_pos hp]; exact (hpath.1 hp).symm
    · rw [if_neg hp]
      unfold dirHead
      rw [if_neg (fun e => hp (hpath.2 e))]

theorem refOf_sub {v : FatVolume} {c : Nat} (hc : c ≠ 0) : refOf v c = .at c := by
  unfold refOf
  rw [if_neg (fun hf => hc hf.1)]
  unfold dirHead
  rw [if_neg hc]

/-- What the recursive call of `checkDir` is assumed to do for the sub-directories of `h`. -/
def RecOK (s : Mgr) (gh : Ghost) (h : Nat) (rec : DirRef → Nat → Nat → String → Acc → Acc) : Prop :=
  ∀ c, (c, h) ∈ gh.dirs → ∀ (path' : String) (a : Acc), path' ≠ "/" → 1 ≤ path'.length → a.problems = [] →
    (∀ y, Has a y → ¬ Region s gh c y) →
    (rec (.at c) c h path' a).problems = [] ∧ ∀ y, Has (rec (.at c) c h path' a) y → Has a y ∨ Region s gh c y

/-- **One object.** -/
theorem objStep_ok (hI : VolInv s gh) (hg : GeomOf gh.vol g) (hfat : FatIs gh.vol s.dev.disk fat)
    (h1 : NoOne gh.vol s.dev.disk) (sc : Bool) {h : Nat} (hh : h ∈ dirIds gh.dirs) {path : String} (hpath : path = "/" ↔ h = 0)
    (hplen : 1 ≤ path.length) {rec : DirRef → Nat → Nat → String → Acc → Acc} (hrec : RecOK s gh h rec)
    {x : Fs.Slot} (hx : cv x ∈ entries (dirSlots gh.vol s.dev.disk gh.G h)) {a : Acc} (ha : a.problems = [])
    (hfree : ∀ y, Has a y → ¬ RegV s gh (cv x) y) :
    (objStep g fat (pendingOf s) sc rec (refOf gh.vol h) path a x).problems = [] ∧
      ∀ y, Has (objStep g fat (pendingOf s) sc rec (refOf gh.vol h) path a x) y → Has a y ∨ RegV s gh (cv x) y := by
  have hM := medX_of_med hI.med
  have hG := med_heads hM
  have hT := hI.med.tree
  unfold objStep
  cases hdots : Fs.isDots x with
  | true => exact ⟨ha, fun y hy => .inl hy⟩
  | false =>
    have hdv : dotsB (cv x) = false := by rw [← isDots_cv]; exact hdots
    have ho := entry_is_object hI hh hx hdv
    simp only [Bool.false_eq_true, if_false, effective_cv hg]
    cases hd : isDirE (cv x) with
    | true =>
      have hds : Fs.isDirSlot x = true := hd
      have hc := hT.subdirs h hh _ ho hd
      have hec : effCluster gh.vol.fatType s.files (cv x) = sCluster gh.vol.fatType (cv x) :=
        effCluster_of_none (pendOf_dir_none hI hh ho hd)
      have hir : Fs.inRange g (sCluster gh.vol.fatType (cv x)) = true := by
        rw [hg.inRange]
        obtain ⟨m, e⟩ := chainOf_spec hG (dir_mem_heads hT hc)
        exact med_inRange hM m (List.mem_of_mem_head? e)
      simp only [hds, if_true, hec, hir, Bool.not_true, Bool.false_eq_true, if_false, parentArg_eq hpath]
      obtain ⟨hp1, hp2⟩ := subpath_ne path (Fs.showName (Fs.nameOf x)) hplen
      have hreg : ∀ y, RegV s gh (cv x) y ↔ Region s gh (sCluster gh.vol.fatType (cv x)) y := by
        intro y
        unfold RegV Region
        constructor
        · rintro ⟨_, t, ht, hy⟩; exact ⟨t, (tok_dir hd t).1 ht, hy⟩
        · rintro ⟨t, ht, hy⟩; exact ⟨hdv, t, (tok_dir hd t).2 ht, hy⟩
      obtain ⟨r1, r2⟩ := hrec _ hc _ a hp1 hp2 ha (fun y hy hr => hfree y hy ((hreg y).2 hr))
      -- the two guards of the walk are inert: the sub-directory's first cluster is not yet claimed, no problem so far
      have hc2 : 2 ≤ sCluster gh.vol.fatType (cv x) := dir_ge_two hT hG hc
      have hself : Region s gh (sCluster gh.vol.fatType (cv x)) (sCluster gh.vol.fatType (cv x)) := by
        obtain ⟨_, e⟩ := chainOf_spec hG (dir_mem_heads hT hc)
        have hne0 : sCluster gh.vol.fatType (cv x) ≠ 0 := by omega
        refine ⟨sCluster gh.vol.fatType (cv x), ⟨_, Under.refl, mem_dirIds.2 (.inr ⟨h, hc⟩), .inl ⟨fun hf => hne0 hf.1, ?_⟩⟩,
          List.mem_of_mem_head? e⟩
        unfold dirHead
        rw [if_neg hne0]
      have hnot : a.owned.contains (sCluster gh.vol.fatType (cv x)) = false := by
        cases hcon : a.owned.contains (sCluster gh.vol.fatType (cv x)) with
        | false => rfl
        | true =>
          exfalso
          refine hfree _ ?_ ((hreg _).2 hself)
          unfold Has
          intro hn
          have := Std.TreeMap.contains_eq_isSome_getElem? (t := a.owned) (a := sCluster gh.vol.fatType (cv x))
          rw [hn] at this
          rw [this] at hcon
          cases hcon
      have hlen : ¬ a.problems.length > 40 := by rw [ha]; simp
      rw [hnot]
      simp only [Bool.false_eq_true, if_false, hlen]
      exact ⟨r1, fun y hy => (r2 y hy).imp id (hreg y).2⟩
    | false =>
      have hds : Fs.isDirSlot x = false := hd
      simp only [hds, Bool.false_eq_true, if_false]
      rcases hT.sizes h hh _ ho hd with ⟨hc0, hs0⟩ | ⟨hc0, hsz⟩
      · simp only [hc0, hs0, if_true, true_or]
        exact ⟨ha, fun y hy => .inl hy⟩
      · rw [if_neg hc0]
        obtain ⟨m, e⟩ := chainOf_spec hG (fileRef_mem_heads hT hh ho hd hc0)
        have hch := med_chain hM m
        rw [headD_of_head? e] at hch
        have hct := chainT_of_chain hg hI.med.geom hfat h1 hch
        simp only [hct]
        have hsz' : ¬ (sc = true ∧ effSize s.files (cv x) >
            (chainOf gh.G (effCluster gh.vol.fatType s.files (cv x))).length * g.bpc * 512) := by
          rintro ⟨_, hgt⟩
          rw [hg.bpc, Nat.mul_assoc] at hgt
          exact Nat.lt_irrefl _ (Nat.lt_of_lt_of_le hgt hsz)
        rw [if_neg hsz']
        have hcl := claim_ok (chainOf gh.G (effCluster gh.vol.fatType s.files (cv x)))
          { a with filesVisited := a.filesVisited + 1 } (path ++ Fs.showName (Fs.nameOf x)) (med_chain_nodup hM m)
          (by
            intro y hy hhas
            exact hfree y hhas ⟨hdv, _, (tok_file hd _).2 ⟨rfl, hc0⟩, hy⟩)
        refine ⟨hcl.1.trans ha, fun y hy => ?_⟩
        rcases (hcl.2 y).1 hy with h' | h'
        · exact .inl h'
        · exact .inr ⟨hdv, _, (tok_file hd _).2 ⟨rfl, hc0⟩, h'⟩

end

end Sdmmc.Lemmas.VolFsck
