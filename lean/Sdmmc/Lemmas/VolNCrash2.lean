/-
Crash consistency with several open volumes, part 2 — the calls that work on no volume record (`open_volume`,
`close_volume`, `open_root_dir`, `close_dir`, `has_open_handles`, and every call whose handle names no open record), and the
invariant `VolInvNC` along histories.
-/
import Sdmmc.Lemmas.VolNCrash
import Sdmmc.Lemmas.VolNAcct

namespace Sdmmc.Lemmas.VolNCrash
open Sdmmc.Model Sdmmc.Model.Fat Sdmmc.Spec.Volume
open Sdmmc.Spec hiding run step NoFault Coherent
open Sdmmc.Props
open Sdmmc.Props.C03Multi (CoveredN CoveredNRun)
open Sdmmc.Lemmas.VolN (LabelFresh)
open Sdmmc.Lemmas.MHoare

/-- `RawOKN` is inherited by a state whose open files are open files of `s`, whose volume records are records of `s` or
carry a handle no open file names, and whose medium agrees with that of `s` on the blocks of the files' slots. -/
theorem rawOKN_inherit {s s' : Mgr} (h : RawOKN s) (hfiles : ∀ f, f ∈ s'.files → f ∈ s.files)
    (hvols : ∀ w, w ∈ s'.vols → w ∈ s.vols ∨ ∀ f, f ∈ s.files → f.rawVolume ≠ w.rawVolume)
    (hdisk : ∀ f, f ∈ s'.files → ∀ w, w ∈ s'.vols → w ∈ s.vols → f.rawVolume = w.rawVolume →
      s'.dev.disk.get f.entry.entryBlock = s.dev.disk.get f.entry.entryBlock) : RawOKN s' := by
  rw [rawOKN_iff] at h ⊢
  intro f hf w hw e
  rcases hvols w hw with hw0 | hno
  · rw [slotAt_congr (hdisk f hf w hw hw0 e)]
    exact h f (hfiles f hf) w hw0 e
  · exact absurd e (hno f (hfiles f hf))

theorem rawOKN_same {s s' : Mgr} (h : RawOKN s) (hf : s'.files = s.files) (hv : s'.vols = s.vols)
    (hd : s'.dev.disk = s.dev.disk) : RawOKN s' :=
  rawOKN_inherit h (fun f hfm => by rw [← hf]; exact hfm) (fun w hw => .inl (by rw [← hv]; exact hw))
    (fun _ _ _ _ _ _ => by rw [hd])

theorem openRootDir_tables (v : Nat) (s : Mgr) :
    (openRootDir v s).2.files = s.files ∧ (openRootDir v s).2.vols = s.vols ∧ (openRootDir v s).2.dev = s.dev := by
  unfold openRootDir
  rw [generate_bind, get_bind]
  simp only
  split <;> exact ⟨rfl, rfl, rfl⟩

theorem closeDir_tables (d : Nat) (s : Mgr) :
    (closeDir d s).2.files = s.files ∧ (closeDir d s).2.vols = s.vols ∧ (closeDir d s).2.dev = s.dev := by
  unfold closeDir
  rw [get_bind]
  cases s.dirs.findIdx? (·.rawDirectory = d) <;> exact ⟨rfl, rfl, rfl⟩

/-- `close_volume` keeps the file table and only removes volume records. -/
theorem closeVolume_tables {s : Mgr} {ghs : List Ghost} (hI : VolInvN s ghs) (hm : MirrorN s ghs) (v : Nat) :
    (closeVolume v s).2.files = s.files ∧ ∀ w, w ∈ (closeVolume v s).2.vols → w ∈ s.vols := by
  refine ⟨?_, Lemmas.VolN.closeVolume_vols_mem hI hm v⟩
  unfold closeVolume
  rw [get_bind]
  by_cases hfa : (s.files.any (·.rawVolume = v)) = true
  · rw [if_pos hfa]; rfl
  rw [if_neg hfa]
  by_cases hda : (s.dirs.any (·.rawVolume = v)) = true
  · rw [if_pos hda]; rfl
  rw [if_neg hda]
  cases hv : s.vols.findIdx? (·.rawVolume = v) with
  | none => rw [bind_err (getVolumeById_bad hv)]
  | some k =>
    obtain ⟨vi, hvi, _⟩ := findIdx?_some_get hv
    rw [bind_ok (getVolumeById_ok hv)]
    obtain ⟨dev', cache', hw, _, _⟩ := Lemmas.VolN.withVol_updateInfo_multi hI hm hvi
    rw [bind_ok hw]
    rfl

theorem closeVolume_rawOKN {s : Mgr} {ghs : List Ghost} (hI : VolInvNC s ghs) (v : Nat) : RawOKN (closeVolume v s).2 := by
  obtain ⟨hf, hv⟩ := closeVolume_tables hI.inv hI.mirror v
  refine rawOKN_inherit hI.raw (fun f hfm => by rw [← hf]; exact hfm) (fun w hw => .inl (hv w hw)) ?_
  intro f hfm w _ hw0 e
  rw [hf] at hfm
  obtain ⟨j, hj⟩ := List.getElem?_of_mem hw0
  obtain ⟨hin, hreg⟩ := file_block_in_partition hI.inv hj hfm e
  apply Classical.byContradiction
  intro hne
  obtain ⟨k, vk, hvk, _, hinfo⟩ := Lemmas.VolN.closeVolume_disk hI.inv v f.entry.entryBlock hne
  by_cases hkj : k = j
  · subst hkj
    rw [hvk] at hj; cases hj
    rcases hreg with h | h <;> rw [hinfo] at h <;> cases h
  · exact hI.inv.parts k j vk w hvk hj hkj _ (Lemmas.VolN.inPartition_of_info hinfo) hin

theorem openVolume_rawOKN {s : Mgr} {ghs : List Ghost} (hI : VolInvNC s ghs) (idx : Nat)
    (hnew : ∀ h s', openRawVolume idx s = (.ok h, s') → ∀ vi, s'.vols.getLast? = some vi → h ∉ s.vols.map (·.rawVolume)) :
    RawOKN (openRawVolume idx s).2 := by
  obtain ⟨t, ⟨dev', cache', rfl, hd, _, _⟩, hcase⟩ := Lemmas.VolApi.openRaw_good idx s
  rcases hcase with h | ⟨v, _, h⟩
  · rw [h]
    exact rawOKN_same (s' := { s with dev := dev', cache := cache' }) hI.raw rfl rfl hd
  · have hfresh := hnew _ _ h { rawVolume := s.nextId, idx := idx, vol := v } (by
      show (s.vols ++ [_]).getLast? = _
      rw [List.getLast?_concat])
    rw [h]
    refine rawOKN_inherit (s' := Lemmas.VolApi.addVol { s with dev := dev', cache := cache' } idx v) hI.raw
      (fun f hf => hf) ?_ (fun _ _ _ _ _ _ => by show dev'.disk.get _ = _; rw [hd])
    intro w hw
    have hw' : w ∈ s.vols ++ [{ rawVolume := s.nextId, idx := idx, vol := v }] := hw
    rcases List.mem_append.1 hw' with h1 | h1
    · exact .inl h1
    · right
      intro f hf e
      obtain ⟨vi, hvi, hfv⟩ := hI.inv.fileVols f hf
      rw [List.mem_singleton.1 h1] at e
      exact hfresh (List.mem_map.2 ⟨vi, hvi, by rw [← hfv, e]⟩)

theorem rawOKN_resetLogs {s : Mgr} (h : RawOKN s) : RawOKN (resetLogs s) := rawOKN_same (s' := resetLogs s) h rfl rfl rfl

theorem volInvNC_resetLogs {s : Mgr} {ghs : List Ghost} (hI : VolInvNC s ghs) : VolInvNC (resetLogs s) ghs :=
  ⟨Lemmas.VolN.volInvN_resetLogs hI.inv, Lemmas.VolN.mirrorN_frame hI.mirror rfl, rawOKN_resetLogs hI.raw⟩

/-- A call that works on no volume record. -/
theorem step_untarget {s : Mgr} {ghs : List Ghost} (hI : VolInvNC s ghs) (op : Op) (ht : target s op = none)
    (hc : CoveredN s op) : RawOKN (step s op).1 := by
  have hI0 := volInvNC_resetLogs hI
  rw [step_unlocked s op hI.inv.unlocked]
  simp only
  cases op with
  | openVolume idx =>
    rw [show (runOp (.openVolume idx) (resetLogs s)).2 = (openRawVolume idx (resetLogs s)).2 from VolApi.map_state _ _ _]
    exact openVolume_rawOKN hI0 idx (fun h s' hr vi hvi => (hc h s' hr vi hvi).1)
  | closeVolume v =>
    rw [show (runOp (.closeVolume v) (resetLogs s)).2 = (closeVolume v (resetLogs s)).2 from VolApi.seq_state _ _ _]
    exact closeVolume_rawOKN hI0 v
  | openRoot v =>
    rw [show (runOp (.openRoot v) (resetLogs s)).2 = (openRootDir v (resetLogs s)).2 from VolApi.map_state _ _ _]
    obtain ⟨a, b, c⟩ := openRootDir_tables v (resetLogs s)
    exact rawOKN_same hI0.raw a b (by rw [c])
  | closeDir d =>
    rw [show (runOp (.closeDir d) (resetLogs s)).2 = (closeDir d (resetLogs s)).2 from VolApi.seq_state _ _ _]
    obtain ⟨a, b, c⟩ := closeDir_tables d (resetLogs s)
    exact rawOKN_same hI0.raw a b (by rw [c])
  | hasOpen => exact hI0.raw
  | _ =>
    rw [Lemmas.VolN.untargeted_state hI0.inv _ (by exact ht) (fun _ h => by cases h) (fun _ h => by cases h)
      (fun _ h => by cases h) (fun _ h => by cases h) (fun h => by cases h)]
    exact hI0.raw

end Sdmmc.Lemmas.VolNCrash
