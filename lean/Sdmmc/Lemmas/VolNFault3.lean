/-
C11 (device faults) with several open volumes, part 3 — THE CALLS THAT ARE ADDRESSED TO NO VOLUME RECORD, under any
pending schedule: `open_volume`, `open_root_dir`, `close_dir`, `has_open_handles`, every call whose handle leads to no
open volume, and `close_volume`.

* `untargeted_keeps` — a call with `target s op = none` other than `close_volume` writes nothing, leaves the medium and
  the file table alone and keeps every volume record at its index (`open_volume` only reads, and appends a record on
  success);
* `closeVolume_tables` — `close_volume v`, from ANY state: the file and directory tables are untouched and every volume
  record that does not carry the handle `v` is still in the volume table (`swap_remove` may move it);
* `closeVolume_F` — `close_volume v` under `VolInvNF`, whatever is scheduled: the only block that can change is the info
  sector of the FAT32 volume record carrying `v`; the medium keeps 512-byte blocks; if a device call of it fails the call
  answers `DeviceError`, the three tables hold the handles they held — THE VOLUME RECORD IS NOT REMOVED, the handle can
  be closed again — and the cache is untagged; if none fails the call IS the fault-free call;
* `closeVolume_other` — so every open volume other than the one being closed keeps its partition byte for byte and its
  medium invariant with its open files.
-/
import Sdmmc.Lemmas.VolNFault2
import Sdmmc.Lemmas.VolApiMount

namespace Sdmmc.Lemmas.VolNFault
open Sdmmc.Model Sdmmc.Model.Fat Sdmmc.Spec.Volume
open Sdmmc.Spec hiding run step NoFault Coherent
open Sdmmc.Lemmas.MHoare
open Sdmmc.Props

/-! ### Calls with no target other than `close_volume` -/

theorem untargeted_keeps {s : Mgr} {ghs : List Ghost} (hI : VolInvNF s ghs) (op : Op) (ht : target s op = none)
    (hncl : ∀ v, op ≠ .closeVolume v) :
    (Model.step s op).1.dev.disk = s.dev.disk ∧ (Model.step s op).2.writes = [] ∧ (Model.step s op).1.files = s.files ∧
    (∀ (j : Nat) (vj : VolInfo), s.vols[j]? = some vj → (Model.step s op).1.vols[j]? = some vj) ∧
    ((∀ v, op ≠ .openRoot v) → (∀ d, op ≠ .closeDir d) → (Model.step s op).1.dirs = s.dirs) := by
  have hft : ∀ f, fileTarget (resetLogs s) f = none → (resetLogs s).files.findIdx? (·.rawFile = f) = none :=
    fun f h => fileTarget_none_F hI h
  have hdw : (Model.step s op).1.dev.disk = s.dev.disk ∧ (Model.step s op).2.writes = [] := by
    by_cases hro : Fault.readOnlyOp op = true
    · exact Fault.step_readonly_nowrite s op hro
    · have hst : (runOp op (resetLogs s)).2 = resetLogs s :=
        untargeted_state_F hft op (by exact ht) (fun _ e => hro (by rw [e]; rfl)) hncl
          (fun _ e => hro (by rw [e]; rfl)) (fun _ e => hro (by rw [e]; rfl)) (fun e => hro (by rw [e]; rfl))
      rw [step_unlocked s op hI.unlocked]
      simp only
      rw [hst]
      exact ⟨rfl, rfl⟩
  refine ⟨hdw.1, hdw.2, ?_⟩
  rw [step_unlocked s op hI.unlocked]
  simp only
  by_cases h1 : ∃ i, op = .openVolume i
  · obtain ⟨idx, rfl⟩ := h1
    rw [show (runOp (.openVolume idx) (resetLogs s)).2 = (openRawVolume idx (resetLogs s)).2 from Lemmas.VolApi.map_state _ _ _]
    obtain ⟨t, ⟨dev', cache', rfl, _⟩, hcase⟩ := Lemmas.VolApi.openRaw_good idx (resetLogs s)
    rcases hcase with h | ⟨v, _, h⟩
    · rw [h]; exact ⟨rfl, fun _ _ h => h, fun _ _ => rfl⟩
    · rw [h]
      refine ⟨rfl, fun j vj hj => ?_, fun _ _ => rfl⟩
      show (s.vols ++ [_])[j]? = some vj
      rw [List.getElem?_append_left (List.getElem?_eq_some_iff.1 hj).1]; exact hj
  by_cases h3 : ∃ v, op = .openRoot v
  · obtain ⟨v, rfl⟩ := h3
    rw [show (runOp (.openRoot v) (resetLogs s)).2 = (openRootDir v (resetLogs s)).2 from Lemmas.VolApi.map_state _ _ _,
      Lemmas.VolN.openRootDir_eq]
    split <;> exact ⟨rfl, fun _ _ h => h, fun h _ => absurd rfl (h v)⟩
  by_cases h4 : ∃ d, op = .closeDir d
  · obtain ⟨d, rfl⟩ := h4
    rw [show (runOp (.closeDir d) (resetLogs s)).2 = (closeDir d (resetLogs s)).2 from Lemmas.VolApi.seq_state _ _ _]
    unfold closeDir
    rw [get_bind]
    cases (resetLogs s).dirs.findIdx? (·.rawDirectory = d) <;> exact ⟨rfl, fun _ _ h => h, fun _ h => absurd rfl (h d)⟩
  by_cases h5 : op = .hasOpen
  · subst h5
    exact ⟨rfl, fun _ _ h => h, fun _ _ => rfl⟩
  rw [untargeted_state_F hft op (by exact ht) (fun i e => h1 ⟨i, e⟩) hncl (fun v e => h3 ⟨v, e⟩) (fun d e => h4 ⟨d, e⟩) h5]
  exact ⟨rfl, fun _ _ h => h, fun _ _ => rfl⟩

/-! ### `close_volume` -/

/-- **The tables after `close_volume v`**, from any state, whatever fails. -/
theorem closeVolume_tables (v : Nat) (s : Mgr) :
    (closeVolume v s).2.files = s.files ∧ (closeVolume v s).2.dirs = s.dirs ∧
    ∀ (j : Nat) (vj : VolInfo), s.vols[j]? = some vj → vj.rawVolume ≠ v → vj ∈ (closeVolume v s).2.vols := by
  have hsame : ∀ (j : Nat) (vj : VolInfo), s.vols[j]? = some vj → vj.rawVolume ≠ v → vj ∈ s.vols :=
    fun j vj h _ => List.mem_of_getElem? h
  unfold closeVolume
  rw [get_bind]
  by_cases hfa : (s.files.any (·.rawVolume = v)) = true
  · rw [if_pos hfa]; exact ⟨rfl, rfl, hsame⟩
  rw [if_neg hfa]
  by_cases hda : (s.dirs.any (·.rawVolume = v)) = true
  · rw [if_pos hda]; exact ⟨rfl, rfl, hsame⟩
  rw [if_neg hda]
  cases hv : s.vols.findIdx? (·.rawVolume = v) with
  | none => rw [bind_err (getVolumeById_bad hv)]; exact ⟨rfl, rfl, hsame⟩
  | some k =>
    obtain ⟨vi, hvi, hp⟩ := findIdx?_some_get hv
    have hraw : vi.rawVolume = v := by simpa using hp
    have hklt : k < s.vols.length := (List.getElem?_eq_some_iff.1 hvi).1
    rw [bind_ok (getVolumeById_ok hv)]
    have hw := DirMgr.withVol_eq k updateInfoSector s vi hvi
    rcases hr : updateInfoSector { dev := s.dev, cache := s.cache, vol := vi.vol } with ⟨r, fs'⟩
    rw [hr] at hw
    simp only at hw
    have hset : ∀ (j : Nat) (vj : VolInfo), s.vols[j]? = some vj → vj.rawVolume ≠ v →
        j ≠ k ∧ (s.vols.set k { vi with vol := fs'.vol })[j]? = some vj := by
      intro j vj hj hne
      have hjk : j ≠ k := by
        intro e; subst e
        rw [hvi] at hj; cases hj; exact hne hraw
      exact ⟨hjk, by rw [List.getElem?_set_ne (Ne.symm hjk)]; exact hj⟩
    cases r with
    | ok u =>
      rw [bind_ok hw, modify_run]
      refine ⟨rfl, rfl, fun j vj hj hne => ?_⟩
      obtain ⟨hjk, hj'⟩ := hset j vj hj hne
      exact Lemmas.VolN.mem_swapRemove_of_ne (List.getElem?_set_self hklt) hj' hjk
    | err e =>
      rw [bind_err hw]
      exact ⟨rfl, rfl, fun j vj hj hne => List.mem_of_getElem? (hset j vj hj hne).2⟩
    | panic m =>
      rw [bind_panic hw]
      exact ⟨rfl, rfl, fun j vj hj hne => List.mem_of_getElem? (hset j vj hj hne).2⟩
    | diverged =>
      rw [bind_diverged hw]
      exact ⟨rfl, rfl, fun j vj hj hne => List.mem_of_getElem? (hset j vj hj hne).2⟩

theorem step_closeVolume_state (s : Mgr) (hl : s.locked = false) (v : Nat) :
    (Model.step s (.closeVolume v)).1 = (closeVolume v (resetLogs s)).2 := by
  rw [step_unlocked s _ hl]
  exact Lemmas.WriteSet.runOp_closeVolume v _

/-- **`close_volume v` under any pending schedule.** -/
theorem closeVolume_F {s : Mgr} {ghs : List Ghost} (hI : VolInvNF s ghs) (v : Nat) :
    (∀ b, (Model.step s (.closeVolume v)).1.dev.disk.get b ≠ s.dev.disk.get b →
      ∃ (k : Nat) (vk : VolInfo), s.vols.findIdx? (·.rawVolume = v) = some k ∧ s.vols[k]? = some vk ∧
        vk.vol.fatType = .fat32 ∧ b = vk.vol.infoLocation ∧ regionOf vk.vol b = .info) ∧
    (BlocksOK s.dev.disk → BlocksOK (Model.step s (.closeVolume v)).1.dev.disk) ∧
    ((Model.step s (.closeVolume v)).1.dev.failed ≠ s.dev.failed →
      (Model.step s (.closeVolume v)).2.result = .err .DeviceError ∧
      Fault.handles (Model.step s (.closeVolume v)).1 = Fault.handles s ∧
      (Model.step s (.closeVolume v)).1.cache.tag = none) ∧
    ((Model.step s (.closeVolume v)).1.dev.failed = s.dev.failed →
      (Model.step s (.closeVolume v)).2 = (Model.step (clearFaults s) (.closeVolume v)).2 ∧
      clearFaults (Model.step s (.closeVolume v)).1 = (Model.step (clearFaults s) (.closeVolume v)).1) := by
  have hI' : VolInvN (clearFaults s) ghs := hI
  have hpre : ((Model.step s (.closeVolume v)).1.dev.failed = s.dev.failed ∧
        (Model.step s (.closeVolume v)).2 = (Model.step (clearFaults s) (.closeVolume v)).2 ∧
        clearFaults (Model.step s (.closeVolume v)).1 = (Model.step (clearFaults s) (.closeVolume v)).1) ∨
      ((Model.step s (.closeVolume v)).1.dev.failed ≠ s.dev.failed ∧
        (Model.step s (.closeVolume v)).2.result = .err .DeviceError ∧
        ∃ ws', (Model.step (clearFaults s) (.closeVolume v)).2.writes = (Model.step s (.closeVolume v)).2.writes ++ ws' ∧
          (Model.step s (.closeVolume v)).1.dev.disk = s.dev.disk.applyWrites (Model.step s (.closeVolume v)).2.writes ∧
          (Model.step s (.closeVolume v)).1.cache.tag = none) :=
    C11Inv.faulted_call_is_prefix (s0 := clearFaults s) hI'.unlocked rfl s.dev.faults (.closeVolume v) rfl
  have hff := Lemmas.VolN.closeVolume_step hI' v
  -- the medium afterwards
  have hD : (Model.step s (.closeVolume v)).1.dev.disk = s.dev.disk ∨
      ∃ (k : Nat) (vk : VolInfo) (blk : Block), s.vols.findIdx? (·.rawVolume = v) = some k ∧ s.vols[k]? = some vk ∧
        vk.vol.fatType = .fat32 ∧ (Model.step s (.closeVolume v)).1.dev.disk = s.dev.disk.set vk.vol.infoLocation blk ∧
        blk.length = 512 ∧ regionOf vk.vol vk.vol.infoLocation = .info := by
    rcases hpre with ⟨_, _, hst⟩ | ⟨_, _, ws', hw, hd, _⟩
    · have hdd : (Model.step s (.closeVolume v)).1.dev.disk = (Model.step (clearFaults s) (.closeVolume v)).1.dev.disk := by
        rw [← hst]; rfl
      rcases hff with ⟨_, h2⟩ | ⟨k, vk, blk, h1, h2, h3, _, h5, h6, h7⟩
      · left; rw [hdd, h2]; rfl
      · right; exact ⟨k, vk, blk, h1, h2, h3, by rw [hdd, h5]; rfl, h6.2.2.2.1, h7⟩
    · rcases hff with ⟨h1, _⟩ | ⟨k, vk, blk, h1, h2, h3, h4, _, h6, h7⟩
      · rw [h1] at hw
        have : (Model.step s (.closeVolume v)).2.writes = [] := (List.append_eq_nil_iff.1 hw.symm).1
        left; rw [hd, this]; rfl
      · rw [h4] at hw
        cases hws : (Model.step s (.closeVolume v)).2.writes with
        | nil => left; rw [hd, hws]; rfl
        | cons w rest =>
          rw [hws] at hw
          have hw1 : w = (vk.vol.infoLocation, blk) := by
            have := congrArg List.head? hw
            simpa using this.symm
          have hr : rest = [] := by
            have := congrArg List.length hw
            simp only [List.length_cons, List.length_nil, List.length_append] at this
            exact List.eq_nil_of_length_eq_zero (by omega)
          right
          refine ⟨k, vk, blk, h1, h2, h3, ?_, h6.2.2.2.1, h7⟩
          rw [hd, hws, hr, hw1]; rfl
  refine ⟨fun b hb => ?_, fun hbl => ?_, fun hne => ?_, fun heq => ?_⟩
  · rcases hD with h | ⟨k, vk, blk, h1, h2, h3, h4, _, h7⟩
    · exact absurd (by rw [h]) hb
    · refine ⟨k, vk, h1, h2, h3, ?_, ?_⟩
      · apply Classical.byContradiction
        intro hne
        apply hb
        rw [h4, FBasic.Disk.get_set_ne _ _ _ _ (fun e => hne e.symm)]
      · have : b = vk.vol.infoLocation := by
          apply Classical.byContradiction
          intro hne
          apply hb
          rw [h4, FBasic.Disk.get_set_ne _ _ _ _ (fun e => hne e.symm)]
        rw [this]; exact h7
  · rcases hD with h | ⟨k, vk, blk, _, _, _, h4, h5, _⟩
    · rw [h]; exact hbl
    · rw [h4]; exact FatOps.blocksOK_set _ _ _ hbl h5
  · rcases hpre with ⟨h, _⟩ | ⟨_, he, _, _, _, htag⟩
    · exact absurd h hne
    · exact ⟨he, C11.handles_survive_fault s _ (fun f e => by cases e) (fun p e => by rw [he] at e; cases e), htag⟩
  · rcases hpre with ⟨_, h2, h3⟩ | ⟨h, _⟩
    · exact ⟨h2, h3⟩
    · exact absurd heq h

/-- **Every open volume other than the one being closed** keeps its record (somewhere in the table), its open files and
directories, its partition byte for byte, and its medium invariant — whatever device call of `close_volume` fails. -/
theorem closeVolume_other {s : Mgr} {ghs : List Ghost} (hI : VolInvNF s ghs) (v : Nat) {j : Nat} {vj : VolInfo} {ghj : Ghost}
    (hvj : s.vols[j]? = some vj) (hghj : ghs[j]? = some ghj) (hne : vj.rawVolume ≠ v) :
    vj ∈ (Model.step s (.closeVolume v)).1.vols ∧
    volFiles (Model.step s (.closeVolume v)).1 vj.rawVolume = volFiles s vj.rawVolume ∧
    volDirs (Model.step s (.closeVolume v)).1 vj.rawVolume = volDirs s vj.rawVolume ∧
    SamePartition vj.vol s.dev.disk (Model.step s (.closeVolume v)).1.dev.disk ∧
    MedInv ghj.vol (Model.step s (.closeVolume v)).1.dev.disk (volFiles (Model.step s (.closeVolume v)).1 vj.rawVolume) ghj := by
  obtain ⟨hd, hb, _, _⟩ := closeVolume_F hI v
  have hM : MedInv ghj.vol s.dev.disk (volFiles s vj.rawVolume) ghj := hI.med j vj ghj hvj hghj
  have hvol : vj.vol = ghj.vol := hI.vols j vj ghj hvj hghj
  obtain ⟨t1, t2, t3⟩ := closeVolume_tables v (resetLogs s)
  have hst := step_closeVolume_state s hI.unlocked v
  have hsp : SamePartition vj.vol s.dev.disk (Model.step s (.closeVolume v)).1.dev.disk := by
    intro b hbj
    apply Classical.byContradiction
    intro hch
    obtain ⟨k, vk, hk, hvk, _, _, hreg⟩ := hd b hch
    obtain ⟨vk', hvk', hp⟩ := findIdx?_some_get hk
    rw [hvk] at hvk'; cases hvk'
    have hraw : vk.rawVolume = v := by simpa using hp
    have hkj : k ≠ j := by
      intro e; subst e
      rw [hvk] at hvj; cases hvj; exact hne hraw
    exact hI.parts k j vk vj hvk hvj hkj b (Lemmas.VolN.inPartition_of_info hreg) hbj
  have hf : volFiles (Model.step s (.closeVolume v)).1 vj.rawVolume = volFiles s vj.rawVolume := by
    unfold volFiles; rw [hst, t1]; rfl
  refine ⟨by rw [hst]; exact t3 j vj hvj hne, hf, by unfold volDirs; rw [hst, t2]; rfl, hsp, ?_⟩
  rw [hf]
  exact Lemmas.VolN.medInv_congr_partition hM (hb hM.blocksOK) (fun b hbp => hsp b (by rw [hvol]; exact hbp))

end Sdmmc.Lemmas.VolNFault
