/-
Continuing after a crash, part 2: ONE MUTATING CALL, `delete_file_in_dir`, KEEPS THE WEAK INVARIANT `FaultInv` when no
device fault is pending (`delete_keeps_faultInv`, `delete_keeps_faultInv_clean`): the invariant a crashed-and-remounted
medium satisfies (`Lemmas/CrashCont.lean`, `crash_mount_faultInv`) is strong enough for the call to run to a clean
outcome and to hold again afterwards, with the SAME lost chains `X` and the SAME size slack `cb`.

* `Lemmas/CrashContDelete2.lean` — the weak medium invariant `MedW cb` (`MedFault` with its witness explicit) and the
  medium-level lemmas of `Lemmas/VolMed*.lean` restated for it;
* `Lemmas/CrashContDelete3.lean` — the engine-level lemmas of `Lemmas/VolEng.lean` / `Lemmas/VolApiDelete.lean`;
* this file — `WInv cb X s gh` (`FaultInv` with `s.dev.faults = []` and the witness explicit:
  `faultInv_noFault_iff`), the API scaffolding of `Lemmas/VolApi.lean` / `VolApi3.lean` / `VolApiRO.lean` restated for
  it, `delete_apiW`, `step_delete_apiW` and the two theorems.
-/
import Sdmmc.Lemmas.CrashContDelete3
import Sdmmc.Lemmas.CrashCont

namespace Sdmmc.Lemmas.CrashContDelete
open Sdmmc.Model Sdmmc.Model.Fat Sdmmc.Spec.Volume Sdmmc.Lemmas.VolBase Sdmmc.Lemmas.VolTree
open Sdmmc.Spec hiding NoFault Coherent
open Sdmmc.Lemmas.VolDisk Sdmmc.Lemmas.VolMed Sdmmc.Lemmas.VolEng Sdmmc.Lemmas.VolApi
open Sdmmc.Lemmas.FBasic (NoFault Coherent)
open Sdmmc.Lemmas.MHoare

/-! ### The invariant with the witness explicit -/

/-- `FaultInv s gh X` with no fault pending and the bytes-per-cluster witness `cb` of its `tree` clause explicit
(`VolInv` with `MedW cb … X` for `MedInv`; same fields, same order). -/
structure WInv (cb : Nat) (X : List (List Nat)) (s : Mgr) (gh : Ghost) : Prop where
  noFault : s.dev.faults = []
  coherent : ∀ i, s.cache.tag = some i → s.cache.blk = s.dev.disk.get i
  unlocked : s.locked = false
  maxVols : s.maxVols = 1
  vols : s.vols = [] ∨ ∃ vi, s.vols = [vi] ∧ vi.vol = gh.vol
  med : MedW cb gh.vol s.dev.disk s.files gh X
  fileVols : ∀ f, f ∈ s.files → ∃ vi, s.vols = [vi] ∧ f.rawVolume = vi.rawVolume
  openDirs : ∀ di, di ∈ s.dirs → ValidDir gh.dirs di.cluster

theorem faultInv_of_wInv {cb : Nat} {X : List (List Nat)} {s : Mgr} {gh : Ghost} (h : WInv cb X s gh) : FaultInv s gh X :=
  ⟨h.coherent, h.unlocked, h.maxVols, h.vols, medFault_iff_medW.2 ⟨cb, h.med⟩, h.fileVols, h.openDirs⟩

theorem faultInv_noFault_iff {X : List (List Nat)} {s : Mgr} {gh : Ghost} :
    (FaultInv s gh X ∧ s.dev.faults = []) ↔ ∃ cb, WInv cb X s gh := by
  constructor
  · rintro ⟨h, hn⟩
    obtain ⟨cb, hM⟩ := medFault_iff_medW.1 h.med
    exact ⟨cb, hn, h.coherent, h.unlocked, h.maxVols, h.vols, hM, h.fileVols, h.openDirs⟩
  · rintro ⟨cb, h⟩
    exact ⟨faultInv_of_wInv h, h.noFault⟩

/-- `VolInvLost X` (strict sizes) is `WInv` at the volume's own cluster size. -/
theorem wInv_of_volInvLost {X : List (List Nat)} {s : Mgr} {gh : Ghost} (h : CrashCont.VolInvLost X s gh) :
    WInv (clusterBytesLen gh.vol) X s gh :=
  ⟨h.noFault, h.coherent, h.unlocked, h.maxVols, h.vols, medW_of_medX h.med, h.fileVols, h.openDirs⟩

/-! ### Scaffolding (restated from `VolApi.lean`, `VolApi3.lean`, `VolApiRO.lean`) -/

section
variable {cb : Nat} {X : List (List Nat)}

/-- (`volInv_fs`) -/
theorem wInv_fs {s : Mgr} {gh : Ghost} (hI : WInv cb X s gh) :
    NoFault (fsOf s gh) ∧ Coherent (fsOf s gh) ∧ MedW cb (fsOf s gh).vol (fsOf s gh).dev.disk s.files gh X :=
  ⟨hI.noFault, hI.coherent, hI.med⟩

/-- (`volInv_ro`) -/
theorem wInv_ro {s s' : Mgr} {gh : Ghost} (hI : WInv cb X s gh) (hd : s'.dev.disk = s.dev.disk) (hf : s'.dev.faults = [])
    (hc : ∀ i, s'.cache.tag = some i → s'.cache.blk = s'.dev.disk.get i) (hv : s'.vols = s.vols) (hfiles : s'.files = s.files)
    (hl : s'.locked = s.locked) (hm : s'.maxVols = s.maxVols) (hdirs : ∀ di, di ∈ s'.dirs → ValidDir gh.dirs di.cluster) :
    WInv cb X s' gh :=
  ⟨hf, hc, hl.trans hI.unlocked, hm.trans hI.maxVols, by rw [hv]; exact hI.vols, by rw [hd, hfiles]; exact hI.med,
    by rw [hfiles, hv]; exact hI.fileVols, hdirs⟩

/-- (`volInv_resetLogs`) -/
theorem wInv_resetLogs {s : Mgr} {gh : Ghost} (hI : WInv cb X s gh) : WInv cb X (resetLogs s) gh :=
  wInv_ro (s' := resetLogs s) hI rfl hI.noFault hI.coherent rfl rfl rfl rfl hI.openDirs

/-- (`withVol_ro_inv`) -/
theorem withVol_ro_invW {α : Type} (volIdx : Nat) (f : F α) (hf : FatOps.ReadOnly f) {s : Mgr} {gh : Ghost}
    (hI : WInv cb X s gh) : WInv cb X (withVol volIdx f s).2 gh := by
  obtain ⟨dev', cache', he, hd, hfl, hc⟩ := withVol_ro_state volIdx f hf s
  rw [he]
  exact wInv_ro (s' := { s with dev := dev', cache := cache' }) hI hd (hfl.trans hI.noFault) (hc hI.coherent) rfl rfl rfl rfl
    hI.openDirs

/-- (`volInv_after` + `volInv_afterVol`) -/
theorem wInv_afterVol {s : Mgr} {gh : Ghost} (hI : WInv cb X s gh) {vi : VolInfo} (hv : s.vols = [vi]) {fs' : FS} {gh' : Ghost}
    (hn : NoFault fs') (hc : Coherent fs') (hvol : gh'.vol = fs'.vol) (hM : MedW cb fs'.vol fs'.dev.disk s.files gh' X)
    (hd : ∀ c, ValidDir gh.dirs c → ValidDir gh'.dirs c) : WInv cb X (afterVol s vi fs') gh' := by
  refine ⟨hn, hc, hI.unlocked, hI.maxVols, .inr ⟨_, rfl, hvol.symm⟩, ?_, ?_, fun di hdi => hd _ (hI.openDirs di hdi)⟩
  · rw [hvol]; exact hM
  · intro f hf
    obtain ⟨vi', hv', he⟩ := hI.fileVols f hf
    rw [hv] at hv'
    cases hv'
    exact ⟨_, rfl, he⟩

/-- (`vol_of_handle`) -/
theorem vol_of_handleW {s : Mgr} {gh : Ghost} (hI : WInv cb X s gh) {raw volIdx : Nat}
    (hv : s.vols.findIdx? (·.rawVolume = raw) = some volIdx) :
    volIdx = 0 ∧ ∃ vi, s.vols = [vi] ∧ vi.vol = gh.vol ∧ vi.rawVolume = raw := by
  obtain ⟨vi', hvi', hp⟩ := findIdx?_some_get hv
  rcases hI.vols with h0 | ⟨vi, hvs, hvol⟩
  · rw [h0] at hvi'; cases hvi'
  · rw [hvs] at hvi'
    have hlt := (List.getElem?_eq_some_iff.1 hvi').1
    have h0 : volIdx = 0 := by simpa using hlt
    subst h0
    have : vi = vi' := by simpa using hvi'
    subst this
    exact ⟨rfl, vi, hvs, hvol, by simpa using hp⟩

end

/-- (`dirPrologue_state`, for an arbitrary predicate on outcome and final state — the invariant is not needed.)
The common prologue of the directory calls: whenever it fails, it fails with an error in the start state. -/
theorem dirPrologueW {α : Type} (directory : Nat) (name : List Nat) (k : DirInfo → Nat → Bytes → M α) {s : Mgr}
    (P : Res α × Mgr → Prop) (hfail : ∀ e, P (.err e, s))
    (hk : ∀ d volIdx sfn, d ∈ s.dirs → s.vols.findIdx? (·.rawVolume = d.rawVolume) = some volIdx →
      Sfn.createFromStr name = .ok sfn → P (k d volIdx sfn s)) :
    P ((getDirById directory >>= fun dirIdx => getDir dirIdx >>= fun d =>
      getVolumeById d.rawVolume >>= fun volIdx => toSfn name >>= fun sfn => k d volIdx sfn) s) := by
  cases hidx : s.dirs.findIdx? (·.rawDirectory = directory) with
  | none => rw [bind_err (getDirById_bad hidx)]; exact hfail _
  | some i =>
    obtain ⟨d, hd, _⟩ := findIdx?_some_get hidx
    rw [bind_ok (getDirById_ok hidx), bind_ok (getDir_ok hd)]
    cases hv : s.vols.findIdx? (·.rawVolume = d.rawVolume) with
    | none => rw [bind_err (getVolumeById_bad hv)]; exact hfail _
    | some volIdx =>
      rw [bind_ok (getVolumeById_ok hv)]
      unfold toSfn
      cases hs : Sfn.createFromStr name with
      | ok sfn => exact hk d volIdx sfn (List.mem_of_getElem? hd) hv hs
      | error e => exact hfail _

/-- A call followed by `pure b`: same final state, and a clean outcome stays clean. -/
theorem seq_run {α β : Type} (m : M α) (b : β) (s : Mgr) :
    ((m >>= fun _ => (pure b : M β)) s).2 = (m s).2 ∧
      (Clean (m s).1 → Clean ((m >>= fun _ => (pure b : M β)) s).1) := by
  rw [bind_def]
  rcases m s with ⟨r, s'⟩
  cases r with
  | ok a => exact ⟨rfl, fun _ => .inl ⟨b, rfl⟩⟩
  | err e => exact ⟨rfl, fun _ => .inr ⟨e, rfl⟩⟩
  | panic msg => exact ⟨rfl, fun h => by rcases h with ⟨a, h⟩ | ⟨e, h⟩ <;> cases h⟩
  | diverged => exact ⟨rfl, fun h => by rcases h with ⟨a, h⟩ | ⟨e, h⟩ <;> cases h⟩

/-! ### `delete_file_in_dir` -/

/-- What a call is to achieve from `WInv cb X s gh`: the invariant again (same `cb`, same `X`), the geometry kept, a clean
outcome. -/
abbrev Keeps (cb : Nat) (X : List (List Nat)) (gh : Ghost) {α : Type} (p : Res α × Mgr) : Prop :=
  ∃ gh', WInv cb X p.2 gh' ∧ SameGeom gh.vol gh'.vol ∧ Clean p.1

/-- (`delete_api`) **`delete_file_in_dir`** keeps the weak invariant and ends cleanly, whatever it answers (for a name
whose short form does not start with 0xE5). -/
theorem delete_apiW {cb : Nat} {X : List (List Nat)} {s : Mgr} {gh : Ghost} (hI : WInv cb X s gh) (directory : Nat)
    (name : List Nat) (hname : ∀ sfn, Sfn.createFromStr name = .ok sfn → sfn.head? ≠ some 0xE5) :
    Keeps cb X gh (deleteFileInDir directory name s) := by
  unfold deleteFileInDir
  refine dirPrologueW directory name _ (Keeps cb X gh) (fun e => ⟨gh, hI, SameGeom.refl _, .inr ⟨e, rfl⟩⟩)
    fun d volIdx sfn hdm hv hsfn => ?_
  obtain ⟨h0, vi, hvs, hvol, hraw⟩ := vol_of_handleW hI hv
  subst h0
  have hpv := hI.openDirs d hdm
  have hro := DirMgr.findDirectoryEntry_readOnly d.cluster sfn
  have h1 := withVol_ro_invW 0 _ hro hI
  have hw := withVol_one (Fat.findDirectoryEntry d.cluster sfn) hvs hvol
  obtain ⟨hn, hc, hM⟩ := wInv_fs hI
  obtain ⟨fs', hfind, hdisk, _, hvol', _, _⟩ := find_specW hM hn hc hpv sfn (hname sfn hsfn)
  rw [hfind] at hw
  rw [bind_def]
  rcases hrun : withVol 0 (Fat.findDirectoryEntry d.cluster sfn) s with ⟨r, s1⟩
  rw [hrun] at h1 hw
  have hr : r = _ := congrArg Prod.fst hw
  have hs1 : s1 = _ := congrArg Prod.snd hw
  -- the lookup answers `Ok` or an error
  have hrc : (∃ a, r = .ok a) ∨ ∃ e, r = .err e := by
    simp only at hr
    cases hfo : (entries (dirSlots (fsOf s gh).vol (fsOf s gh).dev.disk gh.G (dirIdOf d.cluster))).find?
        fun s => decide (sName s = sfn) with
    | none => rw [hfo] at hr; exact .inr ⟨_, hr⟩
    | some o => rw [hfo] at hr; exact .inl ⟨_, hr⟩
  cases r with
  | ok e =>
    simp only
    by_cases hdir : Attr.isDirectory e.attributes = true
    · rw [if_pos hdir]; exact ⟨gh, h1, SameGeom.refl _, .inr ⟨_, rfl⟩⟩
    rw [if_neg hdir, get_bind]
    by_cases hopen : fileIsOpen s1 d.rawVolume e = true
    · rw [if_pos hopen]; exact ⟨gh, h1, SameGeom.refl _, .inr ⟨_, rfl⟩⟩
    rw [if_neg hopen]
    simp only at hr hs1
    subst hs1
    -- the entry found
    cases hfo : (entries (dirSlots (fsOf s gh).vol (fsOf s gh).dev.disk gh.G (dirIdOf d.cluster))).find?
        fun s => decide (sName s = sfn) with
    | none => rw [hfo] at hr; cases hr
    | some o =>
      rw [hfo] at hr
      have he : e = Listing.decode (fsOf s gh).vol.fatType o := Res.ok.inj hr
      have hom := List.mem_of_find?_eq_some hfo
      have hsn : sName o = sfn := by
        have := List.find?_some hfo
        simpa using this
      obtain ⟨hdn, hda, _, hdb, hdo, hdc⟩ := decode_fields (fsOf s gh).vol.fatType o
      have hod : isDirE o = false := by
        have : Attr.isDirectory (sAttr o) = false := by
          rw [← hda, ← he]
          simpa using hdir
        exact this
      have hattr : ¬ sAttr o / 16 % 2 = 1 := by
        unfold isDirE at hod
        exact of_decide_eq_false hod
      have hcl : e.cluster = sCluster (fsOf s gh).vol.fatType o := by
        rw [he, hdc, if_neg (fun h => hattr h.2)]
      -- the state after the lookup
      have hvols1 : (afterVol s vi fs').vols = [{ vi with vol := fs'.vol }] := rfl
      have hvol1 : ({ vi with vol := fs'.vol } : VolInfo).vol = gh.vol := hvol'
      have hv1 : (afterVol s vi fs').vols.findIdx? (·.rawVolume = d.rawVolume) = some 0 := by
        rw [hvols1]
        simp [hraw]
      rw [bind_ok (getVolumeById_ok hv1), withVol_one _ hvols1 hvol1]
      obtain ⟨hn1, hc1, hM1⟩ := wInv_fs h1
      have hdisk1 : (fsOf (afterVol s vi fs') gh).dev.disk = (fsOf s gh).dev.disk := hdisk
      have hvv1 : (fsOf (afterVol s vi fs') gh).vol = (fsOf s gh).vol := rfl
      obtain ⟨hid, _⟩ := validDir_idW hM hpv
      have ho : o ∈ objects (dirIdOf d.cluster)
          (dirSlots (fsOf (afterVol s vi fs') gh).vol (fsOf (afterVol s vi fs') gh).dev.disk gh.G (dirIdOf d.cluster)) := by
        rw [hdisk1, hvv1]
        refine entry_object (ft := (fsOf s gh).vol.fatType) hom hod ?_
        intro hne
        rcases mem_dirIds.1 hid with e0 | ⟨p, hp⟩
        · exact absurd e0 hne
        · obtain ⟨s0, s1, rest, hss, hd0, hd1⟩ := hM.tree.dots _ p hp
          exact ⟨p, s0, s1, rest, hss, hd0, hd1⟩
      have hfree : pendOf (afterVol s vi fs').files o = none := by
        rw [pendOf_none_iff]
        intro g hg hk
        apply hopen
        unfold fileIsOpen
        rw [List.any_eq_true]
        obtain ⟨vi', hv', he'⟩ := h1.fileVols g hg
        rw [hvols1] at hv'
        cases hv'
        obtain ⟨hk1, hk2⟩ := Prod.mk.inj hk
        refine ⟨g, hg, ?_⟩
        simp only [decide_eq_true_eq]
        refine ⟨he'.trans hraw, ?_, ?_⟩
        · rw [he, hdb]; exact hk1
        · rw [he, hdo]; exact hk2
      obtain ⟨fs2, hrun2, hn2, hc2, hsg2, gh2, hgv2, hgd2, hM2⟩ :=
        delete_medW hM1 hn1 hc1 hpv sfn (hname sfn hsfn) ho hod hsn hfree
      rw [hcl, ← hvv1, hrun2]
      refine ⟨gh2, ?_, by rw [hgv2]; exact hsg2, .inl ⟨(), rfl⟩⟩
      exact wInv_afterVol h1 hvols1 hn2 hc2 hgv2 hM2 (fun c hc' => by rw [hgd2]; exact hc')
  | err e => exact ⟨gh, h1, SameGeom.refl _, .inr ⟨e, rfl⟩⟩
  | panic m => rcases hrc with ⟨a, h⟩ | ⟨e, h⟩ <;> cases h
  | diverged => rcases hrc with ⟨a, h⟩ | ⟨e, h⟩ <;> cases h

/-- (`step_delete_api`) The call through `step`. -/
theorem step_delete_apiW {cb : Nat} {X : List (List Nat)} {s : Mgr} {gh : Ghost} (hI : WInv cb X s gh) (d : Nat)
    (name : List Nat) (hname : ∀ sfn, Sfn.createFromStr name = .ok sfn → sfn.head? ≠ some 0xE5) :
    ∃ gh', WInv cb X (step s (.delete d name)).1 gh' ∧ SameGeom gh.vol gh'.vol ∧ Clean (step s (.delete d name)).2.result := by
  rw [step_unlocked s _ hI.unlocked]
  obtain ⟨gh', h1, h2, h3⟩ := delete_apiW (wInv_resetLogs hI) d name hname
  obtain ⟨e1, e2⟩ := seq_run (deleteFileInDir d name) Payload.unit (resetLogs s)
  refine ⟨gh', ?_, h2, ?_⟩
  · show WInv cb X ((deleteFileInDir d name >>= fun _ => (pure Payload.unit : M Payload)) (resetLogs s)).2 gh'
    rw [e1]; exact h1
  · show Clean ((deleteFileInDir d name >>= fun _ => (pure Payload.unit : M Payload)) (resetLogs s)).1
    exact e2 h3

/-! ### The theorems -/

/-- **`delete_file_in_dir`, fault-free, keeps `FaultInv`** — with the same lost chains, no fault pending afterwards, and
a clean outcome (`Ok` or an error: neither a panic nor a hang). -/
theorem delete_keeps_faultInv_clean {s : Mgr} {gh : Ghost} {X : List (List Nat)} (hI : FaultInv s gh X)
    (hn : s.dev.faults = []) (d : Nat) (name : List Nat)
    (hname : ∀ sfn, Sfn.createFromStr name = .ok sfn → sfn.head? ≠ some 0xE5) :
    ∃ gh', FaultInv (step s (.delete d name)).1 gh' X ∧ SameGeom gh.vol gh'.vol ∧
      (step s (.delete d name)).1.dev.faults = [] ∧ Clean (step s (.delete d name)).2.result := by
  obtain ⟨cb, hW⟩ := faultInv_noFault_iff.1 ⟨hI, hn⟩
  obtain ⟨gh', h1, h2, h3⟩ := step_delete_apiW hW d name hname
  exact ⟨gh', faultInv_of_wInv h1, h2, h1.noFault, h3⟩

/-- The statement asked for. -/
theorem delete_keeps_faultInv {s : Mgr} {gh : Ghost} {X : List (List Nat)} (hI : FaultInv s gh X) (hn : s.dev.faults = [])
    (d : Nat) (name : List Nat) (hname : ∀ sfn, Sfn.createFromStr name = .ok sfn → sfn.head? ≠ some 0xE5) :
    ∃ gh' X', FaultInv (step s (.delete d name)).1 gh' X' ∧ SameGeom gh.vol gh'.vol ∧
      (step s (.delete d name)).1.dev.faults = [] := by
  obtain ⟨gh', h1, h2, h3, _⟩ := delete_keeps_faultInv_clean hI hn d name hname
  exact ⟨gh', X, h1, h2, h3⟩

/-- After a crash and a remount (`CrashCont.crash_mount_faultInv`): the first `delete_file_in_dir` on the mounted
medium keeps `FaultInv` and ends cleanly. -/
theorem crash_mount_delete {t0 : Mgr} {idx : Nat} {v vm : FatVolume} {gh : Ghost} {X : List (List Nat)}
    (hfr : Mounted.FreshMgr t0) (hC : CrashInvX v t0.dev.disk gh X)
    (hm : mountPure (t0.dev.disk.get 0) idx t0.dev.disk.get = .ok vm) (hs : SameGeom v vm) (d : Nat) (name : List Nat)
    (hname : ∀ sfn, Sfn.createFromStr name = .ok sfn → sfn.head? ≠ some 0xE5) :
    ∃ t1, CrashCont.Mounted t0 idx vm t1 ∧ ∃ gh', FaultInv (step t1 (.delete d name)).1 gh' X ∧ SameGeom vm gh'.vol ∧
      (step t1 (.delete d name)).1.dev.faults = [] ∧ Clean (step t1 (.delete d name)).2.result := by
  obtain ⟨t1, hM, hI⟩ := CrashCont.crash_mount_faultInv hfr hC hm hs
  exact ⟨t1, hM, delete_keeps_faultInv_clean hI hM.noFault d name hname⟩

end Sdmmc.Lemmas.CrashContDelete
