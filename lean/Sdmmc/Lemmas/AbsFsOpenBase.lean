/-
Refinement of the API to the abstract file system, part 9a: what `open_file_in_dir` needs — the abstract
relation after the lookup (`abs_afterVol`), "a file is open at this slot" on both sides (`isOpenAt_abs`),
a record entered in the table on an existing entry (`open_existing_refines`), and the abstract call unfolded
case by case.
-/
import Sdmmc.Lemmas.AbsFsWrite
import Sdmmc.Lemmas.VolApiOpen

namespace Sdmmc.Lemmas.AbsFs
open Sdmmc.Model Sdmmc.Model.Fat Sdmmc.Spec.Volume Sdmmc.Lemmas.VolBase Sdmmc.Lemmas.VolTree
open Sdmmc.Spec hiding NoFault Coherent
open Sdmmc.Spec.AbsFs (Meta view storedMeta fatRound OpenFile OpenDir absStep)
open Sdmmc.Lemmas.VolDisk Sdmmc.Lemmas.VolMed Sdmmc.Lemmas.VolApi Sdmmc.Lemmas.VolEng
open Sdmmc.Lemmas.FBasic (NoFault Coherent)
open Sdmmc.Lemmas.MHoare

/-- After an engine call that left the medium alone. -/
theorem abs_afterVol {s : Mgr} {gh : Ghost} {a : AState} (hA : Abs s gh a) {vi : VolInfo} (hv : s.vols = [vi]) (fs' : FS)
    (hd : fs'.dev.disk = s.dev.disk) : Abs (afterVol s vi fs') gh a :=
  ⟨hA.nextId, hA.maxDirs, hA.maxFiles, hA.clock, hA.locked, by rw [hA.vols, hv]; rfl, hA.dirs,
   forall₂_mono hA.files fun _ _ _ h => h.of_disk hd, hA.ids,
   fun h hh => by rw [hA.slots h hh]; exact (absSlots_congr (s' := afterVol s vi fs') hd (fun _ => ⟨rfl, rfl⟩) h).symm⟩

/-- "An open file of the volume sits at this slot", abstractly and in the table. -/
theorem isOpenAt_abs {s : Mgr} {gh : Ghost} {a : AState} (hI : VolInv s gh) (hA : Abs s gh a) {h i : Nat} {o : Slot}
    (hh : h ∈ dirIds gh.dirs) (ho : (DirView s gh h)[i]? = some o) (vol : Nat) (e : DirEntry)
    (heb : e.entryBlock = o.1) (heo : e.entryOffset = o.2.1) :
    Spec.AbsFs.isOpenAt a vol h i = fileIsOpen s vol e := by
  unfold Spec.AbsFs.isOpenAt fileIsOpen
  have hM := medX_of_med hI.med
  refine forall₂_any hA.files _ _ fun af f hr => ?_
  rw [hr.volume, heb, heo]
  have key : (af.dir = h ∧ af.idx = i) ↔ (f.entry.entryBlock = o.1 ∧ f.entry.entryOffset = o.2.1) := by
    obtain ⟨o', ho', hp'⟩ := hr.slot
    constructor
    · rintro ⟨e1, e2⟩
      rw [e1, e2] at ho'
      have : o' = o := by
        have h1 : (DirView s gh h)[i]? = some o' := ho'
        rw [ho] at h1; exact (Option.some.inj h1).symm
      subst this
      exact ⟨(Prod.mk.inj hp').1.symm, (Prod.mk.inj hp').2.symm⟩
    · rintro ⟨e1, e2⟩
      have hp : spos o' = spos o := hp'.trans (Prod.ext e1 e2)
      obtain ⟨hd, hoo⟩ := slot_unique hM hr.dirMem hh (mem_of_beforeEnd_getElem? ho') (mem_of_beforeEnd_getElem? ho) hp
      subst hoo
      refine ⟨hd, ?_⟩
      rw [hd] at ho'
      exact view_index_unique hM hh ho' ho
  by_cases hv : f.rawVolume = vol
  · simp only [hv, true_and]
    by_cases hk : af.dir = h ∧ af.idx = i
    · rw [decide_eq_true hk, decide_eq_true (key.1 hk)]
    · rw [decide_eq_false hk, decide_eq_false (fun hk' => hk (key.2 hk'))]
  · simp [hv]

/-! ### A record is entered on an existing entry -/

theorem open_existing_refines {s : Mgr} {gh : Ghost} {a : AState} (hI : VolInv s gh) (hA : Abs s gh a) {vi : VolInfo}
    (hv : s.vols = [vi]) {d : DirInfo} (hdv : ValidDir gh.dirs d.cluster) (hraw : vi.rawVolume = d.rawVolume) {sfn : Bytes}
    {e : DirEntry} {o : Slot} (hF : Found s gh d sfn e o) (hdir : Attr.isDirectory e.attributes = false)
    (hopen : fileIsOpen s d.rawVolume e = false) {i : Nat} (hoi : (DirView s gh (dirIdOf d.cluster))[i]? = some o)
    (mode : Mode) (off : Nat) (hoff : off ≤ e.size) :
    VolInv { s with nextId := (s.nextId + 1) % 4294967296, files := s.files ++ [Modes.openedFile d s.nextId e mode off] } gh ∧
    Abs { s with nextId := (s.nextId + 1) % 4294967296, files := s.files ++ [Modes.openedFile d s.nextId e mode off] } gh
      { Spec.AbsFs.gen a with files := a.files ++ [⟨a.nextId, d.rawVolume, mode, dirIdOf d.cluster, i, off, metaOf gh.vol.fatType o, false⟩] } := by
  have hM := medX_of_med hI.med
  obtain ⟨hid, _⟩ := validDir_id hM hdv
  obtain ⟨hobj, hod, hfree⟩ := hF.object hI hv hdv hraw hdir hopen
  obtain ⟨hn, hat, hsz, hb, hoo, hnd⟩ := hF.fields
  obtain ⟨_, hcl⟩ := hnd hdir
  refine ⟨volInv_open_existing hI hv hdv hraw hF hdir hopen _ mode off hoff _, ?_⟩
  set fnew := Modes.openedFile d s.nextId e mode off with hfnew
  have hkeyn : fkey fnew = spos o := Prod.ext hb hoo
  refine ⟨by show (a.nextId + 1) % 4294967296 = _; rw [hA.nextId], hA.maxDirs, hA.maxFiles, hA.clock, hA.locked, hA.vols, hA.dirs, ?_, hA.ids, ?_⟩
  · show List.Forall₂ _ (a.files ++ [_]) (s.files ++ [fnew])
    refine forall₂_append (forall₂_mono hA.files fun _ _ _ hr => hr.of_disk rfl) (.cons ?_ .nil)
    refine ⟨hA.nextId, rfl, rfl, rfl, ?_, rfl, hid, o, hoi, hkeyn.symm⟩
    show metaOf gh.vol.fatType o = view e
    rw [hF.dec]; rfl
  · intro x hx
    show a.slots x = _
    rw [hA.slots x hx]
    refine (absSlots_congr_mem (s := s) (s' := { s with nextId := (s.nextId + 1) % 4294967296, files := s.files ++ [fnew] }) rfl x ?_).symm
    intro o' ho' hk hdo
    unfold contOf contentOf effCluster effSize
    show fileContent gh.vol s.dev.disk (chainOf gh.G (match pendOf (s.files ++ [fnew]) o' with | some f => _ | none => _))
      (match pendOf (s.files ++ [fnew]) o' with | some f => _ | none => _) = _
    by_cases hs : spos o' = fkey fnew
    · have hoo' : o' = o := by
        have := slot_unique hM hx hid (mem_beforeEnd ho').1 (mem_of_beforeEnd_getElem? hoi) (hs.trans hkeyn)
        exact this.2
      subst hoo'
      rw [pendOf_append_new s.files fnew hfree hkeyn, hfree]
      simp only
      show fileContent gh.vol s.dev.disk (chainOf gh.G e.cluster) e.size = _
      rw [hcl, hsz]
    · rw [pendOf_append_other s.files fnew hs]
      rfl

/-! ### The abstract call, case by case -/

section
variable {a : AState} {d : Nat} {name : List Nat} {mode : Mode} {od : OpenDir} {sfn : Bytes}

theorem openFileS_full (h : a.files.length ≥ a.maxFiles) : Spec.AbsFs.openFileS a d name mode a (.err .TooManyOpenFiles) := by
  unfold Spec.AbsFs.openFileS
  rw [if_pos h]
  exact ⟨rfl, rfl⟩

theorem openFileS_bad {e : Err} (hroom : ¬ a.files.length ≥ a.maxFiles) (h : Spec.AbsFs.dirCtx a d name = .error e) :
    Spec.AbsFs.openFileS a d name mode a (.err e) := by
  unfold Spec.AbsFs.openFileS
  rw [if_neg hroom, h]
  exact ⟨rfl, rfl⟩

theorem openFileS_notFound (hroom : ¬ a.files.length ≥ a.maxFiles) (hctx : Spec.AbsFs.dirCtx a d name = .ok (od, sfn))
    (hlk : Spec.AbsFs.lookup (a.slots od.dir) sfn = none)
    (hm : ¬ (mode = .ReadWriteCreate ∨ mode = .ReadWriteCreateOrTruncate ∨ mode = .ReadWriteCreateOrAppend)) :
    Spec.AbsFs.openFileS a d name mode a (.err .NotFound) := by
  unfold Spec.AbsFs.openFileS
  rw [if_neg hroom, hctx]
  dsimp only
  rw [hlk]
  dsimp only
  rw [if_neg hm]
  exact ⟨rfl, rfl⟩

theorem openFileS_create {a' : AState} {r : Res Payload} (hroom : ¬ a.files.length ≥ a.maxFiles)
    (hctx : Spec.AbsFs.dirCtx a d name = .ok (od, sfn)) (hlk : Spec.AbsFs.lookup (a.slots od.dir) sfn = none)
    (hm : mode = .ReadWriteCreate ∨ mode = .ReadWriteCreateOrTruncate ∨ mode = .ReadWriteCreateOrAppend)
    (h : (a' = a ∧ r = .err .NotEnoughSpace) ∨
      (a' = { Spec.AbsFs.gen (Spec.AbsFs.setSlot a od.dir (Spec.AbsFs.freeIdx (a.slots od.dir)) (.file (storedMeta (Spec.AbsFs.newMeta sfn 0 a.clock)) [])) with files := a.files ++ [⟨a.nextId, od.volume, .ReadWriteCreate, od.dir, Spec.AbsFs.freeIdx (a.slots od.dir), 0, Spec.AbsFs.newMeta sfn 0 a.clock, false⟩] } ∧
       r = .ok (.handle a.nextId))) :
    Spec.AbsFs.openFileS a d name mode a' r := by
  unfold Spec.AbsFs.openFileS
  rw [if_neg hroom, hctx]
  dsimp only
  rw [hlk]
  dsimp only
  rw [if_pos hm]
  exact h

/-- The name exists and is a file. -/
theorem openFileS_file {a' : AState} {r : Res Payload} {i : Nat} {m : Meta} {bytes : Bytes}
    (hroom : ¬ a.files.length ≥ a.maxFiles) (hctx : Spec.AbsFs.dirCtx a d name = .ok (od, sfn))
    (hlk : Spec.AbsFs.lookup (a.slots od.dir) sfn = some i) (hsl : (a.slots od.dir)[i]? = some (.file m bytes))
    (h : if Spec.AbsFs.isOpenAt a od.volume od.dir i then a' = a ∧ r = .err .FileAlreadyOpen
      else if mode = .ReadWriteCreate then a' = a ∧ r = .err .FileAlreadyExists
      else if Attr.isReadOnly m.attr ∧ mode ≠ .ReadOnly then a' = a ∧ r = .err .ReadOnly
      else
        r = .ok (.handle a.nextId) ∧
        (if solveModeVariant mode true = .ReadWriteTruncate then
          a' = { Spec.AbsFs.gen (Spec.AbsFs.setSlot a od.dir i (.file (storedMeta { m with size := 0, mtime := a.clock }) [])) with files := a.files ++ [⟨a.nextId, od.volume, .ReadWriteTruncate, od.dir, i, 0, { m with size := 0, mtime := a.clock }, false⟩] }
        else
          a' = { Spec.AbsFs.gen a with files := a.files ++ [⟨a.nextId, od.volume, solveModeVariant mode true, od.dir, i, if solveModeVariant mode true = .ReadWriteAppend then m.size else 0, m, false⟩] })) :
    Spec.AbsFs.openFileS a d name mode a' r := by
  unfold Spec.AbsFs.openFileS
  rw [if_neg hroom, hctx]
  dsimp only
  rw [hlk]
  dsimp only
  rw [hsl]
  exact h

/-- The name exists and is a directory. -/
theorem openFileS_dir {a' : AState} {r : Res Payload} {i : Nat} {m : Meta} {t : Nat}
    (hroom : ¬ a.files.length ≥ a.maxFiles) (hctx : Spec.AbsFs.dirCtx a d name = .ok (od, sfn))
    (hlk : Spec.AbsFs.lookup (a.slots od.dir) sfn = some i) (hsl : (a.slots od.dir)[i]? = some (.dir m t))
    (h : if mode = .ReadWriteCreate then a' = a ∧ r = .err .FileAlreadyExists
      else if Attr.isReadOnly m.attr ∧ mode ≠ .ReadOnly then a' = a ∧ r = .err .ReadOnly
      else a' = a ∧ r = .err .OpenedDirAsFile) :
    Spec.AbsFs.openFileS a d name mode a' r := by
  unfold Spec.AbsFs.openFileS
  rw [if_neg hroom, hctx]
  dsimp only
  rw [hlk]
  dsimp only
  rw [hsl]
  exact h

end

end Sdmmc.Lemmas.AbsFs
