/-
Capacity (C05, second sentence), part 5 — sequences of writes at the end of one file: as long as
the total stays within what the file's clusters and the free clusters of the volume can hold every
call answers `Ok` (`fill_ok`); the first call that passes it stores exactly the bytes that still fit
and answers `DiskFull`, with no cluster left free (`fill_over`).
-/
import Sdmmc.Lemmas.CapacityFill

namespace Sdmmc.Lemmas.Capacity
open Sdmmc.Model Sdmmc.Model.Fat Sdmmc.Spec
open Sdmmc.Lemmas.FBasic hiding NoFault Coherent
open Sdmmc.Lemmas.FatOps hiding BlocksOK Mirror HintOK
open Sdmmc.Lemmas.ChainL Sdmmc.Lemmas.ForestBase Sdmmc.Lemmas.ForestOwns Sdmmc.Lemmas.ReadRefines
open Sdmmc.Lemmas.WriteRefines

/-- `write h b` for each buffer of the list, in order (errors do not stop the sequence): the
answers and the final state.  Same body as `Sdmmc.Props.C05Capacity.writeMany`. -/
def writeMany (h : Nat) : List Bytes → Mgr → List (Res Unit) × Mgr
  | [], s => ([], s)
  | b :: bs, s => ((Model.write h b s).1 :: (writeMany h bs (Model.write h b s).2).1,
                   (writeMany h bs (Model.write h b s).2).2)

theorem needed_needed {a x y b : Nat} (h : x ≤ y) : needed (needed a x b) y b = needed a y b := by
  unfold needed
  have := cdiv_mono (b := b) h
  omega

/-- The byte-array write at the end of the array is an append. -/
theorem byteFile_write_at_end (bf : ByteFile) (data : Bytes) (h : bf.pos = bf.bytes.length) :
    (bf.write data).bytes = bf.bytes ++ data := by
  unfold ByteFile.write
  simp only
  rw [h, List.take_length, List.drop_eq_nil_of_le (by omega), List.append_nil]

/-- **Filling.**  A file positioned at its end (`offset = size = o`), `cs.length` clusters, `F` free
clusters on the volume, at least one cluster in all.  Buffers whose total length keeps `o + total`
within `(cs.length + F) * cb` (and below `MAX_FILE_SIZE`) are ALL stored: every call answers `Ok`,
the file is the old bytes followed by the buffers, still positioned at its end; clusters are
conserved (`cs'.length + free' = cs.length + F`) and the chain has exactly the clusters needed. -/
theorem fill_ok (h i vi : Nat) (A B : List (List Nat)) : ∀ (bs : List Bytes) (s : Mgr) (f : FileInfo) (v : VolInfo)
    (cs : List Nat), WReady s h i vi f v cs A B → f.currentOffset = f.entry.size →
    1 ≤ cs.length + freeCount v.vol s.dev.disk →
    f.currentOffset + bs.flatten.length ≤ (cs.length + freeCount v.vol s.dev.disk) * clusterBytesLen v.vol →
    f.currentOffset + bs.flatten.length ≤ Gen.MAX_FILE_SIZE →
    ∃ s' f' v' cs', writeMany h bs s = (bs.map fun _ => .ok (), s') ∧ WReady s' h i vi f' v' cs' A B ∧
      SameGeom v.vol v'.vol ∧ cs <+: cs' ∧
      f'.currentOffset = f.currentOffset + bs.flatten.length ∧ f'.entry.size = f.currentOffset + bs.flatten.length ∧
      (absFile v'.vol s'.dev.disk f' cs').bytes = (absFile v.vol s.dev.disk f cs).bytes ++ bs.flatten ∧
      cs'.length + freeCount v'.vol s'.dev.disk = cs.length + freeCount v.vol s.dev.disk ∧
      (bs ≠ [] → cs'.length = needed cs.length (f.currentOffset + bs.flatten.length) (clusterBytesLen v.vol)) ∧
      f'.entry.entryBlock = f.entry.entryBlock ∧ f'.entry.entryOffset = f.entry.entryOffset ∧
      f'.entry.name = f.entry.name ∧ (bs ≠ [] → f'.dirty = true) ∧ s'.dirs = s.dirs ∧ f'.rawVolume = f.rawVolume := by
  intro bs
  induction bs with
  | nil =>
    intro s f v cs hr hpos _ _ _
    exact ⟨s, f, v, cs, rfl, hr, SameGeom.refl _, List.prefix_refl _, by simp, by simp [hpos], by simp, rfl,
      fun h => absurd rfl h, rfl, rfl, rfl, fun h => absurd rfl h, rfl, rfl⟩
  | cons b bs ih =>
    intro s f v cs hr hpos hone hcap hmax
    have hcb : 0 < clusterBytesLen v.vol := Nat.mul_pos hr.geom.bpc_pos (by omega)
    have hfl : (b :: bs).flatten.length = b.length + bs.flatten.length := by simp
    rw [hfl] at hcap hmax
    obtain ⟨k, r, s1, f1, v1, cs1, hrun, hr1, hsg1, hpre1, habs1, hoff1, hsize1, hcase⟩ :=
      write_step s h i vi b f v cs A B hr (by omega)
    have hneed : needed cs.length (f.currentOffset + b.length) (clusterBytesLen v.vol) - cs.length ≤
        freeCount v.vol s.dev.disk := by
      have h1 : cdiv (f.currentOffset + b.length) (clusterBytesLen v.vol) ≤ cs.length + freeCount v.vol s.dev.disk :=
        cdiv_le hcb (Nat.le_trans (by omega) hcap)
      unfold needed
      omega
    rcases hcase with ⟨_, hrok, hk, hlen1, hfc1⟩ | ⟨hlt, _⟩
    · subst hk
      have hcbeq : clusterBytesLen v1.vol = clusterBytesLen v.vol := sameGeom_clusterBytesLen hsg1
      have hl1 : cs.length ≤ cs1.length := hpre1.length_le
      have hpos1 : f1.currentOffset = f1.entry.size := by rw [hoff1, hsize1, hpos]; omega
      have hfr := write_entry_frame s h i vi b f v cs A B hr (by omega) f1 (by rw [hrun]; exact hr1.hf)
      rw [hrun] at hfr
      have hsum : cs1.length + freeCount v1.vol s1.dev.disk = cs.length + freeCount v.vol s.dev.disk := by omega
      have hcap1 : f1.currentOffset + bs.flatten.length ≤
          (cs1.length + freeCount v1.vol s1.dev.disk) * clusterBytesLen v1.vol := by
        rw [hoff1, hcbeq, hsum]; omega
      obtain ⟨s', f', v', cs', hrun', hr', hsg', hpre', hoff', hsize', hbytes', hcons', hlen', heb', heo', hnm', hdirty', hdirs', hrv'⟩ :=
        ih s1 f1 v1 cs1 hr1 hpos1 (by omega) hcap1 (by rw [hoff1]; omega)
      refine ⟨s', f', v', cs', ?_, hr', hsg1.trans hsg', hpre1.trans hpre', by rw [hoff', hoff1, hfl]; omega,
        by rw [hsize', hoff1, hfl]; omega, ?_, by omega, fun _ => ?_, heb'.trans hfr.2.1, heo'.trans hfr.2.2.1,
        hnm'.trans hfr.2.2.2.1, fun _ => ?_, hdirs'.trans hfr.2.2.2.2.1, hrv'.trans hfr.2.2.2.2.2⟩
      · show ((Model.write h b s).1 :: (writeMany h bs (Model.write h b s).2).1, (writeMany h bs (Model.write h b s).2).2) = _
        rw [hrun]
        simp only
        rw [hrun', hrok]
        rfl
      · rw [hbytes', habs1, List.take_length]
        have hend : (absFile v.vol s.dev.disk f cs).pos = (absFile v.vol s.dev.disk f cs).bytes.length := by
          show f.currentOffset = (fileContent v.vol s.dev.disk cs f.entry.size).length
          rw [fileContent_length _ _ _ _ hr.ok.2.2.1 hr.fileOK.size_fits, hpos]
        rw [byteFile_write_at_end _ _ hend, List.append_assoc]
        simp
      · by_cases hbs : bs = []
        · subst hbs
          have hs1 : cs' = cs1 := by
            have h1 : writeMany h [] s1 = ([], s1) := rfl
            rw [h1] at hrun'
            have hs' : s' = s1 := (congrArg Prod.snd hrun').symm
            subst hs'
            -- the chain of a file is determined by the medium
            have hf1 := hr'.hf.symm.trans hr1.hf
            have hv1 := hr'.hvi.symm.trans hr1.hvi
            cases hf1; cases hv1
            rcases hr'.fileOK.chain with ⟨ha, hb', _⟩ | ha
            · rcases hr1.fileOK.chain with ⟨_, hc', _⟩ | hc'
              · rw [hb', hc']
              · have := (chain_inRange hc' _ (chain_head_mem hc')).1; omega
            · rcases hr1.fileOK.chain with ⟨hc0, _, _⟩ | hc'
              · have := (chain_inRange ha _ (chain_head_mem ha)).1; omega
              · exact chain_unique ha _ hc'
          rw [hs1, hlen1, hfl]
          simp
        · rw [hlen' hbs, hlen1, hoff1, hcbeq, hfl, needed_needed (by omega), Nat.add_assoc]
      · by_cases hbs : bs = []
        · subst hbs
          have h1 : writeMany h [] s1 = ([], s1) := rfl
          rw [h1] at hrun'
          have hs' : s' = s1 := (congrArg Prod.snd hrun').symm
          subst hs'
          have hf1 := hr'.hf.symm.trans hr1.hf
          cases hf1
          exact hfr.1
        · exact hdirty' hbs
    · omega

/-- **One call too many.**  In the situation of `fill_ok`, a buffer that does not fit any more
(`o + data.length` beyond `(cs.length + F) * cb`): the call answers `DiskFull`, the chain takes all
`F` free clusters, none is left free, and exactly the `(cs.length + F) * cb - o` bytes that fit are
stored: the file is the old bytes followed by that prefix of the buffer. -/
theorem fill_over (s : Mgr) (h i vi : Nat) (data : Bytes) (f : FileInfo) (v : VolInfo) (cs : List Nat)
    (A B : List (List Nat)) (hr : WReady s h i vi f v cs A B) (hpos : f.currentOffset = f.entry.size)
    (hone : 1 ≤ cs.length + freeCount v.vol s.dev.disk)
    (hover : (cs.length + freeCount v.vol s.dev.disk) * clusterBytesLen v.vol < f.currentOffset + data.length)
    (hmax : f.currentOffset + data.length ≤ Gen.MAX_FILE_SIZE) :
    ∃ k s' f' v' cs', Model.write h data s = (.err .DiskFull, s') ∧ WReady s' h i vi f' v' cs' A B ∧
      SameGeom v.vol v'.vol ∧ cs <+: cs' ∧
      f.currentOffset + k = (cs.length + freeCount v.vol s.dev.disk) * clusterBytesLen v.vol ∧ k < data.length ∧
      f'.currentOffset = f.currentOffset + k ∧ f'.entry.size = f.currentOffset + k ∧
      (absFile v'.vol s'.dev.disk f' cs').bytes = (absFile v.vol s.dev.disk f cs).bytes ++ data.take k ∧
      cs'.length = cs.length + freeCount v.vol s.dev.disk ∧ freeCount v'.vol s'.dev.disk = 0 := by
  have hcb : 0 < clusterBytesLen v.vol := Nat.mul_pos hr.geom.bpc_pos (by omega)
  obtain ⟨k, r, s1, f1, v1, cs1, hrun, hr1, hsg1, hpre1, habs1, hoff1, hsize1, hcase⟩ :=
    write_step s h i vi data f v cs A B hr hmax
  rcases hcase with ⟨hfit, _⟩ | ⟨_, hres, hk, hlen1, hz, hoffk⟩
  · exfalso
    have h1 : cs.length + freeCount v.vol s.dev.disk + 1 ≤ cdiv (f.currentOffset + data.length) (clusterBytesLen v.vol) := by
      apply le_cdiv hcb
      rw [Nat.add_mul, Nat.one_mul]
      omega
    unfold needed at hfit
    omega
  · have hne : cs1 ≠ [] := by intro e; rw [e] at hlen1; simp at hlen1; omega
    rcases hres with ⟨hr1', _⟩ | ⟨_, _, hnil⟩
    · rw [if_neg hne] at hk
      refine ⟨k, s1, f1, v1, cs1, by rw [hrun, hr1'], hr1, hsg1, hpre1, hoffk, by omega, hoff1, by rw [hsize1, hpos]; omega,
        ?_, hlen1, hz⟩
      rw [habs1]
      have hend : (absFile v.vol s.dev.disk f cs).pos = (absFile v.vol s.dev.disk f cs).bytes.length := by
        show f.currentOffset = (fileContent v.vol s.dev.disk cs f.entry.size).length
        rw [fileContent_length _ _ _ _ hr.ok.2.2.1 hr.fileOK.size_fits, hpos]
      exact byteFile_write_at_end _ _ hend
    · exact absurd hnil hne

end Sdmmc.Lemmas.Capacity
