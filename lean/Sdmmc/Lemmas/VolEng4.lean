/-
Volume invariant (C03), layer 2 (engine): a chained directory grows by a blank cluster
(`grow_med`: `alloc_cluster(Some(last cluster of the directory), zero = true)`).
-/
import Sdmmc.Lemmas.VolEng3
import Sdmmc.Lemmas.VolChains

namespace Sdmmc.Lemmas.VolEng
open Sdmmc.Model Sdmmc.Model.Fat Sdmmc.Spec.Volume Sdmmc.Lemmas.VolBase Sdmmc.Lemmas.VolTree
open Sdmmc.Spec hiding NoFault Coherent
open Sdmmc.Lemmas.VolDisk Sdmmc.Lemmas.VolMed Sdmmc.Lemmas.VolWalk
open Sdmmc.Lemmas.FBasic
open Sdmmc.Lemmas.FatOps hiding BlocksOK Mirror HintOK

section
variable {files : List FileInfo} {gh : Ghost} {X : List (List Nat)}

/-- The first cluster of a chained directory is the FAT32 root cluster or a sub-directory's. -/
theorem dirHead_cases {v : FatVolume} {h : Nat} (hh : h ∈ dirIds gh.dirs)
    (hf : ¬ isFixedRoot v h) : dirHead v h ∈ rootHead v ∨ dirHead v h ∈ gh.dirs.map Prod.fst := by
  unfold dirHead
  by_cases h0 : h = 0
  · rw [if_pos h0]
    left
    have h32 : v.fatType = .fat32 := by
      cases hft' : v.fatType with
      | fat16 => exact absurd ⟨h0, hft'⟩ hf
      | fat32 => rfl
    unfold rootHead; rw [h32]; exact List.mem_singleton.2 rfl
  · rw [if_neg h0]
    right
    rcases mem_dirIds.1 hh with e0 | ⟨q, hq⟩
    · exact absurd e0 h0
    · exact List.mem_map.2 ⟨(h, q), hq, rfl⟩

theorem dots_append {ft : FatType} {h p : Nat} {ss zs : List Slot} (hd : DotsOK ft h p ss) : DotsOK ft h p (ss ++ zs) := by
  obtain ⟨s0, s1, rest, he, h0, h1⟩ := hd
  exact ⟨s0, s1, rest ++ zs, by rw [he]; rfl, h0, h1⟩

/-- **A directory grows by a blank cluster.**  `h` is a chained directory whose chain ends in `p`;
`alloc_cluster(Some(p), true)` returned `c`.  The invariant holds for the chain list with `c` appended to
that chain; the directory's slot list is the old one followed by the (blank) slots of `c`; every other
directory's slot list and every block of the other clusters are as before. -/
theorem grow_med {fs fs2 : FS} (hM : MedX fs.vol fs.dev.disk files gh X) (hn : NoFault fs) (hc : Coherent fs)
    {h : Nat} (hh : h ∈ dirIds gh.dirs) (hf : ¬ isFixedRoot fs.vol h) {pre : List Nat} {p c : Nat}
    (hcs : chainOf gh.G (dirHead fs.vol h) = pre ++ [p]) (ha : allocCluster (some p) true fs = (.ok c, fs2)) :
    NoFault fs2 ∧ Coherent fs2 ∧ SameGeom fs.vol fs2.vol ∧
    ∃ G1, MedX fs2.vol fs2.dev.disk files { vol := fs2.vol, G := G1, dirs := gh.dirs } X ∧
      chainOf G1 (dirHead fs.vol h) = pre ++ [p] ++ [c] ∧
      dirSlots fs2.vol fs2.dev.disk G1 h =
        dirSlots fs.vol fs.dev.disk gh.G h ++ runSlots fs2.dev.disk (clusterToBlock fs.vol c) fs.vol.blocksPerCluster ∧
      (∀ j, j < fs.vol.blocksPerCluster → fs2.dev.disk.get (clusterToBlock fs.vol c + j) = zeroBlock) ∧
      (∀ x, x ∈ dirIds gh.dirs → x ≠ h → dirSlots fs2.vol fs2.dev.disk G1 x = dirSlots fs.vol fs.dev.disk gh.G x) ∧
      (∀ c' j, 2 ≤ c' → c' < endCluster fs.vol → c' ≠ c → j < fs.vol.blocksPerCluster →
        fs2.dev.disk.get (clusterToBlock fs.vol c' + j) = fs.dev.disk.get (clusterToBlock fs.vol c' + j)) ∧
      InRange fs.vol c ∧ (∀ cs, cs ∈ gh.G ++ X → c ∉ cs) ∧ heads G1 = heads gh.G ∧
      (∀ x, x ≠ dirHead fs.vol h → chainOf G1 x = chainOf gh.G x) := by
  have hG := med_heads hM
  obtain ⟨hm, hhd⟩ := dirChain_spec hM hh hf
  rw [hcs] at hm hhd
  obtain ⟨A1, B1, hsplit⟩ := List.append_of_mem hm
  have hr : Ready fs := ⟨hn, hc, hM.blocksOK, hM.geom, hM.hint⟩
  have ho : Owns fs.vol fs.dev.disk (A1 ++ [pre ++ [p]] ++ (B1 ++ X)) := by
    have := hM.owns
    rw [hsplit] at this
    simpa [List.append_assoc] using this
  obtain ⟨hr2, ho2, hsg, _, _⟩ := ForestStep.owns_extend fs fs2 A1 (B1 ++ X) pre p true c hr ho ha
  have hpE : p < endCluster fs.vol :=
    (med_inRange hM hm (List.mem_append_right _ (List.mem_singleton.2 rfl))).2
  have hpp : ∀ q, some p = some q → q < endCluster fs.vol := fun q hq => by cases hq; exact hpE
  obtain ⟨hcR, _, _, hcG, _⟩ := ForestFinal.alloc_never_returns_used fs fs2 (some p) true c hn hc hM.hint ha
  have hcnot : ∀ cs, cs ∈ gh.G ++ X → c ∉ cs := fun cs hcs hcc => hcG _ hM.owns (List.mem_flatten_of_mem hcs hcc)
  obtain ⟨hk1, hk2⟩ := alloc_keeps_blocks hn hc hM.blocksOK hM.geom hM.hint hpp ha
  have hzero := alloc_zeroed fs fs2 (some p) c hn hc hM.blocksOK hM.geom hM.hint hpp ha
  -- the new chain list
  let G1 := A1 ++ (pre ++ [p] ++ [c]) :: B1
  have ho2' : Owns fs2.vol fs2.dev.disk (G1 ++ X) := by
    show Owns fs2.vol fs2.dev.disk ((A1 ++ (pre ++ [p] ++ [c]) :: B1) ++ X)
    simpa [List.append_assoc] using ho2
  have hG1 : HeadsOK G1 := heads_left (heads_of_owns ho2')
  have hGs : HeadsOK (A1 ++ (pre ++ [p]) :: B1) := by rw [← hsplit]; exact hG
  have hhead1 : (pre ++ [p] ++ [c]).headD 0 = (pre ++ [p]).headD 0 := by
    cases pre <;> rfl
  have hhd1 : (pre ++ [p] ++ [c]).head? = some (dirHead fs.vol h) := by
    cases pre with
    | nil => simpa using hhd
    | cons a l => simpa using hhd
  have hdh : (pre ++ [p]).headD 0 = dirHead fs.vol h := headD_of_head? hhd
  have hchainSelf : chainOf G1 (dirHead fs.vol h) = pre ++ [p] ++ [c] := chainOf_replace_self hG1 hhd1
  have hchainOther : ∀ x, x ≠ dirHead fs.vol h → chainOf G1 x = chainOf gh.G x := by
    intro x hx
    rw [hsplit]
    exact chainOf_replace_other hGs hG1 hhead1 (by rw [hdh]; exact hx)
  have hheads : heads G1 = heads gh.G := by rw [hsplit]; exact heads_replace A1 B1 _ _ hhead1
  -- slot lists
  have hslotsOther : ∀ x, x ∈ dirIds gh.dirs → x ≠ h →
      dirSlots fs2.vol fs2.dev.disk G1 x = dirSlots fs.vol fs.dev.disk gh.G x := by
    intro x hx hne
    rw [dirSlots_sameGeom hsg, ← alloc_keeps_dirSlots hM hn hc hpp ha hx]
    by_cases hfx : isFixedRoot fs.vol x
    · rw [dirSlots_fixed hfx, dirSlots_fixed hfx]
    · rw [dirSlots_chain hfx, dirSlots_chain hfx, hchainOther _ (dirHead_inj hM hx hh hfx hf hne)]
  have hslotsSelf : dirSlots fs2.vol fs2.dev.disk G1 h =
      dirSlots fs.vol fs.dev.disk gh.G h ++ runSlots fs2.dev.disk (clusterToBlock fs.vol c) fs.vol.blocksPerCluster := by
    rw [dirSlots_sameGeom hsg, dirSlots_chain hf, hchainSelf, chainSlots_append, ← alloc_keeps_dirSlots hM hn hc hpp ha hh,
      dirSlots_chain hf, hcs]
    congr 1
    rw [VolDisk.chainSlots_cons, VolDisk.chainSlots_nil, List.append_nil]
  have hz : ∀ t, t ∈ runSlots fs2.dev.disk (clusterToBlock fs.vol c) fs.vol.blocksPerCluster → first t = 0 :=
    runSlots_zero hzero
  -- the tree
  have hft := hsg.fatType
  have hcb := WriteRefines.sameGeom_clusterBytesLen hsg
  have hroot : rootHead fs2.vol = rootHead fs.vol := by obtain ⟨a, b, e⟩ := hsg; rw [e]; rfl
  have htree : TreeOK fs2.vol.fatType (clusterBytesLen fs2.vol) (rootHead fs2.vol) G1 gh.dirs
      (dirSlots fs2.vol fs2.dev.disk G1) files := by
    rw [hft, hcb, hroot]
    apply tree_same_entries hM.tree hG
    · intro x hx
      by_cases hxh : x = h
      · rw [hxh, hslotsSelf, entries_append_zeros _ _ hz]
      · rw [hslotsOther x hx hxh]
    · intro x hx
      by_cases hxh : x = h
      · rw [hxh, hslotsSelf]; exact cleanTail_append_zeros _ _ hz (hM.tree.cleanTail h hh)
      · rw [hslotsOther x hx hxh]; exact hM.tree.cleanTail x hx
    · intro x q hxq
      have hx : x ∈ dirIds gh.dirs := mem_dirIds.2 (.inr ⟨q, hxq⟩)
      by_cases hxh : x = h
      · rw [hxh, hslotsSelf]; exact dots_append (hxh ▸ hM.tree.dots x q hxq)
      · rw [hslotsOther x hx hxh]; exact hM.tree.dots x q hxq
    · intro a; rw [hheads]
    · intro c' _ hnr hnd
      have hne : c' ≠ dirHead fs.vol h := by
        intro e
        unfold dirHead at e
        by_cases h0 : h = 0
        · rw [if_pos h0] at e
          apply hnr
          have h32 : fs.vol.fatType = .fat32 := by
            cases hft' : fs.vol.fatType with
            | fat16 => exact absurd ⟨h0, hft'⟩ hf
            | fat32 => rfl
          unfold rootHead; rw [h32, e]; exact List.mem_singleton.2 rfl
        · rw [if_neg h0] at e
          rcases mem_dirIds.1 hh with e0 | ⟨q, hq⟩
          · exact h0 e0
          · exact hnd (e ▸ List.mem_map.2 ⟨(h, q), hq, rfl⟩)
      rw [hchainOther c' hne]
      exact Nat.le_refl _
  refine ⟨hr2.noFault, hr2.coherent, hsg, G1, ⟨hr2.blocksOK, hr2.geom, hr2.hint, ho2', htree, ?_⟩, hchainSelf, hslotsSelf,
    hzero, hslotsOther, hk1, hcR, hcnot, hheads, hchainOther⟩
  -- open files
  intro f hfm
  obtain ⟨hok, hcur⟩ := hM.fileOK f hfm
  have hne : f.entry.cluster ≠ dirHead fs.vol h ∨ chainOf gh.G f.entry.cluster = [] := by
    by_cases hnil : chainOf gh.G f.entry.cluster = []
    · exact .inr hnil
    · left
      -- the file's cluster is what its object names, hence no directory
      obtain ⟨x, hx, A, o, B, hO, hpo, hod, _, _, hpend⟩ := file_object hM.tree hfm
      have ho' : o ∈ objects x (dirSlots fs.vol fs.dev.disk gh.G x) := by rw [hO]; simp
      have hcne : effCluster fs.vol.fatType files o ≠ 0 := by
        rw [effCluster_of_pend hpend]
        intro e0
        exact hnil (by rw [e0]; exact chainOf_lt_two hG (by decide))
      obtain ⟨hnr, hnd⟩ := fileRef_not_dir hM.tree hG hx ho' hod hcne
      rw [effCluster_of_pend hpend] at hnr hnd
      intro e
      unfold dirHead at e
      by_cases h0 : h = 0
      · rw [if_pos h0] at e
        apply hnr
        have h32 : fs.vol.fatType = .fat32 := by
          cases hft' : fs.vol.fatType with
          | fat16 => exact absurd ⟨h0, hft'⟩ hf
          | fat32 => rfl
        unfold rootHead; rw [h32, e]; exact List.mem_singleton.2 rfl
      · rw [if_neg h0] at e
        rcases mem_dirIds.1 hh with e0 | ⟨q, hq⟩
        · exact h0 e0
        · exact hnd (e ▸ List.mem_map.2 ⟨(h, q), hq, rfl⟩)
  have hsame : chainOf G1 f.entry.cluster = chainOf gh.G f.entry.cluster := by
    rcases hne with hne | hnil
    · exact hchainOther _ hne
    · rw [hnil]
      apply chainOf_nil
      rw [hheads]
      exact fun hm' => (chainOf_ne_nil_iff hG).2 hm' hnil
  show FileOK fs2.vol fs2.dev.disk f (chainOf G1 f.entry.cluster) ∧ _
  rw [hsame]
  refine ⟨fileOK_of_owns hsg hok ho2' ?_, hcur⟩
  by_cases hnil : chainOf gh.G f.entry.cluster = []
  · exact .inl hnil
  · right
    have hmem := (chainOf_spec hG ((chainOf_ne_nil_iff hG).1 hnil)).1
    rw [← hsame]
    have hmem1 := (chainOf_spec hG1 (by rw [hheads]; exact (chainOf_ne_nil_iff hG).1 hnil)).1
    exact List.mem_append_left _ hmem1

end

end Sdmmc.Lemmas.VolEng
