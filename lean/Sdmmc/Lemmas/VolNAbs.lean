/-
Several open volumes, refinement (`Props/C01Multi.lean`): the abstraction relation `AbsN s ghs A` between a manager
state with `VolInvN s ghs` and a state of the multi-volume abstract file system `Spec.AbsFs.AbsFsN`, and its basic
lemmas.

* `AbsNx` — the relation with the tables IN THE ORDER of the manager's tables; `AbsN` — up to the order of the
  directory / file tables (`TPerm`);
* `abs_view` — what the volume `hv` sees of `B` (`viewOf B hv`) is an abstract counterpart (`Lemmas.AbsFs.Abs`) of the
  projection of the manager to that volume: the bridge to `Props.C01Fs`;
* `absSlots_congr`, `fileRel_congr` — the abstraction of a volume reads the medium only inside the volume's partition,
  and the open files only up to order.
-/
import Sdmmc.Spec.AbsFsN
import Sdmmc.Lemmas.AbsFsEdit
import Sdmmc.Lemmas.VolNInv

namespace Sdmmc.Lemmas.VolN
open Sdmmc.Model Sdmmc.Model.Fat Sdmmc.Spec.Volume
open Sdmmc.Spec hiding NoFault Coherent run step
open Sdmmc.Spec.AbsFs (AbsFsN OpenFile OpenDir viewOf otherDirsA otherFilesA TPerm SameUpToOrder)
open Sdmmc.Lemmas.AbsFs (Abs FileRel absDir absSlots absSlot contentOf forall₂_length)
open Sdmmc.Lemmas.VolBase Sdmmc.Lemmas.VolTree Sdmmc.Lemmas.VolMed Sdmmc.Lemmas.VolDisk

/-! ### The relation -/

/-- An open file and its abstract counterpart: `FileRel` with the ghost of the file's volume. -/
def FileRelN (s : Mgr) (ghs : List Ghost) (af : OpenFile) (f : FileInfo) : Prop :=
  ∃ (i : Nat) (vi : VolInfo) (gh : Ghost), s.vols[i]? = some vi ∧ ghs[i]? = some gh ∧ f.rawVolume = vi.rawVolume ∧
    FileRel s gh af f

def vkeyA (v : VolInfo) : Nat × Nat := (v.rawVolume, v.idx)

/-- The abstraction relation, the tables in the manager's order. -/
structure AbsNx (s : Mgr) (ghs : List Ghost) (B : AbsFsN) : Prop where
  nextId : B.nextId = s.nextId
  maxVols : B.maxVols = s.maxVols
  maxDirs : B.maxDirs = s.maxDirs
  maxFiles : B.maxFiles = s.maxFiles
  clock : B.clock = s.clock
  locked : B.locked = s.locked
  vols : B.vols = s.vols.map vkeyA
  dirs : B.dirs = s.dirs.map absDir
  files : List.Forall₂ (FileRelN s ghs) B.files s.files
  trees : ∀ (i : Nat) (vi : VolInfo) (gh : Ghost), s.vols[i]? = some vi → ghs[i]? = some gh →
    B.ids vi.rawVolume = dirIds gh.dirs ∧
    ∀ h, h ∈ dirIds gh.dirs → B.slots vi.rawVolume h = absSlots (projH vi.rawVolume i s) gh h

/-- **The abstraction relation** (up to the order of the directory / file tables). -/
def AbsN (s : Mgr) (ghs : List Ghost) (A : AbsFsN) : Prop := ∃ B, TPerm A B ∧ AbsNx s ghs B

theorem TPerm.refl (A : AbsFsN) : TPerm A A :=
  ⟨rfl, rfl, rfl, rfl, rfl, rfl, rfl, List.Perm.refl _, List.Perm.refl _, rfl, rfl⟩

theorem TPerm.symm {A B : AbsFsN} (h : TPerm A B) : TPerm B A :=
  ⟨h.nextId.symm, h.maxVols.symm, h.maxDirs.symm, h.maxFiles.symm, h.clock.symm, h.locked.symm, h.vols.symm, h.dirs.symm,
   h.files.symm, h.ids.symm, h.slots.symm⟩

theorem TPerm.trans {A B C : AbsFsN} (h1 : TPerm A B) (h2 : TPerm B C) : TPerm A C :=
  ⟨h1.nextId.trans h2.nextId, h1.maxVols.trans h2.maxVols, h1.maxDirs.trans h2.maxDirs, h1.maxFiles.trans h2.maxFiles,
   h1.clock.trans h2.clock, h1.locked.trans h2.locked, h1.vols.trans h2.vols, h1.dirs.trans h2.dirs, h1.files.trans h2.files,
   h1.ids.trans h2.ids, h1.slots.trans h2.slots⟩

theorem AbsNx.toAbsN {s : Mgr} {ghs : List Ghost} {B : AbsFsN} (h : AbsNx s ghs B) : AbsN s ghs B := ⟨B, TPerm.refl B, h⟩

/-! ### Lists -/

theorem forall₂_filter {α β : Type} {R : α → β → Prop} {l1 : List α} {l2 : List β} (h : List.Forall₂ R l1 l2)
    (p : α → Bool) (q : β → Bool) (hpq : ∀ x y, R x y → p x = q y) : List.Forall₂ R (l1.filter p) (l2.filter q) := by
  induction h with
  | nil => exact .nil
  | @cons x y t1 t2 hxy _ ih =>
    rw [List.filter_cons, List.filter_cons, hpq x y hxy]
    split
    · exact .cons hxy ih
    · exact ih

/-- `Forall₂` along a permutation of the right list. -/
theorem forall₂_perm_right {α β : Type} {R : α → β → Prop} {l2 l2' : List β} (hp : l2.Perm l2') :
    ∀ {l1 : List α}, List.Forall₂ R l1 l2 → ∃ l1', l1.Perm l1' ∧ List.Forall₂ R l1' l2' := by
  induction hp with
  | nil => intro l1 h; exact ⟨l1, List.Perm.refl _, h⟩
  | cons y _ ih =>
    intro l1 h
    cases h with
    | cons hxy hrest =>
      obtain ⟨t', hp', hf'⟩ := ih hrest
      exact ⟨_ :: t', hp'.cons _, .cons hxy hf'⟩
  | swap y1 y2 l =>
    intro l1 h
    cases h with
    | cons h1 hrest =>
      cases hrest with
      | cons h2 hrest2 => exact ⟨_, List.Perm.swap _ _ _, .cons h2 (.cons h1 hrest2)⟩
  | trans _ _ ih1 ih2 =>
    intro l1 h
    obtain ⟨m, hp1, hf1⟩ := ih1 h
    obtain ⟨m', hp2, hf2⟩ := ih2 hf1
    exact ⟨m', hp1.trans hp2, hf2⟩

theorem filter_partition_perm {α : Type} (p : α → Bool) (l : List α) :
    (l.filter p ++ l.filter fun x => !p x).Perm l := by
  induction l with
  | nil => exact List.Perm.refl _
  | cons a l ih =>
    rw [List.filter_cons, List.filter_cons]
    by_cases ha : p a = true
    · simp only [ha, if_true, Bool.not_true, Bool.false_eq_true, if_false]
      exact ih.cons a
    · have ha' : p a = false := by simpa using ha
      simp only [ha', Bool.false_eq_true, if_false, Bool.not_false, if_true]
      exact List.perm_middle.trans (ih.cons a)

/-- The records naming the handle of record `i` are the record itself, when the handles are pairwise distinct. -/
theorem filter_handle {s : Mgr} (hnd : (s.vols.map fun vi => vi.rawVolume).Nodup) {i : Nat} {vi : VolInfo}
    (hvi : s.vols[i]? = some vi) : (s.vols.map vkeyA).filter (fun x => decide (x.1 = vi.rawVolume)) = [vkeyA vi] := by
  have key : ∀ (l : List VolInfo) (i : Nat), (l.map fun vi => vi.rawVolume).Nodup → l[i]? = some vi →
      (l.map vkeyA).filter (fun x => decide (x.1 = vi.rawVolume)) = [vkeyA vi] := by
    intro l
    induction l with
    | nil => intro i _ h; simp at h
    | cons a l ih =>
      intro i hn h
      rw [List.map_cons, List.nodup_cons] at hn
      cases i with
      | zero =>
        have : a = vi := by simpa using h
        subst this
        rw [List.map_cons, List.filter_cons]
        have h1 : decide ((vkeyA a).1 = a.rawVolume) = true := by simp [vkeyA]
        rw [if_pos h1]
        congr 1
        rw [List.filter_eq_nil_iff]
        intro x hx
        obtain ⟨w, hw, rfl⟩ := List.mem_map.1 hx
        have : w.rawVolume ≠ a.rawVolume := fun e => hn.1 (e ▸ List.mem_map.2 ⟨w, hw, rfl⟩)
        simp [vkeyA, this]
      | succ i =>
        have h' : l[i]? = some vi := by simpa using h
        rw [List.map_cons, List.filter_cons]
        have hne : a.rawVolume ≠ vi.rawVolume := fun e => hn.1 (e ▸ List.mem_map.2 ⟨vi, List.mem_of_getElem? h', rfl⟩)
        have h1 : ¬ decide ((vkeyA a).1 = vi.rawVolume) = true := by simp [vkeyA, hne]
        rw [if_neg h1]
        exact ih i hn.2 h'
  exact key s.vols i hnd hvi

/-! ### The abstraction of a volume reads its partition only -/

theorem fileRel_dev {s s' : Mgr} {gh : Ghost} {af : OpenFile} {f : FileInfo} (h : FileRel s gh af f)
    (hd : ∀ x, x ∈ dirIds gh.dirs → dirSlots gh.vol s'.dev.disk gh.G x = dirSlots gh.vol s.dev.disk gh.G x) :
    FileRel s' gh af f := by
  refine ⟨h.handle, h.volume, h.mode, h.pos, h.pm, h.dirty, h.dirMem, ?_⟩
  rw [hd _ h.dirMem]
  exact h.slot

/-- The slot lists of the directories of a sound volume only depend on the blocks of its partition. -/
theorem dirSlots_partition {v : FatVolume} {d d' : Disk} {files : List FileInfo} {gh : Ghost} (hM : MedInv v d files gh)
    (hsame : ∀ b, InPartition v b → d'.get b = d.get b) {h : Nat} (hh : h ∈ dirIds gh.dirs) :
    dirSlots v d' gh.G h = dirSlots v d gh.G h := by
  have hX := medX_of_med hM
  apply dirSlots_congr
  intro sl hs
  rcases dirSlot_not_fat hX hh hs with e | e
  · exact hsame _ (inPartition_of_region (.inr (.inl e)))
  · exact hsame _ (inPartition_of_region (.inr (.inr e)))

/-- The bytes of the file at a slot only depend on the blocks of the partition and on the open files up to order. -/
theorem contentOf_congr {v : FatVolume} {d d' : Disk} {files files' : List FileInfo} {gh : Ghost} (hM : MedInv v d files gh)
    (hsame : ∀ b, InPartition v b → d'.get b = d.get b) (hp : files.Perm files') (o : Slot) :
    contentOf v d' gh.G files' o = contentOf v d gh.G files o := by
  unfold contentOf
  have hpe := VolApi.pendOf_perm hM.tree.filesDistinct hp o
  have hec : effCluster v.fatType files' o = effCluster v.fatType files o := by unfold effCluster; rw [hpe]
  have hes : effSize files' o = effSize files o := by unfold effSize; rw [hpe]
  rw [hec, hes]
  apply AbsFs.fileContent_congr'
  intro c hc j hj
  have hX := medX_of_med hM
  have hG := med_heads hX
  have hne : chainOf gh.G (effCluster v.fatType files o) ≠ [] := fun e => by rw [e] at hc; cases hc
  obtain ⟨hm, _⟩ := chainOf_spec hG ((chainOf_ne_nil_iff hG).1 hne)
  have hr := med_inRange hX hm hc
  exact hsame _ (inPartition_of_region (.inr (.inl (FatLens.cluster_blocks_in_data_region v hM.geom c j hr.1 hr.2 hj))))

theorem absSlots_congr {t t' : Mgr} {gh : Ghost} (hM : MedInv gh.vol t.dev.disk t.files gh)
    (hsame : ∀ b, InPartition gh.vol b → t'.dev.disk.get b = t.dev.disk.get b) (hp : t.files.Perm t'.files) {h : Nat}
    (hh : h ∈ dirIds gh.dirs) : absSlots t' gh h = absSlots t gh h := by
  unfold absSlots
  rw [dirSlots_partition hM hsame hh]
  apply List.map_congr_left
  intro o _
  unfold absSlot
  rw [contentOf_congr hM hsame hp o]

end Sdmmc.Lemmas.VolN

namespace Sdmmc.Lemmas.VolN
open Sdmmc.Model Sdmmc.Model.Fat Sdmmc.Spec.Volume
open Sdmmc.Spec hiding NoFault Coherent run step
open Sdmmc.Spec.AbsFs (AbsFsN OpenFile OpenDir viewOf otherDirsA otherFilesA TPerm SameUpToOrder)
open Sdmmc.Lemmas.AbsFs (Abs FileRel absDir absSlots forall₂_length forall₂_mono)

/-! ### What a volume sees is an abstract counterpart of the projection -/

theorem fileRelN_volume {s : Mgr} {ghs : List Ghost} {af : OpenFile} {f : FileInfo} (h : FileRelN s ghs af f) :
    af.volume = f.rawVolume := by
  obtain ⟨_, _, _, _, _, _, hr⟩ := h
  exact hr.volume

theorem abs_view {s : Mgr} {ghs : List Ghost} {B : AbsFsN} (hI : VolInvN s ghs) (hB : AbsNx s ghs B) {i : Nat} {vi : VolInfo}
    {gh : Ghost} (hvi : s.vols[i]? = some vi) (hgh : ghs[i]? = some gh) :
    Abs (projH vi.rawVolume i s) gh (viewOf B vi.rawVolume) := by
  have hdirsO : (otherDirsA B vi.rawVolume).length = (otherDirs s vi.rawVolume).length := by
    unfold otherDirsA otherDirs
    rw [hB.dirs, List.filter_map, List.length_map]
    rfl
  have hfilesO : (otherFilesA B vi.rawVolume).length = (otherFiles s vi.rawVolume).length := by
    unfold otherFilesA otherFiles
    exact forall₂_length (forall₂_filter hB.files _ _ fun x y hr => by rw [fileRelN_volume hr])
  refine
    { nextId := hB.nextId
      maxDirs := by
        show B.maxDirs - (otherDirsA B vi.rawVolume).length = s.maxDirs - (otherDirs s vi.rawVolume).length
        rw [hB.maxDirs, hdirsO]
      maxFiles := by
        show B.maxFiles - (otherFilesA B vi.rawVolume).length = s.maxFiles - (otherFiles s vi.rawVolume).length
        rw [hB.maxFiles, hfilesO]
      clock := hB.clock, locked := hB.locked, vols := ?_, dirs := ?_, files := ?_
      ids := (hB.trees i vi gh hvi hgh).1, slots := (hB.trees i vi gh hvi hgh).2 }
  · show B.vols.filter _ = ((s.vols[i]?).toList).map _
    rw [hB.vols, filter_handle hI.handles hvi, hvi]
    rfl
  · show B.dirs.filter _ = (volDirs s vi.rawVolume).map absDir
    unfold volDirs
    rw [hB.dirs, List.filter_map]
    rfl
  · show List.Forall₂ _ (B.files.filter _) (volFiles s vi.rawVolume)
    have h1 := forall₂_filter hB.files (fun f => decide (f.volume = vi.rawVolume)) (fun f => decide (f.rawVolume = vi.rawVolume))
      fun x y hr => by rw [fileRelN_volume hr]
    refine forall₂_mono h1 fun af f hf hr => ?_
    obtain ⟨j, vj, gj, hvj, hgj, hraw, hrel⟩ := hr
    have hfv : f.rawVolume = vi.rawVolume := by simpa using (List.mem_filter.1 hf).2
    have hji : j = i := index_of_handle hI.handles hvj hvi (hraw.symm.trans hfv)
    subst hji
    rw [hgh] at hgj
    cases hgj
    exact ⟨hrel.handle, hrel.volume, hrel.mode, hrel.pos, hrel.pm, hrel.dirty, hrel.dirMem, hrel.slot⟩

end Sdmmc.Lemmas.VolN
