/-
C04 over whole calls, manager level, part 2: `delete_file_in_dir`, `open_file_in_dir` truncating.
-/
import Sdmmc.Lemmas.WriteSetMgr
import Sdmmc.Lemmas.WriteSetDelete
import Sdmmc.Lemmas.Modes
import Sdmmc.Lemmas.WriteSetCreate
import Sdmmc.Lemmas.WriteSetMkdir

namespace Sdmmc.Lemmas.WriteSet
open Sdmmc.Model Sdmmc.Model.Fat Sdmmc.Spec
open Sdmmc.Lemmas.FBasic hiding NoFault Coherent
open Sdmmc.Lemmas.FatOps hiding BlocksOK Mirror HintOK
open Sdmmc.Lemmas.ReadRefines (MgrOK fsOf)
open Sdmmc.Lemmas.WriteRefines (withVol_run fsOf_ro_eq)
open Sdmmc.Lemmas.ForestBase

/-! ### The lookup through `withVol` -/

/-- `find_directory_entry` through `withVol`: the answer, and a state that differs in the cache and the
read bookkeeping only. -/
theorem withVol_find (vi dc : Nat) (sfn : Bytes) (s : Mgr) (v : VolInfo) (hvi : s.vols[vi]? = some v) (hs : MSound s v) :
    ∃ fs1, Fat.findDirectoryEntry dc sfn (fsOf s v) = ((Fat.findDirectoryEntry dc sfn (fsOf s v)).1, fs1) ∧
      RO (fsOf s v) fs1 ∧
      withVol vi (Fat.findDirectoryEntry dc sfn) s =
        ((Fat.findDirectoryEntry dc sfn (fsOf s v)).1, { s with dev := fs1.dev, cache := fs1.cache }) ∧
      fsOf { s with dev := fs1.dev, cache := fs1.cache } v = fs1 ∧
      MSound { s with dev := fs1.dev, cache := fs1.cache } v := by
  have hro := DirMgr.findDirectoryEntry_readOnly dc sfn (fsOf s v)
  refine ⟨(Fat.findDirectoryEntry dc sfn (fsOf s v)).2, rfl, hro, ReadRefines.withVol_ro vi _ s v hvi hro, fsOf_ro_eq s v _ hro, ?_⟩
  have hs1 := hs.fs.of_ro hro
  exact ⟨⟨hs1.noFault, hs1.coherent, hs1.blocksOK, hs.ok.2.2.2⟩, hs.geom, hs.hint, by
    have := hs1.mirror; rw [hro.vol] at this; exact this⟩

/-! ### `delete_file_in_dir` -/

/-- **`delete_file_in_dir`** on a sound manager state, when the lookup of the name in the directory
returns the entry `e` of a file that is not open, the slot of `e` lies in a directory block, and `cs` is
the file's chain: the call succeeds, its writes are licensed by `deleteLicence e cs` (the slot of `e`, the
FAT entries of `cs`), and in the slot's block exactly the first byte of the slot differs afterwards. -/
theorem deleteFile_lic (s : Mgr) (directory di vi : Nat) (name : List Nat) (sfn : Bytes) (d : DirInfo) (v : VolInfo)
    (e : DirEntry) (cs : List Nat) (hs : MSound s v)
    (hd : s.dirs.findIdx? (·.rawDirectory = directory) = some di) (hdi : s.dirs[di]? = some d)
    (hv : s.vols.findIdx? (·.rawVolume = d.rawVolume) = some vi) (hvi : s.vols[vi]? = some v)
    (hname : Sfn.createFromStr name = .ok sfn)
    (hfind : (Fat.findDirectoryEntry d.cluster sfn (fsOf s v)).1 = .ok e)
    (hnd : Attr.isDirectory e.attributes = false) (hno : fileIsOpen s d.rawVolume e = false)
    (hreg : regionOf v.vol e.entryBlock = .root ∨ regionOf v.vol e.entryBlock = .data)
    (hch : (e.cluster < 2 ∧ cs = []) ∨ Chain v.vol s.dev.disk e.cluster cs) :
    ∃ s' v', deleteFileInDir directory name s = (.ok (), s') ∧
      s' = { s with dev := s'.dev, cache := s'.cache, vols := s.vols.set vi v' } ∧ v' = { v with vol := v'.vol } ∧
      MSound s' v' ∧ SameGeom v.vol v'.vol ∧ LicD v.vol (deleteLicence e cs) s.dev s'.dev ∧
      s'.dev.disk.get e.entryBlock = (s.dev.disk.get e.entryBlock).set e.entryOffset (UInt8.ofNat 0xE5) := by
  obtain ⟨fs1, _, hro, hfindM, hfs1, hs1⟩ := withVol_find vi d.cluster sfn s v hvi hs
  rw [hfind] at hfindM
  generalize hs1def : ({ s with dev := fs1.dev, cache := fs1.cache } : Mgr) = s1 at hfindM hfs1 hs1
  have hvi1 : s1.vols[vi]? = some v := by rw [← hs1def]; exact hvi
  have hv1 : s1.vols.findIdx? (·.rawVolume = d.rawVolume) = some vi := by rw [← hs1def]; exact hv
  have hno1 : fileIsOpen s1 d.rawVolume e = false := by rw [← hs1def]; exact hno
  -- the lookup again, from the state it left
  have hsound1 : Sound (fsOf s1 v) := hs1.fs
  have hfind1 : ∃ x, Fat.findDirectoryEntry d.cluster sfn (fsOf s1 v) = (.ok e, x) := by
    have := findDirectoryEntry_congr d.cluster sfn (fsOf s v) (fsOf s1 v) hs.fs.noFault hs.fs.coherent hsound1.noFault
      hsound1.coherent rfl (by rw [hfs1]; exact hro.disk)
    rw [hfind] at this
    exact ⟨_, Prod.ext this rfl⟩
  obtain ⟨x, hfind1⟩ := hfind1
  have hd1 : s1.dev.disk = s.dev.disk := by rw [← hs1def]; exact hro.disk
  obtain ⟨fs3, hbody, hs3, hg3, hl3, hbyte⟩ := deleteBody_lic d.cluster sfn (fsOf s1 v) x e cs hsound1 hfind1 hreg
    (by rcases hch with h | h
        · exact .inl h
        · right; show Chain v.vol s1.dev.disk e.cluster cs; rw [hd1]; exact h)
  have hbodyM := withVol_run vi (Fat.deleteDirectoryEntry d.cluster sfn >>= fun _ => Fat.freeClusterChain e.cluster) s1 v hvi1
  rw [hbody] at hbodyM
  simp only at hbodyM
  have htosfn : toSfn name s = (.ok sfn, s) := by unfold toSfn; rw [hname]; rfl
  refine ⟨{ s1 with dev := fs3.dev, cache := fs3.cache, vols := s1.vols.set vi { v with vol := fs3.vol } }, { v with vol := fs3.vol },
    ?_, by rw [← hs1def], rfl, MSound.of_fs (by rw [← hs1def]; exact hs.ok.2.2.2) hs3 _, hg3, ?_, ?_⟩
  · unfold deleteFileInDir
    rw [MHoare.bind_ok (MHoare.getDirById_ok hd), MHoare.bind_ok (MHoare.getDir_ok hdi), MHoare.bind_ok (MHoare.getVolumeById_ok hv),
      MHoare.bind_ok htosfn, MHoare.bind_ok hfindM]
    simp only [hnd, Bool.false_eq_true, if_false]
    rw [MHoare.get_bind]
    simp only [hno1, Bool.false_eq_true, if_false]
    rw [MHoare.bind_ok (MHoare.getVolumeById_ok hv1)]
    exact hbodyM
  · have h0 : LicD v.vol (deleteLicence e cs) s.dev s1.dev := by
      rw [← hs1def]; exact LicD.of_ro hro
    exact h0.trans hl3
  · show fs3.dev.disk.get e.entryBlock = _
    rw [hbyte]
    show (s1.dev.disk.get e.entryBlock).set _ _ = _
    rw [hd1]

/-! ### `open_file_in_dir` truncating an existing file -/

/-- What a truncating open of the file with entry `e` and chain `cs` may change: the FAT entries of `cs`
and the slot of `e`. -/
def truncateLicence (e : DirEntry) (cs : List Nat) : Licence :=
  { fatClusters := cs, slots := [(e.entryBlock, e.entryOffset)] }

/-- `truncate_cluster_chain(first cluster)` of a file with chain `cs` (none for a file without clusters). -/
theorem truncateFile_lic (s : FS) (c : Nat) (cs : List Nat) (hs : Sound s) (hch : (c < 2 ∧ cs = []) ∨ Chain s.vol s.dev.disk c cs)
    (L : Licence) (hL : ∀ y, y ∈ cs → y ∈ L.fatClusters) :
    ∃ s', truncateClusterChain c s = (.ok (), s') ∧ Sound s' ∧ SameGeom s.vol s'.vol ∧ LicD s.vol L s.dev s'.dev ∧
      ∀ i, regionOf s.vol i ≠ .fat → s'.dev.disk.get i = s.dev.disk.get i := by
  rcases hch with ⟨hlt, _⟩ | hch
  · refine ⟨s, ?_, hs, SameGeom.refl _, LicD.refl _ _ _, fun _ _ => rfl⟩
    unfold truncateClusterChain
    have : c < Gen.RESERVED_ENTRIES := hlt
    simp only [ite_apply, if_pos this, pure_apply]
  · obtain ⟨tail, rfl⟩ : ∃ tail, cs = c :: tail := by
      cases cs with
      | nil => exact absurd rfl (ChainL.chain_ne_nil hch)
      | cons a t => have := chain_head_eq hch; simp only [List.headD_cons] at this; exact ⟨t, by rw [this]⟩
    obtain ⟨s', hrun, hs', hg', hl', _⟩ := truncate_lic s c c [] tail hs hch L hL
    obtain ⟨s'', hrun', _, _, _, _, _, _, hfr, _⟩ := ForestTrunc.truncate_spec s c c [] tail hs.noFault hs.coherent hs.blocksOK hs.geom hch
    rw [hrun] at hrun'
    have e2 : s' = s'' := congrArg Prod.snd hrun'
    subst e2
    exact ⟨s', hrun, hs', hg', hl', hfr.nonFat⟩

/-- **`open_file_in_dir` in a truncating mode on an existing, closed, writable plain file** on a sound
manager state, the slot of the entry `e` in a directory block, `cs` the file's chain: the call succeeds,
and its writes are licensed by `truncateLicence e cs`. -/
theorem truncateOpen_lic (s : Mgr) (dh vi : Nat) (name : List Nat) (sfn : Bytes) (dir : DirInfo) (mode : Mode) (v : VolInfo)
    (e : DirEntry) (cs : List Nat) (hm : mode = .ReadWriteTruncate ∨ mode = .ReadWriteCreateOrTruncate)
    (hc : Modes.DirCtx s dh name dir vi sfn) (hroom : s.files.length < s.maxFiles) (hvi : s.vols[vi]? = some v)
    (hs : MSound s v) (hfind : (Fat.findDirectoryEntry dir.cluster sfn (fsOf s v)).1 = .ok e)
    (hno : fileIsOpen s dir.rawVolume e = false) (hro : Attr.isReadOnly e.attributes = false)
    (hd : Attr.isDirectory e.attributes = false)
    (hreg : regionOf v.vol e.entryBlock = .root ∨ regionOf v.vol e.entryBlock = .data)
    (hch : (e.cluster < 2 ∧ cs = []) ∨ Chain v.vol s.dev.disk e.cluster cs) :
    ∃ s' v', openFileInDir dh name mode s = (.ok s.nextId, s') ∧ s'.vols = s.vols.set vi v' ∧ v' = { v with vol := v'.vol } ∧
      s'.files = s.files ++ [Modes.truncatedFile dir s.nextId e s.clock] ∧
      MSound s' v' ∧ SameGeom v.vol v'.vol ∧ LicD v.vol (truncateLicence e cs) s.dev s'.dev := by
  obtain ⟨fs1, hfindF, hro1, hfindM, hfs1, hs1⟩ := withVol_find vi dir.cluster sfn s v hvi hs
  rw [hfind] at hfindM hfindF
  obtain ⟨ho, _, hname⟩ := found_entry_shape dir.cluster sfn (fsOf s v) fs1 e hs.fs.noFault hs.fs.coherent hs.fs.blocksOK hfindF
  generalize hs1def : ({ s with dev := fs1.dev, cache := fs1.cache } : Mgr) = s1 at hfindM hfs1 hs1
  have hlook : Modes.lookup vi dir sfn s = (.ok e, s1) := hfindM
  have hd1 : s1.dev.disk = s.dev.disk := by rw [← hs1def]; exact hro1.disk
  -- the state in which the handle id has been drawn
  generalize hsAdef : ({ s1 with nextId := (s1.nextId + 1) % 4294967296 } : Mgr) = sA
  have hviA : sA.vols[vi]? = some v := by rw [← hsAdef, ← hs1def]; exact hvi
  have hfsA : fsOf sA v = fsOf s1 v := by rw [← hsAdef]; rfl
  have hsoundA : Sound (fsOf sA v) := by rw [hfsA]; exact hs1.fs
  have hdA : sA.dev.disk = s.dev.disk := by rw [← hsAdef]; exact hd1
  -- the truncation
  obtain ⟨fsB, htr, hsB, hgB, hlB, hnfB⟩ := truncateFile_lic (fsOf sA v) e.cluster cs hsoundA
    (by rcases hch with h | h
        · exact .inl h
        · right; show Chain v.vol sA.dev.disk e.cluster cs; rw [hdA]; exact h)
    (truncateLicence e cs) (fun y hy => hy)
  have htrM := withVol_run vi (Fat.truncateClusterChain e.cluster) sA v hviA
  rw [htr] at htrM
  simp only at htrM
  generalize hvBdef : ({ v with vol := fsB.vol } : VolInfo) = vB at htrM
  generalize hsBdef : ({ sA with dev := fsB.dev, cache := fsB.cache, vols := sA.vols.set vi vB } : Mgr) = sB at htrM
  have hvilt : vi < s.vols.length := (List.getElem?_eq_some_iff.1 hvi).1
  have hviB : sB.vols[vi]? = some vB := by
    rw [← hsBdef, ← hsAdef, ← hs1def]; exact List.getElem?_set_self hvilt
  have hfsB : fsOf sB vB = fsB := by rw [← hsBdef, ← hvBdef]; rfl
  -- the entry write
  generalize hentdef : (Modes.truncatedFile dir s1.nextId e s1.clock).entry = ent
  have hent : ent.entryBlock = e.entryBlock ∧ ent.entryOffset = e.entryOffset ∧ ent.name = e.name := by
    rw [← hentdef]; exact ⟨rfl, rfl, rfl⟩
  have hvBvol : fsB.vol = vB.vol := by rw [← hvBdef]
  have hgB' : SameGeom v.vol fsB.vol := hgB
  obtain ⟨fsC, hwr, hsC, hvC, hlC, _, _⟩ := writeEntry_lic fsB ent (truncateLicence e cs) hsB
    (by rw [hent.1, hent.2.1]; exact List.mem_singleton.2 rfl)
    (by rw [hent.1, hgB'.regionOf]; exact hreg) (by rw [hent.2.1]; exact ho) (by rw [hent.2.2]; exact hname)
  have hwrM := withVol_run vi (Fat.writeEntryToDisk ent) sB vB hviB
  rw [hfsB, hwr] at hwrM
  simp only at hwrM
  refine ⟨{ sB with dev := fsC.dev, cache := fsC.cache, vols := sB.vols.set vi { vB with vol := fsC.vol }, files := sB.files ++ [Modes.truncatedFile dir s1.nextId e s1.clock] },
    { vB with vol := fsC.vol }, ?_, ?_, ?_, ?_, ?_, ?_, ?_⟩
  · rw [Modes.openFileInDir_run mode hc hroom, hlook]
    rw [Modes.tail_truncate_eq dir vi sfn s1 mode hm e (by rw [← hs1def]; exact hno) hro hd, hsAdef]
    have hid : s1.nextId = s.nextId := by rw [← hs1def]
    rw [← hid]
    unfold Modes.truncRun
    rw [hentdef]
    have hin : ((do
        withVol vi (Fat.truncateClusterChain e.cluster)
        withVol vi (Fat.writeEntryToDisk ent)
        pure (Modes.truncatedFile dir s1.nextId e s1.clock) : M FileInfo)) sA =
        (.ok (Modes.truncatedFile dir s1.nextId e s1.clock),
          { sB with dev := fsC.dev, cache := fsC.cache, vols := sB.vols.set vi { vB with vol := fsC.vol } }) := by
      rw [MHoare.bind_ok htrM, MHoare.bind_ok hwrM]; rfl
    rw [MHoare.bind_ok hin, MHoare.modify_bind]
    rfl
  · show sB.vols.set vi _ = _
    rw [← hsBdef, ← hsAdef, ← hs1def]
    show (s.vols.set vi vB).set vi _ = _
    rw [List.set_set]
  · rw [← hvBdef]
  · show sB.files ++ _ = _
    rw [← hsBdef, ← hsAdef, ← hs1def]
  · have hunl : sB.locked = false := by rw [← hsBdef, ← hsAdef, ← hs1def]; exact hs.ok.2.2.2
    exact ⟨⟨hsC.noFault, hsC.coherent, hsC.blocksOK, hunl⟩, hsC.geom, hsC.hint, hsC.mirror⟩
  · show SameGeom v.vol fsC.vol
    rw [hvC]; exact hgB'
  · show LicD v.vol (truncateLicence e cs) s.dev fsC.dev
    have h0 : LicD v.vol (truncateLicence e cs) s.dev s1.dev := by rw [← hs1def]; exact LicD.of_ro hro1
    have h1 : LicD v.vol (truncateLicence e cs) s1.dev fsB.dev := by
      have : sA.dev = s1.dev := by rw [← hsAdef]
      rw [← this]; exact hlB
    exact h0.trans (h1.trans (LicD.sameGeom hgB' hlC))

/-! ### `open_file_in_dir` creating a file -/

/-- **`open_file_in_dir` in a creating mode when the name is not in the directory**, on a sound manager
state, the directory the FAT16 fixed root or one with a well-formed chain `dcs`: the directory writer's
outcome `re` with the licence of the writes (`CreateOutcome`), and what the call returns. -/
theorem createFile_lic (s : Mgr) (dh vi : Nat) (name : List Nat) (sfn : Bytes) (dir : DirInfo) (mode : Mode) (v : VolInfo)
    (dcs : List Nat)
    (hm : mode = .ReadWriteCreate ∨ mode = .ReadWriteCreateOrTruncate ∨ mode = .ReadWriteCreateOrAppend)
    (hc : Modes.DirCtx s dh name dir vi sfn) (hroom : s.files.length < s.maxFiles) (hvi : s.vols[vi]? = some v)
    (hs : MSound s v) (hfind : (Fat.findDirectoryEntry dir.cluster sfn (fsOf s v)).1 = .err .NotFound)
    (hdir : ¬ Reopen.IsFixedRoot v.vol dir.cluster → Chain v.vol s.dev.disk (Listing.startCluster v.vol dir.cluster) dcs) :
    ∃ re r s' v', openFileInDir dh name mode s = (r, s') ∧ s'.vols = s.vols.set vi v' ∧ v' = { v with vol := v'.vol } ∧
      MSound s' v' ∧ SameGeom v.vol v'.vol ∧ CreateOutcome v.vol dir.cluster dcs s.dev s'.dev re ∧
      ((∃ en, re = .ok en ∧ r = .ok s.nextId ∧ s'.files = s.files ++ [Modes.createdFile dir s.nextId en]) ∨
       (re = .err .NotEnoughSpace ∧ r = .err .NotEnoughSpace ∧ s'.files = s.files)) := by
  obtain ⟨fs1, _, hro1, hfindM, hfs1, hs1⟩ := withVol_find vi dir.cluster sfn s v hvi hs
  rw [hfind] at hfindM
  generalize hs1def : ({ s with dev := fs1.dev, cache := fs1.cache } : Mgr) = s1 at hfindM hfs1 hs1
  have hlook : Modes.lookup vi dir sfn s = (.err .NotFound, s1) := hfindM
  have hd1 : s1.dev.disk = s.dev.disk := by rw [← hs1def]; exact hro1.disk
  have hw1 : s1.dev.wlog = s.dev.wlog := by rw [← hs1def]; exact hro1.wlog
  have hvi1 : s1.vols[vi]? = some v := by rw [← hs1def]; exact hvi
  have hv1 : s1.vols.findIdx? (·.rawVolume = dir.rawVolume) = some vi := by rw [← hs1def]; exact hc.2.1
  have hname : sfn.length = 11 := createFromStr_length name sfn hc.2.2
  obtain ⟨re, fs2, hrun2, hs2, hg2, hout⟩ := createEntry_lic dir.cluster sfn 0 Gen.CLUSTER_EMPTY s1.clock hname (fsOf s1 v) hs1.fs dcs
    (fun hk => by show Chain v.vol s1.dev.disk _ dcs; rw [hd1]; exact hdir hk)
  have hrunM := withVol_run vi (Fat.writeNewDirectoryEntry dir.cluster sfn 0 Gen.CLUSTER_EMPTY s1.clock) s1 v hvi1
  rw [hrun2] at hrunM
  simp only at hrunM
  generalize hvBdef : ({ v with vol := fs2.vol } : VolInfo) = vB at hrunM
  generalize hsBdef : ({ s1 with dev := fs2.dev, cache := fs2.cache, vols := s1.vols.set vi vB } : Mgr) = sB at hrunM
  have hsBvols : sB.vols = s.vols.set vi vB := by rw [← hsBdef, ← hs1def]
  have hsBfiles : sB.files = s.files := by rw [← hsBdef, ← hs1def]
  have hsBid : sB.nextId = s.nextId := by rw [← hsBdef, ← hs1def]
  have hsBdev : sB.dev = fs2.dev := by rw [← hsBdef]
  have hmsB : MSound sB vB := by
    rw [← hsBdef, ← hvBdef]
    exact MSound.of_fs (by rw [← hs1def]; exact hs.ok.2.2.2) hs2 _
  have hgB : SameGeom v.vol vB.vol := by rw [← hvBdef]; exact hg2
  have houtB : CreateOutcome v.vol dir.cluster dcs s.dev sB.dev re := by
    rw [hsBdev]; exact CreateOutcome.of_ro hw1 hd1 hout
  have hhead : openFileInDir dh name mode s = Modes.createRun dir sfn s1.clock s1 := by
    rw [Modes.openFileInDir_run mode hc hroom, hlook, Modes.tail_create_eq dir vi sfn s1 mode hm]
  cases hre : re with
  | ok en =>
    rw [hre] at hrunM houtB
    refine ⟨.ok en, .ok s.nextId, { sB with nextId := (sB.nextId + 1) % 4294967296, files := sB.files ++ [Modes.createdFile dir sB.nextId en] },
      vB, ?_, hsBvols, by rw [← hvBdef], ⟨hmsB.ok, hmsB.geom, hmsB.hint, hmsB.mirror⟩, hgB, houtB,
      .inl ⟨en, rfl, rfl, by show sB.files ++ _ = _; rw [hsBfiles, hsBid]⟩⟩
    rw [hhead]
    unfold Modes.createRun
    rw [MHoare.bind_ok (MHoare.getVolumeById_ok hv1), MHoare.bind_ok hrunM, MHoare.generate_bind, MHoare.modify_bind, ← hsBid]
    rfl
  | err x =>
    rw [hre] at hrunM houtB
    have hx : x = .NotEnoughSpace := by cases houtB; rfl
    subst hx
    refine ⟨.err .NotEnoughSpace, .err .NotEnoughSpace, sB, vB, ?_, hsBvols, by rw [← hvBdef], hmsB, hgB, houtB, .inr ⟨rfl, rfl, hsBfiles⟩⟩
    rw [hhead]
    unfold Modes.createRun
    rw [MHoare.bind_ok (MHoare.getVolumeById_ok hv1), MHoare.bind_err hrunM]
  | panic m => rw [hre] at houtB; cases houtB
  | diverged => rw [hre] at houtB; cases houtB

/-! ### `make_dir_in_dir` -/

/-- **`make_dir_in_dir` when the name is not in the parent directory**, on a sound manager state, the
parent the FAT16 fixed root or a directory with a well-formed chain `dcs`: either the volume is full —
`NotEnoughSpace`, nothing written — or a free cluster `cn` was taken and the call ended as `MkdirOutcome`
says. -/
theorem mkdir_lic (s : Mgr) (dh vi : Nat) (name : List Nat) (sfn : Bytes) (dir : DirInfo) (v : VolInfo) (dcs : List Nat)
    (hc : Modes.DirCtx s dh name dir vi sfn) (hroom : s.dirs.length < s.maxDirs) (hvi : s.vols[vi]? = some v)
    (hs : MSound s v) (hfind : (Fat.findDirectoryEntry dir.cluster sfn (fsOf s v)).1 = .err .NotFound)
    (hdir : ¬ Reopen.IsFixedRoot v.vol dir.cluster → Chain v.vol s.dev.disk (Listing.startCluster v.vol dir.cluster) dcs) :
    (∃ s', makeDirInDir dh name s = (.err .NotEnoughSpace, s') ∧ s'.dev.wlog = s.dev.wlog ∧ s'.dev.disk = s.dev.disk) ∨
    (∃ cn r s' v', makeDirInDir dh name s = (r, s') ∧ s'.vols = s.vols.set vi v' ∧ v' = { v with vol := v'.vol } ∧
      MSound s' v' ∧ SameGeom v.vol v'.vol ∧ InRange v.vol cn ∧ isFree v.vol s.dev.disk cn ∧
      MkdirOutcome v.vol dir.cluster dcs cn s.dev s'.dev r) := by
  obtain ⟨fs1, _, hro1, hfindM, hfs1, hs1⟩ := withVol_find vi dir.cluster sfn s v hvi hs
  rw [hfind] at hfindM
  generalize hs1def : ({ s with dev := fs1.dev, cache := fs1.cache } : Mgr) = s1 at hfindM hfs1 hs1
  have hd1 : s1.dev.disk = s.dev.disk := by rw [← hs1def]; exact hro1.disk
  have hw1 : s1.dev.wlog = s.dev.wlog := by rw [← hs1def]; exact hro1.wlog
  have hvi1 : s1.vols[vi]? = some v := by rw [← hs1def]; exact hvi
  have hname : sfn.length = 11 := createFromStr_length name sfn hc.2.2
  obtain ⟨di, hdi1, hdi2⟩ := hc.1
  have hhead : makeDirInDir dh name s = withVol vi (Fat.makeDir dir.cluster sfn Gen.ATTR_DIRECTORY s.clock) s1 := by
    unfold makeDirInDir
    rw [MHoare.get_bind, if_neg (by omega), MHoare.bind_ok (MHoare.getDirById_ok hdi1), MHoare.bind_ok (MHoare.getDir_ok hdi2),
      MHoare.bind_ok (MHoare.getVolumeById_ok hc.2.1), MHoare.bind_ok (Modes.toSfn_ok hc.2.2 s), MHoare.attempt_bind, hfindM]
  have hrunM := withVol_run vi (Fat.makeDir dir.cluster sfn Gen.ATTR_DIRECTORY s.clock) s1 v hvi1
  rcases makeDir_lic dir.cluster sfn Gen.ATTR_DIRECTORY s.clock hname (fsOf s1 v) hs1.fs dcs
    (fun hk => by show Chain v.vol s1.dev.disk _ dcs; rw [hd1]; exact hdir hk) with
    ⟨fs2, hrun, hw2, hd2, _, _⟩ | ⟨cn, r, fs2, hrun, hs2, hg2, hrn, hfree, hout⟩
  · left
    rw [hrun] at hrunM
    refine ⟨_, hhead.trans hrunM, ?_, ?_⟩
    · show fs2.dev.wlog = _; rw [hw2]; exact hw1
    · show fs2.dev.disk = _; rw [hd2]; exact hd1
  · right
    rw [hrun] at hrunM
    refine ⟨cn, r, _, { v with vol := fs2.vol }, hhead.trans hrunM, by rw [← hs1def], rfl,
      MSound.of_fs (by rw [← hs1def]; exact hs.ok.2.2.2) hs2 _, hg2, hrn, ?_, ?_⟩
    · have : isFree v.vol s1.dev.disk cn := hfree
      rw [hd1] at this; exact this
    · exact MkdirOutcome.of_ro hw1 hd1 hout

end Sdmmc.Lemmas.WriteSet
