/-
The composition for C02 (`Props.C02Reopen`):

* writer side — `close_then_slot`: after `flush_file` / `close_file` of a dirty, consistent file
  the file's directory slot decodes to the file's entry (`stored`: time stamps at FAT resolution),
  its cluster chain and its byte-array contents are still on the medium;
* reader side — `open_read_entry`: on ANY fault-free manager state, opening the name whose first
  matching slot decodes to an entry consistent with the medium and reading returns the contents
  the medium holds for that entry (`open_readOnly_fileOK` + `read_refines`);
* `reopen_reads_flushed`: the two together, across a change of manager (`SameGeom`).
-/
import Sdmmc.Lemmas.ReopenOpen
import Sdmmc.Lemmas.ReopenFlush

namespace Sdmmc.Lemmas.Reopen
open Sdmmc.Model Sdmmc.Model.Fat Sdmmc.Spec
open Sdmmc.Lemmas.FatOps (BlocksOK)
open Sdmmc.Lemmas.Listing
open Sdmmc.Lemmas.ReadRefines (MgrOK fsOf)
open Sdmmc.Lemmas.Modes (DirCtx lookup openedFile)

/-- The directory slot at byte offset `off` of block `b` of the medium. -/
def slotAt (d : Disk) (b off : Nat) : Slot := (b, off, slice (d.get b) off 32)

/-- What the Rust types guarantee of the entry of an open file (`u8` attributes, `u32` size, 11
name bytes, a slot inside its block) and what `open_file_in_dir` guarantees (not a directory). -/
structure EntryOK (e : DirEntry) : Prop where
  name_len : e.name.length = 11
  off_le : e.entryOffset + 32 ≤ 512
  attr_lt : e.attributes < 256
  size_lt : e.size < 4294967296
  plain : Attr.isDirectory e.attributes = false

/-- The `assert!` of `flush_file` ("size without cluster") cannot fire on a consistent file. -/
theorem assert_of_fileOK {v : FatVolume} {d : Disk} {f : FileInfo} {cs : List Nat} (hok : FileOK v d f cs) :
    ¬ (f.entry.size ≠ 0 ∧ f.entry.cluster = 0) := by
  rintro ⟨h1, h2⟩
  rcases hok.chain with ⟨_, _, h⟩ | h
  · exact h1 h
  · have := (ChainL.chain_inRange h _ (List.mem_of_getElem? (ChainL.chain_get_zero h))).1
    omega

/-- The entry of a consistent open file of a well-formed volume fits a directory slot. -/
theorem storable_of_fileOK {v : FatVolume} (hg : WFGeom v) {d : Disk} {f : FileInfo} {cs : List Nat}
    (hok : FileOK v d f cs) (he : EntryOK f.entry) : Storable v.fatType f.entry := by
  refine ⟨he.name_len, he.attr_lt, he.size_lt, ?_, ?_⟩
  · have hlt : f.entry.cluster < (match v.fatType with | .fat16 => 0xFFF7 | .fat32 => 0x0FFFFFF7) ∨ f.entry.cluster < 2 := by
      rcases hok.chain with ⟨h, _, _⟩ | h
      · exact .inr h
      · exact .inl (FatOps.lt_bound v hg _ (ChainL.chain_inRange h _ (List.mem_of_getElem? (ChainL.chain_get_zero h))).2)
    cases hft : v.fatType <;> rw [hft] at hlt <;> simp only at hlt ⊢ <;> omega
  · rintro ⟨_, h⟩
    rw [he.plain] at h; cases h

/-! ### Writer side -/

/-- **Flush / close, then look at the medium** (target 2).  `s`: `MgrOK`; `h` an open handle (slot
`i`, record `f`, dirty, consistent with the medium: `FileOK`, chain `cs`) on the open volume `v`
(slot `vi`, `WFGeom`); the entry is as the Rust types make it (`EntryOK`); its slot lies in a
directory block that is not a block of the file's own chain (`SlotApart`).  Then `flush_file`
succeeds and `close_file` does the same and drops the record; the tables are otherwise untouched;
on the new medium `s1.dev.disk`
* the file's slot decodes (`Props.C06.decode`) to `stored f.entry`: name, attributes, first
  cluster, size and slot position are `f.entry`'s, the two time stamps are `f.entry`'s at FAT
  resolution (equal to them when they are FAT-representable, `stored_of_fatTime`);
* every byte outside `flushPos` (the slot; FAT32: bytes 488..495 of the info sector) is unchanged,
  and every block other than the entry's block and the FAT32 info sector is identical;
* the file's cluster chain is still `cs` and its byte-array contents are the same. -/
theorem close_then_slot (s : Mgr) (h i vi : Nat) (f : FileInfo) (v : VolInfo) (cs : List Nat)
    (hs : MgrOK s) (hh : s.files.findIdx? (·.rawFile = h) = some i) (hf : s.files[i]? = some f)
    (hv : s.vols.findIdx? (·.rawVolume = f.rawVolume) = some vi) (hvi : s.vols[vi]? = some v)
    (hg : WFGeom v.vol) (hok : FileOK v.vol s.dev.disk f cs) (hd : f.dirty = true)
    (he : EntryOK f.entry) (hap : SlotApart v.vol f.entry.entryBlock cs) :
    ∃ s1, flushFile h s = (.ok (), s1) ∧
      closeFile h s = (.ok (), { s1 with files := swapRemove s.files i }) ∧ Flushed s s1 ∧ MgrOK s1 ∧
      decode v.vol.fatType (slotAt s1.dev.disk f.entry.entryBlock f.entry.entryOffset) = stored f.entry ∧
      (∀ b j, ¬ flushPos v.vol f.entry b j → (s1.dev.disk.get b).getD j 0 = (s.dev.disk.get b).getD j 0) ∧
      AgreeOff v.vol f.entry.entryBlock s.dev.disk s1.dev.disk ∧
      ((f.entry.cluster < 2 ∧ cs = [] ∧ f.entry.size = 0) ∨ Chain v.vol s1.dev.disk f.entry.cluster cs) ∧
      fileContent v.vol s1.dev.disk cs f.entry.size = fileContent v.vol s.dev.disk cs f.entry.size := by
  obtain ⟨s1, hfl, hcl, hfd, hok1, hslot, hbyte, hagree⟩ :=
    closeFile_spec s h i vi f v hs hh hf hv hvi hd (assert_of_fileOK hok) he.off_le he.name_len
  refine ⟨s1, hfl, hcl, hfd, hok1, ?_, hbyte, hagree, ?_, ?_⟩
  · unfold slotAt
    rw [hslot]
    exact decode_serialize v.vol.fatType f.entry (storable_of_fileOK hg hok he)
  · rcases hok.chain with h0 | hch
    · exact .inl h0
    · exact .inr (chain_of_agreeOff v.vol hg _ _ _ hagree hap.dir_block hch)
  · rcases hok.chain with ⟨_, h0, _⟩ | hch
    · subst h0; rfl
    · exact fileContent_of_agreeOff v.vol hg _ _ _ hagree cs (ChainL.chain_inRange hch) hap.not_own _

/-! ### Reader side -/

/-- **Open by name, then read** on any fault-free manager state `t` (`MgrOK`): `d` is an open
directory handle (record `dir`) on the open volume `w` (slot `wi`, `WFGeom`); the directory is on
the medium (`DirOn`); `x` is the first slot of the directory, before the end marker, that matches
the stored form `sfn` of `name`; it decodes to `e`, which is not a directory, is not open, and whose
first cluster and size are consistent with the medium (chain `cs`); the file table has room and the
next handle value is not in use.  Then `open_file_in_dir … ReadOnly` returns the next handle
without writing; the reported length is `e.size`; and every `read` of `n` bytes through the new
handle — straight after opening — returns the first `n` bytes of the contents the medium holds for
`e`, again without writing. -/
theorem open_read_entry (t : Mgr) (d : Nat) (name : List Nat) (dir : DirInfo) (wi : Nat) (sfn : Bytes)
    (w : VolInfo) (dcs : List Nat) (x : Slot) (e : DirEntry) (cs : List Nat)
    (ht : MgrOK t) (hctx : DirCtx t d name dir wi sfn) (hwi : t.vols[wi]? = some w) (hgw : WFGeom w.vol)
    (hroom : t.files.length < t.maxFiles) (hfresh : ∀ g ∈ t.files, g.rawFile ≠ t.nextId)
    (hdir : DirOn w.vol t.dev.disk dir.cluster dcs)
    (hfirst : FirstHit (dirSlotsOf w.vol t.dev.disk dir.cluster dcs) sfn x)
    (hdec : decode w.vol.fatType x = e)
    (hplain : Attr.isDirectory e.attributes = false) (hno : fileIsOpen t dir.rawVolume e = false)
    (hch : (e.cluster < 2 ∧ cs = [] ∧ e.size = 0) ∨ Chain w.vol t.dev.disk e.cluster cs)
    (hfit : e.size ≤ cs.length * clusterBytesLen w.vol) :
    ∃ t1, openFileInDir d name .ReadOnly t = (.ok t.nextId, t1) ∧
      Opened t t1 (openedFile dir t.nextId e .ReadOnly 0) ∧ MgrOK t1 ∧
      fileLength t.nextId t1 = (.ok e.size, t1) ∧
      ∀ n, ∃ t2, read t.nextId n t1 = (.ok ((fileContent w.vol t.dev.disk cs e.size).take n), t2) ∧
        t2.dev.disk = t.dev.disk ∧ t2.dev.wlog = t.dev.wlog := by
  have hlook : dirLookup w.vol t.dev.disk dir.cluster dcs sfn = some e := by
    rw [dirLookup_of_firstHit _ _ _ _ _ x hfirst, hdec]
  obtain ⟨t1, hopen, hop, hok1, hfok⟩ :=
    open_readOnly_fileOK t d name dir wi sfn w dcs e ht hctx hwi hroom hdir hlook hno hplain
  have hfiles : t1.files = t.files ++ [openedFile dir t.nextId e .ReadOnly 0] := by rw [hop.1]
  have hvols : t1.vols = t.vols := by rw [hop.1]
  have hh : t1.files.findIdx? (·.rawFile = t.nextId) = some t.files.length := by
    rw [hfiles]; exact findIdx?_append_fresh t.files _ t.nextId hfresh rfl
  have hf : t1.files[t.files.length]? = some (openedFile dir t.nextId e .ReadOnly 0) := by
    rw [hfiles]; simp
  have hv : t1.vols.findIdx? (·.rawVolume = (openedFile dir t.nextId e .ReadOnly 0).rawVolume) = some wi := by
    rw [hvols]; exact hctx.2.1
  have hwi1 : t1.vols[wi]? = some w := by rw [hvols]; exact hwi
  have hfok1 := hfok cs hch hfit
  refine ⟨t1, hopen, hop, hok1, ?_, fun n => ?_⟩
  · exact (Files.file_observers_spec t.nextId t.files.length _ t1 (MHoare.getFileById_ok hh) (MHoare.getFile_ok hf)).1
  · obtain ⟨t2, f2, hr, hd2, hw2, _⟩ :=
      ReadRefines.read_refines t1 t.nextId n t.files.length wi _ w cs hok1 hh hf hv hwi1 hgw hfok1
    refine ⟨t2, ?_, hd2.trans hop.2.1, hw2.trans hop.2.2⟩
    rw [hr, ReadRefines.absFile_read_fst, hop.2.1]
    rfl

/-! ### The composition -/

/-- **A flushed file is read back by any manager on the same medium** (target 3).

Writer: as in `close_then_slot`.  Reader: ANY manager state `t` with `MgrOK t` whose medium is the
one the close left (`t.dev.disk = s1.dev.disk`) — the same manager, or a fresh one after a remount —
with an open volume record `w` of the same geometry as the writer's (`SameGeom`: free count and
next-free hint may differ), an open directory handle `d` whose directory is on the medium and in
whose slot list the file's slot is the FIRST slot before the end marker that matches the file's
11-byte name (`FirstHit`; uniqueness of names is the invariant of C03), `name` being a spelling of
that stored name (`DirCtx`); no open file of `t` sits on that slot, the file table has room, the
next handle value is not in use.

Then the close succeeds and, with `B` the byte-array contents of the file before the close,
`open_file_in_dir d name ReadOnly` on `t` returns a handle whose reported length is `B.length`
(`= f.entry.size`) and through which a `read` of `n` bytes returns `B.take n` — all of `B` for
`n ≥ B.length` — without any device write. -/
theorem reopen_reads_flushed (s : Mgr) (h i vi : Nat) (f : FileInfo) (v : VolInfo) (cs : List Nat)
    (hs : MgrOK s) (hh : s.files.findIdx? (·.rawFile = h) = some i) (hf : s.files[i]? = some f)
    (hv : s.vols.findIdx? (·.rawVolume = f.rawVolume) = some vi) (hvi : s.vols[vi]? = some v)
    (hg : WFGeom v.vol) (hok : FileOK v.vol s.dev.disk f cs) (hd : f.dirty = true)
    (he : EntryOK f.entry) (hap : SlotApart v.vol f.entry.entryBlock cs) :
    ∃ s1, closeFile h s = (.ok (), s1) ∧
      (fileContent v.vol s.dev.disk cs f.entry.size).length = f.entry.size ∧
      ∀ (t : Mgr) (d : Nat) (name : List Nat) (dir : DirInfo) (wi : Nat) (w : VolInfo) (dcs : List Nat),
        MgrOK t → t.dev.disk = s1.dev.disk →
        DirCtx t d name dir wi f.entry.name → t.vols[wi]? = some w → SameGeom v.vol w.vol →
        t.files.length < t.maxFiles → (∀ g ∈ t.files, g.rawFile ≠ t.nextId) →
        DirOn w.vol t.dev.disk dir.cluster dcs →
        FirstHit (dirSlotsOf w.vol t.dev.disk dir.cluster dcs) f.entry.name
          (slotAt t.dev.disk f.entry.entryBlock f.entry.entryOffset) →
        fileIsOpen t dir.rawVolume f.entry = false →
        ∃ t1, openFileInDir d name .ReadOnly t = (.ok t.nextId, t1) ∧
          t1.dev.disk = t.dev.disk ∧ t1.dev.wlog = t.dev.wlog ∧
          fileLength t.nextId t1 = (.ok (fileContent v.vol s.dev.disk cs f.entry.size).length, t1) ∧
          ∀ n, ∃ t2, read t.nextId n t1 = (.ok ((fileContent v.vol s.dev.disk cs f.entry.size).take n), t2) ∧
            t2.dev.disk = t.dev.disk ∧ t2.dev.wlog = t.dev.wlog ∧
            ((fileContent v.vol s.dev.disk cs f.entry.size).length ≤ n →
              read t.nextId n t1 = (.ok (fileContent v.vol s.dev.disk cs f.entry.size), t2)) := by
  obtain ⟨s1, _, hcl, _, _, hdec, _, _, hch1, hcont⟩ := close_then_slot s h i vi f v cs hs hh hf hv hvi hg hok hd he hap
  have hlen : (fileContent v.vol s.dev.disk cs f.entry.size).length = f.entry.size :=
    ChainL.fileContent_length v.vol s.dev.disk cs _ hs.2.2.1 hok.size_fits
  refine ⟨_, hcl, hlen, ?_⟩
  intro t d name dir wi w dcs ht hdisk hctx hwi hsame hroom hfresh hdir hfirst hno
  have hdisk' : t.dev.disk = s1.dev.disk := hdisk
  have hdecw : decode w.vol.fatType (slotAt t.dev.disk f.entry.entryBlock f.entry.entryOffset) = stored f.entry := by
    rw [hsame.fatType, hdisk']; exact hdec
  have hchw : ((stored f.entry).cluster < 2 ∧ cs = [] ∧ (stored f.entry).size = 0) ∨
      Chain w.vol t.dev.disk (stored f.entry).cluster cs := by
    rcases hch1 with h0 | hc
    · exact .inl h0
    · right; rw [hdisk']; exact hsame.chain hc
  have hfitw : (stored f.entry).size ≤ cs.length * clusterBytesLen w.vol := by
    rw [hsame.clusterBytesLen]; exact hok.size_fits
  obtain ⟨t1, hopen, hop, _, hflen, hread⟩ :=
    open_read_entry t d name dir wi f.entry.name w dcs _ (stored f.entry) cs ht hctx hwi (hsame.wfGeom hg) hroom
      hfresh hdir hfirst hdecw he.plain hno hchw hfitw
  have hB : fileContent w.vol t.dev.disk cs (stored f.entry).size = fileContent v.vol s.dev.disk cs f.entry.size := by
    rw [hsame.fileContent, hdisk']; exact hcont
  refine ⟨t1, hopen, hop.2.1, hop.2.2, ?_, fun n => ?_⟩
  · rw [hflen, hlen]; rfl
  · obtain ⟨t2, hr, hd2, hw2⟩ := hread n
    rw [hB] at hr
    refine ⟨t2, hr, hd2, hw2, fun hn => ?_⟩
    rw [hr, List.take_of_length_le hn]

end Sdmmc.Lemmas.Reopen
