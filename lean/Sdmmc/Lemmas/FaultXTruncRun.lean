/-
C11, arbitrary fault placement — ONE CALL AND HISTORIES WITH NO RESTRICTION ON WHERE A DEVICE CALL FAILS.
`step_any`: from the invariant, every covered call under every schedule leaves the invariant `InvFE` again — or, only when
a device call failed INSIDE A TRUNCATING `open_file_in_dir`, the table of open files as it was, the WEAK invariant
`FaultInv` (`Spec/VolumeFault.lean`) and no entry of an open file ahead of its record (`Weak`).
`history_any`: along a history the invariant holds after every prefix up to the first such failure, and the weak one
right after it.  (What calls do FROM a weak state is not proved here.)
-/
import Sdmmc.Lemmas.FaultXTrunc4
import Sdmmc.Lemmas.FaultXRawRun

namespace Sdmmc.Lemmas.FaultX
open Sdmmc.Lemmas.FaultHist Sdmmc.Lemmas.VolX
open Sdmmc.Model Sdmmc.Model.Fat
open Sdmmc.Spec.Volume hiding Clean
open Sdmmc.Spec hiding NoFault Coherent
open Sdmmc.Lemmas.VolApi Sdmmc.Lemmas.MHoare Sdmmc.Lemmas.FaultInv Sdmmc.Lemmas.Retry Sdmmc.Lemmas.VolMed
open Sdmmc.Lemmas.Fault hiding resetLogs step_unlocked

/-- The weak invariant for some ghost of the same geometry and some lost chains, with no entry of an open file ahead
of its record. -/
def Weak (gh : Ghost) (s : Mgr) : Prop :=
  (∃ gh' X', Spec.Volume.FaultInv s gh' X' ∧ SameGeom gh.vol gh'.vol) ∧ RawAll s

theorem weak_of_invFE {gh : Ghost} {s : Mgr} (h : InvFE gh s) : Weak gh s :=
  ⟨faultInv_of_invF h.1, h.2⟩

variable {X : List (List Nat)}

/-- `RawAll` after a call, from the medium facts about the files open before and the table facts. -/
theorem rawAll_after {s0 t : Mgr} {gh : Ghost} (hI : VolInvX X s0 gh) (hinv : InvF gh t)
    (hD : RawAllD gh.vol.fatType t.dev.disk s0.files)
    (hT : ∀ g, g ∈ t.files → g.dirty = false ∨ ∃ f, f ∈ s0.files ∧ Desc f g) : RawAll t := by
  obtain ⟨gh', X', hI', hsg⟩ := hinv
  intro g hg vi hvi
  have hvol : vi.vol = gh'.vol := by
    rcases hI'.vols with h0 | ⟨vi', hvs, hvol⟩
    · have : t.vols = [] := h0
      rw [this] at hvi; cases hvi
    · have : t.vols = [vi'] := hvs
      rw [this] at hvi
      rw [List.mem_singleton.1 hvi]; exact hvol
  have hft : gh'.vol.fatType = gh.vol.fatType := hsg.fatType
  rw [hvol]
  rcases hT g hg with hcl | ⟨f, hf, hdesc⟩
  · exact rawBelow_of_clean (medX_of_med hI'.med) hg hcl
  · rw [hft]
    refine rawBelow_desc (hD f hf) hdesc fun hlt => ?_
    have hM := medX_of_med hI.med
    obtain ⟨hok, _⟩ := hI.med.fileOK f hf
    rcases hok.chain with ⟨_, h2, h3⟩ | hch
    · exact ⟨VolApi.cluster_zero_of_nil hM.tree (med_heads hM) hf h2, h3⟩
    · have := (ChainL.chain_inRange hch _ (ForestBase.chain_head_mem hch)).1
      omega

/-- **One covered call under ANY schedule**, whatever device call fails. -/
theorem step_any {s0 : Mgr} {gh : Ghost} (hI : VolInvX X s0 gh) (hR : RawAll s0) (L : List Nat) (op : Op)
    (hc : FCovered s0 op) :
    InvFE gh (step (withFaults L s0) op).1 ∨
    (classC op = false ∧ (step (withFaults L s0) op).1.dev.failed ≠ s0.dev.failed ∧
      (step (withFaults L s0) op).1.files = s0.files ∧ Weak gh (step (withFaults L s0) op).1) := by
  by_cases hB : (step (withFaults L s0) op).1.dev.failed ≠ s0.dev.failed → classC op = true
  · exact .inl (step_raw hI hR L op hc hB)
  have hhit : (step (withFaults L s0) op).1.dev.failed ≠ s0.dev.failed := by
    apply Classical.byContradiction
    intro h; exact hB fun h' => absurd h' h
  have hcC : classC op = false := by
    cases hcc : classC op
    · rfl
    · exact absurd (fun _ => hcc) hB
  cases op with
  | openFile d name mode =>
    have hI' := volInv_resetLogs hI
    have e1 := MHoare.step_unlocked (withFaults L s0) (.openFile d name mode) hI.unlocked
    rw [resetLogs_withFaults] at e1
    have hs1 : (step (withFaults L s0) (.openFile d name mode)).1 =
        (openFileInDir d name mode (withFaults L (resetLogs s0))).2 := by
      rw [e1]
      show ((openFileInDir d name mode >>= fun b => (pure (Payload.handle b) : M Payload)) _).2 = _
      rw [map_state]
    have hT : ∀ g, g ∈ (step (withFaults L s0) (.openFile d name mode)).1.files →
        g.dirty = false ∨ ∃ f, f ∈ s0.files ∧ Desc f g := by
      have e2 := MHoare.step_unlocked (withFaults L s0) (.openFile d name mode) hI.unlocked
      rw [e2]
      exact runOp_tab _ (resetLogs (withFaults L s0))
    obtain ⟨hA, hD⟩ := openFile_out hI' L d name mode hc
    rw [← hs1] at hA hD
    have hD' : RawAllD gh.vol.fatType (step (withFaults L s0) (.openFile d name mode)).1.dev.disk s0.files :=
      hD (rawAllD_of hI' hR)
    rcases hA with hA | ⟨hfiles, gh', X', hF, hsg⟩
    · exact .inl ⟨hA, rawAll_after hI hA hD' hT⟩
    · refine .inr ⟨hcC, hhit, hfiles, ⟨gh', X', hF, hsg⟩, ?_⟩
      intro g hg vi hvi
      rw [hfiles] at hg
      have hvol : vi.vol = gh'.vol := by
        rcases hF.vols with h0 | ⟨vi', hvs, hvol⟩
        · rw [h0] at hvi; cases hvi
        · rw [hvs] at hvi
          rw [List.mem_singleton.1 hvi]; exact hvol
      rw [hvol, hsg.fatType]
      exact hD' g hg
  | write f b => cases hcC
  | delete d n => cases hcC
  | mkdir d n => cases hcC
  | closeFile f => cases hcC
  | openVolume i => cases hcC
  | closeVolume v => cases hcC
  | openRoot v => cases hcC
  | openDir d n => cases hcC
  | closeDir d => cases hcC
  | read f n => cases hcC
  | seekStart f n => cases hcC
  | seekCur f n => cases hcC
  | seekEnd f n => cases hcC
  | flush f => cases hcC
  | find d n => cases hcC
  | list d => cases hcC
  | listLfn d n => cases hcC
  | length f => cases hcC
  | offset f => cases hcC
  | eof f => cases hcC
  | hasOpen => cases hcC
  | label v => cases hcC

/-- **One call from `InvFE`** (any schedule pending in `s`), whatever device call fails: the invariant again, or — a
failure inside a truncating open — the weak one; and the call answers `Ok` or an error. -/
theorem step_out {s : Mgr} {gh : Ghost} (hI : InvFE gh s) (op : Op) (hc : FCovered s op) :
    (InvFE gh (step s op).1 ∨
      (classC op = false ∧ (step s op).1.dev.failed ≠ s.dev.failed ∧ (step s op).1.files = s.files ∧ Weak gh (step s op).1)) ∧
    Clean (step s op).2.result := by
  obtain ⟨⟨gh1, X1, hI1, hg1⟩, hR⟩ := hI
  have e := withFaults_mclr s
  refine ⟨?_, ?_⟩
  · have h := step_any hI1 (rawAll_mclr hR) s.dev.faults op (fcovered_mclr hc)
    rw [e] at h
    rcases h with h | ⟨h1, h2, h3, ⟨gh', X', hF, hsg⟩, h5⟩
    · exact .inl ⟨h.1.sameGeom hg1, h.2⟩
    · exact .inr ⟨h1, h2, h3, ⟨gh', X', hF, hg1.trans hsg⟩, h5⟩
  · by_cases hq : (step s op).1.dev.failed = s.dev.failed
    · have := (quiet_step_inv hI1 s.dev.faults op (fcovered_mclr hc) (by rw [e]; exact hq)).1
      rw [e] at this
      rw [this]
      exact covered_call_clean hI1 op (fcovered_mclr hc)
    · obtain ⟨err, he⟩ := Fault.step_reported s op hq
      rw [he]; exact clean_err _

/-- **Histories, no restriction on where device calls fail**: after every prefix the invariant holds and every call so far
answered `Ok` or an error — or some EARLIER call `ops[j]` was a truncating `open_file_in_dir` inside which a device call
failed: the invariant held before it, it answered an error, left the table of open files alone and left the weak
invariant. -/
theorem history_any : ∀ (ops : List Op) {s : Mgr} {gh : Ghost}, InvFE gh s → CoveredRunF s ops → ∀ k,
    (InvFE gh (run s (ops.take k)).1 ∧ ∀ o, o ∈ (run s (ops.take k)).2 → Clean o.result) ∨
    ∃ j op, j < k ∧ ops[j]? = some op ∧ classC op = false ∧ InvFE gh (run s (ops.take j)).1 ∧
      (∀ o, o ∈ (run s (ops.take j)).2 → Clean o.result) ∧
      (step (run s (ops.take j)).1 op).1.dev.failed ≠ (run s (ops.take j)).1.dev.failed ∧
      Clean (step (run s (ops.take j)).1 op).2.result ∧
      (step (run s (ops.take j)).1 op).1.files = (run s (ops.take j)).1.files ∧
      Weak gh (step (run s (ops.take j)).1 op).1
  | [], s, gh, hI, _, k => by
    rw [List.take_nil]
    exact .inl ⟨hI, fun o ho => by cases ho⟩
  | op :: ops, s, gh, hI, hc, 0 => .inl ⟨hI, fun o ho => by cases ho⟩
  | op :: ops, s, gh, hI, hc, k + 1 => by
    obtain ⟨hstep, hcl⟩ := step_out hI op hc.1
    rcases hstep with hI1 | ⟨h1, h2, h3, h4⟩
    · rcases history_any ops hI1 hc.2 k with ⟨hI2, hcl2⟩ | ⟨j, op', hj, hget, hcc, hIj, hclj, hhit, hclean, hfiles, hweak⟩
      · left
        rw [List.take_succ_cons, WriteSetInv.run_cons]
        refine ⟨hI2, fun o ho => ?_⟩
        rcases List.mem_cons.1 ho with rfl | ho
        · exact hcl
        · exact hcl2 o ho
      · right
        refine ⟨j + 1, op', Nat.succ_lt_succ hj, by rw [List.getElem?_cons_succ]; exact hget, hcc, ?_⟩
        rw [List.take_succ_cons, WriteSetInv.run_cons]
        refine ⟨hIj, fun o ho => ?_, hhit, hclean, hfiles, hweak⟩
        rcases List.mem_cons.1 ho with rfl | ho
        · exact hcl
        · exact hclj o ho
    · right
      refine ⟨0, op, Nat.succ_pos _, rfl, h1, ?_⟩
      rw [List.take_zero]
      have hr : run s [] = (s, []) := rfl
      rw [hr]
      exact ⟨hI, (fun o ho => by cases ho), h2, hcl, h3, h4⟩

end Sdmmc.Lemmas.FaultX
