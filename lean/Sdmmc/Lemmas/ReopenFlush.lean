/-
`flush_file` / `close_file` of a dirty file, as seen from the medium (for `Props.C02Reopen`):

* `flushPos`: the byte positions a flush may change — the 32 bytes of the file's directory slot
  and, on FAT32, bytes 488..495 of the info sector; `flushF_frame`, `flushFile_spec`,
  `closeFile_spec`: the call succeeds, every other byte of the medium is unchanged, the slot holds
  the serialised entry, the tables are untouched (`close` removes the file's record);
* `AgreeOff`: "the media agree on every block other than the entry's block and the info sector",
  and what it preserves when the entry's block is a directory block (`SlotApart`): every cluster
  chain (`chain_of_agreeOff`), the bytes of a chain (`chainBytes_of_agreeOff`), a directory's chain
  (`dirChain_of_agreeOff`).
-/
import Sdmmc.Lemmas.ReopenBase
import Sdmmc.Lemmas.DirMgr
import Sdmmc.Lemmas.DirFrames
import Sdmmc.Lemmas.ReadRefines

namespace Sdmmc.Lemmas.Reopen
open Sdmmc.Model Sdmmc.Model.Fat Sdmmc.Spec
open Sdmmc.Lemmas.FBasic Sdmmc.Lemmas.FatOps
open Sdmmc.Lemmas.Listing (DirChain fatNext)
open Sdmmc.Lemmas.ReadRefines (MgrOK fsOf)
open Sdmmc.Lemmas.DirEntryIO (flushF)

/-! ### The frame of a flush, byte by byte -/

/-- The positions `flush_file` may change: the file's directory slot; on FAT32 the free-count and
next-free words of the info sector. -/
def flushPos (v : FatVolume) (e : DirEntry) : Nat → Nat → Prop := fun b i =>
  (b = e.entryBlock ∧ e.entryOffset ≤ i ∧ i < e.entryOffset + 32) ∨
  (v.fatType = .fat32 ∧ b = v.infoLocation ∧ 488 ≤ i ∧ i < 496)

/-- `d'` agrees with `d` on every block other than `eb` and (FAT32) the info sector. -/
def AgreeOff (v : FatVolume) (eb : Nat) (d d' : Disk) : Prop :=
  ∀ b, b ≠ eb → (v.fatType = .fat16 ∨ b ≠ v.infoLocation) → d'.get b = d.get b

theorem AgreeOff.refl (v : FatVolume) (eb : Nat) (d : Disk) : AgreeOff v eb d d := fun _ _ _ => rfl

/-- `update_info_sector`, byte by byte. -/
theorem updateInfoSector_bytes (s : FS) (hn : NoFault s) (hc : Coherent s) (hb : BlocksOK s.dev.disk) :
    ∃ s1, updateInfoSector s = (.ok (), s1) ∧ NoFault s1 ∧ Coherent s1 ∧ s1.vol = s.vol ∧ BlocksOK s1.dev.disk ∧
      (∀ b, (s.vol.fatType = .fat16 ∨ b ≠ s.vol.infoLocation) → s1.dev.disk.get b = s.dev.disk.get b) ∧
      (∀ b i, ¬ (s.vol.fatType = .fat32 ∧ b = s.vol.infoLocation ∧ 488 ≤ i ∧ i < 496) →
        (s1.dev.disk.get b).getD i 0 = (s.dev.disk.get b).getD i 0) := by
  obtain ⟨s1, h1, hn1, hc1, hv1, hb1, hoth, hin, hcase⟩ := DirEntryIO.updateInfoSector_state s hn hc hb
  have hblock : ∀ b, (s.vol.fatType = .fat16 ∨ b ≠ s.vol.infoLocation) → s1.dev.disk.get b = s.dev.disk.get b := by
    intro b hb'
    rcases hb' with h16 | hne
    · rcases hcase with ⟨_, hd⟩ | ⟨h32, _⟩
      · rw [hd]
      · rw [h16] at h32; cases h32
    · exact hoth b hne
  refine ⟨s1, h1, hn1, hc1, hv1, hb1, hblock, fun b i hni => ?_⟩
  by_cases hbi : b = s.vol.infoLocation
  · subst hbi
    rcases hcase with ⟨_, hd⟩ | ⟨h32, _⟩
    · rw [hd]
    · apply hin
      by_cases h1 : i < 488
      · exact .inl h1
      · by_cases h2 : 496 ≤ i
        · exact .inr h2
        · exact absurd ⟨h32, rfl, by omega, by omega⟩ hni
  · rw [hblock b (.inr hbi)]

/-- **`flush_file` of a dirty file, F level** (`flushF e` = `update_info_sector; write_entry_to_disk e`):
it succeeds; the volume record is the same; the slot of `e` holds `e.serialize`; every byte of the
medium outside `flushPos` is unchanged, and so is every whole block other than the entry's and
(FAT32) the info sector. -/
theorem flushF_frame (s : FS) (e : DirEntry) (hn : NoFault s) (hc : Coherent s) (hb : BlocksOK s.dev.disk)
    (ho : e.entryOffset + 32 ≤ 512) (hname : e.name.length = 11) :
    ∃ s', flushF e s = (.ok (), s') ∧ NoFault s' ∧ Coherent s' ∧ s'.vol = s.vol ∧ BlocksOK s'.dev.disk ∧
      slice (s'.dev.disk.get e.entryBlock) e.entryOffset 32 = e.serialize s.vol.fatType ∧
      (∀ b i, ¬ flushPos s.vol e b i → (s'.dev.disk.get b).getD i 0 = (s.dev.disk.get b).getD i 0) ∧
      AgreeOff s.vol e.entryBlock s.dev.disk s'.dev.disk := by
  obtain ⟨s1, h1, hn1, hc1, hv1, hb1, hblock, hbyte⟩ := updateInfoSector_bytes s hn hc hb
  obtain ⟨s', h2, hn', hc', hv', hb', _, hob, hout, hin⟩ := DirEntryIO.writeEntry_frame s1 e hn1 hc1 hb1 ho hname
  refine ⟨s', ?_, hn', hc', hv'.trans hv1, hb', by rw [hin, hv1], fun b i hni => ?_, fun b hne hinfo => ?_⟩
  · unfold flushF
    rw [bind_ok h1, h2]
  · have hni2 : ¬ (s.vol.fatType = .fat32 ∧ b = s.vol.infoLocation ∧ 488 ≤ i ∧ i < 496) := fun h => hni (.inr h)
    by_cases hbe : b = e.entryBlock
    · subst hbe
      rw [hout i (by
        by_cases h1 : i < e.entryOffset
        · exact .inl h1
        · by_cases h2 : e.entryOffset + 32 ≤ i
          · exact .inr h2
          · exact absurd (.inl ⟨rfl, by omega, by omega⟩) hni)]
      exact hbyte _ i hni2
    · rw [hob b hbe]
      exact hbyte b i hni2
  · rw [hob b hne]
    exact hblock b hinfo

/-! ### The manager level -/

/-- What a flush leaves of a manager state: device and cache. -/
def Flushed (s s1 : Mgr) : Prop := s1 = { s with dev := s1.dev, cache := s1.cache }

/-- **`flush_file` of a dirty file.**  `h` is an open handle (slot `i`, record `f`, dirty) on the
open volume `v` (slot `vi`); the `assert!` on "size without cluster" does not fire; the entry's
slot lies inside its block and its name has 11 bytes.  Then the call succeeds; all three tables and
the handle counter are untouched (in particular the volume record and the file's own record);
`MgrOK` holds again; the slot holds the serialised entry; the frame is `flushPos` / `AgreeOff`. -/
theorem flushFile_spec (s : Mgr) (h i vi : Nat) (f : FileInfo) (v : VolInfo)
    (hs : MgrOK s) (hh : s.files.findIdx? (·.rawFile = h) = some i) (hf : s.files[i]? = some f)
    (hv : s.vols.findIdx? (·.rawVolume = f.rawVolume) = some vi) (hvi : s.vols[vi]? = some v)
    (hd : f.dirty = true) (hassert : ¬ (f.entry.size ≠ 0 ∧ f.entry.cluster = 0))
    (ho : f.entry.entryOffset + 32 ≤ 512) (hname : f.entry.name.length = 11) :
    ∃ s1, flushFile h s = (.ok (), s1) ∧ Flushed s s1 ∧ MgrOK s1 ∧
      slice (s1.dev.disk.get f.entry.entryBlock) f.entry.entryOffset 32 = f.entry.serialize v.vol.fatType ∧
      (∀ b j, ¬ flushPos v.vol f.entry b j → (s1.dev.disk.get b).getD j 0 = (s.dev.disk.get b).getD j 0) ∧
      AgreeOff v.vol f.entry.entryBlock s.dev.disk s1.dev.disk := by
  obtain ⟨hnf, hcoh, hblk, hunl⟩ := hs
  obtain ⟨fs', hrun, hn', hc', hv', hb', hslot, hbyte, hagree⟩ :=
    flushF_frame (fsOf s v) f.entry hnf hcoh hblk ho hname
  have hrun' : flushF f.entry { dev := s.dev, cache := s.cache, vol := v.vol } = (.ok (), fs') := hrun
  have hfl := DirMgr.flushFile_dirty h i vi f s (MHoare.getFileById_ok hh) (MHoare.getFile_ok hf) hd
    (MHoare.getVolumeById_ok hv) hassert
  rw [DirMgr.withVol_eq vi _ s v hvi, hrun'] at hfl
  have hvol : ({ v with vol := fs'.vol } : VolInfo) = v := by
    rw [hv']; rfl
  have hset : s.vols.set vi { v with vol := fs'.vol } = s.vols := by
    rw [hvol]; exact ReadRefines.list_set_self _ _ _ hvi
  dsimp only at hfl
  rw [hset] at hfl
  exact ⟨_, hfl, rfl, ⟨hn', hc', hb', hunl⟩, hslot, hbyte, hagree⟩

/-- **`close_file` of a dirty file**: the flush above, then the file's record leaves the table
(`swap_remove`); the medium is the one the flush left. -/
theorem closeFile_spec (s : Mgr) (h i vi : Nat) (f : FileInfo) (v : VolInfo)
    (hs : MgrOK s) (hh : s.files.findIdx? (·.rawFile = h) = some i) (hf : s.files[i]? = some f)
    (hv : s.vols.findIdx? (·.rawVolume = f.rawVolume) = some vi) (hvi : s.vols[vi]? = some v)
    (hd : f.dirty = true) (hassert : ¬ (f.entry.size ≠ 0 ∧ f.entry.cluster = 0))
    (ho : f.entry.entryOffset + 32 ≤ 512) (hname : f.entry.name.length = 11) :
    ∃ s1, flushFile h s = (.ok (), s1) ∧
      closeFile h s = (.ok (), { s1 with files := swapRemove s.files i }) ∧ Flushed s s1 ∧ MgrOK s1 ∧
      slice (s1.dev.disk.get f.entry.entryBlock) f.entry.entryOffset 32 = f.entry.serialize v.vol.fatType ∧
      (∀ b j, ¬ flushPos v.vol f.entry b j → (s1.dev.disk.get b).getD j 0 = (s.dev.disk.get b).getD j 0) ∧
      AgreeOff v.vol f.entry.entryBlock s.dev.disk s1.dev.disk := by
  obtain ⟨s1, hfl, hfd, hok, hslot, hbyte, hagree⟩ := flushFile_spec s h i vi f v hs hh hf hv hvi hd hassert ho hname
  refine ⟨s1, hfl, ?_, hfd, hok, hslot, hbyte, hagree⟩
  have hfiles : s1.files = s.files := by rw [hfd]
  have hh1 : s1.files.findIdx? (·.rawFile = h) = some i := by rw [hfiles]; exact hh
  unfold closeFile
  rw [MHoare.attempt_bind, hfl]
  dsimp only
  rw [MHoare.bind_ok (MHoare.getFileById_ok hh1), MHoare.modify_bind, hfiles]
  rfl

/-! ### What the frame preserves -/

/-- The entry's block is a directory block (in the data area or in the FAT16 root region), and it
is not a block of the file's own cluster chain `cs` (no cluster is both directory and file data —
the no-sharing invariant of C03/C05). -/
structure SlotApart (v : FatVolume) (eb : Nat) (cs : List Nat) : Prop where
  dir_block : regionOf v eb = .data ∨ regionOf v eb = .root
  not_own : ∀ c ∈ cs, ∀ j, j < v.blocksPerCluster → clusterToBlock v c + j ≠ eb

theorem fatStart_le_numBlocks (v : FatVolume) (hg : WFGeom v) : v.fatStart ≤ v.numBlocks := by
  obtain ⟨_, h2, h3, _, _⟩ := FatLens.geom_facts v hg
  have := FatLens.fatsEnd_ge v hg
  omega

/-- A block of a region other than the entry's and the info sector's is untouched. -/
theorem agreeOff_region (v : FatVolume) (hg : WFGeom v) (eb : Nat) (d d' : Disk) (h : AgreeOff v eb d d')
    (b : Nat) (hne : b ≠ eb) (hreg : regionOf v b ≠ .info) : d'.get b = d.get b := by
  apply h b hne
  cases hft : v.fatType with
  | fat16 => exact .inl rfl
  | fat32 =>
    right
    intro e
    apply hreg
    rw [e]
    exact FatLens.info_block_in_info_region v hg hft (fatStart_le_numBlocks v hg)

/-- FAT blocks are untouched when the entry's block is a directory block. -/
theorem agreeOff_fat (v : FatVolume) (hg : WFGeom v) (eb : Nat) (d d' : Disk) (h : AgreeOff v eb d d')
    (hdb : regionOf v eb = .data ∨ regionOf v eb = .root) (c : Nat) (hc : c < endCluster v) :
    d'.get (fatBlock v c) = d.get (fatBlock v c) := by
  have hr := (FatLens.fat_blocks_in_fat_region v hg c hc).1
  apply agreeOff_region v hg eb d d' h
  · intro e
    rw [e] at hr
    rcases hdb with h1 | h1 <;> rw [h1] at hr <;> cases hr
  · rw [hr]; intro e; cases e

/-- Every cluster chain of the volume survives. -/
theorem chain_of_agreeOff (v : FatVolume) (hg : WFGeom v) (eb : Nat) (d d' : Disk) (h : AgreeOff v eb d d')
    (hdb : regionOf v eb = .data ∨ regionOf v eb = .root) {c : Nat} {cs : List Nat} (hch : Chain v d c cs) :
    Chain v d' c cs :=
  ChainL.chain_congr hch fun x hx => agreeOff_fat v hg eb d d' h hdb x (ChainL.chain_inRange hch x hx).2

/-- The data blocks of the clusters of `cs` are untouched. -/
theorem clusterBytes_of_agreeOff (v : FatVolume) (hg : WFGeom v) (eb : Nat) (d d' : Disk) (h : AgreeOff v eb d d')
    (c : Nat) (hr : InRange v c) (hown : ∀ j, j < v.blocksPerCluster → clusterToBlock v c + j ≠ eb) :
    clusterBytes v d' c = clusterBytes v d c := by
  unfold Spec.clusterBytes
  congr 1
  apply List.map_congr_left
  intro j hj
  have hj' : j < v.blocksPerCluster := List.mem_range.1 hj
  apply agreeOff_region v hg eb d d' h _ (hown j hj')
  rw [FatLens.cluster_blocks_in_data_region v hg c j hr.1 hr.2 hj']
  intro e; cases e

theorem chainBytes_of_agreeOff (v : FatVolume) (hg : WFGeom v) (eb : Nat) (d d' : Disk) (h : AgreeOff v eb d d')
    (cs : List Nat) (hr : ∀ c ∈ cs, InRange v c)
    (hown : ∀ c ∈ cs, ∀ j, j < v.blocksPerCluster → clusterToBlock v c + j ≠ eb) :
    chainBytes v d' cs = chainBytes v d cs := by
  unfold Spec.chainBytes
  congr 1
  exact List.map_congr_left fun c hc => clusterBytes_of_agreeOff v hg eb d d' h c (hr c hc) (hown c hc)

/-- The byte-array contents of a file with chain `cs` survive. -/
theorem fileContent_of_agreeOff (v : FatVolume) (hg : WFGeom v) (eb : Nat) (d d' : Disk) (h : AgreeOff v eb d d')
    (cs : List Nat) (hr : ∀ c ∈ cs, InRange v c)
    (hown : ∀ c ∈ cs, ∀ j, j < v.blocksPerCluster → clusterToBlock v c + j ≠ eb) (n : Nat) :
    fileContent v d' cs n = fileContent v d cs n := by
  unfold Spec.fileContent
  rw [chainBytes_of_agreeOff v hg eb d d' h cs hr hown]

/-- The FAT links of clusters of the volume survive. -/
theorem fatNext_of_agreeOff (v : FatVolume) (hg : WFGeom v) (eb : Nat) (d d' : Disk) (h : AgreeOff v eb d d')
    (hdb : regionOf v eb = .data ∨ regionOf v eb = .root) (c : Nat) (hc : c < endCluster v) :
    fatNext v d' c = fatNext v d c := by
  unfold Listing.fatNext
  rw [agreeOff_fat v hg eb d d' h hdb c hc]

/-- A directory's chain of clusters of the volume survives. -/
theorem dirChain_of_agreeOff (v : FatVolume) (hg : WFGeom v) (eb : Nat) (d d' : Disk) (h : AgreeOff v eb d d')
    (hdb : regionOf v eb = .data ∨ regionOf v eb = .root) (cs : List Nat) (hr : ∀ c ∈ cs, c < endCluster v)
    (hne : cs ≠ []) (hch : DirChain v d cs) : DirChain v d' cs := by
  obtain ⟨h1, h2⟩ := hch
  constructor
  · intro i hi
    have hmem : cs.getD i 0 ∈ cs := by
      rw [List.getD_eq_getElem?_getD, List.getElem?_eq_getElem (by omega)]
      exact List.getElem_mem _
    rw [fatNext_of_agreeOff v hg eb d d' h hdb _ (hr _ hmem)]
    exact h1 i hi
  · have hmem : cs.getLast?.getD 0 ∈ cs := by
      rw [List.getLast?_eq_some_getLast hne]
      exact List.getLast_mem hne
    rw [fatNext_of_agreeOff v hg eb d d' h hdb _ (hr _ hmem)]
    exact h2

end Sdmmc.Lemmas.Reopen
