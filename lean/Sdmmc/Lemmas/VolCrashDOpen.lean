/-
Clause 5 of C10 at API level: `VolCrashXOpen.lean` restated for `CIXP P` — `open_file_in_dir`: the entry of a created file may go into a cluster the directory grew by (`writeNew_cixp`); truncation frees clusters and allocates none.
-/
import Sdmmc.Lemmas.VolCrashDApi
import Sdmmc.Lemmas.VolCrashDDir
import Sdmmc.Lemmas.VolCrashDDelete
import Sdmmc.Lemmas.VolCrashXOpen

namespace Sdmmc.Lemmas.VolCrashD
open Sdmmc.Lemmas.VolCrash Sdmmc.Lemmas.VolCrashX
open Sdmmc.Model Sdmmc.Model.Fat Sdmmc.Spec.Volume
open Sdmmc.Spec hiding NoFault Coherent run step
open Sdmmc.Lemmas.FBasic
open Sdmmc.Lemmas.VolBase Sdmmc.Lemmas.VolTree Sdmmc.Lemmas.VolMed Sdmmc.Lemmas.VolDisk Sdmmc.Lemmas.VolEng
open Sdmmc.Lemmas.VolApi Sdmmc.Lemmas.CrashBase Sdmmc.Lemmas.CrashMgr Sdmmc.Lemmas.MHoare

/-! ### The engine level -/

section
variable {files : List FileInfo} {gh : Ghost} {X : List (List Nat)}

/-- **Creating a file entry** with its crash points: `NotEnoughSpace` and the device untouched, or every crash point
is crash-consistent, the open files satisfy `RawOKX` on the final medium and the new slot names no cluster. -/
theorem createBody_cixp {fs : FS} (hM : MedX fs.vol fs.dev.disk files gh X) (hR : RawOKX fs.vol.fatType fs.dev.disk files) (hU : ∀ c, isUsed fs.vol fs.dev.disk c → P c)
    (hn : NoFault fs) (hc : Coherent fs) {dc : Nat} (hv : ValidDir gh.dirs dc) (name : Bytes) (hlen : name.length = 11)
    (h0 : byteAt name 0 ≠ 0) (hE5 : byteAt name 0 ≠ 0xE5)
    (hfresh : name ∉ (entries (dirSlots fs.vol fs.dev.disk gh.G (dirIdOf dc))).map sName) (now : Timestamp) :
    ∃ r fs', writeNewDirectoryEntry dc name 0 0 now fs = (r, fs') ∧ CrashAll (CIXP P fs.vol) fs fs' ∧
      ((r = .err .NotEnoughSpace ∧ fs'.dev.disk = fs.dev.disk) ∨
       (∃ b off, r = .ok (DirEntry.new name 0 0 now b off) ∧ RawOKX fs.vol.fatType fs'.dev.disk files ∧
          sCluster fs.vol.fatType (slotAt fs'.dev.disk b off) = 0 ∧ sSize (slotAt fs'.dev.disk b off) = 0)) := by
  obtain ⟨r, fs', hrun, hn', hc', hcase⟩ := writeNew_cixp hM hR (fun c hc => hU c (memG_used hM hc)) hn hc hv name hlen 0 0 now
  refine ⟨r, fs', hrun, ?_⟩
  have hci0 := cixp_of_medX hM hR (dirInit_of_used hM hU)
  rcases hcase with ⟨hr, hd', hv', hw'⟩ | ⟨v1, d1, G1, pre, post, old, hS, hr, hd', hR1, hDf, hcr⟩
  · exact ⟨CrashAll.same hw' hd' hci0, .inl ⟨hr, hd'⟩⟩
  · obtain ⟨hh, _⟩ := validDir_id hM hv
    have hM1 := hS.med
    have hh1 : dirIdOf dc ∈ dirIds ({ vol := v1, G := G1, dirs := gh.dirs } : Ghost).dirs := hh
    obtain ⟨hbl, hfirst, hsn, hsa, hsc, hss⟩ := new_entry_slot v1.fatType name 0 0 now old.1 old.2.1 hlen (by decide)
      (by cases v1.fatType <;> decide)
    generalize hbytes : DirEntry.serialize v1.fatType (DirEntry.new name 0 0 now old.1 old.2.1) = bytes
      at hbl hfirst hsn hsa hsc hss hd'
    have hE := slotEdit_write hM1 hh1 hS.split hS.pre_nz hS.pre_len bytes hbl (by rw [hfirst]; exact h0)
    have hkeep : keep (old.1, old.2.1, bytes) = true := by
      unfold keep isFrag
      rw [hfirst, hsa]
      simp [hE5]
    have hnd : isDirE (old.1, old.2.1, bytes) = false := by
      unfold isDirE; rw [hsa]; decide
    have hold_mem : old ∈ dirSlots v1 d1 G1 (dirIdOf dc) := by rw [hS.split]; simp
    have hpend := pendOf_free_none hM1 hh1 hold_mem hS.free (old.1, old.2.1, bytes) rfl
    have htree := tree_insert_file hM1.tree (med_heads hM1) hE hS.free hkeep hnd
      (by rw [hsn, hS.entries_eq _ hh]; exact hfresh) hsc hss hpend
    obtain ⟨hb', hfat', hsp', hoth'⟩ := slot_write hM1 hh1 hS.split bytes hbl
    have hM' := medX_rebuild hM1 hb' hfat' (gh' := { vol := v1, G := G1, dirs := gh.dirs }) rfl htree hM1.fileOK
    rw [← hd'] at hM' hsp' hoth'
    have hft : v1.fatType = fs.vol.fatType := hS.sameGeom.fatType
    -- `RawOKX` on the final medium
    have hR' : RawOKX v1.fatType fs'.dev.disk files := by
      refine rawOKX_edit hM1 hR1 hS.split hsp' ⟨rfl, rfl⟩ hoth' fun f hf hb ho => ?_
      exact absurd (show fkey f = spos (old.1, old.2.1, bytes) from Prod.ext hb ho)
        ((pendOf_none_iff files _).1 hpend f hf)
    have hci' : CIXP P fs.vol fs'.dev.disk := (cixp_of_medX hM' hR' hDf).sameGeom hS.sameGeom.symm
    refine ⟨hcr.mono fun d hd => ?_, .inr ⟨old.1, old.2.1, hr, by rw [← hft]; exact hR', ?_⟩⟩
    · rcases hd with hd | hd
      · exact hd
      · rw [hd]; exact hci'
    · have hnew : ((old.1, old.2.1, bytes) : Slot) ∈ dirSlots v1 fs'.dev.disk G1 (dirIdOf dc) := by rw [hsp']; simp
      have := slotAt_of_mem hnew
      rw [← hft, ← this]
      exact ⟨hsc, hss⟩

/-- **Truncating a closed file** with its crash points: the cut of the chain, then ONE slot write from the medium the
cut leaves (stale size: no boundary state, but the last crash point of the cut) to the boundary state of `truncate_med`. -/
theorem truncBody_cixp {fs : FS} (hM : MedX fs.vol fs.dev.disk files gh []) (hR : RawOKX fs.vol.fatType fs.dev.disk files) (hU : ∀ c, isUsed fs.vol fs.dev.disk c → P c)
    (hn : NoFault fs) (hc : Coherent fs) {h : Nat} (hh : h ∈ dirIds gh.dirs) {o : Slot}
    (ho : o ∈ objects h (dirSlots fs.vol fs.dev.disk gh.G h)) (hod : isDirE o = false)
    (hfree : pendOf files o = none) (e : DirEntry) (hblk : e.entryBlock = o.1) (hoff : e.entryOffset = o.2.1)
    (hnm : e.name = sName o) (hat : e.attributes = sAttr o) (hcl : e.cluster = sCluster fs.vol.fatType o) (hsz : e.size = 0) :
    ∃ fs1 fs2, truncateClusterChain e.cluster fs = (.ok (), fs1) ∧ writeEntryToDisk e fs1 = (.ok (), fs2) ∧
      CrashAll (CIXP P fs.vol) fs fs1 ∧ CrashAll (CIXP P fs.vol) fs1 fs2 ∧ RawOKX fs.vol.fatType fs2.dev.disk files ∧
      sCluster fs.vol.fatType (slotAt fs2.dev.disk e.entryBlock e.entryOffset) = e.cluster ∧
      sSize (slotAt fs2.dev.disk e.entryBlock e.entryOffset) = 0 := by
  obtain ⟨fs1, fs2, hr1, hr2, hn2, hc2, hsg, gh', hgv, hgd, hM2, o', ho', hpo', hod', hsn', hsa', hsc', hss', hpn'⟩ :=
    truncate_med hM hn hc hh ho hod hfree e hblk hoff hnm hat hcl hsz
  refine ⟨fs1, fs2, hr1, hr2, ?_⟩
  have hci0 := cixp_of_medX hM hR (dirInit_of_used hM hU)
  have hco := closed_object_chain hM hh ho hod hfree
  obtain ⟨hdirne, _⟩ := closed_object_apart hM hh ho hod hfree
  have hmem : o ∈ dirSlots fs.vol fs.dev.disk gh.G h := mem_of_mem_objects ho
  -- the frame of the cut
  obtain ⟨fs1', G', hrun1, hn1, hc1, hb1, hsg1, _, _, _, _, hnonfat, _⟩ :=
    truncate_fat hM hn hc (c := sCluster fs.vol.fatType o) (by
      rcases hco with ⟨h1, _, _⟩ | ⟨_, _, h3, h4⟩
      · exact .inl h1
      · exact .inr ⟨h4, h3⟩)
  have e1 : fs1' = fs1 := by rw [← hcl, hr1] at hrun1; exact (congrArg Prod.snd hrun1).symm
  subst e1
  -- the crash points of the cut
  have c01 : CrashAll (CIXP P fs.vol) fs fs1' ∧ ∀ c, isUsed fs.vol fs1'.dev.disk c → isUsed fs.vol fs.dev.disk c := by
    rcases hco with ⟨h1, _, _⟩ | ⟨h1, _, hch, hcm⟩
    · have h0 : truncateClusterChain e.cluster fs = (.ok (), fs) := by
        rw [hcl, h1]; unfold truncateClusterChain; rw [if_pos (by decide)]; rfl
      rw [hr1] at h0
      have e0 : fs1' = fs := congrArg Prod.snd h0
      rw [e0]
      exact ⟨CrashAll.same rfl rfl hci0, fun _ h => h⟩
    · have hhd : (chainOf gh.G (sCluster fs.vol.fatType o)).head? = some (sCluster fs.vol.fatType o) := ChainL.chain_head? hch
      obtain ⟨tail, htail⟩ : ∃ tail, chainOf gh.G (sCluster fs.vol.fatType o) = sCluster fs.vol.fatType o :: tail := by
        cases hcs : chainOf gh.G (sCluster fs.vol.fatType o) with
        | nil => rw [hcs] at hhd; cases hhd
        | cons a l =>
          rw [hcs] at hhd
          simp only [List.head?_cons, Option.some.injEq] at hhd
          exact ⟨l, by rw [hhd]⟩
      rw [htail] at hcm
      obtain ⟨A, B, hsplit⟩ := List.append_of_mem hcm
      obtain ⟨s', ht, hcr, hus⟩ := truncate_cixp hM hR (dirInit_of_used hM hU) hn hc (A := A) (B := B) (pre := []) (tail := tail)
        (x := sCluster fs.vol.fatType o) (by rw [List.append_nil, hsplit]; simp) (by
          intro x hx hfx heq
          have := (dirChain_spec hM hx hfx).2
          rw [heq] at this
          simp only [List.nil_append, List.head?_cons, Option.some.injEq] at this
          exact hdirne x hx hfx this.symm)
      rw [← hcl, hr1] at ht
      have e0 : fs1' = s' := congrArg Prod.snd ht
      rw [e0]
      exact ⟨hcr, hus⟩
  obtain ⟨c01, hus01⟩ := c01
  -- the slot write
  obtain ⟨fs2', hrun2, hd2, hv2, _, _⟩ := writeEntryToDisk_exact fs1' e hn1 hc1
  have e2 : fs2' = fs2 := by rw [hr2] at hrun2; exact (congrArg Prod.snd hrun2).symm
  subst e2
  have hRw := rewritten_of_entry hM hh ho hod hfree e hnm hat hcl hsz
  have hft1 : fs1'.vol.fatType = fs.vol.fatType := hsg1.fatType
  rw [hblk, hoff, hft1] at hd2
  obtain ⟨i, hi, hoffi⟩ := mem_dirSlots_offset hmem
  have hname : e.name.length = 11 := by
    rw [hnm]; unfold sName; rw [List.length_take, mem_dirSlots_length hM.blocksOK hmem]; rfl
  obtain ⟨s', h2, _, _, _, _, ⟨p, hw, hd⟩, _⟩ := DirEntryIO.writeEntry_frame fs1' e hn1 hc1 hb1
    (by rw [hoff, hoffi]; omega) hname
  have e3 : s' = fs2' := by rw [hr2] at h2; exact (congrArg Prod.snd h2).symm
  subst e3
  -- `RawOKX` on the final medium
  obtain ⟨pre, post, hsp, _, _, _, _⟩ := object_split hM hh ho
  obtain ⟨_, _, hsp', hoth'⟩ := slot_write hM hh hsp (DirEntry.serialize fs.vol.fatType e) hRw.len
  have hRdw := rawOKX_edit hM hR hsp hsp' ⟨rfl, rfl⟩ hoth' fun f hf hb ho' =>
    absurd (show fkey f = spos o from Prod.ext hb ho') ((pendOf_none_iff files o).1 hfree f hf)
  have horeg : regionOf fs.vol o.1 ≠ .fat := by
    rcases dirSlot_not_fat hM hh hmem with h1 | h1 <;> rw [h1] <;> intro e' <;> cases e'
  have hR2 : RawOKX fs.vol.fatType s'.dev.disk files := by
    refine rawOKX_blocks hRdw fun f hf => ?_
    obtain ⟨x, hx, sl, hs, h1, _⟩ := file_dirSlot hM hf
    have hreg : regionOf fs.vol sl.1 ≠ .fat := by
      rcases dirSlot_not_fat hM hx hs with h1 | h1 <;> rw [h1] <;> intro e' <;> cases e'
    rw [← h1, hd2, FBasic.Disk.get_set, FBasic.Disk.get_set]
    split
    · rw [hnonfat _ horeg]
    · exact hnonfat _ hreg
  have hU2 : ∀ c, isUsed s'.vol s'.dev.disk c → P c := by
    intro c hc
    rw [hsg.isUsed, hd2] at hc
    exact hU c (hus01 c (used_set_nonFat hM.geom horeg hc))
  have hci2 : CIXP P fs.vol s'.dev.disk :=
    (cixp_of_medX hM2 (by rw [hsg.fatType]; exact hR2) (dirInit_of_used hM2 hU2)).sameGeom hsg.symm
  refine ⟨c01, single_cixp hw hd c01.final hci2, hR2, ?_⟩
  have := slotAt_of_mem (mem_of_mem_objects ho')
  obtain ⟨hp1, hp2⟩ := Prod.mk.inj hpo'
  have hp1' : o'.1 = o.1 := hp1
  have hp2' : o'.2.1 = o.2.1 := hp2
  rw [hblk, hoff, ← hp1', ← hp2', ← this, hcl, ← hsc', hsg.fatType]
  exact ⟨rfl, hss'⟩

end

/-! ### The manager level -/

theorem CallCXP.trans {P : Nat → Prop} {v : FatVolume} {s s1 s2 : Mgr} (h1 : CallCXP P v s s1) (h2 : CallCXP P v s1 s2) : CallCXP P v s s2 :=
  ⟨h1.crash.trans h2.crash, h2.raw⟩

/-- Opening an existing plain file without truncation: the device is left alone, and the new record carries the
decoded on-disk entry. -/
theorem open_existing_callCXP {s : Mgr} {gh : Ghost} (hI : VolInv s gh) (hR : RawOKX gh.vol.fatType s.dev.disk s.files) (hU : ∀ c, isUsed gh.vol s.dev.disk c → P c)
    {d : DirInfo} (hdv : ValidDir gh.dirs d.cluster) {sfn : Bytes} {e : DirEntry} {o : Slot} (hF : Found s gh d sfn e o)
    (hdir : Attr.isDirectory e.attributes = false) (id : Nat) (mode : Mode) (off nid : Nat) :
    CallCXP P gh.vol s { s with nextId := nid, files := s.files ++ [Modes.openedFile d id e mode off] } := by
  refine ⟨MCrash.same rfl (cixp_start hI hR hU), ?_⟩
  obtain ⟨_, _, _, hb, hoo, hnd⟩ := hF.fields
  obtain ⟨hod, hcl⟩ := hnd hdir
  have hM := medX_of_med hI.med
  obtain ⟨hid, _⟩ := validDir_id hM hdv
  have hobj : o ∈ objects (dirIdOf d.cluster) (dirSlots gh.vol s.dev.disk gh.G (dirIdOf d.cluster)) := by
    refine entry_object (ft := gh.vol.fatType) hF.mem hod ?_
    intro hne
    rcases mem_dirIds.1 hid with e0 | ⟨p, hp⟩
    · exact absurd e0 hne
    · obtain ⟨s0, s1, rest, hss, hd0, hd1⟩ := hM.tree.dots _ p hp
      exact ⟨p, s0, s1, rest, hss, hd0, hd1⟩
  have hslot : slotAt s.dev.disk e.entryBlock e.entryOffset = o := by
    rw [hb, hoo, ← slotAt_of_mem (mem_entries hF.mem).1]
  refine VolCrashX.rawOKX_append hR ?_ ?_
  · right
    show sCluster gh.vol.fatType (slotAt s.dev.disk e.entryBlock e.entryOffset) = e.cluster
    rw [hslot, hcl]
  · show sCluster gh.vol.fatType (slotAt s.dev.disk e.entryBlock e.entryOffset) = 0 →
      sSize (slotAt s.dev.disk e.entryBlock e.entryOffset) = 0
    rw [hslot]
    exact emptyNoCluster_of_medX hM hR.empty _ hid o hobj hod

/-- The creating branch. -/
theorem createRun_callCXP {s : Mgr} {gh : Ghost} (hI : VolInv s gh) (hR : RawOKX gh.vol.fatType s.dev.disk s.files) (hU : ∀ c, isUsed gh.vol s.dev.disk c → P c)
    {vi : VolInfo} (hvs : s.vols = [vi]) (hvol : vi.vol = gh.vol) {d : DirInfo} (hdv : ValidDir gh.dirs d.cluster)
    (hraw : vi.rawVolume = d.rawVolume) (sfn : Bytes) (hlen : sfn.length = 11) (h0 : byteAt sfn 0 ≠ 0)
    (hE5 : byteAt sfn 0 ≠ 0xE5)
    (hfresh : sfn ∉ (entries (dirSlots gh.vol s.dev.disk gh.G (dirIdOf d.cluster))).map sName) (now : Timestamp) :
    CallCXP P gh.vol s (Modes.createRun d sfn now s).2 := by
  unfold Modes.createRun
  have hv0 : s.vols.findIdx? (·.rawVolume = d.rawVolume) = some 0 := by rw [hvs]; simp [hraw]
  rw [bind_ok (getVolumeById_ok hv0)]
  obtain ⟨hn, hc, hM⟩ := volInv_fs hI
  obtain ⟨r, fs', hrun, hcr, hcase⟩ := createBody_cixp (fs := fsOf s gh) hM hR hU hn hc hdv sfn hlen h0 hE5 hfresh now
  have hw := withVol_one (Fat.writeNewDirectoryEntry d.cluster sfn 0 Gen.CLUSTER_EMPTY now) hvs hvol
  have hrun' : Fat.writeNewDirectoryEntry d.cluster sfn 0 Gen.CLUSTER_EMPTY now (fsOf s gh) = (r, fs') := hrun
  rw [hrun'] at hw
  have hmc : MCrash (CIXP P gh.vol) s (afterVol s vi fs') := MCrash.of_fs hcr rfl rfl
  rcases hcase with ⟨hr, hd'⟩ | ⟨b, off, hr, hR', hsc, hss⟩
  · subst hr
    rw [bind_err hw]
    refine ⟨hmc, ?_⟩
    show RawOKX gh.vol.fatType fs'.dev.disk s.files
    rw [hd']; exact hR
  · subst hr
    rw [bind_ok hw, generate_bind, modify_bind]
    exact ⟨MCrash.of_eq hmc rfl, VolCrashX.rawOKX_append hR' (.inl hsc) fun _ => hss⟩

/-- The truncating branch. -/
theorem truncRun_callCXP {s : Mgr} {gh : Ghost} (hI : VolInv s gh) (hR : RawOKX gh.vol.fatType s.dev.disk s.files) (hU : ∀ c, isUsed gh.vol s.dev.disk c → P c)
    {vi : VolInfo} (hvs : s.vols = [vi]) (hvol : vi.vol = gh.vol) {d : DirInfo} (hdv : ValidDir gh.dirs d.cluster)
    (hraw : vi.rawVolume = d.rawVolume) {sfn : Bytes} {e : DirEntry} {o : Slot} (hF : Found s gh d sfn e o)
    (hdir : Attr.isDirectory e.attributes = false) (hopen : fileIsOpen s d.rawVolume e = false)
    (id : Nat) (now : Timestamp) : CallCXP P gh.vol s (Modes.truncRun d 0 e id now s).2 := by
  obtain ⟨ho, hod, hfree⟩ := hF.object hI hvs hdv hraw hdir hopen
  obtain ⟨hnm, hat, hsz, hb, hoo, hnd⟩ := hF.fields
  obtain ⟨_, hcl⟩ := hnd hdir
  obtain ⟨hn, hc, hM⟩ := volInv_fs hI
  obtain ⟨hid, _⟩ := validDir_id hM hdv
  obtain ⟨fs1, fs2, hr1, hr2, c01, c12, hR2, hsc⟩ :=
    truncBody_cixp (fs := fsOf s gh) hM hR hU hn hc hid ho hod hfree (Modes.truncatedFile d id e now).entry hb hoo hnm hat hcl rfl
  -- the two runs on the volume
  have hw1 := withVol_one (Fat.truncateClusterChain e.cluster) hvs hvol
  have hr1' : Fat.truncateClusterChain e.cluster (fsOf s gh) = (.ok (), fs1) := hr1
  rw [hr1'] at hw1
  have hvs1 : (afterVol s vi fs1).vols = [{ vi with vol := fs1.vol }] := rfl
  have hw2 := withVol_one (gh := { gh with vol := fs1.vol }) (Fat.writeEntryToDisk (Modes.truncatedFile d id e now).entry) hvs1 rfl
  have hfs1 : fsOf (afterVol s vi fs1) { gh with vol := fs1.vol } = fs1 := rfl
  rw [hfs1, hr2] at hw2
  unfold Modes.truncRun
  have hinner : ((do
      withVol 0 (Fat.truncateClusterChain e.cluster)
      withVol 0 (Fat.writeEntryToDisk (Modes.truncatedFile d id e now).entry)
      pure (Modes.truncatedFile d id e now) : M FileInfo)) s =
      (.ok (Modes.truncatedFile d id e now), afterVol (afterVol s vi fs1) { vi with vol := fs1.vol } fs2) := by
    rw [bind_ok hw1, bind_ok hw2]; rfl
  rw [bind_ok hinner, modify_bind]
  exact ⟨MCrash.of_fs (c01.trans c12) rfl rfl, VolCrashX.rawOKX_append hR2 (.inr hsc.1) fun _ => hsc.2⟩

/-- **`open_file_in_dir`**, every mode, whatever it answers (for a name whose short form does not start with 0xE5):
every crash point of the call leaves a crash-consistent medium, and the open files satisfy `RawOKX` afterwards. -/
theorem openFile_callCXP {s : Mgr} {gh : Ghost} (hI : VolInv s gh) (hR : RawOKX gh.vol.fatType s.dev.disk s.files) (hU : ∀ c, isUsed gh.vol s.dev.disk c → P c)
    (directory : Nat) (name : List Nat) (mode : Mode)
    (hname : ∀ sfn, Sfn.createFromStr name = .ok sfn → sfn.head? ≠ some 0xE5) :
    CallCXP P gh.vol s (openFileInDir directory name mode s).2 := by
  have hci := cixp_start hI hR hU
  rw [Modes.openFileInDir_eq]
  unfold Modes.openFileInDirAlt
  rw [get_bind]
  by_cases hroom : s.files.length ≥ s.maxFiles
  · rw [if_pos hroom]; exact callCXP_refl hci hR
  rw [if_neg hroom]
  refine dirPrologue_callCXP directory name _ hI hR hU fun d volIdx sfn hdm hv hsfn => ?_
  obtain ⟨h0, vi, hvs, hvol, hraw⟩ := vol_of_handle hI hv
  subst h0
  have hdv := hI.openDirs d hdm
  rw [attempt_bind]
  obtain ⟨r, fs', hlk, hdisk, hvol', h1, hcase⟩ := lookup_found hI hvs hvol hdv sfn (hname sfn hsfn)
  have hwl : (withVol 0 (Fat.findDirectoryEntry d.cluster sfn) s).2.dev.wlog = s.dev.wlog :=
    (Modes.lookup_writes_nothing 0 d sfn s).1
  rw [hlk] at hwl ⊢
  show CallCXP P gh.vol s (Modes.openFileTail d 0 sfn mode r (afterVol s vi fs')).2
  have hvs1 : (afterVol s vi fs').vols = [{ vi with vol := fs'.vol }] := rfl
  have hraw1 : ({ vi with vol := fs'.vol } : VolInfo).rawVolume = d.rawVolume := hraw
  -- the lookup leaves the device alone
  have hsame : CallCXP P gh.vol s (afterVol s vi fs') := callCXP_same hwl hdisk hci hR
  have hR1 : RawOKX gh.vol.fatType (afterVol s vi fs').dev.disk (afterVol s vi fs').files := hsame.raw
  have hU1 : ∀ c, isUsed gh.vol (afterVol s vi fs').dev.disk c → P c := by rw [hdisk]; exact hU
  rcases hcase with ⟨hr, hfresh⟩ | ⟨e, o, hr, hF⟩
  · subst hr
    by_cases hm : mode = .ReadWriteCreate ∨ mode = .ReadWriteCreateOrTruncate ∨ mode = .ReadWriteCreateOrAppend
    · rw [Modes.tail_create_eq d 0 sfn _ mode hm]
      obtain ⟨hlen, h0⟩ := VolSfn.sfn_facts hsfn
      refine hsame.trans (createRun_callCXP h1 hR1 hU1 hvs1 hvol' hdv hraw1 sfn hlen h0
        (VolSfn.sfn_first_ne_e5 (hname sfn hsfn)) ?_ _)
      rw [hdisk]; exact hfresh
    · have hm' : mode = .ReadOnly ∨ mode = .ReadWriteAppend ∨ mode = .ReadWriteTruncate := by
        cases mode <;> simp at hm ⊢
      rw [Modes.tail_notFound d 0 sfn _ mode hm']
      exact hsame
  · subst hr
    by_cases hopen : fileIsOpen (afterVol s vi fs') d.rawVolume e = true
    · rw [Modes.tail_open d 0 sfn _ mode e hopen]; exact hsame
    have hopen' : fileIsOpen (afterVol s vi fs') d.rawVolume e = false := by simpa using hopen
    by_cases hcreate : mode = .ReadWriteCreate
    · subst hcreate
      rw [Modes.tail_exists d 0 sfn _ e hopen']; exact hsame
    by_cases hro : Attr.isReadOnly e.attributes = true ∧ mode ≠ .ReadOnly
    · rw [Modes.tail_readOnlyAttr d 0 sfn _ mode e hopen' hcreate hro.2 hro.1]; exact hsame
    have hro' : Attr.isReadOnly e.attributes = false ∨ mode = .ReadOnly := by
      by_cases h : mode = .ReadOnly
      · exact .inr h
      · left
        by_cases h2 : Attr.isReadOnly e.attributes = true
        · exact absurd ⟨h2, h⟩ hro
        · simpa using h2
    by_cases hdir : Attr.isDirectory e.attributes = true
    · rw [Modes.tail_dirAsFile d 0 sfn _ mode e hopen' hcreate hro' hdir]; exact hsame
    have hdir' : Attr.isDirectory e.attributes = false := by simpa using hdir
    cases mode with
    | ReadOnly =>
      rw [Modes.tail_readOnly d 0 sfn _ e hopen' hdir']
      exact hsame.trans (open_existing_callCXP h1 hR1 hU1 hdv hF hdir' _ _ 0 _)
    | ReadWriteCreate => exact absurd rfl hcreate
    | ReadWriteAppend =>
      have hron : Attr.isReadOnly e.attributes = false := hro'.elim id (fun h => by cases h)
      rw [Modes.tail_append d 0 sfn _ .ReadWriteAppend e (.inl rfl) hopen' hron hdir']
      exact hsame.trans (open_existing_callCXP h1 hR1 hU1 hdv hF hdir' _ _ e.size _)
    | ReadWriteCreateOrAppend =>
      have hron : Attr.isReadOnly e.attributes = false := hro'.elim id (fun h => by cases h)
      rw [Modes.tail_append d 0 sfn _ .ReadWriteCreateOrAppend e (.inr rfl) hopen' hron hdir']
      exact hsame.trans (open_existing_callCXP h1 hR1 hU1 hdv hF hdir' _ _ e.size _)
    | ReadWriteTruncate =>
      have hron : Attr.isReadOnly e.attributes = false := hro'.elim id (fun h => by cases h)
      rw [Modes.tail_truncate_eq d 0 sfn _ .ReadWriteTruncate (.inl rfl) e hopen' hron hdir']
      have h1' : VolInv { afterVol s vi fs' with nextId := ((afterVol s vi fs').nextId + 1) % 4294967296 } gh :=
        volInv_ro h1 rfl h1.noFault h1.coherent rfl rfl rfl rfl h1.openDirs
      have hstep : CallCXP P gh.vol (afterVol s vi fs')
          { afterVol s vi fs' with nextId := ((afterVol s vi fs').nextId + 1) % 4294967296 } :=
        callCXP_same rfl rfl hsame.crash.final hR1
      exact (hsame.trans hstep).trans
        (truncRun_callCXP h1' hR1 hU1 hvs1 hvol' hdv hraw1 ⟨hF.mem, hF.name, hF.dec⟩ hdir' hopen' _ _)
    | ReadWriteCreateOrTruncate =>
      have hron : Attr.isReadOnly e.attributes = false := hro'.elim id (fun h => by cases h)
      rw [Modes.tail_truncate_eq d 0 sfn _ .ReadWriteCreateOrTruncate (.inr rfl) e hopen' hron hdir']
      have h1' : VolInv { afterVol s vi fs' with nextId := ((afterVol s vi fs').nextId + 1) % 4294967296 } gh :=
        volInv_ro h1 rfl h1.noFault h1.coherent rfl rfl rfl rfl h1.openDirs
      have hstep : CallCXP P gh.vol (afterVol s vi fs')
          { afterVol s vi fs' with nextId := ((afterVol s vi fs').nextId + 1) % 4294967296 } :=
        callCXP_same rfl rfl hsame.crash.final hR1
      exact (hsame.trans hstep).trans
        (truncRun_callCXP h1' hR1 hU1 hvs1 hvol' hdv hraw1 ⟨hF.mem, hF.name, hF.dec⟩ hdir' hopen' _ _)

end Sdmmc.Lemmas.VolCrashD
