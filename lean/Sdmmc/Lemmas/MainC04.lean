/-
Bridging lemmas for `Props/C04Main.lean` (several open volumes): what ONE call of a manager satisfying the multi-volume
invariant may write — the clauses of the headline theorem, each from the theorems of `Props.C04Multi` / `Props.C03Multi`.
-/
import Sdmmc.Props.C04Multi

namespace Sdmmc.Lemmas.MainC04
open Sdmmc.Model Sdmmc.Model.Fat Sdmmc.Spec.Volume
open Sdmmc.Spec hiding run step NoFault Coherent
open Sdmmc.Props
open Sdmmc.Props.C04Multi (workTarget)
open Sdmmc.Lemmas.WriteSetInv (LicenceFor Covers LicWF)

/-- A call that does not work on volume record `j` changes no block of the partition of volume `j` (`close_volume`
included: it works on the record carrying its handle). -/
theorem others_unchanged {s : Mgr} {ghs : List Ghost} (hI : VolInvN s ghs) (hm : MirrorN s ghs) (op : Op) {j : Nat}
    {vj : VolInfo} (hvj : s.vols[j]? = some vj) (hnt : workTarget s op ≠ some j) (b : Nat) (hb : InPartition vj.vol b) :
    (step s op).1.dev.disk.get b = s.dev.disk.get b := by
  refine C03Multi.writing_on_one_volume_never_changes_another s op ghs hI hm hvj ?_ ?_ b hb
  · intro ht
    exact hnt (C04Multi.workTarget_of_target ht)
  · intro v hop hv
    subst hop
    apply hnt
    rw [C04Multi.workTarget_closeVolume, ← hv]
    exact Lemmas.VolN.findIdx?_of_nodup hI.handles hvj

/-- The licence of a call on volume record `i` is well formed for the geometry of that volume: licensed FAT clusters are
clusters of the volume (never a slack entry of the last FAT sector), licensed slots are aligned slots of directory
blocks, the clusters of licensed file chains are data clusters. -/
theorem licence_wf {s : Mgr} {ghs : List Ghost} (hI : VolInvN s ghs) {i : Nat} {vi : VolInfo} {gh : Ghost}
    (hvi : s.vols[i]? = some vi) (hgh : ghs[i]? = some gh) {op : Op} {L : Licence}
    (hL : LicenceFor gh (volFiles s vi.rawVolume) (volDirs s vi.rawVolume) s.dev.disk op L) : LicWF gh.vol L := by
  have hP : VolInv (proj s i) gh := by rw [C03Multi.proj_def hvi]; exact Lemmas.VolN.volInv_proj hI hvi hgh
  obtain ⟨h1, h2, h3⟩ := C04Multi.proj_tables hvi
  apply Lemmas.WriteSetInv.licenceFor_wf hP
  rw [h1, h2, h3]
  exact hL

/-- A write of a call lies in the partition of no open volume other than the one the call works on. -/
theorem write_not_in_other {s : Mgr} {ghs : List Ghost} (hI : VolInvN s ghs) (hm : MirrorN s ghs) (op : Op)
    (w : Nat × Block) (hw : w ∈ (step s op).2.writes) {j : Nat} {vj : VolInfo} (hvj : s.vols[j]? = some vj)
    (hnt : workTarget s op ≠ some j) : ¬ InPartition vj.vol w.1 := by
  obtain ⟨i, vi, hwt, hvi, hin, _⟩ := C04Multi.step_stays_in_volume s op ghs hI hm w hw
  have hij : i ≠ j := fun e => hnt (e ▸ hwt)
  exact hI.parts i j vi vj hvi hvj hij w.1 hin

/-- The boot sector of a well-formed volume lies in its partition (the partition is not empty). -/
theorem boot_in_partition {v : FatVolume} (hg : WFGeom v) : InPartition v v.lbaStart := by
  obtain ⟨h1, h2, h3, _⟩ := Lemmas.FatLens.geom_facts v hg
  have := Lemmas.FatLens.fatsEnd_ge v hg
  unfold InPartition
  omega

/-- The geometry of an open volume record is well formed. -/
theorem vol_geom {s : Mgr} {ghs : List Ghost} (hI : VolInvN s ghs) {j : Nat} {vj : VolInfo} (hvj : s.vols[j]? = some vj) :
    WFGeom vj.vol := by
  have hlt : j < ghs.length := by rw [hI.len]; exact (List.getElem?_eq_some_iff.1 hvj).1
  have hgh : ghs[j]? = some ghs[j] := List.getElem?_eq_getElem hlt
  rw [hI.vols j vj _ hvj hgh]
  exact (hI.med j vj _ hvj hgh).geom

end Sdmmc.Lemmas.MainC04
