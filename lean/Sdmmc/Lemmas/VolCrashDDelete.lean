/-
Clause 5 of C10 at API level: `VolCrashXDelete.lean` restated for `CIXP P` (`delete` frees clusters and allocates none).
-/
import Sdmmc.Lemmas.VolCrashDApi
import Sdmmc.Lemmas.VolCrashXDelete

namespace Sdmmc.Lemmas.VolCrashD
open Sdmmc.Lemmas.VolCrash Sdmmc.Lemmas.VolCrashX
open Sdmmc.Model Sdmmc.Model.Fat Sdmmc.Spec.Volume
open Sdmmc.Spec hiding NoFault Coherent run step
open Sdmmc.Lemmas.FBasic
open Sdmmc.Lemmas.VolBase Sdmmc.Lemmas.VolTree Sdmmc.Lemmas.VolMed Sdmmc.Lemmas.VolDisk Sdmmc.Lemmas.VolEng
open Sdmmc.Lemmas.VolApi Sdmmc.Lemmas.CrashBase Sdmmc.Lemmas.CrashMgr Sdmmc.Lemmas.MHoare

/-! ### The engine level -/

section
variable {files : List FileInfo} {gh : Ghost}

/-- **The body of `delete_file_in_dir`**: `delete_directory_entry` followed by `free_cluster_chain` of the entry's
start cluster, for a file object `o` of the directory with the given name that no open file sits at.  Every crash
point is crash-consistent and `RawOKX` holds at the end. -/
theorem deleteBody_cixp {fs : FS} (hM : MedX fs.vol fs.dev.disk files gh [])
    (hR : RawOKX fs.vol.fatType fs.dev.disk files) (hU : ∀ c, isUsed fs.vol fs.dev.disk c → P c) (hn : NoFault fs) (hc : Coherent fs) {dc : Nat}
    (hv : ValidDir gh.dirs dc) (name : Bytes) (hname : name.head? ≠ some 0xE5) {o : Slot}
    (ho : o ∈ objects (dirIdOf dc) (dirSlots fs.vol fs.dev.disk gh.G (dirIdOf dc)))
    (hod : isDirE o = false) (hsn : sName o = name) (hfree : pendOf files o = none) :
    ∃ fs', (do Fat.deleteDirectoryEntry dc name; Fat.freeClusterChain (sCluster fs.vol.fatType o) : F Unit) fs = (.ok (), fs') ∧
      RawOKX fs.vol.fatType fs'.dev.disk files ∧ CrashAll (CIXP P fs.vol) fs fs' := by
  obtain ⟨hh, _⟩ := validDir_id hM hv
  obtain ⟨fs1, hrun1, hd1, hv1, hn1, hc1⟩ := delete_mark hM hn hc hv name hname (mem_entries_of_objects ho) hsn
  obtain ⟨b, off, hm, _⟩ := CrashDelete.deleteDirectoryEntry_ok dc name fs fs1 hn hc hM.geom hrun1
  have hR1 : RawOKX fs1.vol.fatType fs1.dev.disk files := by
    rw [hv1, hd1]; exact rawOKX_mark hM hR hh ho hfree
  have hci0 := cixp_of_medX hM hR (dirInit_of_used hM hU)
  rcases mark_med hM hh ho hod hfree with ⟨hc0, hM1⟩ | ⟨A, B, tail, hGeq, hM1⟩
  · rw [← hd1, ← hv1] at hM1
    have hU1 := used_same hM hv1 hM1 rfl hU
    have hci1 : CIXP P fs.vol fs1.dev.disk := by rw [← hv1]; exact cixp_of_medX hM1 hR1 (dirInit_of_used hM1 hU1)
    have hrun2 : freeClusterChain (sCluster fs.vol.fatType o) fs1 = (.ok (), fs1) := by rw [hc0]; rfl
    refine ⟨fs1, by rw [FBasic.bind_ok hrun1, hrun2], by rw [← hv1]; exact hR1, single_cixp hm.wlog hm.disk hci0 hci1⟩
  · rw [← hd1, ← hv1] at hM1
    have hU1 := used_of_med hM (by rw [hv1]; exact SameGeom.refl _) hM1 (fun c hc => by
      rw [hGeq]
      rw [hv1] at hc
      simp only [List.flatten_append, List.flatten_cons, List.flatten_nil, List.mem_append, List.append_nil] at hc ⊢
      tauto) hU
    have hci1 : CIXP P fs.vol fs1.dev.disk := by rw [← hv1]; exact cixp_of_medX hM1 hR1 (dirInit_of_used hM1 hU1)
    have hnr := extra_not_rawRef hM1 hR1
    obtain ⟨fs2, hrun2, hcr2, _⟩ := free_cixp hM1 hR1 (dirInit_of_used hM1 hU1) hn1 hc1 (A := A ++ B) (B := [])
      (tail := tail) (r := sCluster fs1.vol.fatType o) (by simp) hnr
    -- the frame of the release
    have hch : Chain fs1.vol fs1.dev.disk (sCluster fs1.vol.fatType o) (sCluster fs1.vol.fatType o :: tail) :=
      hM1.owns.1 _ (List.mem_append_right _ (List.mem_singleton.2 rfl))
    obtain ⟨fs3, hrun3, _, _, _, _, _, hframe⟩ := ForestTrunc.free_spec fs1 _ tail hn1 hc1 hM1.blocksOK hM1.geom hch
    have hfs : fs3 = fs2 := (Prod.mk.inj (hrun3.symm.trans hrun2)).2
    subst hfs
    have hR2 : RawOKX fs1.vol.fatType fs3.dev.disk files := by
      refine rawOKX_dirBlocks hM1 hR1 fun h hh' s hs => hframe.nonFat s.1 ?_
      rcases dirSlot_not_fat hM1 hh' hs with h1 | h1 <;> rw [h1] <;> intro e <;> cases e
    refine ⟨fs3, ?_, by rw [← hv1]; exact hR2, ?_⟩
    · rw [FBasic.bind_ok hrun1, ← hv1, hrun2]
    · refine CrashAll.trans (single_cixp hm.wlog hm.disk hci0 hci1) ?_
      rw [← hv1]
      exact hcr2

end

/-! ### The manager level -/

/-- The common prologue of the directory calls: whenever it fails the state is the start state. -/
theorem dirPrologue_callCXP {α : Type} (directory : Nat) (name : List Nat) (k : DirInfo → Nat → Bytes → M α)
    {s : Mgr} {gh : Ghost} (hI : VolInv s gh) (hR : RawOKX gh.vol.fatType s.dev.disk s.files) (hU : ∀ c, isUsed gh.vol s.dev.disk c → P c)
    (hk : ∀ d volIdx sfn, d ∈ s.dirs → s.vols.findIdx? (·.rawVolume = d.rawVolume) = some volIdx →
      Sfn.createFromStr name = .ok sfn → CallCXP P gh.vol s (k d volIdx sfn s).2) :
    CallCXP P gh.vol s ((getDirById directory >>= fun dirIdx => getDir dirIdx >>= fun d =>
      getVolumeById d.rawVolume >>= fun volIdx => toSfn name >>= fun sfn => k d volIdx sfn) s).2 := by
  have hci := cixp_start hI hR hU
  cases hidx : s.dirs.findIdx? (·.rawDirectory = directory) with
  | none => rw [bind_err (getDirById_bad hidx)]; exact callCXP_refl hci hR
  | some i =>
    obtain ⟨d, hd, _⟩ := findIdx?_some_get hidx
    rw [bind_ok (getDirById_ok hidx), bind_ok (getDir_ok hd)]
    cases hv : s.vols.findIdx? (·.rawVolume = d.rawVolume) with
    | none => rw [bind_err (getVolumeById_bad hv)]; exact callCXP_refl hci hR
    | some volIdx =>
      rw [bind_ok (getVolumeById_ok hv)]
      unfold toSfn
      cases hs : Sfn.createFromStr name with
      | ok sfn => exact hk d volIdx sfn (List.mem_of_getElem? hd) hv hs
      | error e => exact callCXP_refl hci hR

/-- **`delete_file_in_dir`**, whatever it answers (for a name whose short form does not start with 0xE5): every crash
point of the call leaves a crash-consistent medium, and the open files satisfy `RawOKX` afterwards. -/
theorem delete_callCXP {s : Mgr} {gh : Ghost} (hI : VolInv s gh) (hR : RawOKX gh.vol.fatType s.dev.disk s.files) (hU : ∀ c, isUsed gh.vol s.dev.disk c → P c)
    (directory : Nat) (name : List Nat) (hname : ∀ sfn, Sfn.createFromStr name = .ok sfn → sfn.head? ≠ some 0xE5) :
    CallCXP P gh.vol s (deleteFileInDir directory name s).2 := by
  have hci := cixp_start hI hR hU
  unfold deleteFileInDir
  refine dirPrologue_callCXP directory name _ hI hR hU fun d volIdx sfn hdm hv hsfn => ?_
  obtain ⟨h0, vi, hvs, hvol, hraw⟩ := vol_of_handle hI hv
  subst h0
  have hpv := hI.openDirs d hdm
  have hro := DirMgr.findDirectoryEntry_readOnly d.cluster sfn
  have h1 := withVol_ro_inv 0 _ hro hI
  have hw := withVol_one (Fat.findDirectoryEntry d.cluster sfn) hvs hvol
  obtain ⟨hn, hc, hM⟩ := volInv_fs hI
  obtain ⟨fs', hfind, hdisk, hwlog, hvol', _, _⟩ := find_spec hM hn hc hpv sfn (hname sfn hsfn)
  rw [hfind] at hw
  rw [bind_def]
  rcases hrun : withVol 0 (Fat.findDirectoryEntry d.cluster sfn) s with ⟨r, s1⟩
  rw [hrun] at h1 hw
  have hr : r = _ := congrArg Prod.fst hw
  have hs1 : s1 = _ := congrArg Prod.snd hw
  -- the lookup leaves the device alone
  have hsame : CallCXP P gh.vol s s1 := by
    rw [hs1]
    exact callCXP_same (s' := afterVol s vi fs') hwlog hdisk hci hR
  cases r with
  | ok e =>
    simp only
    by_cases hdir : Attr.isDirectory e.attributes = true
    · rw [if_pos hdir]; exact hsame
    rw [if_neg hdir, get_bind]
    by_cases hopen : fileIsOpen s1 d.rawVolume e = true
    · rw [if_pos hopen]; exact hsame
    rw [if_neg hopen]
    simp only at hr hs1
    subst hs1
    -- the entry found
    cases hfo : (entries (dirSlots (fsOf s gh).vol (fsOf s gh).dev.disk gh.G (dirIdOf d.cluster))).find?
        fun s => decide (sName s = sfn) with
    | none => rw [hfo] at hr; cases hr
    | some o =>
      rw [hfo] at hr
      have he : e = Listing.decode (fsOf s gh).vol.fatType o := Res.ok.inj hr
      have hom := List.mem_of_find?_eq_some hfo
      have hsn : sName o = sfn := by
        have := List.find?_some hfo
        simpa using this
      obtain ⟨hdn, hda, _, hdb, hdo, hdc⟩ := decode_fields (fsOf s gh).vol.fatType o
      have hod : isDirE o = false := by
        have : Attr.isDirectory (sAttr o) = false := by
          rw [← hda, ← he]
          simpa using hdir
        exact this
      have hattr : ¬ sAttr o / 16 % 2 = 1 := by
        unfold isDirE at hod
        exact of_decide_eq_false hod
      have hcl : e.cluster = sCluster (fsOf s gh).vol.fatType o := by
        rw [he, hdc, if_neg (fun h => hattr h.2)]
      -- the state after the lookup
      have hvols1 : (afterVol s vi fs').vols = [{ vi with vol := fs'.vol }] := rfl
      have hvol1 : ({ vi with vol := fs'.vol } : VolInfo).vol = gh.vol := hvol'
      have hv1 : (afterVol s vi fs').vols.findIdx? (·.rawVolume = d.rawVolume) = some 0 := by
        rw [hvols1]
        simp [hraw]
      rw [bind_ok (getVolumeById_ok hv1), withVol_one _ hvols1 hvol1]
      obtain ⟨hn1, hc1, hM1⟩ := volInv_fs h1
      have hdisk1 : (fsOf (afterVol s vi fs') gh).dev.disk = (fsOf s gh).dev.disk := hdisk
      have hvv1 : (fsOf (afterVol s vi fs') gh).vol = (fsOf s gh).vol := rfl
      obtain ⟨hid, _⟩ := validDir_id hM hpv
      have ho : o ∈ objects (dirIdOf d.cluster)
          (dirSlots (fsOf (afterVol s vi fs') gh).vol (fsOf (afterVol s vi fs') gh).dev.disk gh.G (dirIdOf d.cluster)) := by
        rw [hdisk1, hvv1]
        refine entry_object (ft := (fsOf s gh).vol.fatType) hom hod ?_
        intro hne
        rcases mem_dirIds.1 hid with e0 | ⟨p, hp⟩
        · exact absurd e0 hne
        · obtain ⟨s0, s1, rest, hss, hd0, hd1⟩ := hM.tree.dots _ p hp
          exact ⟨p, s0, s1, rest, hss, hd0, hd1⟩
      have hfree : pendOf (afterVol s vi fs').files o = none := by
        rw [pendOf_none_iff]
        intro g hg hk
        apply hopen
        unfold fileIsOpen
        rw [List.any_eq_true]
        obtain ⟨vi', hv', he'⟩ := h1.fileVols g hg
        rw [hvols1] at hv'
        cases hv'
        obtain ⟨hk1, hk2⟩ := Prod.mk.inj hk
        refine ⟨g, hg, ?_⟩
        simp only [decide_eq_true_eq]
        refine ⟨he'.trans hraw, ?_, ?_⟩
        · rw [he, hdb]; exact hk1
        · rw [he, hdo]; exact hk2
      have hR1 : RawOKX (fsOf (afterVol s vi fs') gh).vol.fatType (fsOf (afterVol s vi fs') gh).dev.disk
          (afterVol s vi fs').files := by
        rw [hdisk1]; exact hR
      have hU1 : ∀ c, isUsed (fsOf (afterVol s vi fs') gh).vol (fsOf (afterVol s vi fs') gh).dev.disk c → P c := by
        rw [hdisk1]; exact hU
      obtain ⟨fs2, hrun2, hR2, hcr2⟩ := deleteBody_cixp hM1 hR1 hU1 hn1 hc1 hpv sfn (hname sfn hsfn) ho hod hsn hfree
      rw [hcl, ← hvv1, hrun2]
      exact ⟨hsame.crash.trans (MCrash.of_fs hcr2 rfl rfl), hR2⟩
  | err e => exact hsame
  | panic m => exact hsame
  | diverged => exact hsame

end Sdmmc.Lemmas.VolCrashD
