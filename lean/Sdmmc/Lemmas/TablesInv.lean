/-
Lemmas for C08 (handles, open-object limits, re-entrancy lock), first half: the handle invariant
of the three tables of `Sdmmc.Model.Mgr` through every call and every history.
(`Sdmmc.Lemmas.Tables` has the second half: rejections, limits, guards.)

Part 1: which calls respect the frame of `Sdmmc.Lemmas.MHoare` (open and close nothing), proved
structurally, the FAT internals behind `withVol` never unfolded.
Part 2: `swap_remove`.
Part 3: the handle invariant through every call, by weakest preconditions; histories.
-/
import Sdmmc.Lemmas.MHoare

namespace Sdmmc.Lemmas.Tables
open Sdmmc.Model Sdmmc.Lemmas.MHoare

/-! ### Calls that open and close nothing -/

theorem resp_findDirectoryEntry (d : Nat) (name : List Nat) : Resp (findDirectoryEntry d name) := by
  unfold findDirectoryEntry; resp
theorem resp_iterateDir (d : Nat) : Resp (iterateDir d) := by unfold iterateDir; resp
theorem resp_iterateDirLfn (d n : Nat) : Resp (iterateDirLfn d n) := by unfold iterateDirLfn; resp
theorem resp_deleteFileInDir (d : Nat) (name : List Nat) : Resp (deleteFileInDir d name) := by
  unfold deleteFileInDir; resp
theorem resp_makeDirInDir (d : Nat) (name : List Nat) : Resp (makeDirInDir d name) := by
  unfold makeDirInDir; resp
theorem resp_flushFile (f : Nat) : Resp (flushFile f) := by unfold flushFile; resp
theorem resp_fileEof (f : Nat) : Resp (fileEof f) := by unfold fileEof; resp
theorem resp_fileLength (f : Nat) : Resp (fileLength f) := by unfold fileLength; resp
theorem resp_fileOffset (f : Nat) : Resp (fileOffset f) := by unfold fileOffset; resp

theorem resp_readLoop (fi vi so : Nat) : ∀ fuel space acc, Resp (readLoop fi vi so fuel space acc) := by
  intro fuel
  induction fuel with
  | zero => intro space acc; unfold readLoop; resp
  | succ n ih =>
    intro space acc; unfold readLoop
    resp
    exact ih _ _
theorem resp_read (f n : Nat) : Resp (Model.read f n) := by
  unfold Model.read
  resp
  exact resp_readLoop _ _ _ _ _ _


macro "resp_mod" : tactic => `(tactic| (apply resp_modifyFile; intro f; (try dsimp only [FileInfo.updateLength]); (repeat' split) <;> exact ⟨rfl, rfl⟩))

theorem resp_writeLoop (fi vi : Nat) : ∀ fuel buf, Resp (writeLoop fi vi fuel buf) := by
  intro fuel
  induction fuel with
  | zero => intro buf; unfold writeLoop; resp
  | succ n ih =>
    intro buf; unfold writeLoop
    resp
    · resp_mod
    · exact ih _
theorem resp_write (f : Nat) (b : Bytes) : Resp (write f b) := by
  unfold write
  resp
  any_goals exact resp_writeLoop _ _ _ _
  all_goals resp_mod

theorem seek_frame (g : FileInfo → Option FileInfo)
    (hg : ∀ f f', g f = some f' → f'.rawFile = f.rawFile ∧ f'.rawVolume = f.rawVolume) (file : Nat) :
    Resp (do let i ← getFileById file; let f ← getFile i
             match g f with
             | some f' => setFile i f'
             | none => M.fail .InvalidOffset) := by
  intro s
  cases hi : s.files.findIdx? (·.rawFile = file) with
  | none => rw [bind_err (getFileById_bad hi)]; exact Frame.refl s
  | some i =>
    rw [bind_ok (getFileById_ok hi)]
    obtain ⟨x, hx, _⟩ := findIdx?_some_get hi
    rw [bind_ok (getFile_ok hx)]
    cases hf' : g x with
    | some f' => exact resp_setFile_of s x hx (hg _ _ hf').1 (hg _ _ hf').2
    | none => exact Frame.refl s

theorem resp_seekStart (f n : Nat) : Resp (fileSeekFromStart f n) := by
  refine seek_frame (fun x => x.seekFromStart n) ?_ f
  intro x x' h
  unfold FileInfo.seekFromStart at h
  split at h
  · cases h
  · cases h; exact ⟨rfl, rfl⟩
theorem resp_seekEnd (f n : Nat) : Resp (fileSeekFromEnd f n) := by
  refine seek_frame (fun x => x.seekFromEnd n) ?_ f
  intro x x' h
  unfold FileInfo.seekFromEnd at h
  split at h
  · cases h
  · cases h; exact ⟨rfl, rfl⟩
theorem resp_seekCur (f : Nat) (n : Int) : Resp (fileSeekFromCurrent f n) := by
  refine seek_frame (fun x => x.seekFromCurrent n) ?_ f
  intro x x' h
  unfold FileInfo.seekFromCurrent at h
  dsimp only at h
  split at h
  · cases h
  · cases h; exact ⟨rfl, rfl⟩


/-! ### `swap_remove` -/

theorem swapRemove_of_ge {α} (l : List α) (i : Nat) (hi : l.length ≤ i) : swapRemove l i = l := by
  unfold swapRemove
  have : l[i]? = none := by simp [hi]
  rw [this]
  cases l.getLast? <;> rfl

/-- `swap_remove(i)` removes exactly the element at `i` (and reorders the rest). -/
theorem swapRemove_perm {α} (l : List α) (i : Nat) (hi : i < l.length) :
    (swapRemove l i).Perm (l.eraseIdx i) := by
  rcases List.eq_nil_or_concat l with rfl | ⟨init, last, rfl⟩
  · simp at hi
  · rw [List.concat_eq_append] at hi ⊢
    unfold swapRemove
    have h1 : (init ++ [last]).getLast? = some last := List.getLast?_concat
    have h2 : (init ++ [last])[i]? = some ((init ++ [last])[i]) := by simp
    rw [h1, h2]
    simp only [List.length_append, List.length_singleton, Nat.add_sub_cancel] at hi ⊢
    by_cases h : i = init.length
    · subst h
      rw [if_pos rfl, List.dropLast_concat]
      rw [List.eraseIdx_eq_take_drop_succ]
      simp
    · have hlt : i < init.length := by omega
      rw [if_neg h, List.set_append_left _ _ hlt, List.dropLast_concat,
        List.eraseIdx_append_of_lt_length hlt, List.set_eq_take_append_cons_drop, if_pos hlt,
        List.eraseIdx_eq_take_drop_succ]
      refine List.perm_middle.trans ?_
      exact (List.perm_append_comm (l₁ := [last])).trans (by simp)

theorem swapRemove_length {α} (l : List α) (i : Nat) (hi : i < l.length) :
    (swapRemove l i).length = l.length - 1 := by
  rw [(swapRemove_perm l i hi).length_eq, List.length_eraseIdx, if_pos hi]

theorem swapRemove_length_le {α} (l : List α) (i : Nat) : (swapRemove l i).length ≤ l.length := by
  by_cases hi : i < l.length
  · rw [swapRemove_length l i hi]; omega
  · rw [swapRemove_of_ge l i (by omega)]; exact Nat.le_refl _

/-- "a permutation of a sublist of" -/
def SubP {α} (a b : List α) : Prop := ∃ m, a.Perm m ∧ m.Sublist b

theorem SubP.refl {α} (a : List α) : SubP a a := ⟨a, List.Perm.refl a, List.Sublist.refl a⟩
theorem SubP.append {α} {a a' b b' : List α} (h1 : SubP a a') (h2 : SubP b b') : SubP (a ++ b) (a' ++ b') := by
  obtain ⟨m1, p1, s1⟩ := h1
  obtain ⟨m2, p2, s2⟩ := h2
  exact ⟨m1 ++ m2, p1.append p2, s1.append s2⟩
theorem SubP.nodup {α} {a b : List α} (h : SubP a b) (hb : b.Nodup) : a.Nodup := by
  obtain ⟨m, p, s⟩ := h
  exact p.nodup_iff.2 (hb.sublist s)
theorem SubP.mem {α} {a b : List α} (h : SubP a b) {x : α} (hx : x ∈ a) : x ∈ b := by
  obtain ⟨m, p, s⟩ := h
  exact s.subset (p.mem_iff.1 hx)

theorem swapRemove_map_subP {α β} (l : List α) (k : α → β) (i : Nat) : SubP ((swapRemove l i).map k) (l.map k) := by
  by_cases hi : i < l.length
  · exact ⟨(l.eraseIdx i).map k, (swapRemove_perm l i hi).map k, (List.eraseIdx_sublist l i).map k⟩
  · rw [swapRemove_of_ge l i (by omega)]; exact SubP.refl _

/-- With distinct keys, the key of the removed slot is gone. -/
theorem swapRemove_not_mem {α β} (l : List α) (k : α → β) (i : Nat) (x : α) (hx : l[i]? = some x)
    (hn : (l.map k).Nodup) : k x ∉ (swapRemove l i).map k := by
  have hi : i < l.length := by
    rcases Nat.lt_or_ge i l.length with h | h
    · exact h
    · simp [h] at hx
  intro hmem
  have h2 : k x ∈ (l.eraseIdx i).map k := ((swapRemove_perm l i hi).map k).mem_iff.1 hmem
  obtain ⟨y, hy, hky⟩ := List.mem_map.1 h2
  obtain ⟨j, hj, hne, hjy⟩ := List.mem_eraseIdx_iff_getElem.1 hy
  have hxi : l[i] = x := by simpa [hi] using hx
  have e : (l.map k)[j]'(by simpa using hj) = (l.map k)[i]'(by simpa using hi) := by
    simp [hjy, hxi, hky]
  exact hne ((List.getElem_inj hn).mp e)


/-! ### The handle invariant -/

/-- All open handles: volumes, directories, files. -/
def handles (s : Mgr) : List Nat :=
  s.vols.map (·.rawVolume) ++ s.dirs.map (·.rawDirectory) ++ s.files.map (·.rawFile)

/-- Same body as `Sdmmc.Props.C08.HInv`. -/
def HInv (s : Mgr) : Prop :=
  (handles s).Nodup ∧ (∀ h ∈ handles s, h < s.nextId) ∧
  s.vols.length ≤ s.maxVols ∧ s.dirs.length ≤ s.maxDirs ∧ s.files.length ≤ s.maxFiles

/-- The invariant relative to a call that started with handle set `H` and counter `n`: handles are
distinct, below `b`, old or equal to `n`; `rv/rd/rf` slots are known to be free. -/
structure HB (H : List Nat) (n b rv rd rf : Nat) (s : Mgr) : Prop where
  nodup : (handles s).Nodup
  lt : ∀ h ∈ handles s, h < b
  sub : ∀ h ∈ handles s, h ∈ H ∨ h = n
  cv : s.vols.length + rv ≤ s.maxVols
  cd : s.dirs.length + rd ≤ s.maxDirs
  cf : s.files.length + rf ≤ s.maxFiles

/-- A phase of a call: `HB` and the value of the counter. -/
def Ph (H : List Nat) (n b k rv rd rf : Nat) (s : Mgr) : Prop := HB H n b rv rd rf s ∧ s.nextId = k

/-- What holds of the state whenever a call returns, however it returns. -/
def St (H : List Nat) (n : Nat) (s : Mgr) : Prop :=
  HInv s ∧ n ≤ s.nextId ∧ s.nextId ≤ n + 1 ∧ ∀ h ∈ handles s, h ∈ H ∨ h = n

theorem frame_handles {a b : Mgr} (h : Frame a b) : handles b = handles a := by
  unfold Tables.handles
  rw [h.volHandles, h.dirs, h.fileIds]

theorem Ph_frame {H : List Nat} {n b k rv rd rf : Nat} {x y : Mgr} (h : Frame x y)
    (hp : Ph H n b k rv rd rf x) : Ph H n b k rv rd rf y := by
  obtain ⟨⟨h1, h2, h3, h4, h5, h6⟩, h7⟩ := hp
  refine ⟨⟨?_, ?_, ?_, ?_, ?_, ?_⟩, ?_⟩
  · rw [frame_handles h]; exact h1
  · rw [frame_handles h]; exact h2
  · rw [frame_handles h]; exact h3
  · rw [h.vols_length, h.maxVols]; exact h4
  · rw [h.dirs, h.maxDirs]; exact h5
  · rw [h.files_length, h.maxFiles]; exact h6
  · rw [h.nextId]; exact h7

theorem Ph_st {H : List Nat} {n b k rv rd rf : Nat} {s : Mgr} (hp : Ph H n b k rv rd rf s)
    (hb : b ≤ k) (h1 : n ≤ k) (h2 : k ≤ n + 1) : St H n s := by
  obtain ⟨⟨h1', h2', h3, h4, h5, h6⟩, h7⟩ := hp
  refine ⟨⟨h1', ?_, by omega, by omega, by omega⟩, by omega, by omega, h3⟩
  intro h hh
  have := h2' h hh
  omega

theorem Ph_start {s : Mgr} (h : HInv s) : Ph (handles s) s.nextId s.nextId s.nextId 0 0 0 s :=
  ⟨⟨h.1, h.2.1, fun _ hh => Or.inl hh, h.2.2.1, h.2.2.2.1, h.2.2.2.2⟩, rfl⟩

theorem Ph_room_v {H : List Nat} {n b k rd rf : Nat} {s : Mgr} (hp : Ph H n b k 0 rd rf s)
    (hc : ¬ s.vols.length ≥ s.maxVols) : Ph H n b k 1 rd rf s :=
  ⟨⟨hp.1.nodup, hp.1.lt, hp.1.sub, by omega, hp.1.cd, hp.1.cf⟩, hp.2⟩
theorem Ph_room_d {H : List Nat} {n b k rv rf : Nat} {s : Mgr} (hp : Ph H n b k rv 0 rf s)
    (hc : ¬ s.dirs.length ≥ s.maxDirs) : Ph H n b k rv 1 rf s :=
  ⟨⟨hp.1.nodup, hp.1.lt, hp.1.sub, hp.1.cv, by omega, hp.1.cf⟩, hp.2⟩
theorem Ph_room_f {H : List Nat} {n b k rv rd : Nat} {s : Mgr} (hp : Ph H n b k rv rd 0 s)
    (hc : ¬ s.files.length ≥ s.maxFiles) : Ph H n b k rv rd 1 s :=
  ⟨⟨hp.1.nodup, hp.1.lt, hp.1.sub, hp.1.cv, hp.1.cd, by omega⟩, hp.2⟩

/-- The handle generator, away from the wrap. -/
theorem Ph_generate {H : List Nat} {n rv rd rf : Nat} {s : Mgr} (hp : Ph H n n n rv rd rf s)
    (hn : n + 1 < 4294967296) :
    Ph H n n (n + 1) rv rd rf { s with nextId := (s.nextId + 1) % 4294967296 } := by
  refine ⟨⟨hp.1.nodup, hp.1.lt, hp.1.sub, hp.1.cv, hp.1.cd, hp.1.cf⟩, ?_⟩
  show (s.nextId + 1) % 4294967296 = n + 1
  rw [hp.2]; exact Nat.mod_eq_of_lt hn

theorem nodup_insert_fresh {a b c : List Nat} {n : Nat} (hn : (a ++ b ++ c).Nodup)
    (hlt : ∀ h ∈ a ++ b ++ c, h < n) : (a ++ [n] ++ b ++ c).Nodup ∧ (a ++ (b ++ [n]) ++ c).Nodup ∧
      (a ++ b ++ (c ++ [n])).Nodup := by
  have hfresh : n ∉ a ++ b ++ c := fun h => Nat.lt_irrefl _ (hlt n h)
  have key : ((a ++ b ++ c) ++ [n]).Nodup := by
    rw [List.nodup_append]
    refine ⟨hn, by simp, ?_⟩
    intro x hx y hy
    simp at hy; subst hy
    intro e; subst e; exact hfresh hx
  refine ⟨?_, ?_, ?_⟩
  · refine (List.Perm.nodup_iff ?_).2 key
    have : (a ++ [n] ++ b ++ c) = a ++ ([n] ++ (b ++ c)) := by simp
    rw [this]
    have : (a ++ b ++ c ++ [n]) = a ++ ((b ++ c) ++ [n]) := by simp
    rw [this]
    exact List.Perm.append (List.Perm.refl a) List.perm_append_comm
  · refine (List.Perm.nodup_iff ?_).2 key
    have : (a ++ (b ++ [n]) ++ c) = (a ++ b) ++ ([n] ++ c) := by simp
    rw [this]
    have : (a ++ b ++ c ++ [n]) = (a ++ b) ++ (c ++ [n]) := by simp
    rw [this]
    exact List.Perm.append (List.Perm.refl _) List.perm_append_comm
  · have : (a ++ b ++ (c ++ [n])) = a ++ b ++ c ++ [n] := by simp
    rw [this]; exact key

theorem mem_insert_fresh {a b c : List Nat} {n h : Nat} :
    (h ∈ a ++ [n] ++ b ++ c ↔ h ∈ a ++ b ++ c ∨ h = n) ∧
    (h ∈ a ++ (b ++ [n]) ++ c ↔ h ∈ a ++ b ++ c ∨ h = n) ∧
    (h ∈ a ++ b ++ (c ++ [n]) ↔ h ∈ a ++ b ++ c ∨ h = n) := by
  simp only [List.mem_append, List.mem_singleton]
  refine ⟨?_, ?_, ?_⟩ <;> constructor <;> intro hh <;> simp only [or_assoc] at hh ⊢ <;>
    (rcases hh with hh | hh | hh | hh <;> simp [hh])

theorem Ph_append_vol {H : List Nat} {n rd rf : Nat} {s : Mgr} (v : VolInfo)
    (hp : Ph H n n (n + 1) 1 rd rf s) (hv : v.rawVolume = n) :
    Ph H n (n + 1) (n + 1) 0 rd rf { s with vols := s.vols ++ [v] } := by
  obtain ⟨⟨h1, h2, h3, h4, h5, h6⟩, h7⟩ := hp
  have hh : handles { s with vols := s.vols ++ [v] } =
      s.vols.map (·.rawVolume) ++ [n] ++ s.dirs.map (·.rawDirectory) ++ s.files.map (·.rawFile) := by
    simp [handles, hv]
  refine ⟨⟨?_, ?_, ?_, ?_, h5, h6⟩, h7⟩
  · rw [hh]; exact (nodup_insert_fresh h1 h2).1
  · rw [hh]; intro h hm
    rcases mem_insert_fresh.1.1 hm with hm | hm
    · have := h2 h hm; omega
    · omega
  · rw [hh]; intro h hm
    rcases mem_insert_fresh.1.1 hm with hm | hm
    · exact h3 h hm
    · exact Or.inr hm
  · show (s.vols ++ [v]).length + 0 ≤ s.maxVols
    simp; omega

theorem Ph_append_dir {H : List Nat} {n rv rf : Nat} {s : Mgr} (d : DirInfo)
    (hp : Ph H n n (n + 1) rv 1 rf s) (hd : d.rawDirectory = n) :
    Ph H n (n + 1) (n + 1) rv 0 rf { s with dirs := s.dirs ++ [d] } := by
  obtain ⟨⟨h1, h2, h3, h4, h5, h6⟩, h7⟩ := hp
  have hh : handles { s with dirs := s.dirs ++ [d] } =
      s.vols.map (·.rawVolume) ++ (s.dirs.map (·.rawDirectory) ++ [n]) ++ s.files.map (·.rawFile) := by
    simp [handles, hd]
  refine ⟨⟨?_, ?_, ?_, h4, ?_, h6⟩, h7⟩
  · rw [hh]; exact (nodup_insert_fresh h1 h2).2.1
  · rw [hh]; intro h hm
    rcases mem_insert_fresh.2.1.1 hm with hm | hm
    · have := h2 h hm; omega
    · omega
  · rw [hh]; intro h hm
    rcases mem_insert_fresh.2.1.1 hm with hm | hm
    · exact h3 h hm
    · exact Or.inr hm
  · show (s.dirs ++ [d]).length + 0 ≤ s.maxDirs
    simp; omega

theorem Ph_append_file {H : List Nat} {n rv rd : Nat} {s : Mgr} (f : FileInfo)
    (hp : Ph H n n (n + 1) rv rd 1 s) (hf : f.rawFile = n) :
    Ph H n (n + 1) (n + 1) rv rd 0 { s with files := s.files ++ [f] } := by
  obtain ⟨⟨h1, h2, h3, h4, h5, h6⟩, h7⟩ := hp
  have hh : handles { s with files := s.files ++ [f] } =
      s.vols.map (·.rawVolume) ++ s.dirs.map (·.rawDirectory) ++ (s.files.map (·.rawFile) ++ [n]) := by
    simp [handles, hf]
  refine ⟨⟨?_, ?_, ?_, h4, h5, ?_⟩, h7⟩
  · rw [hh]; exact (nodup_insert_fresh h1 h2).2.2
  · rw [hh]; intro h hm
    rcases mem_insert_fresh.2.2.1 hm with hm | hm
    · have := h2 h hm; omega
    · omega
  · rw [hh]; intro h hm
    rcases mem_insert_fresh.2.2.1 hm with hm | hm
    · exact h3 h hm
    · exact Or.inr hm
  · show (s.files ++ [f]).length + 0 ≤ s.maxFiles
    simp; omega

/-- Closing (at any slot) keeps every phase. -/
theorem HB_of_subP {H : List Nat} {n b rv rd rf : Nat} {s s' : Mgr} (hp : HB H n b rv rd rf s)
    (hs : SubP (handles s') (handles s)) (hv : s'.vols.length ≤ s.vols.length) (hd : s'.dirs.length ≤ s.dirs.length)
    (hf : s'.files.length ≤ s.files.length) (h1 : s'.maxVols = s.maxVols) (h2 : s'.maxDirs = s.maxDirs)
    (h3 : s'.maxFiles = s.maxFiles) : HB H n b rv rd rf s' := by
  refine ⟨hs.nodup hp.nodup, fun h hh => hp.lt h (hs.mem hh), fun h hh => hp.sub h (hs.mem hh), ?_, ?_, ?_⟩
  · have := hp.cv; omega
  · have := hp.cd; omega
  · have := hp.cf; omega

theorem Ph_remove_vol {H : List Nat} {n b k rv rd rf : Nat} {s : Mgr} (i : Nat) (hp : Ph H n b k rv rd rf s) :
    Ph H n b k rv rd rf { s with vols := swapRemove s.vols i } :=
  ⟨HB_of_subP hp.1 (SubP.append (SubP.append (swapRemove_map_subP _ _ _) (SubP.refl _)) (SubP.refl _))
    (swapRemove_length_le _ _) (Nat.le_refl _) (Nat.le_refl _) rfl rfl rfl, hp.2⟩
theorem Ph_remove_dir {H : List Nat} {n b k rv rd rf : Nat} {s : Mgr} (i : Nat) (hp : Ph H n b k rv rd rf s) :
    Ph H n b k rv rd rf { s with dirs := swapRemove s.dirs i } :=
  ⟨HB_of_subP hp.1 (SubP.append (SubP.append (SubP.refl _) (swapRemove_map_subP _ _ _)) (SubP.refl _))
    (Nat.le_refl _) (swapRemove_length_le _ _) (Nat.le_refl _) rfl rfl rfl, hp.2⟩
theorem Ph_remove_file {H : List Nat} {n b k rv rd rf : Nat} {s : Mgr} (i : Nat) (hp : Ph H n b k rv rd rf s) :
    Ph H n b k rv rd rf { s with files := swapRemove s.files i } :=
  ⟨HB_of_subP hp.1 (SubP.append (SubP.append (SubP.refl _) (SubP.refl _)) (swapRemove_map_subP _ _ _))
    (Nat.le_refl _) (Nat.le_refl _) (swapRemove_length_le _ _) rfl rfl rfl, hp.2⟩

/-! ### wp rules for the table-changing primitives -/
section
variable {H : List Nat} {n : Nat}

theorem wp_generate_ph {α} {rv rd rf : Nat} {f : Nat → M α} {Q : Res α → Mgr → Prop} {s : Mgr}
    (hp : Ph H n n n rv rd rf s) (hn : n + 1 < 4294967296)
    (h : ∀ s', Ph H n n (n + 1) rv rd rf s' → wp (f n) Q s') : wp (generate >>= f) Q s := by
  apply wp_generate_bind
  rw [hp.2]
  have := Ph_generate hp hn
  rw [hp.2] at this
  exact h _ this

theorem wp_append_vol {α} {rd rf : Nat} {f : Unit → M α} {Q : Res α → Mgr → Prop} {s : Mgr} {v : VolInfo}
    (hp : Ph H n n (n + 1) 1 rd rf s) (hv : v.rawVolume = n)
    (h : ∀ s', Ph H n (n + 1) (n + 1) 0 rd rf s' → wp (f ()) Q s') :
    wp (M.modify (fun s => { s with vols := s.vols ++ [v] }) >>= f) Q s :=
  wp_modify_bind (h _ (Ph_append_vol v hp hv))

theorem wp_append_dir {α} {rv rf : Nat} {f : Unit → M α} {Q : Res α → Mgr → Prop} {s : Mgr} {d : DirInfo}
    (hp : Ph H n n (n + 1) rv 1 rf s) (hd : d.rawDirectory = n)
    (h : ∀ s', Ph H n (n + 1) (n + 1) rv 0 rf s' → wp (f ()) Q s') :
    wp (M.modify (fun s => { s with dirs := s.dirs ++ [d] }) >>= f) Q s :=
  wp_modify_bind (h _ (Ph_append_dir d hp hd))

theorem wp_append_file {α} {rv rd : Nat} {f : Unit → M α} {Q : Res α → Mgr → Prop} {s : Mgr} {x : FileInfo}
    (hp : Ph H n n (n + 1) rv rd 1 s) (hx : x.rawFile = n)
    (h : ∀ s', Ph H n (n + 1) (n + 1) rv rd 0 s' → wp (f ()) Q s') :
    wp (M.modify (fun s => { s with files := s.files ++ [x] }) >>= f) Q s :=
  wp_modify_bind (h _ (Ph_append_file x hp hx))

/-- The postcondition of a call that returns a new handle. -/
def newH (H : List Nat) (n : Nat) : Nat → Mgr → Prop := fun h s' => h = n ∧ Ph H n (n + 1) (n + 1) 0 0 0 s'
/-- The postcondition of a call that returns no handle. -/
def noH {α} : α → Mgr → Prop := fun _ _ => True

set_option hygiene false in
/-- A frame-respecting step inside a phase. -/
macro "wpr" : tactic => `(tactic|
  (refine wp_bind_resp (Ph _ _ _ _ _ _ _) (by resp) (by assumption) (fun _ _ => Ph_frame)
      (fun _ h => Ph_st h (by omega) (by omega) (by omega)) ?_
   intro _ s hP))

macro "wp_st" : tactic => `(tactic| exact Ph_st (by assumption) (by omega) (by omega) (by omega))

theorem spec_openRootDir (v : Nat) {s : Mgr} (hP : Ph H n n n 0 0 0 s) (hn : n + 1 < 4294967296) :
    wp (openRootDir v) (post (St H n) (newH H n)) s := by
  unfold openRootDir
  apply wp_generate_ph hP hn; intro s hP
  apply wp_get_bind
  apply wp_ite
  · intro _; exact wp_fail ⟨by wp_st, nofun⟩
  intro hc
  have hP := Ph_room_d hP hc
  apply wp_append_dir hP rfl; intro s hP
  exact wp_pure ⟨by wp_st, fun a h => by cases h; exact ⟨rfl, hP⟩⟩

theorem spec_openDir (p : Nat) (name : List Nat) {s : Mgr} (hP : Ph H n n n 0 0 0 s) (hn : n + 1 < 4294967296) :
    wp (openDir p name) (post (St H n) (newH H n)) s := by
  unfold openDir
  apply wp_get_bind
  apply wp_ite
  · intro _; exact wp_fail ⟨by wp_st, nofun⟩
  intro hc
  have hP := Ph_room_d hP hc
  wpr; wpr; wpr; wpr; wpr
  apply wp_ite
  · intro _
    apply wp_generate_ph hP hn; intro s hP
    apply wp_append_dir hP rfl; intro s hP
    exact wp_pure ⟨by wp_st, fun a h => by cases h; exact ⟨rfl, hP⟩⟩
  · intro _
    wpr
    apply wp_ite
    · intro _; exact wp_fail ⟨by wp_st, nofun⟩
    intro _
    apply wp_generate_ph hP hn; intro s hP
    apply wp_append_dir hP rfl; intro s hP
    exact wp_pure ⟨by wp_st, fun a h => by cases h; exact ⟨rfl, hP⟩⟩


theorem wp_modify {g : Mgr → Mgr} {Q : Res Unit → Mgr → Prop} {s : Mgr} (h : Q (.ok ()) (g s)) :
    wp (M.modify g) Q s := h
theorem wp_attempt_bind {α β} {m : M α} {f : Res α → M β} {Q : Res β → Mgr → Prop} {s : Mgr}
    (h : wp m (fun r s' => wp (f r) Q s') s) : wp (M.attempt m >>= f) Q s := h

/-- `close_dir` keeps whatever phase the call is in. -/
theorem spec_closeDir (d : Nat) {b k rv rd rf : Nat} {s : Mgr} (hP : Ph H n b k rv rd rf s) :
    wp (closeDir d) (fun _ s' => Ph H n b k rv rd rf s') s := by
  unfold closeDir
  apply wp_get_bind
  split
  · exact wp_modify (Ph_remove_dir _ hP)
  · exact wp_fail hP

theorem spec_closeVolume (v : Nat) {s : Mgr} (hP : Ph H n n n 0 0 0 s) :
    wp (closeVolume v) (post (St H n) noH) s := by
  unfold closeVolume
  apply wp_get_bind
  apply wp_ite
  · intro _; exact wp_fail ⟨by wp_st, nofun⟩
  intro _
  apply wp_ite
  · intro _; exact wp_fail ⟨by wp_st, nofun⟩
  intro _
  wpr; wpr
  exact wp_modify ⟨Ph_st (Ph_remove_vol _ hP) (by omega) (by omega) (by omega), fun _ _ => trivial⟩

theorem spec_closeFile (f : Nat) {s : Mgr} (hP : Ph H n n n 0 0 0 s) :
    wp (closeFile f) (post (St H n) noH) s := by
  unfold closeFile
  refine wp_attempt_bind_resp (Ph H n n n 0 0 0) (resp_flushFile f) hP (fun _ _ => Ph_frame) ?_
  intro r s hP
  wpr
  apply wp_modify_bind
  exact wp_lift ⟨Ph_st (Ph_remove_file _ hP) (by omega) (by omega) (by omega), fun _ _ => trivial⟩

/-- The cache read of `open_raw_volume` (no volume record yet). -/
def rdBlock (idx : Nat) : M Block := fun s =>
  let (r, fs) := (do cacheRead idx; cacheBlk : F Block) { dev := s.dev, cache := s.cache, vol := default }
  (r, { s with dev := fs.dev, cache := fs.cache })

theorem resp_rdBlock (idx : Nat) : Resp (rdBlock idx) := by
  intro s
  unfold rdBlock
  exact ⟨rfl, rfl, rfl, rfl, rfl, rfl, rfl, rfl, rfl, rfl⟩

macro_rules | `(tactic| resp_step) => `(tactic| with_reducible exact resp_rdBlock _)

/-- `openRawVolume` with its local cache-read helper named. -/
def openRawVolumeAlt (volumeIdx : Nat) : M Nat := do
  let s ← M.get
  if s.vols.length ≥ s.maxVols then M.fail .TooManyOpenVolumes else
  if s.vols.any (·.idx = volumeIdx) then M.fail .VolumeAlreadyOpen else
  let mbr ← rdBlock 0
  let (ptype, lbaStart, numBlocks) ← M.lift (parsePartition mbr volumeIdx)
  if !supportedPartitionType ptype then M.fail (.FormatError "Partition type not supported") else
  let bpb ← rdBlock lbaStart
  let v ← M.lift (parseVolumeBpb bpb lbaStart numBlocks)
  let v ← (match v.fatType with
    | .fat16 => pure v
    | .fat32 => do
      let info ← rdBlock v.infoLocation
      M.lift (parseVolumeInfo v info) : M FatVolume)
  let id ← generate
  M.modify fun s => { s with vols := s.vols ++ [{ rawVolume := id, idx := volumeIdx, vol := v }] }
  pure id

theorem openRawVolume_eq (i : Nat) : openRawVolume i = openRawVolumeAlt i := rfl

theorem spec_openRawVolume (i : Nat) {s : Mgr} (hP : Ph H n n n 0 0 0 s) (hn : n + 1 < 4294967296) :
    wp (openRawVolume i) (post (St H n) (newH H n)) s := by
  rw [openRawVolume_eq]
  unfold openRawVolumeAlt
  apply wp_get_bind
  apply wp_ite
  · intro _; exact wp_fail ⟨by wp_st, nofun⟩
  intro hc
  have hP := Ph_room_v hP hc
  apply wp_ite
  · intro _; exact wp_fail ⟨by wp_st, nofun⟩
  intro _
  wpr; wpr
  split
  apply wp_ite
  · intro _; exact wp_fail ⟨by wp_st, nofun⟩
  intro _
  wpr; wpr; wpr
  apply wp_generate_ph hP hn; intro s hP
  apply wp_append_vol hP rfl; intro s hP
  exact wp_pure ⟨by wp_st, fun a h => by cases h; exact ⟨rfl, hP⟩⟩


theorem wp_fail_bind {α β} {e : Err} {f : α → M β} {Q : Res β → Mgr → Prop} {s : Mgr} (h : Q (.err e) s) :
    wp (M.fail e >>= f) Q s := h

theorem spec_openFileInDir (d : Nat) (name : List Nat) (mode : Mode) {s : Mgr} (hP : Ph H n n n 0 0 0 s)
    (hn : n + 1 < 4294967296) : wp (openFileInDir d name mode) (post (St H n) (newH H n)) s := by
  unfold openFileInDir
  apply wp_get_bind
  apply wp_ite
  · intro _; exact wp_fail ⟨by wp_st, nofun⟩
  intro hc
  have hP := Ph_room_f hP hc
  wpr; wpr; wpr; wpr
  refine wp_attempt_bind_resp (Ph H n n n 0 0 1) (by resp) hP (fun _ _ => Ph_frame) ?_
  intro r s hP
  wpr
  apply wp_get_bind
  split
  · -- the name exists
    apply wp_ite
    · intro _; exact wp_fail_bind ⟨by wp_st, nofun⟩
    intro _
    dsimp only
    generalize solveModeVariant mode _ = m
    split
    · exact wp_fail ⟨by wp_st, nofun⟩
    · rename_i hh; cases hh
    · rename_i hh; cases hh
    · apply wp_ite
      · intro _; exact wp_fail ⟨by wp_st, nofun⟩
      intro _
      apply wp_ite
      · intro _; exact wp_fail ⟨by wp_st, nofun⟩
      intro _
      apply wp_ite
      · intro _; exact wp_fail ⟨by wp_st, nofun⟩
      intro _
      apply wp_generate_ph hP hn; intro s hP
      refine wp_bind (wp_mono
        (Q := post (St H n) (fun (file : FileInfo) s' => file.rawFile = n ∧ Ph H n n (n + 1) 0 0 1 s')) ?_ ?_)
      · split
        · exact wp_pure ⟨by wp_st, fun a h => by cases h; exact ⟨rfl, hP⟩⟩
        · exact wp_pure ⟨by wp_st, fun a h => by cases h; exact ⟨rfl, hP⟩⟩
        · wpr; wpr
          exact wp_pure ⟨by wp_st, fun a h => by cases h; exact ⟨rfl, hP⟩⟩
        · exact wp_fail ⟨by wp_st, nofun⟩
      · rintro r s ⟨hst, hok⟩
        refine ⟨hst, fun file e => ?_⟩
        obtain ⟨hf, hP⟩ := hok file e
        apply wp_append_file hP hf; intro s hP
        exact wp_pure ⟨by wp_st, fun a h => by cases h; exact ⟨rfl, hP⟩⟩
  · -- the name does not exist
    dsimp only
    generalize solveModeVariant mode _ = m
    split
    · rename_i hh; cases hh
    · wpr; wpr
      apply wp_generate_ph hP hn; intro s hP
      apply wp_append_file hP rfl; intro s hP
      exact wp_pure ⟨by wp_st, fun a h => by cases h; exact ⟨rfl, hP⟩⟩
    · exact wp_panic ⟨by wp_st, nofun⟩
    · rename_i hh; cases hh


theorem spec_getRootVolumeLabel (v : Nat) {s : Mgr} (hP : Ph H n n n 0 0 0 s) (hn : n + 1 < 4294967296) :
    wp (getRootVolumeLabel v) (post (St H n) noH) s := by
  unfold getRootVolumeLabel
  wpr; wpr
  apply wp_ite
  · intro _; exact wp_pure ⟨by wp_st, fun _ _ => trivial⟩
  intro _
  refine wp_bind (wp_mono (spec_openRootDir v hP hn) ?_)
  rintro r s ⟨hst, hok⟩
  refine ⟨hst, fun dir e => ?_⟩
  obtain ⟨_, hP⟩ := hok dir e
  refine wp_attempt_bind_resp (Ph H n (n + 1) (n + 1) 0 0 0) (resp_iterateDir dir) hP (fun _ _ => Ph_frame) ?_
  intro r s hP
  apply wp_attempt_bind
  refine wp_mono (spec_closeDir dir hP) ?_
  intro _ s hP
  wpr
  exact wp_pure ⟨by wp_st, fun _ _ => trivial⟩

/-- A frame-respecting call keeps the invariant and issues no handle. -/
theorem spec_of_resp {α} {m : M α} (hm : Resp m) {s : Mgr} (hP : Ph H n n n 0 0 0 s) :
    wp m (post (St H n) fun _ s' => s'.nextId = n) s :=
  wp_resp (Ph H n n n 0 0 0) hm hP (fun _ _ => Ph_frame)
    (fun _ h => Ph_st h (by omega) (by omega) (by omega)) (fun _ _ h => h.2)

/-- The summary of one call on the tables. -/
def OpPost (H : List Nat) (n : Nat) : Res Payload → Mgr → Prop :=
  post (St H n) fun p s' => ∀ h, p = .handle h → h = n ∧ s'.nextId = n + 1

theorem wp_map_handle {m : M Nat} {s : Mgr} (h : wp m (post (St H n) (newH H n)) s) :
    wp (do let h ← m; pure (Payload.handle h)) (OpPost H n) s := by
  apply wp_bind
  refine wp_mono h ?_
  rintro r s' ⟨hst, hok⟩
  refine ⟨hst, fun a e => ?_⟩
  obtain ⟨ha, hP⟩ := hok a e
  exact wp_pure ⟨hst, fun p hp h hh => by cases hp; cases hh; exact ⟨ha, hP.2⟩⟩

theorem wp_map_other {α} {m : M α} {g : α → Payload} (hg : ∀ a h, g a ≠ .handle h) {Φ : α → Mgr → Prop} {s : Mgr}
    (h : wp m (post (St H n) Φ) s) : wp (do let a ← m; pure (g a)) (OpPost H n) s := by
  apply wp_bind
  refine wp_mono h ?_
  rintro r s' ⟨hst, _⟩
  refine ⟨hst, fun a _ => ?_⟩
  exact wp_pure ⟨hst, fun p hp h hh => by cases hp; exact absurd hh (hg a h)⟩

theorem spec_runOp (op : Op) {s : Mgr} (hP : Ph H n n n 0 0 0 s) (hn : n + 1 < 4294967296) :
    wp (runOp op) (OpPost H n) s := by
  cases op <;> unfold runOp
  case openVolume i => exact wp_map_handle (spec_openRawVolume i hP hn)
  case openRoot v => exact wp_map_handle (spec_openRootDir v hP hn)
  case openDir d nm => exact wp_map_handle (spec_openDir d nm hP hn)
  case openFile d nm m => exact wp_map_handle (spec_openFileInDir d nm m hP hn)
  case closeVolume v => exact wp_map_other (by intros; simp) (spec_closeVolume v hP)
  case closeDir d =>
    refine wp_map_other (Φ := noH) (by intros; simp) (wp_mono (spec_closeDir d hP) ?_)
    intro _ s' h; exact ⟨by wp_st, fun _ _ => trivial⟩
  case closeFile f => exact wp_map_other (by intros; simp) (spec_closeFile f hP)
  case label v => exact wp_map_other (by intros; simp) (spec_getRootVolumeLabel v hP hn)
  case hasOpen => exact ⟨by wp_st, fun p hp h hh => by cases hp; cases hh⟩
  case read f k => exact wp_map_other (by intros; simp) (spec_of_resp (resp_read f k) hP)
  case write f b => exact wp_map_other (by intros; simp) (spec_of_resp (resp_write f b) hP)
  case seekStart f k => exact wp_map_other (by intros; simp) (spec_of_resp (resp_seekStart f k) hP)
  case seekCur f k => exact wp_map_other (by intros; simp) (spec_of_resp (resp_seekCur f k) hP)
  case seekEnd f k => exact wp_map_other (by intros; simp) (spec_of_resp (resp_seekEnd f k) hP)
  case flush f => exact wp_map_other (by intros; simp) (spec_of_resp (resp_flushFile f) hP)
  case delete d nm => exact wp_map_other (by intros; simp) (spec_of_resp (resp_deleteFileInDir d nm) hP)
  case mkdir d nm => exact wp_map_other (by intros; simp) (spec_of_resp (resp_makeDirInDir d nm) hP)
  case find d nm => exact wp_map_other (by intros; simp) (spec_of_resp (resp_findDirectoryEntry d nm) hP)
  case list d => exact wp_map_other (by intros; simp) (spec_of_resp (resp_iterateDir d) hP)
  case listLfn d k => exact wp_map_other (by intros; simp) (spec_of_resp (resp_iterateDirLfn d k) hP)
  case length f => exact wp_map_other (by intros; simp) (spec_of_resp (resp_fileLength f) hP)
  case offset f => exact wp_map_other (by intros; simp) (spec_of_resp (resp_fileOffset f) hP)
  case eof f => exact wp_map_other (by intros; simp) (spec_of_resp (resp_fileEof f) hP)

end

/-! ### One call, and histories -/

/-- Everything the table proofs say about one API call. -/
structure StepSpec (s : Mgr) (op : Op) : Prop where
  inv : HInv (step s op).1
  mono : s.nextId ≤ (step s op).1.nextId
  bound : (step s op).1.nextId ≤ s.nextId + 1
  sub : ∀ h ∈ handles (step s op).1, h ∈ handles s ∨ h = s.nextId
  fresh : ∀ h, (step s op).2.result = .ok (.handle h) → h = s.nextId ∧ (step s op).1.nextId = s.nextId + 1

theorem step_spec (s : Mgr) (op : Op) (hi : HInv s) (hn : s.nextId + 1 < 4294967296) : StepSpec s op := by
  cases hl : s.locked with
  | true =>
    have e : step s op = (s, (step s op).2) := by
      unfold step; rw [if_pos hl]; split <;> rfl
    have e2 : (step s op).2.result = .err .LockError ∨ ∃ m, (step s op).2.result = .panic m := by
      unfold step; rw [if_pos hl]; split
      · exact Or.inl rfl
      · exact Or.inr ⟨_, rfl⟩
    refine ⟨?_, ?_, ?_, ?_, ?_⟩
    · rw [e]; exact hi
    · rw [e]; exact Nat.le_refl _
    · rw [e]; exact Nat.le_succ _
    · rw [e]; exact fun h hh => Or.inl hh
    · intro h hh
      rcases e2 with e2 | ⟨m, e2⟩ <;> rw [e2] at hh <;> cases hh
  | false =>
    have hP : Ph (handles s) s.nextId s.nextId s.nextId 0 0 0 (resetLogs s) := Ph_frame (frame_resetLogs s) (Ph_start hi)
    obtain ⟨⟨h1, h2, h3, h4⟩, h5⟩ := spec_runOp op hP hn
    have e := step_unlocked s op hl
    refine ⟨?_, ?_, ?_, ?_, ?_⟩
    · rw [e]; exact h1
    · rw [e]; exact h2
    · rw [e]; exact h3
    · rw [e]; exact h4
    · rw [e]; exact fun h hh => h5 _ hh h rfl

theorem hinv_step (s : Mgr) (op : Op) (hi : HInv s) (hn : s.nextId + 1 < 4294967296) : HInv (step s op).1 :=
  (step_spec s op hi hn).inv

theorem run_nil (s : Mgr) : run s [] = (s, []) := rfl
theorem run_cons (s : Mgr) (op : Op) (ops : List Op) :
    run s (op :: ops) = ((run (step s op).1 ops).1, (step s op).2 :: (run (step s op).1 ops).2) := rfl

theorem run_spec (ops : List Op) : ∀ (s : Mgr), HInv s → s.nextId + ops.length < 4294967296 →
    HInv (run s ops).1 ∧ s.nextId ≤ (run s ops).1.nextId ∧ (run s ops).1.nextId ≤ s.nextId + ops.length ∧
    ∀ h ∈ handles (run s ops).1, h ∈ handles s ∨ s.nextId ≤ h := by
  induction ops with
  | nil => intro s hi _; exact ⟨hi, Nat.le_refl _, Nat.le_refl _, fun h hh => Or.inl hh⟩
  | cons op ops ih =>
    intro s hi hn
    simp only [List.length_cons] at hn
    have sp := step_spec s op hi (by omega)
    have := ih (step s op).1 sp.inv (by have := sp.bound; omega)
    obtain ⟨i1, i2, i3, i4⟩ := this
    rw [run_cons]
    refine ⟨i1, ?_, ?_, ?_⟩
    · exact Nat.le_trans sp.mono i2
    · have := sp.bound; simp only [List.length_cons]; omega
    · intro h hh
      rcases i4 h hh with h1 | h1
      · rcases sp.sub h h1 with h2 | h2
        · exact Or.inl h2
        · exact Or.inr (by omega)
      · exact Or.inr (Nat.le_trans sp.mono h1)

theorem hinv_run (s : Mgr) (ops : List Op) (hi : HInv s) (hn : s.nextId + ops.length < 4294967296) :
    HInv (run s ops).1 := (run_spec ops s hi hn).1

/-- A handle the library returns is the current counter value, hence not open anywhere. -/
theorem fresh_handle_distinct (s : Mgr) (op : Op) (h : Nat) (hi : HInv s) (hn : s.nextId + 1 < 4294967296)
    (hr : (step s op).2.result = .ok (.handle h)) : h = s.nextId ∧ h ∉ handles s := by
  have := (step_spec s op hi hn).fresh h hr
  refine ⟨this.1, fun hm => ?_⟩
  have := hi.2.1 h hm
  omega

/-- A handle that is not open and below the counter (e.g. a closed one) is never open again, as long as
the counter does not wrap. -/
theorem stale_never_reissued (s : Mgr) (ops : List Op) (h : Nat) (hi : HInv s)
    (hn : s.nextId + ops.length < 4294967296) (hlt : h < s.nextId) (hc : h ∉ handles s) :
    h ∉ handles (run s ops).1 := by
  intro hm
  rcases (run_spec ops s hi hn).2.2.2 h hm with h1 | h1
  · exact hc h1
  · omega

end Sdmmc.Lemmas.Tables
