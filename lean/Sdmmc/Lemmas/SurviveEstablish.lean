/-
C09 over whole histories, part 14: a successful `close_file` of a file that was written to ESTABLISHES `Kept` —
the state after the call shows the flushed file as an object of the directory the file sat in, with no handle left
at its slot (`close_kept`).
-/
import Sdmmc.Lemmas.SurviveFinal
import Sdmmc.Lemmas.TablesInv

namespace Sdmmc.Lemmas.Survive
open Sdmmc.Model Sdmmc.Model.Fat Sdmmc.Spec.Volume Sdmmc.Lemmas.VolBase Sdmmc.Lemmas.VolTree
open Sdmmc.Spec hiding NoFault Coherent
open Sdmmc.Lemmas.VolDisk Sdmmc.Lemmas.VolMed Sdmmc.Lemmas.VolEng
open Sdmmc.Lemmas.WriteSetInv
open Sdmmc.Lemmas.AbsFs (Abs FileRel metaOf contentOf FsCovered)
open Sdmmc.Lemmas.SurviveAbs (KeepsA QuietA)
open Sdmmc.Spec.AbsFs (AbsFs OpenFile closeFileS flushF fileOf fileIdx setSlot put storedMeta)

/-! ### `close_file` of the abstract file system, when it succeeds on a handle that was written to -/

theorem storedMeta_name (m : Spec.AbsFs.Meta) : (storedMeta m).name = m.name := by
  cases m; unfold storedMeta; rfl

theorem fileOf_idx {a : AbsFs} {hd i : Nat} {af : OpenFile} (hf : fileOf a hd = some (i, af)) : fileIdx a hd = some i := by
  unfold fileOf at hf
  cases hi : fileIdx a hd with
  | none => rw [hi] at hf; cases hf
  | some k =>
    rw [hi] at hf
    dsimp only at hf
    cases hk : a.files[k]? with
    | none => rw [hk] at hf; cases hf
    | some g =>
      rw [hk] at hf
      simp only [Option.map_some, Option.some.injEq, Prod.mk.injEq] at hf
      rw [hf.1]

theorem flushF_ok {a : AbsFs} {hd i : Nat} {af : OpenFile} (hf : fileOf a hd = some (i, af)) (hdirty : af.dirty = true)
    (hr : (flushF a hd).2 = .ok .unit) :
    ∃ m0 bytes, (a.slots af.dir)[af.idx]? = some (.file m0 bytes) ∧
      (flushF a hd).1 = setSlot a af.dir af.idx (.file (storedMeta af.pm) bytes) := by
  unfold flushF at hr ⊢
  rw [hf] at hr ⊢
  dsimp only at hr ⊢
  rw [hdirty] at hr ⊢
  simp only [Bool.not_true, Bool.false_eq_true, if_false] at hr ⊢
  by_cases hv : (!Spec.AbsFs.volOpen a af.volume) = true
  · rw [if_pos hv] at hr; cases hr
  · rw [if_neg hv] at hr ⊢
    cases hsl : (a.slots af.dir)[af.idx]? with
    | none => rw [hsl] at hr; cases hr
    | some sl =>
      rw [hsl] at hr
      cases sl with
      | file m0 bytes => exact ⟨m0, bytes, rfl, rfl⟩
      | deleted => cases hr
      | frag raw => cases hr
      | dir m t => cases hr

theorem closeFileS_ok {a a' : AbsFs} {hd : Nat} (h : closeFileS a hd a' (.ok .unit)) {i : Nat} {af : OpenFile}
    (hf : fileOf a hd = some (i, af)) (hdirty : af.dirty = true) :
    ∃ m0 bytes, (a.slots af.dir)[af.idx]? = some (.file m0 bytes) ∧
      (a'.slots af.dir)[af.idx]? = some (.file (storedMeta af.pm) bytes) ∧ a'.files = swapRemove a.files i ∧
      a'.ids = a.ids := by
  unfold closeFileS at h
  rw [fileOf_idx hf] at h
  dsimp only at h
  obtain ⟨ha', hr⟩ := h
  obtain ⟨m0, bytes, hsl, hfl⟩ := flushF_ok hf hdirty hr.symm
  refine ⟨m0, bytes, hsl, ?_, by rw [ha'], ?_⟩
  · rw [ha']
    show (((flushF a hd).1).slots af.dir)[af.idx]? = _
    rw [hfl]
    unfold setSlot put
    dsimp only
    rw [if_pos rfl, if_pos (List.getElem?_eq_some_iff.1 hsl).1, List.getElem?_set_self (List.getElem?_eq_some_iff.1 hsl).1]
  · rw [ha']
    show ((flushF a hd).1).ids = _
    rw [hfl]
    rfl

theorem closeFile_licence_fat {gh : Ghost} {files : List FileInfo} {dirs : List DirInfo} {d : Disk} {hd : Nat} {L : Licence}
    (h : LicenceFor gh files dirs d (.closeFile hd) L) : L.fatClusters = [] := by
  cases h with
  | nothing => rfl
  | closeFile _ f hf hh hdirty => rfl

/-! ### `close_file` establishes `Kept` -/

/-- **A successful `close_file` of a file that was written to establishes `Kept`**: under the invariant (FAT copies
identical), closing the handle `hd` of the open file `f` (written to) answers `Ok`, and the state after the call shows
the flushed file — entry `f.entry`, chain `chainOf gh.G f.entry.cluster` — as an object of the directory `h` the file
sat in, no handle left at its slot. -/
theorem close_kept {v0 : FatVolume} {s : Mgr} {gh : Ghost} (hI : VolInv s gh) (hm : Mirror gh.vol s.dev.disk)
    (hg : SameGeom v0 gh.vol) {hd i : Nat} {f : FileInfo} (hidx : s.files.findIdx? (·.rawFile = hd) = some i)
    (hf : s.files[i]? = some f) (hdirty : f.dirty = true) :
    (step s (.closeFile hd)).2.result = .ok .unit ∧
    ∃ h gh1, (∃ o, o ∈ objects h (dirSlots gh.vol s.dev.disk gh.G h) ∧ spos o = fkey f) ∧ h ∈ dirIds gh.dirs ∧
      Kept v0 f.entry (chainOf gh.G f.entry.cluster) h (step s (.closeFile hd)).1 gh1 ∧
      ∀ g, g ∈ (step s (.closeFile hd)).1.files → fkey g ≠ fkey f := by
  have hM := medX_of_med hI.med
  have hfm : f ∈ s.files := List.mem_of_getElem? hf
  obtain ⟨hres, hFl, _⟩ := close_step_flushed hI hidx hf hdirty
  refine ⟨hres, ?_⟩
  obtain ⟨hst, hn0, hn5, hlfn, hplain, _⟩ := file_entry_facts hI hfm
  -- the abstract side
  obtain ⟨a, hA⟩ := AbsFs.abs_total hI
  obtain ⟨gh1, a1, hI1, hg1, hA1, hstep⟩ := AbsFs.fs_step_refines v0 hI hA hg (.closeFile hd) trivial
  have hgg : SameGeom gh.vol gh1.vol := hg.symm.trans hg1
  rw [hres] at hstep
  have hstep' : closeFileS a hd a1 (.ok .unit) := by
    unfold Spec.AbsFs.absStep at hstep
    rw [if_neg (by rw [hA.locked, hI.unlocked]; exact Bool.false_ne_true)] at hstep
    exact hstep
  -- the abstract record of `f`
  have hfidx : fileIdx a hd = some i := by
    rw [AbsFs.fileIdx_abs hA hd]; exact hidx
  obtain ⟨af, haf, hrel⟩ := AbsFs.forall₂_right hA.files hf
  have hfo : fileOf a hd = some (i, af) := by
    unfold fileOf
    rw [hfidx]
    dsimp only
    rw [haf]
    rfl
  obtain ⟨m0, bytes, hsl0, hsl1, hfiles1, hids1⟩ := closeFileS_ok hstep' hfo (hrel.dirty.trans hdirty)
  obtain ⟨o, ho, hpo⟩ := hrel.slot
  obtain ⟨hoobj, _, _, _, _, _⟩ := AbsFs.open_file_object hM hfm hrel.dirMem ho hpo
  refine ⟨af.dir, gh1, ⟨o, hoobj, hpo⟩, hrel.dirMem, ?_⟩
  -- no handle is left at the slot
  have hnone : ∀ af', af' ∈ a1.files → af'.dir = af.dir → af'.idx = af.idx → False := by
    intro af' haf' h1 h2
    rw [hfiles1] at haf'
    have hilt : i < a.files.length := (List.getElem?_eq_some_iff.1 haf).1
    have hmem := (Tables.swapRemove_perm a.files i hilt).mem_iff.1 haf'
    obtain ⟨k, hki, hk⟩ := List.mem_eraseIdx_iff_getElem?.1 hmem
    obtain ⟨fk, hfk, hrelk⟩ : ∃ fk, s.files[k]? = some fk ∧ FileRel s gh af' fk := by
      rcases AbsFs.forall₂_getElem? hA.files k with ⟨hnone, _⟩ | ⟨x, y, g1, g2, hr⟩
      · rw [hnone] at hk; cases hk
      · rw [g1] at hk; injection hk with hk; subst hk; exact ⟨y, g2, hr⟩
    obtain ⟨o', ho', hpo'⟩ := hrelk.slot
    rw [h1, h2, ho] at ho'
    injection ho' with ho'
    subst ho'
    have hkeys : (s.files.map fkey)[k]? = (s.files.map fkey)[i]? := by
      rw [List.getElem?_map, List.getElem?_map, hfk, hf]
      show some (fkey fk) = some (fkey f)
      rw [← hpo', ← hpo]
    have hklt : k < (s.files.map fkey).length := by
      rw [List.length_map]; exact (List.getElem?_eq_some_iff.1 hfk).1
    exact hki ((List.getElem?_inj hklt hI.med.tree.filesDistinct).1 hkeys)
  have hk1 : KeepsA a1 af.dir af.idx (storedMeta af.pm) bytes :=
    ⟨by rw [hids1, hA.ids]; exact hrel.dirMem, hsl1, fun af' haf' h1 h2 => (hnone af' haf' h1 h2).elim⟩
  have hh1 : af.dir ∈ dirIds gh1.dirs := by rw [← hA1.ids]; exact hk1.ids
  -- the licence of the call names no FAT entry
  obtain ⟨L, hSL⟩ := step_callOK hI hm (.closeFile hd) trivial
  have hfat : L.fatClusters = [] := closeFile_licence_fat hSL.lic
  have hwf : LicWF gh.vol L := licenceFor_wf hI hSL.lic
  have hF : ∀ b i', ¬ Covers gh.vol L b i' →
      ((step s (.closeFile hd)).1.dev.disk.get b).getD i' 0 = (s.dev.disk.get b).getD i' 0 := by
    intro b i' hcov
    rw [hSL.disk b]
    exact allLicensed_frame hcov _ _ hSL.all
  -- the directory's chain has only grown
  have hpre : dirChain gh.vol gh.G af.dir <+: dirChain gh1.vol gh1.G af.dir := by
    rw [dirChain_sameGeom hgg]
    by_cases hfx : isFixedRoot gh.vol af.dir
    · unfold dirChain; rw [if_pos hfx, if_pos hfx]; exact List.prefix_refl _
    · have hf' : ¬ isFixedRoot gh1.vol af.dir := by unfold isFixedRoot at hfx ⊢; rw [hgg.fatType]; exact hfx
      have hM1 := medX_of_med hI1.med
      obtain ⟨m1, d1⟩ := dirChain_spec hM hrel.dirMem hfx
      obtain ⟨m2, d2⟩ := dirChain_spec hM1 hh1 hf'
      have c1 := med_chain hM m1
      have c2 := med_chain hM1 m2
      rw [headD_of_head? d1] at c1
      rw [headD_of_head? d2] at c2
      have c2' : Chain gh.vol (step s (.closeFile hd)).1.dev.disk (dirHead gh.vol af.dir) (chainOf gh1.G (dirHead gh.vol af.dir)) := by
        have := ForestBase.chain_sameGeom hgg.symm c2
        have hdh : dirHead gh1.vol af.dir = dirHead gh.vol af.dir := by
          obtain ⟨x, y, hv⟩ := hgg
          rw [hv]; rfl
        rw [hdh] at this
        exact this
      have hdc1 : dirChain gh.vol gh.G af.dir = chainOf gh.G (dirHead gh.vol af.dir) := by unfold dirChain; rw [if_neg hfx]
      have hdc2 : dirChain gh.vol gh1.G af.dir = chainOf gh1.G (dirHead gh.vol af.dir) := by unfold dirChain; rw [if_neg hfx]
      rw [hdc1, hdc2]
      refine chain_prefix c1 c2' fun c hc => ?_
      have hcr : InRange gh.vol c := med_inRange hM m1 (List.dropLast_subset _ hc)
      exact ForestBase.nextOf_congr rfl (fatRaw_of_frame hI.med.geom hwf hF hcr (by rw [hfat]; exact List.not_mem_nil))
  -- the slot, with its new bytes, in its directory
  have hxm1 : slotOf gh.vol.fatType f.entry ∈ dirSlots gh1.vol (step s (.closeFile hd)).1.dev.disk gh1.G af.dir := by
    refine mem_dirSlots_at hgg (AbsFs.mem_of_beforeEnd_getElem? ho) hpo.symm ?_ hpre
    show slice ((step s (.closeFile hd)).1.dev.disk.get f.entry.entryBlock) f.entry.entryOffset 32 = f.entry.serialize gh.vol.fatType
    exact hFl.slot
  obtain ⟨hsn, hfi, _, _, _⟩ := slotOf_fields gh.vol.fatType f.entry hst
  have hobj1 : Obj (step s (.closeFile hd)).1 gh1 af.dir (slotOf gh.vol.fatType f.entry) ∧
      (beforeEnd (dirSlots gh1.vol (step s (.closeFile hd)).1.dev.disk gh1.G af.dir))[af.idx]? = some (slotOf gh.vol.fatType f.entry) := by
    refine obj_of_keepsA hI1 hA1 hk1 hxm1 (by rw [hfi]; exact hn0) (slotOf_keep _ _ hst hn5 hlfn) ?_ ?_
    · rw [slotOf_isDir _ _ hst]; exact hplain
    · rw [hsn, storedMeta_name, hrel.pm]; rfl
  refine ⟨⟨hI1, (hgg.mirror _).2 hSL.mirror, hg1, FlushedOn.sameGeom hg.symm hFl, by rw [← hg.fatType]; exact hobj1.1⟩, ?_⟩
  -- no handle is left at the slot
  intro g hgm hkey
  obtain ⟨ag, hag, hrelg⟩ := forall₂_right' hA1.files hgm
  obtain ⟨o', ho', hp'⟩ := hrelg.slot
  have hM1 := medX_of_med hI1.med
  obtain ⟨e1, e2⟩ := AbsFs.slot_unique hM1 hrelg.dirMem hh1 (AbsFs.mem_of_beforeEnd_getElem? ho')
    (AbsFs.mem_of_beforeEnd_getElem? hobj1.2) (hp'.trans hkey)
  subst e2
  rw [e1] at ho'
  have hnd := beforeEnd_nodup (dirSlots_pos_nodup hM1 hh1 (step s (.closeFile hd)).1.dev.disk)
  have hlt : ag.idx < (Spec.Volume.beforeEnd (dirSlots gh1.vol (step s (.closeFile hd)).1.dev.disk gh1.G af.dir)).length :=
    (List.getElem?_eq_some_iff.1 ho').1
  exact hnone ag hag e1 ((List.getElem?_inj hlt hnd).1 (ho'.trans hobj1.2.symm))

end Sdmmc.Lemmas.Survive
