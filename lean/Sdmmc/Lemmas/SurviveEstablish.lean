/-
C09 over whole histories, part 14: a successful `close_file` of a file that was written to ESTABLISHES `Kept` —
the state after the call shows the flushed file as an object of the directory the file sat in, with no handle left
at its slot (`close_kept`).
-/
import Sdmmc.Lemmas.SurviveFinal
import Sdmmc.Lemmas.TablesInv

namespace Sdmmc.Lemmas.Survive
open Sdmmc.Model Sdmmc.Model.Fat Sdmmc.Spec.Volume Sdmmc.Lemmas.VolBase Sdmmc.Lemmas.VolTree
open Sdmmc.Spec hiding NoFault Coherent
open Sdmmc.Lemmas.VolDisk Sdmmc.Lemmas.VolMed Sdmmc.Lemmas.VolEng
open Sdmmc.Lemmas.WriteSetInv
open Sdmmc.Lemmas.AbsFs (Abs FileRel metaOf contentOf FsCovered)
open Sdmmc.Lemmas.SurviveAbs (KeepsA QuietA)
open Sdmmc.Spec.AbsFs (AbsFs OpenFile closeFileS flushF fileOf fileIdx setSlot put storedMeta)

/-! ### `close_file` of the abstract file system, when it succeeds on a handle that was written to -/

theorem storedMeta_name (m : Spec.AbsFs.Meta) : (storedMeta m).name = m.name := by
  cases m; unfold storedMeta; rfl

theorem fileOf_idx {a : AbsFs} {hd i : Nat} {af : OpenFile} (hf : fileOf a hd = some (i, af)) : fileIdx a hd = some i := by
  unfold fileOf at hf
  cases hi : fileIdx a hd with
  | none => rw [hi] at hf; cases hf
  | some k =>
    rw [hi] at hf
    dsimp only at hf
    cases hk : a.files[k]? with
    | none => rw [hk] at hf; cases hf
    | some g =>
      rw [hk] at hf
      simp only [Option.map_some, Option.some.injEq, Prod.mk.injEq] at hf
      rw [hf.1]

theorem flushF_ok {a : AbsFs} {hd i : Nat} {af : OpenFile} (hf : fileOf a hd = some (i, af)) (hdirty : af.dirty = true)
    (hr : (flushF a hd).2 = .ok .unit) :
    ∃ m0 bytes, (a.slots af.dir)[af.idx]? = some (.file m0 bytes) ∧
      (flushF a hd).1 = setSlot a af.dir af.idx (.file (storedMeta af.pm) bytes) := by
  unfold flushF at hr ⊢
  rw [hf] at hr ⊢
  dsimp only at hr ⊢
  rw [hdirty] at hr ⊢
  simp only [Bool.not_true, Bool.false_eq_true, if_false] at hr ⊢
  by_cases hv : (!Spec.AbsFs.volOpen a af.volume) = true
  · rw [if_pos hv] at hr; cases hr
  · rw [if_neg hv] at hr ⊢
    cases hsl : (a.slots af.dir)[af.idx]? with
    | none => rw [hsl] at hr; cases hr
    | some sl =>
      rw [hsl] at hr
      cases sl with
      | file m0 bytes => exact ⟨m0, bytes, rfl, rfl⟩
      | deleted => cases hr
      | frag raw => cases hr
      | dir m t => cases hr

theorem closeFileS_ok {a a' : AbsFs} {hd : Nat} (h : closeFileS a hd a' (.ok .unit)) {i : Nat} {af : OpenFile}
    (hf : fileOf a hd = some (i, af)) (hdirty : af.dirty = true) :
    ∃ m0 bytes, (a.slots af.dir)[af.idx]? = some (.file m0 bytes) ∧
      (a'.slots af.dir)[af.idx]? = some (.file (storedMeta af.pm) bytes) ∧ a'.files = swapRemove a.files i ∧
      a'.ids = a.ids := by
  unfold closeFileS at h
  rw [fileOf_idx hf] at h
  dsimp only at h
  obtain ⟨ha', hr⟩ := h
  obtain ⟨m0, bytes, hsl, hfl⟩ := flushF_ok hf hdirty hr.symm
  refine ⟨m0, bytes, hsl, ?_, by rw [ha'], ?_⟩
  · rw [ha']
    show (((flushF a hd).1).slots af.dir)[af.idx]? = _
    rw [hfl]
    unfold setSlot put
    dsimp only
    rw [if_pos rfl, if_pos (List.getElem?_eq_some_iff.1 hsl).1, List.getElem?_set_self (List.getElem?_eq_some_iff.1 hsl).1]
  · rw [ha']
    show ((flushF a hd).1).ids = _
    rw [hfl]
    rfl

theorem closeFile_licence_fat {gh : Ghost} {files : List FileInfo} {dirs : List DirInfo} {d : Disk} {hd : Nat} {L : Licence}
    (h : LicenceFor gh files dirs d (.closeFile hd) L) : L.fatClusters = [] := by
  cases h with
  | nothing => rfl
  | closeFile _ f hf hh hdirty i hidx hfi => rfl

/-! ### `flush_file` / `close_file` establish `Kept` -/

/-- The common part: after a successful `flush_file` / `close_file` of the dirty file `f` (abstract record `af`), if the
abstract state after the call has the stored entry in the slot and every handle at the slot is clean or satisfies `P`,
where `P` of a handle's pending entry means that its record is `f.entry` and the file owns a cluster, the state after
the call is `Kept`. -/
theorem establish_kept {v0 : FatVolume} {s : Mgr} {gh : Ghost} (hI : VolInv s gh) (hm : Mirror gh.vol s.dev.disk)
    (hraw : RawOK gh.vol.fatType s.dev.disk s.files) (hg : SameGeom v0 gh.vol) {hd i : Nat} {f : FileInfo}
    (hidx : s.files.findIdx? (·.rawFile = hd) = some i) (hf : s.files[i]? = some f) (hdirty : f.dirty = true) {op : Op}
    (hop : op = .flush hd ∨ op = .closeFile hd)
    (hFl : FlushedOn gh.vol (step s op).1.dev.disk f.entry (chainOf gh.G f.entry.cluster))
    {gh1 : Ghost} {a1 : AbsFs} (hI1 : VolInv (step s op).1 gh1) (hg1 : SameGeom v0 gh1.vol) (hA1 : Abs (step s op).1 gh1 a1)
    {af : OpenFile} (hdir : af.dir ∈ dirIds gh.dirs) {o : Slot}
    (ho : (beforeEnd (dirSlots gh.vol s.dev.disk gh.G af.dir))[af.idx]? = some o) (hpo : spos o = fkey f)
    (hpm : af.pm = Spec.AbsFs.view f.entry) {bytes : Bytes} {P : Spec.AbsFs.Meta → Prop}
    (hk1 : KeepsA a1 af.dir af.idx (storedMeta af.pm) bytes P)
    (hP : ∀ g, g ∈ (step s op).1.files → fkey g = fkey f → P (Spec.AbsFs.view g.entry) → g.entry = f.entry ∧ f.entry.cluster ≠ 0)
    {ys : List Slot} (hPath : PathOn gh.vol.fatType gh.dirs (dirSlots gh.vol s.dev.disk gh.G) 0 ys af.dir)
    (hPN : ∀ y, y ∈ ys → sName y ≠ Sfn.thisDir ∧ sName y ≠ Sfn.parentDir) :
    Kept v0 f.entry (chainOf gh.G f.entry.cluster) ys af.dir (step s op).1 gh1 ∧
    (beforeEnd (dirSlots gh1.vol (step s op).1.dev.disk gh1.G af.dir))[af.idx]? = some (slotOf gh.vol.fatType f.entry) := by
  have hM := medX_of_med hI.med
  have hfm : f ∈ s.files := List.mem_of_getElem? hf
  obtain ⟨hst, hn0, hn5, hlfn, hplain, _⟩ := file_entry_facts hI hfm
  have hgg : SameGeom gh.vol gh1.vol := hg.symm.trans hg1
  have hh1 : af.dir ∈ dirIds gh1.dirs := by rw [← hA1.ids]; exact hk1.ids
  -- the licence of the call names no FAT entry
  obtain ⟨L, hSL⟩ := step_callOK hI hm op (nameCovered_all op)
  obtain ⟨hfat, _, _, _⟩ := reflush_licence hop hidx hf hSL.lic
  have hwf : LicWF gh.vol L := licenceFor_wf hI hSL.lic
  have hF : ∀ b i', ¬ Covers gh.vol L b i' →
      ((step s op).1.dev.disk.get b).getD i' 0 = (s.dev.disk.get b).getD i' 0 := by
    intro b i' hcov
    rw [hSL.disk b]
    exact allLicensed_frame hcov _ _ hSL.all
  -- the chains of the directories have only grown
  have hpreAll : ∀ q, q ∈ dirIds gh.dirs → q ∈ dirIds gh1.dirs → dirChain gh.vol gh.G q <+: dirChain gh1.vol gh1.G q := by
    intro q hq hq1
    rw [dirChain_sameGeom hgg]
    by_cases hfx : isFixedRoot gh.vol q
    · unfold dirChain; rw [if_pos hfx, if_pos hfx]; exact List.prefix_refl _
    · have hf' : ¬ isFixedRoot gh1.vol q := by unfold isFixedRoot at hfx ⊢; rw [hgg.fatType]; exact hfx
      have hM1 := medX_of_med hI1.med
      obtain ⟨m1, d1⟩ := dirChain_spec hM hq hfx
      obtain ⟨m2, d2⟩ := dirChain_spec hM1 hq1 hf'
      have c1 := med_chain hM m1
      have c2 := med_chain hM1 m2
      rw [headD_of_head? d1] at c1
      rw [headD_of_head? d2] at c2
      have c2' : Chain gh.vol (step s op).1.dev.disk (dirHead gh.vol q) (chainOf gh1.G (dirHead gh.vol q)) := by
        have := ForestBase.chain_sameGeom hgg.symm c2
        have hdh : dirHead gh1.vol q = dirHead gh.vol q := by
          obtain ⟨x, y, hv⟩ := hgg
          rw [hv]; rfl
        rw [hdh] at this
        exact this
      have hdc1 : dirChain gh.vol gh.G q = chainOf gh.G (dirHead gh.vol q) := by unfold dirChain; rw [if_neg hfx]
      have hdc2 : dirChain gh.vol gh1.G q = chainOf gh1.G (dirHead gh.vol q) := by unfold dirChain; rw [if_neg hfx]
      rw [hdc1, hdc2]
      refine chain_prefix c1 c2' fun c hc => ?_
      have hcr : InRange gh.vol c := med_inRange hM m1 (List.dropLast_subset _ hc)
      exact ForestBase.nextOf_congr rfl (fatRaw_of_frame hI.med.geom hwf hF hcr (by rw [hfat]; exact List.not_mem_nil))
  have hpre : dirChain gh.vol gh.G af.dir <+: dirChain gh1.vol gh1.G af.dir := hpreAll af.dir hdir hh1
  -- the way to the directory is still there
  have hpath1 : PathOn gh1.vol.fatType gh1.dirs (dirSlots gh1.vol (step s op).1.dev.disk gh1.G) 0 ys af.dir := by
    refine pathOn_next hgg (TreeView.of_treeOK hI.med.tree) (TreeView.of_treeOK hI1.med.tree) hpreAll ?_ hPath hPN
      (zero_mem_dirIds _)
    intro y hy
    obtain ⟨q, hq, hyo, hyd⟩ := hPath.entry y hy
    have hDO : DirObj s gh q y := ⟨hq, hyo, hyd⟩
    have hnnd := licence_notNamed_dir hI hDO hSL.lic
    have hyreg : regionOf gh.vol y.1 = .root ∨ regionOf gh.vol y.1 = .data := by
      rcases dirSlot_not_fat hM hq hDO.memSlots with h1 | h1
      · exact .inr h1
      · exact .inl h1
    have hyoff : y.2.1 % 32 = 0 := by
      have hm' := hDO.memSlots
      rw [dirSlots_eq] at hm'
      split at hm'
      · obtain ⟨i', _, hi'⟩ := slot_offset hm'; omega
      · obtain ⟨c, _, hrun⟩ := mem_chainSlots.1 hm'
        obtain ⟨i', _, hi'⟩ := slot_offset hrun; omega
    have hsp : ∀ L', L' ∈ [L] → Spares gh.vol L' y.1 y.2.1 [] := by
      intro L' hL'
      rw [List.mem_singleton.1 hL']
      exact spares_of_avoids hI.med.geom (fun c hc => nomatch hc) hyreg hyoff (avoids_of hwf hnnd)
    rw [(spared_at hI.med.blocksOK hI1.med.blocksOK (fun b i' hcov => hF b i' (hcov L List.mem_cons_self)) y.1 y.2.1 [] hsp).1]
    exact (dirSlots_bytes (mem_of_mem_objects hyo)).symm
  -- the slot, with its new bytes, in its directory
  have hxm1 : slotOf gh.vol.fatType f.entry ∈ dirSlots gh1.vol (step s op).1.dev.disk gh1.G af.dir := by
    refine mem_dirSlots_at hgg (AbsFs.mem_of_beforeEnd_getElem? ho) hpo.symm ?_ hpre
    show slice ((step s op).1.dev.disk.get f.entry.entryBlock) f.entry.entryOffset 32 = f.entry.serialize gh.vol.fatType
    exact hFl.slot
  obtain ⟨hsn, hfi, _, h4, h5⟩ := slotOf_fields gh.vol.fatType f.entry hst
  obtain ⟨hobj1, hj1, hq1⟩ := obj_of_keepsA hI1 hA1 hk1 hxm1 (by rw [hfi]; exact hn0) (slotOf_keep _ _ hst hn5 hlfn)
    (by rw [slotOf_isDir _ _ hst]; exact hplain) (by rw [hsn, storedMeta_name, hpm]; rfl)
    (fun g hgm hkey hPg => by
      obtain ⟨hge, _⟩ := hP g hgm hkey hPg
      rw [hgg.fatType, hge]; exact ⟨h4, h5⟩)
  have hraw1 : RawOK gh1.vol.fatType (step s op).1.dev.disk (step s op).1.files := by
    rw [hgg.fatType]
    exact (VolCrash.step_stepC hI hraw op (nameCovered_all op)).raw
  refine ⟨⟨hI1, (hgg.mirror _).2 hSL.mirror, hraw1, hg1, FlushedOn.sameGeom hg.symm hFl, hh1, ?_, ?_, ?_, hpath1, hPN⟩, hj1⟩
  · rw [← hg.fatType]; exact hobj1.mem
  · rw [← hg.fatType]; exact hobj1.file
  · intro g hgm hkey
    rcases hq1 g hgm hkey with hc | hc
    · exact .inl hc
    · exact .inr (hP g hgm hkey hc)

/-- **A successful `close_file` of a file that was written to establishes `Kept`**: under the invariant (FAT copies
identical, `RawOK`), closing the handle `hd` of the open file `f` (written to) answers `Ok`, and the state after the call
shows the flushed file — entry `f.entry`, chain `chainOf gh.G f.entry.cluster` — as an object of the directory `h` the
file sat in, no handle left at its slot. -/
theorem close_kept {v0 : FatVolume} {s : Mgr} {gh : Ghost} (hI : VolInv s gh) (hm : Mirror gh.vol s.dev.disk)
    (hraw : RawOK gh.vol.fatType s.dev.disk s.files)
    (hg : SameGeom v0 gh.vol) {hd i : Nat} {f : FileInfo} (hidx : s.files.findIdx? (·.rawFile = hd) = some i)
    (hf : s.files[i]? = some f) (hdirty : f.dirty = true) :
    (step s (.closeFile hd)).2.result = .ok .unit ∧
    ∃ h, (∃ o, o ∈ objects h (dirSlots gh.vol s.dev.disk gh.G h) ∧ spos o = fkey f) ∧ h ∈ dirIds gh.dirs ∧
      ∀ ys, PathOn gh.vol.fatType gh.dirs (dirSlots gh.vol s.dev.disk gh.G) 0 ys h →
        (∀ y, y ∈ ys → sName y ≠ Sfn.thisDir ∧ sName y ≠ Sfn.parentDir) →
        ∃ gh1, Kept v0 f.entry (chainOf gh.G f.entry.cluster) ys h (step s (.closeFile hd)).1 gh1 ∧
          ∀ g, g ∈ (step s (.closeFile hd)).1.files → fkey g ≠ fkey f := by
  have hM := medX_of_med hI.med
  have hfm : f ∈ s.files := List.mem_of_getElem? hf
  obtain ⟨hres, hFl, _⟩ := close_step_flushed hI hidx hf hdirty
  refine ⟨hres, ?_⟩
  -- the abstract side
  obtain ⟨a, hA⟩ := AbsFs.abs_total hI
  obtain ⟨gh1, a1, hI1, hg1, hA1, hstep⟩ := AbsFs.fs_step_refines v0 hI hA hg (.closeFile hd) trivial
  rw [hres] at hstep
  have hstep' : closeFileS a hd a1 (.ok .unit) := by
    unfold Spec.AbsFs.absStep at hstep
    rw [if_neg (by rw [hA.locked, hI.unlocked]; exact Bool.false_ne_true)] at hstep
    exact hstep
  -- the abstract record of `f`
  have hfidx : fileIdx a hd = some i := by
    rw [AbsFs.fileIdx_abs hA hd]; exact hidx
  obtain ⟨af, haf, hrel⟩ := AbsFs.forall₂_right hA.files hf
  have hfo : fileOf a hd = some (i, af) := by
    unfold fileOf
    rw [hfidx]
    dsimp only
    rw [haf]
    rfl
  obtain ⟨m0, bytes, hsl0, hsl1, hfiles1, hids1⟩ := closeFileS_ok hstep' hfo (hrel.dirty.trans hdirty)
  obtain ⟨o, ho, hpo⟩ := hrel.slot
  obtain ⟨hoobj, _, _, _, _, _⟩ := AbsFs.open_file_object hM hfm hrel.dirMem ho hpo
  refine ⟨af.dir, ⟨o, hoobj, hpo⟩, hrel.dirMem, fun ys hPath hPN => ⟨gh1, ?_⟩⟩
  -- no handle is left at the slot
  have hnone : ∀ af', af' ∈ a1.files → af'.dir = af.dir → af'.idx = af.idx → False := by
    intro af' haf' h1 h2
    rw [hfiles1] at haf'
    have hilt : i < a.files.length := (List.getElem?_eq_some_iff.1 haf).1
    have hmem := (Tables.swapRemove_perm a.files i hilt).mem_iff.1 haf'
    obtain ⟨k, hki, hk⟩ := List.mem_eraseIdx_iff_getElem?.1 hmem
    obtain ⟨fk, hfk, hrelk⟩ : ∃ fk, s.files[k]? = some fk ∧ FileRel s gh af' fk := by
      rcases AbsFs.forall₂_getElem? hA.files k with ⟨hnone, _⟩ | ⟨x, y, g1, g2, hr⟩
      · rw [hnone] at hk; cases hk
      · rw [g1] at hk; injection hk with hk; subst hk; exact ⟨y, g2, hr⟩
    obtain ⟨o', ho', hpo'⟩ := hrelk.slot
    rw [h1, h2, ho] at ho'
    injection ho' with ho'
    subst ho'
    have hkeys : (s.files.map fkey)[k]? = (s.files.map fkey)[i]? := by
      rw [List.getElem?_map, List.getElem?_map, hfk, hf]
      show some (fkey fk) = some (fkey f)
      rw [← hpo', ← hpo]
    have hklt : k < (s.files.map fkey).length := by
      rw [List.length_map]; exact (List.getElem?_eq_some_iff.1 hfk).1
    exact hki ((List.getElem?_inj hklt hI.med.tree.filesDistinct).1 hkeys)
  have hk1 : KeepsA a1 af.dir af.idx (storedMeta af.pm) bytes (fun _ => False) :=
    ⟨by rw [hids1, hA.ids]; exact hrel.dirMem, hsl1, fun af' haf' h1 h2 => (hnone af' haf' h1 h2).elim, fun _ hF => hF.elim⟩
  obtain ⟨hK1, hj1⟩ := establish_kept hI hm hraw hg hidx hf hdirty (.inr rfl) hFl hI1 hg1 hA1 hrel.dirMem ho hpo hrel.pm hk1
    (fun _ _ _ hF => hF.elim) hPath hPN
  refine ⟨hK1, ?_⟩
  -- no handle is left at the slot
  intro g hgm hkey
  have hh1 : af.dir ∈ dirIds gh1.dirs := hK1.dir
  obtain ⟨ag, hag, hrelg⟩ := forall₂_right' hA1.files hgm
  obtain ⟨o', ho', hp'⟩ := hrelg.slot
  have hM1 := medX_of_med hI1.med
  obtain ⟨e1, e2⟩ := AbsFs.slot_unique hM1 hrelg.dirMem hh1 (AbsFs.mem_of_beforeEnd_getElem? ho')
    (AbsFs.mem_of_beforeEnd_getElem? hj1) (hp'.trans hkey)
  subst e2
  rw [e1] at ho'
  have hnd := beforeEnd_nodup (dirSlots_pos_nodup hM1 hh1 (step s (.closeFile hd)).1.dev.disk)
  have hlt : ag.idx < (Spec.Volume.beforeEnd (dirSlots gh1.vol (step s (.closeFile hd)).1.dev.disk gh1.G af.dir)).length :=
    (List.getElem?_eq_some_iff.1 ho').1
  exact hnone ag hag e1 ((List.getElem?_inj hlt hnd).1 (ho'.trans hj1.symm))

/-- **A successful `flush_file` of a file that was written to establishes `Kept`** — with the handle left open: under the
invariant, for a file that owns a cluster, flushing the handle `hd` of the open file `f` (written to) answers `Ok`, and
the state after the call shows the flushed file as an object of the directory the file sat in; the handle (still marked
as written to: the crate never clears that mark) has the flushed entry as its record. -/
theorem flush_kept {v0 : FatVolume} {s : Mgr} {gh : Ghost} (hI : VolInv s gh) (hm : Mirror gh.vol s.dev.disk)
    (hraw : RawOK gh.vol.fatType s.dev.disk s.files)
    (hg : SameGeom v0 gh.vol) {hd i : Nat} {f : FileInfo} (hidx : s.files.findIdx? (·.rawFile = hd) = some i)
    (hf : s.files[i]? = some f) (hdirty : f.dirty = true) (hcl : f.entry.cluster ≠ 0) :
    (step s (.flush hd)).2.result = .ok .unit ∧
    ∃ h, (∃ o, o ∈ objects h (dirSlots gh.vol s.dev.disk gh.G h) ∧ spos o = fkey f) ∧ h ∈ dirIds gh.dirs ∧
      ∀ ys, PathOn gh.vol.fatType gh.dirs (dirSlots gh.vol s.dev.disk gh.G) 0 ys h →
        (∀ y, y ∈ ys → sName y ≠ Sfn.thisDir ∧ sName y ≠ Sfn.parentDir) →
        ∃ gh1, Kept v0 f.entry (chainOf gh.G f.entry.cluster) ys h (step s (.flush hd)).1 gh1 := by
  have hM := medX_of_med hI.med
  have hfm : f ∈ s.files := List.mem_of_getElem? hf
  obtain ⟨hres, hFl, _⟩ := flush_step_flushed hI hidx hf hdirty
  refine ⟨hres, ?_⟩
  obtain ⟨a, hA⟩ := AbsFs.abs_total hI
  obtain ⟨gh1, a1, hI1, hg1, hA1, hstep⟩ := AbsFs.fs_step_refines v0 hI hA hg (.flush hd) trivial
  rw [hres] at hstep
  have hstep' : (a1, Res.ok Payload.unit) = flushF a hd := by
    unfold Spec.AbsFs.absStep at hstep
    rw [if_neg (by rw [hA.locked, hI.unlocked]; exact Bool.false_ne_true)] at hstep
    exact hstep
  have hfidx : fileIdx a hd = some i := by
    rw [AbsFs.fileIdx_abs hA hd]; exact hidx
  obtain ⟨af, haf, hrel⟩ := AbsFs.forall₂_right hA.files hf
  have hfo : fileOf a hd = some (i, af) := by
    unfold fileOf
    rw [hfidx]
    dsimp only
    rw [haf]
    rfl
  obtain ⟨m0, bytes, hsl0, hfl⟩ := flushF_ok hfo (hrel.dirty.trans hdirty) (congrArg Prod.snd hstep').symm
  have ha1 : a1 = setSlot a af.dir af.idx (.file (storedMeta af.pm) bytes) := (congrArg Prod.fst hstep').trans hfl
  obtain ⟨o, ho, hpo⟩ := hrel.slot
  obtain ⟨hoobj, _, _, _, _, _⟩ := AbsFs.open_file_object hM hfm hrel.dirMem ho hpo
  refine ⟨af.dir, ⟨o, hoobj, hpo⟩, hrel.dirMem, fun ys hPath hPN => ⟨gh1, ?_⟩⟩
  -- the files of the state after the flush
  have hfiles : (step s (.flush hd)).1.files = s.files := by
    rw [MHoare.step_unlocked s _ hI.unlocked]
    have hI0 := VolApi.volInv_resetLogs hI
    obtain ⟨s1, hrun, hfs, _⟩ := (flush_callOK hI0 hm hd).2 i f hidx hf
    show (runOp (.flush hd) (MHoare.resetLogs s)).2.files = s.files
    rw [WriteSet.runOp_flush, hrun]
    exact hfs
  -- handles at the slot: only `f`
  have honly : ∀ g, g ∈ s.files → fkey g = fkey f → g = f :=
    fun g hgm hkey => AbsFs.eq_of_nodup_map fkey hI.med.tree.filesDistinct hgm hfm hkey
  have hk1 : KeepsA a1 af.dir af.idx (storedMeta af.pm) bytes (fun pm => pm = Spec.AbsFs.view f.entry) := by
    refine ⟨by rw [ha1]; show af.dir ∈ a.ids; rw [hA.ids]; exact hrel.dirMem, ?_, ?_, fun pm hp => by rw [hp, hrel.pm]⟩
    · rw [ha1]
      unfold setSlot put
      dsimp only
      rw [if_pos rfl, if_pos (List.getElem?_eq_some_iff.1 hsl0).1, List.getElem?_set_self (List.getElem?_eq_some_iff.1 hsl0).1]
    · intro af' haf' h1 h2
      rw [ha1] at haf'
      have haf'' : af' ∈ a.files := haf'
      obtain ⟨g, hgm, hrelg⟩ := forall₂_left hA.files haf''
      obtain ⟨o', ho', hpo'⟩ := hrelg.slot
      rw [h1, h2, ho] at ho'
      injection ho' with ho'
      subst ho'
      have := honly g hgm (hpo'.symm.trans hpo)
      subst this
      exact .inr hrelg.pm
  obtain ⟨hK1, _⟩ := establish_kept hI hm hraw hg hidx hf hdirty (.inl rfl) hFl hI1 hg1 hA1 hrel.dirMem ho hpo hrel.pm hk1
    (fun g hgm hkey _ => by
      rw [hfiles] at hgm
      rw [honly g hgm hkey]
      exact ⟨rfl, hcl⟩) hPath hPN
  exact hK1

end Sdmmc.Lemmas.Survive
