/-
C11 under the invariant, part 6 (API): the lookup that precedes the name calls, under a fault schedule
(`lookup_faulted`), and `delete_file_in_dir` under ANY fault schedule (`delete_fault_dirs`).
-/
import Sdmmc.Lemmas.FaultInvApi

namespace Sdmmc.Lemmas.FaultInv
open Sdmmc.Model Sdmmc.Model.Fat Sdmmc.Spec.Volume Sdmmc.Lemmas.VolBase Sdmmc.Lemmas.VolTree
open Sdmmc.Spec hiding NoFault Coherent
open Sdmmc.Lemmas.VolDisk Sdmmc.Lemmas.VolMed Sdmmc.Lemmas.VolApi Sdmmc.Lemmas.VolEng
open Sdmmc.Lemmas.FBasic (NoFault Coherent)
open Sdmmc.Lemmas.CrashBase Sdmmc.Lemmas.Retry Sdmmc.Lemmas.FaultPre Sdmmc.Lemmas.MHoare

/-- What a call has left when it changed nothing but device bookkeeping and the cache. -/
structure Untouched (s0 s : Mgr) : Prop where
  disk : s.dev.disk = s0.dev.disk
  dirs : s.dirs = s0.dirs
  files : s.files = s0.files

/-- **The lookup under a fault schedule**: it is the fault-free lookup (same answer, same state up to the
schedule), or it answers `DeviceError` and nothing but device bookkeeping and the cache changed. -/
theorem lookup_faulted {s0 : Mgr} {gh : Ghost} (hI : VolInv s0 gh) {vi : VolInfo} (hvs : s0.vols = [vi]) (hvol : vi.vol = gh.vol)
    (dc : Nat) (sfn : Bytes) (L : List Nat) :
    (withVol 0 (Fat.findDirectoryEntry dc sfn) (withFaults L s0) =
        ((withVol 0 (Fat.findDirectoryEntry dc sfn) s0).1, withFaults L (withVol 0 (Fat.findDirectoryEntry dc sfn) s0).2)) ∨
    ((withVol 0 (Fat.findDirectoryEntry dc sfn) (withFaults L s0)).1 = .err .DeviceError ∧
      Untouched s0 (withVol 0 (Fat.findDirectoryEntry dc sfn) (withFaults L s0)).2) := by
  obtain ⟨hP, hfl, hdr, hcase⟩ := withVol_faulted (findDirectoryEntry_pre dc sfn) (Fault.findDirectoryEntry_inv dc sfn) (volInv_fs hI).1 hvs hvol L
  rcases hcase with h | h
  · exact .inl h
  · refine .inr ⟨h, ?_, hdr, hfl⟩
    exact hP (fun d => d = s0.dev.disk)
      (CrashAll.of_ro (DirMgr.findDirectoryEntry_readOnly dc sfn (fsOf s0 gh)) rfl)

/-- **`delete_file_in_dir` under any fault schedule**: the directories are sound on the medium it leaves. -/
theorem delete_fault_dirs {s0 : Mgr} {gh : Ghost} (hI : VolInv s0 gh) (L : List Nat) (d : Nat) (name : List Nat)
    (hname : ∀ sfn, Sfn.createFromStr name = .ok sfn → sfn.head? ≠ some 0xE5) :
    DirsP gh.vol gh.dirs (deleteFileInDir d name (withFaults L s0)).2.dev.disk ∧
    (deleteFileInDir d name (withFaults L s0)).2.dirs = s0.dirs := by
  obtain ⟨hn, hc, hM⟩ := volInv_fs hI
  have h0 : DirsP gh.vol gh.dirs s0.dev.disk := dirsP_of_med hM
  unfold deleteFileInDir
  cases hidx : s0.dirs.findIdx? (·.rawDirectory = d) with
  | none => rw [bind_err (getDirById_bad (s := withFaults L s0) hidx)]; exact ⟨h0, rfl⟩
  | some i =>
    obtain ⟨di, hdi, _⟩ := findIdx?_some_get hidx
    have hdim : di ∈ s0.dirs := List.mem_of_getElem? hdi
    rw [bind_ok (getDirById_ok (s := withFaults L s0) hidx), bind_ok (getDir_ok (s := withFaults L s0) hdi)]
    cases hv : s0.vols.findIdx? (·.rawVolume = di.rawVolume) with
    | none => rw [bind_err (getVolumeById_bad (s := withFaults L s0) hv)]; exact ⟨h0, rfl⟩
    | some volIdx =>
      obtain ⟨hz, vi, hvs, hvol, hraw⟩ := vol_of_handle hI hv
      subst hz
      rw [bind_ok (getVolumeById_ok (s := withFaults L s0) hv)]
      cases hs : Sfn.createFromStr name with
      | error e => rw [bind_err (Modes.toSfn_err hs _)]; exact ⟨h0, rfl⟩
      | ok sfn =>
        rw [bind_ok (Modes.toSfn_ok hs _)]
        have hdv := hI.openDirs di hdim
        obtain ⟨r, fs', hlk, hdisk, hvol', h1, hcase⟩ := lookup_found hI hvs hvol hdv sfn (hname sfn hs)
        rcases lookup_faulted hI hvs hvol di.cluster sfn L with hq | ⟨he, hu⟩
        swap
        · -- the lookup failed on the device
          rcases hrun : withVol 0 (Fat.findDirectoryEntry di.cluster sfn) (withFaults L s0) with ⟨r', s'⟩
          rw [hrun] at he hu
          simp only at he
          subst he
          rw [bind_err hrun]
          exact ⟨by rw [hu.disk]; exact h0, hu.dirs⟩
        -- the lookup is the fault-free lookup
        rw [hlk] at hq
        set s1 := afterVol s0 vi fs' with hs1
        have hvs1 : s1.vols = [{ vi with vol := fs'.vol }] := rfl
        have h01 : DirsP gh.vol gh.dirs s1.dev.disk := by rw [hdisk]; exact h0
        rcases hcase with ⟨hr, _⟩ | ⟨e, o, hr, hF⟩
        · subst hr
          rw [bind_err hq]
          exact ⟨h01, rfl⟩
        · subst hr
          rw [bind_ok hq]
          obtain ⟨hen, hea, hes, heb, heo, hnd⟩ := hF.fields
          by_cases hde : Attr.isDirectory e.attributes = true
          · rw [if_pos hde]; exact ⟨h01, rfl⟩
          rw [if_neg hde, get_bind]
          have hdir' : Attr.isDirectory e.attributes = false := by simpa using hde
          by_cases hopen : fileIsOpen (withFaults L s1) di.rawVolume e = true
          · rw [if_pos hopen]; exact ⟨h01, rfl⟩
          rw [if_neg hopen]
          have hopen' : fileIsOpen s1 di.rawVolume e = false := by
            have : fileIsOpen (withFaults L s1) di.rawVolume e = fileIsOpen s1 di.rawVolume e := rfl
            rw [← this]; simpa using hopen
          have hraw1 : ({ vi with vol := fs'.vol } : VolInfo).rawVolume = di.rawVolume := hraw
          obtain ⟨hobj, _, hfree⟩ := hF.object h1 hvs1 hdv hraw1 hdir' hopen'
          obtain ⟨hde', hcl⟩ := hnd hdir'
          have hv1 : s1.vols.findIdx? (·.rawVolume = di.rawVolume) = some 0 := by rw [hvs1]; simp [hraw]
          rw [bind_ok (getVolumeById_ok (s := withFaults L s1) hv1)]
          obtain ⟨hn1, hc1, hM1⟩ := volInv_fs h1
          have hpre : Pre (do Fat.deleteDirectoryEntry di.cluster sfn; Fat.freeClusterChain e.cluster : F Unit) :=
            Pre.bind (deleteDirectoryEntry_pre _ _) fun _ => freeClusterChain_pre _
          have hinv : Fault.F.Inv FaultsSame (do Fat.deleteDirectoryEntry di.cluster sfn; Fat.freeClusterChain e.cluster : F Unit) :=
            Fault.F.Inv.bind (Fault.deleteDirectoryEntry_inv _ _) fun _ => Fault.freeClusterChain_inv _
          obtain ⟨hP, _, hdr, _⟩ := withVol_faulted hpre hinv hn1 hvs1 hvol' L
          have hcr := delete_crash_dirs hM1 hn1 hc1 hdv sfn (hname sfn hs) hobj hde' hF.name hfree
          rw [show sCluster (fsOf s1 gh).vol.fatType o = e.cluster from hcl.symm] at hcr
          exact ⟨hP _ hcr, hdr⟩

end Sdmmc.Lemmas.FaultInv
