/-
Bridge `CrashInv` → `Spec.Fs.fsck g d [] false`: executable checkers of the hypotheses (`crashInvB`, `fatEntriesOKB`,
sound), a sufficient form of (H2), and a NON-VACUITY example — a concrete crashed FAT16 medium with

* a LOST cluster (cluster 6 carries an end-of-chain mark, no entry names it, it is in no chain of the ghost),
* a size that is stale UPWARDS (`A.TXT`: 5000 bytes stored, its chain `2 → 3` holds 1024),
* a size WITHOUT a cluster (`E.DAT`: no cluster, 77 bytes stored),

which satisfies `CrashInv` and `FatEntriesOK` — so `crash_fsck_ok` applies: the crash-consistency variant of the checker
finds nothing (`crashed_fsck`; confirmed by evaluation, `crashed_fsck_eval`), reports cluster 6 as leaked, while the
checker WITH the size clause reports the two stale sizes (`crashed_sizes_stale`): the medium does not satisfy the
size clause of `VolInv`, the theorem is not a consequence of the bridge `fsck_ok` from `VolInv`.
-/
import Sdmmc.Lemmas.VolCrashFsck3
import Sdmmc.Lemmas.VolFsck9

namespace Sdmmc.Lemmas.VolCrash.Fsck
open Sdmmc.Model Sdmmc.Model.Fat Sdmmc.Spec.Volume
open Sdmmc.Spec hiding NoFault Coherent
open Sdmmc.Lemmas.VolTree Sdmmc.Lemmas.VolMed Sdmmc.Lemmas.VolBase

/-! ### Executable forms of the hypotheses -/

/-- Boolean form of `TreeLoose`. -/
def treeLooseB (ft : FatType) (root : List Nat) (G : List (List Nat)) (dirs : List (Nat × Nat))
    (slots : Nat → List Slot) : Bool :=
  VolCheck.cleanTailB dirs slots && VolCheck.namesB dirs slots && VolCheck.orderB dirs && VolCheck.dotsB ft dirs slots &&
  VolCheck.subdirsB ft dirs slots && VolCheck.dirRefsB ft dirs slots && VolCheck.allRefsB ft root G dirs slots []

theorem treeLooseB_sound {ft : FatType} {root : List Nat} {G : List (List Nat)} {dirs : List (Nat × Nat)}
    {slots : Nat → List Slot} (h : treeLooseB ft root G dirs slots = true) : TreeLoose ft root G dirs slots := by
  simp only [treeLooseB, Bool.and_eq_true] at h
  obtain ⟨⟨⟨⟨⟨⟨h1, h2⟩, h3⟩, h4⟩, h5⟩, h6⟩, h7⟩ := h
  exact
    { cleanTail := VolCheck.cleanTailB_sound h1
      names := VolCheck.namesB_sound h2
      order := VolCheck.orderB_sound h3
      dots := VolCheck.dotsB_sound h4
      subdirs := VolCheck.subdirsB_sound h5
      dirRefs := List.isPerm_iff.1 h6
      allRefs := List.isPerm_iff.1 h7 }

/-- Boolean form of `CrashInv`. -/
def crashInvB (v : FatVolume) (d : Disk) (gh : Ghost) : Bool :=
  VolCheck.blocksB d && VolCheck.geomB v && ownsLooseB v d gh.G &&
  treeLooseB v.fatType (rootHead v) gh.G gh.dirs (dirSlots v d gh.G)

theorem crashInvB_sound {v : FatVolume} {d : Disk} {gh : Ghost} (h : crashInvB v d gh = true) : CrashInv v d gh := by
  simp only [crashInvB, Bool.and_eq_true] at h
  obtain ⟨⟨⟨h1, h2⟩, h3⟩, h4⟩ := h
  exact ⟨VolCheck.blocksB_sound h1, VolCheck.geomB_sound h2, CrashBase.ownsLooseB_sound v d gh.G h3, treeLooseB_sound h4⟩

/-- The answer of the crate's FAT reader is an end of chain or a link to a data cluster. -/
def nextOKB (v : FatVolume) : Res Nat → Bool
  | .err .EndOfFile => true
  | .ok n => decide (InRange v n)
  | _ => false

theorem nextOKB_sound {v : FatVolume} {r : Res Nat} (h : nextOKB v r = true) :
    r = .err .EndOfFile ∨ ∃ n, r = .ok n ∧ InRange v n := by
  unfold nextOKB at h
  split at h
  · exact .inl rfl
  · exact .inr ⟨_, rfl, of_decide_eq_true h⟩
  · cases h

/-- Boolean form of `FatEntriesOK`. -/
def fatEntriesOKB (v : FatVolume) (d : Disk) : Bool :=
  (List.range (endCluster v)).all fun c =>
    decide (c < 2) || decide (isFree v d c) || decide (isBad v d c) || nextOKB v (nextOf v d c)

theorem fatEntriesOKB_sound {v : FatVolume} {d : Disk} (h : fatEntriesOKB v d = true) : FatEntriesOK v d := by
  intro c hc
  have := List.all_eq_true.1 h c (List.mem_range.2 hc.2)
  simp only [Bool.or_eq_true, decide_eq_true_eq] at this
  rcases this with ((h0 | h1) | h2) | h3
  · exact absurd h0 (by have := hc.1; omega)
  · exact .inl h1
  · exact .inr (.inl h2)
  · exact .inr (.inr (nextOKB_sound h3))

/-! ### A sufficient form of (H2) -/

section
variable {ft : FatType} {root : List Nat} {G : List (List Nat)} {dirs : List (Nat × Nat)} {slots : Nat → List Slot}

theorem depth_le_rank (hT : TreeLoose ft root G dirs slots) (hG : HeadsOK G) {h k : Nat} (hd : Depth dirs h k) :
    k ≤ VolFsck.rank dirs h := by
  induction hd with
  | root => exact Nat.zero_le _
  | sub hp _ ih => have := rank_parent_lt hT hG hp; omega

end

/-- (H2) holds when the volume has at most 63 sub-directories. -/
theorem depthOK_of_length {v : FatVolume} {d : Disk} {gh : Ghost} (hC : CrashInv v d gh) (hl : gh.dirs.length ≤ 63) :
    DepthOK gh.dirs := by
  intro h k hd
  have h1 := depth_le_rank hC.tree (headsOK_of_ownsLoose hC.owns) hd
  have h2 : VolFsck.rank gh.dirs h < (dirIds gh.dirs).length := List.idxOf_lt_length_iff.2 (VolFsck.depth_mem_dirIds hd)
  have h3 : (dirIds gh.dirs).length = gh.dirs.length + 1 := by simp [dirIds]
  omega

/-! ### Non-vacuity: a crashed medium with a lost cluster and stale sizes -/

open Sdmmc.Lemmas.VolExample

/-- root of `VolExample.root16Blk`, but `A.TXT` (chain `2 → 3`, 1024 bytes) carries the stale size 5000. -/
def rootStale : Block :=
  pad (ent16 nLabel 0x08 0 0 ++ lfnFrag ++ ent16 nA 0x20 2 5000 ++ ent16 nOld 0x20 0 0 ++ ent16 nSub 0x10 4 0)

/-- `SUB` of `VolExample.sub16Blk`, but `E.DAT` (no cluster) carries the stale size 77. -/
def subStale : Block :=
  pad (ent16 Sfn.thisDir 0x10 4 0 ++ ent16 Sfn.parentDir 0x10 0 0 ++ ent16 nB 0x20 5 100 ++ ent16 nE 0x20 0 77)

/-- The crashed medium: FAT entry of cluster 6 = end of chain (allocated), no entry names it; stale sizes. -/
def crashedDisk : Disk := ((disk16 0xFFFF).set 3 rootStale).set 6 subStale

/-- The ghost: the three referenced chains; cluster 6 is in none. -/
def crashedGhost : Ghost := { vol := vol16, G := [[2, 3], [4], [5]], dirs := [(4, 0)] }

theorem crashed_inv : CrashInv vol16 crashedDisk crashedGhost := crashInvB_sound (by decide +kernel)

theorem crashed_entries : FatEntriesOK vol16 crashedDisk := fatEntriesOKB_sound (by decide +kernel)

/-- Cluster 6 is lost: in use, in no chain of the ghost. -/
theorem crashed_lost : Lost vol16 crashedDisk crashedGhost.G 6 := by
  show isUsed vol16 crashedDisk 6 ∧ 6 ∉ crashedGhost.G.flatten
  decide +kernel

/-- The medium is NOT sound in the sense of C03: `Owns` fails (the lost cluster), and so does the size clause. -/
theorem crashed_not_owns : VolCheck.ownsB vol16 crashedDisk crashedGhost.G = false ∧
    VolCheck.sizesB .fat16 (clusterBytesLen vol16) crashedGhost.G crashedGhost.dirs
      (dirSlots vol16 crashedDisk crashedGhost.G) [] = false := by decide +kernel

/-- **`crash_fsck_ok` applied**: the crash-consistency variant of the checker finds nothing on the crashed medium. -/
theorem crashed_fsck : (Fs.fsck (geomOfVol vol16) crashedDisk [] false).problems = [] :=
  crash_fsck_ok vol16 crashedDisk crashedGhost crashed_inv crashed_entries _ (VolFsck.geomOf_geomOfVol vol16)
    (VolFsck.noOneB_sound (by decide +kernel)) (depthOK_of_length crashed_inv (by decide))

/-- … as evaluation confirms; the lost cluster is reported as leaked (not as a problem). -/
theorem crashed_fsck_eval : (Fs.fsck (geomOfVol vol16) crashedDisk [] false).problems = [] ∧
    (Fs.fsck (geomOfVol vol16) crashedDisk [] false).leaked = [6] := by decide +kernel

/-- The checker WITH the size clause reports exactly the two stale sizes. -/
theorem crashed_sizes_stale : (Fs.fsck (geomOfVol vol16) crashedDisk [] true).problems =
    ["D5-chain-too-short:/A_______TXT:5000:2", "D5-size-without-cluster:/SUB________/E_______DAT:77"] := by
  decide +kernel

end Sdmmc.Lemmas.VolCrash.Fsck
