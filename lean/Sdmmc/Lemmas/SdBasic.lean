/-
Lemmas for C12–C14 (the SD-card-over-SPI driver model `Sdmmc.Model.Sd`), part 1:
the monad `S`, the traffic measure and the compositional predicate `Bounded`.

Everything here holds for every bus `B : BusOps σ` over every bus state type `σ`.
-/
import Sdmmc.Model.Sd

namespace Sdmmc.Lemmas.Sd
open Sdmmc.Model Sdmmc.Model.Sd Sdmmc.Gen

variable {σ : Type} {α β : Type}

/-! ### The monad `S`, once -/

@[simp] theorem bind_apply (m : S σ α) (f : α → S σ β) (s : St σ) :
    (m >>= f) s = match m s with
      | (.ok a, s') => f a s'
      | (.err e, s') => (.err e, s')
      | (.panic p, s') => (.panic p, s') := rfl

@[simp] theorem pure_apply (a : α) (s : St σ) : (pure a : S σ α) s = (.ok a, s) := rfl
@[simp] theorem fail_apply (e : SdErr) (s : St σ) : (S.fail e : S σ α) s = (.err e, s) := rfl
@[simp] theorem lift_apply (r : SRes α) (s : St σ) : (S.lift r : S σ α) s = (r, s) := rfl
@[simp] theorem get_apply (s : St σ) : (S.get : S σ (St σ)) s = (.ok s, s) := rfl
@[simp] theorem attempt_apply (m : S σ α) (s : St σ) : (S.attempt m) s = (.ok (m s).1, (m s).2) := rfl

theorem bind_ok {m : S σ α} {f : α → S σ β} {s s' : St σ} {a : α} (h : m s = (.ok a, s')) :
    (m >>= f) s = f a s' := by simp [h]
theorem bind_err {m : S σ α} {f : α → S σ β} {s s' : St σ} {e : SdErr} (h : m s = (.err e, s')) :
    (m >>= f) s = (.err e, s') := by simp [h]
theorem bind_panic {m : S σ α} {f : α → S σ β} {s s' : St σ} {p : String} (h : m s = (.panic p, s')) :
    (m >>= f) s = (.panic p, s') := by simp [h]

/-- The last step of `acquire`'s closure, named (the model writes it as a raw state function). -/
def setCardType (ct : CardType) : S σ Unit := fun s => (.ok (), { s with cardType := some ct })

/-- `acquireBody` with its last step named; the same term. -/
theorem acquireBody_eq (B : BusOps σ) : acquireBody B = (do
    let s ← S.get
    enterSpiMode B s.acquireRetries
    if s.useCrc then do
      let r ← cardCommand B CMD59 1
      if r ≠ R1_IDLE_STATE then S.fail .CantEnableCRC
    let (ct, arg) ← checkVersion B DEFAULT_COMMAND_RETRIES
    waitReady B arg DEFAULT_COMMAND_RETRIES
    let ct ← (if ct = .SD2 then do
        let r ← cardCommand B CMD58 0
        if r ≠ 0 then S.fail .Cmd58Error else
        let buf ← xferEv B (.dataIn 4)
        if (buf.getD 0 0).toNat / 64 = 3 then pure CardType.SDHC else pure ct
      else pure ct : S σ CardType)
    setCardType ct) := rfl

/-- The stop sequence of a multiple-block write, named (the model writes it inline in `write`):
`wait_not_busy(write).and_then(|_| write_byte(STOP_TRAN_TOKEN)).and_then(|_| read_byte().map(|_| ()))
.and_then(|_| wait_not_busy(write))` — the discarded byte covers the byte a card may take (N_BR)
before it signals busy. -/
def stopWrite (B : BusOps σ) : S σ Unit := do
  waitNotBusy B DEFAULT_WRITE_RETRIES
  writeByte B (UInt8.ofNat STOP_TRAN_TOKEN)
  let _ ← readByte B
  waitNotBusy B DEFAULT_WRITE_RETRIES

/-- The error arms of `acquire`, named: fail and forget the card type ("start over next time"). -/
def failUninit (e : SdErr) : S σ α := fun s => (.err e, { s with cardType := none })

@[simp] theorem failUninit_apply (e : SdErr) (s : St σ) :
    (failUninit e : S σ α) s = (.err e, { s with cardType := none }) := rfl

/-- `acquire` with its error arms named; the same term. -/
theorem acquire_eq (B : BusOps σ) : acquire B = (do
    let r ← S.attempt (acquireBody B)
    let t ← S.attempt (readByte B)
    match r with
    | .ok () =>
      match t with
      | .ok _ => pure ()
      | .err e => failUninit e
      | .panic p => S.lift (.panic p)
    | .err e => failUninit e
    | other => S.lift other) := rfl

/-! ### Traffic -/

/-- Bytes put on the bus by a list of events. -/
def evTraffic (evs : List Event) : Nat := (evs.map fun e => e.bytes.length).sum

/-- Same body as `Sdmmc.Props.C13.traffic`. -/
def traffic (s : St σ) : Nat := (s.events.map fun e => e.bytes.length).sum

@[simp] theorem traffic_cons (s : St σ) (b : σ) (e : Event) (d : Nat) :
    traffic { s with bus := b, events := e :: s.events, delays := d } = e.bytes.length + traffic s := by
  simp [traffic]

/-- `m` puts at most `b` bytes on the bus and calls `delay_us` at most `d` times, from every
state on every bus. -/
def Bounded (m : S σ α) (b d : Nat) : Prop :=
  ∀ s, traffic (m s).2 ≤ traffic s + b ∧ (m s).2.delays ≤ s.delays + d

namespace Bounded

theorem mono {m : S σ α} {b d b' d' : Nat} (h : Bounded m b d) (hb : b ≤ b') (hd : d ≤ d') :
    Bounded m b' d' := fun s => by have := h s; omega

theorem pure (a : α) : Bounded (pure a : S σ α) 0 0 := fun s => by simp
theorem fail (e : SdErr) : Bounded (S.fail e : S σ α) 0 0 := fun s => by simp
theorem lift (r : SRes α) : Bounded (S.lift r : S σ α) 0 0 := fun s => by simp
theorem get : Bounded (S.get : S σ (St σ)) 0 0 := fun s => by simp
theorem failUninit (e : SdErr) : Bounded (failUninit e : S σ α) 0 0 := fun s => by simp [traffic]

theorem bind {m : S σ α} {f : α → S σ β} {b1 d1 b2 d2 : Nat}
    (hm : Bounded m b1 d1) (hf : ∀ a, Bounded (f a) b2 d2) : Bounded (m >>= f) (b1 + b2) (d1 + d2) := by
  intro s
  have h1 := hm s
  rw [bind_apply]
  rcases hms : m s with ⟨r, s'⟩
  rw [hms] at h1
  cases r with
  | ok a => have h2 := hf a s'; simp only at h1 ⊢; omega
  | err e => simp only at h1 ⊢; omega
  | panic p => simp only at h1 ⊢; omega

theorem ite {c : Prop} [Decidable c] {m1 m2 : S σ α} {b1 d1 b2 d2 : Nat}
    (h1 : Bounded m1 b1 d1) (h2 : Bounded m2 b2 d2) :
    Bounded (if c then m1 else m2) (max b1 b2) (max d1 d2) := by
  split
  · exact h1.mono (by omega) (by omega)
  · exact h2.mono (by omega) (by omega)

theorem attempt {m : S σ α} {b d : Nat} (h : Bounded m b d) : Bounded (S.attempt m) b d :=
  fun s => by simpa using h s

end Bounded

end Sdmmc.Lemmas.Sd
