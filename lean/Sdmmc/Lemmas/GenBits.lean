/-
Bit-level facts used by `Props/C*Gen.lean` to compare the machine translations in
`Sdmmc.Gen.Funs` (shifts, masks, `|||`) with the div/mod arithmetic of the hand-written model.
-/
namespace Sdmmc.Lemmas.GenBits

theorem shr (x k : Nat) : x >>> k = x / 2 ^ k := Nat.shiftRight_eq_div_pow x k
theorem shl (x k : Nat) : x <<< k = x * 2 ^ k := Nat.shiftLeft_eq x k

/-- `x & (2^n - 1)` keeps the low `n` bits. -/
theorem and_low (x n : Nat) : x &&& (2 ^ n - 1) = x % 2 ^ n := Nat.and_two_pow_sub_one_eq_mod x n

theorem and_1 (x : Nat) : x &&& 1 = x % 2 := and_low x 1
theorem and_3 (x : Nat) : x &&& 3 = x % 4 := and_low x 2
theorem and_15 (x : Nat) : x &&& 15 = x % 16 := and_low x 4
theorem and_31 (x : Nat) : x &&& 31 = x % 32 := and_low x 5
theorem and_63 (x : Nat) : x &&& 63 = x % 64 := and_low x 6
theorem and_127 (x : Nat) : x &&& 127 = x % 128 := and_low x 7
theorem and_255 (x : Nat) : x &&& 255 = x % 256 := and_low x 8
theorem and_fff_ffff (x : Nat) : x &&& 268435455 = x % 268435456 := and_low x 28

/-- `|` of a multiple of `2^i` and a number below `2^i` is their sum. -/
theorem or_eq_add (a b i : Nat) (hb : b < 2 ^ i) : a * 2 ^ i ||| b = a * 2 ^ i + b := by
  have h := Nat.two_pow_add_eq_or_of_lt hb a
  rw [Nat.mul_comm] at h
  exact h.symm

theorem or_eq_add' (a b i : Nat) (hb : b < 2 ^ i) : b ||| a * 2 ^ i = a * 2 ^ i + b := by
  rw [Nat.or_comm]; exact or_eq_add a b i hb

/-- `x & ((2^k - 1) << n)` keeps bits `n .. n+k-1` of a value below `2^(n+k)`. -/
theorem and_high (x n k : Nat) (hx : x < 2 ^ (n + k)) : x &&& ((2 ^ k - 1) * 2 ^ n) = x / 2 ^ n * 2 ^ n := by
  have hpos : 0 < 2 ^ n := Nat.two_pow_pos n
  have h1 : (x &&& ((2 ^ k - 1) * 2 ^ n)) % 2 ^ n = 0 := by
    rw [Nat.and_mod_two_pow, Nat.mul_mod_left, Nat.and_zero]
  have h2 : (x &&& ((2 ^ k - 1) * 2 ^ n)) / 2 ^ n = x / 2 ^ n := by
    rw [Nat.and_div_two_pow, Nat.mul_div_cancel _ hpos, and_low]
    apply Nat.mod_eq_of_lt
    apply Nat.div_lt_of_lt_mul
    rw [← Nat.pow_add]; exact hx
  have h3 := Nat.div_add_mod (x &&& ((2 ^ k - 1) * 2 ^ n)) (2 ^ n)
  rw [h1, h2, Nat.add_zero, Nat.mul_comm] at h3
  exact h3.symm

/-- `x & (1 << k)` is bit `k` of `x`, in place. -/
theorem and_bit (x k : Nat) : x &&& 2 ^ k = x / 2 ^ k % 2 * 2 ^ k := by
  have hpos : 0 < 2 ^ k := Nat.two_pow_pos k
  have h1 : (x &&& 2 ^ k) % 2 ^ k = 0 := by
    rw [Nat.and_mod_two_pow, Nat.mod_self, Nat.and_zero]
  have h2 : (x &&& 2 ^ k) / 2 ^ k = x / 2 ^ k % 2 := by
    rw [Nat.and_div_two_pow, Nat.div_self hpos, and_1]
  have h3 := Nat.div_add_mod (x &&& 2 ^ k) (2 ^ k)
  rw [h1, h2, Nat.add_zero, Nat.mul_comm] at h3
  exact h3.symm

/-- `(x & m) == m` for a one-bit mask `m = 2^k`. -/
theorem and_bit_eq (x k : Nat) : (x &&& 2 ^ k = 2 ^ k) ↔ x / 2 ^ k % 2 = 1 := by
  rw [and_bit]
  have hpos : 0 < 2 ^ k := Nat.two_pow_pos k
  have : x / 2 ^ k % 2 = 0 ∨ x / 2 ^ k % 2 = 1 := by omega
  rcases this with h | h <;> rw [h]
  · simp only [Nat.zero_mul]; constructor
    · intro h0; omega
    · intro h0; omega
  · simp only [Nat.one_mul]

-- Results of the translated functions are compared by `decide` in evaluated examples.
deriving instance DecidableEq for Except

end Sdmmc.Lemmas.GenBits

