/-
C10 strengthened (`Props/C10InvX.lean`): the crash points of the FAT-level pieces of an API call, with an EXACT record at
every crash point — the second half of `VolCrashStep.lean` restated for `CIX`.

* `owns_within`, `owns_add_eof` — allocation: before the new cluster is marked the record is exact as it stands; once it
  reads end-of-chain it is a lost chain `[c]` of its own (until the final medium links it);
* `owns_trunc_stage` — `truncate_cluster_chain`: `x` terminated and a prefix of the tail freed: the kept part is a chain
  of the record and the REST OF THE TAIL IS ONE LOST CHAIN (`remOf`);
* `owns_free_stage` — `free_cluster_chain` completed;
* `cix_within`, `alloc_cix`, `truncate_cix`, `free_cix`, `zeroBlocks_cix`, `single_cix`, `ro_cix` — the pieces.
-/
import Sdmmc.Lemmas.VolCrashXBase
import Sdmmc.Lemmas.VolCrashStep

namespace Sdmmc.Lemmas.VolCrashX
open Sdmmc.Model Sdmmc.Model.Fat Sdmmc.Spec.Volume
open Sdmmc.Spec hiding NoFault Coherent
open Sdmmc.Lemmas.FBasic
open Sdmmc.Lemmas.VolBase Sdmmc.Lemmas.VolTree Sdmmc.Lemmas.VolMed Sdmmc.Lemmas.VolDisk Sdmmc.Lemmas.VolEng
open Sdmmc.Lemmas.CrashBase Sdmmc.Lemmas.ForestStep Sdmmc.Lemmas.ForestBase Sdmmc.Lemmas.ForestOwns
open Sdmmc.Lemmas.ChainL Sdmmc.Lemmas.ForestTrunc Sdmmc.Lemmas.VolCrash
open Sdmmc.Lemmas.FatOps (RO)

/-! ### Exact records across FAT changes -/

/-- FAT entries of clusters outside the record change, and those clusters are not in use afterwards. -/
theorem owns_within {v : FatVolume} {d0 d : Disk} {L : List (List Nat)} {t : List Nat} {dirty : Nat → Prop}
    (hO : Owns v d0 L) (hW : Within v d0 d t dirty) (ht : ∀ x, x ∈ t → x ∉ L.flatten) (htu : ∀ x, x ∈ t → ¬ isUsed v d x) :
    Owns v d L := by
  obtain ⟨hch, hnd, hiff⟩ := hO
  have hraw : ∀ x, x ∈ L.flatten → fatRaw v d x = fatRaw v d0 x := fun x hx =>
    hW.other x ((hiff x).2 hx).1.2 fun hm => ht x hm hx
  refine ⟨fun cs hcs => chain_congr_raw (hch cs hcs) fun x hx => hraw x (mem_flatten_of_mem hcs hx), hnd, fun c => ?_⟩
  constructor
  · intro hu
    by_cases hm : c ∈ t
    · exact absurd hu (htu c hm)
    · exact (hiff c).1 ((isUsed_congr_raw (hW.other c hu.1.2 hm)).1 hu)
  · intro hm
    exact (isUsed_congr_raw (hraw c hm)).2 ((hiff c).2 hm)

/-- The cluster `c`, outside the record, now reads end-of-chain: it is a chain of its own. -/
theorem owns_add_eof {v : FatVolume} {d0 d : Disk} {L : List (List Nat)} {c : Nat} {dirty : Nat → Prop}
    (hO : Owns v d0 L) (hW : Within v d0 d [c] dirty) (hc : c ∉ L.flatten) (hr : InRange v c)
    (he : nextOf v d c = .err .EndOfFile) : Owns v d (L ++ [[c]]) := by
  obtain ⟨hch, hnd, hiff⟩ := hO
  have hraw : ∀ x, x ∈ L.flatten → fatRaw v d x = fatRaw v d0 x := fun x hx =>
    hW.other x ((hiff x).2 hx).1.2 fun hm => hc (List.mem_singleton.1 hm ▸ hx)
  have hcc : Chain v d c [c] := Chain.last c hr he
  refine ⟨fun cs hcs => ?_, ?_, fun x => ?_⟩
  · rcases List.mem_append.1 hcs with hcs | hcs
    · exact chain_congr_raw (hch cs hcs) fun x hx => hraw x (mem_flatten_of_mem hcs hx)
    · rw [List.mem_singleton.1 hcs]; exact hcc
  · rw [List.flatten_append, flatten_one, List.nodup_append]
    exact ⟨hnd, List.nodup_singleton c, fun a ha b hb e => hc (by rw [List.mem_singleton.1 hb] at e; exact e ▸ ha)⟩
  · rw [List.flatten_append, flatten_one, List.mem_append, List.mem_singleton]
    constructor
    · intro hu
      by_cases hx : x = c
      · exact .inr hx
      · exact .inl ((hiff x).1 ((isUsed_congr_raw (hW.other x hu.1.2 (by simpa using hx))).1 hu))
    · rintro (hm | rfl)
      · exact (isUsed_congr_raw (hraw x hm)).2 ((hiff x).2 hm)
      · exact chain_mem_used hcc x (List.mem_singleton.2 rfl)

/-- A list of clusters as a list of at most one chain. -/
def remOf (l : List Nat) : List (List Nat) := if l = [] then [] else [l]

theorem remOf_flatten (l : List Nat) : (remOf l).flatten = l := by
  unfold remOf
  split
  · next h => rw [h]; rfl
  · exact flatten_one l

theorem mem_remOf {l cs : List Nat} (h : cs ∈ remOf l) : cs = l ∧ l ≠ [] := by
  unfold remOf at h
  split at h
  · cases h
  · next hne => exact ⟨List.mem_singleton.1 h, hne⟩

/-- **A crash inside `truncate_cluster_chain(x)`**, `x` terminated and `tail.take j` freed: the record with the kept part
`pre ++ [x]` and the rest of the tail as ONE lost chain is exact. -/
theorem owns_trunc_stage {v : FatVolume} {d0 d : Disk} {A B : List (List Nat)} {pre tail : List Nat} {x j : Nat}
    (ho : Owns v d0 (A ++ [pre ++ x :: tail] ++ B)) (hst : CrashFat.Stage v d0 d [x] (tail.take j)) :
    Owns v d (A ++ ([pre ++ [x]] ++ remOf (tail.drop j)) ++ B) := by
  have hch : Chain v d0 ((pre ++ x :: tail).headD 0) (pre ++ x :: tail) :=
    ho.1 _ (List.mem_append_left _ (List.mem_append_right _ (List.mem_singleton.2 rfl)))
  have hmemG : ∀ z, z ∈ A.flatten ∨ z ∈ B.flatten → z ∈ (A ++ [pre ++ x :: tail] ++ B).flatten := fun z hz =>
    (mem_flatten3 _ _ _ z).2 (hz.elim .inl (fun h => .inr (.inr h)))
  have hnodup := ho.2.1
  rw [flatten3, nodup3, flatten_one] at hnodup
  obtain ⟨_, ncs, _, dAM, _, dMB⟩ := hnodup
  obtain ⟨hxt, hxp, hpre, ntail⟩ := nodup_split ncs
  have htd : tail.take j ++ tail.drop j = tail := List.take_append_drop j tail
  have hdisjTD : ∀ z, z ∈ tail.take j → z ∉ tail.drop j := by
    have := ntail
    rw [← htd] at this
    exact fun z h1 h2 => (List.nodup_append.1 this).2.2 z h1 z h2 rfl
  -- members of the touched set
  have htouch : ∀ z, z ∈ [x] ++ tail.take j → z ∈ pre ++ x :: tail := fun z hm => by
    rcases List.mem_append.1 hm with hm | hm
    · rw [List.mem_singleton.1 hm]; exact List.mem_append_right _ List.mem_cons_self
    · exact List.mem_append_right _ (List.mem_cons_of_mem _ (List.mem_of_mem_take hm))
  have hkeepRaw : ∀ z, z ∈ A.flatten ∨ z ∈ B.flatten → fatRaw v d z = fatRaw v d0 z := fun z hz =>
    hst.within.other z (owns_mem_used ho (hmemG z hz)).1.2 fun hm =>
      hz.elim (fun hA => dAM z hA (htouch z hm)) (fun hB => dMB z (htouch z hm) hB)
  have hch' : Chain v d ((pre ++ [x]).headD 0) (pre ++ [x]) := by
    have hhd : (pre ++ [x]).headD 0 = (pre ++ x :: tail).headD 0 := by cases pre <;> rfl
    rw [hhd]
    refine chain_cut pre hch rfl (hst.eof x (List.mem_singleton.2 rfl)) fun y hy => ?_
    refine nextOf_congr rfl (hst.within.other y (chain_inRange hch y (List.mem_append_left _ hy)).2 fun hm => ?_)
    rcases List.mem_append.1 hm with hm | hm
    · exact hxp (List.mem_singleton.1 hm ▸ hy)
    · exact hpre y hy (List.mem_cons_of_mem _ (List.mem_of_mem_take hm))
  -- the rest of the tail
  have hdropRaw : ∀ z, z ∈ tail.drop j → fatRaw v d z = fatRaw v d0 z := fun z hz => by
    have hzt : z ∈ tail := List.mem_of_mem_drop hz
    refine hst.within.other z (chain_inRange hch z (List.mem_append_right _ (List.mem_cons_of_mem _ hzt))).2 fun hm => ?_
    rcases List.mem_append.1 hm with hm | hm
    · exact hxt (List.mem_singleton.1 hm ▸ hzt)
    · exact hdisjTD z hm hz
  have hdropChain : ∀ cs, cs ∈ remOf (tail.drop j) → Chain v d (cs.headD 0) cs := by
    intro cs hcs
    obtain ⟨rfl, hne⟩ := mem_remOf hcs
    cases hdj : tail.drop j with
    | nil => exact absurd hdj hne
    | cons y l =>
      have hsplit : pre ++ x :: tail = (pre ++ x :: tail.take j) ++ y :: l := by
        rw [List.append_assoc, List.cons_append, ← hdj, htd]
      have h0 : Chain v d0 y (y :: l) := by
        rw [hsplit] at hch
        exact chain_suffix _ hch
      exact chain_congr_raw h0 fun z hz => hdropRaw z (hdj ▸ hz)
  have hmidflat : ([pre ++ [x]] ++ remOf (tail.drop j)).flatten = pre ++ [x] ++ tail.drop j := by
    rw [List.flatten_append, flatten_one, remOf_flatten]
  have hsubl : (pre ++ [x] ++ tail.drop j).Sublist (pre ++ x :: tail) := by
    rw [List.append_assoc, List.singleton_append]
    exact (List.Sublist.refl pre).append ((List.drop_sublist j tail).cons_cons x)
  refine owns_splice ho rfl (fun z hz => nextOf_congr rfl (hkeepRaw z hz)) ?_ ?_ ?_ ?_
  · intro cs hcs
    rcases List.mem_append.1 hcs with hcs | hcs
    · rw [List.mem_singleton.1 hcs]; exact hch'
    · exact hdropChain cs hcs
  · rw [hmidflat]; exact hsubl.nodup ncs
  · intro z hz
    rw [hmidflat] at hz
    have := hsubl.subset hz
    exact ⟨fun hA => dAM z hA this, fun hB => dMB z this hB⟩
  · intro c
    rw [hmidflat, flatten_one]
    constructor
    · intro hu
      by_cases hm : c ∈ [x] ++ tail.take j
      · rcases List.mem_append.1 hm with hm | hm
        · exact .inl (List.mem_append_left _ (List.mem_append_right _ hm))
        · exact absurd (hst.free c hm) hu.2.1
      · have hu0 : isUsed v d0 c := (isUsed_congr_raw (hst.within.other c hu.1.2 hm)).1 hu
        by_cases hmid : c ∈ pre ++ x :: tail
        · left
          rcases List.mem_append.1 hmid with hp | hp
          · exact List.mem_append_left _ (List.mem_append_left _ hp)
          · rcases List.mem_cons.1 hp with e | hp
            · exact absurd (List.mem_append_left _ (List.mem_singleton.2 e)) hm
            · rw [← htd] at hp
              rcases List.mem_append.1 hp with hp | hp
              · exact absurd (List.mem_append_right _ hp) hm
              · exact List.mem_append_right _ hp
        · exact .inr ⟨hu0, hmid⟩
    · rintro (hm | ⟨hu0, hmid⟩)
      · rcases List.mem_append.1 hm with hm | hm
        · exact chain_mem_used hch' c hm
        · have h0 : isUsed v d0 c := owns_mem_used ho ((mem_flatten3 _ _ _ c).2 (.inr (.inl (by
            rw [flatten_one]; exact List.mem_append_right _ (List.mem_cons_of_mem _ (List.mem_of_mem_drop hm))))))
          exact (isUsed_congr_raw (hdropRaw c hm)).2 h0
      · exact (isUsed_congr_raw (hst.within.other c hu0.1.2 fun hm => hmid (htouch c hm))).2 hu0

/-- **`free_cluster_chain` completed**: every cluster of the chain is free; the record without it is exact. -/
theorem owns_free_stage {v : FatVolume} {d0 d : Disk} {A B : List (List Nat)} {r : Nat} {tail : List Nat}
    (ho : Owns v d0 (A ++ [r :: tail] ++ B)) (hst : CrashFat.Stage v d0 d [] (r :: tail)) : Owns v d (A ++ [] ++ B) := by
  have hmemG : ∀ z, z ∈ A.flatten ∨ z ∈ B.flatten → z ∈ (A ++ [r :: tail] ++ B).flatten := fun z hz =>
    (mem_flatten3 _ _ _ z).2 (hz.elim .inl (fun h => .inr (.inr h)))
  have hnodup := ho.2.1
  rw [flatten3, nodup3, flatten_one] at hnodup
  obtain ⟨_, _, _, dAM, _, dMB⟩ := hnodup
  have hkeepRaw : ∀ z, z ∈ A.flatten ∨ z ∈ B.flatten → fatRaw v d z = fatRaw v d0 z := fun z hz =>
    hst.within.other z (owns_mem_used ho (hmemG z hz)).1.2 fun hm => by
      rw [List.nil_append] at hm
      exact hz.elim (fun hA => dAM z hA hm) (fun hB => dMB z hm hB)
  refine owns_splice ho rfl (fun z hz => nextOf_congr rfl (hkeepRaw z hz)) (fun cs hcs => by cases hcs) List.nodup_nil
    (fun z hz => by cases hz) fun c => ?_
  rw [flatten_one]
  constructor
  · intro hu
    by_cases hm : c ∈ r :: tail
    · exact absurd (hst.free c hm) hu.2.1
    · exact .inr ⟨(isUsed_congr_raw (hst.within.other c hu.1.2 (by rw [List.nil_append]; exact hm))).1 hu, hm⟩
  · rintro (hm | ⟨hu0, hmid⟩)
    · cases hm
    · exact (isUsed_congr_raw (hst.within.other c hu0.1.2 (by rw [List.nil_append]; exact hmid))).2 hu0

/-! ### The pieces -/

section Record
variable {v : FatVolume} {d0 : Disk} {files : List FileInfo} {gh : Ghost} {X : List (List Nat)}

/-- The medium differs from a boundary at most in FAT entries of clusters outside the record (not in use afterwards), in
blocks that hold no directory slot, and in FAT copy 2. -/
theorem cix_within (hM : MedX v d0 files gh X) (hR : RawOKX v.fatType d0 files) {d : Disk} {t : List Nat} {dirty : Nat → Prop}
    (hW : Within v d0 d t dirty) (ht : ∀ x, x ∈ t → x ∉ (gh.G ++ X).flatten) (hd : DirClean v d0 gh dirty)
    (htu : ∀ x, x ∈ t → ¬ isUsed v d x) : CIX v d := by
  refine cix_of_record hM hR (R := gh.G ++ X) (owns_within hM.owns hW ht htu)
    (fun x hx => rawRefs_heads_all hM hR.raw hx)
    (fun h hh hf => List.mem_append_left _ (dirChain_spec hM hh hf).1) (fun h hh s hs => ?_)
  refine hW.nonFat s.1 ?_ (hd h hh s hs)
  rcases dirSlot_not_fat hM hh hs with e | e <;> rw [e] <;> decide

end Record

theorem ro_cix {v : FatVolume} {s s' : FS} (h : RO s s') (hp : CIX v s.dev.disk) : CrashAll (CIX v) s s' := CrashAll.of_ro h hp

/-- One block write between two `CIX` media. -/
theorem single_cix {v : FatVolume} {s s' : FS} {b : Nat} {p : Block} (hw : s'.dev.wlog = (b, p) :: s.dev.wlog)
    (hd : s'.dev.disk = s.dev.disk.set b p) (h0 : CIX v s.dev.disk) (h1 : CIX v s'.dev.disk) : CrashAll (CIX v) s s' :=
  (CrashData.single_write_crash hw hd).mono fun d hd => by
    rcases hd with rfl | rfl
    · exact h0
    · exact h1

section Pieces
variable {files : List FileInfo} {gh : Ghost} {X : List (List Nat)}

theorem heads_append_left {L M : List (List Nat)} {x : Nat} (h : x ∈ heads L) : x ∈ heads (L ++ M) := by
  unfold heads at h ⊢
  rw [List.map_append]
  exact List.mem_append_left _ h

/-- A successful allocation from a boundary state to a `CIX` medium. -/
theorem alloc_cix {s s' : FS} (hM : MedX s.vol s.dev.disk files gh X) (hR : RawOKX s.vol.fatType s.dev.disk files)
    (hn : NoFault s) (hc : Coherent s) {prev : Option Nat} {zero : Bool} {c : Nat}
    (hp : ∀ p, prev = some p → p < endCluster s.vol)
    (h : allocCluster prev zero s = (.ok c, s')) (hfin : CIX s.vol s'.dev.disk) : CrashAll (CIX s.vol) s s' := by
  obtain ⟨hc2, hcE, hfree⟩ := FatOps.alloc_in_range_and_free s s' prev zero c hn hc hM.hint h
  have hcA : c ∉ (gh.G ++ X).flatten := fun hx => ((hM.owns.2.2 c).2 hx).2.1 hfree
  have hcG : c ∉ gh.G.flatten := fun hx => hcA (by rw [List.flatten_append]; exact List.mem_append_left _ hx)
  have hclean : DirClean s.vol s.dev.disk gh (CrashAlloc.zeroing s.vol zero c) :=
    dirClean_cluster hM ⟨hc2, hcE⟩ hcG _
  obtain ⟨hcr, _⟩ := CrashAlloc.alloc_crash s s' prev zero c hn hc hM.blocksOK hM.geom hM.hint hp h
  refine hcr.mono fun d hd => ?_
  rcases hd.1 with hA | ⟨hB, heof, _⟩ | ⟨hC, _⟩
  · exact cix_within hM hR hA (fun x hx => by cases hx) hclean (fun x hx => by cases hx)
  · refine cix_of_record hM hR (R := (gh.G ++ X) ++ [[c]]) (owns_add_eof hM.owns hB hcA ⟨hc2, hcE⟩ heof)
      (fun x hx => heads_append_left (rawRefs_heads_all hM hR.raw hx))
      (fun h hh hf => List.mem_append_left _ (List.mem_append_left _ (dirChain_spec hM hh hf).1)) (fun h hh sl hs => ?_)
    refine hB.nonFat sl.1 ?_ (hclean h hh sl hs)
    rcases dirSlot_not_fat hM hh hs with e | e <;> rw [e] <;> decide
  · exact cix_view hfin hC

/-- Cutting a chain of the record that is no directory chain. -/
theorem truncate_cix {s : FS} (hM : MedX s.vol s.dev.disk files gh X) (hR : RawOKX s.vol.fatType s.dev.disk files)
    (hn : NoFault s) (hc : Coherent s) {A B : List (List Nat)} {pre tail : List Nat} {x : Nat}
    (hG : gh.G ++ X = A ++ [pre ++ x :: tail] ++ B)
    (hnd : ∀ h, h ∈ dirIds gh.dirs → ¬ isFixedRoot s.vol h → chainOf gh.G (dirHead s.vol h) ≠ pre ++ x :: tail) :
    ∃ s', truncateClusterChain x s = (.ok (), s') ∧ CrashAll (CIX s.vol) s s' := by
  have ho : Owns s.vol s.dev.disk (A ++ [pre ++ x :: tail] ++ B) := hG ▸ hM.owns
  have hch : Chain s.vol s.dev.disk ((pre ++ x :: tail).headD 0) (pre ++ x :: tail) :=
    ho.1 _ (List.mem_append_left _ (List.mem_append_right _ (List.mem_singleton.2 rfl)))
  obtain ⟨s2, ht, hcr⟩ := CrashFat.truncate_crash s _ x pre tail hn hc hM.blocksOK hM.geom hch
  refine ⟨s2, ht, hcr.mono fun d hd => ?_⟩
  obtain ⟨htc, _⟩ := hd
  have hmemG : ∀ h, h ∈ dirIds gh.dirs → ¬ isFixedRoot s.vol h → chainOf gh.G (dirHead s.vol h) ∈ gh.G ++ X :=
    fun h hh hf => List.mem_append_left _ (dirChain_spec hM hh hf).1
  have hblkOf : (∀ i, regionOf s.vol i ≠ .fat → d.get i = s.dev.disk.get i) →
      ∀ h, h ∈ dirIds gh.dirs → ∀ sl, sl ∈ dirSlots s.vol s.dev.disk gh.G h → d.get sl.1 = s.dev.disk.get sl.1 := by
    intro hblocks h hh sl hs
    refine hblocks sl.1 ?_
    rcases dirSlot_not_fat hM hh hs with e | e <;> rw [e] <;> decide
  rcases htc with hv | ⟨j, _, hst⟩
  · exact cix_of_record hM hR (R := A ++ [pre ++ x :: tail] ++ B) (owns_view ho hv)
      (fun y hy => hG ▸ rawRefs_heads_all hM hR.raw hy) (fun h hh hf => hG ▸ hmemG h hh hf) (hblkOf hv.nonFat)
  · refine cix_of_record hM hR (R := A ++ ([pre ++ [x]] ++ remOf (tail.drop j)) ++ B) (owns_trunc_stage ho hst)
      (fun y hy => ?_) (fun h hh hf => ?_) (hblkOf fun i hi => hst.within.nonFat i hi id)
    · have := rawRefs_heads_all hM hR.raw hy
      rw [hG] at this
      have hh : (pre ++ [x]).headD 0 = (pre ++ x :: tail).headD 0 := by cases pre <;> rfl
      obtain ⟨cs, hcs, he⟩ := List.mem_map.1 this
      rcases List.mem_append.1 hcs with hcs | hcs
      · rcases List.mem_append.1 hcs with hcs | hcs
        · exact List.mem_map.2 ⟨cs, List.mem_append_left _ (List.mem_append_left _ hcs), he⟩
        · rw [List.mem_singleton.1 hcs] at he
          exact List.mem_map.2 ⟨pre ++ [x], List.mem_append_left _ (List.mem_append_right _
            (List.mem_append_left _ (List.mem_singleton.2 rfl))), hh.trans he⟩
      · exact List.mem_map.2 ⟨cs, List.mem_append_right _ hcs, he⟩
    · have hm := hmemG h hh hf
      rw [hG] at hm
      rcases List.mem_append.1 hm with hm | hm
      · rcases List.mem_append.1 hm with hm | hm
        · exact List.mem_append_left _ (List.mem_append_left _ hm)
        · exact absurd (List.mem_singleton.1 hm) (hnd h hh hf)
      · exact List.mem_append_right _ hm

/-- Releasing a chain of the record that the raw medium does not reference. -/
theorem free_cix {s : FS} (hM : MedX s.vol s.dev.disk files gh X) (hR : RawOKX s.vol.fatType s.dev.disk files)
    (hn : NoFault s) (hc : Coherent s) {A B : List (List Nat)} {tail : List Nat} {r : Nat}
    (hG : gh.G ++ X = A ++ [r :: tail] ++ B) (hnr : r ∉ rawRefs s.vol s.dev.disk gh) :
    ∃ s', freeClusterChain r s = (.ok (), s') ∧ CrashAll (CIX s.vol) s s' := by
  have ho : Owns s.vol s.dev.disk (A ++ [r :: tail] ++ B) := hG ▸ hM.owns
  have hch : Chain s.vol s.dev.disk r (r :: tail) :=
    ho.1 _ (List.mem_append_left _ (List.mem_append_right _ (List.mem_singleton.2 rfl)))
  obtain ⟨s2, ht, hcr⟩ := CrashFat.free_crash s r tail hn hc hM.blocksOK hM.geom hch
  refine ⟨s2, ht, hcr.mono fun d hd => ?_⟩
  obtain ⟨htc, _⟩ := hd
  have hblkOf : (∀ i, regionOf s.vol i ≠ .fat → d.get i = s.dev.disk.get i) →
      ∀ h, h ∈ dirIds gh.dirs → ∀ sl, sl ∈ dirSlots s.vol s.dev.disk gh.G h → d.get sl.1 = s.dev.disk.get sl.1 := by
    intro hblocks h hh sl hs
    refine hblocks sl.1 ?_
    rcases dirSlot_not_fat hM hh hs with e | e <;> rw [e] <;> decide
  -- the references and the directory chains lie outside the released chain
  have hrefsAB : ∀ (M : List (List Nat)) y, y ∈ rawRefs s.vol s.dev.disk gh → y ∈ heads (A ++ M ++ B) := by
    intro M y hy
    have := rawRefs_heads_all hM hR.raw hy
    rw [hG] at this
    unfold heads at this ⊢
    simp only [List.map_append, List.map_cons, List.map_nil, List.mem_append, List.mem_cons, List.not_mem_nil, or_false] at this ⊢
    rcases this with (h1 | h1) | h1
    · exact .inl (.inl h1)
    · exact absurd (show r ∈ _ from (show y = r from h1) ▸ hy) hnr
    · exact .inr h1
  have hdirsAB : ∀ (M : List (List Nat)) h, h ∈ dirIds gh.dirs → ¬ isFixedRoot s.vol h →
      chainOf gh.G (dirHead s.vol h) ∈ A ++ M ++ B := by
    intro M h hh hf
    obtain ⟨hm, hhd⟩ := dirChain_spec hM hh hf
    have hm' : chainOf gh.G (dirHead s.vol h) ∈ gh.G ++ X := List.mem_append_left _ hm
    rw [hG] at hm'
    rcases List.mem_append.1 hm' with hm' | hm'
    · rcases List.mem_append.1 hm' with hm' | hm'
      · exact List.mem_append_left _ (List.mem_append_left _ hm')
      · exfalso
        have e := List.mem_singleton.1 hm'
        rw [e] at hhd
        have : dirHead s.vol h = r := by simpa using hhd.symm
        exact hnr (this ▸ dirHead_rawRefs hh hf)
    · exact List.mem_append_right _ hm'
  rcases htc with (hv | ⟨j, _, hst⟩) | hst
  · exact cix_of_record hM hR (R := A ++ [r :: tail] ++ B) (owns_view ho hv) (hrefsAB _) (hdirsAB _) (hblkOf hv.nonFat)
  · have ho' : Owns s.vol s.dev.disk (A ++ [[] ++ r :: tail] ++ B) := ho
    exact cix_of_record hM hR (R := A ++ ([[] ++ [r]] ++ remOf (tail.drop j)) ++ B) (owns_trunc_stage ho' hst)
      (hrefsAB _) (hdirsAB _) (hblkOf fun i hi => hst.within.nonFat i hi id)
  · exact cix_of_record hM hR (R := A ++ [] ++ B) (owns_free_stage ho hst) (hrefsAB _) (hdirsAB _)
      (hblkOf fun i hi => hst.within.nonFat i hi id)

/-- Blanking blocks of a cluster outside the chains of `G`. -/
theorem zeroBlocks_cix {s : FS} (hM : MedX s.vol s.dev.disk files gh X) (hR : RawOKX s.vol.fatType s.dev.disk files)
    (hn : NoFault s) {c : Nat} (hc : InRange s.vol c) (hcG : c ∉ gh.G.flatten) {n first : Nat}
    (hin : ∀ i, first ≤ i → i < first + n → InCluster s.vol c i) :
    CrashAll (CIX s.vol) s (zeroBlocks n first s).2 := by
  refine (CrashAlloc.zeroBlocks_crash n first s hn).mono fun d hd => ?_
  have hW := CrashAlloc.within_of_cluster_blocks (v := s.vol) (d := s.dev.disk) (d' := d) (c := c) true hM.geom hc.1 hc.2
    fun i hi => hd i fun hr => hi ⟨rfl, hin i hr.1 hr.2⟩
  exact cix_within hM hR hW (fun x hx => by cases hx) (dirClean_cluster hM hc hcG _) (fun x hx => by cases hx)

end Pieces

end Sdmmc.Lemmas.VolCrashX
