/-
C04 over histories, part 2: the calls that take a directory handle and a name — `delete_file_in_dir`,
`open_file_in_dir`, `make_dir_in_dir` — under the invariant.  The refusals are the whole-call equations of
`Lemmas.Modes` (C07); the writing outcomes are `deleteFile_lic`, `truncateOpen_lic`, `createFile_lic`,
`mkdir_lic` of `WriteSetCalls`, their hypotheses discharged from `VolInv`.
-/
import Sdmmc.Lemmas.WriteSetInv

namespace Sdmmc.Lemmas.WriteSetInv
open Sdmmc.Model Sdmmc.Model.Fat Sdmmc.Spec.Volume Sdmmc.Lemmas.VolBase Sdmmc.Lemmas.VolTree
open Sdmmc.Spec hiding NoFault Coherent
open Sdmmc.Lemmas.VolDisk Sdmmc.Lemmas.VolMed Sdmmc.Lemmas.VolEng Sdmmc.Lemmas.VolApi
open Sdmmc.Lemmas.FBasic (NoFault Coherent)
open Sdmmc.Lemmas.MHoare
open Sdmmc.Lemmas.WriteSet (LicD flushLicence infoLicence writeLicence DirBlock MSound)

/-! ### The prologue -/

/-- The prologue of a directory call fails: no such directory handle, its volume is not open, or the name has
no 8.3 form. -/
def NoCtx (s : Mgr) (d : Nat) (name : List Nat) : Prop :=
  s.dirs.findIdx? (·.rawDirectory = d) = none ∨
  (∃ di dir, s.dirs.findIdx? (·.rawDirectory = d) = some di ∧ s.dirs[di]? = some dir ∧
    (s.vols.findIdx? (·.rawVolume = dir.rawVolume) = none ∨
     ∃ vi fe, s.vols.findIdx? (·.rawVolume = dir.rawVolume) = some vi ∧ Sfn.createFromStr name = .error fe))

theorem ctx_cases (s : Mgr) (d : Nat) (name : List Nat) :
    NoCtx s d name ∨ ∃ dir vi sfn, Modes.DirCtx s d name dir vi sfn ∧ dir ∈ s.dirs ∧ dir.rawDirectory = d := by
  cases hidx : s.dirs.findIdx? (·.rawDirectory = d) with
  | none => exact .inl (.inl hidx)
  | some di =>
    obtain ⟨dir, hd, hp⟩ := findIdx?_some_get hidx
    cases hv : s.vols.findIdx? (·.rawVolume = dir.rawVolume) with
    | none => exact .inl (.inr ⟨di, dir, hidx, hd, .inl hv⟩)
    | some vi =>
      cases hs : Sfn.createFromStr name with
      | error fe => exact .inl (.inr ⟨di, dir, hidx, hd, .inr ⟨vi, fe, hv, hs⟩⟩)
      | ok sfn => exact .inr ⟨dir, vi, sfn, ⟨⟨di, hidx, hd⟩, hv, hs⟩, List.mem_of_getElem? hd, by simpa using hp⟩

theorem delete_noCtx {s : Mgr} {d : Nat} {name : List Nat} (h : NoCtx s d name) : (deleteFileInDir d name s).2 = s := by
  unfold deleteFileInDir
  rcases h with h | ⟨di, dir, h1, h2, h3 | ⟨vi, fe, h3, h4⟩⟩
  · rw [bind_err (getDirById_bad h)]
  · rw [bind_ok (getDirById_ok h1), bind_ok (getDir_ok h2), bind_err (getVolumeById_bad h3)]
  · rw [bind_ok (getDirById_ok h1), bind_ok (getDir_ok h2), bind_ok (getVolumeById_ok h3), bind_err (Modes.toSfn_err h4 s)]

theorem mkdir_noCtx {s : Mgr} {d : Nat} {name : List Nat} (h : NoCtx s d name) : (makeDirInDir d name s).2 = s := by
  unfold makeDirInDir
  rw [get_bind]
  split
  · rfl
  rcases h with h | ⟨di, dir, h1, h2, h3 | ⟨vi, fe, h3, h4⟩⟩
  · rw [bind_err (getDirById_bad h)]
  · rw [bind_ok (getDirById_ok h1), bind_ok (getDir_ok h2), bind_err (getVolumeById_bad h3)]
  · rw [bind_ok (getDirById_ok h1), bind_ok (getDir_ok h2), bind_ok (getVolumeById_ok h3), bind_err (Modes.toSfn_err h4 s)]

theorem openFile_noCtx {s : Mgr} {d : Nat} {name : List Nat} (mode : Mode) (h : NoCtx s d name) :
    (openFileInDir d name mode s).2 = s := by
  rw [Modes.openFileInDir_eq]
  unfold Modes.openFileInDirAlt
  rw [get_bind]
  split
  · rfl
  rcases h with h | ⟨di, dir, h1, h2, h3 | ⟨vi, fe, h3, h4⟩⟩
  · rw [bind_err (getDirById_bad h)]
  · rw [bind_ok (getDirById_ok h1), bind_ok (getDir_ok h2), bind_err (getVolumeById_bad h3)]
  · rw [bind_ok (getDirById_ok h1), bind_ok (getDir_ok h2), bind_ok (getVolumeById_ok h3), bind_err (Modes.toSfn_err h4 s)]

theorem mkdir_noRoom {s : Mgr} (d : Nat) (name : List Nat) (h : ¬ s.dirs.length < s.maxDirs) : (makeDirInDir d name s).2 = s := by
  unfold makeDirInDir
  rw [get_bind, if_pos (by omega)]
  rfl

theorem openFile_noRoom {s : Mgr} (d : Nat) (name : List Nat) (mode : Mode) (h : ¬ s.files.length < s.maxFiles) :
    (openFileInDir d name mode s).2 = s := by
  rw [Modes.openFileInDir_eq]
  unfold Modes.openFileInDirAlt
  rw [get_bind, if_pos (by omega)]
  rfl

/-! ### The lookup under the invariant -/

/-- What the calls know after the lookup: the open volume, the answer `r` — `NotFound`, or the entry `e`
decoded from the live short entry `o` with that name —, a state that differs from `s` in cache and read
bookkeeping only. -/
structure Looked (s : Mgr) (gh : Ghost) (dir : DirInfo) (sfn : Bytes) (vi : VolInfo) (r : Res DirEntry) : Prop where
  vols : s.vols = [vi]
  vol : vi.vol = gh.vol
  raw : vi.rawVolume = dir.rawVolume
  valid : ValidDir gh.dirs dir.cluster
  res : (Modes.lookup 0 dir sfn s).1 = r
  find : (Fat.findDirectoryEntry dir.cluster sfn (ReadRefines.fsOf s vi)).1 = r
  wlog : (Modes.lookup 0 dir sfn s).2.dev.wlog = s.dev.wlog
  disk : (Modes.lookup 0 dir sfn s).2.dev.disk = s.dev.disk
  cases : (r = .err .NotFound) ∨ ∃ e o, r = .ok e ∧ Found s gh dir sfn e o

theorem looked {s : Mgr} {gh : Ghost} (hI : VolInv s gh) {d : Nat} {name : List Nat} {dir : DirInfo} {vidx : Nat} {sfn : Bytes}
    (hc : Modes.DirCtx s d name dir vidx sfn) (hdm : dir ∈ s.dirs) (hne5 : sfn.head? ≠ some 0xE5) :
    vidx = 0 ∧ ∃ vi r, Looked s gh dir sfn vi r := by
  obtain ⟨h0, vi, hvs, hvol, hraw⟩ := vol_of_handle hI hc.2.1
  subst h0
  refine ⟨rfl, vi, ?_⟩
  have hdv := hI.openDirs dir hdm
  obtain ⟨r, fs', hlk, hdisk, _, _, hcase⟩ := lookup_found hI hvs hvol hdv sfn hne5
  have hlk' : Modes.lookup 0 dir sfn s = (r, afterVol s vi fs') := hlk
  have hvi : s.vols[0]? = some vi := by rw [hvs]; rfl
  have hrun := WriteRefines.withVol_run 0 (Fat.findDirectoryEntry dir.cluster sfn) s vi hvi
  rw [hlk] at hrun
  have hw := (Modes.lookup_writes_nothing 0 dir sfn s).1
  refine ⟨r, hvs, hvol, hraw, hdv, by rw [hlk'], (congrArg Prod.fst hrun).symm, hw, (Modes.lookup_writes_nothing 0 dir sfn s).2, ?_⟩
  rcases hcase with ⟨hr, _⟩ | ⟨e, o, hr, hF⟩
  · exact .inl hr
  · refine .inr ⟨e, o, hr, ?_, hF.name, hF.dec⟩
    have := hF.mem
    rw [hdisk] at this
    exact this

/-- A found plain file that the table says is not open: its slot lies in a directory block, its chain is
the chain of its start cluster in `G` (none when it has no cluster). -/
theorem found_file_facts {s : Mgr} {gh : Ghost} (hI : VolInv s gh) {dir : DirInfo} {sfn : Bytes} {vi : VolInfo} {e : DirEntry}
    {o : Slot} (hvs : s.vols = [vi]) (hraw : vi.rawVolume = dir.rawVolume) (hdv : ValidDir gh.dirs dir.cluster)
    (hF : Found s gh dir sfn e o) (hdir : Attr.isDirectory e.attributes = false) (hopen : fileIsOpen s dir.rawVolume e = false) :
    o ∈ objects (dirIdOf dir.cluster) (dirSlots gh.vol s.dev.disk gh.G (dirIdOf dir.cluster)) ∧ isDirE o = false ∧
    e.entryBlock = o.1 ∧ e.entryOffset = o.2.1 ∧ e.cluster = sCluster gh.vol.fatType o ∧
    (regionOf gh.vol e.entryBlock = .root ∨ regionOf gh.vol e.entryBlock = .data) ∧
    ((e.cluster < 2 ∧ chainOf gh.G e.cluster = []) ∨ Chain gh.vol s.dev.disk e.cluster (chainOf gh.G e.cluster)) ∧
    pendOf s.files o = none := by
  have hM := medX_of_med hI.med
  obtain ⟨ho, hod, hfree⟩ := hF.object hI hvs hdv hraw hdir hopen
  obtain ⟨_, _, _, hb, hoo, hnd⟩ := hF.fields
  obtain ⟨_, hcl⟩ := hnd hdir
  obtain ⟨hid, _⟩ := validDir_id hM hdv
  obtain ⟨pre, post, hsp, _⟩ := object_split hM hid ho
  have hmem : o ∈ dirSlots gh.vol s.dev.disk gh.G (dirIdOf dir.cluster) := by rw [hsp]; simp
  refine ⟨ho, hod, hb, hoo, hcl, ?_, ?_, hfree⟩
  · rw [hb]
    rcases dirSlot_not_fat hM hid hmem with h1 | h1
    · exact .inr h1
    · exact .inl h1
  · rw [hcl]
    rcases closed_object_chain hM hid ho hod hfree with ⟨h1, _, h3⟩ | ⟨_, _, h3, _⟩
    · exact .inl ⟨by rw [h1]; decide, h3⟩
    · exact .inr h3

/-! ### `delete_file_in_dir` -/

theorem delete_callOK {s : Mgr} {gh : Ghost} (hI : VolInv s gh) (hm : Mirror gh.vol s.dev.disk) (d : Nat) (name : List Nat)
    (hname : ∀ sfn, Sfn.createFromStr name = .ok sfn → sfn.head? ≠ some 0xE5) :
    CallOK gh s (.delete d name) (deleteFileInDir d name s).2 := by
  rcases ctx_cases s d name with hno | ⟨dir, vidx, sfn, hc, hdm, hdh⟩
  · rw [delete_noCtx hno]; exact callOK_nowrite _ hm rfl rfl
  obtain ⟨h0, vi, r, hL⟩ := looked hI hc hdm (hname sfn hc.2.2)
  subst h0
  have refused : ∀ e, Modes.deleteRefusal (Modes.lookup 0 dir sfn s).1 (fileIsOpen s dir.rawVolume) = some e →
      CallOK gh s (.delete d name) (deleteFileInDir d name s).2 := by
    intro e he
    rw [Modes.delete_refusal hc e he]
    exact callOK_nowrite _ hm hL.wlog hL.disk
  rcases hL.cases with hr | ⟨e, o, hr, hF⟩
  · exact refused .NotFound (by rw [hL.res, hr]; rfl)
  · by_cases hdir : Attr.isDirectory e.attributes = true
    · exact refused .DeleteDirAsFile (by rw [hL.res, hr]; unfold Modes.deleteRefusal; dsimp only; rw [if_pos hdir])
    by_cases hopen : fileIsOpen s dir.rawVolume e = true
    · exact refused .FileAlreadyOpen (by
        rw [hL.res, hr]; unfold Modes.deleteRefusal; dsimp only; rw [if_neg hdir, if_pos hopen])
    have hdir' : Attr.isDirectory e.attributes = false := by simpa using hdir
    have hopen' : fileIsOpen s dir.rawVolume e = false := by simpa using hopen
    obtain ⟨ho, hod, hb, hoo, hcl, hreg, hch, hclosed⟩ := found_file_facts hI hL.vols hL.raw hL.valid hF hdir' hopen'
    obtain ⟨di, hd1, hd2⟩ := hc.1
    have hvi : s.vols[0]? = some vi := by rw [hL.vols]; rfl
    obtain ⟨s', v', hrun, _, _, hs', hsg, hl, _⟩ := WriteSet.deleteFile_lic s d di 0 name sfn dir vi e (chainOf gh.G e.cluster)
      (msound_of_inv hI hm hL.vol) hd1 hd2 hc.2.1 hvi hc.2.2 (by rw [hL.find, hr]) hdir' hopen'
      (by rw [hL.vol]; exact hreg) (by rw [hL.vol]; exact hch)
    rw [hL.vol] at hl hsg
    rw [hrun]
    refine ⟨_, ?_, hl, (hsg.mirror _).1 hs'.mirror⟩
    have := LicenceFor.delete (gh := gh) (files := s.files) (dirs := s.dirs) (d := s.dev.disk) d name sfn dir o hdm hdh hc.2.2 ho
      hF.name hod hclosed
    unfold WriteSet.deleteLicence
    rw [hcl, hb, hoo]
    exact this

/-! ### The chain of a directory -/

/-- A chained directory designated by a valid handle: its chain in `G` is the chain of the cluster the walk
starts at. -/
theorem dir_chain_hyp {s : Mgr} {gh : Ghost} (hI : VolInv s gh) {dc : Nat} (hdv : ValidDir gh.dirs dc) :
    ¬ Reopen.IsFixedRoot gh.vol dc → Chain gh.vol s.dev.disk (Listing.startCluster gh.vol dc) (dirChainOf gh dc) := by
  intro hk
  have hM := medX_of_med hI.med
  obtain ⟨hh, hcase⟩ := dir_walk_facts hM hdv
  rcases hcase with ⟨hdc, h16, _⟩ | ⟨_, hnf, cs, hco, hst, _, _, _⟩
  · exact absurd ⟨h16, hdc⟩ hk
  · obtain ⟨hmem, _⟩ := dirChain_spec hM hh hnf
    have hch := hI.med.owns.1 _ hmem
    unfold dirChainOf dirChain
    rw [if_neg hnf]
    rw [hco] at hch ⊢
    exact hch

/-! ### `open_file_in_dir` -/

theorem openFile_callOK {s : Mgr} {gh : Ghost} (hI : VolInv s gh) (hm : Mirror gh.vol s.dev.disk) (d : Nat) (name : List Nat)
    (mode : Mode) (hname : ∀ sfn, Sfn.createFromStr name = .ok sfn → sfn.head? ≠ some 0xE5) :
    CallOK gh s (.openFile d name mode) (openFileInDir d name mode s).2 := by
  by_cases hroom : s.files.length < s.maxFiles
  swap
  · rw [openFile_noRoom d name mode hroom]; exact callOK_nowrite _ hm rfl rfl
  rcases ctx_cases s d name with hno | ⟨dir, vidx, sfn, hc, hdm, hdh⟩
  · rw [openFile_noCtx mode hno]; exact callOK_nowrite _ hm rfl rfl
  obtain ⟨h0, vi, r, hL⟩ := looked hI hc hdm (hname sfn hc.2.2)
  subst h0
  have hvi : s.vols[0]? = some vi := by rw [hL.vols]; rfl
  have nowr : ∀ {x : Res Nat}, openFileInDir d name mode s = (x, (Modes.lookup 0 dir sfn s).2) →
      CallOK gh s (.openFile d name mode) (openFileInDir d name mode s).2 := by
    intro x hx
    rw [hx]
    exact callOK_nowrite _ hm hL.wlog hL.disk
  rcases hL.cases with hr | ⟨e, o, hr, hF⟩
  · have hres : (Modes.lookup 0 dir sfn s).1 = .err .NotFound := by rw [hL.res, hr]
    by_cases hmc : mode = .ReadWriteCreate ∨ mode = .ReadWriteCreateOrTruncate ∨ mode = .ReadWriteCreateOrAppend
    · obtain ⟨re, x, s', v', hrun, _, _, hs', hsg, hout, _⟩ := WriteSet.createFile_lic s d 0 name sfn dir mode vi
        (dirChainOf gh dir.cluster) hmc hc hroom hvi (msound_of_inv hI hm hL.vol) (by rw [hL.find, hr])
        (by rw [hL.vol]; exact dir_chain_hyp hI hL.valid)
      rw [hL.vol] at hout hsg
      rw [hrun]
      have hmir : Mirror gh.vol s'.dev.disk := (hsg.mirror _).1 hs'.mirror
      cases hout with
      | slot en hb ho hal hfs lic =>
        exact ⟨_, .createSlot d name mode dir hdm hdh en.entryBlock en.entryOffset hb ho hal hfs, lic _ (List.mem_singleton.2 rfl), hmir⟩
      | grown en last c hk hl hrc hfree hb ho lic =>
        exact ⟨_, .createGrow d name mode dir hdm hdh last c hl hrc hfree,
          lic _ List.mem_cons_self (List.mem_cons_of_mem _ List.mem_cons_self) List.mem_cons_self, hmir⟩
      | full hw hd => exact callOK_nowrite _ hm hw hd
    · have hm' : mode = .ReadOnly ∨ mode = .ReadWriteAppend ∨ mode = .ReadWriteTruncate := by
        cases mode <;> simp at hmc ⊢
      exact nowr (Modes.open_missing mode hm' hc hroom hres)
  · have hres : (Modes.lookup 0 dir sfn s).1 = .ok e := by rw [hL.res, hr]
    by_cases hopen : fileIsOpen s dir.rawVolume e = true
    · exact nowr (Modes.open_already_open mode hc hroom e hres hopen)
    have hopen' : fileIsOpen s dir.rawVolume e = false := by simpa using hopen
    by_cases hcreate : mode = .ReadWriteCreate
    · subst hcreate
      exact nowr (Modes.open_create_existing hc hroom e hres hopen')
    by_cases hro : Attr.isReadOnly e.attributes = true ∧ mode ≠ .ReadOnly
    · exact nowr (Modes.open_readonly_attr mode hro.2 hcreate hc hroom e hres hopen' hro.1)
    have hro' : Attr.isReadOnly e.attributes = false ∨ mode = .ReadOnly := by
      by_cases h : mode = .ReadOnly
      · exact .inr h
      · left
        by_cases h2 : Attr.isReadOnly e.attributes = true
        · exact absurd ⟨h2, h⟩ hro
        · simpa using h2
    by_cases hdir : Attr.isDirectory e.attributes = true
    · exact nowr (Modes.open_dir_as_file mode hcreate hc hroom e hres hopen' hro' hdir)
    have hdir' : Attr.isDirectory e.attributes = false := by simpa using hdir
    have htrunc : ∀ (hmt : mode = .ReadWriteTruncate ∨ mode = .ReadWriteCreateOrTruncate)
        (hron : Attr.isReadOnly e.attributes = false), CallOK gh s (.openFile d name mode) (openFileInDir d name mode s).2 := by
      intro hmt hron
      obtain ⟨ho, hod, hb, hoo, hcl, hreg, hch, hclosed⟩ := found_file_facts hI hL.vols hL.raw hL.valid hF hdir' hopen'
      obtain ⟨s', v', hrun, _, _, _, hs', hsg, hl⟩ := WriteSet.truncateOpen_lic s d 0 name sfn dir mode vi e (chainOf gh.G e.cluster)
        hmt hc hroom hvi (msound_of_inv hI hm hL.vol) (by rw [hL.find, hr]) hopen' hron hdir'
        (by rw [hL.vol]; exact hreg) (by rw [hL.vol]; exact hch)
      rw [hL.vol] at hl hsg
      rw [hrun]
      refine ⟨_, ?_, hl, (hsg.mirror _).1 hs'.mirror⟩
      have := LicenceFor.truncate (gh := gh) (files := s.files) (dirs := s.dirs) (d := s.dev.disk) d name mode sfn dir o hdm hdh
        hc.2.2 hmt ho hF.name hod hclosed
      unfold WriteSet.truncateLicence
      rw [hcl, hb, hoo]
      exact this
    have hron : mode ≠ .ReadOnly → Attr.isReadOnly e.attributes = false := fun h => hro'.elim id (fun h' => absurd h' h)
    cases mode with
    | ReadOnly =>
      rw [Modes.open_file_readOnly hc hroom e hres hopen' hdir']
      exact callOK_nowrite _ hm hL.wlog hL.disk
    | ReadWriteCreate => exact absurd rfl hcreate
    | ReadWriteAppend =>
      rw [Modes.open_file_append .ReadWriteAppend (.inl rfl) hc hroom e hres hopen' (hron (by decide)) hdir']
      exact callOK_nowrite _ hm hL.wlog hL.disk
    | ReadWriteCreateOrAppend =>
      rw [Modes.open_file_append .ReadWriteCreateOrAppend (.inr rfl) hc hroom e hres hopen' (hron (by decide)) hdir']
      exact callOK_nowrite _ hm hL.wlog hL.disk
    | ReadWriteTruncate => exact htrunc (.inl rfl) (hron (by decide))
    | ReadWriteCreateOrTruncate => exact htrunc (.inr rfl) (hron (by decide))

/-! ### `make_dir_in_dir` -/

theorem mkdir_callOK {s : Mgr} {gh : Ghost} (hI : VolInv s gh) (hm : Mirror gh.vol s.dev.disk) (d : Nat) (name : List Nat)
    (hname : ∀ sfn, Sfn.createFromStr name = .ok sfn → sfn.head? ≠ some 0xE5) :
    CallOK gh s (.mkdir d name) (makeDirInDir d name s).2 := by
  by_cases hroom : s.dirs.length < s.maxDirs
  swap
  · rw [mkdir_noRoom d name hroom]; exact callOK_nowrite _ hm rfl rfl
  rcases ctx_cases s d name with hno | ⟨dir, vidx, sfn, hc, hdm, hdh⟩
  · rw [mkdir_noCtx hno]; exact callOK_nowrite _ hm rfl rfl
  obtain ⟨h0, vi, r, hL⟩ := looked hI hc hdm (hname sfn hc.2.2)
  subst h0
  have hvi : s.vols[0]? = some vi := by rw [hL.vols]; rfl
  have refused : ∀ e, Modes.mkdirRefusal (Modes.lookup 0 dir sfn s).1 = some e →
      CallOK gh s (.mkdir d name) (makeDirInDir d name s).2 := by
    intro e he
    rw [Modes.mkdir_refusal hc hroom e he]
    exact callOK_nowrite _ hm hL.wlog hL.disk
  rcases hL.cases with hr | ⟨e, o, hr, _⟩
  · rcases WriteSet.mkdir_lic s d 0 name sfn dir vi (dirChainOf gh dir.cluster) hc hroom hvi (msound_of_inv hI hm hL.vol)
        (by rw [hL.find, hr]) (by rw [hL.vol]; exact dir_chain_hyp hI hL.valid) with
      ⟨s', hrun, hw, hd⟩ | ⟨cn, x, s', v', hrun, _, _, hs', hsg, hrn, hfn, hout⟩
    · rw [hrun]; exact callOK_nowrite _ hm hw hd
    · rw [hL.vol] at hout hsg hrn hfn
      rw [hrun]
      have hmir : Mirror gh.vol s'.dev.disk := (hsg.mirror _).1 hs'.mirror
      cases hout with
      | slot b off hb ho hal hfs lic =>
        exact ⟨_, .mkdirSlot d name dir hdm hdh cn hrn hfn b off hb ho hal hfs,
          lic _ List.mem_cons_self List.mem_cons_self List.mem_cons_self, hmir⟩
      | grown last c hk hl hrc hfc lic =>
        exact ⟨_, .mkdirGrow d name dir hdm hdh cn hrn hfn last c hl hrc hfc,
          lic _ List.mem_cons_self List.mem_cons_self (List.mem_cons_of_mem _ List.mem_cons_self)
            (List.mem_cons_of_mem _ (List.mem_cons_of_mem _ List.mem_cons_self)) (List.mem_cons_of_mem _ List.mem_cons_self), hmir⟩
      | full lic =>
        exact ⟨_, .mkdirFull d name cn hrn hfn, lic _ List.mem_cons_self List.mem_cons_self, hmir⟩
  · by_cases hdir : Attr.isDirectory e.attributes = true
    · exact refused .DirAlreadyExists (by rw [hL.res, hr]; unfold Modes.mkdirRefusal; dsimp only; rw [if_pos hdir])
    · exact refused .FileAlreadyExists (by rw [hL.res, hr]; unfold Modes.mkdirRefusal; dsimp only; rw [if_neg hdir])

end Sdmmc.Lemmas.WriteSetInv
