/-
Refinement of the API to the abstract file system, part 20: the open-mode table (`mode_table`,
`mode_table_absent`, `mode_refusals`) and "everything else is unchanged" (`untouched_unchanged`).
-/
import Sdmmc.Lemmas.AbsFsCor
import Sdmmc.Lemmas.AbsFsTouch

namespace Sdmmc.Lemmas.AbsFs
open Sdmmc.Model Sdmmc.Model.Fat Sdmmc.Spec.Volume
open Sdmmc.Spec hiding NoFault Coherent
open Sdmmc.Spec.AbsFs (Meta view storedMeta fatRound OpenFile OpenDir absStep)
open Sdmmc.Lemmas.VolApi Sdmmc.Lemmas.MHoare

section
variable {s : Mgr} {gh : Ghost} {a : AState}

/-- `open_file_in_dir` as a step of the abstract file system. -/
theorem openFile_spec (hI : VolInv s gh) (hA : Abs s gh a) (d : Nat) (name : List Nat) (mode : Mode) (hname : NameOK name) :
    ∃ gh' a', VolInv (step s (.openFile d name mode)).1 gh' ∧ Abs (step s (.openFile d name mode)).1 gh' a' ∧
      Spec.AbsFs.openFileS a d name mode a' (step s (.openFile d name mode)).2.result := by
  obtain ⟨gh', a', h1, _, h3, h4⟩ := step_abs hI hA (.openFile d name mode) hname
  unfold absStep at h4
  rw [if_neg (abs_unlocked hI hA)] at h4
  exact ⟨gh', a', h1, h3, h4⟩

/-- The mode a handle gets when the file exists. -/
theorem effective_modes :
    solveModeVariant .ReadOnly true = .ReadOnly ∧ solveModeVariant .ReadWriteAppend true = .ReadWriteAppend ∧
    solveModeVariant .ReadWriteTruncate true = .ReadWriteTruncate ∧
    solveModeVariant .ReadWriteCreateOrTruncate true = .ReadWriteTruncate ∧
    solveModeVariant .ReadWriteCreateOrAppend true = .ReadWriteAppend := ⟨rfl, rfl, rfl, rfl, rfl⟩

/-- **The mode table, file present** (not open, not read-only, a free place in the table): `ReadWriteCreate` is
refused with `FileAlreadyExists`; every other mode opens the file under the next handle — `…OrTruncate` /
`…OrAppend` as `ReadWriteTruncate` / `ReadWriteAppend` —, positioned at the end for append and at 0 otherwise;
truncate empties the file and stores size 0 and the time of the call at once; nothing else changes. -/
theorem mode_table (hI : VolInv s gh) (hA : Abs s gh a) (d : Nat) (name : List Nat) (mode : Mode) (hname : NameOK name)
    (hnf : ¬ a.files.length ≥ a.maxFiles) {od : OpenDir} {sfn : Bytes} (hctx : Spec.AbsFs.dirCtx a d name = .ok (od, sfn))
    {i : Nat} {m : Meta} {bytes : Bytes} (hlk : Spec.AbsFs.lookup (a.slots od.dir) sfn = some i)
    (hsl : (a.slots od.dir)[i]? = some (.file m bytes)) (hno : Spec.AbsFs.isOpenAt a od.volume od.dir i = false)
    (hrw : Attr.isReadOnly m.attr = false) :
    ∃ gh' a', VolInv (step s (.openFile d name mode)).1 gh' ∧ Abs (step s (.openFile d name mode)).1 gh' a' ∧
      (mode = .ReadWriteCreate → (step s (.openFile d name mode)).2.result = .err .FileAlreadyExists ∧ a' = a) ∧
      (mode ≠ .ReadWriteCreate → (step s (.openFile d name mode)).2.result = .ok (.handle a.nextId) ∧
        a'.files = a.files ++ [⟨a.nextId, od.volume, solveModeVariant mode true, od.dir, i,
          if solveModeVariant mode true = .ReadWriteAppend then m.size else 0,
          if solveModeVariant mode true = .ReadWriteTruncate then { m with size := 0, mtime := a.clock } else m, false⟩] ∧
        (a'.slots od.dir)[i]? = some (if solveModeVariant mode true = .ReadWriteTruncate
          then .file (storedMeta { m with size := 0, mtime := a.clock }) [] else .file m bytes)) := by
  obtain ⟨gh', a', h1, h3, h4⟩ := openFile_spec hI hA d name mode hname
  refine ⟨gh', a', h1, h3, ?_⟩
  unfold Spec.AbsFs.openFileS at h4
  rw [if_neg hnf, hctx] at h4
  dsimp only at h4
  rw [hlk] at h4
  dsimp only at h4
  rw [hsl] at h4
  dsimp only at h4
  rw [if_neg (by rw [hno]; exact Bool.false_ne_true)] at h4
  have hlt : i < (a.slots od.dir).length := (List.getElem?_eq_some_iff.1 hsl).1
  constructor
  · intro hm
    rw [if_pos hm] at h4
    exact ⟨h4.2, h4.1⟩
  · intro hm
    rw [if_neg hm, if_neg (by rw [hrw]; rintro ⟨h, _⟩; cases h)] at h4
    obtain ⟨hr, h5⟩ := h4
    refine ⟨hr, ?_⟩
    by_cases ht : solveModeVariant mode true = .ReadWriteTruncate
    · rw [if_pos ht] at h5
      rw [if_pos ht, if_pos ht, h5]
      have hna : ¬ solveModeVariant mode true = .ReadWriteAppend := by rw [ht]; decide
      rw [if_neg hna]
      refine ⟨by rw [ht], ?_⟩
      show ((Spec.AbsFs.setSlot a od.dir i _).slots od.dir)[i]? = _
      unfold Spec.AbsFs.setSlot
      dsimp only
      rw [if_pos rfl]
      unfold Spec.AbsFs.put
      rw [if_pos hlt, List.getElem?_set_self hlt]
    · rw [if_neg ht] at h5
      rw [if_neg ht, if_neg ht, h5]
      exact ⟨rfl, hsl⟩

/-- **The mode table, file absent**: the three creating modes create an empty file in the first free slot (or
answer `NotEnoughSpace` and change nothing) and hand out a handle in mode `ReadWriteCreate` at position 0; the
other three answer `NotFound`. -/
theorem mode_table_absent (hI : VolInv s gh) (hA : Abs s gh a) (d : Nat) (name : List Nat) (mode : Mode) (hname : NameOK name)
    (hnf : ¬ a.files.length ≥ a.maxFiles) {od : OpenDir} {sfn : Bytes} (hctx : Spec.AbsFs.dirCtx a d name = .ok (od, sfn))
    (hlk : Spec.AbsFs.lookup (a.slots od.dir) sfn = none) :
    ∃ gh' a', VolInv (step s (.openFile d name mode)).1 gh' ∧ Abs (step s (.openFile d name mode)).1 gh' a' ∧
      ((mode = .ReadOnly ∨ mode = .ReadWriteAppend ∨ mode = .ReadWriteTruncate) →
        (step s (.openFile d name mode)).2.result = .err .NotFound ∧ a' = a) ∧
      ((mode = .ReadWriteCreate ∨ mode = .ReadWriteCreateOrTruncate ∨ mode = .ReadWriteCreateOrAppend) →
        ((step s (.openFile d name mode)).2.result = .err .NotEnoughSpace ∧ a' = a) ∨
        ((step s (.openFile d name mode)).2.result = .ok (.handle a.nextId) ∧
          a'.files = a.files ++ [⟨a.nextId, od.volume, .ReadWriteCreate, od.dir, Spec.AbsFs.freeIdx (a.slots od.dir), 0,
            Spec.AbsFs.newMeta sfn 0 a.clock, false⟩] ∧
          (a'.slots od.dir)[Spec.AbsFs.freeIdx (a.slots od.dir)]? =
            some (.file (storedMeta (Spec.AbsFs.newMeta sfn 0 a.clock)) []))) := by
  obtain ⟨gh', a', h1, h3, h4⟩ := openFile_spec hI hA d name mode hname
  refine ⟨gh', a', h1, h3, ?_⟩
  unfold Spec.AbsFs.openFileS at h4
  rw [if_neg hnf, hctx] at h4
  dsimp only at h4
  rw [hlk] at h4
  dsimp only at h4
  constructor
  · intro hm
    rw [if_neg (by rcases hm with rfl | rfl | rfl <;> decide)] at h4
    exact ⟨h4.2, h4.1⟩
  · intro hm
    rw [if_pos hm] at h4
    rcases h4 with ⟨ha, hr⟩ | ⟨ha, hr⟩
    · exact .inl ⟨hr, ha⟩
    · refine .inr ⟨hr, by rw [ha], ?_⟩
      rw [ha]
      show ((Spec.AbsFs.setSlot a od.dir _ _).slots od.dir)[_]? = _
      unfold Spec.AbsFs.setSlot
      dsimp only
      rw [if_pos rfl]
      unfold Spec.AbsFs.put
      have hle := AbsFsTouch.freeIdx_le (a.slots od.dir)
      split
      · next hlt => rw [List.getElem?_set_self hlt]
      · next hge =>
        have : Spec.AbsFs.freeIdx (a.slots od.dir) = (a.slots od.dir).length := by omega
        rw [this]
        simp

/-- **The refusals of the mode table**: a file that is open is refused (`FileAlreadyOpen`) in every mode; a
read-only file is refused in every mode but `ReadOnly` (and `ReadWriteCreate`, which answers `FileAlreadyExists`);
a directory is never opened as a file; a full table refuses everything.  The state is unchanged. -/
theorem mode_refusals (hI : VolInv s gh) (hA : Abs s gh a) (d : Nat) (name : List Nat) (mode : Mode) (hname : NameOK name) :
    ∃ gh' a', VolInv (step s (.openFile d name mode)).1 gh' ∧ Abs (step s (.openFile d name mode)).1 gh' a' ∧
      (a.files.length ≥ a.maxFiles → (step s (.openFile d name mode)).2.result = .err .TooManyOpenFiles ∧ a' = a) ∧
      (¬ a.files.length ≥ a.maxFiles → ∀ od sfn i, Spec.AbsFs.dirCtx a d name = .ok (od, sfn) →
        Spec.AbsFs.lookup (a.slots od.dir) sfn = some i →
        (∀ m bytes, (a.slots od.dir)[i]? = some (.file m bytes) →
          (Spec.AbsFs.isOpenAt a od.volume od.dir i = true →
            (step s (.openFile d name mode)).2.result = .err .FileAlreadyOpen ∧ a' = a) ∧
          (Spec.AbsFs.isOpenAt a od.volume od.dir i = false → mode ≠ .ReadWriteCreate → Attr.isReadOnly m.attr = true →
            mode ≠ .ReadOnly → (step s (.openFile d name mode)).2.result = .err .ReadOnly ∧ a' = a)) ∧
        (∀ m t, (a.slots od.dir)[i]? = some (.dir m t) → a' = a ∧
          ((step s (.openFile d name mode)).2.result = .err .FileAlreadyExists ∨
           (step s (.openFile d name mode)).2.result = .err .ReadOnly ∨
           (step s (.openFile d name mode)).2.result = .err .OpenedDirAsFile))) := by
  obtain ⟨gh', a', h1, h3, h4⟩ := openFile_spec hI hA d name mode hname
  refine ⟨gh', a', h1, h3, ?_, ?_⟩
  · intro hfull
    unfold Spec.AbsFs.openFileS at h4
    rw [if_pos hfull] at h4
    exact ⟨h4.2, h4.1⟩
  · intro hnf od sfn i hctx hlk
    unfold Spec.AbsFs.openFileS at h4
    rw [if_neg hnf, hctx] at h4
    dsimp only at h4
    rw [hlk] at h4
    dsimp only at h4
    constructor
    · intro m bytes hsl
      rw [hsl] at h4
      dsimp only at h4
      constructor
      · intro ho
        rw [if_pos ho] at h4
        exact ⟨h4.2, h4.1⟩
      · intro ho hm hro hmr
        rw [if_neg (by rw [ho]; exact Bool.false_ne_true), if_neg hm, if_pos ⟨hro, hmr⟩] at h4
        exact ⟨h4.2, h4.1⟩
    · intro m t hsl
      rw [hsl] at h4
      dsimp only at h4
      split at h4
      · exact ⟨h4.1, .inl h4.2⟩
      · split at h4
        · exact ⟨h4.1, .inr (.inl h4.2)⟩
        · exact ⟨h4.1, .inr (.inr h4.2)⟩

/-! ### Everything else is unchanged -/

/-- **A call changes at most one slot of the existing directories** — the one `touched` names (the slot of the handle
for `write` / `flush_file` / `close_file`, the slot of the name — or the first free slot — for `open_file_in_dir`
/ `delete_file_in_dir` / `make_dir_in_dir`; none for every other call): every other slot of every existing
directory, that is every other file's bytes and stored entry and every other directory entry, reads as before. -/
theorem untouched_unchanged (hI : VolInv s gh) (hA : Abs s gh a) (op : Op) (hc : FsCovered gh.vol s op) :
    ∃ gh' a', VolInv (step s op).1 gh' ∧ Abs (step s op).1 gh' a' ∧
      ∀ x j, x ∈ a.ids → Spec.AbsFs.touched a op ≠ some (x, j) → (a'.slots x)[j]? = (a.slots x)[j]? := by
  obtain ⟨gh', a', h1, _, h3, h4⟩ := step_abs hI hA op hc
  exact ⟨gh', a', h1, h3, fun x j hx hne => AbsFsTouch.absStep_untouched h4 hx hne⟩

end

end Sdmmc.Lemmas.AbsFs
