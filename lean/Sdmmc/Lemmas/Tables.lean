/-
Lemmas for C08, second half: stale handles are rejected, the limits are exact, the volume guards,
the open-handle query, the re-entrancy lock.  All by running the first steps of a call on a state
about which only the relevant table fact is known.
(`Sdmmc.Lemmas.TablesInv` has the first half: the invariant through calls and histories.)
-/
import Sdmmc.Lemmas.TablesInv

namespace Sdmmc.Lemmas.Tables
open Sdmmc.Model Sdmmc.Lemmas.MHoare

/-! ### Vocabulary (same bodies as in `Sdmmc.Props.C08`) -/

/-- The file handle a call takes. -/
def fileHandleOf : Op → Option Nat
  | .read f _ | .write f _ | .seekStart f _ | .seekCur f _ | .seekEnd f _
  | .flush f | .closeFile f | .length f | .offset f | .eof f => some f
  | _ => none

/-- The directory handle a call takes. -/
def dirHandleOf : Op → Option Nat
  | .openDir d _ | .closeDir d | .openFile d _ _ | .delete d _ | .mkdir d _
  | .find d _ | .list d | .listLfn d _ => some d
  | _ => none

/-- Calls that check for a free directory slot before anything else. -/
def needsDirSlot : Op → Bool
  | .openDir _ _ | .mkdir _ _ => true
  | _ => false

/-- Calls that check for a free file slot before anything else. -/
def needsFileSlot : Op → Bool
  | .openFile _ _ _ => true
  | _ => false

/-- A call refused with error `e`: nothing read, nothing written. -/
def refused (e : Err) : Out := { result := .err e, writes := [], reads := [] }

/-- A refusal of `runOp` from the log-reset state is a refusal of `step` that changes nothing. -/
theorem step_of_refusal (s : Mgr) (op : Op) (e : Err) (hl : s.locked = false)
    (h : runOp op (resetLogs s) = (.err e, resetLogs s)) : step s op = (resetLogs s, refused e) := by
  rw [step_unlocked s op hl, h]
  rfl

/-! ### Stale file handles -/

section
variable {s : Mgr} {f : Nat}

theorem noFile (hf : f ∉ s.files.map (·.rawFile)) : getFileById f s = (.err .BadHandle, s) :=
  getFileById_bad (findIdx?_none_of_not_mem s.files (·.rawFile) f hf)

theorem read_bad (n : Nat) (hf : f ∉ s.files.map (·.rawFile)) : Model.read f n s = (.err .BadHandle, s) := by
  unfold Model.read; exact bind_err (noFile hf)
theorem write_bad (b : Bytes) (hf : f ∉ s.files.map (·.rawFile)) : write f b s = (.err .BadHandle, s) := by
  unfold write; exact bind_err (noFile hf)
theorem seekStart_bad (n : Nat) (hf : f ∉ s.files.map (·.rawFile)) :
    fileSeekFromStart f n s = (.err .BadHandle, s) := by
  unfold fileSeekFromStart; exact bind_err (noFile hf)
theorem seekCur_bad (n : Int) (hf : f ∉ s.files.map (·.rawFile)) :
    fileSeekFromCurrent f n s = (.err .BadHandle, s) := by
  unfold fileSeekFromCurrent; exact bind_err (noFile hf)
theorem seekEnd_bad (n : Nat) (hf : f ∉ s.files.map (·.rawFile)) :
    fileSeekFromEnd f n s = (.err .BadHandle, s) := by
  unfold fileSeekFromEnd; exact bind_err (noFile hf)
theorem flush_bad (hf : f ∉ s.files.map (·.rawFile)) : flushFile f s = (.err .BadHandle, s) := by
  unfold flushFile; exact bind_err (noFile hf)
theorem closeFile_bad (hf : f ∉ s.files.map (·.rawFile)) : closeFile f s = (.err .BadHandle, s) := by
  unfold closeFile
  rw [attempt_bind, flush_bad hf]
  exact bind_err (noFile hf)
theorem length_bad (hf : f ∉ s.files.map (·.rawFile)) : fileLength f s = (.err .BadHandle, s) := by
  unfold fileLength; exact bind_err (noFile hf)
theorem offset_bad (hf : f ∉ s.files.map (·.rawFile)) : fileOffset f s = (.err .BadHandle, s) := by
  unfold fileOffset; exact bind_err (noFile hf)
theorem eof_bad (hf : f ∉ s.files.map (·.rawFile)) : fileEof f s = (.err .BadHandle, s) := by
  unfold fileEof; exact bind_err (noFile hf)

theorem runOp_bad_file (op : Op) (hop : fileHandleOf op = some f) (hf : f ∉ s.files.map (·.rawFile)) :
    runOp op s = (.err .BadHandle, s) := by
  cases op <;> simp only [fileHandleOf, Option.some.injEq, reduceCtorEq] at hop <;> subst hop <;> unfold runOp
  · exact bind_err (read_bad _ hf)
  · exact bind_err (write_bad _ hf)
  · exact bind_err (seekStart_bad _ hf)
  · exact bind_err (seekCur_bad _ hf)
  · exact bind_err (seekEnd_bad _ hf)
  · exact bind_err (flush_bad hf)
  · exact bind_err (closeFile_bad hf)
  · exact bind_err (length_bad hf)
  · exact bind_err (offset_bad hf)
  · exact bind_err (eof_bad hf)
end

theorem bad_file_handle_rejected (s : Mgr) (op : Op) (f : Nat) (hop : fileHandleOf op = some f)
    (hl : s.locked = false) (hf : f ∉ s.files.map (·.rawFile)) :
    step s op = (resetLogs s, refused .BadHandle) :=
  step_of_refusal s op _ hl (runOp_bad_file op hop hf)

/-! ### Stale directory handles -/

section
variable {s : Mgr} {d : Nat}

theorem noDir (hd : d ∉ s.dirs.map (·.rawDirectory)) : getDirById d s = (.err .BadHandle, s) :=
  getDirById_bad (findIdx?_none_of_not_mem s.dirs (·.rawDirectory) d hd)

theorem openDir_bad (nm : List Nat) (hd : d ∉ s.dirs.map (·.rawDirectory)) (hr : s.dirs.length < s.maxDirs) :
    openDir d nm s = (.err .BadHandle, s) := by
  unfold openDir
  rw [get_bind, if_neg (by omega)]
  exact bind_err (noDir hd)
theorem closeDir_bad (hd : d ∉ s.dirs.map (·.rawDirectory)) : closeDir d s = (.err .BadHandle, s) := by
  unfold closeDir
  rw [get_bind, findIdx?_none_of_not_mem s.dirs (·.rawDirectory) d hd]
  rfl
theorem openFile_bad (nm : List Nat) (m : Mode) (hd : d ∉ s.dirs.map (·.rawDirectory))
    (hr : s.files.length < s.maxFiles) : openFileInDir d nm m s = (.err .BadHandle, s) := by
  unfold openFileInDir
  rw [get_bind, if_neg (by omega)]
  exact bind_err (noDir hd)
theorem delete_bad (nm : List Nat) (hd : d ∉ s.dirs.map (·.rawDirectory)) :
    deleteFileInDir d nm s = (.err .BadHandle, s) := by
  unfold deleteFileInDir; exact bind_err (noDir hd)
theorem mkdir_bad (nm : List Nat) (hd : d ∉ s.dirs.map (·.rawDirectory)) (hr : s.dirs.length < s.maxDirs) :
    makeDirInDir d nm s = (.err .BadHandle, s) := by
  unfold makeDirInDir
  rw [get_bind, if_neg (by omega)]
  exact bind_err (noDir hd)
theorem find_bad (nm : List Nat) (hd : d ∉ s.dirs.map (·.rawDirectory)) :
    findDirectoryEntry d nm s = (.err .BadHandle, s) := by
  unfold findDirectoryEntry; exact bind_err (noDir hd)
theorem list_bad (hd : d ∉ s.dirs.map (·.rawDirectory)) : iterateDir d s = (.err .BadHandle, s) := by
  unfold iterateDir; exact bind_err (noDir hd)
theorem listLfn_bad (n : Nat) (hd : d ∉ s.dirs.map (·.rawDirectory)) :
    iterateDirLfn d n s = (.err .BadHandle, s) := by
  unfold iterateDirLfn; exact bind_err (noDir hd)

theorem runOp_bad_dir (op : Op) (hop : dirHandleOf op = some d) (hd : d ∉ s.dirs.map (·.rawDirectory))
    (h1 : needsDirSlot op = true → s.dirs.length < s.maxDirs)
    (h2 : needsFileSlot op = true → s.files.length < s.maxFiles) :
    runOp op s = (.err .BadHandle, s) := by
  cases op <;> simp only [dirHandleOf, Option.some.injEq, reduceCtorEq] at hop <;> subst hop <;> unfold runOp
  · exact bind_err (openDir_bad _ hd (h1 rfl))
  · exact bind_err (closeDir_bad hd)
  · exact bind_err (openFile_bad _ _ hd (h2 rfl))
  · exact bind_err (delete_bad _ hd)
  · exact bind_err (mkdir_bad _ hd (h1 rfl))
  · exact bind_err (find_bad _ hd)
  · exact bind_err (list_bad hd)
  · exact bind_err (listLfn_bad _ hd)
end

theorem bad_dir_handle_rejected (s : Mgr) (op : Op) (d : Nat) (hop : dirHandleOf op = some d)
    (hl : s.locked = false) (hd : d ∉ s.dirs.map (·.rawDirectory))
    (h1 : needsDirSlot op = true → s.dirs.length < s.maxDirs)
    (h2 : needsFileSlot op = true → s.files.length < s.maxFiles) :
    step s op = (resetLogs s, refused .BadHandle) :=
  step_of_refusal s op _ hl (runOp_bad_dir op hop hd h1 h2)

/-! ### Stale volume handles -/

theorem noVol {s : Mgr} {v : Nat} (hv : v ∉ s.vols.map (·.rawVolume)) : getVolumeById v s = (.err .BadHandle, s) :=
  getVolumeById_bad (findIdx?_none_of_not_mem s.vols (·.rawVolume) v hv)

theorem closeVolume_bad {s : Mgr} {v : Nat} (hv : v ∉ s.vols.map (·.rawVolume))
    (hf : v ∉ s.files.map (·.rawVolume)) (hd : v ∉ s.dirs.map (·.rawVolume)) :
    closeVolume v s = (.err .BadHandle, s) := by
  unfold closeVolume
  have c1 : ¬ (s.files.any (·.rawVolume = v)) = true := by
    intro h
    obtain ⟨x, hx, hxv⟩ := List.any_eq_true.1 h
    exact hf (List.mem_map.2 ⟨x, hx, by simpa using hxv⟩)
  have c2 : ¬ (s.dirs.any (·.rawVolume = v)) = true := by
    intro h
    obtain ⟨x, hx, hxv⟩ := List.any_eq_true.1 h
    exact hd (List.mem_map.2 ⟨x, hx, by simpa using hxv⟩)
  rw [get_bind, if_neg c1, if_neg c2]
  exact bind_err (noVol hv)

theorem label_bad {s : Mgr} {v : Nat} (hv : v ∉ s.vols.map (·.rawVolume)) :
    getRootVolumeLabel v s = (.err .BadHandle, s) := by
  unfold getRootVolumeLabel; exact bind_err (noVol hv)

theorem bad_volume_handle_close (s : Mgr) (v : Nat) (hl : s.locked = false) (hv : v ∉ s.vols.map (·.rawVolume))
    (hf : v ∉ s.files.map (·.rawVolume)) (hd : v ∉ s.dirs.map (·.rawVolume)) :
    step s (.closeVolume v) = (resetLogs s, refused .BadHandle) :=
  step_of_refusal s _ _ hl (by unfold runOp; exact bind_err (closeVolume_bad (s := resetLogs s) hv hf hd))

theorem bad_volume_handle_label (s : Mgr) (v : Nat) (hl : s.locked = false) (hv : v ∉ s.vols.map (·.rawVolume)) :
    step s (.label v) = (resetLogs s, refused .BadHandle) :=
  step_of_refusal s _ _ hl (by unfold runOp; exact bind_err (label_bad (s := resetLogs s) hv))

/-! ### The limits -/

theorem limit_files (s : Mgr) (d : Nat) (nm : List Nat) (m : Mode) (hl : s.locked = false)
    (hfull : s.files.length ≥ s.maxFiles) :
    step s (.openFile d nm m) = (resetLogs s, refused .TooManyOpenFiles) := by
  refine step_of_refusal s _ _ hl ?_
  unfold runOp
  refine bind_err ?_
  unfold openFileInDir
  rw [get_bind, if_pos (show (resetLogs s).files.length ≥ (resetLogs s).maxFiles from hfull)]
  rfl

theorem limit_dirs_openDir (s : Mgr) (d : Nat) (nm : List Nat) (hl : s.locked = false)
    (hfull : s.dirs.length ≥ s.maxDirs) :
    step s (.openDir d nm) = (resetLogs s, refused .TooManyOpenDirs) := by
  refine step_of_refusal s _ _ hl ?_
  unfold runOp
  refine bind_err ?_
  unfold openDir
  rw [get_bind, if_pos (show (resetLogs s).dirs.length ≥ (resetLogs s).maxDirs from hfull)]
  rfl

theorem limit_dirs_mkdir (s : Mgr) (d : Nat) (nm : List Nat) (hl : s.locked = false)
    (hfull : s.dirs.length ≥ s.maxDirs) :
    step s (.mkdir d nm) = (resetLogs s, refused .TooManyOpenDirs) := by
  refine step_of_refusal s _ _ hl ?_
  unfold runOp
  refine bind_err ?_
  unfold makeDirInDir
  rw [get_bind, if_pos (show (resetLogs s).dirs.length ≥ (resetLogs s).maxDirs from hfull)]
  rfl

theorem openRootDir_full (v : Nat) (s : Mgr) (h : s.dirs.length ≥ s.maxDirs) :
    openRootDir v s = (.err .TooManyOpenDirs, { s with nextId := (s.nextId + 1) % 4294967296 }) := by
  unfold openRootDir
  rw [generate_bind, get_bind]
  dsimp only
  rw [if_pos h]
  rfl

/-- `open_root_dir` draws a handle id before it looks at the table: the refusal costs one id. -/
theorem limit_dirs_openRoot (s : Mgr) (v : Nat) (hl : s.locked = false) (hfull : s.dirs.length ≥ s.maxDirs) :
    step s (.openRoot v) =
      ({ resetLogs s with nextId := (s.nextId + 1) % 4294967296 }, refused .TooManyOpenDirs) := by
  rw [step_unlocked s _ hl]
  have : runOp (.openRoot v) (resetLogs s) =
      (.err .TooManyOpenDirs, { resetLogs s with nextId := (s.nextId + 1) % 4294967296 }) := by
    unfold runOp
    exact bind_err (openRootDir_full v (resetLogs s) hfull)
  rw [this]
  rfl

theorem limit_vols (s : Mgr) (i : Nat) (hl : s.locked = false) (hfull : s.vols.length ≥ s.maxVols) :
    step s (.openVolume i) = (resetLogs s, refused .TooManyOpenVolumes) := by
  refine step_of_refusal s _ _ hl ?_
  unfold runOp
  refine bind_err ?_
  unfold openRawVolume
  rw [get_bind, if_pos (show (resetLogs s).vols.length ≥ (resetLogs s).maxVols from hfull)]
  rfl

/-! ### Volume guards -/

theorem close_volume_guard (s : Mgr) (v : Nat) (hl : s.locked = false)
    (hu : v ∈ s.files.map (·.rawVolume) ∨ v ∈ s.dirs.map (·.rawVolume)) :
    step s (.closeVolume v) = (resetLogs s, refused .VolumeStillInUse) := by
  refine step_of_refusal s _ _ hl ?_
  unfold runOp
  refine bind_err ?_
  unfold closeVolume
  rw [get_bind]
  by_cases c1 : ((resetLogs s).files.any (·.rawVolume = v)) = true
  · rw [if_pos c1]; rfl
  · rw [if_neg c1]
    have c2 : ((resetLogs s).dirs.any (·.rawVolume = v)) = true := by
      rcases hu with hu | hu
      · exfalso; apply c1
        obtain ⟨x, hx, hxv⟩ := List.mem_map.1 hu
        exact List.any_eq_true.2 ⟨x, hx, by simpa using hxv⟩
      · obtain ⟨x, hx, hxv⟩ := List.mem_map.1 hu
        exact List.any_eq_true.2 ⟨x, hx, by simpa using hxv⟩
    rw [if_pos c2]; rfl

theorem volume_double_open (s : Mgr) (i : Nat) (hl : s.locked = false) (hroom : s.vols.length < s.maxVols)
    (ho : i ∈ s.vols.map (·.idx)) :
    step s (.openVolume i) = (resetLogs s, refused .VolumeAlreadyOpen) := by
  refine step_of_refusal s _ _ hl ?_
  unfold runOp
  refine bind_err ?_
  unfold openRawVolume
  have c2 : ((resetLogs s).vols.any (·.idx = i)) = true := by
    obtain ⟨x, hx, hxv⟩ := List.mem_map.1 ho
    exact List.any_eq_true.2 ⟨x, hx, by simpa using hxv⟩
  rw [get_bind, if_neg (show ¬ (resetLogs s).vols.length ≥ (resetLogs s).maxVols from by
    show ¬ s.vols.length ≥ s.maxVols; omega), if_pos c2]
  rfl

/-! ### The open-handle query, the lock -/

theorem has_open_handles_truth (s : Mgr) : hasOpenHandles s = true ↔ s.dirs ≠ [] ∨ s.files ≠ [] := by
  unfold hasOpenHandles
  cases s.dirs <;> cases s.files <;> simp

theorem has_open_step (s : Mgr) (hl : s.locked = false) :
    step s .hasOpen = (resetLogs s, { result := .ok (.bool (hasOpenHandles s)), writes := [], reads := [] }) := by
  rw [step_unlocked s _ hl]; rfl

theorem reentrant_lock (s : Mgr) (op : Op) (h : op.returnsResult = true) :
    step { s with locked := true } op = ({ s with locked := true }, refused .LockError) := by
  unfold step
  rw [if_pos rfl, if_pos h]
  rfl

/-! ### Closing frees the slot and kills the handle -/

theorem HInv.vols_nodup {s : Mgr} (h : HInv s) : (s.vols.map (·.rawVolume)).Nodup :=
  (List.nodup_append.1 (List.nodup_append.1 h.1).1).1
theorem HInv.dirs_nodup {s : Mgr} (h : HInv s) : (s.dirs.map (·.rawDirectory)).Nodup :=
  (List.nodup_append.1 (List.nodup_append.1 h.1).1).2.1
theorem HInv.files_nodup {s : Mgr} (h : HInv s) : (s.files.map (·.rawFile)).Nodup :=
  (List.nodup_append.1 h.1).2.1

/-- `close_dir` on an open handle: the slot holding it is swap-removed, nothing else happens. -/
theorem closeDir_open {s : Mgr} {d : Nat} (hd : d ∈ s.dirs.map (·.rawDirectory)) :
    ∃ i x, s.dirs[i]? = some x ∧ x.rawDirectory = d ∧
      closeDir d s = (.ok (), { s with dirs := swapRemove s.dirs i }) := by
  obtain ⟨i, x, hi, hx, hk⟩ := findIdx?_some_of_mem s.dirs (·.rawDirectory) d hd
  refine ⟨i, x, hx, hk, ?_⟩
  unfold closeDir
  rw [get_bind, hi]
  rfl

theorem close_dir_effect (s : Mgr) (d : Nat) (hl : s.locked = false) (hn : (s.dirs.map (·.rawDirectory)).Nodup)
    (hd : d ∈ s.dirs.map (·.rawDirectory)) :
    (step s (.closeDir d)).2.result = .ok .unit ∧
    (step s (.closeDir d)).1.dirs.length = s.dirs.length - 1 ∧
    d ∉ (step s (.closeDir d)).1.dirs.map (·.rawDirectory) ∧
    (step s (.closeDir d)).1.files = s.files ∧ (step s (.closeDir d)).1.vols = s.vols ∧
    (step s (.closeDir d)).1.nextId = s.nextId := by
  obtain ⟨i, x, hx, hk, hc⟩ := closeDir_open (s := resetLogs s) hd
  replace hx : s.dirs[i]? = some x := hx
  have hr : runOp (.closeDir d) (resetLogs s) = (.ok .unit, { resetLogs s with dirs := swapRemove s.dirs i }) := by
    show (closeDir d >>= fun _ => pure Payload.unit) (resetLogs s) = _
    rw [bind_ok hc]; rfl
  rw [step_unlocked s _ hl, hr]
  have hi : i < s.dirs.length := by
    rcases Nat.lt_or_ge i s.dirs.length with h | h
    · exact h
    · have : s.dirs[i]? = none := by simp [h]
      rw [this] at hx; cases hx
  refine ⟨rfl, swapRemove_length s.dirs i hi, ?_, rfl, rfl, rfl⟩
  rw [← hk]
  exact swapRemove_not_mem s.dirs (·.rawDirectory) i x hx hn

/-- Whatever `close_dir d` answers, `d` is not an open directory handle afterwards. -/
theorem closed_dir_stays_bad (s : Mgr) (d : Nat) (hl : s.locked = false)
    (hn : (s.dirs.map (·.rawDirectory)).Nodup) :
    d ∉ (step s (.closeDir d)).1.dirs.map (·.rawDirectory) := by
  by_cases hd : d ∈ s.dirs.map (·.rawDirectory)
  · exact (close_dir_effect s d hl hn hd).2.2.1
  · rw [bad_dir_handle_rejected s _ d rfl hl hd (by intro h; cases h) (by intro h; cases h)]
    exact hd

/-- `close_file` on an open handle: flush (whatever it answers), then the slot is swap-removed. -/
theorem closeFile_open {s : Mgr} {f : Nat} (hf : f ∈ s.files.map (·.rawFile)) :
    ∃ i x, (flushFile f s).2.files[i]? = some x ∧ x.rawFile = f ∧
      closeFile f s = ((flushFile f s).1,
        { (flushFile f s).2 with files := swapRemove (flushFile f s).2.files i }) := by
  have hfr := resp_flushFile f s
  have hf1 : f ∈ (flushFile f s).2.files.map (·.rawFile) := by rw [hfr.fileIds]; exact hf
  obtain ⟨i, x, hi, hx, hk⟩ := findIdx?_some_of_mem (flushFile f s).2.files (·.rawFile) f hf1
  refine ⟨i, x, hx, hk, ?_⟩
  unfold closeFile
  rw [attempt_bind, bind_ok (getFileById_ok hi), modify_bind]
  rfl

theorem close_file_effect (s : Mgr) (f : Nat) (hl : s.locked = false) (hn : (s.files.map (·.rawFile)).Nodup)
    (hf : f ∈ s.files.map (·.rawFile)) :
    (step s (.closeFile f)).1.files.length = s.files.length - 1 ∧
    f ∉ (step s (.closeFile f)).1.files.map (·.rawFile) ∧
    (step s (.closeFile f)).1.dirs = s.dirs ∧
    (step s (.closeFile f)).1.vols.map (·.rawVolume) = s.vols.map (·.rawVolume) ∧
    (step s (.closeFile f)).1.nextId = s.nextId := by
  obtain ⟨i, x, hx, hk, hc⟩ := closeFile_open (s := resetLogs s) hf
  have hfr := resp_flushFile f (resetLogs s)
  have hr : (runOp (.closeFile f) (resetLogs s)).2 =
      { (flushFile f (resetLogs s)).2 with files := swapRemove (flushFile f (resetLogs s)).2.files i } := by
    show ((closeFile f >>= fun _ => pure Payload.unit) (resetLogs s)).2 = _
    rw [bind_def, hc]
    cases (flushFile f (resetLogs s)).1 <;> rfl
  rw [step_unlocked s _ hl]
  show (runOp (.closeFile f) (resetLogs s)).2.files.length = _ ∧ f ∉ (runOp _ (resetLogs s)).2.files.map _ ∧
    (runOp _ (resetLogs s)).2.dirs = _ ∧ (runOp _ (resetLogs s)).2.vols.map _ = _ ∧
    (runOp _ (resetLogs s)).2.nextId = _
  rw [hr]
  have hi : i < (flushFile f (resetLogs s)).2.files.length := by
    rcases Nat.lt_or_ge i (flushFile f (resetLogs s)).2.files.length with h | h
    · exact h
    · have : (flushFile f (resetLogs s)).2.files[i]? = none := by simp [h]
      rw [this] at hx; cases hx
  refine ⟨?_, ?_, hfr.dirs, hfr.volHandles, hfr.nextId⟩
  · show (swapRemove _ i).length = _
    rw [swapRemove_length _ i hi, hfr.files_length]; rfl
  · have := swapRemove_not_mem (flushFile f (resetLogs s)).2.files (·.rawFile) i x hx
      (by rw [hfr.fileIds]; exact hn)
    rw [hk] at this
    exact this

/-- Whatever `close_file f` answers (a failing flush included), `f` is not an open file handle afterwards. -/
theorem closed_file_stays_bad (s : Mgr) (f : Nat) (hl : s.locked = false)
    (hn : (s.files.map (·.rawFile)).Nodup) :
    f ∉ (step s (.closeFile f)).1.files.map (·.rawFile) := by
  by_cases hf : f ∈ s.files.map (·.rawFile)
  · exact (close_file_effect s f hl hn hf).2.1
  · rw [bad_file_handle_rejected s _ f rfl hl hf]
    exact hf

/-- A successful `close_volume`: the guards passed, the handle was open at slot `i`, the info
sector update succeeded, and that slot is swap-removed. -/
theorem closeVolume_ok {s : Mgr} {v : Nat} (h : (closeVolume v s).1 = .ok ()) :
    ∃ i, s.vols.findIdx? (·.rawVolume = v) = some i ∧
      (closeVolume v s).2 = { (withVol i Fat.updateInfoSector s).2 with
        vols := swapRemove (withVol i Fat.updateInfoSector s).2.vols i } := by
  unfold closeVolume at h ⊢
  rw [get_bind] at h ⊢
  by_cases c1 : (s.files.any (·.rawVolume = v)) = true
  · rw [if_pos c1] at h; cases h
  rw [if_neg c1] at h ⊢
  by_cases c2 : (s.dirs.any (·.rawVolume = v)) = true
  · rw [if_pos c2] at h; cases h
  rw [if_neg c2] at h ⊢
  cases hi : s.vols.findIdx? (·.rawVolume = v) with
  | none => rw [bind_err (getVolumeById_bad hi)] at h; cases h
  | some i =>
    refine ⟨i, rfl, ?_⟩
    rw [bind_ok (getVolumeById_ok hi)] at h ⊢
    rw [bind_def] at h ⊢
    rcases hw : withVol i Fat.updateInfoSector s with ⟨r, s1⟩
    rw [hw] at h
    cases r with
    | ok a => rfl
    | err e => cases h
    | panic m => cases h
    | diverged => cases h

theorem close_volume_effect (s : Mgr) (v : Nat) (hl : s.locked = false) (hn : (s.vols.map (·.rawVolume)).Nodup)
    (hok : (step s (.closeVolume v)).2.result = .ok .unit) :
    (step s (.closeVolume v)).1.vols.length = s.vols.length - 1 ∧
    v ∉ (step s (.closeVolume v)).1.vols.map (·.rawVolume) ∧
    v ∈ s.vols.map (·.rawVolume) ∧ v ∉ s.files.map (·.rawVolume) ∧ v ∉ s.dirs.map (·.rawVolume) ∧
    (step s (.closeVolume v)).1.dirs = s.dirs ∧
    (step s (.closeVolume v)).1.files.map (·.rawFile) = s.files.map (·.rawFile) ∧
    (step s (.closeVolume v)).1.nextId = s.nextId := by
  rw [step_unlocked s _ hl] at hok ⊢
  have e : runOp (.closeVolume v) (resetLogs s) = (closeVolume v >>= fun _ => pure Payload.unit) (resetLogs s) := rfl
  have hok1 : (closeVolume v (resetLogs s)).1 = .ok () := by
    have : ((closeVolume v >>= fun _ => pure Payload.unit) (resetLogs s)).1 = .ok .unit := hok
    rw [bind_def] at this
    rcases hc : closeVolume v (resetLogs s) with ⟨r, s1⟩
    rw [hc] at this
    cases r with
    | ok a => rfl
    | err e => cases this
    | panic m => cases this
    | diverged => cases this
  have hst : (runOp (.closeVolume v) (resetLogs s)).2 = (closeVolume v (resetLogs s)).2 := by
    rw [e, bind_def]
    rcases hc : closeVolume v (resetLogs s) with ⟨r, s1⟩
    cases r <;> rfl
  obtain ⟨i, hi, hcs⟩ := closeVolume_ok hok1
  have hfr := resp_withVol i Fat.updateInfoSector (resetLogs s)
  obtain ⟨x, hx, hxp⟩ := findIdx?_some_get hi
  replace hx : s.vols[i]? = some x := hx
  have hxv : x.rawVolume = v := by simpa using hxp
  have hil : i < s.vols.length := by
    rcases Nat.lt_or_ge i s.vols.length with h | h
    · exact h
    · have : s.vols[i]? = none := by simp [h]
      rw [this] at hx; cases hx
  have hvl : (withVol i Fat.updateInfoSector (resetLogs s)).2.vols.length = s.vols.length := hfr.vols_length
  have hmap : (withVol i Fat.updateInfoSector (resetLogs s)).2.vols.map (·.rawVolume) = s.vols.map (·.rawVolume) :=
    hfr.volHandles
  -- the record at slot `i` after the update still carries `v`
  have hx1 : ∃ y, (withVol i Fat.updateInfoSector (resetLogs s)).2.vols[i]? = some y ∧ y.rawVolume = v := by
    have h1 := congrArg (fun l => l[i]?) hmap
    simp only [List.getElem?_map, hx, Option.map_some] at h1
    cases hy : (withVol i Fat.updateInfoSector (resetLogs s)).2.vols[i]? with
    | none => rw [hy] at h1; cases h1
    | some y => rw [hy] at h1; exact ⟨y, rfl, by simpa [hxv] using h1⟩
  obtain ⟨y, hy, hyv⟩ := hx1
  -- the guards
  have hguard : v ∉ s.files.map (·.rawVolume) ∧ v ∉ s.dirs.map (·.rawVolume) := by
    constructor
    · intro hm
      have := close_volume_guard s v hl (Or.inl hm)
      rw [step_unlocked s _ hl] at this
      have h2 := congrArg (fun p => p.2.result) this
      simp only [refused] at h2
      rw [h2] at hok; cases hok
    · intro hm
      have := close_volume_guard s v hl (Or.inr hm)
      rw [step_unlocked s _ hl] at this
      have h2 := congrArg (fun p => p.2.result) this
      simp only [refused] at h2
      rw [h2] at hok; cases hok
  show (runOp _ (resetLogs s)).2.vols.length = _ ∧ v ∉ (runOp _ (resetLogs s)).2.vols.map _ ∧ _ ∧ _ ∧ _ ∧
    (runOp _ (resetLogs s)).2.dirs = _ ∧ (runOp _ (resetLogs s)).2.files.map _ = _ ∧ (runOp _ (resetLogs s)).2.nextId = _
  rw [hst, hcs]
  refine ⟨?_, ?_, ?_, hguard.1, hguard.2, hfr.dirs, hfr.fileIds, hfr.nextId⟩
  · show (swapRemove _ i).length = _
    rw [swapRemove_length _ i (by rw [hvl]; exact hil), hvl]
  · have := swapRemove_not_mem (withVol i Fat.updateInfoSector (resetLogs s)).2.vols (·.rawVolume) i y hy
      (by rw [hmap]; exact hn)
    rw [hyv] at this
    exact this
  · exact List.mem_map.2 ⟨x, List.mem_of_getElem? hx, hxv⟩

end Sdmmc.Lemmas.Tables
