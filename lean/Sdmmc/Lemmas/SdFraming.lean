/-
Lemmas for C14, part 13: the data phase of `write` (tokens, payload, CRC, stop token) and the
termination of multi-block transfers.
-/
import Sdmmc.Lemmas.SdData
import Sdmmc.Lemmas.SdNoPanic

namespace Sdmmc.Lemmas.Sd
open Sdmmc.Model Sdmmc.Model.Sd Sdmmc.Gen

variable {σ : Type} {α β : Type} (B : BusOps σ)

/-- Data-phase events sent by the host: single bytes (tokens) and blocks (payload, CRC). -/
def isData : Event → Bool
  | .byte _ => true
  | .dataOut _ => true
  | _ => false

/-- The data-phase events of a log, in order.  Same body as `Sdmmc.Props.C14.dataEvs`. -/
def dataEvs (evs : List Event) : List Event := evs.filter isData

@[simp] theorem dataEvs_append (a b : List Event) : dataEvs (a ++ b) = dataEvs a ++ dataEvs b := by
  simp [dataEvs]
@[simp] theorem dataEvs_nil : dataEvs [] = [] := rfl
theorem dataEvs_cons (e : Event) (l : List Event) :
    dataEvs (e :: l) = if isData e = true then e :: dataEvs l else dataEvs l := by
  simp [dataEvs, List.filter_cons]

theorem dataEvs_polls {evs : List Event} (h : AllPolls evs) : dataEvs evs = [] := by
  simp only [dataEvs, List.filter_eq_nil_iff]
  intro e he
  have := h e he
  cases e <;> simp_all [isPoll, isData]

theorem dataEvs_cmdChunk {c arg : Nat} {r : SRes Nat} {evs : List Event} (h : CmdChunk c arg r evs) :
    dataEvs evs = [] := by
  rcases h with ⟨pre, post, h1, h2, rfl, _⟩ | ⟨h1, _⟩
  · rw [dataEvs_append, dataEvs_polls h1, dataEvs_cons, dataEvs_polls h2]
    simp [isData]
  · exact dataEvs_polls h1

theorem dataEvs_acmdChunk {c arg : Nat} {r : SRes Nat} {evs : List Event} (h : AcmdChunk c arg r evs) :
    dataEvs evs = [] := by
  rcases h with ⟨r1, e1, e2, rfl, h1, h2⟩ | ⟨_, r1, h1⟩
  · simp [dataEvs_cmdChunk h1, dataEvs_cmdChunk h2]
  · exact dataEvs_cmdChunk h1

/-- `m`, run with CRC mode `u`, sends a prefix of the data-phase events `L`, and all of `L` when
it succeeds. -/
def DataSeq (u : Bool) (m : S σ α) (L : List Event) : Prop :=
  ∀ s, s.useCrc = u → TrAt m s (fun r evs => dataEvs evs <+: L ∧ ((∃ a, r = .ok a) → dataEvs evs = L))

namespace DataSeq
variable {u : Bool}

theorem of_nodata {m : S σ α} (h : Tr m (fun _ evs => dataEvs evs = [])) : DataSeq u m [] :=
  fun s _ => (h s).conseq fun _ _ he => by simp [he]

theorem pure (a : α) : DataSeq u (pure a : S σ α) [] := of_nodata ((Tr.pure a).conseq fun _ _ h => by simp [h.2])
theorem get : DataSeq u (S.get : S σ (St σ)) [] := of_nodata fun s => (TrAt.get s).conseq fun _ _ h => by simp [h.2]
theorem lift (r : SRes α) : DataSeq u (S.lift r : S σ α) [] := of_nodata ((Tr.lift r).conseq fun _ _ h => by simp [h.2])

/-- A failing step is compatible with any continuation of the sequence. -/
theorem fail (e : SdErr) (L : List Event) : DataSeq u (S.fail e : S σ α) L :=
  fun s _ => (Tr.fail e s).conseq fun r evs h => by
    obtain ⟨rfl, rfl⟩ := h
    exact ⟨List.nil_prefix, fun ⟨_, hr⟩ => by cases hr⟩

theorem bind {m : S σ α} {f : α → S σ β} {L1 L2 : List Event} (hm : DataSeq u m L1)
    (hf : ∀ a, DataSeq u (f a) L2) : DataSeq u (m >>= f) (L1 ++ L2) := by
  intro s hs
  refine ((hm s hs).bind' fun a s' _ hu => hf a s' (hu.trans hs)).conseq ?_
  rintro r evs (⟨a, e1, e2, rfl, h1, h2⟩ | ⟨e, rfl, h⟩ | ⟨p, rfl, h⟩)
  · have h1' := h1.2 ⟨a, rfl⟩
    refine ⟨?_, fun hr => ?_⟩
    · rw [dataEvs_append, h1']; exact (List.prefix_append_right_inj L1).mpr h2.1
    · rw [dataEvs_append, h1', h2.2 hr]
  · exact ⟨h.1.trans (List.prefix_append L1 L2), fun ⟨_, hr⟩ => by cases hr⟩
  · exact ⟨h.1.trans (List.prefix_append L1 L2), fun ⟨_, hr⟩ => by cases hr⟩

theorem ite {c : Prop} [Decidable c] {m1 m2 : S σ α} {L : List Event} (h1 : DataSeq u m1 L) (h2 : DataSeq u m2 L) :
    DataSeq u (if c then m1 else m2) L := by split <;> assumption

theorem cast {m : S σ α} {L L' : List Event} (h : DataSeq u m L) (he : L = L') : DataSeq u m L' := he ▸ h

end DataSeq

/-- The data-phase events of one block written with token `tok`. -/
def blockSeq (u : Bool) (tok : UInt8) (b : Bytes) : List Event := [.byte tok, .dataOut b, .dataOut (crcOut u b)]

theorem writeData_dataSeq (u : Bool) (tok : Nat) (b : Bytes) :
    DataSeq u (writeData B tok b) (blockSeq u (UInt8.ofNat tok) b) := by
  intro s hs
  subst hs
  refine (writeData_tr B tok b s).conseq ?_
  rintro r evs (⟨rfl, (rfl | rfl | rfl | rfl)⟩ | ⟨st, _, rfl, h5⟩)
  · exact ⟨⟨_, rfl⟩, fun ⟨_, hr⟩ => by cases hr⟩
  · exact ⟨⟨[_], rfl⟩, fun ⟨_, hr⟩ => by cases hr⟩
  · exact ⟨⟨[], rfl⟩, fun ⟨_, hr⟩ => by cases hr⟩
  · exact ⟨⟨[], rfl⟩, fun ⟨_, hr⟩ => by cases hr⟩
  · exact ⟨⟨[], rfl⟩, fun _ => rfl⟩

theorem waitNotBusy_nodata (u : Bool) (n : Nat) : DataSeq u (waitNotBusy B n) [] :=
  DataSeq.of_nodata ((waitNotBusy_tr B n).conseq fun _ _ h => dataEvs_polls h.1)

theorem cardCommand_nodata (u : Bool) (c arg : Nat) : DataSeq u (cardCommand B c arg) [] :=
  DataSeq.of_nodata ((cardCommand_tr B c arg).conseq fun _ _ h => dataEvs_cmdChunk h.1)

theorem cardAcmd_nodata (u : Bool) (c arg : Nat) : DataSeq u (cardAcmd B c arg) [] :=
  DataSeq.of_nodata ((cardAcmd_tr B c arg).conseq fun _ _ h => dataEvs_acmdChunk h.1)

theorem readByte_nodata (u : Bool) : DataSeq u (readByte B) [] :=
  DataSeq.of_nodata ((readByte_polls B).conseq fun _ _ h => dataEvs_polls h.1)

/-- Data-phase events of the block loop of a multi-block write. -/
def multiSeq (u : Bool) (blocks : List Bytes) : List Event :=
  blocks.flatMap fun b => blockSeq u 0xFC b

theorem writeBlocks_dataSeq (u : Bool) (l : List Bytes) : DataSeq u (writeBlocks B l) (multiSeq u l) := by
  induction l with
  | nil => unfold writeBlocks; exact DataSeq.pure ()
  | cons b rest ih =>
    unfold writeBlocks
    refine ((waitNotBusy_nodata B u _).bind fun _ => (writeData_dataSeq B u _ b).bind fun _ => ih).cast ?_
    simp [multiSeq, WRITE_MULTIPLE_TOKEN]

/-- The data-phase events of a whole `write`.  Same body as `Sdmmc.Props.C14.writeSeq`. -/
def writeSeq (u : Bool) : List Bytes → List Event
  | [b] => blockSeq u 0xFE b
  | blocks => multiSeq u blocks ++ [.byte 0xFD]

theorem write_dataSeq (u : Bool) (blocks : List Bytes) (idx : Nat) :
    DataSeq u (write B blocks idx) (writeSeq u blocks) := by
  unfold write
  refine (DataSeq.get.bind fun s => (DataSeq.lift _).bind fun start =>
    (?_ : DataSeq u _ (writeSeq u blocks))).cast (by simp)
  split
  · next b =>
    refine ((cardCommand_nodata B u _ _).bind fun _ => (writeData_dataSeq B u _ b).bind fun _ =>
      (waitNotBusy_nodata B u _).bind fun _ => (cardCommand_nodata B u _ _).bind fun r =>
        (?_ : DataSeq u _ [])).cast ?_
    · refine DataSeq.ite (DataSeq.fail _ _) ((readByte_nodata B u).bind fun _ => DataSeq.ite (DataSeq.fail _ _) (DataSeq.pure ()))
    · simp [writeSeq, DATA_START_BLOCK]
  · next hne =>
    have hw : writeSeq u blocks = multiSeq u blocks ++ [.byte 0xFD] := by
      unfold writeSeq
      split
      · next b => exact absurd rfl (hne b)
      · rfl
    refine ((cardAcmd_nodata B u _ _).bind fun _ => (waitNotBusy_nodata B u _).bind fun _ =>
      (cardCommand_nodata B u _ _).bind fun _ => (writeBlocks_dataSeq B u blocks).bind fun _ =>
        (waitNotBusy_nodata B u _).bind fun _ => (?_ : DataSeq u (writeByte B _) [.byte 0xFD]).bind fun _ =>
          waitNotBusy_nodata B u _).cast ?_
    · intro s _
      refine (writeByte_tr B _ s).conseq ?_
      rintro r evs ⟨rfl, hr⟩
      exact ⟨⟨[], rfl⟩, fun _ => rfl⟩
    · simp [hw]

/-! ### The command frames of a log -/

def isCmdEv : Event → Bool
  | .cmd _ => true
  | _ => false

/-- The command-frame events of a log, in order.  Same body as `Sdmmc.Props.C12.cmdEvs`. -/
def cmdEvs (evs : List Event) : List Event := evs.filter isCmdEv

@[simp] theorem cmdEvs_append (a b : List Event) : cmdEvs (a ++ b) = cmdEvs a ++ cmdEvs b := by
  simp [cmdEvs]
@[simp] theorem cmdEvs_nil : cmdEvs [] = [] := rfl
theorem cmdEvs_cons (e : Event) (l : List Event) :
    cmdEvs (e :: l) = if isCmdEv e = true then e :: cmdEvs l else cmdEvs l := by
  simp [cmdEvs, List.filter_cons]

theorem cmdEvs_polls {evs : List Event} (h : AllPolls evs) : cmdEvs evs = [] := by
  simp only [cmdEvs, List.filter_eq_nil_iff]
  intro e he
  have := h e he
  cases e <;> simp_all [isPoll, isCmdEv]

def NoCmds (evs : List Event) : Prop := cmdEvs evs = []

instance : Local NoCmds where
  nil := rfl
  single e he := by
    cases e <;> simp [NoCmds, cmdEvs, isCmdEv]
    exact absurd rfl (he _)
  append a b ha hb := by simp only [NoCmds] at *; simp [ha, hb]

/-! ### Termination of multi-block transfers -/

instance : Local (fun _ => True) where
  nil := trivial
  single _ _ := trivial
  append _ _ _ _ := trivial

theorem Tr.and_nopanic {m : S σ α} {P : SRes α → List Event → Prop} (h : Tr m P) (hn : NoPanic m) :
    Tr m (fun r evs => P r evs ∧ ∀ p, r ≠ .panic p) :=
  fun s => by
    obtain ⟨evs, h1, h2, h3, h4⟩ := h s
    exact ⟨evs, h1, h2, h3, h4, hn s⟩

/-- What follows a successful CMD18: the block loop, then — whatever the loop did — the CMD12
frame and its response polls. -/
theorem readMultiRest_tr (n : Nat) : Tr (do
    let r ← S.attempt (readBlocks B n)
    match r with
    | .panic p => S.lift (.panic p)
    | _ => do
      let stopped ← S.attempt (cardCommand B CMD12 0)
      match r, stopped with
      | .ok bs, .ok _ => pure bs
      | .ok _, .err e => S.fail e
      | .ok _, .panic p => S.lift (.panic p)
      | .err e, _ => S.fail e
      | .panic p, _ => S.lift (.panic p))
    (fun _ evs => ∃ pre post, evs = pre ++ Event.cmd (frame CMD12 0) :: post ∧ AllPolls post ∧ NoCmds pre) := by
  have hrb : Tr (readBlocks B n) (fun r evs => NoCmds evs ∧ ∀ p, r ≠ .panic p) :=
    Tr.and_nopanic (readBlocks_emits (Q := NoCmds) B n) (readBlocks_nopanic B n)
  refine (Tr.bind (Tr.attempt hrb) fun r =>
    (?_ : Tr _ (fun _ evs => (∀ p, r ≠ .panic p) → ∃ post, evs = Event.cmd (frame CMD12 0) :: post ∧ AllPolls post))).conseq ?_
  · cases r with
    | panic p => exact (Tr.lift _).conseq fun _ _ _ h => absurd rfl (h p)
    | ok bs =>
      refine (Tr.bind (Tr.attempt (cardCommand_tr B CMD12 0)) fun st => (?_ : Tr _ (fun _ evs => evs = []))).conseq ?_
      · cases st with
        | ok g => exact (Tr.pure _).conseq fun _ _ h => h.2
        | err e => exact (Tr.fail _).conseq fun _ _ h => h.2
        | panic p => exact (Tr.lift _).conseq fun _ _ h => h.2
      · rintro r' evs (⟨st, e1, e2, rfl, ⟨_, h0, h1, _⟩, rfl⟩ | ⟨e, rfl, _, h, _⟩ | ⟨p, rfl, _, h, _⟩) _
        · rcases h1 with ⟨pre, post, k1, k2, rfl, k3, _⟩ | ⟨_, _, k, _⟩
          · rw [k3 (Or.inr rfl)]; exact ⟨post, by simp, k2⟩
          · exact absurd rfl k
        · cases h
        · cases h
    | err e0 =>
      refine (Tr.bind (Tr.attempt (cardCommand_tr B CMD12 0)) fun st => (?_ : Tr _ (fun _ evs => evs = []))).conseq ?_
      · cases st with
        | ok g => exact (Tr.fail _).conseq fun _ _ h => h.2
        | err e => exact (Tr.fail _).conseq fun _ _ h => h.2
        | panic p => exact (Tr.fail _).conseq fun _ _ h => h.2
      · rintro r' evs (⟨st, e1, e2, rfl, ⟨_, h0, h1, _⟩, rfl⟩ | ⟨e, rfl, _, h, _⟩ | ⟨p, rfl, _, h, _⟩) _
        · rcases h1 with ⟨pre, post, k1, k2, rfl, k3, _⟩ | ⟨_, _, k, _⟩
          · rw [k3 (Or.inr rfl)]; exact ⟨post, by simp, k2⟩
          · exact absurd rfl k
        · cases h
        · cases h
  · rintro r' evs (⟨r, e1, e2, rfl, ⟨_, h0, hnc, h1⟩, h2⟩ | ⟨e, rfl, _, h, _⟩ | ⟨p, rfl, _, h, _⟩)
    · cases h0
      obtain ⟨post, rfl, hp⟩ := h2 h1
      exact ⟨e1, post, rfl, hp, hnc⟩
    · cases h
    · cases h

/-- A multi-block read whose CMD18 was answered always sends CMD12 afterwards (CMD12 has no
busy wait in front of it, so its frame goes out even if every block failed); only its response
polls follow. -/
theorem read_multi_terminated (n idx start : Nat) (hn : n ≠ 1) (s : St σ)
    (hstart : startIdx s.cardType idx = .ok start) (r1 : Nat) (s1 : St σ)
    (h18 : cardCommand B CMD18 start s = (.ok r1, s1)) :
    ∃ pre post, evsNew s (Sd.read B n idx s).2 = pre ++ Event.cmd (frame CMD12 0) :: post ∧
      Event.cmd (frame CMD18 start) ∈ pre ∧ AllPolls post := by
  obtain ⟨e1, g1, _, _, g4, _⟩ := cardCommand_tr B CMD18 start s
  rw [h18] at g1 g4
  simp only at g1 g4
  obtain ⟨e2, k1, _, _, pre2, post, rfl, hp, _⟩ := readMultiRest_tr B n s1
  have hread : Sd.read B n idx s = (do
      let r ← S.attempt (readBlocks B n)
      match r with
      | .panic p => S.lift (.panic p)
      | _ => do
        let stopped ← S.attempt (cardCommand B CMD12 0)
        match r, stopped with
        | .ok bs, .ok _ => pure bs
        | .ok _, .err e => S.fail e
        | .ok _, .panic p => S.lift (.panic p)
        | .err e, _ => S.fail e
        | .panic p, _ => S.lift (.panic p)) s1 := by
    unfold Sd.read
    rw [bind_ok (get_apply s), bind_ok (show S.lift (startIdx s.cardType idx) s = (.ok start, s) by rw [hstart]; rfl),
      if_neg hn, bind_ok h18]
    rfl
  rw [hread]
  have hev : evsNew s ((do
      let r ← S.attempt (readBlocks B n)
      match r with
      | .panic p => S.lift (.panic p)
      | _ => do
        let stopped ← S.attempt (cardCommand B CMD12 0)
        match r, stopped with
        | .ok bs, .ok _ => pure bs
        | .ok _, .err e => S.fail e
        | .ok _, .panic p => S.lift (.panic p)
        | .err e, _ => S.fail e
        | .panic p, _ => S.lift (.panic p)) s1).2 = e1 ++ (pre2 ++ Event.cmd (frame CMD12 0) :: post) :=
    evsNew_of_eq (by rw [k1, g1]; simp)
  rw [hev]
  refine ⟨e1 ++ pre2, post, by simp, ?_, hp⟩
  rcases g4 with ⟨pre, post1, _, _, rfl, _⟩ | ⟨_, _, _, e, he⟩
  · simp
  · cases he

/-- On success the log ends with a not-busy poll, the stop token, and the polls of the final
busy wait, the last of which shows the card not busy. -/
def EndsStop {α : Type} (r : SRes α) (evs : List Event) : Prop :=
  (∃ a, r = .ok a) → ∃ pre post, evs = pre ++ [Event.poll 255, Event.byte 0xFD] ++ post ∧ AllPolls post ∧
    post.getLast? = some (Event.poll 255)

theorem EndsStop.bind {m : S σ α} {f : α → S σ β} (hm : Emits (fun _ => True) m)
    (hf : ∀ a, Tr (f a) EndsStop) : Tr (m >>= f) EndsStop :=
  (Tr.bind hm hf).conseq fun r evs h => by
    rcases h with ⟨a, e1, e2, rfl, _, h2⟩ | ⟨e, rfl, _⟩ | ⟨p, rfl, _⟩
    · intro hr
      obtain ⟨pre, post, rfl, hp, hl⟩ := h2 hr
      exact ⟨e1 ++ pre, post, by simp, hp, hl⟩
    · rintro ⟨_, hr⟩; cases hr
    · rintro ⟨_, hr⟩; cases hr

theorem cardCommand_any (c arg : Nat) : Emits (fun _ => True) (cardCommand B c arg) :=
  (cardCommand_tr B c arg).conseq fun _ _ _ => trivial
theorem cardAcmd_any (c arg : Nat) : Emits (fun _ => True) (cardAcmd B c arg) :=
  (cardAcmd_tr B c arg).conseq fun _ _ _ => trivial

/-- A multi-block write that succeeds has sent the stop token 0xFD when the card was not busy, and
after it only the polls of the final busy wait, the last of which showed the card not busy again. -/
theorem write_multi_terminated (blocks : List Bytes) (idx : Nat) (hne : ∀ b, blocks ≠ [b]) (s : St σ)
    (hok : (write B blocks idx s).1 = .ok ()) :
    ∃ pre post, evsNew s (write B blocks idx s).2 = pre ++ [Event.poll 255, Event.byte 0xFD] ++ post ∧
      AllPolls post ∧ post.getLast? = some (Event.poll 255) := by
  have hlast : Tr (do
      waitNotBusy B DEFAULT_WRITE_RETRIES
      writeByte B (UInt8.ofNat STOP_TRAN_TOKEN)
      waitNotBusy B DEFAULT_WRITE_RETRIES) EndsStop := by
    refine (Tr.bind (waitNotBusy_tr B _) fun _ => Tr.bind (writeByte_tr B _) fun _ => waitNotBusy_tr B _).conseq ?_
    rintro r evs (⟨a, e1, e2, rfl, ⟨_, h1, _⟩, h2⟩ | ⟨e, rfl, _⟩ | ⟨p, rfl, _⟩)
    · rcases h2 with ⟨a', e21, e22, rfl, ⟨rfl, _⟩, hp, hl, _⟩ | ⟨e, rfl, _⟩ | ⟨p, rfl, _⟩
      · intro hr
        obtain ⟨u, rfl⟩ := hr
        have hl1 := h1 rfl
        obtain ⟨pre, rfl⟩ : ∃ pre, e1 = pre ++ [Event.poll 255] := by
          rcases List.eq_nil_or_concat e1 with rfl | ⟨pre, x, rfl⟩
          · simp at hl1
          · simp at hl1; exact ⟨pre, by rw [hl1]; simp⟩
        exact ⟨pre, e22, by simp [STOP_TRAN_TOKEN], hp, hl rfl⟩
      · rintro ⟨_, hr⟩; cases hr
      · rintro ⟨_, hr⟩; cases hr
    · rintro ⟨_, hr⟩; cases hr
    · rintro ⟨_, hr⟩; cases hr
  have hw : Tr (write B blocks idx) EndsStop := by
    unfold write
    refine EndsStop.bind Emits.get fun s => EndsStop.bind (Emits.lift _) fun start => ?_
    split
    · next b => exact absurd rfl (hne b)
    · exact EndsStop.bind (cardAcmd_any B _ _) fun _ => EndsStop.bind (waitNotBusy_emits B _) fun _ =>
        EndsStop.bind (cardCommand_any B _ _) fun _ => EndsStop.bind (writeBlocks_emits B _) fun _ => hlast
  exact (hw s).evsNew ⟨(), hok⟩

end Sdmmc.Lemmas.Sd
