/-
Lemmas for C14, part 13: the data phase of `write` (tokens, payload, CRC, stop token) and the
termination of multi-block transfers.
-/
import Sdmmc.Lemmas.SdData
import Sdmmc.Lemmas.SdNoPanic

namespace Sdmmc.Lemmas.Sd
open Sdmmc.Model Sdmmc.Model.Sd Sdmmc.Gen

variable {σ : Type} {α β : Type} (B : BusOps σ)

/-- Data-phase events sent by the host: single bytes (tokens) and blocks (payload, CRC). -/
def isData : Event → Bool
  | .byte _ => true
  | .dataOut _ => true
  | _ => false

/-- The data-phase events of a log, in order.  Same body as `Sdmmc.Props.C14.dataEvs`. -/
def dataEvs (evs : List Event) : List Event := evs.filter isData

@[simp] theorem dataEvs_append (a b : List Event) : dataEvs (a ++ b) = dataEvs a ++ dataEvs b := by
  simp [dataEvs]
@[simp] theorem dataEvs_nil : dataEvs [] = [] := rfl
theorem dataEvs_cons (e : Event) (l : List Event) :
    dataEvs (e :: l) = if isData e = true then e :: dataEvs l else dataEvs l := by
  simp [dataEvs, List.filter_cons]

theorem dataEvs_polls {evs : List Event} (h : AllPolls evs) : dataEvs evs = [] := by
  simp only [dataEvs, List.filter_eq_nil_iff]
  intro e he
  have := h e he
  cases e <;> simp_all [isPoll, isData]

theorem dataEvs_cmdChunk {c arg : Nat} {r : SRes Nat} {evs : List Event} (h : CmdChunk c arg r evs) :
    dataEvs evs = [] := by
  rcases h with ⟨pre, post, h1, h2, rfl, _⟩ | ⟨h1, _⟩
  · rw [dataEvs_append, dataEvs_polls h1, dataEvs_cons, dataEvs_polls h2]
    simp [isData]
  · exact dataEvs_polls h1

theorem dataEvs_acmdChunk {c arg : Nat} {r : SRes Nat} {evs : List Event} (h : AcmdChunk c arg r evs) :
    dataEvs evs = [] := by
  rcases h with ⟨r1, e1, e2, rfl, h1, h2⟩ | ⟨_, r1, h1⟩
  · simp [dataEvs_cmdChunk h1, dataEvs_cmdChunk h2]
  · exact dataEvs_cmdChunk h1

/-- `m`, run with CRC mode `u`, sends a prefix of the data-phase events `L`, and all of `L` when
it succeeds. -/
def DataSeq (u : Bool) (m : S σ α) (L : List Event) : Prop :=
  ∀ s, s.useCrc = u → TrAt m s (fun r evs => dataEvs evs <+: L ∧ ((∃ a, r = .ok a) → dataEvs evs = L))

namespace DataSeq
variable {u : Bool}

theorem of_nodata {m : S σ α} (h : Tr m (fun _ evs => dataEvs evs = [])) : DataSeq u m [] :=
  fun s _ => (h s).conseq fun _ _ he => by simp [he]

theorem pure (a : α) : DataSeq u (pure a : S σ α) [] := of_nodata ((Tr.pure a).conseq fun _ _ h => by simp [h.2])
theorem get : DataSeq u (S.get : S σ (St σ)) [] := of_nodata fun s => (TrAt.get s).conseq fun _ _ h => by simp [h.2]
theorem lift (r : SRes α) : DataSeq u (S.lift r : S σ α) [] := of_nodata ((Tr.lift r).conseq fun _ _ h => by simp [h.2])

/-- A failing step is compatible with any continuation of the sequence. -/
theorem fail (e : SdErr) (L : List Event) : DataSeq u (S.fail e : S σ α) L :=
  fun s _ => (Tr.fail e s).conseq fun r evs h => by
    obtain ⟨rfl, rfl⟩ := h
    exact ⟨List.nil_prefix, fun ⟨_, hr⟩ => by cases hr⟩

theorem bind {m : S σ α} {f : α → S σ β} {L1 L2 : List Event} (hm : DataSeq u m L1)
    (hf : ∀ a, DataSeq u (f a) L2) : DataSeq u (m >>= f) (L1 ++ L2) := by
  intro s hs
  refine ((hm s hs).bind' fun a s' _ hu => hf a s' (hu.trans hs)).conseq ?_
  rintro r evs (⟨a, e1, e2, rfl, h1, h2⟩ | ⟨e, rfl, h⟩ | ⟨p, rfl, h⟩)
  · have h1' := h1.2 ⟨a, rfl⟩
    refine ⟨?_, fun hr => ?_⟩
    · rw [dataEvs_append, h1']; exact (List.prefix_append_right_inj L1).mpr h2.1
    · rw [dataEvs_append, h1', h2.2 hr]
  · exact ⟨h.1.trans (List.prefix_append L1 L2), fun ⟨_, hr⟩ => by cases hr⟩
  · exact ⟨h.1.trans (List.prefix_append L1 L2), fun ⟨_, hr⟩ => by cases hr⟩

theorem ite {c : Prop} [Decidable c] {m1 m2 : S σ α} {L : List Event} (h1 : DataSeq u m1 L) (h2 : DataSeq u m2 L) :
    DataSeq u (if c then m1 else m2) L := by split <;> assumption

theorem cast {m : S σ α} {L L' : List Event} (h : DataSeq u m L) (he : L = L') : DataSeq u m L' := he ▸ h

end DataSeq

/-- The data-phase events of one block written with token `tok`. -/
def blockSeq (u : Bool) (tok : UInt8) (b : Bytes) : List Event := [.byte tok, .dataOut b, .dataOut (crcOut u b)]

theorem writeData_dataSeq (u : Bool) (tok : Nat) (b : Bytes) :
    DataSeq u (writeData B tok b) (blockSeq u (UInt8.ofNat tok) b) := by
  intro s hs
  subst hs
  refine (writeData_tr B tok b s).conseq ?_
  rintro r evs (⟨rfl, (rfl | rfl | rfl | rfl)⟩ | ⟨st, _, rfl, h5⟩)
  · exact ⟨⟨_, rfl⟩, fun ⟨_, hr⟩ => by cases hr⟩
  · exact ⟨⟨[_], rfl⟩, fun ⟨_, hr⟩ => by cases hr⟩
  · exact ⟨⟨[], rfl⟩, fun ⟨_, hr⟩ => by cases hr⟩
  · exact ⟨⟨[], rfl⟩, fun ⟨_, hr⟩ => by cases hr⟩
  · exact ⟨⟨[], rfl⟩, fun _ => rfl⟩

theorem waitNotBusy_nodata (u : Bool) (n : Nat) : DataSeq u (waitNotBusy B n) [] :=
  DataSeq.of_nodata ((waitNotBusy_tr B n).conseq fun _ _ h => dataEvs_polls h.1)

theorem cardCommand_nodata (u : Bool) (c arg : Nat) : DataSeq u (cardCommand B c arg) [] :=
  DataSeq.of_nodata ((cardCommand_tr B c arg).conseq fun _ _ h => dataEvs_cmdChunk h.1)

theorem cardAcmd_nodata (u : Bool) (c arg : Nat) : DataSeq u (cardAcmd B c arg) [] :=
  DataSeq.of_nodata ((cardAcmd_tr B c arg).conseq fun _ _ h => dataEvs_acmdChunk h.1)

theorem readByte_nodata (u : Bool) : DataSeq u (readByte B) [] :=
  DataSeq.of_nodata ((readByte_polls B).conseq fun _ _ h => dataEvs_polls h.1)

/-- Data-phase events of the block loop of a multi-block write. -/
def multiSeq (u : Bool) (blocks : List Bytes) : List Event :=
  blocks.flatMap fun b => blockSeq u 0xFC b

theorem writeBlocks_dataSeq (u : Bool) (l : List Bytes) : DataSeq u (writeBlocks B l) (multiSeq u l) := by
  induction l with
  | nil => unfold writeBlocks; exact DataSeq.pure ()
  | cons b rest ih =>
    unfold writeBlocks
    refine ((waitNotBusy_nodata B u _).bind fun _ => (writeData_dataSeq B u _ b).bind fun _ => ih).cast ?_
    simp [multiSeq, WRITE_MULTIPLE_TOKEN]

/-- The data-phase events of a whole `write`.  Same body as `Sdmmc.Props.C14.writeSeq`. -/
def writeSeq (u : Bool) : List Bytes → List Event
  | [b] => blockSeq u 0xFE b
  | blocks => multiSeq u blocks ++ [.byte 0xFD]

/-- How a multiple-block write combines the outcome of its block loop with the outcome of the
stop sequence (attempted either way): the loop's error wins. -/
def combineStop : SRes Unit → SRes Unit → SRes Unit
  | .ok _, .ok _ => .ok ()
  | .ok _, .err e => .err e
  | .ok _, .panic p => .panic p
  | .err e, _ => .err e
  | .panic p, _ => .panic p

/-- What follows CMD25 in a multiple-block write, named (the model writes it inline in `write`):
the block loop, then — whatever the loop did — the stop sequence. -/
def writeRest (B : BusOps σ) (blocks : List Bytes) : S σ Unit := do
  let r ← S.attempt (writeBlocks B blocks)
  match r with
  | .panic p => S.lift (.panic p)
  | _ => do
    let stopped ← S.attempt (stopWrite B)
    match r, stopped with
    | .ok _, .ok _ => pure ()
    | .ok _, .err e => S.fail e
    | .ok _, .panic p => S.lift (.panic p)
    | .err e, _ => S.fail e
    | .panic p, _ => S.lift (.panic p)

/-- The events of both parts, and the combined result. -/
theorem writeRest_trAt (blocks : List Bytes) (s : St σ) {P Q : SRes Unit → List Event → Prop}
    (hw : TrAt (writeBlocks B blocks) s P) (hs : Tr (stopWrite B) Q) :
    TrAt (writeRest B blocks) s
      (fun r evs => ∃ r1 r2 e1 e2, evs = e1 ++ e2 ∧ P r1 e1 ∧ Q r2 e2 ∧ r = combineStop r1 r2) := by
  unfold writeRest
  have hnp := writeBlocks_nopanic B blocks s
  obtain ⟨e1, a1, a2, a3, a4⟩ := hw
  obtain ⟨e2, b1, b2, b3, b4⟩ := hs (writeBlocks B blocks s).2
  unfold TrAt
  simp only [bind_apply, attempt_apply]
  rcases hwb : writeBlocks B blocks s with ⟨r1, s1⟩
  rw [hwb] at hnp a1 a2 a3 a4 b1 b2 b3 b4
  simp only at hnp a1 a2 a3 a4 b1 b2 b3 b4
  rcases hst : stopWrite B s1 with ⟨r2, s2⟩
  rw [hst] at b1 b2 b3 b4
  simp only at b1 b2 b3 b4
  have hev : s2.events = (e1 ++ e2).reverse ++ s.events := by rw [b1, a1]; simp
  cases r1 with
  | panic p => exact absurd rfl (hnp p)
  | ok u =>
    cases r2 <;> exact ⟨e1 ++ e2, hev, b2.trans a2, b3.trans a3, _, _, e1, e2, rfl, a4, b4, rfl⟩
  | err e =>
    cases r2 <;> exact ⟨e1 ++ e2, hev, b2.trans a2, b3.trans a3, _, _, e1, e2, rfl, a4, b4, rfl⟩

theorem stopWrite_dataSeq (u : Bool) : DataSeq u (stopWrite B) [.byte 0xFD] := by
  unfold stopWrite
  refine ((waitNotBusy_nodata B u _).bind fun _ => (?_ : DataSeq u (writeByte B _) [.byte 0xFD]).bind fun _ =>
    (readByte_nodata B u).bind fun _ => waitNotBusy_nodata B u _).cast (by simp)
  intro s _
  refine (writeByte_tr B _ s).conseq ?_
  rintro r evs ⟨rfl, hr⟩
  exact ⟨⟨[], rfl⟩, fun _ => rfl⟩

/-- A step without data-phase events in front of a computation whose outcome is judged by its
data-phase events only. -/
theorem nodata_bind {u : Bool} {m : S σ α} {f : α → S σ β} {s : St σ} {R : SRes β → List Event → Prop}
    (hm : DataSeq u m []) (hs : s.useCrc = u)
    (hf : ∀ a s', s'.useCrc = u → TrAt (f a) s' (fun r evs => R r (dataEvs evs)))
    (herr : ∀ e, R (.err e) []) (hpanic : ∀ p, R (.panic p) []) :
    TrAt (m >>= f) s (fun r evs => R r (dataEvs evs)) := by
  refine ((hm s hs).bind' fun a s' _ hu => hf a s' (hu.trans hs)).conseq ?_
  rintro r evs (⟨a, e1, e2, rfl, h1, h2⟩ | ⟨e, rfl, h⟩ | ⟨p, rfl, h⟩)
  · rw [dataEvs_append, List.prefix_nil.mp h1.1, List.nil_append]; exact h2
  · rw [List.prefix_nil.mp h.1]; exact herr e
  · rw [List.prefix_nil.mp h.1]; exact hpanic p

/-- The data phase of a `write`, judged on the data-phase events `d` of the call: a prefix of
`writeSeq` — or, for a multiple-block write whose block loop failed, a prefix of the blocks
followed by the stop token, which is sent either way — and exactly `writeSeq` when the `write`
succeeds.  Same body as `Sdmmc.Props.C14.WriteFraming`. -/
def WriteFraming (u : Bool) (blocks : List Bytes) (r : SRes Unit) (d : List Event) : Prop :=
  (d <+: writeSeq u blocks ∨
    ((∀ b, blocks ≠ [b]) ∧ ∃ pfx, pfx <+: multiSeq u blocks ∧ d = pfx ++ [.byte 0xFD])) ∧
  ((∃ a, r = .ok a) → d = writeSeq u blocks)

theorem write_dataSeq (u : Bool) (blocks : List Bytes) (idx : Nat) (s : St σ) (hs : s.useCrc = u) :
    TrAt (write B blocks idx) s (fun r evs => WriteFraming u blocks r (dataEvs evs)) := by
  have herr : ∀ e, WriteFraming u blocks (.err e) [] := fun e => ⟨Or.inl List.nil_prefix, fun ⟨_, h⟩ => by cases h⟩
  have hpanic : ∀ p, WriteFraming u blocks (.panic p) [] := fun p => ⟨Or.inl List.nil_prefix, fun ⟨_, h⟩ => by cases h⟩
  unfold write
  refine nodata_bind DataSeq.get hs (fun s0 s' hs' => ?_) herr hpanic
  refine nodata_bind (DataSeq.lift _) hs' (fun start s1 hs1 => ?_) herr hpanic
  split
  · next b =>
    have h : DataSeq u (do
        let _ ← cardCommand B CMD24 start
        writeData B DATA_START_BLOCK b
        waitNotBusy B DEFAULT_WRITE_RETRIES
        let r ← cardCommand B CMD13 0
        if r ≠ 0 then S.fail .WriteError else
        let r2 ← readByte B
        if r2 ≠ 0 then S.fail .WriteError else pure ()) (writeSeq u [b]) := by
      refine ((cardCommand_nodata B u _ _).bind fun _ => (writeData_dataSeq B u _ b).bind fun _ =>
        (waitNotBusy_nodata B u _).bind fun _ => (cardCommand_nodata B u _ _).bind fun r =>
          (?_ : DataSeq u _ [])).cast ?_
      · refine DataSeq.ite (DataSeq.fail _ _) ((readByte_nodata B u).bind fun _ => DataSeq.ite (DataSeq.fail _ _) (DataSeq.pure ()))
      · simp [writeSeq, DATA_START_BLOCK]
    exact (h s1 hs1).conseq fun r evs hp => ⟨Or.inl hp.1, hp.2⟩
  · next hne =>
    have hw : writeSeq u blocks = multiSeq u blocks ++ [.byte 0xFD] := by
      unfold writeSeq
      split
      · next b => exact absurd rfl (hne b)
      · rfl
    refine nodata_bind (cardAcmd_nodata B u _ _) hs1 (fun _ s2 hs2 => ?_) herr hpanic
    refine nodata_bind (waitNotBusy_nodata B u _) hs2 (fun _ s3 hs3 => ?_) herr hpanic
    refine nodata_bind (cardCommand_nodata B u _ _) hs3 (fun _ s4 hs4 => ?_) herr hpanic
    refine (writeRest_trAt B blocks s4 (writeBlocks_dataSeq B u blocks s4 hs4)
      (fun s' => stopWrite_dataSeq B s'.useCrc s' rfl)).conseq ?_
    rintro r evs ⟨r1, r2, e1, e2, rfl, ⟨p1, p2⟩, ⟨q1, q2⟩, rfl⟩
    have hstop : dataEvs e2 = [] ∨ dataEvs e2 = [.byte 0xFD] := by
      obtain ⟨t, ht⟩ := q1
      cases hd : dataEvs e2 with
      | nil => exact Or.inl rfl
      | cons x xs =>
        rw [hd] at ht
        simp only [List.cons_append, List.cons.injEq, List.append_eq_nil_iff] at ht
        exact Or.inr (by rw [ht.1, ht.2.1])
    have hfail : ∀ r, (∀ a, r ≠ .ok a) → WriteFraming u blocks r (dataEvs (e1 ++ e2)) := by
      intro r hr
      refine ⟨?_, fun ⟨a, h⟩ => absurd h (hr a)⟩
      rw [dataEvs_append, hw]
      rcases hstop with h | h
      · rw [h, List.append_nil]; exact Or.inl (p1.trans (List.prefix_append _ _))
      · rw [h]; exact Or.inr ⟨hne, dataEvs e1, p1, rfl⟩
    cases r1 with
    | panic p => exact hfail _ (fun a h => by cases h)
    | err e => exact hfail _ (fun a h => by cases h)
    | ok a =>
      cases r2 with
      | err e => exact hfail _ (fun a h => by cases h)
      | panic p => exact hfail _ (fun a h => by cases h)
      | ok b =>
        rw [dataEvs_append, p2 ⟨a, rfl⟩, q2 ⟨b, rfl⟩]
        exact ⟨Or.inl (by rw [hw]; exact List.prefix_refl _), fun _ => hw.symm⟩

/-! ### The command frames of a log -/

def isCmdEv : Event → Bool
  | .cmd _ => true
  | _ => false

/-- The command-frame events of a log, in order.  Same body as `Sdmmc.Props.C12.cmdEvs`. -/
def cmdEvs (evs : List Event) : List Event := evs.filter isCmdEv

@[simp] theorem cmdEvs_append (a b : List Event) : cmdEvs (a ++ b) = cmdEvs a ++ cmdEvs b := by
  simp [cmdEvs]
@[simp] theorem cmdEvs_nil : cmdEvs [] = [] := rfl
theorem cmdEvs_cons (e : Event) (l : List Event) :
    cmdEvs (e :: l) = if isCmdEv e = true then e :: cmdEvs l else cmdEvs l := by
  simp [cmdEvs, List.filter_cons]

theorem cmdEvs_polls {evs : List Event} (h : AllPolls evs) : cmdEvs evs = [] := by
  simp only [cmdEvs, List.filter_eq_nil_iff]
  intro e he
  have := h e he
  cases e <;> simp_all [isPoll, isCmdEv]

def NoCmds (evs : List Event) : Prop := cmdEvs evs = []

instance : Local NoCmds where
  nil := rfl
  single e he := by
    cases e <;> simp [NoCmds, cmdEvs, isCmdEv]
    exact absurd rfl (he _)
  append a b ha hb := by simp only [NoCmds] at *; simp [ha, hb]

/-! ### Termination of multi-block transfers -/

instance : Local (fun _ => True) where
  nil := trivial
  single _ _ := trivial
  append _ _ _ _ := trivial

theorem Tr.and_nopanic {m : S σ α} {P : SRes α → List Event → Prop} (h : Tr m P) (hn : NoPanic m) :
    Tr m (fun r evs => P r evs ∧ ∀ p, r ≠ .panic p) :=
  fun s => by
    obtain ⟨evs, h1, h2, h3, h4⟩ := h s
    exact ⟨evs, h1, h2, h3, h4, hn s⟩

/-- What follows a successful CMD18: the block loop, then — whatever the loop did — the CMD12
frame and its response polls. -/
theorem readMultiRest_tr (n : Nat) : Tr (do
    let r ← S.attempt (readBlocks B n)
    match r with
    | .panic p => S.lift (.panic p)
    | _ => do
      let stopped ← S.attempt (cardCommand B CMD12 0)
      match r, stopped with
      | .ok bs, .ok _ => pure bs
      | .ok _, .err e => S.fail e
      | .ok _, .panic p => S.lift (.panic p)
      | .err e, _ => S.fail e
      | .panic p, _ => S.lift (.panic p))
    (fun _ evs => ∃ pre post, evs = pre ++ Event.cmd (frame CMD12 0) :: post ∧ AllPolls post ∧ NoCmds pre) := by
  have hrb : Tr (readBlocks B n) (fun r evs => NoCmds evs ∧ ∀ p, r ≠ .panic p) :=
    Tr.and_nopanic (readBlocks_emits (Q := NoCmds) B n) (readBlocks_nopanic B n)
  refine (Tr.bind (Tr.attempt hrb) fun r =>
    (?_ : Tr _ (fun _ evs => (∀ p, r ≠ .panic p) → ∃ post, evs = Event.cmd (frame CMD12 0) :: post ∧ AllPolls post))).conseq ?_
  · cases r with
    | panic p => exact (Tr.lift _).conseq fun _ _ _ h => absurd rfl (h p)
    | ok bs =>
      refine (Tr.bind (Tr.attempt (cardCommand_tr B CMD12 0)) fun st => (?_ : Tr _ (fun _ evs => evs = []))).conseq ?_
      · cases st with
        | ok g => exact (Tr.pure _).conseq fun _ _ h => h.2
        | err e => exact (Tr.fail _).conseq fun _ _ h => h.2
        | panic p => exact (Tr.lift _).conseq fun _ _ h => h.2
      · rintro r' evs (⟨st, e1, e2, rfl, ⟨_, h0, h1, _⟩, rfl⟩ | ⟨e, rfl, _, h, _⟩ | ⟨p, rfl, _, h, _⟩) _
        · rcases h1 with ⟨pre, post, k1, k2, rfl, k3, _⟩ | ⟨_, _, k, _⟩
          · rw [k3 (Or.inr rfl)]; exact ⟨post, by simp, k2⟩
          · exact absurd rfl k
        · cases h
        · cases h
    | err e0 =>
      refine (Tr.bind (Tr.attempt (cardCommand_tr B CMD12 0)) fun st => (?_ : Tr _ (fun _ evs => evs = []))).conseq ?_
      · cases st with
        | ok g => exact (Tr.fail _).conseq fun _ _ h => h.2
        | err e => exact (Tr.fail _).conseq fun _ _ h => h.2
        | panic p => exact (Tr.fail _).conseq fun _ _ h => h.2
      · rintro r' evs (⟨st, e1, e2, rfl, ⟨_, h0, h1, _⟩, rfl⟩ | ⟨e, rfl, _, h, _⟩ | ⟨p, rfl, _, h, _⟩) _
        · rcases h1 with ⟨pre, post, k1, k2, rfl, k3, _⟩ | ⟨_, _, k, _⟩
          · rw [k3 (Or.inr rfl)]; exact ⟨post, by simp, k2⟩
          · exact absurd rfl k
        · cases h
        · cases h
  · rintro r' evs (⟨r, e1, e2, rfl, ⟨_, h0, hnc, h1⟩, h2⟩ | ⟨e, rfl, _, h, _⟩ | ⟨p, rfl, _, h, _⟩)
    · cases h0
      obtain ⟨post, rfl, hp⟩ := h2 h1
      exact ⟨e1, post, rfl, hp, hnc⟩
    · cases h
    · cases h

/-- A multi-block read whose CMD18 was answered always sends CMD12 afterwards (CMD12 has no
busy wait in front of it, so its frame goes out even if every block failed); only its response
polls follow. -/
theorem read_multi_terminated (n idx start : Nat) (hn : n ≠ 1) (s : St σ)
    (hstart : startIdx s.cardType idx = .ok start) (r1 : Nat) (s1 : St σ)
    (h18 : cardCommand B CMD18 start s = (.ok r1, s1)) :
    ∃ pre post, evsNew s (Sd.read B n idx s).2 = pre ++ Event.cmd (frame CMD12 0) :: post ∧
      Event.cmd (frame CMD18 start) ∈ pre ∧ AllPolls post := by
  obtain ⟨e1, g1, _, _, g4, _⟩ := cardCommand_tr B CMD18 start s
  rw [h18] at g1 g4
  simp only at g1 g4
  obtain ⟨e2, k1, _, _, pre2, post, rfl, hp, _⟩ := readMultiRest_tr B n s1
  have hread : Sd.read B n idx s = (do
      let r ← S.attempt (readBlocks B n)
      match r with
      | .panic p => S.lift (.panic p)
      | _ => do
        let stopped ← S.attempt (cardCommand B CMD12 0)
        match r, stopped with
        | .ok bs, .ok _ => pure bs
        | .ok _, .err e => S.fail e
        | .ok _, .panic p => S.lift (.panic p)
        | .err e, _ => S.fail e
        | .panic p, _ => S.lift (.panic p)) s1 := by
    unfold Sd.read
    rw [bind_ok (get_apply s), bind_ok (show S.lift (startIdx s.cardType idx) s = (.ok start, s) by rw [hstart]; rfl),
      if_neg hn, bind_ok h18]
    rfl
  rw [hread]
  have hev : evsNew s ((do
      let r ← S.attempt (readBlocks B n)
      match r with
      | .panic p => S.lift (.panic p)
      | _ => do
        let stopped ← S.attempt (cardCommand B CMD12 0)
        match r, stopped with
        | .ok bs, .ok _ => pure bs
        | .ok _, .err e => S.fail e
        | .ok _, .panic p => S.lift (.panic p)
        | .err e, _ => S.fail e
        | .panic p, _ => S.lift (.panic p)) s1).2 = e1 ++ (pre2 ++ Event.cmd (frame CMD12 0) :: post) :=
    evsNew_of_eq (by rw [k1, g1]; simp)
  rw [hev]
  refine ⟨e1 ++ pre2, post, by simp, ?_, hp⟩
  rcases g4 with ⟨pre, post1, _, _, rfl, _⟩ | ⟨_, _, _, e, he⟩
  · simp
  · cases he

/-- The events of the stop sequence of a multiple-block write: the polls of the busy wait; then
either the stop token 0xFD — sent right after a poll that showed the card not busy — and then only
polls: the byte that is clocked and discarded and the final busy wait (ending, if the sequence
succeeded, with a not-busy poll); or nothing more,
because the wait failed: its last poll did not show the card not busy (it was still busy when the
budget ran out, or an SPI error occurred). -/
def StopEvs (r : SRes Unit) (evs : List Event) : Prop :=
  ∃ polls rest, evs = polls ++ rest ∧ AllPolls polls ∧ polls ≠ [] ∧
    ((polls.getLast? = some (.poll 255) ∧ ∃ post, rest = Event.byte 0xFD :: post ∧ AllPolls post ∧
        (r = .ok () → post.getLast? = some (.poll 255))) ∨
     (rest = [] ∧ polls.getLast? ≠ some (.poll 255) ∧ ∃ e, r = .err e))

theorem stopWrite_tr : Tr (stopWrite B) StopEvs := by
  have hw : ∀ n, Tr (waitNotBusy B n) (fun r evs => (AllPolls evs ∧ (r = .ok () → evs.getLast? = some (.poll 255)) ∧
      (∀ p, r ≠ .panic p)) ∧ ((∃ e, r = .err e) → evs ≠ [] ∧ evs.getLast? ≠ some (.poll 255))) :=
    fun n => Tr.and (waitNotBusy_tr B n) (waitNotBusy_fail_tr B n)
  unfold stopWrite
  refine (Tr.bind (hw _) fun _ => Tr.bind (writeByte_tr B _) fun _ => Tr.bind (readByte_polls B) fun _ =>
    waitNotBusy_tr B _).conseq ?_
  rintro r evs (⟨a, e1, e2, rfl, ⟨⟨hp1, h1, _⟩, _⟩, h2⟩ | ⟨e, rfl, ⟨hp1, _, _⟩, hf⟩ | ⟨p, rfl, ⟨_, _, h⟩, _⟩)
  · have hl1 := h1 rfl
    have hne : e1 ≠ [] := by intro h; rw [h] at hl1; simp at hl1
    rcases h2 with ⟨a', e21, e22, rfl, ⟨rfl, _⟩, h3⟩ | ⟨e, rfl, ⟨rfl, _⟩, _⟩ | ⟨p, rfl, _, hr⟩
    · rcases h3 with ⟨g, e31, e32, rfl, ⟨hq1, _, _⟩, hp, hl, _⟩ | ⟨e, rfl, hq1, _, _⟩ | ⟨p, rfl, _, hq, _⟩
      · refine ⟨e1, _, rfl, hp1, hne, Or.inl ⟨hl1, e31 ++ e32, by simp [STOP_TRAN_TOKEN], by simp [hq1, hp], fun hr => ?_⟩⟩
        have := hl hr
        rw [List.getLast?_append, this]; rfl
      · exact ⟨e1, _, rfl, hp1, hne, Or.inl ⟨hl1, _, by simp [STOP_TRAN_TOKEN], hq1, fun h => by cases h⟩⟩
      · exact absurd rfl (hq p)
    · exact ⟨e1, _, rfl, hp1, hne, Or.inl ⟨hl1, [], by simp [STOP_TRAN_TOKEN], by simp, fun h => by cases h⟩⟩
    · rcases hr with h | h <;> cases h
  · obtain ⟨hne, hl⟩ := hf ⟨e, rfl⟩
    exact ⟨evs, [], by simp, hp1, hne, Or.inr ⟨rfl, hl, e, rfl⟩⟩
  · exact absurd rfl (h p)

/-- A multiple-block write whose CMD25 was answered always attempts the stop sequence afterwards,
whatever happened to the blocks: after the events up to and including the block loop come the
polls of a busy wait, and then the stop token 0xFD — right after a poll that showed the card not
busy, followed only by the polls of the final busy wait — unless that wait itself failed (card
still busy when the write budget ran out, or an SPI error), in which case `write` fails. -/
theorem write_multi_stopped (blocks : List Bytes) (idx start : Nat) (hne : ∀ b, blocks ≠ [b]) (s : St σ)
    (hstart : startIdx s.cardType idx = .ok start) (r0 : Nat) (s1 s2 : St σ) (r1 : Nat) (s3 : St σ)
    (hacmd : cardAcmd B ACMD23 (blocks.length % 4294967296) s = (.ok r0, s1))
    (hwait : waitNotBusy B DEFAULT_WRITE_RETRIES s1 = (.ok (), s2))
    (h25 : cardCommand B CMD25 start s2 = (.ok r1, s3)) :
    ∃ pre polls rest, evsNew s (write B blocks idx s).2 = pre ++ polls ++ rest ∧
      Event.cmd (frame CMD25 start) ∈ pre ∧ AllPolls polls ∧ polls ≠ [] ∧
      ((polls.getLast? = some (.poll 255) ∧ ∃ post, rest = Event.byte 0xFD :: post ∧ AllPolls post ∧
          ((write B blocks idx s).1 = .ok () → post.getLast? = some (.poll 255))) ∨
       (rest = [] ∧ polls.getLast? ≠ some (.poll 255) ∧ ∃ e, (write B blocks idx s).1 = .err e)) := by
  obtain ⟨ea, ga, _⟩ := cardAcmd_tr B ACMD23 (blocks.length % 4294967296) s
  obtain ⟨ew, gw, _⟩ := waitNotBusy_tr B DEFAULT_WRITE_RETRIES s1
  obtain ⟨ec, gc, _, _, g4, _⟩ := cardCommand_tr B CMD25 start s2
  rw [hacmd] at ga
  rw [hwait] at gw
  rw [h25] at gc g4
  simp only at ga gw gc g4
  obtain ⟨e2, k1, _, _, rl, rs, el, es, rfl, hnp, ⟨polls, rest, rfl, hp, hpne, hcase⟩, hres⟩ :=
    writeRest_trAt B blocks s3 (P := fun r _ => ∀ p, r ≠ .panic p)
      ((Tr.and_nopanic (writeBlocks_emits (Q := fun _ => True) B blocks) (writeBlocks_nopanic B blocks) s3).conseq
        fun _ _ h => h.2) (stopWrite_tr B)
  have hwrite : write B blocks idx s = writeRest B blocks s3 := by
    unfold write
    rw [bind_ok (get_apply s), bind_ok (show S.lift (startIdx s.cardType idx) s = (.ok start, s) by rw [hstart]; rfl)]
    split
    · exact absurd rfl (hne _)
    · rw [bind_ok hacmd, bind_ok hwait, bind_ok h25]; rfl
  rw [hwrite]
  have hev : evsNew s (writeRest B blocks s3).2 = (ea ++ ew ++ ec) ++ (el ++ (polls ++ rest)) :=
    evsNew_of_eq (by rw [k1, gc, gw, ga]; simp)
  rw [hev]
  refine ⟨ea ++ ew ++ ec ++ el, polls, rest, by simp, ?_, hp, hpne, ?_⟩
  · rcases g4 with ⟨pre, post1, _, _, rfl, _⟩ | ⟨_, _, _, e, he⟩
    · simp
    · cases he
  · rcases hcase with ⟨hl, post, rfl, hpp, hok⟩ | ⟨rfl, hl, e, rfl⟩
    · refine Or.inl ⟨hl, post, rfl, hpp, fun h => hok ?_⟩
      rw [hres] at h
      cases rl <;> cases rs <;> simp [combineStop] at h ⊢
    · refine Or.inr ⟨rfl, hl, ?_⟩
      rw [hres]
      cases rl with
      | ok a => exact ⟨e, rfl⟩
      | err e' => exact ⟨e', rfl⟩
      | panic p => exact absurd rfl (hnp p)

/-- On success the log ends with a not-busy poll, the stop token, and the polls of the final
busy wait, the last of which shows the card not busy. -/
def EndsStop {α : Type} (r : SRes α) (evs : List Event) : Prop :=
  (∃ a, r = .ok a) → ∃ pre post, evs = pre ++ [Event.poll 255, Event.byte 0xFD] ++ post ∧ AllPolls post ∧
    post.getLast? = some (Event.poll 255)

theorem EndsStop.bind {m : S σ α} {f : α → S σ β} (hm : Emits (fun _ => True) m)
    (hf : ∀ a, Tr (f a) EndsStop) : Tr (m >>= f) EndsStop :=
  (Tr.bind hm hf).conseq fun r evs h => by
    rcases h with ⟨a, e1, e2, rfl, _, h2⟩ | ⟨e, rfl, _⟩ | ⟨p, rfl, _⟩
    · intro hr
      obtain ⟨pre, post, rfl, hp, hl⟩ := h2 hr
      exact ⟨e1 ++ pre, post, by simp, hp, hl⟩
    · rintro ⟨_, hr⟩; cases hr
    · rintro ⟨_, hr⟩; cases hr

theorem cardCommand_any (c arg : Nat) : Emits (fun _ => True) (cardCommand B c arg) :=
  (cardCommand_tr B c arg).conseq fun _ _ _ => trivial
theorem cardAcmd_any (c arg : Nat) : Emits (fun _ => True) (cardAcmd B c arg) :=
  (cardAcmd_tr B c arg).conseq fun _ _ _ => trivial

/-- A multi-block write that succeeds has sent the stop token 0xFD when the card was not busy, and
after it only the polls of the final busy wait, the last of which showed the card not busy again. -/
theorem write_multi_terminated (blocks : List Bytes) (idx : Nat) (hne : ∀ b, blocks ≠ [b]) (s : St σ)
    (hok : (write B blocks idx s).1 = .ok ()) :
    ∃ pre post, evsNew s (write B blocks idx s).2 = pre ++ [Event.poll 255, Event.byte 0xFD] ++ post ∧
      AllPolls post ∧ post.getLast? = some (Event.poll 255) := by
  have hlast : Tr (writeRest B blocks) EndsStop := by
    intro s'
    refine (writeRest_trAt B blocks s' (P := fun _ _ => True)
      ((writeBlocks_emits (Q := fun _ => True) B blocks s').conseq fun _ _ _ => trivial) (stopWrite_tr B)).conseq ?_
    rintro r evs ⟨r1, r2, e1, e2, rfl, _, ⟨polls, rest, rfl, hp, hpne, hcase⟩, rfl⟩ ⟨a, ha⟩
    have h2 : r2 = .ok () := by cases r1 <;> cases r2 <;> simp [combineStop] at ha ⊢
    subst h2
    rcases hcase with ⟨hl, post, rfl, hpp, hok⟩ | ⟨_, _, e, he⟩
    · obtain ⟨pre, rfl⟩ : ∃ pre, polls = pre ++ [Event.poll 255] := by
        rcases List.eq_nil_or_concat polls with rfl | ⟨pre, x, rfl⟩
        · exact absurd rfl hpne
        · simp at hl; exact ⟨pre, by rw [hl]; simp⟩
      exact ⟨e1 ++ pre, post, by simp, hpp, hok rfl⟩
    · cases he
  have hw : Tr (write B blocks idx) EndsStop := by
    unfold write
    refine EndsStop.bind Emits.get fun s => EndsStop.bind (Emits.lift _) fun start => ?_
    split
    · next b => exact absurd rfl (hne b)
    · exact EndsStop.bind (cardAcmd_any B _ _) fun _ => EndsStop.bind (waitNotBusy_emits B _) fun _ =>
        EndsStop.bind (cardCommand_any B _ _) fun _ => hlast
  exact (hw s).evsNew ⟨(), hok⟩

end Sdmmc.Lemmas.Sd
