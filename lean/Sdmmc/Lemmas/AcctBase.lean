/-
C16 at the API level, part 1 — the accounting relation `Acct` ("`k` clusters were taken: both FAT
copies still identical, the in-memory free count went down by `k` — saturating — , the number of free
FAT entries went down by exactly `k`, the next-free hint is untouched (`k = 0`) or unknown / inside
the volume"), one allocation in these terms (`alloc_acct`), and changes of the medium that touch no
FAT block (`acct_of_fat_eq`).
-/
import Sdmmc.Lemmas.WriteRefinesFrame
import Sdmmc.Lemmas.ForestCount

namespace Sdmmc.Lemmas.Acct
open Sdmmc.Model Sdmmc.Model.Fat Sdmmc.Spec
open Sdmmc.Lemmas.FBasic hiding NoFault Coherent
open Sdmmc.Lemmas.FatOps hiding BlocksOK Mirror HintOK
open Sdmmc.Lemmas.ChainL Sdmmc.Lemmas.ForestBase Sdmmc.Lemmas.ForestCount Sdmmc.Lemmas.WriteRefines

/-- The hint is unknown or a data cluster of the volume. -/
def HintIn (v : FatVolume) (h : Option Nat) : Prop := h = none ∨ ∃ n, h = some n ∧ 2 ≤ n ∧ n < endCluster v

/-- From `(v, d)` to `(v', d')`, `k` clusters were taken. -/
structure Acct (v v' : FatVolume) (d d' : Disk) (k : Nat) : Prop where
  mirror : Mirror v d → Mirror v d'
  count : v'.freeClustersCount = v.freeClustersCount.map (· - k)
  free : freeCount v d' + k = freeCount v d
  hint0 : k = 0 → v'.nextFreeCluster = v.nextFreeCluster
  hint : 0 < k → HintIn v v'.nextFreeCluster

theorem Acct.refl (v : FatVolume) (d : Disk) : Acct v v d d 0 :=
  ⟨id, by cases v.freeClustersCount <;> rfl, rfl, fun _ => rfl, fun h => absurd h (Nat.lt_irrefl 0)⟩

theorem hintIn_sameGeom {v v' : FatVolume} (h : SameGeom v v') (o : Option Nat) : HintIn v' o ↔ HintIn v o := by
  unfold HintIn; rw [h.endCluster]

theorem Acct.trans {v v1 v2 : FatVolume} {d d1 d2 : Disk} {k1 k2 : Nat} (hs : SameGeom v v1)
    (h1 : Acct v v1 d d1 k1) (h2 : Acct v1 v2 d1 d2 k2) : Acct v v2 d d2 (k1 + k2) := by
  refine ⟨fun hm => (hs.mirror d2).1 (h2.mirror ((hs.mirror d1).2 (h1.mirror hm))), ?_, ?_, ?_, ?_⟩
  · rw [h2.count, h1.count]
    cases v.freeClustersCount with
    | none => rfl
    | some n => simp only [Option.map_some]; congr 1; omega
  · have := h2.free
    rw [hs.freeCount, hs.freeCount] at this
    have := h1.free
    omega
  · intro hk
    rw [h2.hint0 (by omega), h1.hint0 (by omega)]
  · intro hk
    by_cases hk2 : 0 < k2
    · exact (hintIn_sameGeom hs _).1 (h2.hint hk2)
    · rw [h2.hint0 (by omega)]
      exact h1.hint (by omega)

theorem Acct.sameGeom {v w v' : FatVolume} {d d' : Disk} {k : Nat} (hs : SameGeom v w) (h : Acct w v' d d' k)
    (hc : w.freeClustersCount = v.freeClustersCount) (hh : w.nextFreeCluster = v.nextFreeCluster) : Acct v v' d d' k :=
  ⟨fun hm => (hs.mirror d').1 (h.mirror ((hs.mirror d).2 hm)), by rw [h.count, hc],
   by have := h.free; rw [hs.freeCount, hs.freeCount] at this; exact this,
   fun hk => by rw [h.hint0 hk, hh], fun hk => (hintIn_sameGeom hs _).1 (h.hint hk)⟩

/-- A medium with the same FAT blocks (both copies) gives the same accounting. -/
theorem freeCount_congr {v : FatVolume} {d d' : Disk}
    (h : ∀ c, c < endCluster v → d'.get (fatBlock v c) = d.get (fatBlock v c)) : freeCount v d' = freeCount v d := by
  unfold freeCount
  apply List.countP_congr
  intro c hc
  have hcE := List.mem_range.1 hc
  have : isFree v d' c ↔ isFree v d c := by
    unfold isFree fatEntry fatRaw; rw [h c hcE]
  simp only [this]

theorem mirror_congr {v : FatVolume} {d d' : Disk} (h : ∀ b, IsFatBlock v b → d'.get b = d.get b) (hm : Mirror v d) :
    Mirror v d' := by
  intro c hc b2 hb2
  rw [h b2 ⟨c, hc, .inr hb2⟩, h (fatBlock v c) ⟨c, hc, .inl rfl⟩]
  exact hm c hc b2 hb2

/-- A change of the medium that touches no FAT block, with the volume record as it was: nothing
taken. -/
theorem acct_of_fat_eq {v : FatVolume} {d d' : Disk} (h : ∀ b, IsFatBlock v b → d'.get b = d.get b) : Acct v v d d' 0 :=
  ⟨mirror_congr h, by cases v.freeClustersCount <;> rfl,
   by rw [Nat.add_zero]; exact freeCount_congr fun c hc => h _ ⟨c, hc, .inl rfl⟩, fun _ => rfl,
   fun hk => absurd hk (Nat.lt_irrefl 0)⟩

/-- **One successful allocation**: exactly one cluster is taken. -/
theorem alloc_acct (s s' : FS) (prev : Option Nat) (zero : Bool) (c : Nat) (hn : NoFault s) (hc : Coherent s)
    (hb : BlocksOK s.dev.disk) (hg : WFGeom s.vol) (hh : HintOK s.vol)
    (hp : ∀ p, prev = some p → p < endCluster s.vol ∧ ¬ isFree s.vol s.dev.disk p)
    (h : allocCluster prev zero s = (.ok c, s')) : Acct s.vol s'.vol s.dev.disk s'.dev.disk 1 := by
  obtain ⟨_, _, _, _, _, hcnt, hrc, hfree, heof, hlink, hother, hmir⟩ :=
    ForestAlloc.alloc_spec s s' prev zero c hn hc hb hg hh hp h
  have hsub : freeCount s.vol s.dev.disk = freeCount s.vol s'.dev.disk + 1 :=
    freeCount_add (d := s'.dev.disk) (d' := s.dev.disk) [c] (List.nodup_cons.2 ⟨List.not_mem_nil, List.nodup_nil⟩)
      (fun x hx => by rw [List.mem_singleton.1 hx]; exact hrc)
      (fun x hx => by rw [List.mem_singleton.1 hx]; exact (not_free_of_eof heof).1)
      (fun x hx => by rw [List.mem_singleton.1 hx]; exact hfree)
      (fun x hrx hx => by
        by_cases hxp : prev = some x
        · obtain ⟨_, hl⟩ := hlink x hxp
          exact ⟨fun hf => absurd hf (hp x hxp).2, fun hf => absurd hf (not_free_of_link hl hrc.1).1⟩
        · exact (ForestStep.isFree_congr_raw (hother x hrx.2 (fun e => hx (List.mem_singleton.2 e)) hxp)).symm)
  refine ⟨hmir, hcnt, by omega, fun h0 => absurd h0 (by omega), fun _ => ?_⟩
  rcases alloc_hint_in_range s s' prev zero c hn hc hh h with h0 | ⟨n, h1, h2, h3⟩
  · exact .inl h0
  · exact .inr ⟨n, h1, h2, h3⟩

/-- A failing allocation (volume full) takes nothing. -/
theorem alloc_fail_acct (s s' : FS) (hd : s'.dev.disk = s.dev.disk) (hv : s'.vol = s.vol) :
    Acct s.vol s'.vol s.dev.disk s'.dev.disk 0 := by
  rw [hd, hv]; exact Acct.refl _ _

end Sdmmc.Lemmas.Acct
