/-
C09 over whole histories, part 10: the object between the manager and the abstract file system — from `Obj` to the
abstract `KeepsA` (`keepsA_of_obj`), back from `KeepsA` to `Obj` in a later state (`obj_of_keepsA`), and the
slot's membership in its directory when the directory's chain has grown (`mem_dirSlots_next`).
-/
import Sdmmc.Lemmas.SurviveTrack
import Sdmmc.Lemmas.AbsFsFlush

namespace Sdmmc.Lemmas.Survive
open Sdmmc.Model Sdmmc.Model.Fat Sdmmc.Spec.Volume Sdmmc.Lemmas.VolBase Sdmmc.Lemmas.VolTree
open Sdmmc.Spec hiding NoFault Coherent
open Sdmmc.Lemmas.VolDisk Sdmmc.Lemmas.VolMed Sdmmc.Lemmas.VolEng
open Sdmmc.Lemmas.WriteSetInv
open Sdmmc.Lemmas.AbsFs (Abs FileRel absSlot absSlots metaOf contentOf)
open Sdmmc.Lemmas.SurviveAbs (KeepsA QuietA ROA)

theorem forall₂_left {α β : Type} {R : α → β → Prop} {l1 : List α} {l2 : List β} (h : List.Forall₂ R l1 l2) {x : α}
    (hx : x ∈ l1) : ∃ y, y ∈ l2 ∧ R x y := by
  induction h with
  | nil => cases hx
  | cons hxy _ ih =>
    rcases List.mem_cons.1 hx with e | hm
    · subst e; exact ⟨_, List.mem_cons_self, hxy⟩
    · obtain ⟨y, hy, hr⟩ := ih hm
      exact ⟨y, List.mem_cons_of_mem _ hy, hr⟩

theorem forall₂_right' {α β : Type} {R : α → β → Prop} {l1 : List α} {l2 : List β} (h : List.Forall₂ R l1 l2) {y : β}
    (hy : y ∈ l2) : ∃ x, x ∈ l1 ∧ R x y := by
  induction h with
  | nil => cases hy
  | cons hxy _ ih =>
    rcases List.mem_cons.1 hy with e | hm
    · subst e; exact ⟨_, List.mem_cons_self, hxy⟩
    · obtain ⟨x, hx, hr⟩ := ih hm
      exact ⟨x, List.mem_cons_of_mem _ hx, hr⟩

theorem beforeEnd_nodup {ss : List Slot} (h : (ss.map spos).Nodup) : (beforeEnd ss).Nodup := by
  have h1 : ss.Nodup := List.Nodup.of_map _ h
  unfold beforeEnd
  exact h1.sublist (List.takeWhile_sublist _)

section
variable {s : Mgr} {gh : Ghost} {a : Spec.AbsFs.AbsFs} {h : Nat} {x : Slot}

/-- The object's slot lies before the end marker of its directory. -/
theorem Obj.beforeEnd (hI : VolInv s gh) (hx : Obj s gh h x) : x ∈ beforeEnd (dirSlots gh.vol s.dev.disk gh.G h) := by
  have hM := medX_of_med hI.med
  obtain ⟨_, _, _, _, _, hnz, _⟩ := object_split hM hx.dir hx.mem
  exact mem_beforeEnd_of_cleanTail (hI.med.tree.cleanTail h hx.dir) hx.memSlots hnz

theorem Obj.keep (hI : VolInv s gh) (hx : Obj s gh h x) : keep x = true := by
  have hM := medX_of_med hI.med
  obtain ⟨_, _, _, _, _, _, hk⟩ := object_split hM hx.dir hx.mem
  exact hk

/-- **From the manager to the abstract file system**: the object is a file slot of the abstract directory, and
no handle that refers to it has unflushed changes. -/
theorem keepsA_of_obj (hI : VolInv s gh) (hA : Abs s gh a) (hx : Obj s gh h x) (P : Spec.AbsFs.Meta → Prop)
    (hq : ∀ f, f ∈ s.files → fkey f = spos x → f.dirty = false ∨ P (Spec.AbsFs.view f.entry))
    (hsync : ∀ pm, P pm → Spec.AbsFs.storedMeta pm = metaOf gh.vol.fatType x) :
    ∃ j, (beforeEnd (dirSlots gh.vol s.dev.disk gh.G h))[j]? = some x ∧
      KeepsA a h j (metaOf gh.vol.fatType x) (contentOf gh.vol s.dev.disk gh.G s.files x) P := by
  have hM := medX_of_med hI.med
  obtain ⟨j, hj⟩ := List.getElem?_of_mem (hx.beforeEnd hI)
  refine ⟨j, hj, ⟨by rw [hA.ids]; exact hx.dir, ?_, ?_, hsync⟩⟩
  · rw [hA.slots h hx.dir]
    unfold absSlots
    rw [List.getElem?_map, hj]
    simp only [Option.map_some]
    rw [AbsFs.absSlot_file (hx.keep hI) hx.file]
  · intro af haf h1 h2
    obtain ⟨f, hf, hrel⟩ := forall₂_left hA.files haf
    obtain ⟨o, ho, hp⟩ := hrel.slot
    rw [h1, h2, hj] at ho
    injection ho with ho
    subst ho
    rcases hq f hf hp.symm with hc | hc
    · exact .inl (hrel.dirty.trans hc)
    · exact .inr (by rw [hrel.pm]; exact hc)

/-- **Back from the abstract file system**: in a state `s` with abstract counterpart `a` in which slot `j` of
directory `h` is the file with the name of the live file slot `x` of that directory on the medium, and only clean
read-only handles refer to it, `x` is that slot, and it is an object to which only clean read-only handles refer. -/
theorem obj_of_keepsA (hI : VolInv s gh) (hA : Abs s gh a) {j : Nat} {m : Spec.AbsFs.Meta} {bytes : Bytes}
    {P : Spec.AbsFs.Meta → Prop}
    (hk : KeepsA a h j m bytes P) (hxm : x ∈ dirSlots gh.vol s.dev.disk gh.G h) (h0 : first x ≠ 0) (hkeep : keep x = true)
    (hfile : isDirE x = false) (hname : sName x = m.name)
    (hP : ∀ f, f ∈ s.files → fkey f = spos x → P (Spec.AbsFs.view f.entry) →
      sCluster gh.vol.fatType x = f.entry.cluster ∧ sSize x = f.entry.size) :
    Obj s gh h x ∧ (beforeEnd (dirSlots gh.vol s.dev.disk gh.G h))[j]? = some x ∧
    ∀ f, f ∈ s.files → fkey f = spos x → f.dirty = false ∨ P (Spec.AbsFs.view f.entry) := by
  have hM := medX_of_med hI.med
  have hh : h ∈ dirIds gh.dirs := by rw [← hA.ids]; exact hk.ids
  have hT := hI.med.tree
  have hbe : x ∈ beforeEnd (dirSlots gh.vol s.dev.disk gh.G h) := mem_beforeEnd_of_cleanTail (hT.cleanTail h hh) hxm h0
  -- the slot the abstract directory has at index `j`
  have hsl := hk.slot
  rw [hA.slots h hh] at hsl
  unfold absSlots at hsl
  rw [List.getElem?_map] at hsl
  cases ho : (beforeEnd (dirSlots gh.vol s.dev.disk gh.G h))[j]? with
  | none => rw [ho] at hsl; cases hsl
  | some o =>
    rw [ho] at hsl
    simp only [Option.map_some, Option.some.injEq] at hsl
    have hnamed := AbsFs.named_absSlot gh.vol.fatType (contentOf gh.vol s.dev.disk gh.G s.files) m.name o
    rw [hsl] at hnamed
    have hn1 : Spec.AbsFs.Slot.named m.name (.file m bytes) = true := by
      show decide (m.name = m.name) = true
      exact decide_eq_true rfl
    rw [hn1] at hnamed
    have hko : VolBase.keep o = true ∧ sName o = m.name := by
      have := hnamed.symm
      simp only [Bool.and_eq_true, decide_eq_true_eq] at this
      exact this
    have hoe : o ∈ entries (dirSlots gh.vol s.dev.disk gh.G h) := by
      rw [entries_eq, List.mem_filter]; exact ⟨List.mem_of_getElem? ho, hko.1⟩
    have hxe : x ∈ entries (dirSlots gh.vol s.dev.disk gh.G h) := by
      rw [entries_eq, List.mem_filter]; exact ⟨hbe, hkeep⟩
    have hox : o = x := AbsFs.eq_of_nodup_map sName (hT.names h hh) hoe hxe (hko.2.trans hname.symm)
    subst hox
    have hq : ∀ f, f ∈ s.files → fkey f = spos o → f.dirty = false ∨ P (Spec.AbsFs.view f.entry) := ?_
    · refine ⟨⟨hh, AbsFs.view_object hM hh hbe hkeep hfile, hfile, fun f hf hkey => ?_⟩, rfl, hq⟩
      rcases hq f hf hkey with hc | hc
      · exact .inl hc
      · exact .inr (hP f hf hkey hc)
    intro f hf hkey
    obtain ⟨af, haf, hrel⟩ := forall₂_right' hA.files hf
    obtain ⟨o', ho', hp'⟩ := hrel.slot
    obtain ⟨e1, e2⟩ := AbsFs.slot_unique hM hrel.dirMem hh (AbsFs.mem_of_beforeEnd_getElem? ho') hxm (hp'.trans hkey)
    subst e2
    rw [e1] at ho'
    have hidx : af.idx = j := by
      have hnd := beforeEnd_nodup (dirSlots_pos_nodup hM hh s.dev.disk)
      have hlt : af.idx < (Spec.Volume.beforeEnd (dirSlots gh.vol s.dev.disk gh.G h)).length := (List.getElem?_eq_some_iff.1 ho').1
      exact (List.getElem?_inj hlt hnd).1 (ho'.trans ho.symm)
    rcases hk.quiet af haf e1 hidx with hc | hc
    · exact .inl (hrel.dirty.symm.trans hc)
    · exact .inr (by rw [← hrel.pm]; exact hc)

/-- Only read-only handles at the slot: from the manager to the abstract file system … -/
theorem roA_of_allRO (hA : Abs s gh a) {j : Nat} (hj : (beforeEnd (dirSlots gh.vol s.dev.disk gh.G h))[j]? = some x)
    (hro : ∀ f, f ∈ s.files → fkey f = spos x → f.mode = .ReadOnly) : ROA a h j := by
  intro af haf h1 h2
  obtain ⟨f, hf, hrel⟩ := forall₂_left hA.files haf
  obtain ⟨o, ho, hp⟩ := hrel.slot
  rw [h1, h2, hj] at ho
  injection ho with ho
  subst ho
  exact hrel.mode.trans (hro f hf hp.symm)

/-- … and back. -/
theorem allRO_of_roA (hI : VolInv s gh) (hA : Abs s gh a) (hh : h ∈ dirIds gh.dirs) {j : Nat}
    (hj : (beforeEnd (dirSlots gh.vol s.dev.disk gh.G h))[j]? = some x) (hro : ROA a h j) :
    ∀ f, f ∈ s.files → fkey f = spos x → f.mode = .ReadOnly := by
  have hM := medX_of_med hI.med
  intro f hf hkey
  obtain ⟨af, haf, hrel⟩ := forall₂_right' hA.files hf
  obtain ⟨o', ho', hp'⟩ := hrel.slot
  obtain ⟨e1, e2⟩ := AbsFs.slot_unique hM hrel.dirMem hh (AbsFs.mem_of_beforeEnd_getElem? ho')
    (AbsFs.mem_of_beforeEnd_getElem? hj) (hp'.trans hkey)
  subst e2
  rw [e1] at ho'
  have hidx : af.idx = j := by
    have hnd := beforeEnd_nodup (dirSlots_pos_nodup hM hh s.dev.disk)
    have hlt : af.idx < (Spec.Volume.beforeEnd (dirSlots gh.vol s.dev.disk gh.G h)).length := (List.getElem?_eq_some_iff.1 ho').1
    exact (List.getElem?_inj hlt hnd).1 (ho'.trans hj.symm)
  exact hrel.mode.symm.trans (hro af haf e1 hidx)

end

/-! ### The slot in its directory after the directory's chain has grown -/

theorem mem_dirSlots_at {v v' : FatVolume} (hs : SameGeom v v') {d d' : Disk} {G G' : List (List Nat)} {h : Nat} {o x : Slot}
    (ho : o ∈ dirSlots v d G h) (hp : spos x = spos o) (hbytes : slice (d'.get x.1) x.2.1 32 = x.2.2)
    (hpre : dirChain v G h <+: dirChain v' G' h) : x ∈ dirSlots v' d' G' h := by
  rw [dirSlots_sameGeom hs]
  have hdc : dirChain v' G' h = dirChain v G' h := by
    unfold dirChain dirHead
    obtain ⟨a, b, rfl⟩ := hs
    rfl
  rw [hdc] at hpre
  obtain ⟨p1, p2⟩ := Prod.mk.inj hp
  rw [dirSlots_eq] at ho ⊢
  by_cases hf : isFixedRoot v h
  · rw [if_pos hf] at ho ⊢
    obtain ⟨h1, h2, i, hi, e1, _⟩ := fixedRoot_pos ho
    rw [← p1] at h1 h2
    rw [← p2] at e1
    have := mem_fixedRoot_at v d' x.1 i h1 h2 hi
    rw [← e1, hbytes] at this
    exact this
  · rw [if_neg hf] at ho ⊢
    obtain ⟨c, hc, hrun⟩ := mem_chainSlots.1 ho
    obtain ⟨j, i, hj, hi, e⟩ := mem_runSlots.1 hrun
    refine mem_chainSlots.2 ⟨c, hpre.subset hc, mem_runSlots.2 ⟨j, i, hj, hi, ?_⟩⟩
    have e1 : x.1 = clusterToBlock v c + j := by rw [p1, e]
    have e2 : x.2.1 = 32 * i := by rw [p2, e]
    have : x = (x.1, x.2.1, x.2.2) := rfl
    rw [this, ← hbytes, e1, e2]
    rfl

theorem mem_dirSlots_next {v v' : FatVolume} (hs : SameGeom v v') {d d' : Disk} {G G' : List (List Nat)} {h : Nat} {x : Slot}
    (hx : x ∈ dirSlots v d G h) (hbytes : slice (d'.get x.1) x.2.1 32 = x.2.2)
    (hpre : dirChain v G h <+: dirChain v' G' h) : x ∈ dirSlots v' d' G' h :=
  mem_dirSlots_at hs hx rfl hbytes hpre

end Sdmmc.Lemmas.Survive
