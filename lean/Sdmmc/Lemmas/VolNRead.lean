/-
Several open volumes: the simulation (`RunSim`) of the calls on a FILE handle whose volume is record `i` that do not
write to the device — `read`, the three seeks and the observers `file_length`, `file_offset`, `file_eof`.
-/
import Sdmmc.Lemmas.VolNFile

namespace Sdmmc.Lemmas.VolN
open Sdmmc.Model Sdmmc.Model.Fat Sdmmc.Spec.Volume
open Sdmmc.Spec hiding NoFault Coherent run step
open Sdmmc.Lemmas.MHoare

section
variable {hv i : Nat} {σd σf : List (Nat × Nat)}

/-! ### `read` -/

/-- The `while` loop of `read`: file index `k` resp. `pk hv σf k`, volume index `i` resp. `0`. -/
theorem readLoop_simAt {file k so : Nat} (hown : σf[k]? = some (file, hv)) (fuel : Nat) :
    ∀ {s : Mgr} (space : Nat) (acc : Bytes), Skel hv i σd σf s →
      SimAt hv i σd σf Eq (readLoop k i so fuel space acc) (readLoop (pk hv σf k) 0 so fuel space acc) s := by
  induction fuel with
  | zero =>
    intro s space acc hs
    rw [readLoop, readLoop]
    exact sim_pure hs acc
  | succ fuel ih =>
    intro s space acc hs
    rw [readLoop, readLoop]
    refine SimAt.bind (sim_getFile hs hown) fun f f' hff _ hs => ?_
    subst hff
    refine SimAt.ite (fun _ => sim_pure hs acc) fun _ => ?_
    refine SimAt.bind (sim_withVol hs _).attempt fun r r' hrr _ hs => ?_
    have hr := hrr.eq
    subst hr
    rcases r' with ⟨cc, (⟨bi, bo, ba⟩ | e | m | _)⟩ | e | m | _
    · refine SimAt.bind (sim_modifyFile hs hown _ (fun f => rfl)) fun _ _ _ _ hs => ?_
      refine SimAt.bind (sim_withVol hs _).attempt fun rb rb' hrb _ hs => ?_
      have hr := hrb.eq
      subst hr
      cases rb' with
      | ok blk =>
        refine SimAt.ite (fun _ => sim_panic hs _) fun _ => ?_
        refine SimAt.bind (sim_modifyFile hs hown _ (fun f => rfl)) fun _ _ _ _ hs => ?_
        exact ih _ _ hs
      | err e =>
        refine SimAt.bind (sim_modifyFile hs hown _ (fun f => rfl)) fun _ _ _ _ hs => ?_
        exact sim_lift hs _
      | panic m =>
        refine SimAt.bind (sim_modifyFile hs hown _ (fun f => rfl)) fun _ _ _ _ hs => ?_
        exact sim_lift hs _
      | diverged =>
        refine SimAt.bind (sim_modifyFile hs hown _ (fun f => rfl)) fun _ _ _ _ hs => ?_
        exact sim_lift hs _
    · refine SimAt.bind (sim_modifyFile hs hown _ (fun f => rfl)) fun _ _ _ _ hs => ?_
      exact sim_lift hs _
    · refine SimAt.bind (sim_modifyFile hs hown _ (fun f => rfl)) fun _ _ _ _ hs => ?_
      exact sim_lift hs _
    · refine SimAt.bind (sim_modifyFile hs hown _ (fun f => rfl)) fun _ _ _ _ hs => ?_
      exact sim_lift hs _
    · exact sim_lift hs _
    · exact sim_lift hs _
    · exact sim_lift hs _

theorem read_simAt {s : Mgr} {file k : Nat} (n : Nat) (hs : Skel hv i σd σf s)
    (hk : σf.findIdx? (fun e => decide (e.1 = file)) = some k) (hown : σf[k]? = some (file, hv)) :
    SimAt hv i σd σf Eq (Model.read file n) (Model.read file n) s := by
  unfold Model.read
  refine SimAt.bind (sim_getFileById hs hk hown) fun a b hab _ hs => ?_
  obtain ⟨rfl, rfl⟩ := hab
  refine SimAt.bind (sim_getFile hs hown) fun f f' hff hget hs' => ?_
  subst hff
  obtain ⟨_, _, hfv⟩ := getFile_skel hs hown hget
  rw [hfv]
  refine SimAt.bind (sim_getVolumeById hs') fun a b hab _ hs => ?_
  obtain ⟨rfl, rfl⟩ := hab
  exact readLoop_simAt hown _ _ _ hs

theorem read_runSim {s : Mgr} {file : Nat} (hvol : s.vols.findIdx? (·.rawVolume = hv) = some i)
    (ht : fileTarget s file = some i) (n : Nat) : RunSim hv i (Model.read file n) s := by
  obtain ⟨k, hk, hown⟩ := fileTarget_spec hvol ht
  exact RunSim.of_simAt (read_simAt n ⟨hvol, rfl, rfl⟩ hk hown)

/-! ### The seeks -/

theorem seekFromStart_key {f f' : FileInfo} {n : Nat} (h : f.seekFromStart n = some f') : fkeyN f' = fkeyN f := by
  unfold FileInfo.seekFromStart at h
  split at h
  · cases h
  · cases h; rfl

theorem seekFromEnd_key {f f' : FileInfo} {n : Nat} (h : f.seekFromEnd n = some f') : fkeyN f' = fkeyN f := by
  unfold FileInfo.seekFromEnd at h
  split at h
  · cases h
  · cases h; rfl

theorem seekFromCurrent_key {f f' : FileInfo} {n : Int} (h : f.seekFromCurrent n = some f') : fkeyN f' = fkeyN f := by
  unfold FileInfo.seekFromCurrent at h
  simp only at h
  split at h
  · cases h
  · cases h; rfl

/-- The common shape of the three seeks. -/
theorem seek_simAt {s : Mgr} {file k : Nat} (sk : FileInfo → Option FileInfo)
    (hsk : ∀ f f', sk f = some f' → fkeyN f' = fkeyN f) (hs : Skel hv i σd σf s)
    (hk : σf.findIdx? (fun e => decide (e.1 = file)) = some k) (hown : σf[k]? = some (file, hv)) :
    SimAt hv i σd σf Eq
      (do let i ← getFileById file; let f ← getFile i
          match sk f with
          | some f' => setFile i f'
          | none => M.fail .InvalidOffset)
      (do let i ← getFileById file; let f ← getFile i
          match sk f with
          | some f' => setFile i f'
          | none => M.fail .InvalidOffset) s := by
  refine SimAt.bind (sim_getFileById hs hk hown) fun a b hab _ hs => ?_
  obtain ⟨rfl, rfl⟩ := hab
  refine SimAt.bind (sim_getFile hs hown) fun f f' hff hget hs' => ?_
  subst hff
  obtain ⟨_, hfr, hfv⟩ := getFile_skel hs hown hget
  cases h : sk f with
  | none => exact sim_fail hs' _
  | some f' =>
    refine sim_setFile hs' hown f' ?_
    rw [hsk f f' h]
    show (f.rawFile, f.rawVolume) = _
    rw [hfr, hfv]

theorem seekStart_runSim {s : Mgr} {file : Nat} (hvol : s.vols.findIdx? (·.rawVolume = hv) = some i)
    (ht : fileTarget s file = some i) (n : Nat) : RunSim hv i (fileSeekFromStart file n) s := by
  obtain ⟨k, hk, hown⟩ := fileTarget_spec hvol ht
  exact RunSim.of_simAt
    (seek_simAt (fun f => f.seekFromStart n) (fun _ _ h => seekFromStart_key h) ⟨hvol, rfl, rfl⟩ hk hown)

theorem seekCur_runSim {s : Mgr} {file : Nat} (hvol : s.vols.findIdx? (·.rawVolume = hv) = some i)
    (ht : fileTarget s file = some i) (n : Int) : RunSim hv i (fileSeekFromCurrent file n) s := by
  obtain ⟨k, hk, hown⟩ := fileTarget_spec hvol ht
  exact RunSim.of_simAt
    (seek_simAt (fun f => f.seekFromCurrent n) (fun _ _ h => seekFromCurrent_key h) ⟨hvol, rfl, rfl⟩ hk hown)

theorem seekEnd_runSim {s : Mgr} {file : Nat} (hvol : s.vols.findIdx? (·.rawVolume = hv) = some i)
    (ht : fileTarget s file = some i) (n : Nat) : RunSim hv i (fileSeekFromEnd file n) s := by
  obtain ⟨k, hk, hown⟩ := fileTarget_spec hvol ht
  exact RunSim.of_simAt
    (seek_simAt (fun f => f.seekFromEnd n) (fun _ _ h => seekFromEnd_key h) ⟨hvol, rfl, rfl⟩ hk hown)

/-! ### The observers -/

/-- The common shape of the observers. -/
theorem observe_simAt {α : Type} {s : Mgr} {file k : Nat} (g : FileInfo → α) (hs : Skel hv i σd σf s)
    (hk : σf.findIdx? (fun e => decide (e.1 = file)) = some k) (hown : σf[k]? = some (file, hv)) :
    SimAt hv i σd σf Eq
      (do let i ← getFileById file; let f ← getFile i; pure (g f))
      (do let i ← getFileById file; let f ← getFile i; pure (g f)) s := by
  refine SimAt.bind (sim_getFileById hs hk hown) fun a b hab _ hs => ?_
  obtain ⟨rfl, rfl⟩ := hab
  refine SimAt.bind (sim_getFile hs hown) fun f f' hff _ hs' => ?_
  subst hff
  exact sim_pure hs' _

theorem length_runSim {s : Mgr} {file : Nat} (hvol : s.vols.findIdx? (·.rawVolume = hv) = some i)
    (ht : fileTarget s file = some i) : RunSim hv i (fileLength file) s := by
  obtain ⟨k, hk, hown⟩ := fileTarget_spec hvol ht
  exact RunSim.of_simAt (observe_simAt (fun f => f.length) ⟨hvol, rfl, rfl⟩ hk hown)

theorem offset_runSim {s : Mgr} {file : Nat} (hvol : s.vols.findIdx? (·.rawVolume = hv) = some i)
    (ht : fileTarget s file = some i) : RunSim hv i (fileOffset file) s := by
  obtain ⟨k, hk, hown⟩ := fileTarget_spec hvol ht
  exact RunSim.of_simAt (observe_simAt (fun f => f.currentOffset) ⟨hvol, rfl, rfl⟩ hk hown)

theorem eof_runSim {s : Mgr} {file : Nat} (hvol : s.vols.findIdx? (·.rawVolume = hv) = some i)
    (ht : fileTarget s file = some i) : RunSim hv i (fileEof file) s := by
  obtain ⟨k, hk, hown⟩ := fileTarget_spec hvol ht
  exact RunSim.of_simAt (observe_simAt (fun f => f.eof) ⟨hvol, rfl, rfl⟩ hk hown)

end

end Sdmmc.Lemmas.VolN
