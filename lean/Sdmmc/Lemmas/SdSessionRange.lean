/-
Lemmas for C12, part 30 (whole sessions): reads beyond the end of the card — the card refuses
(or stops streaming), the driver's token wait times out.
-/
import Sdmmc.Lemmas.SdSessionExpand
import Sdmmc.Lemmas.SdCardSim2Refuse

namespace Sdmmc.Lemmas.SdSession
open Sdmmc.Model Sdmmc.Spec.Card Sdmmc.Model.Sd Sdmmc.Lemmas.Sd Sdmmc.Gen Sdmmc.Lemmas.SdCardSim
open Sdmmc.Lemmas.SdCardSim2

/-- The token wait against a card that has nothing to send: every poll reads 0xFF, the budget
runs out. -/
theorem waitToken_timeout (n : Nat) : ∀ (s : St Card), Listening s.bus → s.bus.out = [] → s.bus.busyLeft = 0 →
    ∃ s', waitToken cardBus n s = (.err .TimeoutReadBuffer, s') ∧ StAt s s.bus s' := by
  induction n with
  | zero =>
    intro s hL ho hb
    simp only [waitToken, bind_apply, readByte_idle s hL ho hb]
    exact ⟨_, rfl, rfl, rfl, rfl, rfl⟩
  | succ n ih =>
    intro s hL ho hb
    simp only [waitToken, bind_apply, readByte_idle s hL ho hb]
    obtain ⟨s', h1, h2⟩ := ih ⟨s.bus, s.cardType, s.useCrc, s.acquireRetries, Event.poll 255 :: s.events, s.delays + 1⟩
      hL ho hb
    exact ⟨s', h1, h2⟩

theorem readData_timeout (len : Nat) (s : St Card) (hL : Listening s.bus) (ho : s.bus.out = [])
    (hb : s.bus.busyLeft = 0) :
    ∃ s', readData cardBus len s = (.err .TimeoutReadBuffer, s') ∧ StAt s s.bus s' := by
  obtain ⟨s', h, a⟩ := waitToken_timeout DEFAULT_READ_RETRIES s hL ho hb
  exact ⟨s', by unfold readData; rw [bind_err h], a⟩

/-- READ_SINGLE_BLOCK / READ_MULTIPLE_BLOCK beyond the end of the card: R1 "parameter error",
nothing else. -/
theorem exec17_oor (c : Card) (hi : c.initialised = true) (hs : c.streaming = none) (arg n : Nat)
    (hblk : blockOfArg c arg = some n) (hn : ¬ n < c.capacity) :
    execCommand c 17 arg =
      { c with commands := c.commands + 1, appCmd := false, out := List.replicate c.ncr 0xFF ++ [0x40] } := by
  rcases c with ⟨kind, mem, csd, cap, ncr, nac, busy, initPolls, idle, spiMode, crcOn, appCmd, cmd8Seen,
    initLeft, initialised, out, busyLeft, cmdBuf, phase, streaming, preErase, violations, commands⟩
  simp only at hi hs hn
  subst hi hs
  unfold execCommand
  cases kind <;> simp [blockOfArg] at hblk <;> simp [blockOfArg, hblk, hn, respond]

theorem exec18_oor (c : Card) (hi : c.initialised = true) (hs : c.streaming = none) (arg n : Nat)
    (hblk : blockOfArg c arg = some n) (hn : ¬ n < c.capacity) :
    execCommand c 18 arg =
      { c with commands := c.commands + 1, appCmd := false, out := List.replicate c.ncr 0xFF ++ [0x40] } := by
  rcases c with ⟨kind, mem, csd, cap, ncr, nac, busy, initPolls, idle, spiMode, crcOn, appCmd, cmd8Seen,
    initLeft, initialised, out, busyLeft, cmdBuf, phase, streaming, preErase, violations, commands⟩
  simp only at hi hs hn
  subst hi hs
  unfold execCommand
  cases kind <;> simp [blockOfArg] at hblk <;> simp [blockOfArg, hblk, hn, respond]

/-- A single-block read at or beyond the end of the card: the card answers CMD17 with "parameter
error" (which the driver does not look at) and sends no data; `read` returns
`TimeoutReadBuffer` after the token budget.  Nothing else happened to the card. -/
theorem read_single_oor (s : St Card) (hS : Settled s.bus)
    (hbl : s.bus.busyLeft ≤ DEFAULT_COMMAND_RETRIES) (hncr : s.bus.ncr ≤ DEFAULT_COMMAND_RETRIES)
    (idx : Nat) (hadr : Addressable s.cardType s.bus.kind idx) (hidx : s.bus.capacity ≤ idx) :
    ∃ s', Sd.read cardBus 1 idx s = (.err .TimeoutReadBuffer, s') ∧
      StAt s { s.bus with commands := s.bus.commands + 1, appCmd := false, busyLeft := 0, out := [] } s' := by
  obtain ⟨start, hstart, h32, hblk⟩ := hadr.start
  obtain ⟨hi, hid, hcb, hp, hst, ho⟩ := hS
  have hL0 : Listening s.bus := ⟨hcb, by rw [hp]; rfl⟩
  obtain ⟨s1, h1, a1⟩ := cardCommand_card2 CMD17 start (by decide) (by decide) (by decide) h32 s hcb hp hst ho hbl
    _ (exec17_oor (setBusy s.bus 0) hi hst start idx hblk (by show ¬ idx < s.bus.capacity; omega)) hL0 s.bus.ncr 0x40
    [] rfl hncr (by decide)
  have hb1 : s1.bus = { s.bus with commands := s.bus.commands + 1, appCmd := false, busyLeft := 0, out := [] } := by
    rw [a1.1]; show drain _ = _; refine (drain_none _ ?_).trans ?_
    · exact hst
    · rfl
  obtain ⟨s2, h2, a2⟩ := readData_timeout 512 s1 (by rw [hb1]; exact hL0) (by rw [hb1]) (by rw [hb1])
  refine ⟨s2, ?_, ?_⟩
  · unfold Sd.read
    rw [bind_ok (get_apply s), hstart, bind_ok (show S.lift (SRes.ok start) s = (.ok start, s) from rfl)]
    simp only [if_true]
    rw [bind_ok h1, bind_err h2]
  · have h := a1.trans a2
    exact ⟨by rw [a2.1, hb1], h.2.1, h.2.2.1, h.2.2.2⟩

/-- The streamed blocks up to the end of the card, then one block too many: the token wait for it
times out. -/
theorem readBlocks_card_fail (c0 : Card) (hL : Listening c0) (hz : c0.busyLeft = 0)
    (hnac : c0.nac ≤ DEFAULT_READ_RETRIES) (m : Nat) :
    ∀ (k idx : Nat) (s : St Card), s.bus = streamAt c0 idx → idx + k = c0.capacity →
    (∀ j, idx ≤ j → j < c0.capacity → (getBlock c0 j).length = 512) →
    ∃ s', readBlocks cardBus (k + (m + 1)) s = (.err .TimeoutReadBuffer, s') ∧
      StAt s (streamAt c0 c0.capacity) s' := by
  intro k
  induction k with
  | zero =>
    intro idx s hbus hcap _
    have hidx : idx = c0.capacity := by omega
    subst hidx
    have hbus' : s.bus = { c0 with out := [], streaming := none } := by
      rw [hbus]; unfold streamAt; rw [if_neg (Nat.lt_irrefl _)]
    obtain ⟨s1, h1, a1⟩ := readData_timeout 512 s (by rw [hbus']; exact hL) (by rw [hbus']) (by rw [hbus']; exact hz)
    refine ⟨s1, ?_, by rw [← hbus]; exact a1⟩
    rw [Nat.zero_add, readBlocks, bind_err h1]
  | succ k ih =>
    intro idx s hbus hcap hlen
    have hm : idx < c0.capacity := by omega
    have hl := hlen idx (Nat.le_refl _) hm
    obtain ⟨s1, h1, a1⟩ := readData_card2 s (by rw [hbus]; exact hL.streamAt idx) c0 (getBlock c0 idx)
      (by intro h; rw [h] at hl; cases hl) hnac (by rw [hbus]; unfold streamAt; rw [if_pos hm])
    rw [hl] at h1
    rw [hbus, drain_streamAt c0 idx hm] at a1
    obtain ⟨s2, h2, a2⟩ := ih (idx + 1) s1 a1.1 (by omega) (fun j h1 h2 => hlen j (by omega) h2)
    refine ⟨s2, ?_, a1.trans a2⟩
    rw [show k + 1 + (m + 1) = (k + (m + 1)) + 1 by omega, readBlocks, bind_ok h1, bind_err h2]

/-- A multiple-block read that starts inside the card and runs over its end: the blocks up to
the end are streamed, then the card sends nothing more; the driver's token wait times out, CMD12
is still sent, and `read` returns `TimeoutReadBuffer`.  Memory untouched, no violation; the card
is left busy for `busy` bytes (CMD12). -/
theorem read_multi_oor (s : St Card) (hS : Settled s.bus)
    (hbl : s.bus.busyLeft ≤ DEFAULT_COMMAND_RETRIES) (hncr : s.bus.ncr ≤ DEFAULT_COMMAND_RETRIES)
    (hnac : s.bus.nac ≤ DEFAULT_READ_RETRIES)
    (n idx : Nat) (hn1 : n ≠ 1) (hadr : Addressable s.cardType s.bus.kind idx) (hidx : idx < s.bus.capacity)
    (hcap : s.bus.capacity < idx + n)
    (hlen : ∀ j, idx ≤ j → j < s.bus.capacity → (getBlock s.bus j).length = 512) :
    ∃ s', Sd.read cardBus n idx s = (.err .TimeoutReadBuffer, s') ∧
      StAt s { s.bus with commands := s.bus.commands + 2, appCmd := false, streaming := none,
                          busyLeft := s.bus.busy, out := [] } s' := by
  obtain ⟨start, hstart, h32, hblk⟩ := hadr.start
  obtain ⟨hi, hid, hcb, hp, hst, ho⟩ := hS
  have hL0 : Listening s.bus := ⟨hcb, by rw [hp]; rfl⟩
  obtain ⟨s1, h1, a1⟩ := cardCommand_card2 CMD18 start (by decide) (by decide) (by decide) h32 s hcb hp hst ho hbl
    _ (exec18 (setBusy s.bus 0) hi hst start idx hblk hidx) hL0 s.bus.ncr 0x00
    (dataBlock s.bus (getBlock s.bus idx)) rfl hncr (by decide)
  rw [popTo_ne_nil _ _ (dataBlock_ne_nil _ _)] at a1
  let c0 : Card := { s.bus with busyLeft := 0, commands := s.bus.commands + 1, appCmd := false }
  have hb1 : s1.bus = streamAt c0 idx := by
    rw [a1.1]; unfold streamAt; rw [if_pos (show idx < c0.capacity from hidx)]; rfl
  obtain ⟨m, hm⟩ : ∃ m, n = (s.bus.capacity - idx) + (m + 1) := ⟨n - (s.bus.capacity - idx) - 1, by omega⟩
  obtain ⟨s2, h2, a2⟩ := readBlocks_card_fail c0 hL0 rfl hnac m (s.bus.capacity - idx) idx s1 hb1
    (by show idx + (s.bus.capacity - idx) = s.bus.capacity; omega) hlen
  rw [← hm] at h2
  obtain ⟨s3, h3, a3⟩ := cardCommand12_card c0 hcb hp hid rfl hncr c0.capacity
    (fun h => absurd h (Nat.lt_irrefl _)) s2 a2.1
  refine ⟨s3, ?_, ?_⟩
  · unfold Sd.read
    rw [bind_ok (get_apply s), hstart, bind_ok (show S.lift (SRes.ok start) s = (.ok start, s) from rfl)]
    simp only [if_neg hn1]
    rw [bind_ok h1]
    have hat : S.attempt (readBlocks cardBus n) s1 = (.ok (.err .TimeoutReadBuffer), s2) := by
      rw [attempt_apply, h2]
    rw [bind_ok hat]
    simp only
    have hat2 : S.attempt (cardCommand cardBus CMD12 0) s2 = (.ok (.ok 0), s3) := by rw [attempt_apply, h3]
    rw [bind_ok hat2]
    rfl
  · have h := (a1.trans a2).trans a3
    exact ⟨h.1, h.2.1, h.2.2.1, h.2.2.2⟩

theorem setOut_streaming_none (c : Card) (h : c.streaming = none) (o : List UInt8) :
    setOut c o = { c with out := o, streaming := none } := by
  rcases c with ⟨kind, mem, csd, cap, ncr, nac, busy, initPolls, idle, spiMode, crcOn, appCmd, cmd8Seen,
    initLeft, initialised, out, busyLeft, cmdBuf, phase, streaming, preErase, violations, commands⟩
  simp only at h
  subst h
  rfl

/-- A multiple-block read (at least one block) that starts at or beyond the end of the card: CMD18
is answered "parameter error", nothing is streamed, the first token wait times out, CMD12 is still
sent. -/
theorem read_multi_oor_start (s : St Card) (hS : Settled s.bus)
    (hbl : s.bus.busyLeft ≤ DEFAULT_COMMAND_RETRIES) (hncr : s.bus.ncr ≤ DEFAULT_COMMAND_RETRIES)
    (hnac : s.bus.nac ≤ DEFAULT_READ_RETRIES)
    (n idx : Nat) (hn1 : n ≠ 1) (hn0 : n ≠ 0) (hadr : Addressable s.cardType s.bus.kind idx)
    (hidx : s.bus.capacity ≤ idx) :
    ∃ s', Sd.read cardBus n idx s = (.err .TimeoutReadBuffer, s') ∧
      StAt s { s.bus with commands := s.bus.commands + 2, appCmd := false, streaming := none,
                          busyLeft := s.bus.busy, out := [] } s' := by
  obtain ⟨start, hstart, h32, hblk⟩ := hadr.start
  obtain ⟨hi, hid, hcb, hp, hst, ho⟩ := hS
  have hL0 : Listening s.bus := ⟨hcb, by rw [hp]; rfl⟩
  obtain ⟨s1, h1, a1⟩ := cardCommand_card2 CMD18 start (by decide) (by decide) (by decide) h32 s hcb hp hst ho hbl
    _ (exec18_oor (setBusy s.bus 0) hi hst start idx hblk (by show ¬ idx < s.bus.capacity; omega)) hL0 s.bus.ncr 0x40
    [] rfl hncr (by decide)
  let c0 : Card := { s.bus with busyLeft := 0, commands := s.bus.commands + 1, appCmd := false }
  have hb1 : s1.bus = streamAt c0 c0.capacity := by
    rw [a1.1]; unfold streamAt; rw [if_neg (Nat.lt_irrefl _)]
    show drain _ = _; refine (drain_none _ ?_).trans ?_
    · exact hst
    · refine (setOut_streaming_none _ ?_ []).trans ?_
      · exact hst
      · rfl
  obtain ⟨m, hm⟩ : ∃ m, n = 0 + (m + 1) := ⟨n - 1, by omega⟩
  obtain ⟨s2, h2, a2⟩ := readBlocks_card_fail c0 hL0 rfl hnac m 0 c0.capacity s1 hb1 rfl
    (fun j h1 h2 => absurd h2 (by omega))
  rw [← hm] at h2
  obtain ⟨s3, h3, a3⟩ := cardCommand12_card c0 hcb hp hid rfl hncr c0.capacity
    (fun h => absurd h (Nat.lt_irrefl _)) s2 a2.1
  refine ⟨s3, ?_, ?_⟩
  · unfold Sd.read
    rw [bind_ok (get_apply s), hstart, bind_ok (show S.lift (SRes.ok start) s = (.ok start, s) from rfl)]
    simp only [if_neg hn1]
    rw [bind_ok h1]
    have hat : S.attempt (readBlocks cardBus n) s1 = (.ok (.err .TimeoutReadBuffer), s2) := by
      rw [attempt_apply, h2]
    rw [bind_ok hat]
    simp only
    have hat2 : S.attempt (cardCommand cardBus CMD12 0) s2 = (.ok (.ok 0), s3) := by rw [attempt_apply, h3]
    rw [bind_ok hat2]
    rfl
  · have h := (a1.trans a2).trans a3
    exact ⟨h.1, h.2.1, h.2.2.1, h.2.2.2⟩

/-- Any read that does not fit into the card (`n ≥ 1` blocks, `idx + n` beyond the capacity), on
a card satisfying the session invariant: `TimeoutReadBuffer`; the invariant — same store, no
violation — still holds, so the session can go on.  The card is left busy only if CMD12 was sent
(`n ≠ 1`). -/
theorem callOp_read_oor (kind : Kind) (csd : List UInt8) (ncr nac busy gap : Nat)
    (hncr : ncr ≤ DEFAULT_COMMAND_RETRIES) (hnac : nac ≤ DEFAULT_READ_RETRIES)
    (st : Store) (hst : ∀ j, (st j).length = 512) (s : St Card)
    (hI : SessInv kind csd ncr nac busy gap st s) (hbl : s.bus.busyLeft ≤ DEFAULT_COMMAND_RETRIES)
    (n idx : Nat) (hn0 : n ≠ 0) (hadr : idx < addrLimit kind) (hoor : capacityOfCsd csd < idx + n) :
    ∃ s', callOp cardBus (.read n idx) s = (.err .TimeoutReadBuffer, s') ∧
      SessInv kind csd ncr nac busy gap st s' ∧ s'.bus.busyLeft = (if n = 1 then 0 else busy) ∧
      s'.useCrc = s.useCrc := by
  have hS := hI.settled
  have hncr' : s.bus.ncr ≤ DEFAULT_COMMAND_RETRIES := by rw [hI.ncrEq]; exact hncr
  have hnac' : s.bus.nac ≤ DEFAULT_READ_RETRIES := by rw [hI.nacEq]; exact hnac
  have hadr' : Addressable s.cardType s.bus.kind idx := by
    rw [hI.ct, hI.kindEq]; exact addressable_of_limit kind idx hadr
  have hlen : ∀ j, (getBlock s.bus j).length = 512 := fun j => by rw [hI.mem]; exact hst j
  have key : ∀ (s' : St Card) (c' : Card), StAt s c' s' → c'.mem = s.bus.mem → Unchanged s.bus c' →
      SdCardSim2.Settled c' → SessInv kind csd ncr nac busy gap st s' := by
    intro s' c' a hm hu hset
    refine hI.step ⟨by rw [a.1]; exact hu, by rw [a.1]; exact hset, a.2.1, a.2.2.1⟩ (fun j => ?_)
    rw [a.1, getBlock_congr hm]; exact hI.mem j
  by_cases hn : n = 1
  · subst hn
    obtain ⟨s', h, a⟩ := read_single_oor s hS hbl hncr' idx hadr' (by rw [hI.capEq]; omega)
    refine ⟨s', ?_, key s' _ a rfl (Unchanged.refl _) ⟨hS.1, hS.2, hS.3, hS.4, hS.5, rfl⟩, by rw [a.1]; rfl, a.2.2.1⟩
    unfold callOp; dsimp only; rw [bind_err h]
  · rw [if_neg hn]
    by_cases hin : idx < s.bus.capacity
    · obtain ⟨s', h, a⟩ := read_multi_oor s hS hbl hncr' hnac' n idx hn hadr' hin (by rw [hI.capEq]; exact hoor)
        (fun j _ _ => hlen j)
      refine ⟨s', ?_, key s' _ a rfl (Unchanged.refl _) ⟨hS.1, hS.2, hS.3, hS.4, rfl, rfl⟩,
        by rw [a.1]; exact hI.busyEq, a.2.2.1⟩
      unfold callOp; dsimp only; rw [bind_err h]
    · obtain ⟨s', h, a⟩ := read_multi_oor_start s hS hbl hncr' hnac' n idx hn hn0 hadr' (by omega)
      refine ⟨s', ?_, key s' _ a rfl (Unchanged.refl _) ⟨hS.1, hS.2, hS.3, hS.4, rfl, rfl⟩,
        by rw [a.1]; exact hI.busyEq, a.2.2.1⟩
      unfold callOp; dsimp only; rw [bind_err h]

/-- A multiple-block write that starts inside the card and runs over its end, on a card satisfying
the session invariant: `WriteError`; the blocks inside the card are stored (the abstract store
takes exactly those), the stop sequence has been sent, and the invariant holds again — no
violation, card settled and not busy — so the session can go on. -/
theorem callOp_write_oor (kind : Kind) (csd : List UInt8) (ncr nac busy gap : Nat)
    (hncr : ncr ≤ DEFAULT_COMMAND_RETRIES) (hbusy : busy ≤ DEFAULT_WRITE_RETRIES) (hgap : gap ≤ 1)
    (st : Store) (s : St Card)
    (hI : SessInv kind csd ncr nac busy gap st s) (hbl : s.bus.busyLeft ≤ DEFAULT_COMMAND_RETRIES)
    (blocks : List Bytes) (idx : Nat) (hn1 : blocks.length ≠ 1) (hadr : idx < addrLimit kind)
    (hidx : idx < capacityOfCsd csd) (hoor : capacityOfCsd csd < idx + blocks.length)
    (hlen : ∀ b ∈ blocks, b.length = 512) :
    ∃ s', callOp cardBus (.write blocks idx) s = (.err .WriteError, s') ∧
      SessInv kind csd ncr nac busy gap (writeStore st idx (blocks.take (capacityOfCsd csd - idx))) s' ∧
      s'.bus.busyLeft = 0 ∧ s'.useCrc = s.useCrc := by
  have hS := hI.settled
  obtain ⟨s', h, hm, hb, o⟩ := write_multi_oor_sum s hS hbl (by rw [hI.ncrEq]; exact hncr)
    (by rw [hI.busyEq]; exact hbusy) (by rw [hI.gapEq]; exact hgap) (fun h => by rw [← hI.crc]; exact h) blocks idx hn1
    (by rw [hI.ct, hI.kindEq]; exact addressable_of_limit kind idx hadr) (by rw [hI.capEq]; exact hidx)
    (by rw [hI.capEq]; exact hoor) hlen
  refine ⟨s', ?_, hI.step o (fun j => ?_), hb, o.useCrc⟩
  · unfold callOp; dsimp only; rw [bind_err h]
  · show getBlock s'.bus j = writeStore st idx _ j
    rw [getBlock_writeMem s.bus s'.bus idx _ hm, hI.mem, hI.capEq]; rfl

end Sdmmc.Lemmas.SdSession
