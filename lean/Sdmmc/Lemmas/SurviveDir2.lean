/-
C09 over whole histories, part 17: the PATH from the root directory to the directory of the file — the sub-directory
entries `ys` one walks through (`PathOn`), and its persistence: on a later (or crashed) medium whose tree is sound
(`TreeView`: what `TreeOK` and `TreeLoose` have in common), where the slots of `ys` hold the same bytes and the chains
of the directories have only grown, the same entries are again a path to the same directory (`pathOn_next`).
-/
import Sdmmc.Lemmas.SurviveDir
import Sdmmc.Lemmas.SurviveTrack2
import Sdmmc.Spec.VolumeCrash

namespace Sdmmc.Lemmas.Survive
open Sdmmc.Model Sdmmc.Model.Fat Sdmmc.Spec.Volume Sdmmc.Lemmas.VolBase Sdmmc.Lemmas.VolTree
open Sdmmc.Spec hiding NoFault Coherent
open Sdmmc.Lemmas.VolDisk Sdmmc.Lemmas.VolMed Sdmmc.Lemmas.VolEng

/-- What the directory trees of a state with the invariant and of a crashed medium have in common. -/
structure TreeView (ft : FatType) (dirs : List (Nat × Nat)) (slots : Nat → List Slot) : Prop where
  cleanTail : ∀ h, h ∈ dirIds dirs → CleanTail (slots h)
  names : ∀ h, h ∈ dirIds dirs → ((entries (slots h)).map sName).Nodup
  dots : ∀ h p, (h, p) ∈ dirs → ∃ s0 s1 rest, slots h = s0 :: s1 :: rest ∧
    IsDot ft Sfn.thisDir h s0 ∧ IsDot ft Sfn.parentDir p s1
  subdirs : ∀ h, h ∈ dirIds dirs → ∀ o, o ∈ objects h (slots h) → isDirE o = true → (sCluster ft o, h) ∈ dirs

theorem TreeView.of_treeOK {ft : FatType} {cb : Nat} {root : List Nat} {G : List (List Nat)} {dirs : List (Nat × Nat)}
    {slots : Nat → List Slot} {files : List FileInfo} (h : TreeOK ft cb root G dirs slots files) : TreeView ft dirs slots :=
  ⟨h.cleanTail, h.names, h.dots, h.subdirs⟩

theorem TreeView.of_treeLoose {ft : FatType} {root : List Nat} {G : List (List Nat)} {dirs : List (Nat × Nat)}
    {slots : Nat → List Slot} (h : TreeLoose ft root G dirs slots) : TreeView ft dirs slots :=
  ⟨h.cleanTail, h.names, h.dots, h.subdirs⟩

/-- `ys` are sub-directory entries leading from directory `p` to directory `h`: the first is an entry of `p`, each next
one an entry of the sub-directory the previous one designates, the last one designates `h`. -/
inductive PathOn (ft : FatType) (dirs : List (Nat × Nat)) (slots : Nat → List Slot) : Nat → List Slot → Nat → Prop
  | nil (p : Nat) (hp : p ∈ dirIds dirs) : PathOn ft dirs slots p [] p
  | cons (p : Nat) (y : Slot) (ys : List Slot) (h : Nat) (hp : p ∈ dirIds dirs) (hy : y ∈ objects p (slots p))
      (hd : isDirE y = true) (rest : PathOn ft dirs slots (sCluster ft y) ys h) : PathOn ft dirs slots p (y :: ys) h

theorem PathOn.start {ft : FatType} {dirs : List (Nat × Nat)} {slots : Nat → List Slot} {p h : Nat} {ys : List Slot}
    (hP : PathOn ft dirs slots p ys h) : p ∈ dirIds dirs := by
  cases hP with
  | nil _ hp => exact hp
  | cons _ _ _ _ hp _ _ _ => exact hp

theorem PathOn.end_mem {ft : FatType} {dirs : List (Nat × Nat)} {slots : Nat → List Slot} {p h : Nat} {ys : List Slot}
    (hP : PathOn ft dirs slots p ys h) : h ∈ dirIds dirs := by
  induction hP with
  | nil _ hp => exact hp
  | cons _ _ _ _ _ _ _ _ ih => exact ih

/-- Every entry of the path is a sub-directory entry of some directory. -/
theorem PathOn.entry {ft : FatType} {dirs : List (Nat × Nat)} {slots : Nat → List Slot} {p h : Nat} {ys : List Slot}
    (hP : PathOn ft dirs slots p ys h) : ∀ y, y ∈ ys → ∃ q, q ∈ dirIds dirs ∧ y ∈ objects q (slots q) ∧ isDirE y = true := by
  induction hP with
  | nil _ _ => exact fun y hy => nomatch hy
  | cons q y ys _ hp hy hd _ ih =>
    intro z hz
    rcases List.mem_cons.1 hz with e | hz
    · subst e; exact ⟨q, hp, hy, hd⟩
    · exact ih z hz

/-- A live short entry whose name is neither `.` nor `..` is an object. -/
theorem entry_object_named {ft : FatType} {dirs : List (Nat × Nat)} {slots : Nat → List Slot} (hT : TreeView ft dirs slots)
    {h : Nat} (hh : h ∈ dirIds dirs) {o : Slot} (ho : o ∈ entries (slots h)) (h1 : sName o ≠ Sfn.thisDir)
    (h2 : sName o ≠ Sfn.parentDir) : o ∈ objects h (slots h) := by
  unfold objects
  by_cases h0 : h = 0
  · rw [if_pos h0]; exact ho
  · rw [if_neg h0]
    rcases mem_dirIds.1 hh with e | ⟨p, hp⟩
    · exact absurd e h0
    obtain ⟨s0, s1, rest, hss, hd0, hd1⟩ := hT.dots h p hp
    have hk0 := isDot_keep hd0 thisDir_first
    have hk1 := isDot_keep hd1 parentDir_first
    have e1 : entries (s0 :: s1 :: rest) = s0 :: s1 :: entries rest := by
      have := entries_split [] (s1 :: rest) s0 (fun _ h => by cases h)
      rw [List.nil_append] at this
      rw [this, if_neg hk0.1, if_pos hk0.2]
      have := entries_split [] rest s1 (fun _ h => by cases h)
      rw [List.nil_append] at this
      rw [this, if_neg hk1.1, if_pos hk1.2]
      rfl
    rw [hss, e1] at ho ⊢
    rcases List.mem_cons.1 ho with rfl | ho
    · exact absurd hd0.1 h1
    rcases List.mem_cons.1 ho with rfl | ho
    · exact absurd hd1.1 h2
    · exact ho

/-- The names of the objects of a directory are neither `.` nor `..` (in a sub-directory those are the names of the
two leading entries, and names are distinct; in the root directory nothing is said, hence the hypothesis there). -/
theorem object_name_ne_dots {ft : FatType} {dirs : List (Nat × Nat)} {slots : Nat → List Slot} (hT : TreeView ft dirs slots)
    {h : Nat} (hh : h ∈ dirIds dirs) (h0 : h ≠ 0) {o : Slot} (ho : o ∈ objects h (slots h)) :
    sName o ≠ Sfn.thisDir ∧ sName o ≠ Sfn.parentDir := by
  rcases mem_dirIds.1 hh with e | ⟨p, hp⟩
  · exact absurd e h0
  obtain ⟨s0, s1, rest, hss, hd0, hd1⟩ := hT.dots h p hp
  have hk0 := isDot_keep hd0 thisDir_first
  have hk1 := isDot_keep hd1 parentDir_first
  have e1 : entries (s0 :: s1 :: rest) = s0 :: s1 :: entries rest := by
    have := entries_split [] (s1 :: rest) s0 (fun _ h => by cases h)
    rw [List.nil_append] at this
    rw [this, if_neg hk0.1, if_pos hk0.2]
    have := entries_split [] rest s1 (fun _ h => by cases h)
    rw [List.nil_append] at this
    rw [this, if_neg hk1.1, if_pos hk1.2]
    rfl
  have hnd := hT.names h hh
  rw [hss, e1] at hnd
  unfold objects at ho
  rw [if_neg h0, hss, e1] at ho
  have ho' : o ∈ entries rest := ho
  simp only [List.map_cons, List.nodup_cons, List.mem_cons, List.mem_map, not_or, not_exists, not_and] at hnd
  obtain ⟨⟨_, n0⟩, ⟨n1, _⟩⟩ := hnd
  refine ⟨fun e => n0 o ho' (by rw [e, hd0.1]), fun e => n1 o ho' (by rw [e, hd1.1])⟩

/-- **The path persists.**  `(v, d, G, dirs)` has the path `ys` from `p` to `h`; `(v', d', G', dirs')` is a sound tree
of the same geometry in which `p` is a directory, the slots of `ys` hold the same bytes, and the chain of every
directory of the old tree that is a directory of the new tree continues the old chain.  In the root directory the
names of `ys` are not `.` / `..` (`hroot`; in sub-directories this follows).  Then `ys` is a path from `p` to `h`
in the new tree. -/
theorem pathOn_next {v v' : FatVolume} (hs : SameGeom v v') {d d' : Disk} {G G' : List (List Nat)} {dirs dirs' : List (Nat × Nat)}
    (hT : TreeView v.fatType dirs (dirSlots v d G)) (hT' : TreeView v'.fatType dirs' (dirSlots v' d' G'))
    (hpre : ∀ q, q ∈ dirIds dirs → q ∈ dirIds dirs' → dirChain v G q <+: dirChain v' G' q) {ys : List Slot}
    (hbytes : ∀ y, y ∈ ys → slice (d'.get y.1) y.2.1 32 = y.2.2) {p h : Nat}
    (hP : PathOn v.fatType dirs (dirSlots v d G) p ys h)
    (hroot : ∀ y, y ∈ ys → sName y ≠ Sfn.thisDir ∧ sName y ≠ Sfn.parentDir) (hp' : p ∈ dirIds dirs') :
    PathOn v'.fatType dirs' (dirSlots v' d' G') p ys h := by
  have hft : v'.fatType = v.fatType := hs.fatType
  induction hP with
  | nil q _ => exact .nil q hp'
  | cons q y ys h hq hy hd _ ih =>
    have hym : y ∈ dirSlots v' d' G' q :=
      mem_dirSlots_next hs (mem_of_mem_objects hy) (hbytes y List.mem_cons_self) (hpre q hq hp')
    have hye : y ∈ entries (dirSlots v d G q) := VolEng.mem_entries_of_objects hy
    obtain ⟨_, hnz, h5, hfr⟩ := mem_entries hye
    have hbe := mem_beforeEnd_of_cleanTail (hT'.cleanTail q hp') hym hnz
    have hye' : y ∈ entries (dirSlots v' d' G' q) := by
      rw [entries_eq, List.mem_filter]
      refine ⟨hbe, ?_⟩
      unfold VolBase.keep
      simp only [Bool.and_eq_true, decide_eq_true_eq, Bool.not_eq_true']
      exact ⟨h5, hfr⟩
    obtain ⟨n1, n2⟩ := hroot y List.mem_cons_self
    have hyo' := entry_object_named hT' hp' hye' n1 n2
    have hnext : sCluster v'.fatType y ∈ dirIds dirs' :=
      mem_dirIds.2 (.inr ⟨q, hT'.subdirs q hp' y hyo' hd⟩)
    rw [hft] at hnext
    have := ih (fun z hz => hbytes z (List.mem_cons_of_mem _ hz)) (fun z hz => hroot z (List.mem_cons_of_mem _ hz)) hnext
    refine .cons q y ys h hp' hyo' hd ?_
    rw [hft] at this ⊢; exact this

end Sdmmc.Lemmas.Survive
