/-
Refinement of the API to the abstract file system, part 12: `open_file_in_dir`, every mode, every outcome.
-/
import Sdmmc.Lemmas.AbsFsTrunc

namespace Sdmmc.Lemmas.AbsFs
open Sdmmc.Model Sdmmc.Model.Fat Sdmmc.Spec.Volume Sdmmc.Lemmas.VolBase Sdmmc.Lemmas.VolTree
open Sdmmc.Spec hiding NoFault Coherent
open Sdmmc.Spec.AbsFs (Meta view storedMeta fatRound OpenFile OpenDir absStep)
open Sdmmc.Lemmas.VolDisk Sdmmc.Lemmas.VolMed Sdmmc.Lemmas.VolApi Sdmmc.Lemmas.VolEng
open Sdmmc.Lemmas.FBasic (NoFault Coherent)
open Sdmmc.Lemmas.MHoare

/-- What the lookup found, located in the view of the directory. -/
theorem found_index {s : Mgr} {gh : Ghost} (hI : VolInv s gh) {d : DirInfo} (hdv : ValidDir gh.dirs d.cluster) {sfn : Bytes}
    {e : DirEntry} {o : Slot} (hF : Found s gh d sfn e o) (cont : Slot → Bytes) :
    ∃ j, Spec.AbsFs.lookup ((DirView s gh (dirIdOf d.cluster)).map (absSlot gh.vol.fatType cont)) sfn = some j ∧
      (DirView s gh (dirIdOf d.cluster))[j]? = some o ∧ keep o = true := by
  have hM := medX_of_med hI.med
  obtain ⟨hid, _⟩ := validDir_id hM hdv
  rcases lookup_refines (gh := gh) (dirSlots gh.vol s.dev.disk gh.G (dirIdOf d.cluster)) sfn cont with ⟨_, h2⟩ | ⟨j, o2, h1, h2, h3, h4, h5⟩
  · exfalso
    have := List.find?_eq_none.1 h2 o hF.mem
    simp only [decide_eq_true_eq] at this
    exact this hF.name
  · have hoo : o2 = o :=
      eq_of_nodup_map sName (hM.tree.names _ hid) (List.mem_of_find?_eq_some h2) hF.mem (h5.trans hF.name.symm)
    subst hoo
    exact ⟨j, h1, h3, h4⟩

/-- A fresh name is not found abstractly. -/
theorem fresh_lookup {s : Mgr} {gh : Ghost} {h : Nat} {sfn : Bytes}
    (hfresh : sfn ∉ (entries (dirSlots gh.vol s.dev.disk gh.G h)).map sName) (cont : Slot → Bytes) :
    Spec.AbsFs.lookup ((DirView s gh h).map (absSlot gh.vol.fatType cont)) sfn = none := by
  rcases lookup_refines (gh := gh) (dirSlots gh.vol s.dev.disk gh.G h) sfn cont with ⟨h1, _⟩ | ⟨j, o2, _, h2, _, _, h5⟩
  · exact h1
  · exact absurd (List.mem_map.2 ⟨o2, List.mem_of_find?_eq_some h2, h5⟩) hfresh

/-- No open file sits at a directory entry. -/
theorem dir_entry_not_open {s : Mgr} {gh : Ghost} (hI : VolInv s gh) {vi : VolInfo} (hv : s.vols = [vi]) {h j : Nat} {o : Slot}
    (hh : h ∈ dirIds gh.dirs) (ho : (DirView s gh h)[j]? = some o) (hd : isDirE o = true) (vol : Nat) (e : DirEntry)
    (heb : e.entryBlock = o.1) (heo : e.entryOffset = o.2.1) : fileIsOpen s vol e = false := by
  have hM := medX_of_med hI.med
  cases hfo : fileIsOpen s vol e with
  | false => rfl
  | true =>
    exfalso
    unfold fileIsOpen at hfo
    rw [List.any_eq_true] at hfo
    obtain ⟨f, hf, hp⟩ := hfo
    simp only [decide_eq_true_eq] at hp
    have hpo : spos o = fkey f := by
      show (o.1, o.2.1) = (f.entry.entryBlock, f.entry.entryOffset)
      rw [← heb, ← heo, hp.2.1, hp.2.2]
    obtain ⟨_, _, hod, _⟩ := open_file_object hM hf hh ho hpo
    rw [hd] at hod; cases hod

theorem refines_openFile (d : Nat) (name : List Nat) (mode : Mode) {s : Mgr} {gh : Ghost} {a : AState} (hI : VolInv s gh)
    (hA : Abs s gh a) (hname : ∀ sfn, Sfn.createFromStr name = .ok sfn → sfn.head? ≠ some 0xE5) :
    Refines (.openFile d name mode) s gh a := by
  have hl : a.locked = false := hA.locked.trans hI.unlocked
  unfold Refines
  rw [show runOp (.openFile d name mode) s = (openFileInDir d name mode >>= fun h => pure (Payload.handle h)) s from rfl, run_map]
  have hgoal : ∀ (a' : AState) (r : Res Payload), absStep a (.openFile d name mode) (a', r) ↔ Spec.AbsFs.openFileS a d name mode a' r := by
    intro a' r
    unfold absStep
    rw [if_neg (by rw [hl]; exact Bool.false_ne_true)]
  have hlen : a.files.length = s.files.length := forall₂_length hA.files
  rw [Modes.openFileInDir_eq]
  unfold Modes.openFileInDirAlt
  rw [get_bind]
  by_cases hroom : s.files.length ≥ s.maxFiles
  · rw [if_pos hroom]
    exact ⟨gh, a, hI, SameGeom.refl _, hA, (hgoal a _).2 (openFileS_full (by rw [hlen, hA.maxFiles]; exact hroom))⟩
  rw [if_neg hroom]
  have hroomA : ¬ a.files.length ≥ a.maxFiles := by rw [hlen, hA.maxFiles]; exact hroom
  cases hidx : s.dirs.findIdx? (·.rawDirectory = d) with
  | none =>
    rw [bind_err (getDirById_bad hidx)]
    exact ⟨gh, a, hI, SameGeom.refl _, hA, (hgoal a _).2 (openFileS_bad hroomA (dirCtx_bad (dirOf_none hA hidx)))⟩
  | some i =>
    obtain ⟨di, hdi, hdim, hdo⟩ := dirOf_some hA hidx
    rw [bind_ok (getDirById_ok hidx), bind_ok (getDir_ok hdi)]
    cases hva : (s.vols.any fun x => decide (x.rawVolume = di.rawVolume)) with
    | false =>
      rw [bind_err (getVolumeById_bad (volume_missing hva))]
      rw [hva] at hdo
      exact ⟨gh, a, hI, SameGeom.refl _, hA, (hgoal a _).2 (openFileS_bad hroomA (dirCtx_bad hdo))⟩
    | true =>
      obtain ⟨vi, hvs, hvol, hraw, hvfind⟩ := volume_found hI hva
      rw [bind_ok (getVolumeById_ok hvfind)]
      rw [hva] at hdo
      have hdo' : Spec.AbsFs.dirOf a d = .ok (absDir di) := hdo
      cases hs : Sfn.createFromStr name with
      | error e =>
        rw [bind_err (Modes.toSfn_err hs s)]
        exact ⟨gh, a, hI, SameGeom.refl _, hA, (hgoal a _).2 (openFileS_bad hroomA (dirCtx_name hdo' hs))⟩
      | ok sfn =>
        rw [bind_ok (Modes.toSfn_ok hs s)]
        have hctx := dirCtx_ok hdo' hs
        have hdv := hI.openDirs di hdim
        have hM := medX_of_med hI.med
        obtain ⟨hid, _⟩ := validDir_id hM hdv
        rw [attempt_bind]
        obtain ⟨r, fs', hlk, hdisk, hvol', h1, hcase⟩ := lookup_found hI hvs hvol hdv sfn (hname sfn hs)
        rw [hlk]
        have hA1 : Abs (afterVol s vi fs') gh a := abs_afterVol hA hvs fs' hdisk
        have hvs1 : (afterVol s vi fs').vols = [{ vi with vol := fs'.vol }] := rfl
        have hraw1 : ({ vi with vol := fs'.vol } : VolInfo).rawVolume = di.rawVolume := hraw
        have hsl : a.slots (dirIdOf di.cluster) = absSlots (afterVol s vi fs') gh (dirIdOf di.cluster) := hA1.slots _ hid
        set s1 := afterVol s vi fs' with hs1
        rcases hcase with ⟨hr, hfresh⟩ | ⟨e, o, hr, hF⟩
        · -- the name is free
          subst hr
          have hlkA : Spec.AbsFs.lookup (a.slots (absDir di).dir) sfn = none := by
            show Spec.AbsFs.lookup (a.slots (dirIdOf di.cluster)) sfn = none
            rw [hsl, absSlots_eq]
            exact fresh_lookup (s := s1) (by rw [show s1.dev.disk = s.dev.disk from hdisk]; exact hfresh) _
          by_cases hm : mode = .ReadWriteCreate ∨ mode = .ReadWriteCreateOrTruncate ∨ mode = .ReadWriteCreateOrAppend
          · rw [Modes.tail_create_eq di 0 sfn _ mode hm]
            obtain ⟨hlen11, h0⟩ := VolSfn.sfn_facts hs
            obtain ⟨gh', a', hI', hsg', hA', hres⟩ := create_refines h1 hA1 hvs1 hvol' hdv hraw1 sfn hlen11 h0
              (VolSfn.sfn_first_ne_e5 (hname sfn hs)) (by rw [show s1.dev.disk = s.dev.disk from hdisk]; exact hfresh)
            refine ⟨gh', a', hI', hsg', hA', (hgoal a' _).2 (openFileS_create hroomA hctx hlkA hm ?_)⟩
            rcases hres with ⟨e1, e2⟩ | ⟨e1, e2⟩
            · exact .inl ⟨e1, by rw [e2]; rfl⟩
            · refine .inr ⟨e1, ?_⟩
              rw [e2, hA1.nextId]; rfl
          · have hm' : mode = .ReadOnly ∨ mode = .ReadWriteAppend ∨ mode = .ReadWriteTruncate := by
              cases mode <;> simp at hm ⊢
            rw [Modes.tail_notFound di 0 sfn _ mode hm']
            exact ⟨gh, a, h1, SameGeom.refl _, hA1, (hgoal a _).2 (openFileS_notFound hroomA hctx hlkA hm)⟩
        · -- the name exists
          subst hr
          obtain ⟨j, hlkj, hoj, hkeep⟩ := found_index h1 hdv hF (contOf s1 gh)
          have hlkA : Spec.AbsFs.lookup (a.slots (absDir di).dir) sfn = some j := by
            show Spec.AbsFs.lookup (a.slots (dirIdOf di.cluster)) sfn = some j
            rw [hsl, absSlots_eq]; exact hlkj
          have hslotA : (a.slots (absDir di).dir)[j]? = some (absSlot gh.vol.fatType (contOf s1 gh) o) := by
            show (a.slots (dirIdOf di.cluster))[j]? = _
            rw [hsl, absSlots_eq, List.getElem?_map, hoj]; rfl
          obtain ⟨hen, hea, hes, heb, heo, hnd⟩ := hF.fields
          have hattrm : (metaOf gh.vol.fatType o).attr = e.attributes := by rw [hF.dec]; rfl
          have hsizem : (metaOf gh.vol.fatType o).size = e.size := by rw [hF.dec]; rfl
          by_cases hde : isDirE o = true
          · -- a directory
            have hisd : Attr.isDirectory e.attributes = true := by rw [hea]; exact hde
            have hopen' : fileIsOpen s1 di.rawVolume e = false := dir_entry_not_open h1 hvs1 hid hoj hde _ e heb heo
            rw [absSlot_dir hkeep hde] at hslotA
            by_cases hcreate : mode = .ReadWriteCreate
            · subst hcreate
              rw [Modes.tail_exists di 0 sfn _ e hopen']
              refine ⟨gh, a, h1, SameGeom.refl _, hA1, (hgoal a _).2 (openFileS_dir hroomA hctx hlkA hslotA ?_)⟩
              rw [if_pos rfl]; exact ⟨rfl, rfl⟩
            by_cases hro : Attr.isReadOnly e.attributes = true ∧ mode ≠ .ReadOnly
            · rw [Modes.tail_readOnlyAttr di 0 sfn _ mode e hopen' hcreate hro.2 hro.1]
              refine ⟨gh, a, h1, SameGeom.refl _, hA1, (hgoal a _).2 (openFileS_dir hroomA hctx hlkA hslotA ?_)⟩
              rw [if_neg hcreate, if_pos (by rw [hattrm]; exact hro)]; exact ⟨rfl, rfl⟩
            have hro' : Attr.isReadOnly e.attributes = false ∨ mode = .ReadOnly := by
              by_cases h : mode = .ReadOnly
              · exact .inr h
              · left
                by_cases h2 : Attr.isReadOnly e.attributes = true
                · exact absurd ⟨h2, h⟩ hro
                · simpa using h2
            rw [Modes.tail_dirAsFile di 0 sfn _ mode e hopen' hcreate hro' hisd]
            refine ⟨gh, a, h1, SameGeom.refl _, hA1, (hgoal a _).2 (openFileS_dir hroomA hctx hlkA hslotA ?_)⟩
            rw [if_neg hcreate, if_neg (by rw [hattrm]; exact hro)]; exact ⟨rfl, rfl⟩
          · -- a file
            have hde' : isDirE o = false := by simpa using hde
            have hdir' : Attr.isDirectory e.attributes = false := by rw [hea]; exact hde'
            rw [absSlot_file hkeep hde'] at hslotA
            have hopenA : Spec.AbsFs.isOpenAt a (absDir di).volume (absDir di).dir j = fileIsOpen s1 di.rawVolume e :=
              isOpenAt_abs h1 hA1 hid hoj di.rawVolume e heb heo
            by_cases hopen : fileIsOpen s1 di.rawVolume e = true
            · rw [Modes.tail_open di 0 sfn _ mode e hopen]
              refine ⟨gh, a, h1, SameGeom.refl _, hA1, (hgoal a _).2 (openFileS_file hroomA hctx hlkA hslotA ?_)⟩
              rw [if_pos (by rw [hopenA]; exact hopen)]; exact ⟨rfl, rfl⟩
            have hopen' : fileIsOpen s1 di.rawVolume e = false := by simpa using hopen
            have hopenA' : ¬ Spec.AbsFs.isOpenAt a (absDir di).volume (absDir di).dir j = true := by
              rw [hopenA, hopen']; exact Bool.false_ne_true
            by_cases hcreate : mode = .ReadWriteCreate
            · subst hcreate
              rw [Modes.tail_exists di 0 sfn _ e hopen']
              refine ⟨gh, a, h1, SameGeom.refl _, hA1, (hgoal a _).2 (openFileS_file hroomA hctx hlkA hslotA ?_)⟩
              rw [if_neg hopenA', if_pos rfl]; exact ⟨rfl, rfl⟩
            by_cases hro : Attr.isReadOnly e.attributes = true ∧ mode ≠ .ReadOnly
            · rw [Modes.tail_readOnlyAttr di 0 sfn _ mode e hopen' hcreate hro.2 hro.1]
              refine ⟨gh, a, h1, SameGeom.refl _, hA1, (hgoal a _).2 (openFileS_file hroomA hctx hlkA hslotA ?_)⟩
              rw [if_neg hopenA', if_neg hcreate, if_pos (by rw [hattrm]; exact hro)]; exact ⟨rfl, rfl⟩
            have hro' : Attr.isReadOnly e.attributes = false ∨ mode = .ReadOnly := by
              by_cases h : mode = .ReadOnly
              · exact .inr h
              · left
                by_cases h2 : Attr.isReadOnly e.attributes = true
                · exact absurd ⟨h2, h⟩ hro
                · simpa using h2
            have hroA : ¬ (Attr.isReadOnly (metaOf gh.vol.fatType o).attr = true ∧ mode ≠ .ReadOnly) := by rw [hattrm]; exact hro
            -- the file is opened: existing entry (`ReadOnly`, append) or truncation
            have hexisting : ∀ (mode' : Mode) (off : Nat), off ≤ e.size → solveModeVariant mode true = mode' →
                mode' ≠ .ReadWriteTruncate → (if mode' = .ReadWriteAppend then (metaOf gh.vol.fatType o).size else 0) = off →
                Modes.openFileTail di 0 sfn mode (.ok e) s1 =
                  (.ok s1.nextId, { s1 with nextId := (s1.nextId + 1) % 4294967296, files := s1.files ++ [Modes.openedFile di s1.nextId e mode' off] }) →
                ∃ gh' a', VolInv ((Modes.openFileTail di 0 sfn mode (.ok e) s1).1.bind (fun x => Res.ok (Payload.handle x)),
                    (Modes.openFileTail di 0 sfn mode (.ok e) s1).2).2 gh' ∧ SameGeom gh.vol gh'.vol ∧
                  Abs ((Modes.openFileTail di 0 sfn mode (.ok e) s1).1.bind (fun x => Res.ok (Payload.handle x)),
                    (Modes.openFileTail di 0 sfn mode (.ok e) s1).2).2 gh' a' ∧
                  absStep a (.openFile d name mode) (a', ((Modes.openFileTail di 0 sfn mode (.ok e) s1).1.bind (fun x => Res.ok (Payload.handle x)),
                    (Modes.openFileTail di 0 sfn mode (.ok e) s1).2).1) := by
              intro mode' off hoff hsolve hnt hoffeq hrun
              rw [hrun]
              obtain ⟨hI2, hA2⟩ := open_existing_refines h1 hA1 hvs1 hdv hraw1 hF hdir' hopen' hoj mode' off hoff
              refine ⟨gh, _, hI2, SameGeom.refl _, hA2, (hgoal _ _).2 (openFileS_file hroomA hctx hlkA hslotA ?_)⟩
              rw [if_neg hopenA', if_neg hcreate, if_neg hroA, hsolve, if_neg hnt, hoffeq]
              exact ⟨by rw [hA1.nextId]; rfl, rfl⟩
            have htrunc : ∀ (hm : mode = .ReadWriteTruncate ∨ mode = .ReadWriteCreateOrTruncate)
                (hron : Attr.isReadOnly e.attributes = false), solveModeVariant mode true = .ReadWriteTruncate →
                ∃ gh' a', VolInv ((Modes.openFileTail di 0 sfn mode (.ok e) s1).1.bind (fun x => Res.ok (Payload.handle x)),
                    (Modes.openFileTail di 0 sfn mode (.ok e) s1).2).2 gh' ∧ SameGeom gh.vol gh'.vol ∧
                  Abs ((Modes.openFileTail di 0 sfn mode (.ok e) s1).1.bind (fun x => Res.ok (Payload.handle x)),
                    (Modes.openFileTail di 0 sfn mode (.ok e) s1).2).2 gh' a' ∧
                  absStep a (.openFile d name mode) (a', ((Modes.openFileTail di 0 sfn mode (.ok e) s1).1.bind (fun x => Res.ok (Payload.handle x)),
                    (Modes.openFileTail di 0 sfn mode (.ok e) s1).2).1) := by
              intro hm hron hsolve
              rw [Modes.tail_truncate_eq di 0 sfn _ mode hm e hopen' hron hdir']
              have h1' : VolInv { s1 with nextId := (s1.nextId + 1) % 4294967296 } gh :=
                volInv_ro h1 rfl h1.noFault h1.coherent rfl rfl rfl rfl h1.openDirs
              have hA1' : Abs { s1 with nextId := (s1.nextId + 1) % 4294967296 } gh (Spec.AbsFs.gen a) := by
                have := abs_dirs hA1 s1.dirs ((s1.nextId + 1) % 4294967296)
                have e : (Spec.AbsFs.gen a) = { a with dirs := s1.dirs.map absDir, nextId := (s1.nextId + 1) % 4294967296 } := by
                  unfold Spec.AbsFs.gen
                  rw [← hA1.dirs, hA1.nextId]
                rw [e]; exact this
              have hF' : Found { s1 with nextId := (s1.nextId + 1) % 4294967296 } gh di sfn e o := ⟨hF.mem, hF.name, hF.dec⟩
              obtain ⟨gh', hI2, hsg2, hres2, hA2⟩ := trunc_refines h1' hA1' hvs1 hvol' hdv hraw1 hF' hdir' hopen' hoj s1.nextId s1.clock
              refine ⟨gh', _, hI2, hsg2, hA2, (hgoal _ _).2 (openFileS_file hroomA hctx hlkA hslotA ?_)⟩
              rw [if_neg hopenA', if_neg hcreate, if_neg hroA, hsolve, if_pos rfl, hres2]
              refine ⟨by rw [hA1.nextId]; rfl, ?_⟩
              rw [hA1.nextId, hA1.clock]
              rfl
            cases mode with
            | ReadOnly =>
              exact hexisting .ReadOnly 0 (Nat.zero_le _) rfl (by decide) rfl (Modes.tail_readOnly di 0 sfn _ e hopen' hdir')
            | ReadWriteCreate => exact absurd rfl hcreate
            | ReadWriteAppend =>
              have hron : Attr.isReadOnly e.attributes = false := hro'.elim id (fun h => by cases h)
              exact hexisting .ReadWriteAppend e.size (Nat.le_refl _) rfl (by decide) (by rw [if_pos rfl, hsizem])
                (Modes.tail_append di 0 sfn _ .ReadWriteAppend e (.inl rfl) hopen' hron hdir')
            | ReadWriteCreateOrAppend =>
              have hron : Attr.isReadOnly e.attributes = false := hro'.elim id (fun h => by cases h)
              exact hexisting .ReadWriteAppend e.size (Nat.le_refl _) rfl (by decide) (by rw [if_pos rfl, hsizem])
                (Modes.tail_append di 0 sfn _ .ReadWriteCreateOrAppend e (.inr rfl) hopen' hron hdir')
            | ReadWriteTruncate =>
              have hron : Attr.isReadOnly e.attributes = false := hro'.elim id (fun h => by cases h)
              exact htrunc (.inl rfl) hron rfl
            | ReadWriteCreateOrTruncate =>
              have hron : Attr.isReadOnly e.attributes = false := hro'.elim id (fun h => by cases h)
              exact htrunc (.inr rfl) hron rfl

end Sdmmc.Lemmas.AbsFs
