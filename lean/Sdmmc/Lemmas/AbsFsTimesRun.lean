/-
C02 over abstract histories, part 8: the theorems about whole histories — a sub-directory entry never changes
(`dir_slot_forever`), an untouched slot never changes (`untouched_run`), the creation time never changes
(`born_run`), the stored modification time is the clock at the last write (`stored_after_write`).
-/
import Sdmmc.Lemmas.AbsFsTimesGhost2

namespace Sdmmc.Lemmas.AbsFsTimes
open Sdmmc.Model Sdmmc.Spec.AbsFs Sdmmc.Lemmas.AbsFsTouch
open Sdmmc.Spec (ByteFile)

/-! ### Histories -/

theorem absRunP_run {P : AbsFs → Ev → Prop} : ∀ {es : List Ev} {a a' : AbsFs}, absRunP P a es a' → absRunClk a es a'
  | [], _, _, h => h
  | _ :: _, _, _, h => by
    obtain ⟨_, a1, h1, h2⟩ := h
    exact ⟨a1, h1, absRunP_run h2⟩

theorem absRunP_mono {P Q : AbsFs → Ev → Prop} (hPQ : ∀ a ev, P a ev → Q a ev) :
    ∀ {es : List Ev} {a a' : AbsFs}, absRunP P a es a' → absRunP Q a es a'
  | [], _, _, h => h
  | _ :: _, _, _, h => by
    obtain ⟨hp, a1, h1, h2⟩ := h
    exact ⟨hPQ _ _ hp, a1, h1, absRunP_mono hPQ h2⟩

/-- A history without ticks is a history. -/
theorem absRun_clk : ∀ {ops : List Op} {rs : List (Res Payload)} {a a' : AbsFs}, absRun a ops rs a' →
    absRunClk a (callEvs ops rs) a'
  | [], [], _, _, h => h
  | [], _ :: _, _, _, h => h.elim
  | _ :: _, [], _, _, h => h.elim
  | _ :: _, _ :: _, _, _, h => by
    obtain ⟨a1, h1, h2⟩ := h
    exact ⟨a1, h1, absRun_clk h2⟩

theorem absRunClk_append : ∀ {es1 es2 : List Ev} {a a1 a2 : AbsFs}, absRunClk a es1 a1 → absRunClk a1 es2 a2 →
    absRunClk a (es1 ++ es2) a2
  | [], _, _, _, _, h1, h2 => by have e : _ = _ := h1; rw [e] at h2; exact h2
  | _ :: _, _, _, _, _, h1, h2 => by
    obtain ⟨b, hb, h1'⟩ := h1
    exact ⟨b, hb, absRunClk_append h1' h2⟩

/-! ### A slot no call touches -/

theorem untouched_ev {a a' : AbsFs} {ev : Ev} {x j : Nat} (h : evStep a ev a') (hx : x ∈ a.ids)
    (hn : ¬ TouchesAt a x j ev) : (a'.slots x)[j]? = (a.slots x)[j]? := by
  cases ev with
  | call op r => exact absStep_untouched h hx hn
  | tick t => have h' : a' = { a with clock := t } := h; rw [h']

/-- **Every slot that no call of the history touches reads as before** — the bytes and the stored entry of
every other file, every other directory entry. -/
theorem untouched_run {x j : Nat} : ∀ {es : List Ev} {a a' : AbsFs}, AInv a → x ∈ a.ids →
    absRunP (fun a ev => ¬ TouchesAt a x j ev) a es a' → (a'.slots x)[j]? = (a.slots x)[j]?
  | [], _, _, _, _, h => by have e : _ = _ := h; rw [e]
  | _ :: _, _, _, hA, hx, h => by
    obtain ⟨hn, a1, h1, h2⟩ := h
    rw [untouched_run (ainv_ev hA h1) (ids_mono_ev hA.unlocked h1 hx) h2, untouched_ev h1 hx hn]

/-! ### A sub-directory entry is for ever -/

theorem touched_file_slot {a a' : AbsFs} {op : Op} {r : Res Payload} (hA : AInv a) (h : absStep a op (a', r)) {x j : Nat}
    {m : Meta} {t : Nat} (hs : (a.slots x)[j]? = some (.dir m t)) (ht : touched a op = some (x, j)) :
    (a'.slots x)[j]? = some (.dir m t) := by
  by_cases hto : tablesOnly op = true
  · rw [(tables_shape hA.unlocked hto h).1]; exact hs
  unfold absStep at h
  rw [if_neg (by rw [hA.unlocked]; exact Bool.false_ne_true)] at h
  cases op with
  | openFile d name mode =>
    rcases openFileS_cases (show openFileS a d name mode a' r from h) with ⟨rfl, _⟩ | ⟨od, sfn, hctx, _, hcase⟩
    · exact hs
    · have ht' : nameSlot a d name = some (x, j) := ht
      rcases hcase with ⟨hlk, rfl⟩ | ⟨i, m', bytes, hlk, hsl, _, _⟩
      · rw [nameSlot_fresh hctx hlk] at ht'
        injection ht' with ht'
        injection ht' with e1 e2
        subst e1; subst e2
        exact absurd hs (freeIdx_not_dir _ m t)
      · rw [nameSlot_found hctx hlk] at ht'
        injection ht' with ht'
        injection ht' with e1 e2
        subst e1; subst e2
        rw [hsl] at hs; cases hs
  | write f data =>
    rcases writeS_cases (show writeS a f data a' r from h) with ⟨rfl, _⟩ | ⟨i, rec, m', bytes, k, hf, _, hsl, _, _, _⟩
    · exact hs
    · have ht' : handleSlot a f = some (x, j) := ht
      rw [handleSlot_of hf] at ht'
      injection ht' with ht'
      injection ht' with e1 e2
      subst e1; subst e2
      rw [hsl] at hs; cases hs
  | flush f =>
    have h' : (a', r) = flushF a f := h
    have h1 : a' = (flushF a f).1 := congrArg Prod.fst h'
    rw [h1]
    rcases flushF_cases (a := a) f with ⟨he, _⟩ | ⟨i, rec, m', bytes, hf, _, _, hsl, _⟩
    · rw [he]; exact hs
    · have ht' : handleSlot a f = some (x, j) := ht
      rw [handleSlot_of hf] at ht'
      injection ht' with ht'
      injection ht' with e1 e2
      subst e1; subst e2
      rw [hsl] at hs; cases hs
  | closeFile f =>
    have h : closeFileS a f a' r := h
    unfold closeFileS at h
    split at h
    · obtain ⟨rfl, _⟩ := h; exact hs
    · obtain ⟨rfl, _⟩ := h
      show ((flushF a f).1.slots x)[j]? = _
      rcases flushF_cases (a := a) f with ⟨he, _⟩ | ⟨i, rec, m', bytes, hf, _, _, hsl, _⟩
      · rw [he]; exact hs
      · have ht' : handleSlot a f = some (x, j) := ht
        rw [handleSlot_of hf] at ht'
        injection ht' with ht'
        injection ht' with e1 e2
        subst e1; subst e2
        rw [hsl] at hs; cases hs
  | delete d name =>
    rcases deleteS_cases (show deleteS a d name a' r from h) with ⟨rfl, _⟩ | ⟨od, sfn, i, m', bytes, hctx, hlk, hsl, _, _, _⟩
    · exact hs
    · have ht' : nameSlot a d name = some (x, j) := ht
      rw [nameSlot_found hctx hlk] at ht'
      injection ht' with ht'
      injection ht' with e1 e2
      subst e1; subst e2
      rw [hsl] at hs; cases hs
  | mkdir d name =>
    rcases mkdirS_cases (show mkdirS a d name a' r from h) with ⟨rfl, _⟩ | ⟨od, sfn, c, hctx, hlk, _, _, _⟩
    · exact hs
    · have ht' : nameSlot a d name = some (x, j) := ht
      rw [nameSlot_fresh hctx hlk] at ht'
      injection ht' with ht'
      injection ht' with e1 e2
      subst e1; subst e2
      exact absurd hs (freeIdx_not_dir _ m t)
  | _ => exact absurd rfl hto

theorem dir_slot_ev {a a' : AbsFs} {ev : Ev} (hA : AInv a) (h : evStep a ev a') {x j : Nat} (hx : x ∈ a.ids)
    {m : Meta} {t : Nat} (hs : (a.slots x)[j]? = some (.dir m t)) : (a'.slots x)[j]? = some (.dir m t) := by
  cases ev with
  | tick c => have h' : a' = { a with clock := c } := h; rw [h']; exact hs
  | call op r =>
    have h : absStep a op (a', r) := h
    by_cases ht : touched a op = some (x, j)
    · exact touched_file_slot hA h hs ht
    · rw [absStep_untouched h hx ht]; exact hs

/-- **A sub-directory entry never changes**: its name, its attribute byte (the directory attribute), its time
stamps, the directory it names. -/
theorem dir_slot_forever {x j : Nat} {m : Meta} {t : Nat} : ∀ {es : List Ev} {a a' : AbsFs}, AInv a → x ∈ a.ids →
    (a.slots x)[j]? = some (.dir m t) → absRunClk a es a' → (a'.slots x)[j]? = some (.dir m t)
  | [], _, _, _, _, hs, h => by have e : _ = _ := h; rw [e]; exact hs
  | _ :: _, _, _, hA, hx, hs, h => by
    obtain ⟨a1, h1, h2⟩ := h
    exact dir_slot_forever (ainv_ev hA h1) (ids_mono_ev hA.unlocked h1 hx) (dir_slot_ev hA h1 hx hs) h2

/-! ### Creation time, name, attribute byte -/

theorem eff_born_same (a : AbsFs) (x j : Nat) (ev : Ev) (g : SlotG) (h1 : ¬ CreatesAt a x j ev) (h2 : ¬ RemovesAt a x j ev) :
    (eff a x j ev g).born = g.born := by
  cases ev with
  | tick t => rfl
  | call op r =>
    cases op with
    | write h d => show (if _ then _ else g).born = _; split <;> rfl
    | flush h => show (if _ then _ else g).born = _; split <;> rfl
    | closeFile h => show (if _ then _ else g).born = _; split <;> rfl
    | openFile d name mode =>
      show (if nameSlot a d name = some (x, j) ∧ isOkHandle r = true then _ else g).born = _
      by_cases hc : nameSlot a d name = some (x, j) ∧ isOkHandle r = true
      · rw [if_pos hc]
        cases hf : nameFound a d name with
        | true => simp only [if_true]; split <;> rfl
        | false => exact absurd ⟨hc.1, hc.2, hf⟩ h1
      · rw [if_neg hc]
    | delete d name =>
      show (if nameSlot a d name = some (x, j) ∧ isOkUnit r = true then _ else g).born = _
      rw [if_neg (show ¬ (nameSlot a d name = some (x, j) ∧ isOkUnit r = true) from fun hc => h2 hc)]
    | mkdir d name =>
      show (if nameSlot a d name = some (x, j) ∧ isOkUnit r = true then _ else g).born = _
      rw [if_neg (show ¬ (nameSlot a d name = some (x, j) ∧ isOkUnit r = true) from fun hc => h2 hc)]
    | _ => rfl

/-- The ghost of a history in which nothing is created in or removed from the slot keeps `born`. -/
theorem born_ghost {x j : Nat} : ∀ {es : List Ev} {a a' : AbsFs} (g : SlotG),
    absRunP (fun a ev => ¬ CreatesAt a x j ev ∧ ¬ RemovesAt a x j ev) a es a' →
    ∃ g', ghostRun x j a g es a' g' ∧ g'.born = g.born
  | [], _, _, g, h => ⟨g, ⟨h, rfl⟩, rfl⟩
  | ev :: _, a, _, g, h => by
    obtain ⟨hp, a1, h1, h2⟩ := h
    obtain ⟨g', hg', hb⟩ := born_ghost (eff a x j ev g) h2
    exact ⟨g', ⟨a1, h1, hg'⟩, by rw [hb, eff_born_same a x j ev g hp.1 hp.2]⟩

/-- **The creation time never changes** (nor the name; the attribute byte only by the archive bit): a file
that is in slot `(x, j)` and is not deleted there shows, after any history, the creation time it showed
before. -/
theorem born_run {x j : Nat} {es : List Ev} {a a' : AbsFs} {m : Meta} {bytes : Bytes} (hA : AInv a) (hx : x ∈ a.ids)
    (hs : (a.slots x)[j]? = some (.file m bytes))
    (h : absRunP (fun a ev => ¬ CreatesAt a x j ev ∧ ¬ RemovesAt a x j ev) a es a') :
    ∃ m' bytes', (a'.slots x)[j]? = some (.file m' bytes') ∧ m'.ctime = m.ctime ∧ m'.name = m.name ∧
      (m'.attr = m.attr ∨ m'.attr = Attr.setArchive m.attr) := by
  obtain ⟨g', hg', hb⟩ := born_ghost (ghost0 a x j) h
  obtain ⟨hG', _, _⟩ := ginv_run hA hx (ginv_ghost0 a x j) hg'
  have h0 : (ghost0 a x j).born = some (m.ctime, m.name, m.attr) := by unfold ghost0; rw [hs]
  exact hG'.born _ _ _ (by rw [hb, h0])

/-! ### Modification time, length -/

/-- The events that change when the file in the slot was last modified. -/
def ModifiesAt (a : AbsFs) (x j : Nat) (ev : Ev) : Prop :=
  WritesAt a x j ev ∨ CreatesAt a x j ev ∨ TruncatesAt a x j ev ∨ RemovesAt a x j ev

theorem eff_mod_same (a : AbsFs) (x j : Nat) (ev : Ev) (g : SlotG) (h : ¬ ModifiesAt a x j ev) :
    (eff a x j ev g).modified.map Prod.fst = g.modified.map Prod.fst ∧
    (∀ t, g.modified = some (t, true) → (eff a x j ev g).modified = some (t, true)) ∧
    (StoresAt a x j ev → ∀ t sy, g.modified = some (t, sy) → (eff a x j ev g).modified = some (t, true)) := by
  have hmap : ∀ (o : Option (Timestamp × Bool)), (o.map fun p => (p.1, true)).map Prod.fst = o.map Prod.fst := by
    intro o; cases o <;> rfl
  have hmap2 : ∀ (o : Option (Timestamp × Bool)) t, o = some (t, true) → (o.map fun p => (p.1, true)) = some (t, true) := by
    intro o t e; rw [e]; rfl
  have hmap3 : ∀ (o : Option (Timestamp × Bool)) t sy, o = some (t, sy) → (o.map fun p => (p.1, true)) = some (t, true) := by
    intro o t sy e; rw [e]; rfl
  cases ev with
  | tick t => exact ⟨rfl, fun _ e => e, fun hs => hs.elim⟩
  | call op r =>
    cases op with
    | write hd d =>
      have : eff a x j (.call (.write hd d) r) g = g := by
        show (if handleSlot a hd = some (x, j) ∧ isEffWrite r = true then _ else g) = g
        rw [if_neg (show ¬ (handleSlot a hd = some (x, j) ∧ isEffWrite r = true) from fun hc => h (.inl hc))]
      rw [this]; exact ⟨rfl, fun _ e => e, fun hs => hs.elim⟩
    | flush hd =>
      show ((if handleSlot a hd = some (x, j) ∧ dirtyAt a hd = true ∧ isOkUnit r = true then _ else g).modified.map Prod.fst = _) ∧ _
      by_cases hc : handleSlot a hd = some (x, j) ∧ dirtyAt a hd = true ∧ isOkUnit r = true
      · rw [eff_flush_eq, if_pos hc]
        exact ⟨hmap _, hmap2 _, fun _ => hmap3 _⟩
      · rw [eff_flush_eq, if_neg hc]
        exact ⟨rfl, fun _ e => e, fun hs => absurd hs hc⟩
    | closeFile hd =>
      show ((if handleSlot a hd = some (x, j) ∧ dirtyAt a hd = true ∧ isOkUnit r = true then _ else g).modified.map Prod.fst = _) ∧ _
      by_cases hc : handleSlot a hd = some (x, j) ∧ dirtyAt a hd = true ∧ isOkUnit r = true
      · rw [eff_closeFile_eq, if_pos hc]
        exact ⟨hmap _, hmap2 _, fun _ => hmap3 _⟩
      · rw [eff_closeFile_eq, if_neg hc]
        exact ⟨rfl, fun _ e => e, fun hs => absurd hs hc⟩
    | openFile d name mode =>
      have : eff a x j (.call (.openFile d name mode) r) g = g := by
        show (if nameSlot a d name = some (x, j) ∧ isOkHandle r = true then _ else g) = g
        by_cases hc : nameSlot a d name = some (x, j) ∧ isOkHandle r = true
        · rw [if_pos hc]
          cases hf : nameFound a d name with
          | true =>
            simp only [if_true]
            rw [if_neg (fun ht => h (.inr (.inr (.inl ⟨hc.1, hc.2, hf, ht⟩))))]
          | false => exact absurd (.inr (.inl ⟨hc.1, hc.2, hf⟩)) h
        · rw [if_neg hc]
      rw [this]; exact ⟨rfl, fun _ e => e, fun hs => hs.elim⟩
    | delete d name =>
      have : eff a x j (.call (.delete d name) r) g = g := by
        show (if nameSlot a d name = some (x, j) ∧ isOkUnit r = true then _ else g) = g
        rw [if_neg (show ¬ (nameSlot a d name = some (x, j) ∧ isOkUnit r = true) from fun hc => h (.inr (.inr (.inr hc))))]
      rw [this]; exact ⟨rfl, fun _ e => e, fun hs => hs.elim⟩
    | mkdir d name =>
      have : eff a x j (.call (.mkdir d name) r) g = g := by
        show (if nameSlot a d name = some (x, j) ∧ isOkUnit r = true then _ else g) = g
        rw [if_neg (show ¬ (nameSlot a d name = some (x, j) ∧ isOkUnit r = true) from fun hc => h (.inr (.inr (.inr hc))))]
      rw [this]; exact ⟨rfl, fun _ e => e, fun hs => hs.elim⟩
    | _ => exact ⟨rfl, fun _ e => e, fun hs => hs.elim⟩

/-- The ghost of a history without modification of the slot: the clock of the last modification stays, and
"stored" stays. -/
theorem mod_ghost {x j : Nat} : ∀ {es : List Ev} {a a' : AbsFs} (g : SlotG),
    absRunP (fun a ev => ¬ ModifiesAt a x j ev) a es a' →
    ∃ g', ghostRun x j a g es a' g' ∧ g'.modified.map Prod.fst = g.modified.map Prod.fst ∧
      (∀ t, g.modified = some (t, true) → g'.modified = some (t, true))
  | [], _, _, g, h => ⟨g, ⟨h, rfl⟩, rfl, fun _ e => e⟩
  | ev :: _, a, _, g, h => by
    obtain ⟨hp, a1, h1, h2⟩ := h
    obtain ⟨g', hg', hb, hst⟩ := mod_ghost (eff a x j ev g) h2
    obtain ⟨e1, e2, _⟩ := eff_mod_same a x j ev g hp
    exact ⟨g', ⟨a1, h1, hg'⟩, by rw [hb, e1], fun t e => hst t (e2 t e)⟩

/-- **The stored modification time is the clock at the last write, the stored size the true length.**
A write through a handle at slot `(x, j)` happens while the clock reads `aW.clock`; then any history without
further modification of that slot; then a `flush_file` / `close_file` that stores (`StoresAt`); then again any
history without modification of the slot.  At the end the directory entry in the slot shows
`fatRound aW.clock` as modification time and the length of the file's bytes as size. -/
theorem stored_after_write {x j : Nat} {aW a1 a2 a3 a4 : AbsFs} {evW evF : Ev} {es1 es2 : List Ev}
    (hA : AInv aW) (hx : x ∈ aW.ids) (hW : WritesAt aW x j evW) (hstepW : evStep aW evW a1)
    (hrun1 : absRunP (fun a ev => ¬ ModifiesAt a x j ev) a1 es1 a2)
    (hF : StoresAt a2 x j evF) (hstepF : evStep a2 evF a3)
    (hrun2 : absRunP (fun a ev => ¬ ModifiesAt a x j ev) a3 es2 a4) :
    ∃ m bytes, (a4.slots x)[j]? = some (.file m bytes) ∧ m.mtime = fatRound aW.clock ∧ m.size = bytes.length := by
  -- the ghost after the write
  have hgW : (eff aW x j evW (ghost0 aW x j)).modified = some (aW.clock, false) := by
    cases evW with
    | tick t => exact hW.elim
    | call op r =>
      cases op with
      | write hd d =>
        show SlotG.modified (if handleSlot aW hd = some (x, j) ∧ isEffWrite r = true
          then { ghost0 aW x j with modified := some (aW.clock, false) } else ghost0 aW x j) = _
        rw [if_pos (show handleSlot aW hd = some (x, j) ∧ isEffWrite r = true from hW)]
      | _ => exact hW.elim
  have hG1 := ginv_ev hA hx (ginv_ghost0 aW x j) hstepW
  have hA1 := ainv_ev hA hstepW
  have hx1 := ids_mono_ev hA.unlocked hstepW hx
  obtain ⟨g2, hr2, hm2, _⟩ := mod_ghost (eff aW x j evW (ghost0 aW x j)) hrun1
  obtain ⟨hG2, hA2, hx2⟩ := ginv_run hA1 hx1 hG1 hr2
  rw [hgW] at hm2
  -- the flush
  have hnm : ¬ ModifiesAt a2 x j evF := by
    cases evF with
    | tick t => exact hF.elim
    | call op r =>
      cases op with
      | flush hd => rintro (h | h | h | h) <;> exact h.elim
      | closeFile hd => rintro (h | h | h | h) <;> exact h.elim
      | _ => exact hF.elim
  obtain ⟨_, _, e3⟩ := eff_mod_same a2 x j evF g2 hnm
  have hg2 : ∃ sy, g2.modified = some (aW.clock, sy) := by
    cases hgm : g2.modified with
    | none => rw [hgm] at hm2; cases hm2
    | some p =>
      rw [hgm] at hm2
      have : p.1 = aW.clock := Option.some.inj hm2
      exact ⟨p.2, by rw [← this]⟩
  obtain ⟨sy, hg2⟩ := hg2
  have hg3 := e3 hF _ _ hg2
  have hG3 := ginv_ev hA2 hx2 hG2 hstepF
  have hA3 := ainv_ev hA2 hstepF
  have hx3 := ids_mono_ev hA2.unlocked hstepF hx2
  obtain ⟨g4, hr4, _, hst4⟩ := mod_ghost (eff a2 x j evF g2) hrun2
  obtain ⟨hG4, _, _⟩ := ginv_run hA3 hx3 hG3 hr4
  exact hG4.stored _ (hst4 _ hg3)

end Sdmmc.Lemmas.AbsFsTimes
