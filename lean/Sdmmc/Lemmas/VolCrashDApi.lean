/-
Clause 5 of C10 at API level: `VolCrashXApi.lean` restated for `CIXP P` — what a call delivers (`CallCXP P`), from `runOp` to `step` (`StepCXP P`).
-/
import Sdmmc.Lemmas.VolCrashDStep
import Sdmmc.Lemmas.VolCrashXApi

namespace Sdmmc.Lemmas.VolCrashD
open Sdmmc.Lemmas.VolCrash Sdmmc.Lemmas.VolCrashX
open Sdmmc.Model Sdmmc.Model.Fat Sdmmc.Spec.Volume
open Sdmmc.Spec hiding NoFault Coherent run step
open Sdmmc.Lemmas.FBasic
open Sdmmc.Lemmas.VolBase Sdmmc.Lemmas.VolTree Sdmmc.Lemmas.VolMed Sdmmc.Lemmas.VolDisk Sdmmc.Lemmas.VolEng
open Sdmmc.Lemmas.VolApi Sdmmc.Lemmas.CrashBase Sdmmc.Lemmas.CrashMgr Sdmmc.Lemmas.MHoare

/-- What a call from `s` to `s'` delivers for C10. -/
structure CallCXP (P : Nat → Prop) (v : FatVolume) (s s' : Mgr) : Prop where
  crash : MCrash (CIXP P v) s s'
  raw : RawOKX v.fatType s'.dev.disk s'.files

/-- The medium between two calls is crash-consistent. -/
theorem cixp_start {s : Mgr} {gh : Ghost} (hI : VolInv s gh) (hR : RawOKX gh.vol.fatType s.dev.disk s.files) (hU : ∀ c, isUsed gh.vol s.dev.disk c → P c) :
    CIXP P gh.vol s.dev.disk :=
  cixp_of_medX (medX_of_med hI.med) hR (dirInit_of_used (medX_of_med hI.med) hU)

/-- A call that leaves the device alone. -/
theorem callCXP_same {v : FatVolume} {s s' : Mgr} (hw : s'.dev.wlog = s.dev.wlog) (hd : s'.dev.disk = s.dev.disk)
    (hci : CIXP P v s.dev.disk) (hR : RawOKX v.fatType s.dev.disk s'.files) : CallCXP P v s s' :=
  ⟨MCrash.same' hw hd hci, by rw [hd]; exact hR⟩

theorem callCXP_refl {v : FatVolume} {s : Mgr} (hci : CIXP P v s.dev.disk) (hR : RawOKX v.fatType s.dev.disk s.files) :
    CallCXP P v s s := callCXP_same rfl rfl hci hR

/-! ### From `runOp` on the state with cleared logs to `step` -/

/-- What `step` delivers for C10: every prefix of the writes it reports leaves a crash-consistent medium, and the
open files afterwards satisfy `RawOKX`. -/
structure StepCXP (P : Nat → Prop) (v : FatVolume) (s : Mgr) (op : Op) : Prop where
  crash : ∀ k, CIXP P v (crashDisk s.dev.disk (Model.step s op).2.writes k)
  raw : RawOKX v.fatType (Model.step s op).1.dev.disk (Model.step s op).1.files

theorem stepCXP_of_callCXP {v : FatVolume} {s : Mgr} {op : Op} (hl : s.locked = false)
    (h : CallCXP P v (resetLogs s) (runOp op (resetLogs s)).2) : StepCXP P v s op := by
  have hs := step_unlocked s op hl
  have e : newWrites (devFS (resetLogs s)) (devFS (runOp op (resetLogs s)).2) = (runOp op (resetLogs s)).2.dev.wlog.reverse := by
    unfold newWrites
    show (List.take ((runOp op (resetLogs s)).2.dev.wlog.length - ([] : List (Nat × Block)).length) _).reverse = _
    rw [List.length_nil, Nat.sub_zero]
    exact congrArg List.reverse (List.take_length (l := (runOp op (resetLogs s)).2.dev.wlog))
  refine ⟨fun k => ?_, ?_⟩
  · have := h.crash.spec k
    rw [e] at this
    rw [hs]
    exact this
  · rw [hs]; exact h.raw

end Sdmmc.Lemmas.VolCrashD
