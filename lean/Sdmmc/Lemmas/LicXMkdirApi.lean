/-
C11 without `Mirror`: `make_dir_in_dir` UNDER ANY SCHEDULE IS LICENSED (`mkdir_licF`): there is a licence `LicenceFor`
describes in the state the call is issued in by which every device write of the call — whatever device call fails, the
clean-up included — is `Licensed1`; the medium afterwards is the medium before with these writes applied.
-/
import Sdmmc.Lemmas.LicXMkdirF
import Sdmmc.Lemmas.LicXInvDir
import Sdmmc.Lemmas.FaultXMkdirApi

namespace Sdmmc.Lemmas.VolX.Lic
open Sdmmc.Model Sdmmc.Model.Fat Sdmmc.Spec.Volume Sdmmc.Lemmas.VolBase Sdmmc.Lemmas.VolTree
open Sdmmc.Spec hiding NoFault Coherent
open Sdmmc.Lemmas.VolDisk Sdmmc.Lemmas.VolMed Sdmmc.Lemmas.VolEng Sdmmc.Lemmas.VolX Sdmmc.Lemmas.VolApi
open Sdmmc.Lemmas.FBasic (NoFault Coherent)
open Sdmmc.Lemmas.CrashBase Sdmmc.Lemmas.Retry Sdmmc.Lemmas.FaultPre Sdmmc.Lemmas.FaultInv Sdmmc.Lemmas.FaultCoh Sdmmc.Lemmas.MHoare
open Sdmmc.Lemmas.Fault (Coh)
open Sdmmc.Lemmas.FaultX
open Sdmmc.Lemmas.WriteSetInv (LicenceFor dirChainOf)

/-- What `mkdir_licF` delivers about a final state `t`. -/
def MkLic (gh : Ghost) (s0 : Mgr) (d : Nat) (name : List Nat) (t : Mgr) : Prop :=
  ∃ L, LicenceFor gh s0.files s0.dirs s0.dev.disk (.mkdir d name) L ∧
    ∃ ws, t.dev.wlog = ws.reverse ++ s0.dev.wlog ∧ t.dev.disk = s0.dev.disk.applyWrites ws ∧
      AllLicensed1 gh.vol s0.dev.disk L ws

theorem mkLic_nowrite {gh : Ghost} {s0 t : Mgr} (d : Nat) (name : List Nat) (hw : t.dev.wlog = s0.dev.wlog)
    (hd : t.dev.disk = s0.dev.disk) : MkLic gh s0 d name t :=
  ⟨Licence.none, .nothing _, [], by rw [hw]; rfl, by rw [hd]; rfl, trivial⟩

variable {X : List (List Nat)}

/-- **`make_dir_in_dir` under any fault schedule is licensed.** -/
theorem mkdir_licF {s0 : Mgr} {gh : Ghost} (hI : VolInvX X s0 gh) (Ls : List Nat) (directory : Nat)
    (name : List Nat) (hname : ∀ sfn, Sfn.createFromStr name = .ok sfn → sfn.head? ≠ some 0xE5) :
    MkLic gh s0 directory name (makeDirInDir directory name (withFaults Ls s0)).2 := by
  have h0 : MkLic gh s0 directory name (withFaults Ls s0) := mkLic_nowrite _ _ rfl rfl
  unfold makeDirInDir
  rw [get_bind]
  by_cases hfull : (withFaults Ls s0).dirs.length ≥ (withFaults Ls s0).maxDirs
  · rw [if_pos hfull]; exact h0
  rw [if_neg hfull]
  cases hidx : s0.dirs.findIdx? (·.rawDirectory = directory) with
  | none => rw [bind_err (getDirById_bad (s := withFaults Ls s0) hidx)]; exact h0
  | some i =>
    obtain ⟨d, hdi, hdp⟩ := findIdx?_some_get hidx
    have hdm : d ∈ s0.dirs := List.mem_of_getElem? hdi
    have hdh : d.rawDirectory = directory := by simpa using hdp
    rw [bind_ok (getDirById_ok (s := withFaults Ls s0) hidx), bind_ok (getDir_ok (s := withFaults Ls s0) hdi)]
    cases hv : s0.vols.findIdx? (·.rawVolume = d.rawVolume) with
    | none => rw [bind_err (getVolumeById_bad (s := withFaults Ls s0) hv)]; exact h0
    | some volIdx =>
      obtain ⟨hz, vi, hvs, hvol, hraw⟩ := VolX.vol_of_handle hI hv
      subst hz
      rw [bind_ok (getVolumeById_ok (s := withFaults Ls s0) hv)]
      cases hs : Sfn.createFromStr name with
      | error e => rw [bind_err (Modes.toSfn_err hs _)]; exact h0
      | ok sfn =>
        rw [bind_ok (Modes.toSfn_ok hs _), attempt_bind]
        have hdv := hI.openDirs d hdm
        obtain ⟨hn, hc, hM⟩ := VolX.volInv_fs hI
        obtain ⟨r, fs', hlk, hdisk, hvol', h1, hcase⟩ := VolX.lookup_found hI hvs hvol hdv sfn (hname sfn hs)
        -- the lookup writes nothing, with or without faults
        have hroF := DirMgr.findDirectoryEntry_readOnly d.cluster sfn (setFaults Ls (fsOf s0 gh))
        have hro0 := DirMgr.findDirectoryEntry_readOnly d.cluster sfn (fsOf s0 gh)
        have hwF := withVol_one (Fat.findDirectoryEntry d.cluster sfn) (s := withFaults Ls s0) (gh := gh) hvs hvol
        rw [fsOf_withFaults] at hwF
        have hw0 := withVol_one (Fat.findDirectoryEntry d.cluster sfn) (s := s0) (gh := gh) hvs hvol
        obtain ⟨_, _, _, hdich⟩ := withVol_faulted (findDirectoryEntry_pre d.cluster sfn)
          (Fault.findDirectoryEntry_inv d.cluster sfn) hn hvs hvol Ls
        rcases hdich with hq | he
        swap
        · rcases hrun : withVol 0 (Fat.findDirectoryEntry d.cluster sfn) (withFaults Ls s0) with ⟨r', s'⟩
          rw [hrun] at he
          simp only at he
          subst he
          have hs' : s' = afterVol (withFaults Ls s0) vi (Fat.findDirectoryEntry d.cluster sfn (setFaults Ls (fsOf s0 gh))).2 := by
            rw [hwF] at hrun; exact (Prod.mk.inj hrun).2.symm
          show MkLic gh s0 directory name s'
          rw [hs']
          exact mkLic_nowrite _ _ hroF.wlog hroF.disk
        rw [hlk] at hq
        rw [hq]
        have hs1dev : (afterVol s0 vi fs').dev.wlog = s0.dev.wlog := by
          have : afterVol s0 vi fs' = afterVol s0 vi (Fat.findDirectoryEntry d.cluster sfn (fsOf s0 gh)).2 := by
            rw [hw0] at hlk; exact (Prod.mk.inj hlk).2.symm
          rw [this]; exact hro0.wlog
        set s1 := afterVol s0 vi fs' with hs1
        have hvs1 : s1.vols = [{ vi with vol := fs'.vol }] := rfl
        have h01 : MkLic gh s0 directory name (withFaults Ls s1) := mkLic_nowrite _ _ hs1dev hdisk
        rcases hcase with ⟨hr, hfresh⟩ | ⟨e, o, hr, hF⟩
        · subst hr
          show MkLic gh s0 directory name
            (withVol 0 (Fat.makeDir d.cluster sfn Gen.ATTR_DIRECTORY (withFaults Ls s0).clock) (withFaults Ls s1)).2
          obtain ⟨hlen, hz⟩ := VolSfn.sfn_facts hs
          obtain ⟨hn1, hc1, hM1⟩ := VolX.volInv_fs h1
          have hw := withVol_one (Fat.makeDir d.cluster sfn Gen.ATTR_DIRECTORY (withFaults Ls s0).clock)
            (s := withFaults Ls s1) (gh := gh) hvs1 hvol'
          rw [fsOf_withFaults] at hw
          rw [hw]
          -- the fault-free `make_dir` and its licence
          have hsound : WriteSet1.Sound (fsOf s1 gh) := ⟨⟨hn1, hc1, hM1.blocksOK, hM1.geom, hM1.hint⟩⟩
          have hclock : (withFaults Ls s0).clock = s0.clock := rfl
          rw [hclock]
          have key : ∀ L : Licence, LicenceFor gh s0.files s0.dirs s0.dev.disk (.mkdir directory name) L →
              (∀ c sA, allocCluster none false (fsOf s1 gh) = (.ok c, sA) → c ∈ L.fatClusters) →
              WriteSet1.LicD gh.vol L (fsOf s1 gh).dev (Fat.makeDir d.cluster sfn Gen.ATTR_DIRECTORY s0.clock (fsOf s1 gh)).2.dev →
              MkLic gh s0 directory name
                (afterVol (withFaults Ls s1) { vi with vol := fs'.vol }
                  (Fat.makeDir d.cluster sfn Gen.ATTR_DIRECTORY s0.clock (setFaults Ls (fsOf s1 gh))).2) := by
            intro L hLF hcn hlicD
            obtain ⟨ws0, hdt0, hal0⟩ := hlicD
            have hrem : RemLic (fsOf s1 gh).vol L (fsOf s1 gh) (Fat.makeDir d.cluster sfn 16 s0.clock (fsOf s1 gh)).2 :=
              ⟨ws0, hdt0.wlog, hal0⟩
            obtain ⟨ws, htr, hal⟩ := makeDir_licF hM1 hn1 hc1 hdv sfn hlen s0.clock Ls L hcn hrem
            refine ⟨L, hLF, ws, ?_, ?_, ?_⟩
            · show (Fat.makeDir d.cluster sfn 16 s0.clock (setFaults Ls (fsOf s1 gh))).2.dev.wlog = _
              rw [htr.wlog]
              show ws.reverse ++ s1.dev.wlog = _
              rw [hs1dev]
            · show (Fat.makeDir d.cluster sfn 16 s0.clock (setFaults Ls (fsOf s1 gh))).2.dev.disk = _
              rw [htr.disk]
              show s1.dev.disk.applyWrites ws = _
              rw [hdisk]
            · have : AllLicensed1 gh.vol s1.dev.disk L ws := hal
              rw [hdisk] at this; exact this
          rcases WriteSet1.makeDir_lic d.cluster sfn Gen.ATTR_DIRECTORY s0.clock hlen (fsOf s1 gh) hsound (dirChainOf gh d.cluster)
              (dir_chain_hyp h1 hdv) with
            ⟨s', hrun, hw2, hd2, _, _, hnoalloc⟩ | ⟨cn, x, s', hrun, _, hsg, hrn, hfn, ⟨sA, hal⟩, hout⟩
          · refine key Licence.none (.nothing _) (fun c sA h => absurd h (hnoalloc c sA)) ?_
            rw [hrun]
            exact WriteSet1.LicD.same hw2 hd2
          · have hcn : ∀ L : Licence, cn ∈ L.fatClusters → ∀ c sA', allocCluster none false (fsOf s1 gh) = (.ok c, sA') → c ∈ L.fatClusters := by
              intro L hL c sA' h
              rw [hal] at h
              injection h with h1 _
              injection h1 with h1
              rw [← h1]; exact hL
            have hfn' : isFree gh.vol s0.dev.disk cn := by
              have : isFree gh.vol s1.dev.disk cn := hfn
              rw [hdisk] at this; exact this
            rw [hrun] at key
            cases hout with
            | slot b off hb ho hal' hfs lic =>
              have hfs' : WriteSet.FreeAt s0.dev.disk b off := by
                have : WriteSet.FreeAt s1.dev.disk b off := hfs
                rw [hdisk] at this; exact this
              exact key _ (.mkdirSlot directory name d hdm hdh cn hrn hfn' b off hb ho hal' hfs')
                (hcn _ List.mem_cons_self) (lic _ List.mem_cons_self List.mem_cons_self List.mem_cons_self)
            | grown last c hk hl hrc hfc lic =>
              have hfc' : isFree gh.vol s0.dev.disk c := by
                have : isFree gh.vol s1.dev.disk c := hfc
                rw [hdisk] at this; exact this
              exact key _ (.mkdirGrow directory name d hdm hdh cn hrn hfn' last c hl hrc hfc')
                (hcn _ List.mem_cons_self)
                (lic _ List.mem_cons_self List.mem_cons_self (List.mem_cons_of_mem _ List.mem_cons_self)
                  (List.mem_cons_of_mem _ (List.mem_cons_of_mem _ List.mem_cons_self)) (List.mem_cons_of_mem _ List.mem_cons_self))
            | full lic =>
              exact key _ (.mkdirFull directory name cn hrn hfn') (hcn _ List.mem_cons_self)
                (lic _ List.mem_cons_self List.mem_cons_self)
        · subst hr
          by_cases hdir : Attr.isDirectory e.attributes = true
          · simp only [hdir, if_true]; exact h01
          · simp only [hdir]; exact h01

end Sdmmc.Lemmas.VolX.Lic
