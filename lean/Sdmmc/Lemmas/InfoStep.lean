/-
C16, the info sector over ALL calls, part 1 — what one API call does to the FAT32 info sector.

What is proved (all under the volume invariant `VolInv s gh` of `Spec/Volume.lean`, FAT32):
* `allLicensed_infoKept` — a list of device writes licensed by a licence WITHOUT the info flag never writes the
  info sector (the info sector is in region `.info`; FAT, slot, data and file-range writes land elsewhere).
* `flush_info_inv`, `closeFile_info_inv`, `closeVolume_info_inv` — `flush_file` / `close_file` of a dirty file and a
  `close_volume` that is not refused answer `Ok` and leave `infoPatch vi.vol (old info sector)` in the info sector,
  `vi` the one open volume; the data-plane hypotheses of `Acct.flush_info` (slot inside its block, eleven name bytes,
  the `assert!`, "the slot's block is not the info sector") are discharged from the invariant.
* `step_flush`, `step_closeFile`, `step_closeVolume` — the same through `step` (answer `Ok(())`).
* `step_info` — EVERY call (24 operations, every outcome): the info sector afterwards is the one before, or
  `infoPatch vi.vol` of it, `vi` the one open volume BEFORE the call.
* `count_word_kept`, `hint_word_kept` — a call made while the in-memory count (hint) is unknown leaves the
  stored count word 488 (hint word 492) alone.

Hypotheses: `VolInv s gh`, `Mirror gh.vol s.dev.disk` and `NameCovered op` (names whose short form starts with 0xE5
excluded) — exactly those of `WriteSetInv.step_callOK`, which supplies the licence of the call.  Not proved here:
that an unknown count stays unknown (the hypothesis `hunk` of `Props.C16Info.history_count_word_kept`, where the
history versions are: they need `C04Hist.step_invariantM`, which lives in `Props`).
-/
import Sdmmc.Lemmas.AcctAllMount
import Sdmmc.Lemmas.AcctAllStep
import Sdmmc.Lemmas.AcctInfo

namespace Sdmmc.Lemmas.InfoStep
open Sdmmc.Model Sdmmc.Model.Fat Sdmmc.Spec.Volume
open Sdmmc.Spec hiding NoFault Coherent run step
open Sdmmc.Lemmas.FBasic (Disk.get_set_ne Disk.get_set_self)
open Sdmmc.Lemmas.FatOps (infoPatch)
open Sdmmc.Lemmas.WriteSetInv (NameCovered StepLicensed LicenceFor)
open Sdmmc.Lemmas.WriteSet (flushLicence infoLicence writeLicence)
open Sdmmc.Lemmas.MHoare
open Sdmmc.Lemmas.VolApi

/-! ### `infoPatch` -/

/-- Nothing to record: the patch is the identity. -/
theorem infoPatch_none (v : FatVolume) (b : Block) (hc : v.freeClustersCount = none) (hh : v.nextFreeCluster = none) :
    infoPatch v b = b := by
  unfold infoPatch
  rw [hc, hh]

/-! ### Licences without the info flag -/

theorem info_region (v : FatVolume) (hg : WFGeom v) (h32 : v.fatType = .fat32) : regionOf v v.infoLocation = .info :=
  FatLens.info_block_in_info_region v hg h32 (Reopen.fatStart_le_numBlocks v hg)

/-- One write licensed by a licence without the info flag is not a write of the info sector. -/
theorem licensed_not_info (v : FatVolume) (hg : WFGeom v) (h32 : v.fatType = .fat32) (d : Disk) (L : Licence)
    (hL : L.info = false) (w : Nat × Block) (h : Licensed v d L w) : w.1 ≠ v.infoLocation := by
  have hinfo := info_region v hg h32
  intro hw
  rcases h with hf | hd | hs | hi' | hr
  · have := WriteRefines.isFatBlock_region hg hf.1
    rw [hw, hinfo] at this; cases this
  · obtain ⟨_, c, _, hc, h1, h2⟩ := hd
    have := FatLens.cluster_blocks_in_data_region v hg c (w.1 - clusterToBlock v c) hc.1 hc.2 (by omega)
    rw [show clusterToBlock v c + (w.1 - clusterToBlock v c) = w.1 by omega, hw, hinfo] at this
    cases this
  · rcases hs.1 with h1 | h1 <;> rw [hw, hinfo] at h1 <;> cases h1
  · have := hi'.1
    rw [hL] at this; cases this
  · obtain ⟨_, ⟨cs, lo, hi2, c, _, _, hc, h1, h2⟩, _⟩ := hr
    have := FatLens.cluster_blocks_in_data_region v hg c (w.1 - clusterToBlock v c) hc.1 hc.2 (by omega)
    rw [show clusterToBlock v c + (w.1 - clusterToBlock v c) = w.1 by omega, hw, hinfo] at this
    cases this

/-- A list of writes licensed by a licence without the info flag leaves the info sector alone. -/
theorem allLicensed_infoKept (v : FatVolume) (hg : WFGeom v) (h32 : v.fatType = .fat32) (L : Licence) (hL : L.info = false) :
    ∀ (ws : List (Nat × Block)) (d : Disk), AllLicensed v d L ws → (d.applyWrites ws).get v.infoLocation = d.get v.infoLocation
  | [], _, _ => rfl
  | w :: ws, d, h => by
    show ((d.set w.1 w.2).applyWrites ws).get v.infoLocation = _
    rw [allLicensed_infoKept v hg h32 L hL ws _ h.2]
    exact Disk.get_set_ne _ _ _ _ (licensed_not_info v hg h32 d L hL w h.1)

/-- A call whose licence lacks the info flag leaves the info sector alone. -/
theorem step_infoKept {s : Mgr} {gh : Ghost} (hI : VolInv s gh) (h32 : gh.vol.fatType = .fat32) {op : Op} {L : Licence}
    (hL : StepLicensed gh s op L) (hinfo : L.info = false) :
    (step s op).1.dev.disk.get gh.vol.infoLocation = s.dev.disk.get gh.vol.infoLocation := by
  rw [hL.disk]
  exact allLicensed_infoKept gh.vol hI.med.geom h32 L hinfo _ _ hL.all

/-! ### `flush_file`, `close_file`, `close_volume` under the invariant -/

/-- **`flush_file` of a dirty file under the invariant** (FAT32): it answers `Ok`, no table changes, and the info
sector is the old one patched with the in-memory record of the one open volume. -/
theorem flush_info_inv {s : Mgr} {gh : Ghost} (hI : VolInv s gh) (h32 : gh.vol.fatType = .fat32) {h i : Nat} {f : FileInfo}
    (hidx : s.files.findIdx? (·.rawFile = h) = some i) (hfi : s.files[i]? = some f) (hd : f.dirty = true) :
    ∃ vi s1, s.vols = [vi] ∧ vi.vol = gh.vol ∧ flushFile h s = (.ok (), s1) ∧ s1.files = s.files ∧ s1.vols = s.vols ∧
      s1.dev.disk.get gh.vol.infoLocation = infoPatch vi.vol (s.dev.disk.get gh.vol.infoLocation) := by
  have hfm : f ∈ s.files := List.mem_of_getElem? hfi
  obtain ⟨vi, hv, hvol, hrv, _⟩ := vol_of_file hI hfm
  have hvfind : s.vols.findIdx? (·.rawVolume = f.rawVolume) = some 0 := by rw [hv]; simp [hrv]
  have hvi : s.vols[0]? = some vi := by rw [hv]; rfl
  obtain ⟨ho, hname, hreg, hassert⟩ := AcctAll.file_slot_facts hI hfm
  have hne : f.entry.entryBlock ≠ vi.vol.infoLocation := by
    intro e
    rw [e, hvol, info_region gh.vol hI.med.geom h32] at hreg
    rcases hreg with h1 | h1 <;> cases h1
  obtain ⟨s1, hfl, heq, _, _, hinf⟩ :=
    Acct.flush_info s h i 0 f vi ⟨hI.noFault, hI.coherent, hI.med.blocksOK, hI.unlocked⟩ hidx hfi hvfind hvi hd hassert ho
      hname hne
  refine ⟨vi, s1, hv, hvol, hfl, by rw [heq], by rw [heq], ?_⟩
  rw [hvol] at hinf
  rw [hinf]
  by_cases hk : gh.vol.freeClustersCount = none ∧ gh.vol.nextFreeCluster = none
  · rw [if_neg (fun hc => hc.2 hk), hvol, infoPatch_none _ _ hk.1 hk.2]
  · rw [if_pos ⟨h32, hk⟩, hvol]

/-- **`close_file` of a dirty file under the invariant**: the flush, then the record leaves the table. -/
theorem closeFile_info_inv {s : Mgr} {gh : Ghost} (hI : VolInv s gh) (h32 : gh.vol.fatType = .fat32) {h i : Nat} {f : FileInfo}
    (hidx : s.files.findIdx? (·.rawFile = h) = some i) (hfi : s.files[i]? = some f) (hd : f.dirty = true) :
    ∃ vi s1, s.vols = [vi] ∧ vi.vol = gh.vol ∧ closeFile h s = (.ok (), s1) ∧ s1.vols = s.vols ∧
      s1.dev.disk.get gh.vol.infoLocation = infoPatch vi.vol (s.dev.disk.get gh.vol.infoLocation) := by
  obtain ⟨vi, s1, hv, hvol, hfl, hfiles, hvols, hinf⟩ := flush_info_inv hI h32 hidx hfi hd
  exact ⟨vi, _, hv, hvol, WriteSet.closeFile_of_flush s s1 h i hidx hfl hfiles, hvols, hinf⟩

/-- `close_volume` under the invariant is refused (nothing changes) — a file or a directory of the volume is open,
or the handle is not the open volume's — or answers `Ok`, forgets the volume, and leaves the patched info sector. -/
theorem closeVolume_info_inv {s : Mgr} {gh : Ghost} (hI : VolInv s gh) (h32 : gh.vol.fatType = .fat32) (volume : Nat) :
    (∃ e, closeVolume volume s = (.err e, s)) ∨
    ∃ vi s1, s.vols = [vi] ∧ vi.vol = gh.vol ∧ vi.rawVolume = volume ∧ closeVolume volume s = (.ok (), s1) ∧ s1.vols = [] ∧
      s1.dev.disk.get gh.vol.infoLocation = infoPatch vi.vol (s.dev.disk.get gh.vol.infoLocation) := by
  by_cases hfa : (s.files.any (·.rawVolume = volume)) = true
  · left
    refine ⟨.VolumeStillInUse, ?_⟩
    unfold closeVolume
    rw [get_bind, if_pos hfa]; rfl
  by_cases hda : (s.dirs.any (·.rawVolume = volume)) = true
  · left
    refine ⟨.VolumeStillInUse, ?_⟩
    unfold closeVolume
    rw [get_bind, if_neg hfa, if_pos hda]; rfl
  cases hv : s.vols.findIdx? (·.rawVolume = volume) with
  | none =>
    left
    refine ⟨.BadHandle, ?_⟩
    unfold closeVolume
    rw [get_bind, if_neg hfa, if_neg hda, bind_err (getVolumeById_bad hv)]
  | some volIdx =>
    right
    obtain ⟨h0, vi, hvs, hvol, hraw⟩ := vol_of_handle hI hv
    subst h0
    have hvi : s.vols[0]? = some vi := by rw [hvs]; rfl
    obtain ⟨s1, hcl, heq, _, _, hinf⟩ :=
      Acct.closeVolume_spec s volume 0 vi ⟨hI.noFault, hI.coherent, hI.med.blocksOK, hI.unlocked⟩ (by simpa using hfa)
        (by simpa using hda) hv hvi
    refine ⟨vi, s1, hvs, hvol, hraw, hcl, by rw [heq, hvs]; rfl, ?_⟩
    rw [hvol] at hinf
    rw [hinf]
    by_cases hk : gh.vol.freeClustersCount = none ∧ gh.vol.nextFreeCluster = none
    · rw [if_neg (fun hc => hc.2 hk), hvol, infoPatch_none _ _ hk.1 hk.2]
    · rw [if_pos ⟨h32, hk⟩, hvol]

/-! ### The same through `step` -/

theorem step_state (s : Mgr) (op : Op) (hl : s.locked = false) : (step s op).1 = (runOp op (resetLogs s)).2 := by
  rw [step_unlocked s op hl]
theorem step_result (s : Mgr) (op : Op) (hl : s.locked = false) : (step s op).2.result = (runOp op (resetLogs s)).1 := by
  rw [step_unlocked s op hl]

/-- **`flush` of a dirty file, as an API call**: `Ok(())`, and the patched info sector. -/
theorem step_flush {s : Mgr} {gh : Ghost} (hI : VolInv s gh) (h32 : gh.vol.fatType = .fat32) {h i : Nat} {f : FileInfo}
    {vi : VolInfo} (hidx : s.files.findIdx? (·.rawFile = h) = some i) (hfi : s.files[i]? = some f) (hd : f.dirty = true)
    (hv : s.vols = [vi]) :
    (step s (.flush h)).2.result = .ok .unit ∧ vi.vol = gh.vol ∧ (step s (.flush h)).1.vols = [vi] ∧
    (step s (.flush h)).1.dev.disk.get gh.vol.infoLocation = infoPatch vi.vol (s.dev.disk.get gh.vol.infoLocation) := by
  obtain ⟨vi', s1, hv', hvol, hfl, _, hvols, hinf⟩ :=
    flush_info_inv (volInv_resetLogs hI) h32 (h := h) (i := i) (f := f) hidx hfi hd
  have hve : vi' = vi := by
    have : [vi'] = [vi] := hv'.symm.trans hv
    simpa using this
  subst hve
  have hrun : runOp (.flush h) (resetLogs s) = (.ok .unit, s1) := by
    show (flushFile h >>= fun _ => (pure Payload.unit : M Payload)) (resetLogs s) = _
    rw [bind_ok hfl]; rfl
  rw [step_state s _ hI.unlocked, step_result s _ hI.unlocked, hrun]
  exact ⟨rfl, hvol, hvols.trans hv, hinf⟩

/-- **`close_file` of a dirty file, as an API call.** -/
theorem step_closeFile {s : Mgr} {gh : Ghost} (hI : VolInv s gh) (h32 : gh.vol.fatType = .fat32) {h i : Nat} {f : FileInfo}
    {vi : VolInfo} (hidx : s.files.findIdx? (·.rawFile = h) = some i) (hfi : s.files[i]? = some f) (hd : f.dirty = true)
    (hv : s.vols = [vi]) :
    (step s (.closeFile h)).2.result = .ok .unit ∧ vi.vol = gh.vol ∧ (step s (.closeFile h)).1.vols = [vi] ∧
    (step s (.closeFile h)).1.dev.disk.get gh.vol.infoLocation = infoPatch vi.vol (s.dev.disk.get gh.vol.infoLocation) := by
  obtain ⟨vi', s1, hv', hvol, hcl, hvols, hinf⟩ :=
    closeFile_info_inv (volInv_resetLogs hI) h32 (h := h) (i := i) (f := f) hidx hfi hd
  have hve : vi' = vi := by
    have : [vi'] = [vi] := hv'.symm.trans hv
    simpa using this
  subst hve
  have hrun : runOp (.closeFile h) (resetLogs s) = (.ok .unit, s1) := by
    show (closeFile h >>= fun _ => (pure Payload.unit : M Payload)) (resetLogs s) = _
    rw [bind_ok hcl]; rfl
  rw [step_state s _ hI.unlocked, step_result s _ hI.unlocked, hrun]
  exact ⟨rfl, hvol, hvols.trans hv, hinf⟩

/-- **`close_volume`, as an API call**: refused — an error, the medium untouched — or `Ok(())`, the volume forgotten, the
patched info sector. -/
theorem step_closeVolume {s : Mgr} {gh : Ghost} (hI : VolInv s gh) (h32 : gh.vol.fatType = .fat32) (volume : Nat) :
    ((∃ e, (step s (.closeVolume volume)).2.result = .err e) ∧ (step s (.closeVolume volume)).1.dev.disk = s.dev.disk ∧
      (step s (.closeVolume volume)).1.vols = s.vols) ∨
    ∃ vi, s.vols = [vi] ∧ vi.vol = gh.vol ∧ vi.rawVolume = volume ∧ (step s (.closeVolume volume)).2.result = .ok .unit ∧
      (step s (.closeVolume volume)).1.vols = [] ∧
      (step s (.closeVolume volume)).1.dev.disk.get gh.vol.infoLocation =
        infoPatch vi.vol (s.dev.disk.get gh.vol.infoLocation) := by
  rw [step_state s _ hI.unlocked, step_result s _ hI.unlocked]
  rcases closeVolume_info_inv (volInv_resetLogs hI) h32 volume with ⟨e, he⟩ | ⟨vi, s1, hv, hvol, hraw, hcl, hvols, hinf⟩
  · left
    have hrun : runOp (.closeVolume volume) (resetLogs s) = (.err e, resetLogs s) := by
      show (closeVolume volume >>= fun _ => (pure Payload.unit : M Payload)) (resetLogs s) = _
      rw [bind_err he]
    rw [hrun]
    exact ⟨⟨e, rfl⟩, rfl, rfl⟩
  · right
    have hrun : runOp (.closeVolume volume) (resetLogs s) = (.ok .unit, s1) := by
      show (closeVolume volume >>= fun _ => (pure Payload.unit : M Payload)) (resetLogs s) = _
      rw [bind_ok hcl]; rfl
    rw [hrun]
    exact ⟨vi, hv, hvol, hraw, rfl, hvols, hinf⟩

/-! ### Every call -/

/-- **`step_info`: what ANY API call does to the FAT32 info sector** — all 24 operations, every outcome: it leaves
the sector as it was, or (a `flush_file` / `close_file` of a dirty file, a `close_volume` that is not refused) it leaves
`infoPatch vi.vol` of it, `vi` being the one open volume before the call: the in-memory count spliced in at 488 if known,
the in-memory hint at 492 if known. -/
theorem step_info {s : Mgr} {gh : Ghost} (hI : VolInv s gh) (hm : Mirror gh.vol s.dev.disk) (op : Op) (hc : NameCovered op)
    (h32 : gh.vol.fatType = .fat32) :
    (step s op).1.dev.disk.get gh.vol.infoLocation = s.dev.disk.get gh.vol.infoLocation ∨
    ∃ vi, s.vols = [vi] ∧ vi.vol = gh.vol ∧
      (step s op).1.dev.disk.get gh.vol.infoLocation = infoPatch vi.vol (s.dev.disk.get gh.vol.infoLocation) := by
  obtain ⟨L, hL⟩ := WriteSetInv.step_callOK hI hm op hc
  have keep : L.info = false →
      (step s op).1.dev.disk.get gh.vol.infoLocation = s.dev.disk.get gh.vol.infoLocation := step_infoKept hI h32 hL
  have hlic := hL.lic
  cases hlic with
  | nothing => exact .inl (keep rfl)
  | write => exact .inl (keep rfl)
  | flush h f hf hh hd i hidx hfi =>
    obtain ⟨vi, hv, hvol, _⟩ := vol_of_file hI hf
    exact .inr ⟨vi, hv, hvol, (step_flush hI h32 hidx hfi hd hv).2.2.2⟩
  | closeFile h f hf hh hd i hidx hfi =>
    obtain ⟨vi, hv, hvol, _⟩ := vol_of_file hI hf
    exact .inr ⟨vi, hv, hvol, (step_closeFile hI h32 hidx hfi hd hv).2.2.2⟩
  | closeVolume v =>
    rcases step_closeVolume hI h32 v with ⟨_, hd, _⟩ | ⟨vi, hv, hvol, _, _, _, hinf⟩
    · exact .inl (by rw [hd])
    · exact .inr ⟨vi, hv, hvol, hinf⟩
  | delete => exact .inl (keep rfl)
  | truncate => exact .inl (keep rfl)
  | createSlot => exact .inl (keep rfl)
  | createGrow => exact .inl (keep rfl)
  | mkdirSlot => exact .inl (keep rfl)
  | mkdirGrow => exact .inl (keep rfl)
  | mkdirFull => exact .inl (keep rfl)

/-! ### The stored words while the in-memory value is unknown -/

/-- **A call made while the in-memory free count is unknown leaves the stored count word alone.** -/
theorem count_word_kept {s : Mgr} {gh : Ghost} (hI : VolInv s gh) (hm : Mirror gh.vol s.dev.disk) (op : Op)
    (hc : NameCovered op) (h32 : gh.vol.fatType = .fat32) (hunk : ∀ vi, vi ∈ s.vols → vi.vol.freeClustersCount = none) :
    readU32 ((step s op).1.dev.disk.get gh.vol.infoLocation) 488 = readU32 (s.dev.disk.get gh.vol.infoLocation) 488 := by
  rcases step_info hI hm op hc h32 with h | ⟨vi, hv, _, h⟩
  · rw [h]
  · rw [h]
    exact Acct.infoPatch_count_none vi.vol _ (hI.med.blocksOK _) (hunk vi (by rw [hv]; exact List.mem_singleton.2 rfl))

/-- **A call made while the in-memory next-free hint is unknown leaves the stored hint word alone.** -/
theorem hint_word_kept {s : Mgr} {gh : Ghost} (hI : VolInv s gh) (hm : Mirror gh.vol s.dev.disk) (op : Op)
    (hc : NameCovered op) (h32 : gh.vol.fatType = .fat32) (hunk : ∀ vi, vi ∈ s.vols → vi.vol.nextFreeCluster = none) :
    readU32 ((step s op).1.dev.disk.get gh.vol.infoLocation) 492 = readU32 (s.dev.disk.get gh.vol.infoLocation) 492 := by
  rcases step_info hI hm op hc h32 with h | ⟨vi, hv, _, h⟩
  · rw [h]
  · rw [h]
    exact Acct.infoPatch_hint_none vi.vol _ (hI.med.blocksOK _) (hunk vi (by rw [hv]; exact List.mem_singleton.2 rfl))

end Sdmmc.Lemmas.InfoStep
