/-
Lemmas for C14 over sessions, part 3: the exact shape of the response polls of a command
(so that "the card answered" can be read off the log), and what an answered CMD18 / CMD25
frame is followed by, given the shape of the call that sent it.
-/
import Sdmmc.Lemmas.SdSessIdent

namespace Sdmmc.Lemmas.Sd
open Sdmmc.Model Sdmmc.Model.Sd Sdmmc.Gen Sdmmc.Spec.SdSession

variable {σ : Type} {α β : Type} (B : BusOps σ)

/-! ### Response polls -/

/-- Polls that all came back with bit 7 set ("no response yet").  Same body as
`Sdmmc.Props.C14Session.Waits`. -/
def Waits (l : List Event) : Prop := ∀ e ∈ l, ∃ g, e = Event.poll g ∧ g / 128 % 2 = 1

@[simp] theorem waits_nil : Waits [] := by simp [Waits]

theorem waits_cons {g : Nat} {l : List Event} (hg : g / 128 % 2 = 1) (h : Waits l) : Waits (Event.poll g :: l) := by
  intro e he
  rcases List.mem_cons.mp he with rfl | he
  · exact ⟨g, rfl, hg⟩
  · exact h e he

theorem waits_polls {l : List Event} (h : Waits l) : AllPolls l := by
  intro e he
  obtain ⟨g, rfl, _⟩ := h e he
  rfl

/-- The events of a response wait: polls with bit 7 set, then a last poll — the answer (bit 7
clear, below 256) exactly when the wait succeeded. -/
def RespPolls (r : SRes Nat) (evs : List Event) : Prop :=
  ∃ waits last, evs = waits ++ [Event.poll last] ∧ Waits waits ∧
    (((∃ v, r = .ok v) ∧ last / 128 % 2 = 0 ∧ last < 256) ∨
     ((∃ e, r = .err e) ∧ ¬ (last / 128 % 2 = 0 ∧ last < 256)))

theorem waitResponse_shape (c n : Nat) : Tr (waitResponse B c n) RespPolls := by
  induction n with
  | zero =>
    unfold waitResponse
    refine (Tr.bind (readByte_tr B) fun g => Tr.ite (fun _ => Tr.pure g) (fun _ => Tr.fail _)).conseq ?_
    rintro r evs (⟨g, e1, e2, rfl, h1, (⟨hg, rfl, rfl⟩ | ⟨hg, rfl, rfl⟩)⟩ | ⟨e, rfl, h⟩ | ⟨p, rfl, h⟩)
    · rcases h1 with ⟨g', hg', hgg, rfl⟩ | ⟨hr, _⟩
      · cases hgg
        exact ⟨[], g, by simp, waits_nil, Or.inl ⟨⟨g, rfl⟩, hg, hg'⟩⟩
      · cases hr
    · rcases h1 with ⟨g', hg', hgg, rfl⟩ | ⟨hr, _⟩
      · cases hgg
        exact ⟨[], g, by simp, waits_nil, Or.inr ⟨⟨_, rfl⟩, fun hh => hg hh.1⟩⟩
      · cases hr
    · rcases h with ⟨g', _, hgg, _⟩ | ⟨_, rfl⟩
      · cases hgg
      · exact ⟨[], 256, by simp, waits_nil, Or.inr ⟨⟨_, rfl⟩, by omega⟩⟩
    · rcases h with ⟨g', _, hgg, _⟩ | ⟨hr, _⟩
      · cases hgg
      · cases hr
  | succ n ih =>
    unfold waitResponse
    refine (Tr.bind (readByte_tr B) fun g => Tr.ite (fun _ => Tr.pure g)
      (fun _ => Tr.bind (delayTick_tr B) fun _ => ih)).conseq ?_
    rintro r evs (⟨g, e1, e2, rfl, h1, (⟨hg, rfl, rfl⟩ | ⟨hg, hrest⟩)⟩ | ⟨e, rfl, h⟩ | ⟨p, rfl, h⟩)
    · rcases h1 with ⟨g', hg', hgg, rfl⟩ | ⟨hr, _⟩
      · cases hgg
        exact ⟨[], g, by simp, waits_nil, Or.inl ⟨⟨g, rfl⟩, hg, hg'⟩⟩
      · cases hr
    · rcases h1 with ⟨g', hg', hgg, rfl⟩ | ⟨hr, _⟩
      · cases hgg
        rcases hrest with ⟨_, d1, d2, rfl, ⟨_, rfl⟩, waits, last, rfl, hw, hcase⟩ | ⟨e, rfl, hd, _⟩ | ⟨p, rfl, hd, _⟩
        · exact ⟨Event.poll g :: waits, last, by simp, waits_cons (by omega) hw, hcase⟩
        · cases hd
        · cases hd
      · cases hr
    · rcases h with ⟨g', _, hgg, _⟩ | ⟨_, rfl⟩
      · cases hgg
      · exact ⟨[], 256, by simp, waits_nil, Or.inr ⟨⟨_, rfl⟩, by omega⟩⟩
    · rcases h with ⟨g', _, hgg, _⟩ | ⟨hr, _⟩
      · cases hgg
      · cases hr

/-- What follows a command frame within its `card_command`: nothing (the frame itself could not
be sent), or the response polls. -/
def RespShape (r : SRes Nat) (resp : List Event) : Prop :=
  (resp = [] ∧ ∃ e, r = .err e) ∨ RespPolls r resp

theorem respShape_polls {r : SRes Nat} {resp : List Event} (h : RespShape r resp) : AllPolls resp := by
  rcases h with ⟨rfl, _⟩ | ⟨waits, last, rfl, hw, _⟩
  · simp
  · simp [waits_polls hw]

/-- The events of one `card_command` (other than CMD12): polls only — the busy wait failed —
or busy polls, the frame, and what follows it. -/
def CmdShape (c arg : Nat) (r : SRes Nat) (evs : List Event) : Prop :=
  (AllPolls evs ∧ ∃ e, r = .err e) ∨
  ∃ w resp, evs = w ++ Event.cmd (frame c arg) :: resp ∧ AllPolls w ∧ RespShape r resp

theorem cardCommand_shape (c arg : Nat) (hc : c ≠ CMD12) : Tr (cardCommand B c arg) (CmdShape c arg) := by
  have hrest : Tr (do
      let _ ← xferEv B (Event.cmd (frame c arg))
      waitResponse B c DEFAULT_COMMAND_RETRIES)
      (fun r evs => ∃ resp, evs = Event.cmd (frame c arg) :: resp ∧ RespShape r resp) := by
    refine (Tr.bind (xferEv_tr B _) fun _ => waitResponse_shape B c _).conseq ?_
    rintro r evs (⟨_, e1, e2, rfl, ⟨rfl, _⟩, h⟩ | ⟨e, rfl, rfl, _⟩ | ⟨p, rfl, rfl, h⟩)
    · exact ⟨e2, rfl, Or.inr h⟩
    · exact ⟨[], rfl, Or.inl ⟨rfl, e, rfl⟩⟩
    · rcases h with ⟨_, h⟩ | h <;> cases h
  unfold cardCommand
  dsimp only
  split
  · refine (Tr.bind (waitNotBusy_tr B _) fun _ => hrest).conseq ?_
    rintro r evs (⟨_, e1, e2, rfl, ⟨h1, _, _⟩, resp, rfl, hr⟩ | ⟨e, rfl, h1, _⟩ | ⟨p, rfl, _, _, h⟩)
    · exact Or.inr ⟨e1, resp, rfl, h1, hr⟩
    · exact Or.inl ⟨h1, e, rfl⟩
    · exact absurd rfl (h p)
  · refine hrest.conseq ?_
    rintro r evs ⟨resp, rfl, hr⟩
    exact Or.inr ⟨[], resp, rfl, by simp, hr⟩

/-! ### Reading "the card answered" off the log -/

/-- `post` — what follows a command frame — begins with the card's answer: polls with bit 7 set,
then a poll with bit 7 clear; `tail` is what follows the answer.  Same body as
`Sdmmc.Props.C14Session.AnsweredThen`. -/
def AnsweredThen (post tail : List Event) : Prop :=
  ∃ waits r, post = waits ++ Event.poll r :: tail ∧ Waits waits ∧ r / 128 % 2 = 0 ∧ r < 256

theorem first_answer_unique {w w' t t' : List Event} {a a' : Nat} (hw : Waits w) (hw' : Waits w')
    (ha : a / 128 % 2 = 0) (ha' : a' / 128 % 2 = 0)
    (h : w ++ Event.poll a :: t = w' ++ Event.poll a' :: t') : w = w' ∧ a = a' ∧ t = t' := by
  induction w generalizing w' with
  | nil =>
    cases w' with
    | nil => simp at h; exact ⟨rfl, h.1, h.2⟩
    | cons x w'' =>
      simp only [List.nil_append, List.cons_append, List.cons.injEq] at h
      obtain ⟨g, hg, hb⟩ := hw' x (by simp)
      rw [← h.1] at hg
      cases hg; omega
  | cons x w1 ih =>
    cases w' with
    | nil =>
      simp only [List.nil_append, List.cons_append, List.cons.injEq] at h
      obtain ⟨g, hg, hb⟩ := hw x (by simp)
      rw [h.1] at hg
      cases hg; omega
    | cons y w'' =>
      simp only [List.cons_append, List.cons.injEq] at h
      have := ih (fun e he => hw e (List.mem_cons_of_mem _ he)) (fun e he => hw' e (List.mem_cons_of_mem _ he)) h.2
      exact ⟨by rw [h.1, this.1], this.2⟩

/-- If the log shows an answer after the frame, the command did succeed, and what follows the
answer in the log is what the driver did next. -/
theorem answered_resp {r : SRes Nat} {resp tail tail' : List Event} (h : RespShape r resp)
    (ht : (∃ e, r = .err e) → tail = []) (ha : AnsweredThen (resp ++ tail) tail') :
    (∃ v, r = .ok v) ∧ tail' = tail := by
  obtain ⟨w', a', hpost, hw', ha1, ha2⟩ := ha
  rcases h with ⟨rfl, he⟩ | ⟨waits, last, rfl, hw, hcase⟩
  · rw [ht he] at hpost
    simp at hpost
  · rcases hcase with ⟨hok, hl1, hl2⟩ | ⟨herr, hl⟩
    · refine ⟨hok, ?_⟩
      have : waits ++ Event.poll last :: tail = w' ++ Event.poll a' :: tail' := by simpa using hpost
      exact (first_answer_unique hw hw' hl1 ha1 this).2.2.symm
    · exfalso
      rw [ht herr, List.append_nil] at hpost
      have hmem : Event.poll a' ∈ waits ++ [Event.poll last] := by rw [hpost]; simp
      rcases List.mem_append.mp hmem with hm | hm
      · obtain ⟨g, hg, hb⟩ := hw _ hm
        cases hg; omega
      · simp at hm
        exact hl ⟨hm ▸ ha1, hm ▸ ha2⟩

/-! ### Multi-block commands -/

/-- No CMD18 and no CMD25 frame. -/
def NoMulti (evs : List Event) : Prop := ∀ f, Event.cmd f ∈ evs → cmdIdx f ≠ 18 ∧ cmdIdx f ≠ 25

instance : Local NoMulti where
  nil := by simp [NoMulti]
  single e he := by intro f hf; simp at hf; exact absurd hf.symm (he f)
  append a b ha hb := by
    intro f hf
    rcases List.mem_append.mp hf with h | h
    · exact ha f h
    · exact hb f h

theorem noMulti_of_noCmds {evs : List Event} (h : NoCmds evs) : NoMulti evs := by
  intro f hf
  have : Event.cmd f ∈ cmdEvs evs := by simp [cmdEvs, hf, isCmdEv]
  rw [h] at this; simp at this

theorem noMulti_of_polls {evs : List Event} (h : AllPolls evs) : NoMulti evs :=
  noMulti_of_noCmds (cmdEvs_polls h)

theorem noMulti_of_identOnly {evs : List Event} (h : IdentOnly evs) : NoMulti evs := by
  intro f hf
  have := h f hf
  simp [identCmds] at this
  omega

theorem noMulti_of_onlyCmd {c : Nat} {evs : List Event} (h : OnlyCmd c evs) (h18 : c ≠ 18) (h25 : c ≠ 25) :
    NoMulti evs := fun f hf => by rw [h f hf]; exact ⟨h18, h25⟩

theorem cardCommand_noMulti (c arg : Nat) (hc : c < 64) (h18 : c ≠ 18) (h25 : c ≠ 25) :
    Emits NoMulti (cardCommand B c arg) :=
  (cardCommand_onlyCmd B c arg hc).conseq fun _ _ h => noMulti_of_onlyCmd h h18 h25

/-- After an answered CMD18: events without commands, the CMD12 frame, polls.  Same body as
`Sdmmc.Props.C14Session.Stop12`. -/
def Stop12 (tail : List Event) : Prop :=
  ∃ mid post, tail = mid ++ Event.cmd (frame 12 0) :: post ∧ NoCmds mid ∧ AllPolls post

/-- After an answered CMD25: events without commands, the stop token 0xFD, polls — or no command
and no stop token at all, because the busy wait in front of the stop token failed: the call ends
on a poll that did not read 0xFF.  Same body as `Sdmmc.Props.C14Session.StopTok`. -/
def StopTok (tail : List Event) : Prop :=
  (∃ mid post, tail = mid ++ Event.byte 0xFD :: post ∧ NoCmds mid ∧ AllPolls post) ∨
  (NoCmds tail ∧ ∃ g, tail.getLast? = some (Event.poll g) ∧ g ≠ 255)

theorem stop12_noMulti {tail : List Event} (h : Stop12 tail) : NoMulti tail := by
  obtain ⟨mid, post, rfl, hm, hp⟩ := h
  intro f hf
  rcases List.mem_append.mp hf with h1 | h1
  · exact noMulti_of_noCmds hm f h1
  · rcases List.mem_cons.mp h1 with h2 | h2
    · cases h2
      rw [cmdIdx_frame 12 0 (by decide)]; decide
    · exact noMulti_of_polls hp f h2

/-- The events of the operation of one call: a prefix without CMD18/CMD25, then either nothing
with a command in it, or the multi-block command `K`, its response, and — if it was answered —
a tail satisfying `G`. -/
def OpShape (K : Nat) (G : List Event → Prop) (eo : List Event) : Prop :=
  ∃ pfx R, eo = pfx ++ R ∧ NoMulti pfx ∧
    (NoCmds R ∨ ∃ w arg resp r tail, R = w ++ Event.cmd (frame K arg) :: (resp ++ tail) ∧ AllPolls w ∧
      RespShape r resp ∧ ((∃ e, r = .err e) → tail = []) ∧ ((∃ v, r = .ok v) → G tail) ∧ NoMulti tail)

theorem opShape_plain {K : Nat} {G : List Event → Prop} {eo : List Event} (h : NoMulti eo) : OpShape K G eo :=
  ⟨eo, [], by simp, h, Or.inl rfl⟩

theorem first_cmd_split {w R a' post : List Event} {F f : Bytes} (hw : AllPolls w)
    (h : w ++ Event.cmd F :: R = a' ++ Event.cmd f :: post) :
    (a' = w ∧ f = F ∧ post = R) ∨ Event.cmd f ∈ R := by
  rcases split_append h with ⟨x, hx, hr⟩ | ⟨b', _, hwf⟩
  · cases x with
    | nil =>
      simp only [List.nil_append, List.cons.injEq, Event.cmd.injEq] at hr
      exact Or.inl ⟨by simpa using hx, hr.1.symm, hr.2.symm⟩
    | cons y x' =>
      simp only [List.cons_append, List.cons.injEq] at hr
      exact Or.inr (by rw [hr.2]; simp)
  · exact (no_cmd_in_polls hw hwf).elim

/-- In a call of this shape, a CMD18/CMD25 frame that the log shows answered is the frame `K`
of the call, and what follows the answer satisfies `G`. -/
theorem opShape_spec {K : Nat} {G : List Event → Prop} {ea eo : List Event} (hK : K < 64)
    (h : OpShape K G eo) (hea : NoMulti ea) (pre : List Event) (f : Bytes) (post tail' : List Event)
    (hE : ea ++ eo = pre ++ Event.cmd f :: post) (hidx : cmdIdx f = 18 ∨ cmdIdx f = 25)
    (hans : AnsweredThen post tail') : cmdIdx f = K ∧ G tail' := by
  obtain ⟨pfx, R, rfl, hpfx, hR⟩ := h
  have hno : ∀ {l : List Event}, NoMulti l → Event.cmd f ∈ l → False := fun hl hm => by
    have := hl f hm
    omega
  rw [← List.append_assoc] at hE
  rcases split_append hE with ⟨a', _, hr⟩ | ⟨b', _, hl⟩
  · rcases hR with hnc | ⟨w, arg, resp, r, tail, rfl, hw, hresp, herr, hok, htail⟩
    · exact (hno (noMulti_of_noCmds hnc) (by rw [hr]; simp)).elim
    · rcases first_cmd_split hw hr with ⟨_, rfl, rfl⟩ | hmem
      · obtain ⟨hv, rfl⟩ := answered_resp hresp herr hans
        exact ⟨cmdIdx_frame K arg hK, hok hv⟩
      · rcases List.mem_append.mp hmem with hm | hm
        · exact (hno (noMulti_of_polls (respShape_polls hresp)) hm).elim
        · exact (hno htail hm).elim
  · exact (hno (Local.append _ _ hea hpfx) (by rw [hl]; simp)).elim

/-- Same body as `Sdmmc.Props.C14Session.MultiTerminated`. -/
def MultiTerminated (E : List Event) : Prop :=
  ∀ pre f post tail, E = pre ++ Event.cmd f :: post → AnsweredThen post tail →
    (cmdIdx f = 18 → Stop12 tail) ∧ (cmdIdx f = 25 → StopTok tail)

theorem multi_of_shapes {ea eo : List Event} (hea : NoMulti ea)
    (h : OpShape 18 Stop12 eo ∨ OpShape 25 StopTok eo) : MultiTerminated (ea ++ eo) := by
  intro pre f post tail hE hans
  constructor
  · intro h18
    rcases h with h | h
    · exact (opShape_spec (by decide) h hea pre f post tail hE (Or.inl h18) hans).2
    · have := (opShape_spec (by decide) h hea pre f post tail hE (Or.inl h18) hans).1
      omega
  · intro h25
    rcases h with h | h
    · have := (opShape_spec (by decide) h hea pre f post tail hE (Or.inr h25) hans).1
      omega
    · exact (opShape_spec (by decide) h hea pre f post tail hE (Or.inr h25) hans).2

end Sdmmc.Lemmas.Sd
