/-
Directory blocks slot by slot, used by `Props/C02.lean`, `Props/C03.lean`, `Props/C09.lean`:

* pure facts: the slots of a block indexed by `i < 16`; what `firstFreeSlot` / `deleteInSlots`
  return (`firstFreeSlot_some`, `deleteInSlots_some`); `CleanTailBlock` ("everything after a `0x00`
  slot is `0x00`") and its preservation by writing a 32-byte entry into the first free slot
  (`cleanTail_create`) and by setting the deleted-mark (`cleanTail_delete`);
* F level: the exact outcome, medium and write log of `writeNewBlocks` (`writeNewBlocks_spec`) and of
  `deleteBlocks` (`deleteBlocks_spec`) on a fault-free coherent state; the fields of the entry a
  successful `writeNewDirectoryEntry` returns (`writeNewWalk_entry`), with no hypothesis at all.
-/
import Sdmmc.Lemmas.DirOps
import Sdmmc.Lemmas.Files

namespace Sdmmc.Lemmas.DirSlots
open Sdmmc.Model Sdmmc.Model.Fat Sdmmc.Lemmas.FBasic Sdmmc.Lemmas.FatOps Sdmmc.Lemmas.DirOps

/-! ### Bytes of slices and splices -/

theorem byteAt_slice (blk : Bytes) (off n k : Nat) (hk : k < n) :
    byteAt (slice blk off n) k = byteAt blk (off + k) := by
  unfold byteAt; rw [Files.slice_getD blk off n k hk]

/-- Two blocks of the same length that agree on a byte range have the same slice there. -/
theorem slice_congr (p q : Bytes) (off n : Nat) (hl : p.length = q.length)
    (h : ∀ i, off ≤ i → i < off + n → p.getD i 0 = q.getD i 0) : slice p off n = slice q off n := by
  unfold slice
  apply List.ext_getElem?
  intro k
  rw [List.getElem?_take, List.getElem?_take]
  by_cases hk : k < n
  · rw [if_pos hk, if_pos hk, List.getElem?_drop, List.getElem?_drop]
    have := h (off + k) (by omega) (by omega)
    rw [List.getD_eq_getElem?_getD, List.getD_eq_getElem?_getD] at this
    by_cases hlt : off + k < p.length
    · have hlt' : off + k < q.length := by omega
      rw [List.getElem?_eq_getElem hlt, List.getElem?_eq_getElem hlt'] at this ⊢
      simp only [Option.getD_some] at this
      rw [this]
    · have hlt' : ¬ off + k < q.length := by omega
      rw [List.getElem?_eq_none (by omega), List.getElem?_eq_none (by omega)]
  · rw [if_neg hk, if_neg hk]

theorem getD_set (l : Bytes) (n m : Nat) (a : UInt8) :
    (l.set n a).getD m 0 = if n = m ∧ n < l.length then a else l.getD m 0 := by
  rw [List.getD_eq_getElem?_getD, List.getD_eq_getElem?_getD, List.getElem?_set]
  by_cases h : n = m
  · subst h
    by_cases hl : n < l.length
    · simp [hl]
    · simp [hl]
  · simp [h]

theorem byteAt_set (l : Bytes) (n m : Nat) (a : UInt8) :
    byteAt (l.set n a) m = if n = m ∧ n < l.length then a.toNat else byteAt l m := by
  unfold byteAt; rw [getD_set]; split <;> rfl

/-! ### The sixteen slots of a block -/

/-- Slot `i` of a block as the slot loops see it: offset and raw bytes. -/
def slotAt (blk : Block) (i : Nat) : Nat × Bytes := (i * 32, slice blk (i * 32) 32)

theorem slotsOf_eq_range' (blk : Block) : slotsOf blk = (List.range' 0 16).map (slotAt blk) := by
  unfold slotsOf
  rw [List.range_eq_range']
  rfl

theorem isEnd_slot (blk : Block) (i : Nat) :
    OnDisk.isEnd (slotAt blk i).2 = decide (byteAt blk (i * 32) = 0) := by
  show decide (byteAt (slice blk (i * 32) 32) 0 = 0) = _
  rw [byteAt_slice blk (i * 32) 32 0 (by omega), Nat.add_zero]

theorem isValid_slot (blk : Block) (i : Nat) :
    OnDisk.isValid (slotAt blk i).2 = true ↔ byteAt blk (i * 32) ≠ 0 ∧ byteAt blk (i * 32) ≠ 0xE5 := by
  unfold OnDisk.isValid
  rw [isEnd_slot]
  show (!decide (byteAt blk (i * 32) = 0) && decide (byteAt (slice blk (i * 32) 32) 0 ≠ 0xE5)) = true ↔ _
  rw [byteAt_slice blk (i * 32) 32 0 (by omega), Nat.add_zero]
  simp

theorem isValid_slot_false (blk : Block) (i : Nat) :
    OnDisk.isValid (slotAt blk i).2 = false ↔ byteAt blk (i * 32) = 0 ∨ byteAt blk (i * 32) = 0xE5 := by
  rw [← Bool.not_eq_true, isValid_slot]
  omega

/-! ### `firstFreeSlot`, `deleteInSlots` over an index range -/

theorem firstFreeSlot_cons (x : Nat × Bytes) (rest : List (Nat × Bytes)) :
    firstFreeSlot (x :: rest) = if !OnDisk.isValid x.2 then some x.1 else firstFreeSlot rest := rfl

theorem deleteInSlots_cons (name : Bytes) (x : Nat × Bytes) (rest : List (Nat × Bytes)) :
    deleteInSlots name (x :: rest) =
      if OnDisk.isEnd x.2 then none else if OnDisk.matches x.2 name then some x.1 else deleteInSlots name rest := rfl

theorem firstFreeSlot_range' (g : Nat → Nat × Bytes) : ∀ (n a : Nat),
    (∀ off, firstFreeSlot ((List.range' a n).map g) = some off →
      ∃ i, a ≤ i ∧ i < a + n ∧ off = (g i).1 ∧ OnDisk.isValid (g i).2 = false ∧
        ∀ k, a ≤ k → k < i → OnDisk.isValid (g k).2 = true) ∧
    (firstFreeSlot ((List.range' a n).map g) = none →
      ∀ k, a ≤ k → k < a + n → OnDisk.isValid (g k).2 = true)
  | 0, a => ⟨fun off h => (by cases h), fun _ k h1 h2 => (by omega)⟩
  | n + 1, a => by
    obtain ⟨ih1, ih2⟩ := firstFreeSlot_range' g n (a + 1)
    rw [List.range'_succ, List.map_cons, firstFreeSlot_cons]
    by_cases hv : OnDisk.isValid (g a).2 = true
    · rw [hv]
      simp only [Bool.not_true, Bool.false_eq_true, if_false]
      constructor
      · intro off h
        obtain ⟨i, h1, h2, h3, h4, h5⟩ := ih1 off h
        refine ⟨i, by omega, by omega, h3, h4, fun k hk1 hk2 => ?_⟩
        by_cases hka : k = a
        · rw [hka]; exact hv
        · exact h5 k (by omega) hk2
      · intro h k hk1 hk2
        by_cases hka : k = a
        · rw [hka]; exact hv
        · exact ih2 h k (by omega) (by omega)
    · have hv' : OnDisk.isValid (g a).2 = false := by simpa using hv
      rw [hv']
      simp only [Bool.not_false, if_true]
      constructor
      · intro off h
        have : (g a).1 = off := Option.some.inj h
        exact ⟨a, Nat.le_refl _, by omega, this.symm, hv', fun k h1 h2 => by omega⟩
      · intro h; cases h

theorem deleteInSlots_range' (name : Bytes) (g : Nat → Nat × Bytes) : ∀ (n a : Nat) (off : Nat),
    deleteInSlots name ((List.range' a n).map g) = some off →
      ∃ i, a ≤ i ∧ i < a + n ∧ off = (g i).1 ∧ OnDisk.isEnd (g i).2 = false ∧ OnDisk.matches (g i).2 name = true ∧
        ∀ k, a ≤ k → k < i → OnDisk.isEnd (g k).2 = false ∧ OnDisk.matches (g k).2 name = false
  | 0, a, off, h => by cases h
  | n + 1, a, off, h => by
    rw [List.range'_succ, List.map_cons, deleteInSlots_cons] at h
    by_cases he : OnDisk.isEnd (g a).2 = true
    · rw [if_pos he] at h; cases h
    · have he' : OnDisk.isEnd (g a).2 = false := by simpa using he
      rw [if_neg he] at h
      by_cases hm : OnDisk.matches (g a).2 name = true
      · rw [if_pos hm] at h
        have : (g a).1 = off := Option.some.inj h
        exact ⟨a, Nat.le_refl _, by omega, this.symm, he', hm, fun k h1 h2 => by omega⟩
      · have hm' : OnDisk.matches (g a).2 name = false := by simpa using hm
        rw [if_neg hm] at h
        obtain ⟨i, h1, h2, h3, h4, h5, h6⟩ := deleteInSlots_range' name g n (a + 1) off h
        refine ⟨i, by omega, by omega, h3, h4, h5, fun k hk1 hk2 => ?_⟩
        by_cases hka : k = a
        · rw [hka]; exact ⟨he', hm'⟩
        · exact h6 k (by omega) hk2

/-- What `firstFreeSlot` answers for a block: slot `i`, the first one whose first byte is `0x00`
or `0xE5`; every earlier slot is live. -/
theorem firstFreeSlot_some (blk : Block) (off : Nat) (h : firstFreeSlot (slotsOf blk) = some off) :
    ∃ i, i < 16 ∧ off = 32 * i ∧ (byteAt blk (32 * i) = 0 ∨ byteAt blk (32 * i) = 0xE5) ∧
      ∀ k, k < i → byteAt blk (32 * k) ≠ 0 ∧ byteAt blk (32 * k) ≠ 0xE5 := by
  rw [slotsOf_eq_range'] at h
  obtain ⟨i, _, h2, h3, h4, h5⟩ := (firstFreeSlot_range' (slotAt blk) 16 0).1 off h
  refine ⟨i, by omega, by rw [h3]; show i * 32 = 32 * i; omega, ?_, fun k hk => ?_⟩
  · rw [Nat.mul_comm]; exact (isValid_slot_false blk i).mp h4
  · rw [Nat.mul_comm]; exact (isValid_slot blk k).mp (h5 k (by omega) hk)

/-- No free slot: all sixteen are live. -/
theorem firstFreeSlot_none (blk : Block) (h : firstFreeSlot (slotsOf blk) = none) :
    ∀ k, k < 16 → byteAt blk (32 * k) ≠ 0 ∧ byteAt blk (32 * k) ≠ 0xE5 := by
  rw [slotsOf_eq_range'] at h
  intro k hk
  rw [Nat.mul_comm]
  exact (isValid_slot blk k).mp ((firstFreeSlot_range' (slotAt blk) 16 0).2 h k (by omega) (by omega))

/-- What `deleteInSlots` answers for a block: slot `i`, which matches the name, is not an end
marker, and has no end marker and no other match before it. -/
theorem deleteInSlots_some (name : Bytes) (blk : Block) (off : Nat)
    (h : deleteInSlots name (slotsOf blk) = some off) :
    ∃ i, i < 16 ∧ off = 32 * i ∧ byteAt blk (32 * i) ≠ 0 ∧
      OnDisk.matches (slice blk off 32) name = true ∧
      ∀ k, k < i → byteAt blk (32 * k) ≠ 0 ∧ OnDisk.matches (slice blk (32 * k) 32) name = false := by
  rw [slotsOf_eq_range'] at h
  obtain ⟨i, _, h2, h3, h4, h5, h6⟩ := deleteInSlots_range' name (slotAt blk) 16 0 off h
  have hoff : off = 32 * i := by rw [h3]; show i * 32 = 32 * i; omega
  refine ⟨i, by omega, hoff, ?_, ?_, fun k hk => ?_⟩
  · rw [isEnd_slot] at h4
    rw [Nat.mul_comm]
    simpa using h4
  · rw [h3]; exact h5
  · obtain ⟨a, b⟩ := h6 k (by omega) hk
    rw [isEnd_slot] at a
    rw [Nat.mul_comm]
    exact ⟨by simpa using a, b⟩

/-! ### Clean tails -/

/-- Everything after a `0x00` slot of the block is a `0x00` slot. -/
def CleanTailBlock (blk : Block) : Prop :=
  ∀ i j, i < j → j < 16 → byteAt blk (32 * i) = 0 → byteAt blk (32 * j) = 0

/-- First bytes of the slots after a 32-byte entry was written into slot `i`. -/
theorem byteAt_splice_slot (blk src : Bytes) (i j : Nat) (hl : blk.length = 512) (hs : src.length = 32)
    (hi : i < 16) :
    byteAt (splice blk (32 * i) src) (32 * j) = if j = i then byteAt src 0 else byteAt blk (32 * j) := by
  have hfit : 32 * i + src.length ≤ blk.length := by omega
  by_cases hji : j = i
  · subst hji
    rw [if_pos rfl]
    have := FatLens.byteAt_splice_inside blk src (32 * j) 0 hfit (by omega)
    rw [Nat.add_zero] at this
    exact this
  · rw [if_neg hji]
    exact FatLens.byteAt_splice_outside blk src (32 * i) (32 * j) hfit (by omega)

/-- Creating an entry: writing 32 bytes whose first byte is not `0x00` into the first free slot
keeps the tail clean, and every slot before it stays what it was (live). -/
theorem cleanTail_create (blk src : Bytes) (i : Nat) (hl : blk.length = 512) (hs : src.length = 32) (hi : i < 16)
    (h0 : byteAt src 0 ≠ 0) (hpre : ∀ k, k < i → byteAt blk (32 * k) ≠ 0)
    (hct : CleanTailBlock blk) : CleanTailBlock (splice blk (32 * i) src) := by
  intro a b hab hb ha
  rw [byteAt_splice_slot blk src i a hl hs hi] at ha
  rw [byteAt_splice_slot blk src i b hl hs hi]
  by_cases hai : a = i
  · rw [if_pos hai] at ha; exact absurd ha h0
  · rw [if_neg hai] at ha
    have hgt : i < a := by
      rcases Nat.lt_trichotomy a i with h | h | h
      · exact absurd ha (hpre a h)
      · exact absurd h hai
      · exact h
    rw [if_neg (by omega)]
    exact hct a b hab hb ha

/-- Deleting: the deleted-mark never creates a `0x00` byte… -/
theorem set_e5_no_new_zero (blk : Bytes) (off j : Nat) (h : byteAt (blk.set off (UInt8.ofNat 0xE5)) j = 0) :
    byteAt blk j = 0 := by
  rw [byteAt_set] at h
  split at h
  · exact absurd h (by decide)
  · exact h

/-- …and keeps the tail clean when it is put on a slot that is not an end marker. -/
theorem cleanTail_delete (blk : Bytes) (i : Nat) (hne : byteAt blk (32 * i) ≠ 0)
    (hct : CleanTailBlock blk) : CleanTailBlock (blk.set (32 * i) (UInt8.ofNat 0xE5)) := by
  intro a b hab hb ha
  have ha' := set_e5_no_new_zero blk _ _ ha
  have hb' := hct a b hab hb ha'
  rw [byteAt_set]
  split
  · rename_i hcond
    have : b = i := by omega
    rw [this] at hb'
    exact absurd hb' hne
  · exact hb'

/-! ### `writeNewBlocks` on a fault-free coherent state -/

/-- The state handed to the write-back after the new entry was spliced in. -/
def afterNew (blockIdx off : Nat) (e : DirEntry) (s : FS) : FS :=
  { afterRead blockIdx s with
    cache := { tag := some blockIdx,
               blk := splice (s.dev.disk.get blockIdx) off (DirEntry.serialize s.vol.fatType e) } }

theorem writeNewBlocks_succ (name : Bytes) (att fc : Nat) (now : Timestamp) (n blockIdx : Nat) (s : FS)
    (hn : NoFault s) (hc : Coherent s) :
    writeNewBlocks name att fc now (n + 1) blockIdx s =
      match firstFreeSlot (slotsOf (s.dev.disk.get blockIdx)) with
      | some off => (writeBack >>= fun _ => (pure (some (DirEntry.new name att fc now blockIdx off)) : F (Option DirEntry)))
                      (afterNew blockIdx off (DirEntry.new name att fc now blockIdx off) s)
      | none => writeNewBlocks name att fc now n (blockIdx + 1) (afterRead blockIdx s) := by
  rw [writeNewBlocks]
  simp only [bind_apply, getVol_apply, cacheRead_eq' _ _ hn hc, cacheBlk_apply, afterRead_blk]
  cases firstFreeSlot (slotsOf (s.dev.disk.get blockIdx)) with
  | none => rfl
  | some off => rfl

/-- Outcome, medium and write log of `writeNewBlocks`: either no block of the run has a free slot
and nothing is written, or the entry goes into the first free slot of the first block that has one —
one block write, the old block with the 32 bytes of the slot replaced. -/
theorem writeNewBlocks_spec (name : Bytes) (att fc : Nat) (now : Timestamp) :
    ∀ (n blockIdx : Nat) (s : FS), NoFault s → Coherent s →
    ∃ r s', writeNewBlocks name att fc now n blockIdx s = (r, s') ∧ NoFault s' ∧ Coherent s' ∧ s'.vol = s.vol ∧
      ((r = .ok none ∧ s'.dev.disk = s.dev.disk ∧ s'.dev.wlog = s.dev.wlog ∧
          ∀ b, blockIdx ≤ b → b < blockIdx + n → firstFreeSlot (slotsOf (s.dev.disk.get b)) = none) ∨
       (∃ b off, blockIdx ≤ b ∧ b < blockIdx + n ∧
          (∀ b', blockIdx ≤ b' → b' < b → firstFreeSlot (slotsOf (s.dev.disk.get b')) = none) ∧
          firstFreeSlot (slotsOf (s.dev.disk.get b)) = some off ∧
          r = .ok (some (DirEntry.new name att fc now b off)) ∧
          s'.dev.disk = s.dev.disk.set b
            (splice (s.dev.disk.get b) off (DirEntry.serialize s.vol.fatType (DirEntry.new name att fc now b off))) ∧
          s'.dev.wlog = (b, splice (s.dev.disk.get b) off
            (DirEntry.serialize s.vol.fatType (DirEntry.new name att fc now b off))) :: s.dev.wlog))
  | 0, blockIdx, s, hn, hc =>
    ⟨.ok none, s, rfl, hn, hc, rfl, .inl ⟨rfl, rfl, rfl, fun b h1 h2 => by omega⟩⟩
  | n + 1, blockIdx, s, hn, hc => by
    rw [writeNewBlocks_succ name att fc now n blockIdx s hn hc]
    cases hf : firstFreeSlot (slotsOf (s.dev.disk.get blockIdx)) with
    | none =>
      obtain ⟨r, s', h, hn', hc', hv, hcase⟩ :=
        writeNewBlocks_spec name att fc now n (blockIdx + 1) (afterRead blockIdx s) (afterRead_noFault _ s hn)
          (afterRead_coherent _ s)
      refine ⟨r, s', h, hn', hc', hv, ?_⟩
      rcases hcase with ⟨h1, h2, h3, h4⟩ | ⟨b, off, h1, h2, h3, h4, h5, h6, h7⟩
      · refine .inl ⟨h1, h2, h3, fun b hb1 hb2 => ?_⟩
        by_cases hbe : b = blockIdx
        · rw [hbe]; exact hf
        · exact h4 b (by omega) (by omega)
      · refine .inr ⟨b, off, by omega, by omega, fun b' hb1 hb2 => ?_, h4, h5, h6, h7⟩
        by_cases hbe : b' = blockIdx
        · rw [hbe]; exact hf
        · exact h3 b' (by omega) hb2
    | some off =>
      simp only
      have hn1 : NoFault (afterNew blockIdx off (DirEntry.new name att fc now blockIdx off) s) := hn
      rw [bind_apply, writeBack_eq _ blockIdx hn1 rfl]
      refine ⟨_, _, rfl, hn, ?_, rfl, .inr ⟨blockIdx, off, Nat.le_refl _, by omega, fun b' h1 h2 => by omega,
        hf, rfl, rfl, rfl⟩⟩
      intro i hi
      have : blockIdx = i := Option.some.inj hi
      subst this
      exact (Disk.get_set_self _ _ _).symm

/-! ### `deleteBlocks` on a fault-free coherent state -/

/-- Outcome, medium and write log of `deleteBlocks`: either no block of the run has a matching slot
before its end marker and nothing is written, or one byte — the first byte of the matching slot —
of one block is set to `0xE5`. -/
theorem deleteBlocks_spec (name : Bytes) :
    ∀ (n blockIdx : Nat) (s : FS), NoFault s → Coherent s →
    ∃ r s', deleteBlocks name n blockIdx s = (r, s') ∧ NoFault s' ∧ Coherent s' ∧ s'.vol = s.vol ∧
      ((r = .ok false ∧ s'.dev.disk = s.dev.disk ∧ s'.dev.wlog = s.dev.wlog) ∨
       (∃ b off, blockIdx ≤ b ∧ b < blockIdx + n ∧
          deleteInSlots name (slotsOf (s.dev.disk.get b)) = some off ∧
          r = .ok true ∧
          s'.dev.disk = s.dev.disk.set b ((s.dev.disk.get b).set off (UInt8.ofNat 0xE5)) ∧
          s'.dev.wlog = (b, (s.dev.disk.get b).set off (UInt8.ofNat 0xE5)) :: s.dev.wlog))
  | 0, blockIdx, s, hn, hc => ⟨.ok false, s, rfl, hn, hc, rfl, .inl ⟨rfl, rfl, rfl⟩⟩
  | n + 1, blockIdx, s, hn, hc => by
    rw [deleteBlocks_succ name n blockIdx s hn hc]
    cases hf : deleteInSlots name (slotsOf (s.dev.disk.get blockIdx)) with
    | none =>
      obtain ⟨r, s', h, hn', hc', hv, hcase⟩ :=
        deleteBlocks_spec name n (blockIdx + 1) (afterRead blockIdx s) (afterRead_noFault _ s hn)
          (afterRead_coherent _ s)
      refine ⟨r, s', h, hn', hc', hv, ?_⟩
      rcases hcase with h1 | ⟨b, off, h1, h2, h3, h4, h5, h6⟩
      · exact .inl h1
      · exact .inr ⟨b, off, by omega, by omega, h3, h4, h5, h6⟩
    | some off =>
      simp only
      have hn1 : NoFault (afterMark blockIdx off s) := hn
      rw [bind_apply, writeBack_eq _ blockIdx hn1 rfl]
      refine ⟨_, _, rfl, hn, ?_, rfl, .inr ⟨blockIdx, off, Nat.le_refl _, by omega, hf, rfl, rfl, rfl⟩⟩
      intro i hi
      have : blockIdx = i := Option.some.inj hi
      subst this
      exact (Disk.get_set_self _ _ _).symm

/-! ### The entry a successful creation returns (no hypothesis on the state) -/

/-- Position-independent shape of a created entry. -/
def IsNewEntry (name : Bytes) (att fc : Nat) (now : Timestamp) (e : DirEntry) : Prop :=
  ∃ b off, e = DirEntry.new name att fc now b off ∧ off < 512 ∧ off % 32 = 0

theorem firstFreeSlot_off (blk : Block) (off : Nat) (h : firstFreeSlot (slotsOf blk) = some off) :
    off < 512 ∧ off % 32 = 0 := by
  obtain ⟨i, hi, ho, _⟩ := firstFreeSlot_some blk off h
  omega

theorem writeNewBlocks_entry (name : Bytes) (att fc : Nat) (now : Timestamp) :
    ∀ (n blockIdx : Nat) (s s' : FS) (e : DirEntry),
      writeNewBlocks name att fc now n blockIdx s = (.ok (some e), s') → IsNewEntry name att fc now e
  | 0, blockIdx, s, s', e, h => by
    have : writeNewBlocks name att fc now 0 blockIdx s = (.ok none, s) := rfl
    rw [this] at h
    cases h
  | n + 1, blockIdx, s, s', e, h => by
    rw [writeNewBlocks] at h
    simp only [bind_apply', getVol_apply, cacheBlk_apply] at h
    cases hr : (cacheRead blockIdx s).1 with
    | ok u =>
      rw [hr] at h
      simp only at h
      cases hf : firstFreeSlot (slotsOf (cacheRead blockIdx s).2.cache.blk) with
      | none =>
        rw [hf] at h
        exact writeNewBlocks_entry name att fc now n (blockIdx + 1) _ s' e h
      | some off =>
        rw [hf] at h
        simp only [bind_apply', cacheModify_apply, pure_apply] at h
        generalize hs2 : ({ (cacheRead blockIdx s).2 with
          cache := { (cacheRead blockIdx s).2.cache with
            blk := splice (cacheRead blockIdx s).2.cache.blk off
              (DirEntry.serialize s.vol.fatType (DirEntry.new name att fc now blockIdx off)) } } : FS) = s2 at h
        cases hw : (writeBack s2).1 with
        | ok u =>
          rw [hw] at h
          simp only at h
          have he : DirEntry.new name att fc now blockIdx off = e := by
            have := congrArg Prod.fst h
            simp only [Res.ok.injEq, Option.some.injEq] at this
            exact this
          obtain ⟨h1, h2⟩ := firstFreeSlot_off _ off hf
          exact ⟨blockIdx, off, he.symm, h1, h2⟩
        | err e' => rw [hw] at h; cases h
        | panic m => rw [hw] at h; cases h
        | diverged => rw [hw] at h; cases h
    | err e' => rw [hr] at h; cases h
    | panic m => rw [hr] at h; cases h
    | diverged => rw [hr] at h; cases h

theorem writeNewWalk_entry (name : Bytes) (att fc : Nat) (now : Timestamp) :
    ∀ (fuel : Nat) (w : DirWalk) (s s' : FS) (e : DirEntry),
      writeNewWalk name att fc now fuel w s = (.ok e, s') → IsNewEntry name att fc now e
  | 0, w, s, s', e, h => by cases h
  | fuel + 1, w, s, s', e, h => by
    rw [writeNewWalk, bind_apply'] at h
    have hb := writeNewBlocks_entry name att fc now w.dirSize w.firstBlock s
    generalize writeNewBlocks name att fc now w.dirSize w.firstBlock s = p1 at h hb
    rcases p1 with ⟨r1, s1⟩
    simp only at h hb
    cases r1 with
    | ok o =>
      cases o with
      | some e1 =>
        simp only [pure_apply] at h
        have : e1 = e := Res.ok.inj (congrArg Prod.fst h)
        subst this
        exact hb s1 e1 rfl
      | none =>
        simp only at h
        by_cases hfr : w.fixedRoot = true
        · rw [ite_apply, if_pos hfr] at h; cases h
        · rw [ite_apply, if_neg hfr, bind_apply', attempt_apply] at h
          simp only at h
          generalize nextCluster w.cluster s1 = p2 at h
          rcases p2 with ⟨r2, s2⟩
          simp only at h
          cases r2 with
          | ok nxt =>
            simp only [bind_apply, getVol_apply] at h
            exact writeNewWalk_entry name att fc now fuel _ s2 s' e h
          | err er =>
            cases er
            case EndOfFile =>
              simp only at h
              rw [bind_apply'] at h
              generalize allocCluster (some w.cluster) true s2 = p3 at h
              rcases p3 with ⟨r3, s3⟩
              simp only at h
              cases r3 with
              | ok c =>
                simp only [bind_apply, getVol_apply] at h
                exact writeNewWalk_entry name att fc now fuel _ s3 s' e h
              | err e' => cases h
              | panic m => cases h
              | diverged => cases h
            all_goals cases h
          | panic m => cases h
          | diverged => cases h
    | err e' => cases h
    | panic m => cases h
    | diverged => cases h

theorem writeNewDirectoryEntry_entry (dirCluster : Nat) (name : Bytes) (att fc : Nat) (now : Timestamp)
    (s s' : FS) (e : DirEntry) (h : writeNewDirectoryEntry dirCluster name att fc now s = (.ok e, s')) :
    IsNewEntry name att fc now e := by
  unfold writeNewDirectoryEntry at h
  simp only [bind_apply, getVol_apply] at h
  exact writeNewWalk_entry name att fc now _ _ s s' e h

/-! ### Creation and deletion keep the tail of a directory block clean -/

/-- The first byte of a serialised entry is the first byte of its name. -/
theorem serialize_first_byte (ft : FatType) (e : DirEntry) (hname : e.name.length = 11) :
    byteAt (DirEntry.serialize ft e) 0 = byteAt e.name 0 := by
  cases hnm : e.name with
  | nil => rw [hnm] at hname; cases hname
  | cons a t =>
    unfold DirEntry.serialize byteAt
    rw [hnm]
    simp

/-- A successful `writeNewBlocks` chose slot `i` of block `e.entryBlock`: the first slot of that
block that is not live.  Every earlier slot of the block is live and keeps its first byte, so no hole
is left before the new entry and the new entry is not behind an end marker; if everything after the
first `0x00` slot of the block was `0x00`, that is still so. -/
theorem create_clean_tail (name : Bytes) (att fc : Nat) (now : Timestamp) (n blockIdx : Nat) (s s' : FS)
    (e : DirEntry) (hn : NoFault s) (hc : Coherent s) (hb : BlocksOK s.dev.disk) (hname : name.length = 11)
    (h0 : byteAt name 0 ≠ 0)
    (h : writeNewBlocks name att fc now n blockIdx s = (.ok (some e), s')) :
    (∃ i, i < 16 ∧ e.entryOffset = 32 * i ∧
      (byteAt (s.dev.disk.get e.entryBlock) (32 * i) = 0 ∨ byteAt (s.dev.disk.get e.entryBlock) (32 * i) = 0xE5) ∧
      byteAt (s'.dev.disk.get e.entryBlock) (32 * i) = byteAt name 0 ∧
      (∀ k, k < i → byteAt (s.dev.disk.get e.entryBlock) (32 * k) ≠ 0 ∧ byteAt (s.dev.disk.get e.entryBlock) (32 * k) ≠ 0xE5) ∧
      (∀ k, k < 16 → k ≠ i → byteAt (s'.dev.disk.get e.entryBlock) (32 * k) = byteAt (s.dev.disk.get e.entryBlock) (32 * k))) ∧
    (CleanTailBlock (s.dev.disk.get e.entryBlock) → CleanTailBlock (s'.dev.disk.get e.entryBlock)) ∧
    (∀ b, b ≠ e.entryBlock → s'.dev.disk.get b = s.dev.disk.get b) := by
  obtain ⟨r, s'', h', _, _, _, hcase⟩ := writeNewBlocks_spec name att fc now n blockIdx s hn hc
  rw [h] at h'
  have er : Res.ok (some e) = r := congrArg Prod.fst h'
  have es : s' = s'' := congrArg Prod.snd h'
  subst es
  rcases hcase with ⟨h1, _⟩ | ⟨b, off, _, _, _, hf, hr, hd, _⟩
  · rw [← er] at h1; cases h1
  · rw [← er] at hr
    have he : e = DirEntry.new name att fc now b off := Option.some.inj (Res.ok.inj hr)
    obtain ⟨i, hi, hoff, hfree, hpre⟩ := firstFreeSlot_some _ off hf
    have heb : e.entryBlock = b := by rw [he]; rfl
    have heo : e.entryOffset = off := by rw [he]; rfl
    have hser : (DirEntry.serialize s.vol.fatType (DirEntry.new name att fc now b off)).length = 32 :=
      serialize_length _ _ hname
    have hfb : byteAt (DirEntry.serialize s.vol.fatType (DirEntry.new name att fc now b off)) 0 = byteAt name 0 :=
      serialize_first_byte _ _ hname
    have hnew : s'.dev.disk.get b = splice (s.dev.disk.get b) (32 * i)
        (DirEntry.serialize s.vol.fatType (DirEntry.new name att fc now b off)) := by
      rw [hd, Disk.get_set_self, hoff]
    rw [heb, heo]
    refine ⟨⟨i, hi, hoff, hfree, ?_, hpre, fun k hk hki => ?_⟩, fun hct => ?_, fun b' hne => ?_⟩
    · rw [hnew, byteAt_splice_slot _ _ i i (hb b) hser hi, if_pos rfl, hfb]
    · rw [hnew, byteAt_splice_slot _ _ i k (hb b) hser hi, if_neg hki]
    · rw [hnew]
      exact cleanTail_create _ _ i (hb b) hser hi (by rw [hfb]; exact h0) (fun k hk => (hpre k hk).1) hct
    · rw [hd, Disk.get_set_ne _ _ _ _ (fun e' => hne e'.symm)]

/-- A successful `deleteBlocks` turns the first byte of a live, matching slot into `0xE5`: it never
creates a `0x00` byte, and a clean tail stays clean. -/
theorem delete_clean_tail (name : Bytes) (n blockIdx : Nat) (s s' : FS) (hn : NoFault s) (hc : Coherent s)
    (h : deleteBlocks name n blockIdx s = (.ok true, s')) :
    ∃ b i, blockIdx ≤ b ∧ b < blockIdx + n ∧ i < 16 ∧ byteAt (s.dev.disk.get b) (32 * i) ≠ 0 ∧
      s'.dev.disk = s.dev.disk.set b ((s.dev.disk.get b).set (32 * i) (UInt8.ofNat 0xE5)) ∧
      (∀ b' j, byteAt (s'.dev.disk.get b') j = 0 → byteAt (s.dev.disk.get b') j = 0) ∧
      (CleanTailBlock (s.dev.disk.get b) → CleanTailBlock (s'.dev.disk.get b)) ∧
      (∀ b', b' ≠ b → s'.dev.disk.get b' = s.dev.disk.get b') := by
  obtain ⟨r, s'', h', _, _, _, hcase⟩ := deleteBlocks_spec name n blockIdx s hn hc
  rw [h] at h'
  have er : Res.ok true = r := congrArg Prod.fst h'
  have es : s' = s'' := congrArg Prod.snd h'
  subst es
  rcases hcase with ⟨h1, _⟩ | ⟨b, off, hb1, hb2, hf, _, hd, _⟩
  · rw [← er] at h1; cases h1
  · obtain ⟨i, hi, hoff, hne, _, _⟩ := deleteInSlots_some name _ off hf
    rw [hoff] at hd
    refine ⟨b, i, hb1, hb2, hi, hne, hd, fun b' j hz => ?_, fun hct => ?_, fun b' hne' => ?_⟩
    · rw [hd, Disk.get_set] at hz
      by_cases hbb : b = b'
      · subst hbb
        rw [if_pos rfl] at hz
        exact set_e5_no_new_zero _ _ _ hz
      · rw [if_neg hbb] at hz; exact hz
    · rw [hd, Disk.get_set_self]
      exact cleanTail_delete _ i hne hct
    · rw [hd, Disk.get_set_ne _ _ _ _ (fun e' => hne' e'.symm)]

/-! ### The fields and the position of a created entry -/

/-- A successful `writeNewBlocks`: the returned entry has the given name, attributes and first
cluster, size 0 and both times equal to `now`; it sits in the first block of the run that has a
non-live slot, at the first such slot; that slot then holds its serialisation. -/
theorem create_entry_fields (name : Bytes) (att fc : Nat) (now : Timestamp) (n blockIdx : Nat) (s s' : FS)
    (e : DirEntry) (hn : NoFault s) (hc : Coherent s) (hb : BlocksOK s.dev.disk) (hname : name.length = 11)
    (h : writeNewBlocks name att fc now n blockIdx s = (.ok (some e), s')) :
    e.name = name ∧ e.attributes = att ∧ e.cluster = fc ∧ e.size = 0 ∧ e.ctime = now ∧ e.mtime = now ∧
    blockIdx ≤ e.entryBlock ∧ e.entryBlock < blockIdx + n ∧
    firstFreeSlot (slotsOf (s.dev.disk.get e.entryBlock)) = some e.entryOffset ∧
    (∀ b', blockIdx ≤ b' → b' < e.entryBlock → firstFreeSlot (slotsOf (s.dev.disk.get b')) = none) ∧
    slice (s'.dev.disk.get e.entryBlock) e.entryOffset 32 = e.serialize s.vol.fatType := by
  obtain ⟨r, s'', h', _, _, _, hcase⟩ := writeNewBlocks_spec name att fc now n blockIdx s hn hc
  rw [h] at h'
  have er : Res.ok (some e) = r := congrArg Prod.fst h'
  have es : s' = s'' := congrArg Prod.snd h'
  subst es
  rcases hcase with ⟨h1, _⟩ | ⟨b, off, hb1, hb2, hpre, hf, hr, hd, _⟩
  · rw [← er] at h1; cases h1
  · rw [← er] at hr
    have he : e = DirEntry.new name att fc now b off := Option.some.inj (Res.ok.inj hr)
    obtain ⟨i, hi, hoff, _, _⟩ := firstFreeSlot_some _ off hf
    have hser : (DirEntry.serialize s.vol.fatType (DirEntry.new name att fc now b off)).length = 32 :=
      serialize_length _ _ hname
    have hfit : off + (DirEntry.serialize s.vol.fatType (DirEntry.new name att fc now b off)).length ≤
        (s.dev.disk.get b).length := by rw [hser, hb b]; omega
    subst he
    refine ⟨rfl, rfl, rfl, rfl, rfl, rfl, hb1, hb2, hf, hpre, ?_⟩
    show slice (s'.dev.disk.get b) off 32 = _
    rw [hd, Disk.get_set_self]
    have := FatLens.slice_splice (s.dev.disk.get b) _ off hfit
    rw [hser] at this
    exact this

end Sdmmc.Lemmas.DirSlots
