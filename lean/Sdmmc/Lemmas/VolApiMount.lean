/-
Volume invariant (C03), layer 3 (API): `open_raw_volume` when no volume is open.  The call reads block 0,
the first block of the partition and (FAT32) the information sector; nothing is written.  Whatever it
answers, only device bookkeeping and the cache change (`openRaw_good`), except that on success one volume
record is appended to the volume table — a record whose next-free hint is never a reserved cluster.
-/
import Sdmmc.Lemmas.VolApiRO
import Sdmmc.Lemmas.C15

namespace Sdmmc.Lemmas.VolApi
open Sdmmc.Model Sdmmc.Model.Fat Sdmmc.Spec.Volume Sdmmc.Lemmas.VolBase Sdmmc.Lemmas.VolTree
open Sdmmc.Spec hiding NoFault Coherent
open Sdmmc.Lemmas.VolDisk Sdmmc.Lemmas.VolMed Sdmmc.Lemmas.VolEng
open Sdmmc.Lemmas.FBasic (NoFault Coherent)
open Sdmmc.Lemmas.MHoare

/-! ### The block read of `open_raw_volume` -/

/-- The local `rd` of `openRawVolume`: a cached block read made without a volume record. -/
def rdBlock (idx : Nat) : M Block := fun s =>
  let (r, fs) := (do cacheRead idx; cacheBlk : F Block) { dev := s.dev, cache := s.cache, vol := default }
  (r, { s with dev := fs.dev, cache := fs.cache })

/-- `t` is `s` up to device bookkeeping and cache: same medium, same pending faults, cache coherent if it was. -/
def RdF (s t : Mgr) : Prop :=
  ∃ dev' cache', t = { s with dev := dev', cache := cache' } ∧ dev'.disk = s.dev.disk ∧
    dev'.faults = s.dev.faults ∧
    ((∀ i, s.cache.tag = some i → s.cache.blk = s.dev.disk.get i) →
      ∀ i, cache'.tag = some i → cache'.blk = dev'.disk.get i)

theorem RdF.refl (s : Mgr) : RdF s s := ⟨s.dev, s.cache, rfl, rfl, rfl, fun h => h⟩

theorem RdF.trans {s t u : Mgr} (h1 : RdF s t) (h2 : RdF t u) : RdF s u := by
  obtain ⟨d1, c1, rfl, hd1, hf1, hc1⟩ := h1
  obtain ⟨d2, c2, rfl, hd2, hf2, hc2⟩ := h2
  exact ⟨d2, c2, rfl, hd2.trans hd1, hf2.trans hf1, fun h => hc2 (hc1 h)⟩

theorem rdBlock_frame (idx : Nat) (s : Mgr) : RdF s (rdBlock idx s).2 := by
  have hro : FatOps.ReadOnly (do cacheRead idx; cacheBlk : F Block) :=
    FatOps.ReadOnly.bind (FatOps.ReadOnly.cacheRead idx) fun _ => FatOps.ReadOnly.cacheBlk
  have h := hro { dev := s.dev, cache := s.cache, vol := default }
  exact ⟨_, _, rfl, h.disk, h.faults, fun hc => h.coherent hc⟩

/-- `openRawVolume` with its local block read named. -/
theorem openRawVolume_eq (volumeIdx : Nat) : openRawVolume volumeIdx = (do
    let s ← M.get
    if s.vols.length ≥ s.maxVols then M.fail .TooManyOpenVolumes else
    if s.vols.any (·.idx = volumeIdx) then M.fail .VolumeAlreadyOpen else
    let mbr ← rdBlock 0
    let (ptype, lbaStart, numBlocks) ← M.lift (parsePartition mbr volumeIdx)
    if !supportedPartitionType ptype then M.fail (.FormatError "Partition type not supported") else
    let bpb ← rdBlock lbaStart
    let v ← M.lift (parseVolumeBpb bpb lbaStart numBlocks)
    let v ← (match v.fatType with
      | .fat16 => pure v
      | .fat32 => do
        let info ← rdBlock v.infoLocation
        M.lift (parseVolumeInfo v info) : M FatVolume)
    let id ← generate
    M.modify fun s => { s with vols := s.vols ++ [{ rawVolume := id, idx := volumeIdx, vol := v }] }
    pure id) := rfl

/-! ### The next-free hint of a mounted record -/

/-- The boot-sector half of `parse_volume` leaves the next-free hint unknown. -/
theorem parseVolumeBpb_hint {bpb : Bytes} {lba nb : Nat} {v : FatVolume} (h : parseVolumeBpb bpb lba nb = .ok v) :
    v.nextFreeCluster = none := by
  rcases C15.createFromBytes_noPanic bpb with ⟨⟨ft, cc⟩, hc⟩ | ⟨e, hc⟩
  · cases ft
    · rw [C15.parseVolumeBpb_fat16 lba nb hc] at h
      split at h
      · cases h
      · cases h; rfl
    · rw [C15.parseVolumeBpb_fat32 lba nb hc] at h
      split at h
      · cases h
      · cases h; rfl
  · have : parseVolumeBpb bpb lba nb = .err e := by
      simp only [parseVolumeBpb, hc, Res.bind_err]
    rw [this] at h
    cases h

/-- The information-sector half maps the on-disk hints `0xFFFFFFFF`, `0`, `1` to "unknown". -/
theorem parseVolumeInfo_hint {v v' : FatVolume} {info : Bytes} (h : parseVolumeInfo v info = .ok v') : HintOK v' := by
  unfold parseVolumeInfo Info.parse at h
  split at h
  · cases h
  split at h
  · cases h
  split at h
  · cases h
  · cases h
    intro n hn
    simp only at hn
    split at hn
    · cases hn
    · next hne =>
      cases hn
      omega

/-! ### The frame of the whole call -/

/-- The manager after a volume record is appended under a fresh handle. -/
def addVol (t : Mgr) (idx : Nat) (v : FatVolume) : Mgr :=
  { t with nextId := (t.nextId + 1) % 4294967296,
           vols := t.vols ++ [{ rawVolume := t.nextId, idx := idx, vol := v }] }

/-- Outcomes of `open_raw_volume idx` started from `s`: up to device bookkeeping and cache the state is `s`,
or — with the answer `ok` — `s` with one more volume record, whose hint is sound. -/
def Good (idx : Nat) (s : Mgr) (p : Res Nat × Mgr) : Prop :=
  ∃ t, RdF s t ∧ (p.2 = t ∨ ∃ v, HintOK v ∧ p = (.ok t.nextId, addVol t idx v))

theorem good_bind {α : Type} {idx : Nat} {s s0 : Mgr} (m : M α) (f : α → M Nat) (hm : RdF s (m s0).2)
    (hf : ∀ a s1, m s0 = (.ok a, s1) → Good idx s (f a s1)) : Good idx s ((m >>= f) s0) := by
  rw [bind_def]
  rcases h : m s0 with ⟨r, s1⟩
  rw [h] at hm
  cases r with
  | ok a => exact hf a s1 h
  | err e => exact ⟨s1, hm, .inl rfl⟩
  | panic msg => exact ⟨s1, hm, .inl rfl⟩
  | diverged => exact ⟨s1, hm, .inl rfl⟩

theorem rdF_of_run {α : Type} {s s0 s1 : Mgr} {m : M α} {r : Res α} (hm : RdF s (m s0).2) (h : m s0 = (r, s1)) :
    RdF s s1 := by
  rw [h] at hm; exact hm

theorem openRaw_good (idx : Nat) (s : Mgr) : Good idx s (openRawVolume idx s) := by
  have hstop : ∀ {t : Mgr} (r : Res Nat), RdF s t → Good idx s (r, t) := fun _ ht => ⟨_, ht, .inl rfl⟩
  rw [openRawVolume_eq, get_bind]
  split
  · exact hstop _ (RdF.refl s)
  split
  · exact hstop _ (RdF.refl s)
  -- block 0
  have f1 := rdBlock_frame 0 s
  refine good_bind _ _ f1 ?_
  intro mbr s1 h1
  have g1 : RdF s s1 := rdF_of_run f1 h1
  -- the partition table
  refine good_bind _ _ g1 ?_
  rintro ⟨ptype, lba, nb⟩ s1' h2
  have : s1' = s1 := by
    have := congrArg Prod.snd h2
    exact this.symm
  subst this
  dsimp only
  split
  · exact hstop _ g1
  -- the boot sector
  have f2 : RdF s (rdBlock lba s1').2 := g1.trans (rdBlock_frame lba s1')
  refine good_bind _ _ f2 ?_
  intro bpb s2 h3
  have g2 : RdF s s2 := rdF_of_run f2 h3
  refine good_bind _ _ g2 ?_
  intro v s2' h4
  have hs2 : s2' = s2 := (congrArg Prod.snd h4).symm
  subst hs2
  have hv : parseVolumeBpb bpb lba nb = .ok v := congrArg Prod.fst h4
  have hnone := parseVolumeBpb_hint hv
  -- the information sector
  have hinfo : ∀ (m : M FatVolume), RdF s (m s2').2 → (∀ v' s3, m s2' = (.ok v', s3) → HintOK v') →
      Good idx s ((m >>= fun v => generate >>= fun id =>
        M.modify (fun s => { s with vols := s.vols ++ [{ rawVolume := id, idx := idx, vol := v }] }) >>= fun _ =>
          pure id) s2') := by
    intro m hm hh
    refine good_bind _ _ hm ?_
    intro v' s3 h5
    exact ⟨s3, rdF_of_run hm h5, .inr ⟨v', hh v' s3 h5, rfl⟩⟩
  cases hft : v.fatType with
  | fat16 =>
    refine hinfo _ g2 ?_
    intro v' s3 h5
    have : v' = v := (congrArg Prod.fst h5 |> Res.ok.inj).symm
    subst this
    intro n hn
    rw [hnone] at hn
    cases hn
  | fat32 =>
    have f3 : RdF s (rdBlock v.infoLocation s2').2 := g2.trans (rdBlock_frame _ s2')
    refine hinfo _ ?_ ?_
    · show RdF s ((rdBlock v.infoLocation >>= fun info => M.lift (parseVolumeInfo v info)) s2').2
      rw [bind_lift_state]
      exact f3
    · intro v' s3 h5
      have h5' : (rdBlock v.infoLocation >>= fun info => M.lift (parseVolumeInfo v info)) s2' = (.ok v', s3) := h5
      rw [bind_def] at h5'
      rcases h6 : rdBlock v.infoLocation s2' with ⟨r, s4⟩
      rw [h6] at h5'
      cases r with
      | ok info =>
        have : parseVolumeInfo v info = .ok v' := congrArg Prod.fst h5'
        exact parseVolumeInfo_hint this
      | err e => cases h5'
      | panic msg => cases h5'
      | diverged => cases h5'

/-! ### The invariant -/

/-- `open_raw_volume` when no volume is open.  It reads block 0, the partition's first block and (FAT32) the
info sector — nothing is written.  If it fails, or no volume is added, nothing but device bookkeeping and
cache changed.  If it mounts a volume, the invariant holds for the new record PROVIDED that record has the
geometry of the volume the invariant is about (hypothesis `hsame`: the partition being opened is that volume —
the invariant speaks about one volume of the medium). -/
theorem openVolume_api_closed {s : Mgr} {gh : Ghost} (hI : VolInv s gh) (hv : s.vols = []) (idx : Nat)
    (hsame : ∀ h s', openRawVolume idx s = (.ok h, s') → ∀ vi, vi ∈ s'.vols → SameGeom gh.vol vi.vol) :
    ∃ gh', VolInv (openRawVolume idx s).2 gh' ∧ SameGeom gh.vol gh'.vol := by
  obtain ⟨t, ⟨dev', cache', rfl, hd, hf, hc⟩, hcase⟩ := openRaw_good idx s
  rcases hcase with h | ⟨v, hh, h⟩
  · rw [h]
    exact ⟨gh, volInv_ro (s' := { s with dev := dev', cache := cache' }) hI hd (hf.trans hI.noFault) (hc hI.coherent)
      rfl rfl rfl rfl hI.openDirs, SameGeom.refl _⟩
  · have hsg : SameGeom gh.vol v := by
      have := hsame _ _ h { rawVolume := s.nextId, idx := idx, vol := v } (by
        show _ ∈ s.vols ++ [_]
        simp)
      exact this
    have hnofile : s.files = [] := by
      cases hfs : s.files with
      | nil => rfl
      | cons f l =>
        obtain ⟨vi, hvi, _⟩ := hI.fileVols f (by rw [hfs]; simp)
        rw [hv] at hvi
        cases hvi
    rw [h]
    refine ⟨{ gh with vol := v }, ⟨hf.trans hI.noFault, hc hI.coherent, hI.unlocked, hI.maxVols,
      .inr ⟨{ rawVolume := s.nextId, idx := idx, vol := v }, ?_, rfl⟩, ?_, ?_, hI.openDirs⟩, hsg⟩
    · show s.vols ++ [_] = [_]
      rw [hv]; rfl
    · show MedInv v dev'.disk s.files { gh with vol := v }
      rw [hd]
      have hM := med_congr (medX_of_med hI.med) hsg hh hI.med.blocksOK (fun _ _ => rfl) (fun _ _ => rfl)
      exact med_of_medX (medX_ghost (gh' := { gh with vol := v }) hM rfl rfl)
    · intro f hf'
      have : f ∈ s.files := hf'
      rw [hnofile] at this
      cases this

theorem step_openVolume_api_closed {s : Mgr} {gh : Ghost} (hI : VolInv s gh) (hv : s.vols = []) (idx : Nat)
    (hsame : ∀ h s', openRawVolume idx (resetLogs s) = (.ok h, s') → ∀ vi, vi ∈ s'.vols → SameGeom gh.vol vi.vol) :
    ∃ gh', VolInv (step s (.openVolume idx)).1 gh' ∧ SameGeom gh.vol gh'.vol := by
  rw [step_unlocked s _ hI.unlocked]
  have hI' := volInv_resetLogs hI
  show ∃ gh', VolInv ((openRawVolume idx >>= fun h => (pure (Payload.handle h) : M Payload)) (resetLogs s)).2 gh' ∧ SameGeom gh.vol gh'.vol
  rw [map_state]
  exact openVolume_api_closed hI' (by exact hv) idx hsame

end Sdmmc.Lemmas.VolApi
