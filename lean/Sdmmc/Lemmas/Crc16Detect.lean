import Sdmmc.Lemmas.Crc16Linear

namespace Sdmmc.Lemmas.Crc
open Sdmmc.Model Sdmmc.Spec Sdmmc.Gen

/-! ## Bits of an error pattern -/

theorem byteBits_bitsToBV : ∀ a b c d e f g h : Bool,
    byteBits (bitsToBV 8 [a, b, c, d, e, f, g, h]) = [a, b, c, d, e, f, g, h] := by
  decide

theorem byteBits_bitsToBV_of_length (l : List Bool) (h : l.length = 8) :
    byteBits (bitsToBV 8 l) = l := by
  match l, h with
  | [a, b, c, d, e, f, g, h], _ => exact byteBits_bitsToBV ..

theorem msgBits_chunks (n : Nat) : ∀ all : List Bool, all.length = 8 * n →
    msgBits ((List.range n).map fun i => bitsToBV 8 ((all.drop (8 * i)).take 8)) = all := by
  induction n with
  | zero => intro all h; simp at h; simp [h, msgBits]
  | succ n ih =>
    intro all h
    have ih' := ih (all.drop 8) (by simp; omega)
    rw [List.range_succ_eq_map, List.map_cons, List.map_map]
    simp only [msgBits, List.flatMap_cons] at ih' ⊢
    have e : ((fun i => bitsToBV 8 (List.take 8 (List.drop (8 * i) all))) ∘ Nat.succ)
        = fun i => bitsToBV 8 (List.take 8 (List.drop (8 * i) (List.drop 8 all))) := by
      funext i
      simp only [Function.comp, List.drop_drop]
      congr 3
      omega
    rw [e, ih', byteBits_bitsToBV_of_length _ (by simp; omega)]
    simp

theorem msgBits_errPattern (n off : Nat) (bits : List Bool) (h : off + bits.length ≤ 8 * n) :
    msgBits (errPattern n off bits) =
      List.replicate off false ++ bits ++ List.replicate (n * 8 - off - bits.length) false := by
  rw [errPattern]
  apply msgBits_chunks
  simp
  omega

theorem errPattern_length (n off : Nat) (bits : List Bool) : (errPattern n off bits).length = n := by
  simp [errPattern]

/-! ## `x` is invertible modulo `G16` -/

theorem mulX16_eq_zero (r : BitVec 16) (h : mulX16 r = 0#16) : r = 0#16 := by
  rw [mulX16] at h
  cases hm : r.msb
  · rw [hm] at h
    have h' : r <<< 1 = 0#16 := by rw [← h]; simp [pmask16]
    have h1 := BitVec.msb_eq_false_iff_two_mul_lt.mp hm
    have h2 := congrArg BitVec.toNat h'
    simp only [BitVec.toNat_shiftLeft, Nat.shiftLeft_eq, BitVec.toNat_ofNat] at h2
    apply BitVec.eq_of_toNat_eq
    simp only [BitVec.toNat_ofNat]
    omega
  · rw [hm] at h
    have h2 := congrArg (fun v => v.getLsbD 0) h
    simp [pmask16, P16] at h2

theorem mulXpow16_eq_zero (n : Nat) : ∀ r, mulXpow16 n r = 0#16 → r = 0#16 := by
  induction n with
  | zero => intro r h; exact h
  | succ n ih => intro r h; exact mulX16_eq_zero r (ih _ h)

theorem foldl_D16_zeros (n : Nat) : ∀ a, (List.replicate n false).foldl D16 a = mulXpow16 n a := by
  induction n with
  | zero => intro a; rfl
  | succ n ih => intro a; simp [List.replicate, ih, mulXpow16, D16, pmask16]

theorem mulXpow16_zero (n : Nat) : mulXpow16 n 0#16 = 0#16 := by
  induction n with
  | zero => rfl
  | succ n ih => simp [mulXpow16, ih]

/-- The checksum of an error pattern: leading zeros do nothing, trailing zeros multiply by `x`. -/
theorem crc16_errPattern (n off : Nat) (bits : List Bool) (h : off + bits.length ≤ 8 * n) :
    crc16 (errPattern n off bits) = mulXpow16 (n * 8 - off - bits.length) (bits.foldl D16 0#16) := by
  rw [crc16_eq_foldl, msgBits_errPattern n off bits h, List.foldl_append, List.foldl_append,
    foldl_D16_zeros, foldl_D16_zeros, mulXpow16_zero]

/-! ## Bursts of at most sixteen bits -/

theorem A16_small (s : BitVec 16) (b : Bool) (j : Nat) (hj : j ≤ 15) (h0 : s ≠ 0#16)
    (h : s.toNat < 2 ^ j) : A16 s b ≠ 0#16 ∧ (A16 s b).toNat < 2 ^ (j + 1) := by
  have h15 : s.toNat < 2 ^ 15 := Nat.lt_of_lt_of_le h (Nat.pow_le_pow_right (by omega) hj)
  have hm : s.msb = false := BitVec.msb_eq_false_iff_two_mul_lt.mpr (by omega)
  have e : A16 s b = (s <<< 1) ^^^ one16 b := by simp [A16, mulX16, hm, pmask16]
  have hs : (s <<< 1).toNat = 2 * s.toNat := by
    simp only [BitVec.toNat_shiftLeft, Nat.shiftLeft_eq]; omega
  rw [e]
  constructor
  · intro hz
    have hb := congrArg (fun v => v.getLsbD 0) hz
    have hb' : b = false := by cases b <;> simp [one16] at hb ⊢
    subst hb'
    have h2 : (s <<< 1).toNat = 0 := by
      have := congrArg BitVec.toNat hz
      simpa [one16] using this
    apply h0
    apply BitVec.eq_of_toNat_eq
    simp only [BitVec.toNat_ofNat]
    omega
  · rw [BitVec.toNat_xor]
    apply Nat.xor_lt_two_pow
    · rw [hs, Nat.pow_succ]; omega
    · have : 1 < 2 ^ (j + 1) := Nat.one_lt_two_pow (by omega)
      cases b <;> simp [one16] <;> omega

theorem foldl_A16_ne_zero (bits : List Bool) : ∀ (s : BitVec 16) (j : Nat), s ≠ 0#16 →
    s.toNat < 2 ^ j → j + bits.length ≤ 16 → bits.foldl A16 s ≠ 0#16 := by
  induction bits with
  | nil => intro s j h0 _ _; exact h0
  | cons b bits ih =>
    intro s j h0 h hl
    simp only [List.length_cons] at hl
    have := A16_small s b j (by omega) h0 h
    exact ih (A16 s b) (j + 1) this.1 this.2 (by omega)

theorem burst_A16_ne_zero (bits : List Bool) (hlen : bits.length ≤ 16)
    (hfirst : bits.head? = some true) : bits.foldl A16 0#16 ≠ 0#16 := by
  match bits, hfirst with
  | true :: rest, _ =>
    simp only [List.length_cons] at hlen
    rw [List.foldl_cons]
    exact foldl_A16_ne_zero rest (A16 0#16 true) 1 (by decide) (by decide) (by omega)

theorem burst_D16_ne_zero (bits : List Bool) (hlen : bits.length ≤ 16)
    (hfirst : bits.head? = some true) : bits.foldl D16 0#16 ≠ 0#16 := by
  have := foldl_D16_eq bits 0#16
  rw [mulXpow16_zero] at this
  rw [this]
  intro h
  exact burst_A16_ne_zero bits hlen hfirst (mulXpow16_eq_zero 16 _ h)

theorem crc16_burst_ne_zero (n off : Nat) (bits : List Bool) (hlen : bits.length ≤ 16)
    (hfirst : bits.head? = some true) (hfit : off + bits.length ≤ 8 * n) :
    crc16 (errPattern n off bits) ≠ 0#16 := by
  rw [crc16_errPattern n off bits hfit]
  intro h
  exact burst_D16_ne_zero bits hlen hfirst (mulXpow16_eq_zero _ _ h)

theorem xor_ne_self {w : Nat} (a e : BitVec w) (h : e ≠ 0#w) : a ^^^ e ≠ a := by
  intro h'
  apply h
  have : a ^^^ e = a ^^^ 0#w := by simpa using h'
  exact (BitVec.xor_right_inj a).mp this

theorem crc16_detects_burst16 (m : List (BitVec 8)) (hm : m.length = 512)
    (off : Nat) (bits : List Bool) (_hne : bits ≠ []) (hlen : bits.length ≤ 16)
    (hfirst : bits.head? = some true) (hfit : off + bits.length ≤ 4096) :
    crc16 (xorMsg m (errPattern 512 off bits)) ≠ crc16 m := by
  rw [crc16_xor _ _ (by rw [errPattern_length, hm])]
  exact xor_ne_self _ _ (crc16_burst_ne_zero 512 off bits hlen hfirst (by omega))

theorem crc16_frame_burst_detected (m : List (BitVec 8)) (_hm : m.length = 512)
    (off : Nat) (bits : List Bool) (_hne : bits ≠ []) (hlen : bits.length ≤ 16)
    (hfirst : bits.head? = some true) (hfit : off + bits.length ≤ 4112) :
    crc16 (xorMsg (m ++ [(crc16 m).extractLsb' 8 8, (crc16 m).extractLsb' 0 8])
      (errPattern 514 off bits)) ≠ 0#16 := by
  rw [crc16_xor _ _ (by rw [errPattern_length]; simp [_hm]), crc16_append_self, BitVec.zero_xor]
  exact crc16_burst_ne_zero 514 off bits hlen hfirst (by omega)

/-! ## Double-bit errors: `x^d ≠ 1 (mod G16)` for `0 < d < 4096` -/

/-- `noCycle n s`: none of `s, x·s, …, x^(n-1)·s` equals `P16`. -/
def noCycle : Nat → BitVec 16 → Bool
  | 0, _ => true
  | n + 1, s => (s != P16) && noCycle n (mulX16 s)

theorem noCycle_sound (n : Nat) : ∀ s, noCycle n s = true → ∀ d, d < n → mulXpow16 d s ≠ P16 := by
  induction n with
  | zero => intro s _ d hd; omega
  | succ n ih =>
    intro s h d hd
    simp only [noCycle, Bool.and_eq_true, bne_iff_ne] at h
    cases d with
    | zero => exact h.1
    | succ d => exact ih (mulX16 s) h.2 d (by omega)

theorem noCycle_4095 : noCycle 4095 (mulX16 P16) = true := by decide +kernel

theorem mulXpow16_P16_ne (d : Nat) (h0 : 0 < d) (h : d ≤ 4095) : mulXpow16 d P16 ≠ P16 := by
  cases d with
  | zero => omega
  | succ d => exact noCycle_sound 4095 _ noCycle_4095 d (by omega)

theorem foldl_D16_double (d : Nat) :
    (true :: List.replicate d false ++ [true]).foldl D16 0#16 = mulXpow16 (d + 1) P16 ^^^ P16 := by
  rw [List.cons_append, List.foldl_cons, List.foldl_append, foldl_D16_zeros, List.foldl_cons,
    List.foldl_nil]
  have : D16 0#16 true = P16 := by decide
  rw [this, D16, ← mulXpow16_mulX16]
  rfl

theorem crc16_double_ne_zero (n i j : Nat) (hij : i < j) (hj : j < 8 * n) (hd : j - i ≤ 4095) :
    crc16 (errPattern n i (true :: List.replicate (j - i - 1) false ++ [true])) ≠ 0#16 := by
  rw [crc16_errPattern n i _ (by simp; omega)]
  intro h
  have h' := mulXpow16_eq_zero _ _ h
  rw [foldl_D16_double, BitVec.xor_eq_zero_iff] at h'
  exact mulXpow16_P16_ne (j - i - 1 + 1) (by omega) (by omega) h'

theorem crc16_detects_double (m : List (BitVec 8)) (hm : m.length = 512)
    (i j : Nat) (hij : i < j) (hj : j < 4096) :
    crc16 (xorMsg m (errPattern 512 i (true :: List.replicate (j - i - 1) false ++ [true]))) ≠ crc16 m := by
  rw [crc16_xor _ _ (by rw [errPattern_length, hm])]
  exact xor_ne_self _ _ (crc16_double_ne_zero 512 i j hij (by omega) (by omega))

end Sdmmc.Lemmas.Crc
