/-
Crash points of the data plane: the block write of `write` (`Mgr.writeBlockPart`) and the body of
`flush_file` (`DirEntryIO.flushF` = `updateInfoSector` then `writeEntryToDisk`).  Each is at most two
device writes; at every prefix every FAT block and every block of every other cluster is what it
was, so every chain — and the data of every chain that does not contain the written cluster — is
intact.
-/
import Sdmmc.Lemmas.CrashBase
import Sdmmc.Lemmas.DirEntryIO

namespace Sdmmc.Lemmas.CrashData
open Sdmmc.Model Sdmmc.Model.Fat Sdmmc.Spec
open Sdmmc.Lemmas.FBasic hiding NoFault Coherent
open Sdmmc.Lemmas.FatOps hiding BlocksOK Mirror HintOK
open Sdmmc.Lemmas.ChainL Sdmmc.Lemmas.ForestBase Sdmmc.Lemmas.CrashBase

/-- A call that issues exactly one device write: the crashed medium is the one before or the one
after. -/
theorem single_write_crash {s s' : FS} {b : Nat} {p : Block} (hw : s'.dev.wlog = (b, p) :: s.dev.wlog)
    (hd : s'.dev.disk = s.dev.disk.set b p) : CrashAll (fun d => d = s.dev.disk ∨ d = s'.dev.disk) s s' := by
  refine ⟨[(b, p)], ⟨hw, hd⟩, fun k => ?_⟩
  cases k with
  | zero => exact .inl rfl
  | succ k =>
    rw [List.take_succ_cons, List.take_nil]
    exact .inr hd.symm

/-- The frame of a medium on which only the blocks `touched` may differ: every chain whose FAT blocks
are untouched is intact, and so are the bytes of every chain whose clusters' blocks are untouched. -/
theorem chain_of_blocks_same {v : FatVolume} {d d' : Disk} {c : Nat} {X : List Nat} (h : Chain v d c X)
    (hfat : ∀ x, x ∈ X → d'.get (fatBlock v x) = d.get (fatBlock v x)) : Chain v d' c X :=
  chain_congr_raw h fun x hx => by unfold fatRaw; rw [hfat x hx]

/-! ### The block write of `write` -/

/-- `writeBlockPart`: it succeeds, issues one device write, and at every crash point every block
other than `blockIdx` is what it was. -/
theorem writeBlockPart_crash (blockIdx off : Nat) (data : Bytes) (whole : Bool) (s : FS) (hn : NoFault s) (hc : Coherent s) :
    ∃ s', Sdmmc.Model.writeBlockPart blockIdx off data whole s = (.ok (), s') ∧ (newWrites s s').length = 1 ∧
      CrashAll (fun d => ∀ i, i ≠ blockIdx → d.get i = s.dev.disk.get i) s s' := by
  obtain ⟨s', h, hw, hd, _, _, _⟩ := Files.write_block_part_frame blockIdx off data whole s hn hc
  refine ⟨s', h, ?_, (single_write_crash hw hd).mono fun d hd' i hi => ?_⟩
  · rw [newWrites_append s s' [_] hw]; rfl
  · rcases hd' with rfl | rfl
    · rfl
    · rw [hd, Disk.get_set_ne _ _ _ _ (fun e => hi e.symm)]

/-- A data write into block `jA` of cluster `cA`: at every crash point all FAT blocks are unchanged,
every chain is still the chain it was, and the bytes of every chain not containing `cA` are
unchanged. -/
theorem writeBlockPart_crash_chains (v : FatVolume) (hg : WFGeom v) (cA jA off : Nat) (data : Bytes) (whole : Bool)
    (s : FS) (hn : NoFault s) (hc : Coherent s) (hA2 : 2 ≤ cA) (hAE : cA < endCluster v) (hjA : jA < v.blocksPerCluster) :
    ∃ s', Sdmmc.Model.writeBlockPart (clusterToBlock v cA + jA) off data whole s = (.ok (), s') ∧
      CrashAll (fun d =>
        (∀ i, regionOf v i = .fat → d.get i = s.dev.disk.get i) ∧
        (∀ c X, Chain v s.dev.disk c X → Chain v d c X) ∧
        (∀ c X, Chain v s.dev.disk c X → cA ∉ X → chainBytes v d X = chainBytes v s.dev.disk X)) s s' := by
  obtain ⟨s', h, _, hcr⟩ := writeBlockPart_crash (clusterToBlock v cA + jA) off data whole s hn hc
  refine ⟨s', h, hcr.mono fun d hd => ?_⟩
  have hreg := FatLens.cluster_blocks_in_data_region v hg cA jA hA2 hAE hjA
  have hfat : ∀ i, regionOf v i = .fat → d.get i = s.dev.disk.get i := fun i hi =>
    hd i fun e => by rw [e, hreg] at hi; cases hi
  refine ⟨hfat, fun c X hch => chain_of_blocks_same hch fun x hx =>
      hfat _ (FatLens.fat_blocks_in_fat_region v hg x (chain_inRange hch x hx).2).1,
    fun c X hch hnot => chainBytes_congr v s.dev.disk d X fun x hx j hj => hd _ fun e => ?_⟩
  have hr := chain_inRange hch x hx
  exact hnot ((FatLens.cluster_blocks_disjoint_of_lt v hg x cA j jA hr.1 hA2 hr.2 hAE hj hjA e).1 ▸ hx)

/-! ### One directory-slot write -/

/-- `write_entry_to_disk(e)`: it succeeds, issues one device write — the directory block of the slot —
and at every crash point every other block, and every byte of that block outside the 32 bytes of the
slot, is what it was. -/
theorem writeEntry_crash (s : FS) (e : DirEntry) (hn : NoFault s) (hc : Coherent s) (hb : BlocksOK s.dev.disk)
    (ho : e.entryOffset + 32 ≤ 512) (hname : e.name.length = 11) :
    ∃ s', writeEntryToDisk e s = (.ok (), s') ∧ (newWrites s s').length = 1 ∧
      CrashAll (fun d =>
        (∀ i, i ≠ e.entryBlock → d.get i = s.dev.disk.get i) ∧
        (∀ k, k < e.entryOffset ∨ e.entryOffset + 32 ≤ k →
          (d.get e.entryBlock).getD k 0 = (s.dev.disk.get e.entryBlock).getD k 0)) s s' := by
  obtain ⟨s', h, _, _, _, _, ⟨p, hw, hd⟩, hob, hout, _⟩ := DirEntryIO.writeEntry_frame s e hn hc hb ho hname
  refine ⟨s', h, ?_, (single_write_crash hw hd).mono fun d hd' => ?_⟩
  · rw [newWrites_append s s' [_] hw]; rfl
  · rcases hd' with rfl | rfl
    · exact ⟨fun _ _ => rfl, fun _ _ => rfl⟩
    · exact ⟨hob, hout⟩

/-! ### `flush_file` -/

/-- The body of `flush_file` (info sector, then the directory slot): it succeeds, and at every crash
point every block other than the entry's directory block and (FAT32) the info sector is what it was;
inside the directory block every byte outside the 32 bytes of the slot is what it was; inside the
info sector every byte outside bytes 488 … 495 is. -/
theorem flushF_crash (s : FS) (e : DirEntry) (hn : NoFault s) (hc : Coherent s) (hb : BlocksOK s.dev.disk)
    (ho : e.entryOffset + 32 ≤ 512) (hname : e.name.length = 11) :
    ∃ s', DirEntryIO.flushF e s = (.ok (), s') ∧ (newWrites s s').length ≤ 2 ∧
      CrashAll (fun d =>
        (∀ i, i ≠ e.entryBlock → (s.vol.fatType = .fat32 → i ≠ s.vol.infoLocation) → d.get i = s.dev.disk.get i) ∧
        (e.entryBlock ≠ s.vol.infoLocation → ∀ k, k < e.entryOffset ∨ e.entryOffset + 32 ≤ k →
          (d.get e.entryBlock).getD k 0 = (s.dev.disk.get e.entryBlock).getD k 0) ∧
        (e.entryBlock ≠ s.vol.infoLocation → ∀ k, k < 488 ∨ 496 ≤ k →
          (d.get s.vol.infoLocation).getD k 0 = (s.dev.disk.get s.vol.infoLocation).getD k 0)) s s' := by
  obtain ⟨s1, h1, hn1, hc1, hv1, hb1, hoth, hinfo, hcase⟩ := DirEntryIO.updateInfoSector_state s hn hc hb
  obtain ⟨s', h2, _, _, _, _, ⟨p, hw2, hd2⟩, hob, hout, _⟩ := DirEntryIO.writeEntry_frame s1 e hn1 hc1 hb1 ho hname
  have hrun : DirEntryIO.flushF e s = (.ok (), s') := by
    unfold DirEntryIO.flushF
    rw [bind_ok h1, h2]
  -- the three media
  have P0 : ∀ d, d = s.dev.disk →
      (∀ i, i ≠ e.entryBlock → (s.vol.fatType = .fat32 → i ≠ s.vol.infoLocation) → d.get i = s.dev.disk.get i) ∧
      (e.entryBlock ≠ s.vol.infoLocation → ∀ k, k < e.entryOffset ∨ e.entryOffset + 32 ≤ k →
        (d.get e.entryBlock).getD k 0 = (s.dev.disk.get e.entryBlock).getD k 0) ∧
      (e.entryBlock ≠ s.vol.infoLocation → ∀ k, k < 488 ∨ 496 ≤ k →
        (d.get s.vol.infoLocation).getD k 0 = (s.dev.disk.get s.vol.infoLocation).getD k 0) := fun d hd => by
    subst hd; exact ⟨fun _ _ _ => rfl, fun _ _ _ => rfl, fun _ _ _ => rfl⟩
  have hs1 : ∀ i, (s.vol.fatType = .fat32 → i ≠ s.vol.infoLocation) → s1.dev.disk.get i = s.dev.disk.get i := fun i hi => by
    rcases hcase with ⟨_, hd⟩ | ⟨hft, _⟩
    · rw [hd]
    · exact hoth i (hi hft)
  have P1 : ∀ d, d = s1.dev.disk →
      (∀ i, i ≠ e.entryBlock → (s.vol.fatType = .fat32 → i ≠ s.vol.infoLocation) → d.get i = s.dev.disk.get i) ∧
      (e.entryBlock ≠ s.vol.infoLocation → ∀ k, k < e.entryOffset ∨ e.entryOffset + 32 ≤ k →
        (d.get e.entryBlock).getD k 0 = (s.dev.disk.get e.entryBlock).getD k 0) ∧
      (e.entryBlock ≠ s.vol.infoLocation → ∀ k, k < 488 ∨ 496 ≤ k →
        (d.get s.vol.infoLocation).getD k 0 = (s.dev.disk.get s.vol.infoLocation).getD k 0) := fun d hd => by
    subst hd
    exact ⟨fun i _ hi => hs1 i hi, fun hne k _ => by rw [hoth _ hne], fun _ k hk => hinfo k hk⟩
  have P2 : ∀ d, d = s'.dev.disk →
      (∀ i, i ≠ e.entryBlock → (s.vol.fatType = .fat32 → i ≠ s.vol.infoLocation) → d.get i = s.dev.disk.get i) ∧
      (e.entryBlock ≠ s.vol.infoLocation → ∀ k, k < e.entryOffset ∨ e.entryOffset + 32 ≤ k →
        (d.get e.entryBlock).getD k 0 = (s.dev.disk.get e.entryBlock).getD k 0) ∧
      (e.entryBlock ≠ s.vol.infoLocation → ∀ k, k < 488 ∨ 496 ≤ k →
        (d.get s.vol.infoLocation).getD k 0 = (s.dev.disk.get s.vol.infoLocation).getD k 0) := fun d hd => by
    subst hd
    refine ⟨fun i hie hi => by rw [hob i hie]; exact hs1 i hi, fun hne k hk => by rw [hout k hk, hoth _ hne],
      fun hne k hk => by rw [hob _ (fun e' => hne e'.symm)]; exact hinfo k hk⟩
  have c12 := (single_write_crash hw2 hd2).mono fun d hd => hd.elim (P1 d) (P2 d)
  rcases hcase with ⟨hw, hd⟩ | ⟨_, hw⟩
  · refine ⟨s', hrun, ?_, (CrashAll.same hw hd (P0 _ rfl)).trans c12⟩
    rw [newWrites_append s s' [(e.entryBlock, p)] (by rw [hw2, hw]; rfl)]
    exact Nat.le_succ 1
  · have hd1 : s1.dev.disk = s.dev.disk.set s.vol.infoLocation (infoPatch s.vol (s.dev.disk.get s.vol.infoLocation)) := by
      by_cases hidle : s.vol.fatType = .fat16 ∨ (s.vol.freeClustersCount = none ∧ s.vol.nextFreeCluster = none)
      · have := updateInfoSector_idle s hidle
        rw [h1] at this
        have e1 : s1 = s := congrArg Prod.snd this
        rw [e1] at hw
        exact absurd (congrArg List.length hw) (by simp)
      · have hft : s.vol.fatType = .fat32 := by
          cases hf : s.vol.fatType with
          | fat16 => exact absurd (.inl hf) hidle
          | fat32 => rfl
        obtain ⟨s1', h1', _, _, _, hd1', _⟩ := DirEntryIO.updateInfoSector_state32 s hn hc hft (fun h' => hidle (.inr h'))
        rw [h1] at h1'
        have e1 : s1 = s1' := congrArg Prod.snd h1'
        rw [e1]; exact hd1'
    refine ⟨s', hrun, ?_, ((single_write_crash hw hd1).mono fun d hd => hd.elim (P0 d) (P1 d)).trans c12⟩
    rw [newWrites_append s s' [(e.entryBlock, p), _] (by rw [hw2, hw]; rfl)]
    exact Nat.le_refl 2

/-- Flushing a file whose directory slot lies in the fixed root directory or in a cluster `dc`:
at every crash point all FAT blocks are unchanged, every chain is the chain it was, and the bytes of
every chain not containing the directory's cluster are unchanged. -/
theorem flushF_crash_chains (s : FS) (e : DirEntry) (hn : NoFault s) (hc : Coherent s) (hb : BlocksOK s.dev.disk)
    (ho : e.entryOffset + 32 ≤ 512) (hname : e.name.length = 11) (hg : WFGeom s.vol)
    (hI : s.vol.fatType = .fat32 → regionOf s.vol s.vol.infoLocation = .info)
    (dc : Option Nat)
    (hE : match dc with
      | none => regionOf s.vol e.entryBlock = .root
      | some c => InRange s.vol c ∧ ∃ j, j < s.vol.blocksPerCluster ∧ e.entryBlock = clusterToBlock s.vol c + j) :
    ∃ s', DirEntryIO.flushF e s = (.ok (), s') ∧
      CrashAll (fun d =>
        (∀ i, regionOf s.vol i = .fat → d.get i = s.dev.disk.get i) ∧
        (∀ c X, Chain s.vol s.dev.disk c X → Chain s.vol d c X) ∧
        (∀ c X, Chain s.vol s.dev.disk c X → (∀ x, dc = some x → x ∉ X) →
          chainBytes s.vol d X = chainBytes s.vol s.dev.disk X)) s s' := by
  obtain ⟨s', h, _, hcr⟩ := flushF_crash s e hn hc hb ho hname
  refine ⟨s', h, hcr.mono fun d hd => ?_⟩
  obtain ⟨hd1, _, _⟩ := hd
  have hEreg : regionOf s.vol e.entryBlock = .root ∨ regionOf s.vol e.entryBlock = .data := by
    cases dc with
    | none => exact .inl hE
    | some c =>
      obtain ⟨hr, j, hj, he⟩ := hE
      exact .inr (by rw [he]; exact FatLens.cluster_blocks_in_data_region s.vol hg c j hr.1 hr.2 hj)
  have hfat : ∀ i, regionOf s.vol i = .fat → d.get i = s.dev.disk.get i := fun i hi =>
    hd1 i (fun e' => by rw [e'] at hi; rcases hEreg with h' | h' <;> rw [h'] at hi <;> cases hi)
      (fun hft e' => by rw [e', hI hft] at hi; cases hi)
  refine ⟨hfat, fun c X hch => chain_of_blocks_same hch fun x hx =>
      hfat _ (FatLens.fat_blocks_in_fat_region s.vol hg x (chain_inRange hch x hx).2).1,
    fun c X hch hnot => chainBytes_congr s.vol s.dev.disk d X fun x hx j hj => ?_⟩
  have hr := chain_inRange hch x hx
  have hreg := FatLens.cluster_blocks_in_data_region s.vol hg x j hr.1 hr.2 hj
  refine hd1 _ (fun e' => ?_) (fun hft e' => by rw [e', hI hft] at hreg; cases hreg)
  cases dc with
  | none => rw [e', hE] at hreg; cases hreg
  | some c =>
    obtain ⟨hrc, j', hj', he⟩ := hE
    rw [he] at e'
    exact hnot c rfl ((FatLens.cluster_blocks_disjoint_of_lt s.vol hg x c j j' hr.1 hrc.1 hr.2 hrc.2 hj hj' e').1 ▸ hx)

end Sdmmc.Lemmas.CrashData
