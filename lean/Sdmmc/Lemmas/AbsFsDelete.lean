/-
Refinement of the API to the abstract file system, part 13: `delete_file_in_dir`.
-/
import Sdmmc.Lemmas.AbsFsOpen
import Sdmmc.Lemmas.ForestTrunc

namespace Sdmmc.Lemmas.AbsFs
open Sdmmc.Model Sdmmc.Model.Fat Sdmmc.Spec.Volume Sdmmc.Lemmas.VolBase Sdmmc.Lemmas.VolTree
open Sdmmc.Spec hiding NoFault Coherent
open Sdmmc.Spec.AbsFs (Meta view storedMeta fatRound OpenFile OpenDir absStep)
open Sdmmc.Lemmas.VolDisk Sdmmc.Lemmas.VolMed Sdmmc.Lemmas.VolApi Sdmmc.Lemmas.VolEng
open Sdmmc.Lemmas.FBasic (NoFault Coherent)
open Sdmmc.Lemmas.MHoare

section
variable {files : List FileInfo} {gh : Ghost}

/-- **A file entry is deleted and its chain given back**, with what the abstraction needs. -/
theorem delete_med_x {fs : FS} (hM : MedX fs.vol fs.dev.disk files gh []) (hn : NoFault fs) (hc : Coherent fs) {dc : Nat}
    (hv : ValidDir gh.dirs dc) (name : Bytes) (hname : name.head? ≠ some 0xE5) {o : Slot}
    (ho : o ∈ objects (dirIdOf dc) (dirSlots fs.vol fs.dev.disk gh.G (dirIdOf dc)))
    (hod : isDirE o = false) (hsn : sName o = name) (hfree : pendOf files o = none)
    {pre post : List Slot} (hsp : dirSlots fs.vol fs.dev.disk gh.G (dirIdOf dc) = pre ++ o :: post) :
    ∃ fs' G', (do Fat.deleteDirectoryEntry dc name; Fat.freeClusterChain (sCluster fs.vol.fatType o) : F Unit) fs = (.ok (), fs') ∧
      NoFault fs' ∧ Coherent fs' ∧ SameGeom fs.vol fs'.vol ∧
      MedX fs'.vol fs'.dev.disk files { vol := fs'.vol, G := G', dirs := gh.dirs } [] ∧
      dirSlots fs'.vol fs'.dev.disk G' (dirIdOf dc) = pre ++ (o.1, o.2.1, o.2.2.set 0 (UInt8.ofNat 0xE5)) :: post ∧
      (∀ x, x ∈ dirIds gh.dirs → x ≠ dirIdOf dc → dirSlots fs'.vol fs'.dev.disk G' x = dirSlots fs.vol fs.dev.disk gh.G x) ∧
      (∀ x, x ≠ sCluster fs.vol.fatType o → chainOf G' x = chainOf gh.G x) ∧
      (∀ i, regionOf fs.vol i ≠ .fat → i ≠ o.1 → fs'.dev.disk.get i = fs.dev.disk.get i) := by
  obtain ⟨hh, _⟩ := validDir_id hM hv
  obtain ⟨fs1, hrun1, hd1, hv1, hn1, hc1⟩ := delete_mark hM hn hc hv name hname (VolEng.mem_entries_of_objects ho) hsn
  obtain ⟨_, _, hsl1, hoth1⟩ := slot_mark hM hh hsp (UInt8.ofNat 0xE5)
  rw [← hd1] at hsl1 hoth1
  have hframe1 : ∀ i, i ≠ o.1 → fs1.dev.disk.get i = fs.dev.disk.get i := by
    intro i hi
    rw [hd1, FBasic.Disk.get_set_ne _ _ _ _ (fun e => hi e.symm)]
  rcases mark_med hM hh ho hod hfree with ⟨hc0, hM1⟩ | ⟨A, B, tail, hGeq, hM1⟩
  · have hrun2 : freeClusterChain (sCluster fs.vol.fatType o) fs1 = (.ok (), fs1) := by
      rw [hc0]; rfl
    refine ⟨fs1, gh.G, ?_, hn1, hc1, SameGeom.of_eq hv1, ?_, ?_, ?_, fun _ _ => rfl, fun i _ hi => hframe1 i hi⟩
    · rw [FBasic.bind_ok hrun1, hrun2]
    · rw [hv1, hd1]
      exact medX_of_ghost hM1 rfl rfl
    · rw [hv1]; exact hsl1
    · intro x hx hne; rw [hv1]; exact hoth1 x hx hne
  · rw [← hd1, ← hv1] at hM1
    obtain ⟨fs2, hrun2, hn2, hc2, hsg2, hM2⟩ := free_unreferenced hM1 hn1 hc1
    have hch : Chain fs1.vol fs1.dev.disk (sCluster fs1.vol.fatType o) (sCluster fs1.vol.fatType o :: tail) :=
      hM1.owns.1 _ (List.mem_append_right _ (List.mem_singleton.2 rfl))
    obtain ⟨fs2', hrun2', _, _, _, _, _, hfr⟩ := ForestTrunc.free_spec fs1 _ tail hn1 hc1 hM1.blocksOK hM1.geom hch
    have e22 : fs2' = fs2 := by rw [hrun2] at hrun2'; exact (congrArg Prod.snd hrun2').symm
    subst e22
    have hG := med_heads hM
    have hGs : HeadsOK (A ++ (sCluster fs.vol.fatType o :: tail) :: B) := by rw [← hGeq]; exact hG
    have hchains : ∀ x, x ≠ sCluster fs.vol.fatType o → chainOf (A ++ B) x = chainOf gh.G x := by
      intro x hx
      rw [hGeq]
      exact chainOf_erase_other hGs (by simpa using hx)
    obtain ⟨hdirne, _⟩ := closed_object_apart hM hh ho hod hfree
    have hnf2 : ∀ i, regionOf fs.vol i ≠ .fat → fs2'.dev.disk.get i = fs1.dev.disk.get i := by
      intro i hi
      exact hfr.nonFat i (by rw [hv1]; exact hi)
    have hsg12 : SameGeom fs.vol fs2'.vol := (SameGeom.of_eq hv1).trans hsg2
    -- the slot lists after the chain was freed
    have hslots2 : ∀ x, x ∈ dirIds gh.dirs → dirSlots fs2'.vol fs2'.dev.disk (A ++ B) x = dirSlots fs.vol fs1.dev.disk gh.G x := by
      intro x hx
      rw [dirSlots_sameGeom hsg12]
      have hM1' : MedX fs.vol fs1.dev.disk files { vol := gh.vol, G := A ++ B, dirs := gh.dirs } [sCluster fs.vol.fatType o :: tail] := by
        rw [hv1] at hM1; exact hM1
      have h1 : dirSlots fs.vol fs2'.dev.disk (A ++ B) x = dirSlots fs.vol fs2'.dev.disk gh.G x := by
        by_cases hfx : isFixedRoot fs.vol x
        · rw [dirSlots_fixed hfx, dirSlots_fixed hfx]
        · rw [dirSlots_chain hfx, dirSlots_chain hfx, hchains _ (hdirne x hx hfx)]
      rw [h1]
      apply dirSlots_congr
      intro t ht
      apply hnf2
      -- directory blocks are not FAT blocks (on the marked medium the slot lists have the same positions)
      have hpos : ∃ t0, t0 ∈ dirSlots fs.vol fs.dev.disk gh.G x ∧ t0.1 = t.1 := by
        by_cases hxh : x = dirIdOf dc
        · subst hxh
          rw [hsl1] at ht
          rw [hsp]
          rcases List.mem_append.1 ht with h' | h'
          · exact ⟨t, List.mem_append_left _ h', rfl⟩
          · rcases List.mem_cons.1 h' with h'' | h''
            · exact ⟨o, by simp, by rw [h'']⟩
            · exact ⟨t, List.mem_append_right _ (List.mem_cons_of_mem _ h''), rfl⟩
        · rw [hoth1 x hx hxh] at ht
          exact ⟨t, ht, rfl⟩
      obtain ⟨t0, ht0, he0⟩ := hpos
      rw [← he0]
      rcases dirSlot_not_fat hM hx ht0 with r | r <;> rw [r] <;> intro e' <;> cases e'
    refine ⟨fs2', A ++ B, ?_, hn2, hc2, hsg12, hM2, ?_, ?_, hchains, ?_⟩
    · rw [FBasic.bind_ok hrun1, ← hv1, hrun2]
    · rw [hslots2 _ hh]; exact hsl1
    · intro x hx hne
      rw [hslots2 x hx]; exact hoth1 x hx hne
    · intro i hi hne
      rw [hnf2 i hi]; exact hframe1 i hne

end

/-! ### The abstract call, case by case -/

section
variable {a : AState} {d : Nat} {name : List Nat} {od : OpenDir} {sfn : Bytes}

theorem deleteS_bad {e : Err} (h : Spec.AbsFs.dirCtx a d name = .error e) : Spec.AbsFs.deleteS a d name a (.err e) := by
  unfold Spec.AbsFs.deleteS
  rw [h]
  exact ⟨rfl, rfl⟩

theorem deleteS_notFound (hctx : Spec.AbsFs.dirCtx a d name = .ok (od, sfn)) (hlk : Spec.AbsFs.lookup (a.slots od.dir) sfn = none) :
    Spec.AbsFs.deleteS a d name a (.err .NotFound) := by
  unfold Spec.AbsFs.deleteS
  rw [hctx]
  dsimp only
  rw [hlk]
  exact ⟨rfl, rfl⟩

theorem deleteS_dir {i : Nat} {m : Meta} {t : Nat} (hctx : Spec.AbsFs.dirCtx a d name = .ok (od, sfn))
    (hlk : Spec.AbsFs.lookup (a.slots od.dir) sfn = some i) (hsl : (a.slots od.dir)[i]? = some (.dir m t)) :
    Spec.AbsFs.deleteS a d name a (.err .DeleteDirAsFile) := by
  unfold Spec.AbsFs.deleteS
  rw [hctx]
  dsimp only
  rw [hlk]
  dsimp only
  rw [hsl]
  exact ⟨rfl, rfl⟩

theorem deleteS_file {a' : AState} {r : Res Payload} {i : Nat} {m : Meta} {bytes : Bytes}
    (hctx : Spec.AbsFs.dirCtx a d name = .ok (od, sfn))
    (hlk : Spec.AbsFs.lookup (a.slots od.dir) sfn = some i) (hsl : (a.slots od.dir)[i]? = some (.file m bytes))
    (h : if Spec.AbsFs.isOpenAt a od.volume od.dir i then a' = a ∧ r = .err .FileAlreadyOpen
      else a' = Spec.AbsFs.setSlot a od.dir i .deleted ∧ r = .ok .unit) :
    Spec.AbsFs.deleteS a d name a' r := by
  unfold Spec.AbsFs.deleteS
  rw [hctx]
  dsimp only
  rw [hlk]
  dsimp only
  rw [hsl]
  exact h

end

/-! ### `delete_file_in_dir` -/

theorem refines_delete (d : Nat) (name : List Nat) {s : Mgr} {gh : Ghost} {a : AState} (hI : VolInv s gh) (hA : Abs s gh a)
    (hname : ∀ sfn, Sfn.createFromStr name = .ok sfn → sfn.head? ≠ some 0xE5) : Refines (.delete d name) s gh a := by
  have hl : a.locked = false := hA.locked.trans hI.unlocked
  unfold Refines
  rw [show runOp (.delete d name) s = (deleteFileInDir d name >>= fun _ => pure Payload.unit) s from rfl, run_seq]
  have hgoal : ∀ (a' : AState) (r : Res Payload), absStep a (.delete d name) (a', r) ↔ Spec.AbsFs.deleteS a d name a' r := by
    intro a' r
    unfold absStep
    rw [if_neg (by rw [hl]; exact Bool.false_ne_true)]
  unfold deleteFileInDir
  cases hidx : s.dirs.findIdx? (·.rawDirectory = d) with
  | none =>
    rw [bind_err (getDirById_bad hidx)]
    exact ⟨gh, a, hI, SameGeom.refl _, hA, (hgoal a _).2 (deleteS_bad (dirCtx_bad (dirOf_none hA hidx)))⟩
  | some i =>
    obtain ⟨di, hdi, hdim, hdo⟩ := dirOf_some hA hidx
    rw [bind_ok (getDirById_ok hidx), bind_ok (getDir_ok hdi)]
    cases hva : (s.vols.any fun x => decide (x.rawVolume = di.rawVolume)) with
    | false =>
      rw [bind_err (getVolumeById_bad (volume_missing hva))]
      rw [hva] at hdo
      exact ⟨gh, a, hI, SameGeom.refl _, hA, (hgoal a _).2 (deleteS_bad (dirCtx_bad hdo))⟩
    | true =>
      obtain ⟨vi, hvs, hvol, hraw, hvfind⟩ := volume_found hI hva
      rw [bind_ok (getVolumeById_ok hvfind)]
      rw [hva] at hdo
      have hdo' : Spec.AbsFs.dirOf a d = .ok (absDir di) := hdo
      cases hs : Sfn.createFromStr name with
      | error e =>
        rw [bind_err (Modes.toSfn_err hs s)]
        exact ⟨gh, a, hI, SameGeom.refl _, hA, (hgoal a _).2 (deleteS_bad (dirCtx_name hdo' hs))⟩
      | ok sfn =>
        rw [bind_ok (Modes.toSfn_ok hs s)]
        have hctx := dirCtx_ok hdo' hs
        have hdv := hI.openDirs di hdim
        have hM := medX_of_med hI.med
        obtain ⟨hid, _⟩ := validDir_id hM hdv
        obtain ⟨r, fs', hlk, hdisk, hvol', h1, hcase⟩ := lookup_found hI hvs hvol hdv sfn (hname sfn hs)
        have hA1 : Abs (afterVol s vi fs') gh a := abs_afterVol hA hvs fs' hdisk
        have hvs1 : (afterVol s vi fs').vols = [{ vi with vol := fs'.vol }] := rfl
        have hraw1 : ({ vi with vol := fs'.vol } : VolInfo).rawVolume = di.rawVolume := hraw
        have hsl : a.slots (dirIdOf di.cluster) = absSlots (afterVol s vi fs') gh (dirIdOf di.cluster) := hA1.slots _ hid
        set s1 := afterVol s vi fs' with hs1
        rcases hcase with ⟨hr, hfresh⟩ | ⟨e, o, hr, hF⟩
        · subst hr
          rw [bind_err hlk]
          have hlkA : Spec.AbsFs.lookup (a.slots (absDir di).dir) sfn = none := by
            show Spec.AbsFs.lookup (a.slots (dirIdOf di.cluster)) sfn = none
            rw [hsl, absSlots_eq]
            exact fresh_lookup (s := s1) (by rw [show s1.dev.disk = s.dev.disk from hdisk]; exact hfresh) _
          exact ⟨gh, a, h1, SameGeom.refl _, hA1, (hgoal a _).2 (deleteS_notFound hctx hlkA)⟩
        · subst hr
          rw [bind_ok hlk]
          obtain ⟨j, hlkj, hoj, hkeep⟩ := found_index h1 hdv hF (contOf s1 gh)
          have hlkA : Spec.AbsFs.lookup (a.slots (absDir di).dir) sfn = some j := by
            show Spec.AbsFs.lookup (a.slots (dirIdOf di.cluster)) sfn = some j
            rw [hsl, absSlots_eq]; exact hlkj
          have hslotA : (a.slots (absDir di).dir)[j]? = some (absSlot gh.vol.fatType (contOf s1 gh) o) := by
            show (a.slots (dirIdOf di.cluster))[j]? = _
            rw [hsl, absSlots_eq, List.getElem?_map, hoj]; rfl
          obtain ⟨hen, hea, hes, heb, heo, hnd⟩ := hF.fields
          by_cases hde : isDirE o = true
          · have hisd : Attr.isDirectory e.attributes = true := by rw [hea]; exact hde
            rw [if_pos hisd]
            rw [absSlot_dir hkeep hde] at hslotA
            exact ⟨gh, a, h1, SameGeom.refl _, hA1, (hgoal a _).2 (deleteS_dir hctx hlkA hslotA)⟩
          · have hde' : isDirE o = false := by simpa using hde
            have hdir' : Attr.isDirectory e.attributes = false := by rw [hea]; exact hde'
            rw [if_neg (by rw [hdir']; exact Bool.false_ne_true), get_bind]
            rw [absSlot_file hkeep hde'] at hslotA
            have hopenA : Spec.AbsFs.isOpenAt a (absDir di).volume (absDir di).dir j = fileIsOpen s1 di.rawVolume e :=
              isOpenAt_abs h1 hA1 hid hoj di.rawVolume e heb heo
            by_cases hopen : fileIsOpen s1 di.rawVolume e = true
            · rw [if_pos hopen]
              refine ⟨gh, a, h1, SameGeom.refl _, hA1, (hgoal a _).2 (deleteS_file hctx hlkA hslotA ?_)⟩
              rw [if_pos (by rw [hopenA]; exact hopen)]; exact ⟨rfl, rfl⟩
            · have hopen' : fileIsOpen s1 di.rawVolume e = false := by simpa using hopen
              rw [if_neg hopen]
              obtain ⟨hobj, _, hfree⟩ := hF.object h1 hvs1 hdv hraw1 hdir' hopen'
              obtain ⟨_, hcl⟩ := hnd hdir'
              have hv1 : s1.vols.findIdx? (·.rawVolume = di.rawVolume) = some 0 := by rw [hvs1]; simp [hraw]
              rw [bind_ok (getVolumeById_ok hv1), withVol_one _ hvs1 hvol']
              obtain ⟨hn1, hc1, hM1⟩ := volInv_fs h1
              obtain ⟨pre, post, hsp, hplen, hpre, hnz⟩ := view_index_split hoj
              obtain ⟨fs2, G', hrun2, hn2, hc2, hsg2, hM2, hsl_h, hsl_o, hchains, hframe⟩ :=
                delete_med_x hM1 hn1 hc1 hdv sfn (hname sfn hs) hobj hde' hF.name hfree hsp
              have hrun2' : (deleteDirectoryEntry di.cluster sfn >>= fun _ => freeClusterChain (sCluster gh.vol.fatType o)) (fsOf s1 gh) =
                  (.ok (), fs2) := hrun2
              rw [hcl, hrun2']
              set gh' : Ghost := { vol := fs2.vol, G := G', dirs := gh.dirs } with hgh'
              have hI2 : VolInv (afterVol s1 { vi with vol := fs'.vol } fs2) gh' :=
                volInv_afterVol h1 hvs1 hn2 hc2 rfl hM2 (fun c hc' => hc')
              set h := dirIdOf di.cluster with hhdef
              set marked : Slot := (o.1, o.2.1, o.2.2.set 0 (UInt8.ofNat 0xE5)) with hmk
              set s2 := afterVol s1 { vi with vol := fs'.vol } fs2 with hs2
              have hol : o.2.2.length = 32 := mem_dirSlots_length hM1.blocksOK (mem_of_mem_objects hobj)
              have hfirstm : first marked = 0xE5 := by
                rw [hmk, first_set o _ (by rw [hol]; decide)]; rfl
              obtain ⟨hview, _, _⟩ := view_split (ss' := dirSlots fs2.vol fs2.dev.disk G' h) hsp hsl_h hpre
                (by rw [hfirstm]; decide) (.inl hnz)
              rw [hplen] at hview
              have hview' : DirView s2 gh' h = putL (DirView s1 gh h) j marked := hview
              have hother' : ∀ x, x ∈ dirIds gh.dirs → x ≠ h → DirView s2 gh' x = DirView s1 gh x := by
                intro x hx hne
                unfold DirView
                exact congrArg beforeEnd (hsl_o x hx hne)
              have hft : fs2.vol.fatType = gh.vol.fatType := hsg2.fatType
              have hG := med_heads hM1
              obtain ⟨OA, OB, hOAB⟩ := List.append_of_mem hobj
              have hO : objects h (dirSlots gh.vol s1.dev.disk gh.G h) = OA ++ [o] ++ OB := by rw [hOAB]; simp
              have hmemo : o ∈ dirSlots gh.vol s1.dev.disk gh.G h := mem_of_mem_objects hobj
              have hcont : ∀ x, x ∈ dirIds gh.dirs → ∀ k o', (DirView s1 gh x)[k]? = some o' → (x = h → k ≠ j) →
                  absSlot gh'.vol.fatType (contOf s2 gh') o' = absSlot gh.vol.fatType (contOf s1 gh) o' := by
                intro x hx k o' ho' hne
                rw [show gh'.vol.fatType = gh.vol.fatType from hft]
                apply absSlot_cont_congr
                intro hk' hd'
                have hobj' := view_object hM1 hx (List.mem_of_getElem? ho') hk' hd'
                have hoo' : o' ≠ o := by
                  intro e'
                  subst e'
                  have hxh : x = h := (slot_unique hM1 hx hid (mem_of_beforeEnd_getElem? ho') hmemo rfl).1
                  subst hxh
                  exact hne rfl (view_index_unique hM1 hx ho' hoj)
                unfold contOf contentOf
                show fileContent fs2.vol fs2.dev.disk (chainOf G' (effCluster fs2.vol.fatType s1.files o')) (effSize s1.files o') = _
                rw [hft, WriteRefines.sameGeom_fileContent hsg2]
                by_cases hc0 : effCluster gh.vol.fatType s1.files o' = 0
                · rw [hc0, chainOf_lt_two (h := 0) (med_heads hM2) (by decide), chainOf_lt_two (h := 0) hG (by decide),
                    fileContent_nil, fileContent_nil]
                · have hne2 : effCluster gh.vol.fatType s1.files o' ≠ sCluster gh.vol.fatType o := by
                    have := eff_ne_of_split hM1.tree hG hid hO hde' x hx o' hobj' ?_ hd' hc0
                    · rw [effCluster_of_none hfree] at this; exact this
                    · intro exh
                      subst exh
                      have hm : o' ∈ OA ++ [o] ++ OB := by rw [← hO]; exact hobj'
                      simp only [List.mem_append, List.mem_singleton] at hm ⊢
                      rcases hm with (h1' | h1') | h1'
                      · exact .inl h1'
                      · exact absurd h1' hoo'
                      · exact .inr h1'
                  rw [hchains _ hne2]
                  apply fileContent_congr'
                  intro c hcm q hq
                  have hhead := fileRef_mem_heads hM1.tree hx hobj' hd' hc0
                  obtain ⟨hmemG, _⟩ := chainOf_spec hG hhead
                  have hcr := med_inRange hM1 hmemG hcm
                  have hreg := FatLens.cluster_blocks_in_data_region gh.vol hM1.geom c q hcr.1 hcr.2 hq
                  have hneb : clusterToBlock gh.vol c + q ≠ o.1 := dirBlock_not_fileChain hM1 hid hmemo hx hobj' hd' c hcm q hq
                  exact hframe _ (by rw [show (fsOf s1 gh).vol = gh.vol from rfl, hreg]; intro e'; cases e') hneb
              have hnewabs : absSlot gh'.vol.fatType (contOf s2 gh') marked = .deleted := by
                unfold absSlot
                rw [if_pos hfirstm]
              have hslotsE := slots_edit (s' := s2) (gh' := gh') hA1 rfl hid hview' hother' hcont
              rw [hnewabs] at hslotsE
              have hA2 : Abs s2 gh' (Spec.AbsFs.setSlot a h j .deleted) := by
                refine ⟨hA1.nextId, hA1.maxDirs, hA1.maxFiles, hA1.clock, hA1.locked, ?_, hA1.dirs, ?_, hA1.ids, hslotsE⟩
                · show a.vols = [({ vi with vol := fs2.vol } : VolInfo)].map _
                  rw [hA.vols, hvs]; rfl
                · show List.Forall₂ (FileRel s2 gh') a.files s1.files
                  refine forall₂_mono hA1.files fun af1 f1 hf1 hr1 => fileRel_edit hr1 rfl hview' hother' fun hd1 hi1 => ?_
                  exfalso
                  obtain ⟨o1, ho1, hp1⟩ := hr1.slot
                  rw [hd1, hi1] at ho1
                  have : o1 = o := Option.some.inj (ho1.symm.trans hoj)
                  subst this
                  exact (pendOf_none_iff s1.files o1).1 hfree f1 hf1 hp1.symm
              refine ⟨gh', _, hI2, by show SameGeom gh.vol fs2.vol; exact hsg2, hA2, (hgoal _ _).2 (deleteS_file hctx hlkA hslotA ?_)⟩
              rw [if_neg (by rw [hopenA, hopen']; exact Bool.false_ne_true)]
              exact ⟨rfl, rfl⟩

end Sdmmc.Lemmas.AbsFs
